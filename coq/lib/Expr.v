(* Expr.v — deep embedding of the row-wise tensor expressions neurodiffeq writes.
   Hand-written, stable.  No proofs here except trivial computation lemmas, so that the
   model still evaluates when a proof elsewhere breaks.  See DESIGN.md §3.1. *)
From Coq Require Import Reals List ZArith Lia.
Import ListNotations.
Open Scope R_scope.

(* arguments of a function symbol: an autograd leaf or a real constructor parameter *)
Inductive arg := AVar (v : nat) | APar (p : nat).

Inductive expr :=
| EVar (v : nat)                     (* autograd leaf (a coordinate column or a fresh leaf) *)
| EPar (p : nat)                     (* real constructor parameter *)
| ECst (z : Z)
| ECstQ (n : Z) (d : positive)       (* decimal literal n/d *)
| EAdd (a b : expr) | ESub (a b : expr) | EMul (a b : expr) | EDiv (a b : expr)
| ENeg (a : expr) | EPow (a : expr) (n : nat)
| ESin (a : expr) | ECos (a : expr) | EExp (a : expr) | ETanh (a : expr)
| EAbs (a : expr) | ESqrt (a : expr) | ELn (a : expr)
| EFun (f : nat) (alpha : list nat) (args : list arg).
       (* alpha-th mixed partial (one order per argument slot) of symbol f at args *)

Fixpoint bump (alpha : list nat) (j : nat) : list nat :=
  match alpha, j with
  | a :: r, O => S a :: r
  | a :: r, S j' => a :: bump r j'
  | [], _ => []
  end.

Definition arg_is (a : arg) (v : nat) : bool :=
  match a with AVar w => Nat.eqb w v | APar _ => false end.

(* sum over the slots of [args] that hold leaf v of the bumped multi-index *)
Fixpoint dargs (f : nat) (alpha : list nat) (args allargs : list arg) (j : nat) (v : nat) : expr :=
  match args with
  | [] => ECst 0
  | a :: r => let rest := dargs f alpha r allargs (S j) v in
              if arg_is a v then EAdd (EFun f (bump alpha j) allargs) rest else rest
  end.

(* symbolic differentiation with respect to leaf v: the model of autograd / neurodiffeq.diff *)
Fixpoint D (v : nat) (e : expr) : expr :=
  match e with
  | EVar w => if Nat.eqb v w then ECst 1 else ECst 0
  | EPar _ | ECst _ | ECstQ _ _ => ECst 0
  | EAdd a b => EAdd (D v a) (D v b)
  | ESub a b => ESub (D v a) (D v b)
  | EMul a b => EAdd (EMul (D v a) b) (EMul a (D v b))
  | EDiv a b => EDiv (ESub (EMul (D v a) b) (EMul a (D v b))) (EMul b b)
  | ENeg a => ENeg (D v a)
  | EPow a n => match n with
                | O => ECst 0
                | S m => EMul (EMul (ECst (Z.of_nat n)) (EPow a m)) (D v a)
                end
  | ESin a => EMul (ECos a) (D v a)
  | ECos a => ENeg (EMul (ESin a) (D v a))
  | EExp a => EMul (EExp a) (D v a)
  | ETanh a => EMul (ESub (ECst 1) (EMul (ETanh a) (ETanh a))) (D v a)
  | EAbs a => EMul (EDiv a (EAbs a)) (D v a)
  | ESqrt a => EDiv (D v a) (EMul (ECst 2) (ESqrt a))
  | ELn a => EDiv (D v a) a
  | EFun f alpha args => dargs f alpha args args 0 v
  end.

Fixpoint Dn (k : nat) (v : nat) (e : expr) : expr :=
  match k with O => e | S k' => Dn k' v (D v e) end.

Section Eval.
  Variable venv : nat -> R.
  Variable penv : nat -> R.
  Variable fenv : nat -> list nat -> list R -> R.

  Definition aeval (a : arg) : R := match a with AVar v => venv v | APar p => penv p end.

  Fixpoint eval (e : expr) : R :=
    match e with
    | EVar v => venv v | EPar p => penv p | ECst z => IZR z
    | ECstQ n d => IZR n / IZR (Zpos d)
    | EAdd a b => eval a + eval b | ESub a b => eval a - eval b
    | EMul a b => eval a * eval b | EDiv a b => eval a / eval b
    | ENeg a => - eval a | EPow a n => eval a ^ n
    | ESin a => sin (eval a) | ECos a => cos (eval a) | EExp a => exp (eval a)
    | ETanh a => tanh (eval a) | EAbs a => Rabs (eval a) | ESqrt a => sqrt (eval a)
    | ELn a => ln (eval a)
    | EFun f alpha args => fenv f alpha (map aeval args)
    end.

  (* side conditions under which the real code produces no NaN/inf: the model of "defined" *)
  Fixpoint defined (e : expr) : Prop :=
    match e with
    | EVar _ | EPar _ | ECst _ | ECstQ _ _ | EFun _ _ _ => True
    | EAdd a b | ESub a b | EMul a b => defined a /\ defined b
    | EDiv a b => defined a /\ defined b /\ eval b <> 0
    | ENeg a | EPow a _ | ESin a | ECos a | EExp a | ETanh a | EAbs a => defined a
    | ESqrt a => defined a /\ 0 <= eval a
    | ELn a => defined a /\ 0 < eval a
    end.
End Eval.

(* does leaf v occur (syntactically) in e *)
Fixpoint occurs (v : nat) (e : expr) : bool :=
  match e with
  | EVar w => Nat.eqb v w
  | EPar _ | ECst _ | ECstQ _ _ => false
  | EAdd a b | ESub a b | EMul a b | EDiv a b => occurs v a || occurs v b
  | ENeg a | EPow a _ | ESin a | ECos a | EExp a | ETanh a | EAbs a | ESqrt a | ELn a => occurs v a
  | EFun _ _ args => existsb (fun a => arg_is a v) args
  end.

(* boolean equality on expr, used by generated class tables and by "same term" checks *)
Definition arg_eqb (a b : arg) : bool :=
  match a, b with
  | AVar v, AVar w => Nat.eqb v w | APar p, APar q => Nat.eqb p q | _, _ => false
  end.

Fixpoint list_eqb {A} (eqb : A -> A -> bool) (l1 l2 : list A) : bool :=
  match l1, l2 with
  | [], [] => true
  | a :: r1, b :: r2 => eqb a b && list_eqb eqb r1 r2
  | _, _ => false
  end.

Fixpoint expr_eqb (e1 e2 : expr) : bool :=
  match e1, e2 with
  | EVar v, EVar w => Nat.eqb v w
  | EPar p, EPar q => Nat.eqb p q
  | ECst a, ECst b => Z.eqb a b
  | ECstQ n d, ECstQ m c => Z.eqb n m && Pos.eqb d c
  | EAdd a b, EAdd c d | ESub a b, ESub c d | EMul a b, EMul c d | EDiv a b, EDiv c d =>
      expr_eqb a c && expr_eqb b d
  | ENeg a, ENeg b | ESin a, ESin b | ECos a, ECos b | EExp a, EExp b | ETanh a, ETanh b
  | EAbs a, EAbs b | ESqrt a, ESqrt b | ELn a, ELn b => expr_eqb a b
  | EPow a n, EPow b m => expr_eqb a b && Nat.eqb n m
  | EFun f al ar, EFun g bl br => Nat.eqb f g && list_eqb Nat.eqb al bl && list_eqb arg_eqb ar br
  | _, _ => false
  end.

Declare Scope expr_scope.
Delimit Scope expr_scope with E.
Notation "a +' b" := (EAdd a b) (at level 50, left associativity).
Notation "a -' b" := (ESub a b) (at level 50, left associativity).
Notation "a *' b" := (EMul a b) (at level 40, left associativity).
Notation "a /' b" := (EDiv a b) (at level 40, left associativity).
