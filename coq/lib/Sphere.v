(* Sphere.v — integrals of products on the sphere, from antiderivative certificates.
   Hand-written, stable.  Used by the C17 orthogonality theorems.  DESIGN.md §7 C17, §11.7. *)
From Coq Require Import Reals List Lra Lia ZArith.
From Coquelicot Require Import Coquelicot.
From ND.lib Require Import Expr ExprSound.
Import ListNotations.
Open Scope R_scope.

(* expressions differentiable everywhere: no division / abs / sqrt / ln / function symbols *)
Fixpoint smooth0 (e : Expr.expr) : Prop :=
  match e with
  | EVar _ | EPar _ | ECst _ | ECstQ _ _ => True
  | EAdd a b | ESub a b | EMul a b => smooth0 a /\ smooth0 b
  | ENeg a | EPow a _ | ESin a | ECos a | EExp a | ETanh a => smooth0 a
  | EDiv a (ECst z) => smooth0 a /\ z <> 0%Z
  | EDiv _ _ | EAbs _ | ESqrt _ | ELn _ | EFun _ _ _ => False
  end.

Definition nofenv : nat -> list nat -> list R -> R := fun _ _ _ => 0.

Lemma nofenv_coherent : coherent nofenv.
Proof. intros f al vs j x _ _. unfold nofenv. apply @is_derive_const. Qed.

Section S.
  Variable penv : nat -> R.

  Lemma smooth0_ok e : smooth0 e -> forall venv, ok penv nofenv venv e.
  Proof.
    induction e; cbn [smooth0 ok]; intros H venv; try tauto; try (intuition; fail).
    destruct e2; try tauto. destruct H as [H1 H2]. split; [auto|]. split; [exact I|].
    cbn [eval]. apply not_0_IZR. exact H2.
  Qed.

  (* certified integral: G' = e pointwise  ==>  int_a^b e = G(b) - G(a) *)
  Theorem cert_RInt venv v e G a b :
    smooth0 G -> smooth0 e ->
    (forall x, eval (upd venv v x) penv nofenv (D v G) = eval (upd venv v x) penv nofenv e) ->
    is_RInt (fun x => eval (upd venv v x) penv nofenv e) a b
            (eval (upd venv v b) penv nofenv G - eval (upd venv v a) penv nofenv G).
  Proof.
    intros HG He Heq.
    apply (is_RInt_derive (fun x => eval (upd venv v x) penv nofenv G) (fun x => eval (upd venv v x) penv nofenv e)).
    - intros x Hx. rewrite <- Heq. apply (D_sound_at penv nofenv nofenv_coherent). now apply smooth0_ok.
    - intros x Hx. apply (ex_derive_continuous (fun x => eval (upd venv v x) penv nofenv e)).
      eexists. apply (D_sound_at penv nofenv nofenv_coherent). now apply smooth0_ok.
  Qed.

  Lemma eval_continuous venv v e x : smooth0 e -> continuous (fun x => eval (upd venv v x) penv nofenv e) x.
  Proof.
    intros He. apply (ex_derive_continuous (fun x => eval (upd venv v x) penv nofenv e)).
    eexists. apply (D_sound_at penv nofenv nofenv_coherent). now apply smooth0_ok.
  Qed.
End S.

(* inner product on the unit sphere: theta in [0, pi] with weight sin theta, phi in [0, 2 pi] *)
Definition sphere_inner (f : R -> R -> R) : R :=
  RInt (fun ph => RInt (fun th => f th ph * sin th) 0 PI) 0 (2 * PI).

Lemma sphere_inner_ext f g : (forall th ph, f th ph = g th ph) -> sphere_inner f = sphere_inner g.
Proof.
  intros H. unfold sphere_inner. apply RInt_ext. intros ph _. apply RInt_ext. intros th _. now rewrite H.
Qed.

Lemma RInt_Rscal (k : R) (g : R -> R) a b l : is_RInt g a b l -> RInt (fun x => k * g x) a b = k * l.
Proof.
  intros H. apply is_RInt_unique.
  apply (is_RInt_ext (fun x => scal k (g x))). { intros x _. reflexivity. }
  change (k * l) with (scal k l). now apply @is_RInt_scal.
Qed.

(* the phi-factors are orthogonal on [0, 2 pi] *)
Lemma inner_zero_phi (f : R -> R -> R) (c : R) (T P : R -> R) :
  (forall th ph, f th ph = c * T th * P ph) ->
  (forall th, continuous T th) ->
  is_RInt P 0 (2 * PI) 0 ->
  sphere_inner f = 0.
Proof.
  intros Hf HT HP. unfold sphere_inner.
  assert (Hex : ex_RInt (fun th => T th * sin th) 0 PI).
  { apply (ex_RInt_continuous (fun th => T th * sin th)). intros th _.
    apply (continuous_mult T sin); [apply HT | apply continuous_sin]. }
  destruct Hex as [I HI].
  rewrite (RInt_ext _ (fun ph => (c * I) * P ph)).
  - rewrite (RInt_Rscal (c * I) P 0 (2 * PI) 0 HP). apply Rmult_0_r.
  - intros ph _.
    rewrite (RInt_ext _ (fun th => (c * P ph) * (T th * sin th))).
    + rewrite (RInt_Rscal (c * P ph) _ 0 PI I HI). change (c * P ph * I = c * I * P ph). ring.
    + intros th _. rewrite Hf. change (c * T th * P ph * sin th = c * P ph * (T th * sin th)). ring.
Qed.

(* the theta-factors are orthogonal on [0, pi] with weight sin theta *)
Lemma inner_zero_theta (f : R -> R -> R) (c : R) (T P : R -> R) :
  (forall th ph, f th ph = c * T th * P ph) ->
  is_RInt (fun th => T th * sin th) 0 PI 0 ->
  sphere_inner f = 0.
Proof.
  intros Hf HT. unfold sphere_inner.
  rewrite (RInt_ext _ (fun _ => 0 * 1)).
  - rewrite (RInt_Rscal 0 (fun _ => 1) 0 (2 * PI) (2 * PI - 0)). apply Rmult_0_l.
    apply (is_RInt_ext (fun _ => 1)). { intros; reflexivity. }
    evar_last. apply @is_RInt_const. unfold scal; cbn; unfold mult; cbn. ring.
  - intros ph _.
    rewrite (RInt_ext _ (fun th => (c * P ph) * (T th * sin th))).
    + rewrite (RInt_Rscal (c * P ph) _ 0 PI 0 HT). change (c * P ph * 0 = 0 * 1). ring.
    + intros th _. rewrite Hf. change (c * T th * P ph * sin th = c * P ph * (T th * sin th)). ring.
Qed.

(* general value of the iterated integral of a product c * T(theta) * P(phi) *)
Lemma inner_value (f : R -> R -> R) (c : R) (T P : R -> R) (It Ip : R) :
  (forall th ph, f th ph = c * T th * P ph) ->
  is_RInt (fun th => T th * sin th) 0 PI It ->
  is_RInt P 0 (2 * PI) Ip ->
  sphere_inner f = c * It * Ip.
Proof.
  intros Hf HT HP. unfold sphere_inner.
  rewrite (RInt_ext _ (fun ph => (c * It) * P ph)).
  - rewrite (RInt_Rscal (c * It) P 0 (2 * PI) Ip HP). reflexivity.
  - intros ph _.
    rewrite (RInt_ext _ (fun th => (c * P ph) * (T th * sin th))).
    + rewrite (RInt_Rscal (c * P ph) _ 0 PI It HT). change (c * P ph * It = c * It * P ph). ring.
    + intros th _. rewrite Hf. change (c * T th * P ph * sin th = c * P ph * (T th * sin th)). ring.
Qed.
