(* Non-vacuity of the hypothesis [coherent fenv] that the analytic theorems carry: besides the trivial
   all-zero jets there is a non-constant smooth witness in any number of arguments,
   f(x_1..x_n) = exp (x_1 + ... + x_n), all of whose partial derivatives are f itself. *)
From Coq Require Import Reals List Lra Lia.
From Coquelicot Require Import Coquelicot.
From ND.lib Require Import Expr ExprSound.
Import ListNotations.
Open Scope R_scope.

Fixpoint sumR (l : list R) : R := match l with [] => 0 | a :: r => a + sumR r end.

Definition expfenv : nat -> list nat -> list R -> R := fun _ _ vs => exp (sumR vs).

Lemma sumR_set_nth vs : forall j h, (j < length vs)%nat ->
  sumR (set_nth vs j h) = h + (sumR vs - nth j vs 0).
Proof.
  induction vs as [|a r IH]; intros j h Hj; cbn [length] in Hj; [lia|].
  destruct j as [|j]; cbn [set_nth sumR nth].
  - ring.
  - rewrite IH by lia. ring.
Qed.

Lemma expfenv_coherent : coherent expfenv.
Proof.
  intros f al vs j x Hj _. unfold expfenv.
  rewrite (sumR_set_nth vs j x Hj).
  apply (is_derive_ext (fun h => exp (h + (sumR vs - nth j vs 0)))).
  - intros h. now rewrite (sumR_set_nth vs j h Hj).
  - auto_derive; [exact I|]. ring.
Qed.

Example coherent_nontrivial :
  coherent expfenv /\ expfenv 0%nat [0%nat] [0] = 1 /\ expfenv 0%nat [0%nat] [1] <> expfenv 0%nat [0%nat] [0].
Proof.
  split; [exact expfenv_coherent|]. unfold expfenv; cbn [sumR]. split.
  - replace (0 + 0) with 0 by ring. apply exp_0.
  - replace (1 + 0) with 1 by ring. replace (0 + 0) with 0 by ring. rewrite exp_0.
    pose proof (exp_ineq1 1 ltac:(lra)). lra.
Qed.
