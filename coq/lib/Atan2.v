(* A concrete two-argument arctangent over the Coq reals, with the contract the C09 conversion
   theorems assume of torch.atan2 proved for it: the contract is satisfiable, and the conversion
   theorems hold unconditionally for this function. *)
From Coq Require Import Reals Lra Field.
Open Scope R_scope.

Definition atan2 (y x : R) : R :=
  if Rlt_dec 0 x then atan (y / x)
  else if Rlt_dec x 0 then (if Rle_dec 0 y then atan (y / x) + PI else atan (y / x) - PI)
  else if Rlt_dec 0 y then PI / 2 else if Rlt_dec y 0 then - (PI / 2) else 0.

Lemma atan2_right y x : 0 < x -> atan2 y x = atan (y / x).
Proof. intros H. unfold atan2. destruct (Rlt_dec 0 x); [reflexivity | lra]. Qed.
Lemma atan2_left_up y x : x < 0 -> 0 <= y -> atan2 y x = atan (y / x) + PI.
Proof. intros H Hy. unfold atan2. destruct (Rlt_dec 0 x); [lra|]. destruct (Rlt_dec x 0); [|lra]. destruct (Rle_dec 0 y); [reflexivity | lra]. Qed.
Lemma atan2_left_down y x : x < 0 -> y < 0 -> atan2 y x = atan (y / x) - PI.
Proof. intros H Hy. unfold atan2. destruct (Rlt_dec 0 x); [lra|]. destruct (Rlt_dec x 0); [|lra]. destruct (Rle_dec 0 y); [lra | reflexivity]. Qed.
Lemma atan2_axis_up y : 0 < y -> atan2 y 0 = PI / 2.
Proof. intros H. unfold atan2. destruct (Rlt_dec 0 0); [lra|]. destruct (Rlt_dec 0 y); [reflexivity | lra]. Qed.
Lemma atan2_axis_down y : y < 0 -> atan2 y 0 = - (PI / 2).
Proof. intros H. unfold atan2. destruct (Rlt_dec 0 0); [lra|]. destruct (Rlt_dec 0 y); [lra|]. destruct (Rlt_dec y 0); [reflexivity | lra]. Qed.
Lemma atan2_origin : atan2 0 0 = 0.
Proof. unfold atan2. destruct (Rlt_dec 0 0); [lra|]. reflexivity. Qed.

Lemma sqrt_ratio y x : x <> 0 -> sqrt (1 + (y / x)²) * Rabs x = sqrt (x * x + y * y).
Proof.
  intros Hx. rewrite <- (sqrt_Rsqr_abs x). rewrite <- sqrt_mult.
  - f_equal. unfold Rsqr. field. exact Hx.
  - unfold Rsqr. assert (0 <= y / x * (y / x)) by apply Rle_0_sqr. lra.
  - apply Rle_0_sqr.
Qed.

Lemma norm_pos y x : x * x + y * y <> 0 -> 0 < sqrt (x * x + y * y).
Proof. intros H. apply sqrt_lt_R0. assert (0 <= x * x) by apply Rle_0_sqr. assert (0 <= y * y) by apply Rle_0_sqr. lra. Qed.

Lemma root_pos t : 0 < sqrt (1 + t²).
Proof. apply sqrt_lt_R0. assert (0 <= t²) by apply Rle_0_sqr. lra. Qed.

Theorem atan2_cos y x : x * x + y * y <> 0 -> cos (atan2 y x) = x / sqrt (x * x + y * y).
Proof.
  intros H. pose proof (norm_pos y x H) as Hn.
  destruct (Rtotal_order 0 x) as [Hx | [Hx | Hx]].
  - rewrite atan2_right by exact Hx. rewrite cos_atan.
    rewrite <- (sqrt_ratio y x) by lra. rewrite Rabs_right by lra.
    pose proof (root_pos (y / x)). field. lra.
  - subst x. destruct (Rtotal_order 0 y) as [Hy | [Hy | Hy]].
    + rewrite atan2_axis_up by exact Hy. rewrite cos_PI2. field. lra.
    + subst y. exfalso. apply H. ring.
    + rewrite atan2_axis_down by exact Hy. rewrite cos_neg, cos_PI2. field. lra.
  - pose proof (root_pos (y / x)) as Hr.
    assert (Hs : sqrt (x * x + y * y) = sqrt (1 + (y / x)²) * - x)
      by (rewrite <- (sqrt_ratio y x) by lra; rewrite Rabs_left by lra; reflexivity).
    destruct (Rle_dec 0 y) as [Hy | Hy].
    + rewrite atan2_left_up by lra. rewrite neg_cos, cos_atan. rewrite Hs. field. lra.
    + rewrite atan2_left_down by lra. unfold Rminus. rewrite <- (cos_neg (_ + - PI)).
      replace (- (atan (y / x) + - PI)) with (- atan (y / x) + PI) by ring.
      rewrite neg_cos, cos_neg, cos_atan. rewrite Hs. field. lra.
Qed.

Theorem atan2_sin y x : x * x + y * y <> 0 -> sin (atan2 y x) = y / sqrt (x * x + y * y).
Proof.
  intros H. pose proof (norm_pos y x H) as Hn.
  destruct (Rtotal_order 0 x) as [Hx | [Hx | Hx]].
  - rewrite atan2_right by exact Hx. rewrite sin_atan.
    rewrite <- (sqrt_ratio y x) by lra. rewrite Rabs_right by lra.
    pose proof (root_pos (y / x)). field. lra.
  - subst x. destruct (Rtotal_order 0 y) as [Hy | [Hy | Hy]].
    + rewrite atan2_axis_up by exact Hy. rewrite sin_PI2.
      replace (0 * 0 + y * y) with (y * y) by ring. rewrite sqrt_square by lra. field. lra.
    + subst y. exfalso. apply H. ring.
    + rewrite atan2_axis_down by exact Hy. rewrite sin_neg, sin_PI2.
      replace (0 * 0 + y * y) with ((- y) * (- y)) by ring. rewrite sqrt_square by lra. field. lra.
  - pose proof (root_pos (y / x)) as Hr.
    assert (Hs : sqrt (x * x + y * y) = sqrt (1 + (y / x)²) * - x)
      by (rewrite <- (sqrt_ratio y x) by lra; rewrite Rabs_left by lra; reflexivity).
    destruct (Rle_dec 0 y) as [Hy | Hy].
    + rewrite atan2_left_up by lra. rewrite neg_sin, sin_atan. rewrite Hs. field. lra.
    + rewrite atan2_left_down by lra.
      replace (atan (y / x) - PI) with (- (- atan (y / x) + PI)) by ring.
      rewrite sin_neg, neg_sin, sin_neg, sin_atan. rewrite Hs. field. lra.
Qed.

Lemma atan_nonneg t : 0 <= t -> 0 <= atan t.
Proof. intros [H | H]; [left; rewrite <- atan_0; apply atan_increasing; exact H | subst; rewrite atan_0; lra]. Qed.
Lemma atan_nonpos t : t <= 0 -> atan t <= 0.
Proof. intros [H | H]; [left; rewrite <- atan_0; apply atan_increasing; exact H | subst; rewrite atan_0; lra]. Qed.
Lemma atan_pos t : 0 < t -> 0 < atan t.
Proof. intros H. rewrite <- atan_0. apply atan_increasing; exact H. Qed.

Theorem atan2_range y x : - PI < atan2 y x <= PI.
Proof.
  pose proof PI_RGT_0 as Hpi.
  destruct (Rtotal_order 0 x) as [Hx | [Hx | Hx]].
  - rewrite atan2_right by exact Hx. pose proof (atan_bound (y / x)). lra.
  - subst x. destruct (Rtotal_order 0 y) as [Hy | [Hy | Hy]].
    + rewrite atan2_axis_up by exact Hy. lra.
    + subst y. rewrite atan2_origin. lra.
    + rewrite atan2_axis_down by exact Hy. lra.
  - pose proof (atan_bound (y / x)) as Hb. destruct (Rle_dec 0 y) as [Hy | Hy].
    + rewrite atan2_left_up by lra.
      assert (atan (y / x) <= 0).
      { apply atan_nonpos. unfold Rdiv. assert (/ x < 0) by (apply Rinv_lt_0_compat; lra). nra. }
      lra.
    + rewrite atan2_left_down by lra.
      assert (0 < atan (y / x)).
      { apply atan_pos. unfold Rdiv. assert (/ x < 0) by (apply Rinv_lt_0_compat; lra). nra. }
      lra.
Qed.

Theorem atan2_upper y x : 0 <= y -> 0 <= atan2 y x.
Proof.
  intros Hy. pose proof PI_RGT_0 as Hpi.
  destruct (Rtotal_order 0 x) as [Hx | [Hx | Hx]].
  - rewrite atan2_right by exact Hx. apply atan_nonneg. unfold Rdiv.
    assert (0 < / x) by (apply Rinv_0_lt_compat; lra). nra.
  - subst x. destruct Hy as [Hy | Hy].
    + rewrite atan2_axis_up by exact Hy. lra.
    + subst y. rewrite atan2_origin. lra.
  - rewrite atan2_left_up by lra. pose proof (atan_bound (y / x)). lra.
Qed.
