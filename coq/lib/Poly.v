(* Poly.v — a small certified normaliser for expressions that are polynomials in one leaf with rational
   coefficients: [pnorm v e = Some p] implies [eval e = peval p (venv v)].  Used where ring/field on the
   unfolded term would be too large (Legendre polynomials written as Bonnet's recurrence, and their symbolic
   derivatives): the identity is decided by computing coefficients with vm_compute. *)
From Coq Require Import Reals QArith Qreals List Lia Lra ZArith Bool.
From ND.lib Require Import Expr.
Import ListNotations.
Open Scope R_scope.

Definition poly := list Q.          (* coefficients, constant term first *)

Fixpoint padd (p q : poly) : poly :=
  match p, q with
  | [], _ => q | _, [] => p
  | a :: p', b :: q' => Qred (a + b) :: padd p' q'
  end.
Definition pscale (c : Q) (p : poly) : poly := map (fun a => Qred (c * a)) p.
Fixpoint pmul (p q : poly) : poly :=
  match p with [] => [] | a :: p' => padd (pscale a q) (0%Q :: pmul p' q) end.
Fixpoint ppow (p : poly) (n : nat) : poly := match n with O => [1%Q] | S m => pmul p (ppow p m) end.
Fixpoint peval (p : poly) (x : R) : R := match p with [] => 0 | a :: p' => Q2R a + x * peval p' x end.
Definition pzero (p : poly) : bool := forallb (fun c => Qeq_bool c 0) p.
Definition psum (p : poly) : Q := fold_right Qplus 0%Q p.

Fixpoint pnorm (v : nat) (e : expr) : option poly :=
  match e with
  | EVar w => if Nat.eqb w v then Some [0%Q; 1%Q] else None
  | ECst z => Some [inject_Z z]
  | ECstQ n d => Some [(n # d)%Q]
  | EAdd a b => match pnorm v a, pnorm v b with Some p, Some q => Some (padd p q) | _, _ => None end
  | ESub a b => match pnorm v a, pnorm v b with Some p, Some q => Some (padd p (pscale (-1) q)) | _, _ => None end
  | EMul a b => match pnorm v a, pnorm v b with Some p, Some q => Some (pmul p q) | _, _ => None end
  | ENeg a => match pnorm v a with Some p => Some (pscale (-1) p) | None => None end
  | EPow a n => match pnorm v a with Some p => Some (ppow p n) | None => None end
  | EDiv a b => match pnorm v a, pnorm v b with
                | Some p, Some [c] => if Qeq_bool c 0 then None else Some (pscale (/ c) p)
                | _, _ => None
                end
  | _ => None
  end.

Lemma peval_padd p : forall q x, peval (padd p q) x = peval p x + peval q x.
Proof.
  induction p as [|a p IH]; intros [|b q] x; cbn [padd peval]; try ring.
  rewrite IH, (Qeq_eqR _ _ (Qred_correct (a + b))), Q2R_plus. ring.
Qed.
Lemma peval_pscale c p x : peval (pscale c p) x = Q2R c * peval p x.
Proof. induction p as [|a p IH]; cbn [pscale map peval]; [ring|]. fold (pscale c p). rewrite IH, (Qeq_eqR _ _ (Qred_correct (c * a))), Q2R_mult. ring. Qed.
Lemma peval_pmul p : forall q x, peval (pmul p q) x = peval p x * peval q x.
Proof.
  induction p as [|a p IH]; intros q x; cbn [pmul peval]; [ring|].
  rewrite peval_padd, peval_pscale. cbn [peval]. rewrite IH. rewrite RMicromega.Q2R_0. ring.
Qed.
Lemma peval_ppow p n x : peval (ppow p n) x = peval p x ^ n.
Proof.
  induction n as [|n IH]; cbn [ppow pow].
  - cbn [peval]. rewrite RMicromega.Q2R_1. ring.
  - rewrite peval_pmul, IH. ring.
Qed.

Lemma Q2R_m1 : Q2R (-1) = -1.
Proof. unfold Q2R; cbn [Qnum Qden]. lra. Qed.

Lemma Q2R_inject_Z z : Q2R (inject_Z z) = IZR z.
Proof. unfold Q2R, inject_Z; cbn. field. Qed.

Section Sound.
  Variable venv : nat -> R.
  Variable penv : nat -> R.
  Variable fenv : nat -> list nat -> list R -> R.

  Lemma pnorm_sound v : forall e pl, pnorm v e = Some pl -> eval venv penv fenv e = peval pl (venv v).
  Proof.
    induction e; cbn [pnorm]; intros pl H; try discriminate.
    - destruct (Nat.eqb_spec v0 v); [|discriminate]. injection H as <-. subst. cbn [peval eval].
      rewrite RMicromega.Q2R_0, RMicromega.Q2R_1. ring.
    - injection H as <-. cbn [peval eval]. rewrite Q2R_inject_Z. ring.
    - injection H as <-. cbn [peval eval]. unfold Q2R; cbn [Qnum Qden]. unfold Rdiv. ring.
    - destruct (pnorm v e1) as [p1|]; [|discriminate]. destruct (pnorm v e2) as [p2|]; [|discriminate].
      injection H as <-. cbn [eval]. rewrite peval_padd, (IHe1 _ eq_refl), (IHe2 _ eq_refl). ring.
    - destruct (pnorm v e1) as [p1|]; [|discriminate]. destruct (pnorm v e2) as [p2|]; [|discriminate].
      injection H as <-. cbn [eval]. rewrite peval_padd, peval_pscale, (IHe1 _ eq_refl), (IHe2 _ eq_refl).
      rewrite Q2R_m1. ring.
    - destruct (pnorm v e1) as [p1|]; [|discriminate]. destruct (pnorm v e2) as [p2|]; [|discriminate].
      injection H as <-. cbn [eval]. rewrite peval_pmul, (IHe1 _ eq_refl), (IHe2 _ eq_refl). ring.
    - destruct (pnorm v e1) as [p1|]; [|discriminate]. destruct (pnorm v e2) as [[|c [|? ?]]|]; try discriminate.
      destruct (Qeq_bool c 0) eqn:Hc; [discriminate|]. injection H as <-. cbn [eval].
      rewrite peval_pscale, (IHe1 _ eq_refl), (IHe2 _ eq_refl). cbn [peval].
      assert (Hn : ~ (c == 0)%Q) by (intro Hq; apply Qeq_bool_iff in Hq; congruence).
      rewrite Q2R_inv by exact Hn. unfold Rdiv. replace (Q2R c + venv v * 0) with (Q2R c) by ring. ring.
    - destruct (pnorm v e) as [p1|]; [|discriminate]. injection H as <-. cbn [eval].
      rewrite peval_pscale, (IHe _ eq_refl), Q2R_m1. ring.
    - destruct (pnorm v e) as [p1|]; [|discriminate]. injection H as <-. cbn [eval].
      rewrite peval_ppow, (IHe _ eq_refl). reflexivity.
  Qed.

  Lemma peval_zero p x : pzero p = true -> peval p x = 0.
  Proof.
    induction p as [|a p IH]; cbn [pzero forallb peval]; intros H; [reflexivity|].
    apply andb_true_iff in H as [Ha Hp]. apply Qeq_bool_iff in Ha. rewrite (Qeq_eqR _ _ Ha), RMicromega.Q2R_0.
    fold (pzero p) in Hp. rewrite (IH Hp). ring.
  Qed.

  Lemma peval_one p : peval p 1 = Q2R (psum p).
  Proof. induction p as [|a p IH]; cbn [peval psum fold_right]; [now rewrite RMicromega.Q2R_0|]. fold (psum p). rewrite Q2R_plus, IH. ring. Qed.

  (* the two decision procedures used by the proofs: "this expression is the zero polynomial in leaf v" and
     "its value at leaf v = 1 is the rational q" *)
  Definition is_zero_poly (v : nat) (e : expr) : bool :=
    match pnorm v e with Some p => pzero p | None => false end.
  Definition value_at_one (v : nat) (e : expr) (q : Q) : bool :=
    match pnorm v e with Some p => Qeq_bool (psum p) q | None => false end.

  Lemma is_zero_poly_sound v e : is_zero_poly v e = true -> eval venv penv fenv e = 0.
  Proof.
    unfold is_zero_poly. destruct (pnorm v e) as [p|] eqn:Hp; [|discriminate]. intros Hz.
    rewrite (pnorm_sound v e p Hp). now apply peval_zero.
  Qed.

  Lemma value_at_one_sound v e q : value_at_one v e q = true -> venv v = 1 -> eval venv penv fenv e = Q2R q.
  Proof.
    unfold value_at_one. destruct (pnorm v e) as [p|] eqn:Hp; [|discriminate]. intros Hq H1.
    rewrite (pnorm_sound v e p Hp), H1, peval_one. apply Qeq_eqR. now apply Qeq_bool_iff.
  Qed.
End Sound.
