(* ExprLemmas.v — general facts about expr, D, eval, expr_eqb used by several properties. *)
From Coq Require Import Reals List ZArith Bool Lia.
From ND.lib Require Import Expr.
Import ListNotations.
Open Scope R_scope.

Section Ev.
  Variable venv penv : nat -> R.
  Variable fenv : nat -> list nat -> list R -> R.
  Notation ev := (eval venv penv fenv).

  Lemma dargs_zero f al args all j v : existsb (fun a => arg_is a v) args = false ->
    ev (dargs f al args all j v) = 0.
  Proof.
    revert j. induction args as [|a r IH]; intros j H; cbn [dargs]; [reflexivity|].
    cbn [existsb] in H. apply orb_false_iff in H as [Ha Hr]. rewrite Ha. now apply IH.
  Qed.

  (* the derivative with respect to a leaf that does not occur is zero *)
  Theorem D_independent_zero v e : occurs v e = false -> ev (D v e) = 0.
  Proof.
    induction e; cbn [occurs D]; intros H;
      try (apply orb_false_iff in H as [H1 H2]; specialize (IHe1 H1); specialize (IHe2 H2));
      cbn [eval]; rewrite ?IHe1, ?IHe2, ?IHe by auto; try ring.
    - rewrite H. reflexivity.
    - unfold Rdiv. ring.
    - destruct n; cbn [eval]; rewrite ?IHe by auto; ring.
    - unfold Rdiv. ring.
    - unfold Rdiv. ring.
    - now apply dargs_zero.
  Qed.
End Ev.

Lemma expr_eqb_eq : forall e1 e2, expr_eqb e1 e2 = true -> e1 = e2.
Proof.
  assert (Hl : forall (l1 l2 : list nat), list_eqb Nat.eqb l1 l2 = true -> l1 = l2).
  { induction l1 as [|a r IH]; destruct l2; cbn; try discriminate; auto.
    intros H. apply andb_true_iff in H as [Ha Hr]. apply Nat.eqb_eq in Ha. f_equal; auto. }
  assert (Ha : forall (l1 l2 : list arg), list_eqb arg_eqb l1 l2 = true -> l1 = l2).
  { induction l1 as [|a r IH]; destruct l2 as [|b r2]; cbn; try discriminate; auto.
    intros H. apply andb_true_iff in H as [H1 H2]. f_equal; auto.
    destruct a, b; cbn in H1; try discriminate; apply Nat.eqb_eq in H1; now subst. }
  induction e1; destruct e2; cbn [expr_eqb]; try discriminate; intros H;
    repeat match goal with
    | H : (_ && _)%bool = true |- _ => apply andb_true_iff in H as [? ?]
    | H : Nat.eqb _ _ = true |- _ => apply Nat.eqb_eq in H
    | H : Z.eqb _ _ = true |- _ => apply Z.eqb_eq in H
    | H : Pos.eqb _ _ = true |- _ => apply Pos.eqb_eq in H
    end; subst; try reflexivity; f_equal; auto.
Qed.
