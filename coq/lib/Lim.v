(* Lim.v — the infinite-domain reparameterisation tends to g as r -> infinity (C11).
   Hand-written, stable (spiked in the design round).  u is the real function computed by
   InfDirichletBVPSpherical(.Basis).parameterize for fixed angles. *)
From Coq Require Import Reals Lra Lia.
From Coquelicot Require Import Coquelicot.
Open Scope R_scope.

Lemma exp_small a delta : 0 < a -> 0 < delta -> forall d x, - ln delta / a < d -> x = - (a * d) -> exp x < delta.
Proof.
  intros Ha Hd d x H ->.
  replace delta with (exp (ln delta)) by (apply exp_ln; assumption).
  apply exp_increasing.
  apply (Rmult_lt_compat_l a) in H; [|assumption].
  replace (a * (- ln delta / a)) with (- ln delta) in H by (field; lra). lra.
Qed.

Lemma tanh_bounds d : 0 < d -> 0 < tanh d < 1 /\ 1 - tanh d <= 2 * exp (- 2 * d).
Proof.
  intros Hd. unfold tanh, sinh, cosh.
  assert (Hp := exp_pos d). assert (Hm := exp_pos (-d)).
  assert (Hlt : exp (-d) < exp d) by (apply exp_increasing; lra).
  assert (He : exp (-2*d) = exp (-d) * exp (-d)) by (rewrite <- exp_plus; f_equal; ring).
  assert (Hinv : exp (-d) * exp d = 1) by (rewrite <- exp_plus; replace (-d + d) with 0 by ring; apply exp_0).
  set (p := exp d) in *. set (m := exp (-d)) in *.
  replace ((p - m) / 2 / ((p + m) / 2)) with ((p - m) / (p + m)) by (field; lra).
  assert (Hpm : 0 < p + m) by lra.
  repeat split.
  - apply Rdiv_lt_0_compat; lra.
  - apply (Rmult_lt_reg_r (p + m)); [assumption|]. unfold Rdiv. rewrite Rmult_assoc, Rinv_l by lra. lra.
  - rewrite He.
    replace (1 - (p - m) / (p + m)) with (2 * m / (p + m)) by (field; lra).
    apply (Rmult_le_reg_r (p + m)); [assumption|]. unfold Rdiv. rewrite Rmult_assoc, Rinv_l by lra.
    nra.
Qed.

Definition inf_u (r0 k f g : R) (N : R -> R) (r : R) : R :=
  f * exp (- k * (r - r0)) + g * tanh (r - r0) + exp (- k * (r - r0)) * tanh (r - r0) * N r.

Theorem inf_limit r0 k f g N M :
  0 < k -> (forall r, Rabs (N r) <= M) ->
  is_lim (inf_u r0 k f g N) p_infty g.
Proof.
  intros Hk HN. apply is_lim_spec. intros eps. cbn.
  assert (HM : 0 <= M) by (specialize (HN 0); pose proof (Rabs_pos (N 0)); lra).
  set (A := Rabs f + M + 1). set (B := 2 * (Rabs g + 1)).
  assert (HA : 0 < A) by (unfold A; pose proof (Rabs_pos f); lra).
  assert (HB : 0 < B) by (unfold B; pose proof (Rabs_pos g); lra).
  assert (He : 0 < eps) by apply cond_pos.
  set (d1 := - ln (eps / (2 * A)) / k). set (d2 := - ln (eps / (2 * B)) / 2).
  exists (r0 + Rmax 0 (Rmax d1 d2)). intros r Hr.
  set (d := r - r0).
  assert (Hd0 : 0 < d) by (unfold d; pose proof (Rmax_l 0 (Rmax d1 d2)); lra).
  assert (Hd1 : d1 < d). { unfold d. pose proof (Rmax_r 0 (Rmax d1 d2)). pose proof (Rmax_l d1 d2). lra. }
  assert (Hd2 : d2 < d). { unfold d. pose proof (Rmax_r 0 (Rmax d1 d2)). pose proof (Rmax_r d1 d2). lra. }
  assert (HE : exp (- k * d) < eps / (2 * A)).
  { apply (exp_small k _ Hk) with (d := d); [apply Rdiv_lt_0_compat; lra | exact Hd1 | ring]. }
  assert (HT : exp (- 2 * d) < eps / (2 * B)).
  { apply (exp_small 2) with (d := d); [lra | apply Rdiv_lt_0_compat; lra | exact Hd2 | ring]. }
  destruct (tanh_bounds d Hd0) as [[Ht0 Ht1] Ht2].
  unfold inf_u. fold d.
  set (E := exp (- k * d)) in *. set (T := tanh d) in *.
  assert (HEpos : 0 < E) by apply exp_pos.
  replace (f * E + g * T + E * T * N r - g) with (f * E + g * (T - 1) + E * T * N r) by ring.
  eapply Rle_lt_trans. apply Rabs_triang.
  eapply Rle_lt_trans. apply Rplus_le_compat_r. apply Rabs_triang.
  rewrite !Rabs_mult.
  rewrite (Rabs_pos_eq E) by lra. rewrite (Rabs_pos_eq T) by lra.
  replace (Rabs (T - 1)) with (1 - T) by (rewrite Rabs_left; lra).
  specialize (HN r).
  assert (H1 : Rabs f * E + E * T * Rabs (N r) <= A * E).
  { unfold A. assert (E * T * Rabs (N r) <= E * M).
    { rewrite Rmult_assoc. apply Rmult_le_compat_l; [lra|]. pose proof (Rabs_pos (N r)). nra. }
    pose proof (Rabs_pos f). nra. }
  assert (H2 : Rabs g * (1 - T) <= (B / 2) * (2 * exp (-2 * d))).
  { unfold B. pose proof (Rabs_pos g). pose proof (exp_pos (-2*d)). nra. }
  assert (H3 : A * E < eps / 2).
  { apply (Rmult_lt_compat_l A) in HE; [|assumption]. replace (A * (eps / (2 * A))) with (eps / 2) in HE by (field; lra). exact HE. }
  assert (H4 : B / 2 * (2 * exp (-2 * d)) < eps / 2).
  { apply (Rmult_lt_compat_l B) in HT; [|assumption]. replace (B * (eps / (2 * B))) with (eps / 2) in HT by (field; lra). lra. }
  lra.
Qed.
