(* ExprSound.v — soundness of the symbolic derivative D against Coquelicot's is_derive.
   Hand-written, stable.  DESIGN.md §3.1. *)
From Coq Require Import Reals List Lra Lia ZArith.
From Coquelicot Require Import Coquelicot.
From ND.lib Require Import Expr.
Import ListNotations.
Open Scope R_scope.

Definition upd (venv : nat -> R) (v : nat) (h : R) : nat -> R :=
  fun w => if Nat.eqb w v then h else venv w.

Fixpoint set_nth (l : list R) (j : nat) (h : R) : list R :=
  match l, j with
  | [], _ => []
  | _ :: r, O => h :: r
  | a :: r, S j' => a :: set_nth r j' h
  end.

(* the jets of every symbol really are its slot derivatives *)
Definition coherent (fenv : nat -> list nat -> list R -> R) : Prop :=
  forall f alpha vs j x, (j < length vs)%nat -> length alpha = length vs ->
    is_derive (fun h => fenv f alpha (set_nth vs j h)) x (fenv f (bump alpha j) (set_nth vs j x)).

Fixpoint avars (args : list arg) : list nat :=
  match args with
  | [] => []
  | AVar v :: r => v :: avars r
  | APar _ :: r => avars r
  end.

Lemma upd_same venv v : forall w, upd venv v (venv v) w = venv w.
Proof. intros w; unfold upd; destruct (Nat.eqb_spec w v); subst; auto. Qed.

Lemma upd_upd venv v x h : forall w, upd (upd venv v x) v h w = upd venv v h w.
Proof. intros w; unfold upd; destruct (Nat.eqb w v); auto. Qed.

Lemma upd_eq venv v h : upd venv v h v = h.
Proof. unfold upd; now rewrite Nat.eqb_refl. Qed.

Lemma upd_neq venv v h w : w <> v -> upd venv v h w = venv w.
Proof. unfold upd; intros; destruct (Nat.eqb_spec w v); congruence. Qed.

Lemma is_derive_tanh x : is_derive tanh x (1 - tanh x * tanh x).
Proof.
  unfold tanh.
  assert (Hc : cosh x <> 0).
  { unfold cosh. pose proof (exp_pos x). pose proof (exp_pos (-x)). lra. }
  evar_last.
  apply (is_derive_div sinh cosh x (cosh x) (sinh x)).
  - apply is_derive_Reals. apply derivable_pt_lim_sinh.
  - apply is_derive_Reals. apply derivable_pt_lim_cosh.
  - exact Hc.
  - unfold minus, plus, opp, mult, scal; cbn. unfold mult; cbn. field. exact Hc.
Qed.

Lemma sign_div x : x <> 0 -> sign x = x / Rabs x.
Proof.
  intros Hx. destruct (Rlt_or_le 0 x) as [H|H].
  - rewrite sign_eq_1 by auto. rewrite Rabs_pos_eq by lra. field; lra.
  - assert (x < 0) by lra. rewrite sign_eq_m1 by auto. rewrite Rabs_left by auto. field; lra.
Qed.

Section S.
  Variable penv : nat -> R.
  Variable fenv : nat -> list nat -> list R -> R.
  Hypothesis Hcoh : coherent fenv.

  (* side conditions for differentiability at the point *)
  Fixpoint ok (venv : nat -> R) (e : expr) : Prop :=
    match e with
    | EVar _ | EPar _ | ECst _ | ECstQ _ _ => True
    | EAdd a b | ESub a b | EMul a b => ok venv a /\ ok venv b
    | EDiv a b => ok venv a /\ ok venv b /\ eval venv penv fenv b <> 0
    | ENeg a | EPow a _ | ESin a | ECos a | EExp a | ETanh a => ok venv a
    | EAbs a => ok venv a /\ eval venv penv fenv a <> 0
    | ESqrt a | ELn a => ok venv a /\ 0 < eval venv penv fenv a
    | EFun f alpha args => NoDup (avars args) /\ length alpha = length args
    end.

  Lemma aeval_upd_notin venv v h a : arg_is a v = false -> aeval (upd venv v h) penv a = aeval venv penv a.
  Proof.
    destruct a as [w|p]; cbn; auto. intros H. apply upd_neq. now apply Nat.eqb_neq.
  Qed.

  Lemma map_upd_notin venv v h args :
    ~ In v (avars args) -> map (aeval (upd venv v h) penv) args = map (aeval venv penv) args.
  Proof.
    induction args as [|a r IH]; cbn; intros Hn; auto.
    destruct a as [w|p]; cbn in *.
    - f_equal. apply upd_neq. intro; subst; apply Hn; auto. apply IH. intro; apply Hn; auto.
    - f_equal. apply IH. exact Hn.
  Qed.

  Lemma eval_ext venv1 venv2 e :
    (forall w, venv1 w = venv2 w) -> eval venv1 penv fenv e = eval venv2 penv fenv e.
  Proof.
    intros H; induction e; cbn; try congruence.
    f_equal. apply map_ext. intros [w|p]; cbn; auto.
  Qed.

  Lemma eval_upd_same venv v e : eval (upd venv v (venv v)) penv fenv e = eval venv penv fenv e.
  Proof. apply eval_ext, upd_same. Qed.

  Lemma dargs_notin f alpha args allargs j v venv :
    ~ In v (avars args) -> eval venv penv fenv (dargs f alpha args allargs j v) = 0.
  Proof.
    revert j; induction args as [|a r IH]; intros j Hn; cbn [dargs]; [reflexivity|].
    destruct a as [w|p]; cbn [arg_is].
    - destruct (Nat.eqb_spec w v); subst. exfalso; apply Hn; cbn; auto.
      apply IH. cbn in Hn; intuition.
    - apply IH. exact Hn.
  Qed.

  Lemma avars_app l1 l2 : avars (l1 ++ l2) = avars l1 ++ avars l2.
  Proof. induction l1 as [|[w|p] r IH]; cbn; auto. now rewrite IH. Qed.

  Lemma fun_derive venv v f alpha allargs :
    NoDup (avars allargs) -> length alpha = length allargs ->
    forall pre args, allargs = pre ++ args -> ~ In v (avars pre) ->
    is_derive (fun h => fenv f alpha (map (aeval (upd venv v h) penv) allargs)) (venv v)
              (eval venv penv fenv (dargs f alpha args allargs (length pre) v)).
  Proof.
    intros Hnd Hlen pre args; revert pre.
    induction args as [|a r IH]; intros pre Heq Hpre.
    - cbn. rewrite app_nil_r in Heq; subst.
      apply (is_derive_ext (fun _ => fenv f alpha (map (aeval venv penv) pre))).
      intros t; now rewrite map_upd_notin.
      apply @is_derive_const.
    - cbn [dargs]. destruct a as [w|p]; cbn [arg_is].
      + destruct (Nat.eqb_spec w v) as [->|Hne].
        * assert (Hr : ~ In v (avars r)).
          { subst allargs. rewrite avars_app in Hnd. cbn in Hnd.
            apply NoDup_remove_2 in Hnd. intro; apply Hnd, in_or_app; auto. }
          cbn [eval]. rewrite dargs_notin by auto. rewrite Rplus_0_r.
          set (vs := map (aeval venv penv) allargs).
          assert (Hset : forall h, map (aeval (upd venv v h) penv) allargs = set_nth vs (length pre) h).
          { intros h. unfold vs. subst allargs. clear -Hpre Hr.
            induction pre as [|q pre IHp]; cbn [app map length set_nth].
            - cbn [aeval]. rewrite upd_eq. f_equal. now apply map_upd_notin.
            - f_equal.
              + apply aeval_upd_notin. destruct q as [w|p]; cbn; auto.
                apply Nat.eqb_neq. intro; subst; apply Hpre; cbn; auto.
              + apply IHp. intro; apply Hpre. destruct q; cbn; auto. }
          apply (is_derive_ext (fun h => fenv f alpha (set_nth vs (length pre) h))).
          intros t; now rewrite Hset.
          evar_last. apply Hcoh.
          unfold vs; rewrite map_length; subst allargs; rewrite app_length; cbn; lia.
          unfold vs; now rewrite map_length.
          f_equal. rewrite <- Hset. apply map_ext. intros [w|p]; cbn; auto. now rewrite upd_same.
        * replace (S (length pre)) with (length (pre ++ [AVar w])) by (rewrite app_length; cbn; lia).
          apply IH. rewrite <- app_assoc; cbn; auto.
          rewrite avars_app; cbn. intro Hin. apply in_app_or in Hin as [|[|[]]]; auto.
      + replace (S (length pre)) with (length (pre ++ [APar p])) by (rewrite app_length; cbn; lia).
        apply IH. rewrite <- app_assoc; cbn; auto.
        rewrite avars_app; cbn. now rewrite app_nil_r.
  Qed.

  Theorem D_sound venv v e :
    ok venv e ->
    is_derive (fun h => eval (upd venv v h) penv fenv e) (venv v) (eval venv penv fenv (D v e)).
  Proof.
    induction e; cbn [ok D]; intros Hok.
    - (* EVar *) cbn [eval]. destruct (Nat.eqb_spec v v0) as [->|Hne]; cbn [eval].
      + apply (is_derive_ext (fun h => h)). intros t; now rewrite upd_eq. apply @is_derive_id.
      + apply (is_derive_ext (fun _ => venv v0)). intros t; rewrite upd_neq; auto. apply @is_derive_const.
    - cbn. apply @is_derive_const.
    - cbn. apply @is_derive_const.
    - cbn. apply @is_derive_const.
    - destruct Hok. cbn [eval]. apply @is_derive_plus; auto.
    - destruct Hok. cbn [eval]. apply @is_derive_minus; auto.
    - destruct Hok as [H1 H2]. cbn [eval].
      evar_last. apply Derive.is_derive_mult; [apply IHe1 | apply IHe2]; auto.
      cbv beta; rewrite ?eval_upd_same. ring.
    - destruct Hok as [H1 [H2 H3]]. cbn [eval].
      evar_last. apply is_derive_div; [apply IHe1 | apply IHe2 |]; auto.
      cbv beta; now rewrite eval_upd_same.
      cbv beta; rewrite ?eval_upd_same. field; auto.
    - cbn [eval]. apply @is_derive_opp; auto.
    - cbn [eval]. destruct n.
      + cbn. apply @is_derive_const.
      + evar_last. apply is_derive_pow. apply IHe; auto.
        cbv beta; rewrite ?eval_upd_same. cbn [eval pred]. rewrite <- INR_IZR_INZ. ring.
    - cbn [eval]. evar_last. apply (is_derive_comp sin). apply is_derive_sin. apply IHe; auto.
      cbv beta; rewrite ?eval_upd_same. unfold scal; cbn; unfold mult; cbn. ring.
    - cbn [eval]. evar_last. apply (is_derive_comp cos). apply is_derive_cos. apply IHe; auto.
      cbv beta; rewrite ?eval_upd_same. unfold scal; cbn; unfold mult; cbn. ring.
    - cbn [eval]. evar_last. apply (is_derive_comp exp). apply is_derive_exp. apply IHe; auto.
      cbv beta; rewrite ?eval_upd_same. unfold scal; cbn; unfold mult; cbn. ring.
    - cbn [eval]. evar_last. apply (is_derive_comp tanh). apply is_derive_tanh. apply IHe; auto.
      cbv beta; rewrite ?eval_upd_same. unfold scal; cbn; unfold mult; cbn. ring.
    - destruct Hok as [H1 H2]. cbn [eval]. evar_last.
      apply (is_derive_Rabs (fun h => eval (upd venv v h) penv fenv e)). apply IHe; auto.
      cbv beta; now rewrite eval_upd_same.
      cbv beta; rewrite ?eval_upd_same. rewrite sign_div by auto. reflexivity.
    - destruct Hok as [H1 H2]. cbn [eval]. evar_last.
      apply (is_derive_sqrt (fun h => eval (upd venv v h) penv fenv e)). apply IHe; auto.
      cbv beta; now rewrite eval_upd_same.
      cbv beta; rewrite ?eval_upd_same. reflexivity.
    - destruct Hok as [H1 H2]. cbn [eval]. evar_last.
      apply (is_derive_comp ln). apply is_derive_ln. now rewrite eval_upd_same. apply IHe; auto.
      cbv beta; rewrite ?eval_upd_same. unfold scal; cbn; unfold mult; cbn.
      field. lra.
    - destruct Hok as [Hnd Hlen]. cbn [eval].
      apply (fun_derive venv v f alpha args Hnd Hlen [] args); auto.
  Qed.
End S.


Section At.
  Variable penv : nat -> R.
  Variable fenv : nat -> list nat -> list R -> R.
  Hypothesis Hcoh : coherent fenv.

  (* derivative of h |-> eval[v:=h] e at an arbitrary point x *)
  Lemma D_sound_at venv v e x :
    ok penv fenv (upd venv v x) e ->
    is_derive (fun h => eval (upd venv v h) penv fenv e) x (eval (upd venv v x) penv fenv (D v e)).
  Proof.
    intros Hok.
    generalize (D_sound penv fenv Hcoh (upd venv v x) v e Hok).
    rewrite upd_eq.
    apply is_derive_ext. intros t. apply eval_ext. apply upd_upd.
  Qed.
End At.
