(* Tac.v — proof tactics shared by the Engine-A property proofs.  DESIGN.md §3.4. *)
From Coq Require Import Reals List Lra Lia ZArith Field.
From ND.lib Require Import Expr.
Import ListNotations.
Open Scope R_scope.

Lemma sc2 x : cos x * cos x = 1 - sin x * sin x.
Proof. generalize (sin2_cos2 x). unfold Rsqr. lra. Qed.

Lemma tanh_0 : tanh 0 = 0.
Proof. unfold tanh. rewrite sinh_0. unfold Rdiv. apply Rmult_0_l. Qed.

(* replace `eval v p f t` by `eval v p f <normal form of t>` and unfold eval *)
Ltac reduce_eval :=
  repeat match goal with
  | |- context [eval ?v ?p ?f ?t] =>
      let e := eval vm_compute in t in
      progress change (eval v p f t) with (eval v p f e)
  end;
  cbn [eval map aeval].

Ltac reduce_eval_in H :=
  repeat match type of H with
  | context [eval ?v ?p ?f ?t] =>
      let e := eval vm_compute in t in
      progress change (eval v p f t) with (eval v p f e) in H
  end;
  cbn [eval map aeval] in H.

(* normalise the numbered names (v_x, p_t_0, f_N ...) to literals everywhere *)
Ltac norm_names :=
  repeat match goal with
  | H : context [?g ?n] |- _ =>
      match type of n with nat =>
        let n' := eval vm_compute in n in
        progress change n with n' in H
      end
  | |- context [?g ?n] =>
      match type of n with nat =>
        let n' := eval vm_compute in n in
        progress change n with n'
      end
  end.

(* exp/tanh/abs of something provably zero *)
Ltac norm_exp0 :=
  repeat match goal with
  | |- context [exp ?a] =>
      let H := fresh in assert (H : a = 0) by (first [ring | field; auto]); rewrite H, exp_0; clear H
  | |- context [tanh ?a] =>
      let H := fresh in assert (H : a = 0) by (first [ring | field; auto]); rewrite H, tanh_0; clear H
  | |- context [Rabs ?a] =>
      let H := fresh in assert (H : a = 0) by (first [ring | field; auto]); rewrite H, Rabs_R0; clear H
  end.

(* in-kernel correspondence goals: |eval <concrete envs> <generated term> - <implementation value>| <= tol.
   The generated term is normalised (Coq's own D is run by vm_compute), the concrete environments
   (match on literal indices, if-chains over literal symbol/multi-index pairs) are reduced, and the
   closed real inequality is left to `interval`. *)
Ltac eval_corr_prepare :=
  repeat match goal with
  | |- context [eval ?v ?p ?f ?t] =>
      let e := eval vm_compute in t in
      progress change (eval v p f t) with (eval v p f e)
  end;
  cbn [eval map aeval];
  cbv beta iota delta [Nat.eqb list_eqb andb nth].
