(* TPS.v — thin-plate-spline interpolation of pde.py (CustomBoundaryCondition) over the reals,
   for any number of control points and any dimension.  Hand-written model; np.linalg.solve is
   NOT modelled: theorems take "c solves the fitted system" as a hypothesis.  DESIGN.md §7 C02. *)
From Coq Require Import Reals List.
Import ListNotations.
Open Scope R_scope.

Definition stiff2 : R := 1 / 10000.          (* stiffness ** 2 with stiffness = 0.01 *)

(* Python: sum((d - di) ** 2 for di, d in zip(cp, x))  =  ((0 + t1) + t2) + ... *)
Definition sq_dist (x cp : list R) : R :=
  fold_left (fun acc ab => acc + (fst ab - snd ab) ^ 2) (combine x cp) 0.

Definition ri_sq (x cp : list R) : R := sq_dist x cp + stiff2.
Definition kern (x cp : list R) : R := ri_sq x cp * ln (ri_sq x cp).

Fixpoint dot (a b : list R) : R :=
  match a, b with
  | u :: a', v :: b' => u * v + dot a' b'
  | _, _ => 0
  end.

(* basis functions evaluated at x: one kernel per control point, the constant, the coordinates *)
Definition basis (cps : list (list R)) (x : list R) : list R := map (kern x) cps ++ [1] ++ x.

(* Interpolator._interpolate_by_thin_plate_spline *)
Definition interp (coefs : list R) (cps : list (list R)) (x : list R) : R := dot coefs (basis cps x).

(* row eq_no < n_pnts of the fitted system (equation_weights): the basis at control point p *)
Definition system_row (cps : list (list R)) (p : list R) : list R := basis cps p.

(* LengthFactorInterpolator.interpolate: radius^2 - sum of squares of the mapped coordinates *)
Definition length_factor (radius : R) (coefs_each_dim : list (list R)) (cps : list (list R)) (x : list R) : R :=
  radius ^ 2 - fold_right Rplus 0 (map (fun cf => (interp cf cps x) ^ 2) coefs_each_dim).

(* CustomBoundaryCondition.enforce without Neumann points: A_D + 0.0 + L_D * net *)
Definition custom_enforce (radius : R) (a_coefs : list R) (l_coefs : list (list R)) (cps : list (list R))
           (net : R) (x : list R) : R :=
  interp a_coefs cps x + 0 + length_factor radius l_coefs cps x * net.
