(* Networks.v — executable model of neurodiffeq/networks.py (C19).  Definitions only.
   Hand-written; tied to the real classes by the correspondence of tools/props/C19.py
   (layer types and shapes of every constructed module are compared with these functions inside
   Coq, and with a source-level interpretation of FCNN.__init__ by pyfront).

   Layer lists mirror the statements of FCNN.__init__ :

       if n_hidden_units is None and n_hidden_layers is not None: n_hidden_units = 32
       elif n_hidden_units is not None and n_hidden_layers is None: n_hidden_layers = 1
       if n_hidden_units is not None or n_hidden_layers is not None:
           if hidden_units is None:
               hidden_units = tuple(n_hidden_units for _ in range(n_hidden_layers + 1))
       if hidden_units is None: hidden_units = (32, 32)
       units = (n_input_units,) + hidden_units
       for i in range(len(units) - 1):
           layers.append(nn.Linear(units[i], units[i + 1])); layers.append(actv())
       layers.append(nn.Linear(units[-1], n_output_units))

   The forward pass is modelled over batches = lists of rows; what a Linear layer / an
   activation does to a whole batch is a Section variable, and the only thing assumed about it
   (in the proofs file, as a Section hypothesis) is that it acts row by row. *)
From Coq Require Import Reals List Arith.
Import ListNotations.

Inductive layer :=
| Linear (n_in n_out : nat) (bias : bool)
| Act.

Definition layer_eqb (a b : layer) : bool :=
  match a, b with
  | Linear i o c, Linear i' o' c' => Nat.eqb i i' && Nat.eqb o o' && Bool.eqb c c'
  | Act, Act => true
  | _, _ => false
  end.

Fixpoint layers_eqb (l1 l2 : list layer) : bool :=
  match l1, l2 with
  | [], [] => true
  | a :: r1, b :: r2 => layer_eqb a b && layers_eqb r1 r2
  | _, _ => false
  end.

(* ------------------------------------------------------------------ FCNN.__init__ *)

(* the two FORWARD COMPATIBILITY blocks and the default *)
Definition fill_legacy (nhu nhl : option nat) : option nat * option nat :=
  match nhu, nhl with
  | None, Some l => (Some 32, Some l)
  | Some u, None => (Some u, Some 1)
  | _, _ => (nhu, nhl)
  end.

Definition legacy_hidden (nhu nhl : option nat) (hidden : option (list nat)) : list nat :=
  let '(nhu', nhl') := fill_legacy nhu nhl in
  let hidden' :=
    match nhu', nhl' with
    | Some u, Some l =>
        match hidden with
        | None => Some (map (fun _ => u) (seq 0 (l + 1)))    (* tuple(u for _ in range(l + 1)) *)
        | Some h => Some h                                   (* legacy arguments ignored *)
        end
    | _, _ => hidden
    end in
  match hidden' with None => [32; 32] | Some h => h end.

(* the layer loop, written with indices as the source does *)
Definition fcnn_layers (n_in n_out : nat) (hidden : list nat) : list layer :=
  let units := n_in :: hidden in
  flat_map (fun i => [Linear (nth i units 0) (nth (S i) units 0) true; Act]) (seq 0 (length units - 1))
  ++ [Linear (last units 0) n_out true].

Definition fcnn_init (n_in n_out : nat) (nhu nhl : option nat) (hidden : option (list nat)) : list layer :=
  fcnn_layers n_in n_out (legacy_hidden nhu nhl hidden).

(* module identity: `layers.append(nn.Linear(...))` / `layers.append(actv())` construct a NEW module for
   every entry, so the k-th module of the Sequential is the k-th object constructed: numbering the
   distinct objects by first appearance gives 0, 1, 2, ... (a shared activation instance would repeat) *)
Definition module_ids (ls : list layer) : list nat := seq 0 (length ls).

(* Resnet.__init__: (residual FCNN layers, skip connection) *)
Definition resnet_init (n_in n_out : nat) (nhu nhl : option nat) (hidden : option (list nat))
  : list layer * layer :=
  (fcnn_init n_in n_out nhu nhl hidden, Linear n_in n_out false).

(* MonomialNN.__init__: `degrees` is an int (-> 1..degrees) or a sequence; empty is rejected *)
Inductive degrees_arg := DegInt (n : nat) | DegList (l : list nat).

Definition monomial_init (d : degrees_arg) : option (list nat) :=
  let l := match d with DegInt n => seq 1 n | DegList l => l end in
  match l with [] => None | _ => Some l end.

(* ------------------------------------------------------------------ forward passes *)
Definition row := list R.
Definition batch := list row.

Fixpoint map2 {A B C} (f : A -> B -> C) (l1 : list A) (l2 : list B) : list C :=
  match l1, l2 with
  | a :: r1, b :: r2 => f a b :: map2 f r1 r2
  | _, _ => []
  end.

Section Forward.
  (* what the k-th module of the Sequential does to a whole batch *)
  Variable LinB : nat -> batch -> batch.
  Variable ActB : nat -> batch -> batch.
  (* ... and to a single row *)
  Variable lin : nat -> row -> row.
  Variable act : nat -> row -> row.

  Definition apply_layerB (k : nat) (l : layer) (X : batch) : batch :=
    match l with Linear _ _ _ => LinB k X | Act => ActB k X end.

  Definition apply_layer_row (k : nat) (l : layer) (x : row) : row :=
    match l with Linear _ _ _ => lin k x | Act => act k x end.

  (* nn.Sequential: feed the output of module k into module k+1 *)
  Fixpoint seqB (k : nat) (ls : list layer) (X : batch) : batch :=
    match ls with [] => X | l :: r => seqB (S k) r (apply_layerB k l X) end.

  Fixpoint seq_row (k : nat) (ls : list layer) (x : row) : row :=
    match ls with [] => x | l :: r => seq_row (S k) r (apply_layer_row k l x) end.

  Definition fcnn_forwardB (ls : list layer) (X : batch) : batch := seqB 0 ls X.
  Definition fcnn_forward_row (ls : list layer) (x : row) : row := seq_row 0 ls x.

  (* Resnet.forward: skip_connection(t) + residual(t); `+` of two (n, n_out) tensors *)
  Variable SkipB : batch -> batch.
  Variable skip : row -> row.

  Definition row_add (x y : row) : row := map2 Rplus x y.
  Definition batch_add (X Y : batch) : batch := map2 row_add X Y.

  Definition resnet_forwardB (ls : list layer) (X : batch) : batch :=
    batch_add (SkipB X) (fcnn_forwardB ls X).
  Definition resnet_forward_row (ls : list layer) (x : row) : row :=
    row_add (skip x) (fcnn_forward_row ls x).
End Forward.

(* MonomialNN.forward: torch.cat([x ** d for d in self.degrees], dim=1) *)
Definition batch_pow (X : batch) (d : nat) : batch := map (map (fun v => pow v d)) X.

(* torch.cat(dim=1) of a non-empty list of batches with equally many rows *)
Fixpoint cat1 (Bs : list batch) : batch :=
  match Bs with
  | [] => []
  | [B] => B
  | B :: Bs' => map2 (@app R) B (cat1 Bs')
  end.

Definition monomial_forwardB (degrees : list nat) (X : batch) : batch :=
  cat1 (map (batch_pow X) degrees).

Definition monomial_row (degrees : list nat) (x : row) : row :=
  flat_map (fun d => map (fun v => pow v d) x) degrees.

(* a concrete dense layer (used for non-vacuity examples and the shape statement) *)
Definition dot (w x : row) : R := fold_right Rplus 0%R (map2 Rmult w x).
Definition dense (W : list row) (b : row) (x : row) : row := map2 (fun w c => (dot w x + c)%R) W b.
Definition dense_nobias (W : list row) (x : row) : row := map (fun w => dot w x) W.
