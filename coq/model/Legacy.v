(* Legacy.v — hand-written executable model pieces for C20 (legacy space-time API,
   neurodiffeq/temporal.py).  Definitions only.  DESIGN.md section 7, C20.

   Part 1: what the generated sampler step functions of gen/Gen_C20.v are written in:
           an abstract field signature [FOps], 1-d tensors as index -> value maps, and the
           torch primitives the samplers call (linspace, cartesian_prod columns) -- these
           are *modelled*, see the trusted base.
   Part 2: the driver that iterates a generated step function (one step = one `next(g)`).
   Part 3: the mini-batch loop of _train_1dspatial_temporal/_train_2dspatial/
           _train_2dspatial_temporal and the history loop of _solve_spatial_temporal. *)
From Coq Require Import List ZArith Arith Lia String QArith Qreduction.
Import ListNotations.
Close Scope Q_scope.
Local Open Scope nat_scope.

(* ------------------------------------------------------------------ Part 1: field + vectors *)
Record FOps := mkFOps {
  F : Type;
  fadd : F -> F -> F; fsub : F -> F -> F; fmul : F -> F -> F; fdiv : F -> F -> F;
  fopp : F -> F;
  fofZ : Z -> F }.

(* decimal literal n/d *)
Definition fofQ (O : FOps) (n : Z) (d : positive) : F O := fdiv O (fofZ O n) (fofZ O (Zpos d)).
Definition fofnat (O : FOps) (n : nat) : F O := fofZ O (Z.of_nat n).

(* a 1-d tensor of length n is an index -> value map read at indices < n *)
Definition Vec (O : FOps) : Type := nat -> F O.

Definition vmap2 {O : FOps} (f : F O -> F O -> F O) (u v : Vec O) : Vec O := fun i => f (u i) (v i).
Definition vmapl {O : FOps} (f : F O -> F O -> F O) (a : F O) (v : Vec O) : Vec O := fun i => f a (v i).
Definition vmapr {O : FOps} (f : F O -> F O -> F O) (v : Vec O) (a : F O) : Vec O := fun i => f (v i) a.
Definition vmap1 {O : FOps} (f : F O -> F O) (v : Vec O) : Vec O := fun i => f (v i).

(* torch.linspace(lo, hi, n)[i] = lo + i * (hi - lo) / (n - 1);  n = 1 gives [lo] *)
Definition linspace (O : FOps) (lo hi : F O) (n : nat) : Vec O :=
  fun i => if Nat.eqb n 1 then lo
           else fadd O lo (fmul O (fofnat O i) (fdiv O (fsub O hi lo) (fofnat O (n - 1)))).

(* torch.cartesian_prod(x, y) with len y = b: row r is (x[r / b], y[r mod b]) *)
Definition cart_fst {O : FOps} (x : Vec O) (b : nat) : Vec O := fun r => x (r / b).
Definition cart_snd {O : FOps} (y : Vec O) (b : nat) : Vec O := fun r => y (r mod b).

(* the exact instance used to *evaluate* generated step functions inside Coq *)
Definition Qdiv' (a b : Q) : Q := Qred (Qdiv a b).
Definition QOps : FOps := mkFOps Q Qplus' Qminus' Qmult' Qdiv' (fun a => Qred (Qopp a)) inject_Z.

(* ------------------------------------------------------------------ Part 2: iterating a step *)
Section Run.
  Variables St Out : Type.
  (* step cur st = (yielded value, new torch.rand call cursor, new loop-carried state) *)
  Variable step : nat -> St -> Out * nat * St.

  (* the (k+1)-th `next(g)` of a generator created with cursor cur and state st *)
  Fixpoint run (k : nat) (cur : nat) (st : St) : Out * nat * St :=
    match k with
    | O => step cur st
    | S k' => let '(_, c, s) := step cur st in run k' c s
    end.

  Definition draw (k : nat) (cur : nat) (st : St) : Out := fst (fst (run k cur st)).
End Run.
Arguments run {St Out} step k cur st.
Arguments draw {St Out} step k cur st.

(* ------------------------------------------------------------------ Part 3: mini-batch loop *)
(*  batch_start, batch_end = 0, batch_size
    while batch_start < training_set_size:
        if batch_end > training_set_size: batch_end = training_set_size
        batch_idx = idx[batch_start:batch_end]
        ... calculate_loss(batch) ...
        batch_start += batch_size ; batch_end += batch_size                            *)
Section MiniBatch.
  Variable A : Type.

  (* Python slice l[a:b] (b clamped to the length, empty if b <= a) *)
  Definition slice (l : list A) (a b : nat) : list A := firstn (b - a) (skipn a l).

  (* the loop with fuel; None = still running when the fuel ran out (batch_size = 0 never ends) *)
  Fixpoint batches_fuel (fuel : nat) (idx : list A) (n bs bstart bend : nat) : option (list (list A)) :=
    match fuel with
    | O => None
    | S fuel' =>
        if Nat.ltb bstart n then
          let bend' := if Nat.ltb n bend then n else bend in
          match batches_fuel fuel' idx n bs (bstart + bs) (bend' + bs) with
          | Some r => Some (slice idx bstart bend' :: r)
          | None => None
          end
        else Some []
    end.

  (* one epoch's batches for a training set of n points visited in the order idx;
     fuel n + 1 is enough whenever batch_size >= 1 (theorem minibatch_partition) *)
  Definition minibatches (idx : list A) (n bs : nat) : option (list (list A)) :=
    batches_fuel (S n) idx n bs 0 bs.
End MiniBatch.
Arguments slice {A} l a b.
Arguments batches_fuel {A} fuel idx n bs bstart bend.
Arguments minibatches {A} idx n bs.

(* ------------------------------------------------------------------ drivers for the GENERATED loop fragments *)
(* A `while cond: body` loop whose body emits one value per iteration, with fuel (None = still
   running).  gen/Gen_C20.v instantiates it with the index arithmetic tools/props/t_C20.py extracts
   from the _train_* functions: state = (batch_start, batch_end), emitted value = the bounds of
   the slice idx[batch_start:batch_end] taken in that iteration. *)
Fixpoint while_fuel {St Out : Type} (cond : St -> bool) (body : St -> Out * St) (fuel : nat) (st : St) : option (list Out) :=
  match fuel with
  | O => None
  | S fuel' =>
      if cond st then
        let '(o, st') := body st in
        match while_fuel cond body fuel' st' with Some r => Some (o :: r) | None => None end
      else Some []
  end.

Definition slices_of {A} (idx : list A) (bounds : list (nat * nat)) : list (list A) :=
  map (fun ab => slice idx (fst ab) (snd ab)) bounds.

Definition option_map' {B C} (f : B -> C) (o : option B) : option C := match o with Some x => Some (f x) | None => None end.

(* ------------------------------------------------------------------ calls seen by a spying approximator *)
Inductive call :=
| CLossBatch (pts : list nat)     (* calculate_loss on a mini-batch: the training-point indices *)
| CLossTrainAll                   (* calculate_loss on the whole training set (epoch loss) *)
| CMetricsTrainAll
| CLossValid
| CMetricsValid.

Definition epoch_calls (idx : list nat) (n bs : nat) : option (list call) :=
  match minibatches idx n bs with
  | Some bsl => Some (map CLossBatch bsl ++ [CLossTrainAll; CMetricsTrainAll; CLossValid; CMetricsValid])
  | None => None
  end.

(* one history append of the epoch loop, as extracted from the source *)
Inductive hop :=
| HLoss (key : string) (training : bool)          (* history[key].append(<loss of that phase>) *)
| HMetrics (prefix : string) (training : bool).   (* for name, v in <metrics of that phase>.items(): history[prefix + name].append(v) *)

(* ------------------------------------------------------------------ history loop of _solve_spatial_temporal *)
(* history is a Python dict: insertion-ordered association list; values are identified by an
   abstract tag V (the harness uses the index of the approximator call that produced it) *)
Section History.
  Variable V : Type.
  Definition history := list (string * list V).

  Fixpoint h_set (h : history) (k : string) (v : list V) : history :=      (* history[k] = v *)
    match h with
    | [] => [(k, v)]
    | (k', v') :: r => if String.eqb k' k then (k', v) :: r else (k', v') :: h_set r k v
    end.

  Fixpoint h_append (h : history) (k : string) (x : V) : option history := (* history[k].append(x); KeyError = None *)
    match h with
    | [] => None
    | (k', v') :: r => if String.eqb k' k then Some ((k', v' ++ [x]) :: r)
                       else match h_append r k x with Some r' => Some ((k', v') :: r') | None => None end
    end.

  Definition h_init (metrics : list string) : history :=
    fold_left (fun h m => h_set (h_set h ("train_" ++ m) []) ("valid_" ++ m) [])
              metrics [("train_loss"%string, []); ("valid_loss"%string, [])].

  Fixpoint h_append_all (h : history) (pre : string) (kvs : list (string * V)) : option history :=
    match kvs with
    | [] => Some h
    | (m, x) :: r => match h_append h (pre ++ m) x with Some h' => h_append_all h' pre r | None => None end
    end.

  (* per-epoch oracle: the values the train / valid routines return *)
  Variable train_loss valid_loss : nat -> V.
  Variable train_metric valid_metric : nat -> string -> V.

  Definition epoch_update (metrics : list string) (e : nat) (h : history) : option history :=
    match h_append h "train_loss" (train_loss e) with
    | None => None
    | Some h1 =>
      match h_append_all h1 "train_" (map (fun m => (m, train_metric e m)) metrics) with
      | None => None
      | Some h2 =>
        match h_append h2 "valid_loss" (valid_loss e) with
        | None => None
        | Some h3 => h_append_all h3 "valid_" (map (fun m => (m, valid_metric e m)) metrics)
        end
      end
    end.

  (* epochs e0, e0+1, ..., e0+k-1 *)
  Fixpoint solve_from (metrics : list string) (k e0 : nat) (h : history) : option history :=
    match k with
    | O => Some h
    | S k' => match epoch_update metrics e0 h with
              | Some h' => solve_from metrics k' (S e0) h'
              | None => None
              end
    end.

  Definition solve (metrics : list string) (max_epochs : nat) : option history :=
    solve_from metrics max_epochs 0 (h_init metrics).

  (* ---- the same loop driven by the operation lists tools/props/t_C20.py extracts from
     _solve_spatial_temporal: which keys the dictionary starts with, and, per epoch and in source
     order, which series receives the loss / the metrics of which phase (true = training) *)
  Definition gen_h_init (keys prefixes : list string) (metrics : list string) : history :=
    fold_left (fun h m => fold_left (fun h' pre => h_set h' (pre ++ m) []) prefixes h) metrics (map (fun k => (k, [])) keys).

  Fixpoint gen_epoch_update (ops : list hop) (metrics : list string) (e : nat) (h : history) : option history :=
    match ops with
    | [] => Some h
    | HLoss k tr :: r =>
        match h_append h k (if tr then train_loss e else valid_loss e) with
        | Some h' => gen_epoch_update r metrics e h' | None => None end
    | HMetrics pre tr :: r =>
        match h_append_all h pre (map (fun m => (m, (if tr then train_metric else valid_metric) e m)) metrics) with
        | Some h' => gen_epoch_update r metrics e h' | None => None end
    end.

  Fixpoint gen_solve_from (ops : list hop) (metrics : list string) (k e0 : nat) (h : history) : option history :=
    match k with
    | O => Some h
    | S k' => match gen_epoch_update ops metrics e0 h with
              | Some h' => gen_solve_from ops metrics k' (S e0) h'
              | None => None
              end
    end.

  Definition gen_solve (keys prefixes : list string) (ops : list hop) (metrics : list string) (max_epochs : nat) : option history :=
    gen_solve_from ops metrics max_epochs 0 (gen_h_init keys prefixes metrics).
End History.
Arguments h_set {V} h k v.
Arguments h_append {V} h k x.
Arguments h_init {V} metrics.
Arguments solve {V} train_loss valid_loss train_metric valid_metric metrics max_epochs.
Arguments solve_from {V} train_loss valid_loss train_metric valid_metric metrics k e0 h.
Arguments epoch_update {V} train_loss valid_loss train_metric valid_metric metrics e h.
Arguments gen_h_init {V} keys prefixes metrics.
Arguments gen_epoch_update {V} train_loss valid_loss train_metric valid_metric ops metrics e h.
Arguments gen_solve_from {V} train_loss valid_loss train_metric valid_metric ops metrics k e0 h.
Arguments gen_solve {V} train_loss valid_loss train_metric valid_metric keys prefixes ops metrics max_epochs.
