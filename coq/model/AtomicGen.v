(* AtomicGen.v — vocabulary of the C07 model (atomic generators of neurodiffeq/generators.py).
   Definitions only.  The *content* (one `entry` per accepted method of every class, with the
   per-index formula of every returned tensor) is regenerated from the source into
   gen/Gen_C07.v on every run by tools/props/t_C07.py; this file fixes

     - the canonical numbering of leaves / parameters used by the generated terms,
     - the record types of the method table,
     - the property's own classification of methods (deterministic / fresh),
     - the reference definitions the theorems compare with: row-major tensor product,
       flattened `meshgrid(indexing='ij')`, strata of a Latin hypercube.

   Modelled, not verified: torch.linspace (element i = start + (end-start) i/(steps-1)),
   torch.logspace (10^linspace), torch.meshgrid(indexing='ij') + flatten (= mesh_flat below),
   torch.rand in [0,1), torch.randperm a permutation, torch.randint(0,2) in {0,1},
   torch.normal(mean, std) = mean + std * z, atan2 in (-pi, pi], acos defined on [-1,1],
   torch.clamp (= clamp below). *)
From Coq Require Import Reals List String Bool Arith.
From ND.lib Require Import Expr.
Import ListNotations.

(* ---- canonical leaves (per-index quantities) and parameters of the generated terms *)
Definition v_i := 0%nat.      (* index along the tensor's own axis, as a real *)
Definition v_u0 := 1%nat.     (* torch.rand draws, in call order *)
Definition v_u1 := 2%nat.
Definition v_u2 := 3%nat.
Definition v_u3 := 4%nat.
Definition v_z0 := 5%nat.     (* standard normal draw of torch.normal *)
Definition v_s0 := 6%nat.     (* torch.randint(0, 2) draws *)
Definition v_s1 := 7%nat.
Definition v_atan := 8%nat.   (* the value of torch.atan2(aux_0, aux_1) *)
Definition v_denom := 9%nat.  (* the value of torch.clamp(arg, min=tiny) = Rmax arg tiny, see e_defs *)
Definition p_a := 0%nat.      (* lower bound of the tensor's axis *)
Definition p_b := 1%nat.      (* upper bound *)
Definition p_n := 2%nat.      (* number of nodes along the axis, as a real *)
Definition p_pi := 3%nat.     (* np.pi *)
Definition p_tiny := 4%nat.   (* torch.finfo(dtype).tiny: a positive constant *)

(* ---- method table *)
Inductive gclass := G1D | G2D | G3D | GND | GSph.
Inductive getter_kind := GetLambda | GetCallResult | GetMissing.
Inductive mesh_kind := MeshNone | MeshIJ | MeshXY | MeshDefault | MeshOther | MeshUnflattened.
Inductive rngcall := RRand | RNormal | RRandperm | RRandint.
Inductive wrap :=
| WNone
| WAcos                          (* torch.acos(t_term) *)
| WAcosClamp (lo hi : expr)      (* torch.acos(torch.clamp(t_term, lo, hi)) *)
| WPhi (y x : expr).             (* t_term over the leaf v_atan = torch.atan2(y, x) *)

Record tinfo := mk_tinfo {
  t_term : expr;          (* per-index formula (argument of acos for WAcos) *)
  t_wrap : wrap;
  t_len_ok : bool;        (* symbolic length equals self.size (and the tensor is flat) *)
  t_rg : bool;            (* requires_grad, propagated through the torch calls *)
  t_fresh : bool;         (* an RNG draw made inside get_examples() flows into it (with non-zero scale) *)
  t_noise : bool;         (* a torch.normal draw occurs in the formula *)
  t_rand : bool;          (* any RNG draw (constructor or getter) flows into it *)
  t_perm : bool;          (* indexed by a torch.randperm *)
  t_par_axis : nat;       (* which axis' bounds / size the formula uses *)
  t_mesh_pos : option nat (* position among the meshgrid arguments *)
}.

Record entry := mk_entry {
  e_cls : gclass;
  e_method : string;
  e_noisy : bool;                (* GeneratorND(noisy=...) *)
  e_getter : getter_kind;        (* what is bound to self.getter *)
  e_pos_guard : bool;            (* positive bounds (log spacing) *)
  e_tensors : list tinfo;
  e_mesh : mesh_kind;
  e_ctor_rng : list rngcall;     (* RNG calls made by the constructor, in order *)
  e_call_rng : list rngcall;     (* RNG calls made by each get_examples(), in order *)
  e_defs : list (nat * expr * expr)   (* (leaf, arg, lo): the leaf stands for torch.clamp(arg, min=lo) = Rmax arg lo *)
}.

Definition dim (c : gclass) : nat :=
  match c with G1D => 1 | G2D => 2 | G3D => 3 | GND => 2 (* instantiated at N = 2 *) | GSph => 3 end.

Definition gclass_eqb (a b : gclass) : bool :=
  match a, b with G1D, G1D | G2D, G2D | G3D, G3D | GND, GND | GSph, GSph => true | _, _ => false end.

Definition is_lambda (g : getter_kind) : bool := match g with GetLambda => true | _ => false end.

Definition tensor_ok (t : tinfo) : bool := t_len_ok t && t_rg t.

Definition entry_total (e : entry) : bool :=
  is_lambda (e_getter e) && Nat.eqb (List.length (e_tensors e)) (dim (e_cls e)) && forallb tensor_ok (e_tensors e).

(* ---- the property's classification of methods *)
Inductive requirement := MustStatic | MustFresh | AnyOf | UnknownMethod.

Definition mem (s : string) (l : list string) : bool := existsb (String.eqb s) l.

Definition requirement_of (c : gclass) (m : string) (noisy : bool) : requirement :=
  match c with
  | GND =>
      if mem m ["equally-spaced"; "log-spaced"; "exp-spaced"; "chebyshev"; "chebyshev1"; "chebyshev2"]%string
      then (if noisy then MustFresh else MustStatic)
      else if String.eqb m "uniform" then AnyOf     (* drawn once by the constructor; "1-D uniform sampling" is Generator1D *)
      else UnknownMethod
  | GSph => if mem m ["equally-spaced-noisy"; "equally-radius-noisy"]%string then MustFresh else UnknownMethod
  | _ =>
      if mem m ["equally-spaced"; "log-spaced"; "chebyshev"; "chebyshev1"; "chebyshev2"]%string then MustStatic
      else if mem m ["equally-spaced-noisy"; "log-spaced-noisy"; "chebyshev2-noisy"]%string then MustFresh
      else if String.eqb m "uniform" then (if gclass_eqb c G1D then MustFresh else UnknownMethod)
      else if String.eqb m "latin-hypercube" then AnyOf   (* the property constrains its strata, not its freshness *)
      else UnknownMethod
  end.

Definition is_nil {A} (l : list A) : bool := match l with [] => true | _ => false end.

Definition meets (e : entry) : bool :=
  match requirement_of (e_cls e) (e_method e) (e_noisy e) with
  | MustStatic => is_nil (e_call_rng e) && is_nil (e_ctor_rng e)
                  && forallb (fun t => negb (t_fresh t) && negb (t_rand t)) (e_tensors e)
  | MustFresh => negb (is_nil (e_call_rng e)) && forallb t_fresh (e_tensors e)
  | AnyOf => true
  | UnknownMethod => false
  end.

(* grid classes: meshgrid(indexing='ij'), flattened, arguments in axis order, each output built
   from its own axis' bounds *)
Fixpoint positions_ok (k : nat) (ts : list tinfo) : bool :=
  match ts with
  | [] => true
  | t :: r => Nat.eqb (t_par_axis t) k
              && match t_mesh_pos t with Some p => Nat.eqb p k | None => false end
              && positions_ok (S k) r
  end.

Definition is_grid_class (c : gclass) : bool := match c with G2D | G3D | GND => true | _ => false end.

Definition grid_ok (e : entry) : bool :=
  if is_grid_class (e_cls e)
  then match e_mesh e with MeshIJ => positions_ok 0 (e_tensors e) | _ => false end
  else match e_mesh e with MeshNone => true | _ => false end.

(* ---- reference: row-major tensor product of 1-D node lists (rows = points) *)
Fixpoint cart (axes : list (list R)) : list (list R) :=
  match axes with
  | [] => [[]]
  | X :: r => flat_map (fun x => map (cons x) (cart r)) X
  end.

(* model of `torch.meshgrid(axes..., indexing='ij')[k].flatten()`: element [i_0,...,i_{N-1}] of
   output k is axes[k][i_k]; flatten is row-major *)
Definition prod_len (axes : list (list R)) : nat := fold_right (fun X acc => List.length X * acc)%nat 1%nat axes.

Fixpoint mesh_flat (axes : list (list R)) (k : nat) : list R :=
  match axes with
  | [] => []
  | X :: r =>
      match k with
      | O => flat_map (fun x => repeat x (prod_len r)) X
      | S k' => List.concat (repeat (mesh_flat r k') (List.length X))
      end
  end.

(* ---- torch.clamp(x, lo, hi) = min(max(x, lo), hi) *)
Definition clamp (x lo hi : R) : R := Rmin (Rmax x lo) hi.

(* ---- Latin hypercube strata of [a, b] with n strata *)
Definition in_stratum (a b : R) (n j : nat) (x : R) : Prop :=
  (a + INR j * ((b - a) / INR n) <= x < a + INR (S j) * ((b - a) / INR n))%R.
