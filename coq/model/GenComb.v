(* Engine-B model of the generator combinators of neurodiffeq.generators (C13).

   Values.  A get_examples() result is [(form, cols)]: the Python container the code returns
   (one torch.Tensor | list | tuple -- the combinators dispatch on it with isinstance) and one
   vector per dimension (columns, exactly what the code manipulates).  [None] = the real call
   raises.

   Time.  [sample g k] is the result of the k-th call (k = 0,1,..) of get_examples() on the
   composite built from FRESH generator objects (a tree, no object shared between two
   parents): every combinator calls each child exactly once per call, except
   StaticGenerator, which calls its child once at construction and never again; so the k-th
   top-level call reads the k-th draw of every leaf that is not below a Static and draw 0 of
   those below one.  (The correspondence harness checks this with leaves that stamp their own
   call counter into the points.)

   Oracles (Section variables, never axioms): leaf draws, filter masks returned by the user's
   filter_fn, index vectors returned by torch.randperm / torch.randint, user transforms.

   Construction.  [norm] is what the constructors do to the tree (MeshGenerator splices the
   children of a child MeshGenerator into its own list); [csize] is the [.size] attribute
   computed at construction; [built] says that no constructor raises (EnsembleGenerator
   demands equal [.size]; PredefinedGenerator equal lengths).  The only [.size] that changes
   later is that of a FilterGenerator with update_size (set to the number of rows it kept last
   time).  ResampleGenerator samples its child first and asks the RNG for indices below the
   number of rows actually returned (len of the first vector); it never reads a [.size]. *)
From Coq Require Import List Arith ZArith Bool.
Import ListNotations.
From ND.model Require Import Batch.

Inductive form := FT | FL | FU.     (* torch.Tensor | list | tuple *)

Definition form_eqb (a b : form) : bool :=
  match a, b with FT, FT | FL, FL | FU, FU => true | _, _ => false end.

Definition out : Type := form * list (list Z).

Inductive gen :=
| Leaf (id size : nat) (fm : form)                       (* user/leaf generator: .size = size, returns form fm *)
| Concat (gs : list gen)                                 (* ConcatGenerator( *gs), a + b *)
| Ensemble (gs : list gen)                               (* EnsembleGenerator( *gs), a * b *)
| Mesh (gs : list gen)                                   (* MeshGenerator( *gs), a ^ b *)
| TransformL (g : gen) (ts : list (option nat))          (* TransformGenerator(g, transforms=[t | None ...]) *)
| TransformF (g : gen) (t : nat)                         (* TransformGenerator(g, transform=t) *)
| TransformN (g : gen)                                   (* TransformGenerator(g) *)
| Filter (g : gen) (m : nat) (size : option nat) (upd : bool)   (* FilterGenerator(g, filter_fn_m, size, update_size) *)
| Resample (g : gen) (r : nat) (size : option nat) (repl : bool) (* ResampleGenerator(g, size, replacement) *)
| Static (g : gen)                                       (* StaticGenerator(g) *)
| Predefined (cols : list (list Z)).                     (* PredefinedGenerator( *cols) *)

(* the solver-facing wrapper is applied at the root only *)
Inductive top := Plain (g : gen) | Sampler (g : gen).

(* ---------------------------------------------------------------- list helpers *)
Fixpoint select {T : Type} (mk : list bool) (xs : list T) : list T :=     (* x[mask] *)
  match mk, xs with
  | b :: mk', x :: xs' => if b then x :: select mk' xs' else select mk' xs'
  | _, _ => []
  end.

Definition gather (idx : list nat) (xs : list Z) : option (list Z) :=        (* x[indices], IndexError = None *)
  if forallb (fun i => Nat.ltb i (length xs)) idx then Some (map (fun i => nth i xs 0%Z) idx) else None.

Fixpoint all_some {T : Type} (l : list (option T)) : option (list T) :=
  match l with
  | [] => Some []
  | None :: _ => None
  | Some x :: t => match all_some t with Some r => Some (x :: r) | None => None end
  end.

(* [torch.cat(seg) for seg in zip( *all_examples)]: zip truncates to the fewest dimensions *)
Fixpoint zipn_app (css : list (list (list Z))) : list (list Z) :=
  match css with
  | [] => []
  | [cs] => cs
  | cs :: rest => zip_app Z cs (zipn_app rest)
  end.

(* torch.meshgrid( *cols, indexing='ij') then flatten: all combinations, first axis slowest (row-major);
   [cart] lists the combinations as rows, the result is their transposition *)
Fixpoint cart (cs : list (list Z)) : list (list Z) :=
  match cs with
  | [] => [[]]
  | c :: cs' => flat_map (fun x => map (cons x) (cart cs')) c
  end.

Definition transpose (d : nat) (rows : list (list Z)) : list (list Z) := cols d (zproj Z 0%Z) rows.

Fixpoint zip_trans (app_t : option nat -> list Z -> list Z) (ts : list (option nat)) (cs : list (list Z)) : list (list Z) :=
  match ts, cs with
  | t :: ts', c :: cs' => app_t t c :: zip_trans app_t ts' cs'
  | _, _ => []
  end.

Definition prod (l : list nat) : nat := fold_right Nat.mul 1 l.
Definition sum (l : list nat) : nat := fold_right Nat.add 0 l.

Definition single_or (f : form) (cs : list (list Z)) : out :=    (* `ret[0] if len(ret) == 1 else ret` *)
  match cs with [_] => (FT, cs) | _ => (f, cs) end.

(* ---------------------------------------------------------------- construction *)
(* what the constructors do to the tree: MeshGenerator splices nested MeshGenerators *)
Fixpoint norm (g : gen) : gen :=
  match g with
  | Leaf _ _ _ | Predefined _ => g
  | Concat gs => Concat (map norm gs)
  | Ensemble gs => Ensemble (map norm gs)
  | Mesh gs => Mesh (flat_map (fun h => match norm h with Mesh hs => hs | h' => [h'] end) gs)
  | TransformL g ts => TransformL (norm g) ts
  | TransformF g t => TransformF (norm g) t
  | TransformN g => TransformN (norm g)
  | Filter g m s u => Filter (norm g) m s u
  | Resample g r s b => Resample (norm g) r s b
  | Static g => Static (norm g)
  end.

(* the .size attribute set by the constructor (on a normalised tree) *)
Fixpoint csize (g : gen) : nat :=
  match g with
  | Leaf _ s _ => s
  | Concat gs => sum (map csize gs)
  | Ensemble gs => match gs with [] => 0 | h :: _ => csize h end
  | Mesh gs => prod (map csize gs)
  | TransformL g _ | TransformF g _ | TransformN g | Static g => csize g
  | Filter g _ s _ | Resample g _ s _ => match s with Some n => n | None => csize g end
  | Predefined cs => length (hd [] cs)
  end.

(* no constructor raises *)
Fixpoint built (g : gen) : bool :=
  match g with
  | Leaf _ _ _ => true
  | Concat gs => forallb built gs
  | Ensemble gs => match gs with
                   | [] => false                                   (* generators[0]: IndexError *)
                   | h :: _ => forallb built gs && forallb (fun x => Nat.eqb (csize x) (csize h)) gs   (* else ValueError *)
                   end
  | Mesh gs => forallb built gs
  | TransformL g _ | TransformF g _ | TransformN g | Filter g _ _ _ | Resample g _ _ _ | Static g => built g
  | Predefined cs => match cs with
                     | [] => false                                 (* xs[0]: IndexError *)
                     | c :: _ => forallb (fun x => Nat.eqb (length x) (length c)) cs    (* else ValueError *)
                     end
  end.

(* generator objects as the constructors see them (used by the generated code gen/Gen_C13.v):
   g.size, isinstance(g, MeshGenerator), g.generators *)
Definition obj_size (g : gen) : nat := csize g.
Definition obj_is_generator (g : gen) : bool := true.        (* isinstance(g, BaseGenerator): every gen value is one *)
Definition obj_is_mesh (g : gen) : bool := match g with Mesh _ => true | _ => false end.
Definition obj_generators (g : gen) : list gen := match g with Mesh hs | Concat hs | Ensemble hs => hs | _ => [] end.

(* ---------------------------------------------------------------- sampling *)
Section Sample.
  Variable draw : nat -> nat -> list (list Z).         (* leaf id -> call -> columns *)
  Variable mask : nat -> nat -> list bool.             (* filter id -> call -> filter_fn(xs) *)
  Variable rperm : nat -> nat -> list nat.             (* resample id -> call -> torch.randperm(n) *)
  Variable rint : nat -> nat -> list nat.              (* resample id -> call -> torch.randint(n, (size,)) *)
  Variable tvec : nat -> list Z -> list Z.             (* t(x) for an entry of transforms=[...] *)
  Variable tmulti : nat -> list (list Z) -> out.       (* transform( *xs) *)

  Definition app_t (t : option nat) (c : list Z) : list Z :=
    match t with None => c | Some i => tvec i c end.

  Definition concat_out (os : list out) : option out :=
    match os with
    | [] => None                                                         (* all_examples[0]: IndexError *)
    | (FT, _) :: _ =>                                                    (* torch.cat(all_examples) *)
        if forallb (fun o => form_eqb (fst o) FT) os
        then Some (FT, [concat (map (fun o => hd [] (snd o)) os)]) else None
    | _ :: _ =>                                                          (* [torch.cat(seg) for seg in zip( *all)] *)
        if forallb (fun o => negb (form_eqb (fst o) FT)) os
        then Some (FL, zipn_app (map snd os)) else None
    end.

  Fixpoint sample (g : gen) (k : nat) {struct g} : option out :=
    match g with
    | Leaf id _ fm => Some (fm, draw id k)
    | Concat gs =>
        match all_some (map (fun h => sample h k) gs) with
        | Some os => concat_out os
        | None => None
        end
    | Ensemble gs =>
        match all_some (map (fun h => sample h k) gs) with
        | Some os => Some (single_or FU (concat (map snd os)))
        | None => None
        end
    | Mesh gs =>
        match all_some (map (fun h => sample h k) gs) with
        | Some os => let cs := concat (map snd os) in
                     Some (match cs with [_] => (FT, cs) | _ => (FU, transpose (length cs) (cart cs)) end)
        | None => None
        end
    | TransformL g ts =>
        match sample g k with
        | Some (FT, cs) => match ts, cs with
                           | t :: _, [c] => Some (FT, [app_t t c])        (* self.trans[0](xs) *)
                           | _, _ => None
                           end
        | Some (_, cs) => Some (FU, zip_trans app_t ts cs)               (* tuple(t(x) for t, x in zip(trans, xs)) *)
        | None => None
        end
    | TransformF g t =>
        match sample g k with
        | Some (_, cs) => Some (tmulti t cs)
        | None => None
        end
    | TransformN g =>                             (* default: lambda *xs: xs[0] if len(xs) == 1 else xs *)
        match sample g k with
        | Some (_, cs) => Some (single_or FU cs)
        | None => None
        end
    | Filter g m _ upd =>
        match sample g k with
        | Some (_, cs) =>
            let mk := mask m k in
            match cs with
            | [] => if upd then None else Some (FL, [])       (* len(xs[0]) only when update_size: IndexError *)
            | _ => if forallb (fun c => Nat.eqb (length c) (length mk)) cs
                   then Some (single_or FL (map (select mk) cs)) else None
            end
        | None => None
        end
    | Resample g r sz repl =>
        (* xs = generator.get_examples(); n_rows = len(xs) | len(xs[0]); randint(n_rows, (size,)) | randperm(n_rows)[:size] *)
        match sample g k with
        | Some (f, c0 :: cs') =>
            let n := length c0 in
            let size := match sz with Some s => s | None => csize g end in
            let idx := if repl then rint r k else firstn size (rperm r k) in
            if (if repl then Nat.eqb (length idx) size && forallb (fun i => Nat.ltb i n) idx else Nat.eqb (length (rperm r k)) n)
            then match all_some (map (gather idx) (c0 :: cs')) with
                 | Some cs2 => Some (match f with FT => FT | _ => FL end, cs2)
                 | None => None
                 end
            else None                               (* the oracle is not a possible randperm/randint result *)
        | _ => None                                 (* the child raised, or xs[0] on an empty list: IndexError *)
        end
    | Static g => sample g 0
    | Predefined cs => Some (single_or FL cs)
    end.

  (* the .size attribute before the k-th call *)
  Definition size_at (g : gen) (k : nat) : nat :=
    match g, k with
    | Filter _ _ _ true, S k' => match sample g k' with Some (_, c :: _) => length c | _ => 0 end
    | _, _ => csize g
    end.

  (* root: (reshaped to (n,1)?, form, columns) *)
  Definition run (t : top) (k : nat) : option (bool * out) :=
    match t with
    | Plain g => if built (norm g) then option_map (fun o => (false, o)) (sample (norm g) k) else None
    | Sampler g => if built (norm g)
                   then option_map (fun o => (true, (FL, snd o))) (sample (norm g) k)   (* [u.reshape(-1, 1) for u in samples] *)
                   else None
    end.

  Definition top_size (t : top) (k : nat) : nat :=
    match t with Plain g => size_at (norm g) k | Sampler g => csize (norm g) end.
End Sample.

(* ---------------------------------------------------------------- helpers for the correspondence cases *)
Definition out_eqb (a b : out) : bool :=
  form_eqb (fst a) (fst b) && list_eqb zlist_eqb (snd a) (snd b).

Definition ores_eqb (a b : option (bool * out)) : bool :=
  match a, b with
  | None, None => true
  | Some (x, o), Some (y, p) => Bool.eqb x y && out_eqb o p
  | _, _ => false
  end.

Definition table {T : Type} (l : list (list T)) (dflt : T) : nat -> nat -> T :=
  fun i k => nth k (nth i l []) dflt.

(* concrete user transforms used by the harness: entry t of transforms=[...] is x -> 2*x + t;
   transform= kinds: 0 = identity (returns a tuple / the tensor), 1 = reverse the coordinates,
   2 = append the sum of the coordinates *)
Definition h_tvec (t : nat) (c : list Z) : list Z := map (fun x => 2 * x + Z.of_nat t)%Z c.

Fixpoint sum_cols (cs : list (list Z)) : list Z :=
  match cs with
  | [] => []
  | [c] => c
  | c :: rest => (fix add (a b : list Z) : list Z :=
                    match a, b with x :: a', y :: b' => (x + y)%Z :: add a' b' | _, _ => [] end) c (sum_cols rest)
  end.

Definition h_tmulti (t : nat) (cs : list (list Z)) : out :=
  match t with
  | 0 => single_or FU cs
  | 1 => single_or FU (rev cs)
  | _ => (FU, cs ++ [sum_cols cs])
  end.

(* ================================================================ SPECIFICATION (C13)
   Row-level meaning of a combinator tree: a row (= all coordinates of one point) is atomic.
   proofs/C13_comb.v shows that the column model above returns the transposition of these
   rows for every tree of any depth and every call index. *)
Notation zp := (zproj Z 0%Z).
Notation row := (list Z).
Definition width (d : nat) (r : row) : Prop := length r = d.
Definition count_true (mk : list bool) : nat := length (filter (fun b => b) mk).
Definition sumn (l : list nat) : nat := sum l.

(* i-th rows juxtaposed *)
Definition zipw (a b : list row) : list row := map (fun p => fst p ++ snd p) (combine a b).

Fixpoint juxt (rss : list (list row)) : list row :=
  match rss with
  | [] => []
  | [rs] => rs
  | rs :: rest => zipw rs (juxt rest)
  end.

(* the maps of transforms=[...] applied coordinate by coordinate (None = identity) *)
Definition app1 (tfun : nat -> Z -> Z) (t : option nat) (x : Z) : Z := match t with None => x | Some i => tfun i x end.

Fixpoint zipmap (tfun : nat -> Z -> Z) (ts : list (option nat)) (r : row) : row :=
  match ts, r with
  | t :: ts', x :: r' => app1 tfun t x :: zipmap tfun ts' r'
  | _, _ => []
  end.

Section SpecDefs.
  (* the oracles of the model *)
  Variable draw : nat -> nat -> list (list Z).
  Variable mask : nat -> nat -> list bool.
  Variable rperm : nat -> nat -> list nat.
  Variable rint : nat -> nat -> list nat.
  Variable tvec : nat -> list Z -> list Z.
  Variable tmulti : nat -> list (list Z) -> out.
  (* what the property assumes about the user-supplied parts *)
  Variable ldims : nat -> nat.              (* number of dimensions of leaf id *)
  Variable tfun : nat -> Z -> Z.            (* entry t of transforms=[...] acts pointwise as tfun t *)
  Variable trow : nat -> row -> row.        (* transform=t acts row by row as trow t *)
  Variable tdims : nat -> nat -> nat.       (* ... producing tdims t d coordinates from d *)
  Variable tform : nat -> nat -> form.      (* ... in this container *)

  Notation sample := (sample draw mask rperm rint tvec tmulti).
  Notation size_at := (size_at draw mask rperm rint tvec tmulti).

  Definition rsize (g : gen) (sz : option nat) : nat := match sz with Some s => s | None => csize g end.

  (* the row indices a ResampleGenerator uses at call k *)
  Definition ridx (g : gen) (r : nat) (sz : option nat) (repl : bool) (k : nat) : list nat :=
    if repl then rint r k else firstn (rsize g sz) (rperm r k).

  Fixpoint dims (g : gen) : nat :=
    match g with
    | Leaf id _ _ => ldims id
    | Concat gs => match gs with [] => 0 | h :: _ => dims h end
    | Ensemble gs => sumn (map dims gs)
    | Mesh gs => length gs
    | TransformL g _ => dims g
    | TransformF g t => tdims t (dims g)
    | TransformN g => dims g
    | Filter g _ _ _ | Resample g _ _ _ | Static g => dims g
    | Predefined cs => length cs
    end.

  (* the Python container a node returns *)
  Fixpoint fform (g : gen) : form :=
    match g with
    | Leaf _ _ fm => fm
    | Concat gs => match gs with [] => FL | h :: _ => match fform h with FT => FT | _ => FL end end
    | Ensemble gs => match sumn (map dims gs) with 1 => FT | _ => FU end
    | Mesh gs => match gs with [_] => FT | _ => FU end
    | TransformL g _ => match fform g with FT => FT | _ => FU end
    | TransformF g t => tform t (dims g)
    | TransformN g => match dims g with 1 => FT | _ => FU end
    | Filter g _ _ _ => match dims g with 1 => FT | _ => FL end
    | Resample g _ _ _ => match fform g with FT => FT | _ => FL end
    | Static g => fform g
    | Predefined cs => match cs with [_] => FT | _ => FL end
    end.

  (* ROW-LEVEL SPECIFICATION: what the k-th call returns, as a list of points *)
  Fixpoint rsem (g : gen) (k : nat) {struct g} : list row :=
    match g with
    | Leaf id _ _ => rows_of 0%Z (ldims id) (draw id k)
    | Concat gs => concat (map (fun h => rsem h k) gs)                      (* the children's points, in order *)
    | Ensemble gs => juxt (map (fun h => rsem h k) gs)                      (* i-th points juxtaposed *)
    | Mesh gs => cart (map (fun h => map (zp 0) (rsem h k)) gs)             (* every combination, row-major *)
    | TransformL g ts => map (zipmap tfun ts) (rsem g k)                    (* the maps, coordinate by coordinate *)
    | TransformF g t => map (trow t) (rsem g k)
    | TransformN g => rsem g k
    | Filter g m _ _ => select (mask m k) (rsem g k)                        (* exactly the points passing the mask *)
    | Resample g r sz repl => map (fun i => nth i (rsem g k) []) (ridx g r sz repl k)   (* points of THIS draw *)
    | Static g => rsem g 0                                                  (* the first draw, forever *)
    | Predefined cs => rows_of 0%Z (length cs) cs
    end.

  (* preconditions of the property, per node, at call k *)
  Inductive ok : gen -> nat -> Prop :=
  | ok_leaf id s fm k :
      1 <= ldims id -> wf_cols (ldims id) (draw id k) -> (fm = FT -> ldims id = 1) -> ok (Leaf id s fm) k
  | ok_concat gs k :
      gs <> [] -> Forall (fun h => ok h k) gs ->
      (forall h, In h gs -> dims h = dims (Concat gs)) ->                              (* same dimension count *)
      (forall h, In h gs -> (fform h = FT <-> fform (Concat gs) = FT)) ->              (* same kind of container *)
      ok (Concat gs) k
  | ok_ensemble gs k :
      gs <> [] -> Forall (fun h => ok h k) gs ->
      (forall h h', In h gs -> In h' gs -> length (rsem h k) = length (rsem h' k)) ->  (* equal sizes required *)
      ok (Ensemble gs) k
  | ok_mesh gs k :
      gs <> [] -> Forall (fun h => ok h k) gs ->
      (forall h, In h gs -> dims h = 1) ->                                             (* one-dimensional generators *)
      ok (Mesh gs) k
  | ok_transL g (ts : list (option nat)) k : ok g k -> length ts = dims g -> ok (TransformL g ts) k          (* one map per dimension *)
  | ok_transF g t k : ok g k -> ok (TransformF g t) k
  | ok_transN g k : ok g k -> ok (TransformN g) k
  | ok_filter g m s u k : ok g k -> length (mask m k) = length (rsem g k) -> ok (Filter g m s u) k
  | ok_resample g r (sz : option nat) (repl : bool) k :
      ok g k ->
      (* the RNG answered the request it was given: randint(n, (size,)) resp. randperm(n),
         n = the number of rows of the draw just taken *)
      (if repl then length (rint r k) = rsize g sz /\ Forall (fun i => i < length (rsem g k)) (rint r k)
       else length (rperm r k) = length (rsem g k) /\ Forall (fun i => i < length (rsem g k)) (rperm r k)) ->
      ok (Resample g r sz repl) k
  | ok_static g k : ok g 0 -> ok (Static g) k
  | ok_predef cs k : 1 <= length cs -> wf_cols (length cs) cs -> ok (Predefined cs) k.

  (* what is established for a node: the columns the code returns are the transposition of the
     specified rows (so the coordinates of a point sit at one index in every dimension) *)
  Definition good (g : gen) (k : nat) : Prop :=
    sample g k = Some (fform g, transpose (dims g) (rsem g k))
    /\ Forall (width (dims g)) (rsem g k)
    /\ 1 <= dims g
    /\ (fform g = FT -> dims g = 1).


  (* trees whose sizes are fixed at construction: no filter; leaves deliver their declared size;
     resample sizes realisable; ensemble children nominally equal (the constructor's check) *)
  Inductive sized : gen -> nat -> Prop :=
  | sz_leaf id s fm k : length (hd [] (draw id k)) = s -> sized (Leaf id s fm) k
  | sz_concat gs k : Forall (fun h => sized h k) gs -> sized (Concat gs) k
  | sz_ensemble gs k : gs <> [] -> Forall (fun h => sized h k) gs ->
                       (forall h, In h gs -> csize h = csize (Ensemble gs)) -> sized (Ensemble gs) k
  | sz_mesh gs k : Forall (fun h => sized h k) gs -> sized (Mesh gs) k
  | sz_transL g ts k : sized g k -> sized (TransformL g ts) k
  | sz_transF g t k : sized g k -> sized (TransformF g t) k
  | sz_transN g k : sized g k -> sized (TransformN g) k
  | sz_resample g r (sz : option nat) (repl : bool) k :
      sized g k ->
      (if repl then length (rint r k) = rsize g sz else rsize g sz <= length (rperm r k)) ->
      sized (Resample g r sz repl) k
  | sz_static g k : sized g 0 -> sized (Static g) k
  | sz_predef cs k : sized (Predefined cs) k.

End SpecDefs.
