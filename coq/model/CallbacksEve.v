(* EveCallback.__call__ (neurodiffeq/callbacks.py), the real-valued part.  Property C16.
     double_times = int(EPS + (np.log(value) - np.log(base_value)) / np.log(double_at))
     double_times = max(double_times, 0)
     solver.n_batches['train'] = min(n_0 * 2 ** double_times, n_max)
   Modelled, not verified: the float64 logarithms, subtraction, division and the addition of
   EPS are taken as the exact real operations (EPS = 1e-4 as the real 1/10000); `int()` of a
   finite float is truncation towards zero (Flocq's Ztrunc). *)
From Coq Require Import Reals ZArith.
From Flocq Require Import Core.Raux.
From ND.model Require Import Callbacks.
Open Scope R_scope.

Definition EVE_EPS : R := 1 / 10000.

(* the real number handed to int() *)
Definition eve_arg (value base_value double_at : R) : R :=
  EVE_EPS + (ln value - ln base_value) / ln double_at.

(* the new solver.n_batches['train'] *)
Definition eve_n (n_0 : Z) (n_max : option Z) (value base_value double_at : R) : Z :=
  eve_batches n_0 n_max (Ztrunc (eve_arg value base_value double_at)).
