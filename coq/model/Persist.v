(* Persist.v — executable model of PretrainedSolver.save / PretrainedSolver.load
   (neurodiffeq/solvers_utils.py) for C18.  Definitions only.  DESIGN.md section 7, C18.

   The model is parameterised by [srcfacts]: what tools/props/t_C18.py extracts from the
   current source on every run (gen/Gen_C18.v): on which dictionary get_conditions works, the
   key list of save_dict with the expression stored under each key, the keyword arguments
   load passes to each constructor (with their provenance under the default SolverConfig) and
   the attributes it restores afterwards.  A change to save/load changes these lists and hence
   the model the theorems are about.

   Abstraction: network parameters and the optimiser are fingerprint ids (Z), losses are
   rationals, a condition is its class id and its __dict__ as an ordered association list of
   abstract attributes. *)
From Coq Require Import String.
From Coq Require Import List ZArith QArith Bool Arith.
Import ListNotations.
Close Scope Q_scope.
Local Open Scope nat_scope.

(* ------------------------------------------------------------------ what the extractor emits *)
Record srcfacts := mkFacts {
  sf_aliased : bool;            (* get_conditions: cond_dict = condition.__dict__ (no copy) *)
  sf_writes_type : bool;        (* cond_dict["condition_type"] = condition.__class__.__name__ *)
  sf_replaces_fun : bool;       (* function attributes are overwritten by their source text when it is not "" *)
  sf_touch_before_dump : bool;  (* get_conditions(self.conditions) is evaluated before dill.dump *)
  sf_save_dict : list (string * string);                  (* key, stored expression *)
  sf_ctor : list (string * list (string * string));       (* solver kind, [(keyword, provenance)] *)
  sf_restores : list (string * string);                   (* attribute restored after construction, provenance *)
  sf_effects : list (string * string) }.                  (* solver kind (or "all"), effect of a call on the save path that is
                                                             not a pure read: draw:train, draw:valid, pyrandom, torchrng, other:.. *)

Fixpoint assoc {B} (k : string) (l : list (string * B)) : option B :=
  match l with
  | [] => None
  | (k', v) :: r => if String.eqb k' k then Some v else assoc k r
  end.

Definition str_is (o : option string) (s : string) : bool :=
  match o with Some x => String.eqb x s | None => false end.

Definition saved (sf : srcfacts) (key src : string) : bool := str_is (assoc key (sf_save_dict sf)) src.
Definition restored (sf : srcfacts) (attr prov : string) : bool := str_is (assoc attr (sf_restores sf)) prov.

(* ------------------------------------------------------------------ abstract solver state *)
Inductive skind := K1D | KBundle | K2D.
Definition skind_name (k : skind) : string :=
  match k with K1D => "Solver1D" | KBundle => "BundleSolver1D" | K2D => "Solver2D" end.
Definition skind_eqb (a b : skind) : bool :=
  match a, b with K1D, K1D | KBundle, KBundle | K2D, K2D => true | _, _ => false end.

Inductive attr :=
| ANum (n : Z) (d : positive)            (* a plain number *)
| ANone
| AFun (id : nat) (has_source : bool)    (* a user function / lambda; has_source: inspect finds its text *)
| ASrc (id : nat)                        (* the source text of function id (a str) *)
| AStr (id : nat)                        (* any other string, e.g. a class name *)
| AOther (id : nat).                     (* anything else, identified by an id *)

Record cond := mkCond { c_type : nat; c_attrs : list (string * attr) }.

(* state outside the solver's attributes that later training depends on: how many batches have been
   drawn from the solver's own train / valid generators (their next draws), how often the global
   `random` module and torch's global RNG have been advanced; unknown = effects not modelled *)
Record envstate := mkEnv { drawn_train : nat; drawn_valid : nat; py_random : nat; torch_rng : nat; unknown : nat;
                           stochastic : bool (* a forward pass of the solver's networks draws from torch's RNG (e.g. Dropout in training mode) *) }.

Record state := mkState {
  kind : skind;
  nets : list Z;                 (* fingerprint of each network's parameters *)
  opt : Z;                       (* fingerprint of the optimiser: class and state *)
  train_hist : list Q;
  valid_hist : list Q;
  lowest : option Q;             (* lowest_loss *)
  best : option (list Z);        (* best_nets *)
  conds : list cond;
  loss_id : nat;                 (* 0 = the default loss *)
  n_params : nat;                (* number of bundle parameters the generator yields *)
  eqs : list (list nat);         (* _diff_eqs_wrapper layers around the user's equations, outermost
                                    first: each holds the eq_param_index captured by its closure *)
  env : envstate                 (* generators' positions and global RNG use *)
}.

Definition global_epoch (s : state) : nat := length (train_hist s).

Definition set_conds (s : state) (c : list cond) : state :=
  mkState (kind s) (nets s) (opt s) (train_hist s) (valid_hist s) (lowest s) (best s) c (loss_id s) (n_params s) (eqs s) (env s).

Definition set_env (s : state) (e : envstate) : state :=
  mkState (kind s) (nets s) (opt s) (train_hist s) (valid_hist s) (lowest s) (best s) (conds s) (loss_id s) (n_params s) (eqs s) e.

(* every wrapper layer can pick its parameters out of what the layer above passes down *)
Fixpoint eqs_ok (avail : nat) (layers : list (list nat)) : bool :=
  match layers with
  | [] => true
  | l :: r => forallb (fun i => Nat.ltb i avail) l && eqs_ok (length l) r
  end.
Definition trainable (s : state) : bool := eqs_ok (n_params s) (eqs s).

(* ------------------------------------------------------------------ get_conditions *)
Fixpoint d_set (d : list (string * attr)) (k : string) (v : attr) : list (string * attr) :=
  match d with
  | [] => [(k, v)]
  | (k', v') :: r => if String.eqb k' k then (k', v) :: r else (k', v') :: d_set r k v
  end.

Definition source_of (a : attr) : attr :=
  match a with AFun id true => ASrc id | _ => a end.

(* what get_conditions does to the dictionary it works on *)
Definition touch_cond (sf : srcfacts) (c : cond) : cond :=
  let d1 := if sf_writes_type sf then d_set (c_attrs c) "condition_type" (AStr (c_type c)) else c_attrs c in
  let d2 := if sf_replaces_fun sf then map (fun kv => (fst kv, source_of (snd kv))) d1 else d1 in
  mkCond (c_type c) d2.

(* what matters when a condition is enforced: everything except the descriptive entry *)
Definition cond_sem (c : cond) : cond :=
  mkCond (c_type c) (filter (fun kv => negb (String.eqb (fst kv) "condition_type")) (c_attrs c)).

(* ------------------------------------------------------------------ effects of the save path *)
Definition effect_known (t : string) : bool :=
  String.eqb t "draw:train" || String.eqb t "draw:valid" || String.eqb t "pyrandom" || String.eqb t "torchrng" || String.eqb t "forward".
Definition for_kind (k : skind) (p : string * string) : bool := String.eqb (fst p) (skind_name k) || String.eqb (fst p) "all".
Definition count_effect (sf : srcfacts) (k : skind) (tag : string) : nat :=
  length (filter (fun p => for_kind k p && String.eqb (snd p) tag) (sf_effects sf)).
Definition count_unknown (sf : srcfacts) (k : skind) : nat :=
  length (filter (fun p => for_kind k p && negb (effect_known (snd p))) (sf_effects sf)).

(* what running the save path does to the environment (it runs before dill.dump) *)
Definition save_env (sf : srcfacts) (k : skind) (e : envstate) : envstate :=
  mkEnv (count_effect sf k "draw:train" + drawn_train e) (count_effect sf k "draw:valid" + drawn_valid e)
        (count_effect sf k "pyrandom" + py_random e)
        (count_effect sf k "torchrng" + (if stochastic e then count_effect sf k "forward" else 0) + torch_rng e)
        (count_unknown sf k + unknown e) (stochastic e).

(* ------------------------------------------------------------------ the saved dictionary *)
Record file := mkFile {
  f_kind : option skind;                  (* "type_name" *)
  f_nets : option (list Z);               (* "nets" *)
  f_best : option (option (list Z));      (* "best_nets" *)
  f_opt : option Z;                       (* "optimizer" + "optimizer_state" + "optimizer_class" *)
  f_conds : option (list cond);           (* "conditions" *)
  f_train : option (list Q);              (* "train_loss_history" *)
  f_valid : option (list Q);              (* "valid_loss_history" *)
  f_lowest : option (option Q);           (* "lowest_loss" (not saved by the unchanged tree) *)
  f_loss : option nat;                    (* "loss_fn" *)
  f_eqs : option (list (list nat));       (* "diff_eqs": the solver's (wrapped) equations *)
  f_generator : bool;                     (* "generator" *)
  f_metrics : bool;                       (* "metrics" *)
  f_solver : option (nat);                (* "solver": the solver itself (r_min/r_max, hence n_params) *)
  f_gen_pos : nat * nat * bool            (* the pickled generators carry their position; the networks their layers *)
}.

Definition opt_if {B} (b : bool) (x : B) : option B := if b then Some x else None.

Definition mkfile (sf : srcfacts) (s : state) : file :=
  mkFile (opt_if (saved sf "type_name" "self.__class__.__name__") (kind s))
         (opt_if (saved sf "nets" "self.nets") (nets s))
         (opt_if (saved sf "best_nets" "self.best_nets") (best s))
         (opt_if (saved sf "optimizer" "self.optimizer" && saved sf "optimizer_state" "self.optimizer.state_dict()"
                  && saved sf "optimizer_class" "optimizer_class") (opt s))
         (opt_if (saved sf "conditions" "self.conditions") (conds s))
         (opt_if (saved sf "train_loss_history" "self.metrics_history['train_loss']") (train_hist s))
         (opt_if (saved sf "valid_loss_history" "self.metrics_history['valid_loss']") (valid_hist s))
         (opt_if (saved sf "lowest_loss" "self.lowest_loss") (lowest s))
         (opt_if (saved sf "loss_fn" "self.loss_fn") (loss_id s))
         (opt_if (saved sf "diff_eqs" "self.diff_eqs") (eqs s))
         (saved sf "generator" "self.generator")
         (saved sf "metrics" "self.metrics_fn")
         (opt_if (saved sf "solver" "self") (n_params s))
         (drawn_train (env s), drawn_valid (env s), stochastic (env s)).

(* save: the solver afterwards, and the file if serialisation succeeded (an oracle outcome).
   get_conditions runs while the descriptive dictionary is built; the condition objects stored
   under "conditions" are the solver's own, so the file holds them as they are at dump time. *)
Definition save (sf : srcfacts) (s : state) (ser_ok : bool) : state * option file :=
  let touched_early := sf_aliased sf && sf_touch_before_dump sf in
  let touched := sf_aliased sf && (sf_touch_before_dump sf || ser_ok) in
  let s_env := set_env s (save_env sf (kind s) (env s)) in            (* preview helpers etc. run first *)
  let s_touched := set_conds s_env (map (touch_cond sf) (conds s)) in
  let at_dump := if touched_early then s_touched else s_env in
  (if touched then s_touched else s_env, if ser_ok then Some (mkfile sf at_dump) else None).

(* ------------------------------------------------------------------ load *)
Definition ctor_args (sf : srcfacts) (k : skind) : option (list (string * string)) := assoc (skind_name k) (sf_ctor sf).
Definition arg_from (args : list (string * string)) (name prov : string) : bool := str_is (assoc name args) prov.
Definition has_arg (args : list (string * string)) (name : string) : bool :=
  match assoc name args with Some _ => true | None => false end.

Definition eq_arg (k : skind) : string := match k with K2D => "pde_system" | _ => "ode_system" end.

(* None = load raises *)
Definition load (sf : srcfacts) (f : file) : option state :=
  match f_kind f with
  | None => None
  | Some k =>
    match ctor_args sf k with
    | None => None
    | Some args =>
      match (if arg_from args "nets" "file:nets" then f_nets f else None),
            (if arg_from args "conditions" "file:conditions" then f_conds f else None),
            (if arg_from args "optimizer" "relinked(file:optimizer_class,file:optimizer_state)|file:optimizer" then f_opt f else None),
            (if arg_from args (eq_arg k) "file:diff_eqs" then f_eqs f else None),
            (if arg_from args "train_generator" "file:generator.train.generator"
                && arg_from args "valid_generator" "file:generator.valid.generator" then f_generator f else false),
            (match k with KBundle => f_solver f | _ => Some 0 end) with
      | Some n, Some c, Some o, Some e, true, Some np =>
          let loss := if has_arg args "loss_fn" then (if arg_from args "loss_fn" "file:loss_fn" then f_loss f else None) else Some 0 in
          match loss, (if arg_from args "metrics" "file:metrics" then f_metrics f else true) with
          | Some l, true =>
            (* BundleSolver1D's constructor wraps the equations it is given once more, with the
               eq_param_index it is given: none by default; `tuple(range(n_thetas))` hands ALL bundle
               parameters down, so that the saved wrapper selects by its own indices; any other
               expression is not modelled (fail-closed) *)
            match (match k with
                   | KBundle => match assoc "eq_param_index" args with
                                | None => Some ([] :: e)
                                | Some pr => if String.eqb pr "tuple(range(len(file:solver.r_min)-1))" then Some (seq 0 np :: e) else None
                                end
                   | _ => Some e
                   end) with
            | None => None
            | Some layers =>
            Some (mkState k n o
                    (if restored sf "metrics_history['train_loss']" "file:train_loss_history" then match f_train f with Some h => h | None => [] end else [])
                    (if restored sf "metrics_history['valid_loss']" "file:valid_loss_history" then match f_valid f with Some h => h | None => [] end else [])
                    (if restored sf "lowest_loss" "file:lowest_loss" || restored sf "lowest_loss" "fileget:lowest_loss"
                     then match f_lowest f with Some x => x | None => None end else None)
                    (if restored sf "best_nets" "file:best_nets" then match f_best f with Some b => b | None => None end else None)
                    c l (match k with KBundle => np | _ => 0 end) layers
                    (* the loaded generators continue where the saved ones were; the process-wide RNG
                       counters are not part of a solver: a fresh process starts them at 0 *)
                    (mkEnv (fst (fst (f_gen_pos f))) (snd (fst (f_gen_pos f))) 0 0 0 (snd (f_gen_pos f))))
            end
          | _, _ => None
          end
      | _, _, _, _, _, _ => None
      end
    end
  end.

(* ------------------------------------------------------------------ training epochs (oracle data) *)
Record epoch_data := mkEpoch { e_train : Q; e_valid : Q; e_nets : list Z; e_opt : Z; e_draws : nat * nat }.

Definition Qltb (a b : Q) : bool := negb (Qle_bool b a).

(* one epoch of fit(): train (history, optimiser step), validate (history, _update_best) *)
Definition run_epoch (s : state) (e : epoch_data) : state :=
  let better := match lowest s with None => true | Some l => Qltb (e_valid e) l end in
  mkState (kind s) (e_nets e) (e_opt e) (train_hist s ++ [e_train e]) (valid_hist s ++ [e_valid e])
          (if better then Some (e_valid e) else lowest s)
          (if better then Some (e_nets e) else best s)
          (conds s) (loss_id s) (n_params s) (eqs s)
          (mkEnv (drawn_train (env s) + fst (e_draws e)) (drawn_valid (env s) + snd (e_draws e))
                 (py_random (env s)) (torch_rng (env s)) (unknown (env s)) (stochastic (env s))).

(* training driven by ANY deterministic trainer that may read the whole state, generator positions
   and RNG counters included: what "a twin that was never saved" runs *)
Fixpoint fit_by (tr : state -> epoch_data) (s : state) (k : nat) : state :=
  match k with O => s | S k' => fit_by tr (run_epoch s (tr s)) k' end.

Definition fit (s : state) (es : list epoch_data) : state := fold_left run_epoch es s.

(* ------------------------------------------------------------------ specification vocabulary *)
(* what get_solution(best=..) evaluates: the chosen networks and what enforce reads of the conditions *)
Definition solution (s : state) (use_best : bool) : option (list Z) * list cond :=
  (if use_best then best s else Some (nets s), map cond_sem (conds s)).

(* best-model tracking refers to the lowest validation loss of the history from epoch k on *)
Definition tracks_from (k : nat) (s : state) : Prop :=
  match lowest s with
  | None => skipn k (valid_hist s) = []
  | Some l => In l (skipn k (valid_hist s)) /\ Forall (fun v => Qle l v) (skipn k (valid_hist s))
  end.
Definition tracks (s : state) : Prop := tracks_from 0 s.

(* which bundle parameters finally reach the user's equations: every wrapper layer picks its
   indices out of what the layer above hands down (None = IndexError) *)
Fixpoint pick {B} (l : list nat) (ps : list B) : option (list B) :=
  match l with
  | [] => Some []
  | i :: r => match nth_error ps i, pick r ps with Some x, Some t => Some (x :: t) | _, _ => None end
  end.
Fixpoint select {B} (layers : list (list nat)) (ps : list B) : option (list B) :=
  match layers with
  | [] => Some ps
  | l :: r => match pick l ps with Some q => select r q | None => None end
  end.

(* ------------------------------------------------------------------ save / load / fit cycles *)
Inductive op :=
| OSave (ser_ok : bool)          (* save(); keep using the same solver *)
| OSaveLoad                      (* save() succeeds, continue with Solver.load(path) *)
| OFit (es : list epoch_data).

Definition run_op (sf : srcfacts) (s : state) (o : op) : option state :=
  match o with
  | OSave ok => Some (fst (save sf s ok))
  | OSaveLoad => (* the load happens in the same process: its RNG counters go on *)
      let s' := fst (save sf s true) in
      match snd (save sf s true) with
      | Some f => match load sf f with
                  | Some l => Some (set_env l (mkEnv (drawn_train (env l)) (drawn_valid (env l))
                                                     (py_random (env s')) (torch_rng (env s')) (unknown (env s')) (stochastic (env l))))
                  | None => None end
      | None => None end
  | OFit es => Some (fit s es)
  end.

Fixpoint run_ops (sf : srcfacts) (s : state) (ops : list op) : option state :=
  match ops with
  | [] => Some s
  | o :: r => match run_op sf s o with Some s' => run_ops sf s' r | None => None end
  end.

(* ------------------------------------------------------------------ boolean equality (correspondence cases) *)
Definition attr_eqb (a b : attr) : bool :=
  match a, b with
  | ANum n d, ANum m e => Z.eqb n m && Pos.eqb d e
  | ANone, ANone => true
  | AFun i s, AFun j t => Nat.eqb i j && Bool.eqb s t
  | ASrc i, ASrc j | AStr i, AStr j | AOther i, AOther j => Nat.eqb i j
  | _, _ => false
  end.
Fixpoint leqb {B} (eqb : B -> B -> bool) (l1 l2 : list B) : bool :=
  match l1, l2 with
  | [], [] => true
  | a :: r1, b :: r2 => eqb a b && leqb eqb r1 r2
  | _, _ => false
  end.
Definition oeqb {B} (eqb : B -> B -> bool) (a b : option B) : bool :=
  match a, b with Some x, Some y => eqb x y | None, None => true | _, _ => false end.
Definition cond_eqb (a b : cond) : bool :=
  Nat.eqb (c_type a) (c_type b)
  && leqb (fun x y => String.eqb (fst x) (fst y) && attr_eqb (snd x) (snd y)) (c_attrs a) (c_attrs b).
Definition Qsame (a b : Q) : bool := Z.eqb (Qnum a) (Qnum b) && Pos.eqb (Qden a) (Qden b).
Definition state_eqb (a b : state) : bool :=
  skind_eqb (kind a) (kind b) && leqb Z.eqb (nets a) (nets b) && Z.eqb (opt a) (opt b)
  && leqb Qsame (train_hist a) (train_hist b) && leqb Qsame (valid_hist a) (valid_hist b)
  && oeqb Qsame (lowest a) (lowest b) && oeqb (leqb Z.eqb) (best a) (best b)
  && leqb cond_eqb (conds a) (conds b) && Nat.eqb (loss_id a) (loss_id b)
  && Nat.eqb (n_params a) (n_params b) && leqb (leqb Nat.eqb) (eqs a) (eqs b)
  && Nat.eqb (drawn_train (env a)) (drawn_train (env b)) && Nat.eqb (drawn_valid (env a)) (drawn_valid (env b))
  && Nat.eqb (py_random (env a)) (py_random (env b)) && Nat.eqb (torch_rng (env a)) (torch_rng (env b))
  && Nat.eqb (unknown (env a)) (unknown (env b)) && Bool.eqb (stochastic (env a)) (stochastic (env b)).
