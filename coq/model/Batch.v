(* Engine-B model of neurodiffeq.generators.BatchGenerator (C14).

   Two executable models of the same code:

   * the ROW model ([st], [refill], [get], [run]): the cache is a list of rows (a row = all the
     coordinates of one point); used to state the streaming invariant;
   * the COLUMN model ([cst], [crefill], [cget], [crun]): literally what the code does -- the
     cache [cached_xs] is a list of per-dimension vectors, the loop test looks at the length
     of dimension 0 only (IndexError = None if there is no dimension), refilling is [torch.cat([x, n]) for x, n in zip(cached_xs, new)]
     (zip truncates), the batch is [x[:size]] and the remainder [x[size:]] per dimension.

   proofs/C14_batch.v proves the invariant on the row model and that the column model run on
   the transposed draws is the transposition of the row model (so slicing every dimension
   identically keeps the coordinates of a point in one row).

   The underlying generator is an oracle stream: [draw k] is the result of its k-th
   [get_examples()] call (k = 0 is the call made by [BatchGenerator.__init__]).
   The [while] loop is modelled with explicit fuel; running out of fuel is [None] and is
   excluded in every statement. *)
From Coq Require Import List Arith ZArith Bool.
Import ListNotations.

Section RowModel.
  Variable row : Type.
  Variable draw : nat -> list row.

  Record st := { cached : list row; taken : nat (* number of underlying draws consumed *) }.

  (* __init__: self.cached_xs = self.generator.get_examples() *)
  Definition init : st := {| cached := draw 0; taken := 1 |}.

  (* while len(self.cached_xs[0]) < self.size: cached_xs = cat(cached_xs, generator.get_examples()) *)
  Fixpoint refill (fuel size : nat) (s : st) : option st :=
    if Nat.ltb (length (cached s)) size then
      match fuel with
      | O => None
      | S f => refill f size {| cached := cached s ++ draw (taken s); taken := S (taken s) |}
      end
    else Some s.

  (* batch = x[:size]; cached_xs = x[size:] *)
  Definition get (fuel size : nat) (s : st) : option (list row * st) :=
    match refill fuel size s with
    | None => None
    | Some s' => Some (firstn size (cached s'), {| cached := skipn size (cached s'); taken := taken s' |})
    end.

  (* k successive get_examples() calls *)
  Fixpoint run (fuel size k : nat) (s : st) : option (list (list row) * st) :=
    match k with
    | O => Some ([], s)
    | S k' => match get fuel size s with
              | None => None
              | Some (b, s1) => match run fuel size k' s1 with
                                | None => None
                                | Some (bs, s2) => Some (b :: bs, s2)
                                end
              end
    end.

  (* concatenation of the first n underlying draws *)
  Fixpoint draws (n : nat) : list row :=
    match n with O => [] | S k => draws k ++ draw k end.
End RowModel.

Arguments cached {row} _.
Arguments taken {row} _.

Section ColModel.
  Variable A : Type.
  Variable cdraw : nat -> list (list A).      (* a draw = list of per-dimension vectors *)

  Record cst := { ccached : list (list A); ctaken : nat }.

  (* [torch.cat([x, n]) for x, n in zip(cached_xs, new)] *)
  Fixpoint zip_app (xs ns : list (list A)) : list (list A) :=
    match xs, ns with
    | x :: xs', n :: ns' => (x ++ n) :: zip_app xs' ns'
    | _, _ => []
    end.

  Definition cinit : cst := {| ccached := cdraw 0; ctaken := 1 |}.

  Fixpoint crefill (fuel size : nat) (s : cst) : option cst :=
    match ccached s with
    | [] => None                      (* self.cached_xs[0]: IndexError *)
    | c0 :: _ =>
        if Nat.ltb (length c0) size then
          match fuel with
          | O => None
          | S f => crefill f size {| ccached := zip_app (ccached s) (cdraw (ctaken s)); ctaken := S (ctaken s) |}
          end
        else Some s
    end.

  Definition cget (fuel size : nat) (s : cst) : option (list (list A) * cst) :=
    match crefill fuel size s with
    | None => None
    | Some s' => Some (map (firstn size) (ccached s'),
                       {| ccached := map (skipn size) (ccached s'); ctaken := ctaken s' |})
    end.

  Fixpoint crun (fuel size k : nat) (s : cst) : option (list (list (list A)) * cst) :=
    match k with
    | O => Some ([], s)
    | S k' => match cget fuel size s with
              | None => None
              | Some (b, s1) => match crun fuel size k' s1 with
                                | None => None
                                | Some (bs, s2) => Some (b :: bs, s2)
                                end
              end
    end.
End ColModel.

Arguments ccached {A} _.
Arguments ctaken {A} _.

(* transposition rows -> columns, for d dimensions read by [proj j] *)
Definition cols {row A : Type} (d : nat) (proj : nat -> row -> A) (rs : list row) : list (list A) :=
  map (fun j => map (proj j) rs) (seq 0 d).

Definition cs_of {row A : Type} (d : nat) (proj : nat -> row -> A) (s : st row) : cst A :=
  {| ccached := cols d proj (cached s); ctaken := taken s |}.

(* concrete rows = lists of coordinates *)
Definition zproj (A : Type) (dflt : A) (j : nat) (r : list A) : A := nth j r dflt.

(* columns -> rows *)
Definition rows_of {A : Type} (dflt : A) (d : nat) (c : list (list A)) : list (list A) :=
  map (fun i => map (fun j => nth i (nth j c []) dflt) (seq 0 d)) (seq 0 (length (hd [] c))).

(* a well-formed draw: d columns, all of the length of the first *)
Definition wf_cols {A : Type} (d : nat) (c : list (list A)) : Prop :=
  length c = d /\ Forall (fun col => length col = length (hd [] c)) c.

(* ---- helpers for the correspondence cases (evaluated by vm_compute) ---- *)
Fixpoint zlist_eqb (a b : list Z) : bool :=
  match a, b with
  | [], [] => true
  | x :: a', y :: b' => Z.eqb x y && zlist_eqb a' b'
  | _, _ => false
  end.

Fixpoint list_eqb {T : Type} (e : T -> T -> bool) (a b : list T) : bool :=
  match a, b with
  | [], [] => true
  | x :: a', y :: b' => e x y && list_eqb e a' b'
  | _, _ => false
  end.

Definition stream {T : Type} (l : list (list T)) : nat -> list T := fun k => nth k l [].

(* run the column model for [k] calls on the recorded draws and compare with what the real
   BatchGenerator returned: the batches per dimension, the number of draws it took, and the
   cache it is left with (= the not yet delivered tail) *)
Definition batch_case (fuel size k : nat) (dr : list (list (list Z)))
           (obs : list (list (list Z))) (obs_taken : nat) : bool :=
  match crun Z (stream dr) fuel size k (cinit Z (stream dr)) with
  | None => false
  | Some (bs, s') =>
      list_eqb (list_eqb zlist_eqb) bs obs && Nat.eqb (ctaken s') obs_taken
  end.
