(* Semantics of the Python / torch operations accepted by the syntax-directed emitters
   tools/props/t_C14.py and t_C13.py (tools/harness/gen_pyast.py).  The generated files
   coq/gen/Gen_C14.v and Gen_C13.v consist of applications of these definitions only; what
   each one stands for is written next to it.  Hand-written, fixed; "modelled, not verified"
   for the torch operations (cat, slicing, mask / index-vector indexing, len). *)
From Coq Require Import List Arith ZArith Bool.
Import ListNotations.

(* a value returned by get_examples(): one 1-D tensor, or a list / tuple of 1-D tensors *)
Inductive pyv :=
| PT (t : list Z)                 (* torch.Tensor *)
| PL (l : list (list Z))          (* list of tensors *)
| PU (l : list (list Z)).         (* tuple of tensors *)

Definition is_tensor (v : pyv) : bool := match v with PT _ => true | _ => false end.   (* isinstance(v, torch.Tensor) *)
Definition is_tuple (v : pyv) : bool := match v with PU _ => true | _ => false end.    (* isinstance(v, tuple) *)
Definition is_list (v : pyv) : bool := match v with PL _ => true | _ => false end.     (* isinstance(v, list) *)

(* v used as a tensor (only emitted under an isinstance(v, torch.Tensor) guard) *)
Definition as_tensor (v : pyv) : list Z := match v with PT t => t | _ => [] end.
(* v iterated / indexed as a sequence of tensors (a 1-D tensor iterated gives scalars: not a sequence of tensors) *)
Definition as_seq (v : pyv) : list (list Z) := match v with PT _ => [] | PL l | PU l => l end.
(* the vectors of a value, one per dimension *)
Definition cols_of (v : pyv) : list (list Z) := match v with PT t => [t] | PL l | PU l => l end.

(* option monad: an operation that raises in Python is None *)
Notation "x <- e ;; k" := (match e with Some x => k | None => None end)
                            (at level 61, e at next level, right associativity).

Definition index0 {A : Type} (l : list A) : option A :=          (* l[0]; IndexError on an empty sequence *)
  match l with [] => None | x :: _ => Some x end.

Fixpoint zipwith {A B C : Type} (f : A -> B -> C) (a : list A) (b : list B) : list C :=   (* [f(x, y) for x, y in zip(a, b)] *)
  match a, b with
  | x :: a', y :: b' => f x y :: zipwith f a' b'
  | _, _ => []
  end.

Definition cat2 (x n : list Z) : list Z := x ++ n.                 (* torch.cat([x, n]) *)
Definition slice_to (k : nat) (x : list Z) : list Z := firstn k x.     (* x[:k] *)
Definition slice_from (k : nat) (x : list Z) : list Z := skipn k x.    (* x[k:] *)
Definition slice_to_idx (k : nat) (x : list nat) : list nat := firstn k x.   (* indices[:k] *)

Fixpoint all_some' {T : Type} (l : list (option T)) : option (list T) :=     (* a comprehension whose body may raise *)
  match l with
  | [] => Some []
  | None :: _ => None
  | Some x :: t => match all_some' t with Some r => Some (x :: r) | None => None end
  end.

Fixpoint mask_select {T : Type} (mk : list bool) (xs : list T) : list T :=
  match mk, xs with
  | b :: mk', x :: xs' => if b then x :: mask_select mk' xs' else mask_select mk' xs'
  | _, _ => []
  end.

(* x[mask], mask a boolean vector: IndexError unless the shapes agree *)
Definition mask_index (mk : list bool) (x : list Z) : option (list Z) :=
  if Nat.eqb (length x) (length mk) then Some (mask_select mk x) else None.

(* x[indices], indices an integer vector: IndexError if an index is out of range *)
Definition index_vec (idx : list nat) (x : list Z) : option (list Z) :=
  if forallb (fun i => Nat.ltb i (length x)) idx then Some (map (fun i => nth i x 0%Z) idx) else None.

Definition py_sum (l : list nat) : nat := fold_right Nat.add 0 l.      (* sum(...) *)
Definition py_prod (l : list nat) : nat := fold_right Nat.mul 1 l.     (* np.prod(tuple(...)) *)

(* len(v) of a value whose kind is not known statically: elements of a tensor, members of a list / tuple *)
Definition py_len (v : pyv) : nat := match v with PT t => length t | PL l | PU l => length l end.

(* ---- primitives used by the get_examples bodies of the combinators ---- *)

(* torch.cat(values): all members must be tensors (TypeError otherwise) *)
Definition cat_all (vs : list pyv) : option (list Z) :=
  if forallb is_tensor vs then Some (concat (map as_tensor vs)) else None.

(* zip( *sequences ): the i-th members of every sequence, truncated to the shortest *)
Fixpoint zipn (css : list (list (list Z))) : list (list (list Z)) :=
  match css with
  | [] => []
  | [cs] => map (fun c => [c]) cs
  | cs :: rest => zipwith cons cs (zipn rest)
  end.

(* zip( *values ) followed by torch.cat of each tuple: a 1-D tensor among the values is iterated into
   0-d tensors, which torch.cat rejects -- modelled as an exception of the whole expression *)
Definition zip_star (vs : list pyv) : option (list (list (list Z))) :=
  if existsb is_tensor vs then None else Some (zipn (map as_seq vs)).

(* torch.meshgrid( *axes, indexing='ij'): one N-d array per axis; array j holds, at the multi-index
   (i_1..i_m), the value axes[j][i_j].  An N-d array is represented by its row-major contents, so
   [flatten_nd] is the identity on the representation.  Row-major enumeration of all combinations: *)
Fixpoint mg_cart (cs : list (list Z)) : list (list Z) :=
  match cs with
  | [] => [[]]
  | c :: cs' => flat_map (fun x => map (cons x) (mg_cart cs')) c
  end.

Definition meshgrid_ij (axes : list (list Z)) : list (list Z) :=
  map (fun j => map (fun r => nth j r 0%Z) (mg_cart axes)) (seq 0 (length axes)).

Definition flatten_nd (x : list Z) : list Z := x.          (* r.flatten() *)
Definition reshape_n1 (x : list Z) : list Z := x.          (* u.reshape(-1, 1): the same values as an (n, 1) array *)
Definition tensor_of (x : list Z) : list Z := x.           (* torch.tensor(x) of a plain sequence: the same numbers *)
Definition requires_grad (x : list Z) : list Z := x.       (* x.requires_grad_(True): the same values (differentiability is C07's subject) *)
