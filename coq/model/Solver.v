(* Solver.v — hand-written executable model (Engine B) of /repo/neurodiffeq/solvers.py, shared by
   C04, C05, C06, C15.  DESIGN.md sections 4.1 / 4.2.

   The model mirrors what the code DOES (BaseSolver.fit, _run_epoch, _update_best, _update_history,
   _generate_batch, get_solution / BaseSolution.__call__, get_residuals; the subclasses' routing:
   SolverSpherical._auto_enforce, BundleSolver1D._diff_eqs_wrapper), including the behaviour
   recorded as an open finding (closure optimisers with validation disabled: best-model snapshot taken
   after the step).  Three earlier findings were repaired in /repo and the model follows the repaired code:
   custom metrics are counted once per batch (value at the last closure evaluation), fit() resets
   local_epoch to 0, SolverSpherical passes all coordinates to a variadic condition.

   Layout
     Section Routing   — which condition / network / coordinates meet, what the equations receive
     Section SolCall   — BaseSolution.__call__ shape logic, get_residuals
     Section Solver    — the epoch / fit / best-model state machine over ABSTRACT components
                         (Section variables, no axioms): parameters P, gradients G, batches B,
                         values V, optimiser states O, condition parameters C
     Module Toy        — the integer/rational toy problem of DESIGN 4.2 instantiating the section
                         over Q with forward-mode dual numbers, executable by vm_compute; it predicts
                         the exact VALUE of every history entry, lowest_loss and the weight trajectory.
   Definitions only (+ trivial computation lemmas); proofs live in coq/proofs/C{04,05,06,15}_*.v. *)
From Coq Require Import List Arith Bool Lia ZArith.
Import ListNotations.

(* ------------------------------------------------------------------------------------------ *)
(* Shared vocabulary                                                                          *)

Inductive phase := Train | Valid.
Definition is_train (ph : phase) : bool := match ph with Train => true | Valid => false end.
Definition phase_eqb (a b : phase) : bool :=
  match a, b with Train, Train => true | Valid, Valid => true | _, _ => false end.

(* What an observer (spying user components, callbacks) can see happening, in program order.
   Stored newest-first in the state; [trace] gives chronological order. *)
Inductive event :=
| EvLocal (n : nat)              (* fit loop: self.local_epoch = n *)
| EvBegin (ph : phase)           (* _run_epoch passed the n_batches guard *)
| EvZero                         (* optimizer.zero_grad() *)
| EvDraw (ph : phase) (k : nat)  (* k-th draw (0-based, counted per generator) *)
| EvEval (ph : phase) (k : nat)  (* closure body run (nets, metrics, equations, loss) on draw k *)
| EvStep                         (* optimizer.step() without closure *)
| EvCStep                        (* optimizer.step(closure) *)
| EvHist (ph : phase)            (* epoch loss appended to <ph>_loss *)
| EvBest (ph : phase) (upd : bool) (* _update_best(ph); upd = best replaced *)
| EvMetric (ph : phase) (i : nat) (* metric i appended *)
| EvCb (i : nat).                (* i-th callback of the current fit() invoked *)

Fixpoint last_opt {A : Type} (l : list A) : option A :=
  match l with
  | [] => None
  | x :: t => match t with [] => Some x | _ :: _ => last_opt t end
  end.

Fixpoint mapM {A B : Type} (f : A -> option B) (l : list A) : option (list B) :=
  match l with
  | [] => Some []
  | x :: t => match f x, mapM f t with
              | Some y, Some ys => Some (y :: ys)
              | _, _ => None
              end
  end.

(* the five solver classes *)
Inductive sclass := Generic | S1D | Bundle | S2D | Spherical.

(* What inspect.signature reports about a condition's coordinate parameters: the number of
   named coordinate parameters of parameterize (or of an overriding enforce), or a single
   var-positional `*coords`. *)
Inductive csig := SigFixed (a : nat) | SigVariadic.

(* ------------------------------------------------------------------------------------------ *)
(* Routing inside one closure evaluation (solvers.py 373-380, 894-916, 1353-1361)             *)

Set Implicit Arguments.
Set Maximal Implicit Insertion.

Section Routing.
  Variables T N Cd : Type.                      (* column tensors, networks, conditions *)
  Variable enforce : Cd -> N -> list T -> T.    (* cond.enforce(net, *coords) *)
  Variable sig : Cd -> csig.

  (* SolverSpherical._auto_enforce: a fixed-arity condition gets the leading n_params - 1 coordinates; a
     condition whose signature has a var-positional parameter gets all of them *)
  Definition route_coords (cls : sclass) (c : Cd) (coords : list T) : list T :=
    match cls with
    | Spherical => match sig c with SigFixed a => firstn a coords | SigVariadic => coords end
    | _ => coords
    end.

  (* funcs = [compute_func_val(n, c, *batch) for n, c in zip(self.nets, self.conditions)] *)
  Definition funcs (cls : sclass) (nets : list N) (cds : list Cd) (coords : list T) : list T :=
    map (fun nc => enforce (snd nc) (fst nc) (route_coords cls (snd nc) coords)) (combine nets cds).

  (* what the user's equations receive from diff_eqs( *funcs, *batch ); for BundleSolver1D through
     _diff_eqs_wrapper with eq_param_index offset by N_FUNCTIONS + N_COORDS (N_COORDS = 1);
     None = IndexError *)
  Definition eq_args (cls : sclass) (nf : nat) (idx : list nat) (fs coords : list T) : option (list T) :=
    let vars := fs ++ coords in
    match cls with
    | Bundle => match mapM (fun i => nth_error vars (nf + 1 + i)) idx with
                | Some sel => Some (firstn (nf + 1) vars ++ sel)
                | None => None
                end
    | _ => Some vars
    end.
End Routing.

(* ------------------------------------------------------------------------------------------ *)
(* BaseSolution.__call__ and BaseSolver.get_residuals (solvers.py 606-646, 665-720)           *)

Section SolCall.
  Variable S : Type.                                  (* scalars *)
  Record tensor := mkTensor { tshape : list nat; tdata : list S }.   (* row-major *)
  Definition numel (sh : list nat) : nat := fold_right Nat.mul 1 sh.

  Variables N Cd : Type.
  (* condition.enforce(net, *columns) on (n,1) columns; None = raises *)
  Variable enforce_col : Cd -> N -> list (list S) -> option (list S).

  (* the _compute_u signatures: Solution1D(ts), Solution2D(xs, ys), SolutionSpherical(rs, thetas, phis),
     GenericSolution / BundleSolution1D ( *coords ) *)
  Definition sol_arity_ok (cls : sclass) (ncoords : nat) : bool :=
    match cls with
    | S1D => ncoords =? 1
    | S2D => ncoords =? 2
    | Spherical => ncoords =? 3
    | Generic | Bundle => true
    end.

  Inductive output := One (t : tensor) | Many (ts : list tensor).

  (* u.reshape( *shape ): defined iff the element counts agree *)
  Definition reshape (sh : list nat) (d : list S) : option tensor :=
    if numel sh =? length d then Some (mkTensor sh d) else None.

  Definition pack (n_nets : nat) (ts : list tensor) : option output :=
    if 1 <? n_nets then Some (Many ts)
    else match ts with t :: _ => Some (One t) | [] => None end.

  (* BaseSolution.__init__: a single nn.Module is replicated len(conditions) times *)
  Definition nets_of_module (net : N) (cds : list Cd) : list N := repeat net (length cds).

  Definition call_solution (cls : sclass) (nets : list N) (cds : list Cd)
             (coords : list tensor) (no_reshape : bool) : option output :=
    match coords with
    | [] => None
    | c0 :: _ =>
      if negb (sol_arity_ok cls (length coords)) then None else
      let cols := map tdata coords in                       (* c.reshape(-1, 1) *)
      match mapM (fun cn => enforce_col (fst cn) (snd cn) cols) (combine cds nets) with
      | None => None
      | Some us =>
        match mapM (fun u => if no_reshape then Some (mkTensor [length u; 1] u)
                             else reshape (tshape c0) u) us with
        | None => None
        | Some ts => pack (length nets) ts
        end
      end
    end.

  (* the user's equations on columns: funcs, coords -> residual columns; None = raises *)
  Variable diff_eqs : list (list S) -> list (list S) -> option (list (list S)).

  Definition get_residuals (cls : sclass) (nets : list N) (cds : list Cd)
             (coords : list tensor) (no_reshape : bool) : option output :=
    match coords with
    | [] => None
    | c0 :: _ =>
      let cols := map (fun c => mkTensor [length (tdata c); 1] (tdata c)) coords in
      match call_solution cls nets cds cols no_reshape with
      | None => None
      | Some out =>
        let fs := match out with One t => [tdata t] | Many ts => map tdata ts end in
        match diff_eqs fs (map tdata coords) with
        | None => None
        | Some rs =>
          match mapM (fun r => if no_reshape then Some (mkTensor [length r; 1] r)
                               else reshape (tshape c0) r) rs with
          | None => None
          | Some ts => pack (length ts) ts
          end
        end
      end
    end.
End SolCall.

Arguments mkTensor {S} _ _.
Arguments tshape {S} _.
Arguments tdata {S} _.
Arguments One {S} _.
Arguments Many {S} _.

(* ------------------------------------------------------------------------------------------ *)
(* The epoch / fit / best-model state machine over abstract components                        *)

Section Solver.
  Variables P G B V O C : Type.
  (* loss id -> condition parameters -> network parameters -> batch -> loss_fn(...) + additional_loss(...) *)
  Variable loss : nat -> C -> P -> B -> V.
  Variable gradl : nat -> C -> P -> B -> G.         (* its gradient w.r.t. the parameters *)
  Variable metric : nat -> C -> P -> B -> V.        (* i-th custom metric *)
  Variable nmetrics : nat.
  Variable gzero : G.
  Variable gadd : G -> G -> G.
  Variable vzero : V.
  Variable vadd : V -> V -> V.
  Variable vdivn : V -> nat -> V.
  Variable vltb : V -> V -> bool.
  Variable requires_closure : O -> bool.
  Variable opt_step : O -> P -> G -> O * P.
  (* closure optimiser: the list = the points at which it evaluated the closure, in order *)
  Variable closure_opt : O -> P -> (P -> V * G) -> O * list P * P.
  Variable draw : phase -> nat -> B.                (* oracle streams of the two generators *)

  (* what a recording callback reads *)
  Record snapshot := mkSnap {
    sn_theta : P; sn_best : option P; sn_lowest : option V;
    sn_local : nat; sn_global : nat; sn_nvalid : nat; sn_stop : bool }.

  (* ghost: one entry per _update_best call (never read by any operation) *)
  Record tentry := mkTE {
    t_val : V; t_theta : P; t_phase : phase; t_lid : nat; t_conds : C;
    t_start : nat; t_n : nat; t_closure : bool }.

  Record state := mkState {
    theta : P;
    grad : G;
    ost : O;
    conds : C;
    lid : nat;
    nb_train : nat;
    nb_valid : nat;
    h_train : list V;
    h_valid : list V;
    m_train : list (list V);
    m_valid : list (list V);
    lowest : option V;
    best : option P;
    local_epoch : nat;
    max_local : nat;
    stop : bool;
    cur_train : nat;
    cur_valid : nat;
    events : list event;
    snaps : list snapshot;
    tracked : list tentry
  }.

  Definition set_theta (x : P) (s : state) : state :=
    mkState x (grad s) (ost s) (conds s) (lid s) (nb_train s) (nb_valid s) (h_train s) (h_valid s) (m_train s) (m_valid s) (lowest s) (best s) (local_epoch s) (max_local s) (stop s) (cur_train s) (cur_valid s) (events s) (snaps s) (tracked s).
  Definition set_grad (x : G) (s : state) : state :=
    mkState (theta s) x (ost s) (conds s) (lid s) (nb_train s) (nb_valid s) (h_train s) (h_valid s) (m_train s) (m_valid s) (lowest s) (best s) (local_epoch s) (max_local s) (stop s) (cur_train s) (cur_valid s) (events s) (snaps s) (tracked s).
  Definition set_ost (x : O) (s : state) : state :=
    mkState (theta s) (grad s) x (conds s) (lid s) (nb_train s) (nb_valid s) (h_train s) (h_valid s) (m_train s) (m_valid s) (lowest s) (best s) (local_epoch s) (max_local s) (stop s) (cur_train s) (cur_valid s) (events s) (snaps s) (tracked s).
  Definition set_conds (x : C) (s : state) : state :=
    mkState (theta s) (grad s) (ost s) x (lid s) (nb_train s) (nb_valid s) (h_train s) (h_valid s) (m_train s) (m_valid s) (lowest s) (best s) (local_epoch s) (max_local s) (stop s) (cur_train s) (cur_valid s) (events s) (snaps s) (tracked s).
  Definition set_lid (x : nat) (s : state) : state :=
    mkState (theta s) (grad s) (ost s) (conds s) x (nb_train s) (nb_valid s) (h_train s) (h_valid s) (m_train s) (m_valid s) (lowest s) (best s) (local_epoch s) (max_local s) (stop s) (cur_train s) (cur_valid s) (events s) (snaps s) (tracked s).
  Definition set_nb_train (x : nat) (s : state) : state :=
    mkState (theta s) (grad s) (ost s) (conds s) (lid s) x (nb_valid s) (h_train s) (h_valid s) (m_train s) (m_valid s) (lowest s) (best s) (local_epoch s) (max_local s) (stop s) (cur_train s) (cur_valid s) (events s) (snaps s) (tracked s).
  Definition set_nb_valid (x : nat) (s : state) : state :=
    mkState (theta s) (grad s) (ost s) (conds s) (lid s) (nb_train s) x (h_train s) (h_valid s) (m_train s) (m_valid s) (lowest s) (best s) (local_epoch s) (max_local s) (stop s) (cur_train s) (cur_valid s) (events s) (snaps s) (tracked s).
  Definition set_h_train (x : list V) (s : state) : state :=
    mkState (theta s) (grad s) (ost s) (conds s) (lid s) (nb_train s) (nb_valid s) x (h_valid s) (m_train s) (m_valid s) (lowest s) (best s) (local_epoch s) (max_local s) (stop s) (cur_train s) (cur_valid s) (events s) (snaps s) (tracked s).
  Definition set_h_valid (x : list V) (s : state) : state :=
    mkState (theta s) (grad s) (ost s) (conds s) (lid s) (nb_train s) (nb_valid s) (h_train s) x (m_train s) (m_valid s) (lowest s) (best s) (local_epoch s) (max_local s) (stop s) (cur_train s) (cur_valid s) (events s) (snaps s) (tracked s).
  Definition set_m_train (x : list (list V)) (s : state) : state :=
    mkState (theta s) (grad s) (ost s) (conds s) (lid s) (nb_train s) (nb_valid s) (h_train s) (h_valid s) x (m_valid s) (lowest s) (best s) (local_epoch s) (max_local s) (stop s) (cur_train s) (cur_valid s) (events s) (snaps s) (tracked s).
  Definition set_m_valid (x : list (list V)) (s : state) : state :=
    mkState (theta s) (grad s) (ost s) (conds s) (lid s) (nb_train s) (nb_valid s) (h_train s) (h_valid s) (m_train s) x (lowest s) (best s) (local_epoch s) (max_local s) (stop s) (cur_train s) (cur_valid s) (events s) (snaps s) (tracked s).
  Definition set_lowest (x : option V) (s : state) : state :=
    mkState (theta s) (grad s) (ost s) (conds s) (lid s) (nb_train s) (nb_valid s) (h_train s) (h_valid s) (m_train s) (m_valid s) x (best s) (local_epoch s) (max_local s) (stop s) (cur_train s) (cur_valid s) (events s) (snaps s) (tracked s).
  Definition set_best (x : option P) (s : state) : state :=
    mkState (theta s) (grad s) (ost s) (conds s) (lid s) (nb_train s) (nb_valid s) (h_train s) (h_valid s) (m_train s) (m_valid s) (lowest s) x (local_epoch s) (max_local s) (stop s) (cur_train s) (cur_valid s) (events s) (snaps s) (tracked s).
  Definition set_local_epoch (x : nat) (s : state) : state :=
    mkState (theta s) (grad s) (ost s) (conds s) (lid s) (nb_train s) (nb_valid s) (h_train s) (h_valid s) (m_train s) (m_valid s) (lowest s) (best s) x (max_local s) (stop s) (cur_train s) (cur_valid s) (events s) (snaps s) (tracked s).
  Definition set_max_local (x : nat) (s : state) : state :=
    mkState (theta s) (grad s) (ost s) (conds s) (lid s) (nb_train s) (nb_valid s) (h_train s) (h_valid s) (m_train s) (m_valid s) (lowest s) (best s) (local_epoch s) x (stop s) (cur_train s) (cur_valid s) (events s) (snaps s) (tracked s).
  Definition set_stop (x : bool) (s : state) : state :=
    mkState (theta s) (grad s) (ost s) (conds s) (lid s) (nb_train s) (nb_valid s) (h_train s) (h_valid s) (m_train s) (m_valid s) (lowest s) (best s) (local_epoch s) (max_local s) x (cur_train s) (cur_valid s) (events s) (snaps s) (tracked s).
  Definition set_cur_train (x : nat) (s : state) : state :=
    mkState (theta s) (grad s) (ost s) (conds s) (lid s) (nb_train s) (nb_valid s) (h_train s) (h_valid s) (m_train s) (m_valid s) (lowest s) (best s) (local_epoch s) (max_local s) (stop s) x (cur_valid s) (events s) (snaps s) (tracked s).
  Definition set_cur_valid (x : nat) (s : state) : state :=
    mkState (theta s) (grad s) (ost s) (conds s) (lid s) (nb_train s) (nb_valid s) (h_train s) (h_valid s) (m_train s) (m_valid s) (lowest s) (best s) (local_epoch s) (max_local s) (stop s) (cur_train s) x (events s) (snaps s) (tracked s).
  Definition set_events (x : list event) (s : state) : state :=
    mkState (theta s) (grad s) (ost s) (conds s) (lid s) (nb_train s) (nb_valid s) (h_train s) (h_valid s) (m_train s) (m_valid s) (lowest s) (best s) (local_epoch s) (max_local s) (stop s) (cur_train s) (cur_valid s) x (snaps s) (tracked s).
  Definition set_snaps (x : list snapshot) (s : state) : state :=
    mkState (theta s) (grad s) (ost s) (conds s) (lid s) (nb_train s) (nb_valid s) (h_train s) (h_valid s) (m_train s) (m_valid s) (lowest s) (best s) (local_epoch s) (max_local s) (stop s) (cur_train s) (cur_valid s) (events s) x (tracked s).
  Definition set_tracked (x : list tentry) (s : state) : state :=
    mkState (theta s) (grad s) (ost s) (conds s) (lid s) (nb_train s) (nb_valid s) (h_train s) (h_valid s) (m_train s) (m_valid s) (lowest s) (best s) (local_epoch s) (max_local s) (stop s) (cur_train s) (cur_valid s) (events s) (snaps s) x.

  (* ---- accessors by phase *)
  Definition nb (ph : phase) (s : state) : nat := match ph with Train => nb_train s | Valid => nb_valid s end.
  Definition set_nb (ph : phase) (n : nat) (s : state) : state :=
    match ph with Train => set_nb_train n s | Valid => set_nb_valid n s end.
  Definition hist (ph : phase) (s : state) : list V := match ph with Train => h_train s | Valid => h_valid s end.
  Definition mhist (ph : phase) (s : state) : list (list V) := match ph with Train => m_train s | Valid => m_valid s end.
  Definition cur (ph : phase) (s : state) : nat := match ph with Train => cur_train s | Valid => cur_valid s end.
  Definition global_epoch (s : state) : nat := length (h_train s).       (* the property of that name *)
  Definition trace (s : state) : list event := rev (events s).

  Definition log (e : event) (s : state) : state := set_events (e :: events s) s.
  Definition bump_cur (ph : phase) (s : state) : state :=
    match ph with Train => set_cur_train (S (cur_train s)) s | Valid => set_cur_valid (S (cur_valid s)) s end.

  (* _update_history(value, 'loss', key) *)
  Definition push_hist (ph : phase) (v : V) (s : state) : state :=
    log (EvHist ph) (match ph with
                     | Train => set_h_train (h_train s ++ [v]) s
                     | Valid => set_h_valid (h_valid s ++ [v]) s
                     end).

  Fixpoint push_each (hs : list (list V)) (vs : list V) : list (list V) :=
    match hs, vs with
    | h :: hs', v :: vs' => (h ++ [v]) :: push_each hs' vs'
    | _, _ => hs
    end.

  (* for name in metrics_fn: _update_history(metric_values[name] / n, name, key) *)
  Definition push_metrics (ph : phase) (vs : list V) (s : state) : state :=
    let s1 := match ph with
              | Train => set_m_train (push_each (m_train s) vs) s
              | Valid => set_m_valid (push_each (m_valid s) vs) s
              end in
    set_events (rev (map (EvMetric ph) (seq 0 (length vs))) ++ events s1) s1.

  (* ---- one batch *)
  Record acc := mkAcc { a_eloss : V; a_bloss : V; a_met : list V }.   (* epoch_loss, batch_loss, metric_values *)
  Definition acc0 : acc := mkAcc vzero vzero (repeat vzero nmetrics).

  Fixpoint met_add_from (i : nat) (c : C) (p : P) (b : B) (ms : list V) : list V :=
    match ms with
    | [] => []
    | v :: t => vadd v (metric i c p b) :: met_add_from (S i) c p b t
    end.
  Definition met_add := met_add_from 0.

  (* the closure as a closure optimiser sees it (zero_grad, forward, backward): loss and gradient of this batch *)
  Definition closure_of (s : state) (b : B) : P -> V * G :=
    fun p => (loss (lid s) (conds s) p b, gradl (lid s) (conds s) p b).

  (* clo = _requires_closure(self.optimizer): a property of the optimiser OBJECT, which does not
     change during an epoch; it is computed once per epoch and passed down *)
  Definition eval_batch (clo : bool) (ph : phase) (k : nat) (b : B) (sa : state * acc) : state * acc :=
    let s := fst sa in
    let a := snd sa in
    match ph with
    | Valid =>
        let l := loss (lid s) (conds s) (theta s) b in
        (log (EvEval Valid k) s,
         mkAcc (vadd (a_eloss a) l) (a_bloss a) (met_add (conds s) (theta s) b (a_met a)))
    | Train =>
        if clo then
          match closure_opt (ost s) (theta s) (closure_of s b) with
          | (o', pts, p') =>
            (* batch_loss / .grad are whatever the LAST closure evaluation left (stale if none) *)
            let bl := match last_opt pts with Some p => loss (lid s) (conds s) p b | None => a_bloss a end in
            let g := match last_opt pts with Some p => gradl (lid s) (conds s) p b | None => grad s end in
            (* batch_metrics is overwritten by every closure evaluation and added ONCE per batch: the value at the
               last evaluation (nothing if the optimiser never evaluated the closure) *)
            let ms := match last_opt pts with Some p => met_add (conds s) p b (a_met a) | None => a_met a end in
            let evs := flat_map (fun _ : P => [EvZero; EvEval Train k]) pts in
            (set_theta p' (set_ost o' (set_grad g (set_events (rev evs ++ EvCStep :: events s) s))),
             mkAcc (vadd (a_eloss a) bl) bl ms)
          end
        else
          let l := loss (lid s) (conds s) (theta s) b in
          (log (EvEval Train k) (set_grad (gadd (grad s) (gradl (lid s) (conds s) (theta s) b)) s),
           mkAcc (vadd (a_eloss a) l) l (met_add (conds s) (theta s) b (a_met a)))
    end.

  (* batch = self._generate_batch(key); then the closure / optimiser step for it *)
  Definition batch_step (clo : bool) (ph : phase) (sa : state * acc) : state * acc :=
    let s := fst sa in
    let k := cur ph s in
    eval_batch clo ph k (draw ph k) (log (EvDraw ph k) (bump_cur ph s), snd sa).

  Fixpoint run_batches (n : nat) (clo : bool) (ph : phase) (sa : state * acc) : state * acc :=
    match n with
    | 0 => sa
    | S n' => run_batches n' clo ph (batch_step clo ph sa)
    end.

  (* ---- _update_best(key): strict `<`, deepcopy of the live nets (clo only feeds the ghost entry) *)
  Definition update_best (ph : phase) (clo : bool) (s : state) : state :=
    match last_opt (hist ph s) with
    | None => s
    | Some cur_loss =>
      let better := match lowest s with None => true | Some l => vltb cur_loss l end in
      let s1 := if better then set_best (Some (theta s)) (set_lowest (Some cur_loss) s) else s in
      set_tracked (tracked s1 ++ [mkTE cur_loss (theta s) ph (lid s) (conds s)
                                       (cur ph s - nb ph s) (nb ph s) clo])
                  (log (EvBest ph better) s1)
    end.

  Definition do_step (s : state) : state :=
    match opt_step (ost s) (theta s) (grad s) with
    | (o', p') => log EvStep (set_theta p' (set_ost o' s))
    end.
  Definition zero_grad (s : state) : state := log EvZero (set_grad gzero s).

  (* ---- _run_epoch(key) *)
  Definition run_epoch (ph : phase) (s : state) : state :=
    let n := nb ph s in
    if n =? 0 then s else
    let clo := requires_closure (ost s) in
    let s0 := log (EvBegin ph) s in
    let s1 := if is_train ph && negb clo then zero_grad s0 else s0 in
    let sa := run_batches n clo ph (s1, acc0) in
    let s2 := push_hist ph (vdivn (a_eloss (snd sa)) n) (fst sa) in
    let s3 := if negb (is_train ph) || (nb_valid s2 =? 0) then update_best ph clo s2 else s2 in
    let s4 := if is_train ph && negb clo then do_step s3 else s3 in
    push_metrics ph (map (fun v => vdivn v n) (a_met (snd sa))) s4.

  (* ---- callbacks: abstract decision functions over the solver state, acting through these *)
  Inductive action :=
  | ASetNb (ph : phase) (n : nat)     (* solver.n_batches[ph] = n *)
  | ASetLoss (l : nat)                (* solver._set_loss_fn(...) *)
  | ASetOpt (o : O)                   (* solver.optimizer = <fresh optimiser> *)
  | AStop                             (* solver._stop_training = True *)
  | ASetTheta (p : P)                 (* in-place mutation of the live parameters *)
  | ASetConds (c : C)                 (* in-place mutation of the conditions *)
  | ARecord.                          (* read the solver (recording callback) *)
  Definition callback := state -> list action.

  Definition snap (s : state) : snapshot :=
    mkSnap (theta s) (best s) (lowest s) (local_epoch s) (length (h_train s)) (length (h_valid s)) (stop s).

  Definition apply_action (a : action) (s : state) : state :=
    match a with
    | ASetNb ph n => set_nb ph n s
    | ASetLoss l => set_lid l s
    | ASetOpt o => set_ost o s
    | AStop => set_stop true s
    | ASetTheta p => set_theta p s
    | ASetConds c => set_conds c s
    | ARecord => set_snaps (snaps s ++ [snap s]) s
    end.

  Definition run_cb (i : nat) (cb : callback) (s : state) : state :=
    fold_left (fun s' a => apply_action a s') (cb s) (log (EvCb i) s).
  Fixpoint run_cbs_from (i : nat) (cbs : list callback) (s : state) : state :=
    match cbs with
    | [] => s
    | cb :: t => run_cbs_from (S i) t (run_cb i cb s)
    end.
  Definition run_cbs := run_cbs_from 0.

  (* ---- fit(max_epochs, callbacks) *)
  Definition iteration (i : nat) (cbs : list callback) (s : state) : state :=
    run_cbs cbs (run_epoch Valid (run_epoch Train (log (EvLocal (S i)) (set_local_epoch (S i) s)))).

  Fixpoint fit_loop (r i : nat) (cbs : list callback) (s : state) : state :=
    match r with
    | 0 => s
    | S r' => if stop s then s else fit_loop r' (S i) cbs (iteration i cbs s)
    end.

  Definition fit (m : nat) (cbs : list callback) (s : state) : state :=
    fit_loop m 0 cbs (set_local_epoch 0 (set_max_local m (set_stop false s))).

  Inductive op := OFit (m : nat) (cbs : list callback) | OAct (a : action).
  Definition run_op (o : op) (s : state) : state :=
    match o with OFit m cbs => fit m cbs s | OAct a => apply_action a s end.
  Definition run_ops (ops : list op) (s : state) : state := fold_left (fun s' o => run_op o s') ops s.

  (* ---- construction (BaseSolver.__init__) *)
  Definition init (p : P) (o : O) (c : C) (l nbt nbv : nat) : state :=
    mkState p gzero o c l nbt nbv [] [] (repeat [] nmetrics) (repeat [] nmetrics)
            None None 0 0 false 0 0 [] [] [].

  (* ---- get_solution(copy, best): what the returned object holds
       copy=True            -> deepcopy of (best_nets | nets) and of conditions
       copy=False best=True -> the best_nets object (the solver rebinds, never mutates it) + live conditions
       copy=False best=False-> the live nets and conditions themselves
     None = BaseSolution raises RuntimeError (best_nets is None) *)
  Inductive solution := SolCopy (p : P) (c : C) | SolBestAlias (p : P) | SolLive.
  Definition get_solution (copy best_ : bool) (s : state) : option solution :=
    if best_ then
      match best s with
      | None => None
      | Some p => Some (if copy then SolCopy p (conds s) else SolBestAlias p)
      end
    else Some (if copy then SolCopy (theta s) (conds s) else SolLive).
  (* what a solution evaluates with, at the time it is CALLED (s = the solver state then) *)
  Definition sol_nets (sol : solution) (s : state) : P :=
    match sol with SolCopy p _ => p | SolBestAlias p => p | SolLive => theta s end.
  Definition sol_conds (sol : solution) (s : state) : C :=
    match sol with SolCopy _ c => c | SolBestAlias _ => conds s | SolLive => conds s end.
End Solver.
Unset Implicit Arguments.
Unset Maximal Implicit Insertion.

Arguments ASetNb {P O C} _ _.
Arguments ASetLoss {P O C} _.
Arguments ASetOpt {P O C} _.
Arguments AStop {P O C}.
Arguments ASetTheta {P O C} _.
Arguments ASetConds {P O C} _.
Arguments ARecord {P O C}.
Arguments OFit {P G V O C} _ _.
Arguments OAct {P G V O C} _.
Arguments SolCopy {P C} _ _.
Arguments SolBestAlias {P C} _.
Arguments SolLive {P C}.

(* ------------------------------------------------------------------------------------------ *)
(* The integer / rational toy problem (DESIGN 4.2): an executable INSTANCE of the sections.    *)
(* The same formulas are implemented with torch components in tools/harness/solver_toy.py and  *)
(* run through the real solver classes; `check`s compare every recorded value.                 *)

From Coq Require Import QArith Qabs.

Module Toy.
  Local Open Scope Q_scope.

  Definition qadd (a b : Q) : Q := Qred (a + b).
  Definition qmul (a b : Q) : Q := Qred (a * b).
  Definition qz (z : Z) : Q := inject_Z z.
  Definition qn (n : nat) : Q := inject_Z (Z.of_nat n).
  Definition qdivn (v : Q) (n : nat) : Q := Qred (v / qn n).
  Definition qltb (a b : Q) : bool := negb (Qle_bool b a).

  Fixpoint zipw (f : Q -> Q -> Q) (a b : list Q) : list Q :=
    match a, b with
    | x :: a', y :: b' => f x y :: zipw f a' b'
    | _, _ => []
    end.

  Fixpoint mapi_from {A B : Type} (f : nat -> A -> B) (i : nat) (l : list A) : list B :=
    match l with [] => [] | x :: t => f i x :: mapi_from f (S i) t end.
  Definition mapi {A B : Type} (f : nat -> A -> B) := mapi_from f 0%nat.

  (* forward-mode dual numbers: value and gradient w.r.t. the weight vector (models torch.autograd) *)
  Definition dual := (Q * list Q)%type.
  Definition dconst (nw : nat) (k : Q) : dual := (k, repeat 0 nw).
  Definition onehot (nw k : nat) : list Q := map (fun i => if Nat.eqb i k then 1 else 0) (seq 0 nw).
  Definition dweight (nw : nat) (w : list Q) (k : nat) : dual := (nth k w 0, onehot nw k).
  Definition dadd (x y : dual) : dual := (qadd (fst x) (fst y), zipw qadd (snd x) (snd y)).
  Definition dscale (k : Q) (x : dual) : dual := (qmul k (fst x), map (qmul k) (snd x)).
  Definition dmul (x y : dual) : dual :=
    (qmul (fst x) (fst y), zipw qadd (map (qmul (fst x)) (snd y)) (map (qmul (fst y)) (snd x))).
  Definition dsum (nw : nat) (l : list dual) : dual := fold_left dadd l (dconst nw 0).

  Definition col := list dual.                          (* an (n,1) column *)
  Definition ccol (nw : nat) (xs : list Q) : col := map (dconst nw) xs.
  Definition rows_of (nw : nat) (cols : list col) : list (list dual) :=
    match cols with
    | [] => []
    | c :: _ => map (fun r => map (fun c' => nth r c' (dconst nw 0)) cols) (seq 0 (length c))
    end.

  Record cond := mkCond { c_tag : Z; c_coef : Z; c_sig : csig }.
  Record config := mkCfg {
    cls : sclass; nw : nat; kappa : list Z; netof : list nat; neq : nat; idx : list nat; ext : bool }.

  Definition primes : list Z := [2; 3; 5; 7; 11; 13; 17; 19; 23; 29; 31; 37; 41; 43; 47; 53]%Z.
  Definition prime (i : nat) : Q := qz (nth i primes 1%Z).

  (* weighted sum of the entries of a row: base + sum_j (c0 + j) x_j *)
  Definition lin (nw : nat) (base : Q) (c0 : nat) (row : list dual) : dual :=
    fold_left dadd (mapi (fun j x => dscale (qn (c0 + j)) x) row) (dconst nw base).

  (* condition cd enforced on net k at the routed columns:
       w_k * (kappa_k + sum_j (j+1) X_j) + coef * (tag + sum_j (10+j) X_j) *)
  Definition t_enforce (cfg : config) (w : list Q) (cd : cond) (k : nat) (cols : list col) : col :=
    map (fun row =>
           dadd (dmul (dweight (nw cfg) w k) (lin (nw cfg) (qz (nth k (kappa cfg) 0%Z)) 1 row))
                (dscale (qz (c_coef cd)) (lin (nw cfg) (qz (c_tag cd)) 10 row)))
        (rows_of (nw cfg) cols).

  Definition t_funcs (cfg : config) (cds : list cond) (w : list Q) (coords : list col) : list col :=
    funcs (t_enforce cfg w) c_sig (cls cfg) (netof cfg) cds coords.

  (* the toy equations: res_e = sum_pos prime(8 e + pos) * arg_pos *)
  Definition t_residuals (cfg : config) (args : list col) : list col :=
    map (fun e => map (fun row => fold_left dadd (mapi (fun pos x => dscale (prime (8 * e + pos)) x) row)
                                            (dconst (nw cfg) 0))
                      (rows_of (nw cfg) args))
        (seq 0 (neq cfg)).

  Definition tot (n : nat) (c : col) : dual := dsum n c.

  Definition t_loss_from (cfg : config) (l : nat) (res fs coords : list col) : dual :=
    let n := nw cfg in
    let sres := dsum n (map (tot n) res) in
    let f0 := match fs with f :: _ => tot n f | [] => dconst n 0 end in
    let c0 := match coords with c :: _ => tot n c | [] => dconst n 0 end in
    let sq := dsum n (map (fun r => dsum n (map (fun x => dmul x x) r)) res) in
    let base :=
        match l with
        | 0%nat => dadd sres (dadd (dscale 3 (dsum n (mapi (fun i f => dscale (qn (i + 1)) (tot n f)) fs)))
                                   (dscale 5 (dsum n (mapi (fun j c => dscale (qn (j + 1)) (tot n c)) coords))))
        | 1%nat => dadd (dscale 2 sres) f0
        | 2%nat => sq
        | _ => let cnt := (length res * match res with r :: _ => length r | [] => 0 end)%nat in
               dscale (Qred (1 / qn cnt)) sq
        end in
    if ext cfg then dadd base (dadd (dscale 7 f0) (dscale 11 c0)) else base.

  Definition t_lossd (cfg : config) (l : nat) (cds : list cond) (w : list Q) (b : list (list Q)) : dual :=
    let coords := map (ccol (nw cfg)) b in
    let fs := t_funcs cfg cds w coords in
    match eq_args (cls cfg) (length cds) (idx cfg) fs coords with
    | None => dconst (nw cfg) 0
    | Some args => t_loss_from cfg l (t_residuals cfg args) fs coords
    end.
  Definition t_loss cfg l cds w b : Q := fst (t_lossd cfg l cds w b).
  Definition t_grad cfg l cds w b : list Q := snd (t_lossd cfg l cds w b).

  Definition t_metric (cfg : config) (i : nat) (cds : list cond) (w : list Q) (b : list (list Q)) : Q :=
    let coords := map (ccol (nw cfg)) b in
    let a := t_funcs cfg cds w coords ++ coords in
    fst (dsum (nw cfg) (mapi (fun pos c => dscale (qn (100 * (i + 1) + pos + 1)) (tot (nw cfg) c)) a)).

  (* what the equations were called with, as plain values (for comparing with the spy) *)
  Definition t_eq_args_vals (cfg : config) (cds : list cond) (w : list Q) (b : list (list Q)) : option (list (list Q)) :=
    let coords := map (ccol (nw cfg)) b in
    match eq_args (cls cfg) (length cds) (idx cfg) (t_funcs cfg cds w coords) coords with
    | None => None
    | Some args => Some (map (map fst) args)
    end.

  (* ---- optimisers: SGD(lr) and the scripted closure optimiser of the harness *)
  Inductive topt := TSgd (lr : Q) | TScript (lr : Q) (counts : list nat).
  Definition t_requires_closure (o : topt) : bool := match o with TSgd _ => false | TScript _ _ => true end.
  Definition sgd_move (lr : Q) (w g : list Q) : list Q := zipw (fun x y => qadd x (qmul (- lr) y)) w g.
  Definition t_opt_step (o : topt) (w g : list Q) : topt * list Q :=
    match o with TSgd lr => (o, sgd_move lr w g) | TScript _ _ => (o, w) end.
  Fixpoint closure_iter (c : nat) (lr : Q) (f : list Q -> Q * list Q) (w : list Q) : list (list Q) * list Q :=
    match c with
    | 0%nat => ([], w)
    | S c' => match closure_iter c' lr f (sgd_move lr w (snd (f w))) with (pts, w') => (w :: pts, w') end
    end.
  Definition t_closure_opt (o : topt) (w : list Q) (f : list Q -> Q * list Q) : topt * list (list Q) * list Q :=
    match o with
    | TScript lr (c :: cs) => match closure_iter c lr f w with (pts, w') => (TScript lr cs, pts, w') end
    | TScript lr [] => match closure_iter 1 lr f w with (pts, w') => (o, pts, w') end
    | TSgd _ => (o, [], w)
    end.

  (* ---- the instance *)
  Definition t_state := state (list Q) (list Q) Q topt (list cond).
  Definition t_callback := callback (list Q) (list Q) Q topt (list cond).
  Definition t_action := action (list Q) topt (list cond).

  Section Inst.
    Variable cfg : config.
    Variable nm : nat.
    Variables trs vas : list (list (list Q)).       (* the draws of the two generators, in order *)

    Definition t_draw (ph : phase) (k : nat) : list (list Q) :=
      nth k (match ph with Train => trs | Valid => vas end) [].
    Definition t_gzero : list Q := repeat 0 (nw cfg).

    Definition t_init (w : list Q) (o : topt) (cds : list cond) (l nbt nbv : nat) : t_state :=
      init Q nm t_gzero w o cds l nbt nbv.
    Definition t_run_epoch : phase -> t_state -> t_state :=
      run_epoch (t_loss cfg) (t_grad cfg) (t_metric cfg) nm t_gzero (zipw qadd) 0 qadd qdivn qltb
                t_requires_closure t_opt_step t_closure_opt t_draw.
    Definition t_fit : nat -> list t_callback -> t_state -> t_state :=
      fit (t_loss cfg) (t_grad cfg) (t_metric cfg) nm t_gzero (zipw qadd) 0 qadd qdivn qltb
          t_requires_closure t_opt_step t_closure_opt t_draw.
    Definition t_act (a : t_action) (s : t_state) : t_state := apply_action a s.

    (* a Solution called on (n,1)-reshaped coordinates: every condition gets every coordinate *)
    Definition t_enforce_col (w : list Q) (cd : cond) (k : nat) (cols : list (list Q)) : option (list Q) :=
      match c_sig cd with
      | SigFixed a => if Nat.eqb a (length cols) then
                        Some (map fst (t_enforce cfg w cd k (map (ccol (nw cfg)) cols))) else None
      | SigVariadic => Some (map fst (t_enforce cfg w cd k (map (ccol (nw cfg)) cols)))
      end.
    Definition t_diff_eqs (nf : nat) (fs cs : list (list Q)) : option (list (list Q)) :=
      match eq_args (cls cfg) nf (idx cfg) (map (ccol (nw cfg)) fs) (map (ccol (nw cfg)) cs) with
      | None => None
      | Some args => Some (map (map fst) (t_residuals cfg args))
      end.
    Definition t_call (sol : solution (list Q) (list cond)) (s : t_state)
               (coords : list (tensor Q)) (no_reshape : bool) : option (output Q) :=
      call_solution (fun cd k => t_enforce_col (sol_nets sol s) cd k) (cls cfg)
                    (netof cfg) (sol_conds sol s) coords no_reshape.
    Definition t_call_opt (osol : option (solution (list Q) (list cond))) (s : t_state)
               (coords : list (tensor Q)) (no_reshape : bool) : option (output Q) :=
      match osol with Some sol => t_call sol s coords no_reshape | None => None end.
    Definition is_some {A : Type} (o : option A) : bool := match o with Some _ => true | None => false end.
    Definition t_get_residuals (best_ : bool) (s : t_state) (coords : list (tensor Q)) (no_reshape : bool)
      : option (output Q) :=
      match get_solution false best_ s with
      | None => None
      | Some sol =>
        get_residuals (fun cd k => t_enforce_col (sol_nets sol s) cd k) (t_diff_eqs (length (conds s)))
                      (cls cfg) (netof cfg) (sol_conds sol s) coords no_reshape
      end.
  End Inst.

  (* ---- comparison with observed floats (given as exact rationals by the harness):
          the observation must be within 2^-50 relative of the model's exact value, i.e. equal
          whenever the exact value is representable, a correctly rounded quotient otherwise *)
  Definition qclose (q obs : Q) : bool := Qle_bool (Qabs (q - obs) * (1125899906842624 # 1)) (Qabs q).
  Fixpoint all2 {A B : Type} (f : A -> B -> bool) (a : list A) (b : list B) : bool :=
    match a, b with
    | [], [] => true
    | x :: a', y :: b' => f x y && all2 f a' b'
    | _, _ => false
    end.
  Definition qs_close := all2 qclose.
  Definition qss_close := all2 qs_close.
  Definition oq_close (a b : option Q) : bool :=
    match a, b with Some x, Some y => qclose x y | None, None => true | _, _ => false end.
  Definition oqs_close (a b : option (list Q)) : bool :=
    match a, b with Some x, Some y => qs_close x y | None, None => true | _, _ => false end.

  Definition event_eqb (a b : event) : bool :=
    match a, b with
    | EvLocal n, EvLocal m => Nat.eqb n m
    | EvBegin p, EvBegin q => phase_eqb p q
    | EvZero, EvZero => true
    | EvDraw p k, EvDraw q j => phase_eqb p q && Nat.eqb k j
    | EvEval p k, EvEval q j => phase_eqb p q && Nat.eqb k j
    | EvStep, EvStep => true
    | EvCStep, EvCStep => true
    | EvHist p, EvHist q => phase_eqb p q
    | EvBest p u, EvBest q v => phase_eqb p q && Bool.eqb u v
    | EvMetric p i, EvMetric q j => phase_eqb p q && Nat.eqb i j
    | EvCb i, EvCb j => Nat.eqb i j
    | _, _ => false
    end.
  (* the events a spy on the user-supplied components sees *)
  Definition spy_visible (e : event) : bool :=
    match e with EvZero | EvDraw _ _ | EvEval _ _ | EvStep | EvCStep | EvCb _ => true | _ => false end.
  Definition spy_trace (s : t_state) : list event := filter spy_visible (trace s).
  Definition events_eqb := all2 event_eqb.
  Definition nats_eqb := all2 Nat.eqb.
  Definition tensor_close (a b : tensor Q) : bool :=
    nats_eqb (tshape a) (tshape b) && qs_close (tdata a) (tdata b).
  Definition out_close (a b : option (output Q)) : bool :=
    match a, b with
    | Some (One x), Some (One y) => tensor_close x y
    | Some (Many xs), Some (Many ys) => all2 tensor_close xs ys
    | None, None => true
    | _, _ => false
    end.
  (* one recorded snapshot: weights, best weights, lowest loss, local epoch, global epoch,
     number of validation entries, stop flag *)
  Definition snap_close (a : snapshot (list Q) Q) (w : list Q) (b : option (list Q)) (l : option Q)
             (loc glob nval : nat) (st : bool) : bool :=
    qs_close (sn_theta a) w && oqs_close (sn_best a) b && oq_close (sn_lowest a) l &&
    Nat.eqb (sn_local a) loc && Nat.eqb (sn_global a) glob && Nat.eqb (sn_nvalid a) nval &&
    Bool.eqb (sn_stop a) st.
  (* discrete part only (runs with inexact arithmetic: Adam, LBFGS, named / torch losses) *)
  Definition snap_discrete (a : snapshot (list Q) Q) (loc glob nval : nat) (st : bool) : bool :=
    Nat.eqb (sn_local a) loc && Nat.eqb (sn_global a) glob && Nat.eqb (sn_nvalid a) nval &&
    Bool.eqb (sn_stop a) st.
End Toy.
