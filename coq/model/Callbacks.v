(* Executable model of neurodiffeq/callbacks.py (condition callbacks, their combinators, the
   stateful repeated-metric counter, Stop / SetLossFn / SetOptimizer actions), of
   BaseMonitor.to_callback (monitors.py) and of the part of BaseSolver.fit (solvers.py) that
   sequences epochs, callbacks and the stop flag.  Property C16.  Definitions only.

   Conventions
   - epochs, ids, metric values are Z.  Metric values are the scripted integer values of the
     correspondence harness (IEEE rounding is modelled, not verified).
   - a metric history is stored MOST RECENT FIRST: Python's history[-1] is the head,
     history[-2] the second element; `list.append x` is `x :: h`.
   - the AST stores what the Python objects store after their constructors ran
     (offset already reduced mod period, epsilon/gap already made non-negative): use the
     smart constructors period_local, ..., r_converge, r_diverge below. *)
From Coq Require Import Ascii String ZArith List Bool.
Import ListNotations.
Open Scope Z_scope.

(* ------------------------------------------------------------------------------------- *)
(* What a condition callback can read from the solver                                     *)

Record view := mkView {
  v_local : Z;            (* solver.local_epoch *)
  v_global : Z;           (* solver.global_epoch = len(metrics_history['train_loss']) *)
  v_max : Z;              (* solver._max_local_epoch *)
  v_train : list Z;       (* metrics_history['train_loss'], most recent first *)
  v_valid : list Z;       (* metrics_history['valid_loss'], most recent first *)
  v_custom : list (string * (list Z * list Z))
                          (* custom metrics of solver.metrics_fn: name -> (train series, valid series) *)
}.

Definition tview (l g m : Z) : view := mkView l g m [] [] [].

(* ------------------------------------------------------------------------------------- *)
(* solver.metrics_history as the solver builds it (solvers.py _update_history): the loss under
   '<phase>_loss', a custom metric `name` under '<phase>__<name>' (double underscore) *)

Definition phase_name (use_train : bool) : string := if use_train then "train"%string else "valid"%string.
Definition solver_key (use_train : bool) (name : string) : string :=
  String.append (phase_name use_train) (String.append "__" name).

Definition store := list (string * list Z).

Fixpoint custom_store (c : list (string * (list Z * list Z))) : store :=
  match c with
  | [] => []
  | (name, (t, va)) :: r => (solver_key true name, t) :: (solver_key false name, va) :: custom_store r
  end.

Definition store_of (v : view) : store :=
  ("train_loss"%string, v_train v) :: ("valid_loss"%string, v_valid v) :: custom_store (v_custom v).

Fixpoint dict_get (d : store) (key : string) : option (list Z) :=
  match d with
  | [] => None
  | (k, h) :: r => if String.eqb k key then Some h else dict_get r key
  end.
Definition dict_has (d : store) (key : string) : bool := match dict_get d key with Some _ => true | None => false end.

(* str.partition('_'): (text before the first underscore, text after it); no underscore: (s, "") *)
Fixpoint partition_us (s : string) : string * string :=
  match s with
  | EmptyString => (EmptyString, EmptyString)
  | String c r => if Ascii.eqb c "_"%char then (EmptyString, r)
                  else let (a, b) := partition_us r in (String c a, b)
  end.

(* the key the callbacks build in __init__: f'{phase}_{metric}' *)
Definition callback_key (use_train : bool) (metric : string) : string :=
  String.append (phase_name use_train) (String.append "_" metric).

(* callbacks._metric_history(solver, key): the key itself if the solver has it, else
   '<phase>__<metric>' with (phase, _, metric) = key.partition('_'); None = KeyError *)
Definition lookup_key (d : store) (key : string) : string :=
  if dict_has d key then key
  else let (phase, metric) := partition_us key in String.append phase (String.append "__" metric).
Definition metric_history (d : store) (key : string) : option (list Z) := dict_get d (lookup_key d key).

(* ------------------------------------------------------------------------------------- *)
(* _RepeatedMetricChange family                                                           *)

Inductive rkind :=
| RUp (at_least_by : Z)
| RDown (at_least_by : Z)
| RConverge (epsilon : Z)      (* stored value, = |argument| *)
| RDiverge (gap : Z)           (* stored value, = |argument| *)
| RBelow (threshold : Z)
| RAbove (threshold : Z).

Definition r_converge (epsilon : Z) : rkind := RConverge (Z.abs epsilon).
Definition r_diverge (gap : Z) : rkind := RDiverge (Z.abs gap).

(* _last_satisfied(last, second2last) of each subclass *)
Definition rel_of (k : rkind) (last second2last : Z) : bool :=
  match k with
  | RUp m => second2last + m <=? last
  | RDown m => last <=? second2last - m
  | RConverge e => Z.abs (last - second2last) <? e
  | RDiverge g => g <? Z.abs (last - second2last)
  | RBelow t => last <? t
  | RAbove t => t <? last
  end.

(* _pairwise class attribute: the relation reads two consecutive entries (True) or the latest
   entry only (False: RepeatedMetricBelow / Above) *)
Definition pairwise_of (k : rkind) : bool :=
  match k with RBelow _ | RAbove _ => false | _ => true end.

(* _last_satisfied(last, None) of the two non-pairwise subclasses *)
Definition val_of (k : rkind) (last : Z) : bool := rel_of k last last.

(* The history predicate: number of consecutive most recent history pairs satisfying rel *)
Fixpoint streak {V : Type} (rel : V -> V -> bool) (h : list V) : nat :=
  match h with
  | a :: t => match t with
              | b :: _ => if rel a b then S (streak rel t) else O
              | [] => O
              end
  | [] => O
  end.

(* _RepeatedMetricChange.condition (pairwise):
     so_far = 0
     while so_far < times_required and so_far + 2 <= len(history)
           and _last_satisfied(history[-1 - so_far], history[-2 - so_far]): so_far += 1
   `cap` = the remaining times_required - so_far; `h` = the history without its so_far latest entries *)
Fixpoint streak_cap {V : Type} (rel : V -> V -> bool) (cap : nat) (h : list V) : nat :=
  match cap with
  | O => O
  | S c => match h with
           | a :: t => match t with
                       | b :: _ => if rel a b then S (streak_cap rel c t) else O
                       | [] => O
                       end
           | [] => O
           end
  end.

(* number of consecutive most recent VALUES satisfying f (documented Below/Above predicate) *)
Fixpoint streak1 {V : Type} (f : V -> bool) (h : list V) : nat :=
  match h with
  | a :: t => if f a then S (streak1 f t) else O
  | [] => O
  end.

(* the same loop for the non-pairwise subclasses (needed = 1: the oldest entry counts) *)
Fixpoint streak1_cap {V : Type} (f : V -> bool) (cap : nat) (h : list V) : nat :=
  match cap with
  | O => O
  | S c => match h with
           | a :: t => if f a then S (streak1_cap f c t) else O
           | [] => O
           end
  end.

(* the value condition() stores in self.so_far *)
Definition leaf_count (k : rkind) (times_required : Z) (h : list Z) : Z :=
  Z.of_nat (if pairwise_of k then streak_cap (rel_of k) (Z.to_nat times_required) h
            else streak1_cap (val_of k) (Z.to_nat times_required) h).

(* the documented count: latest consecutive pairs (entries for Below / Above) satisfying the relation *)
Definition doc_count (k : rkind) (h : list Z) : nat :=
  if pairwise_of k then streak (rel_of k) h else streak1 (val_of k) h.

(* ------------------------------------------------------------------------------------- *)
(* Condition callbacks                                                                    *)

Inductive pred :=
| PTrue | PFalse
| PFirstLocal | PFirstGlobal | PLastLocal
| PPeriodLocal (period offset : Z)       (* offset = stored self.offset *)
| PPeriodGlobal (period offset : Z)
| PIntLocal (lo hi : option Z)           (* None = -inf / +inf *)
| PIntGlobal (lo hi : option Z)
| PAnd (l : list pred)
| POr (l : list pred)
| PNot (q : pred)
| PXor (l : list pred)
| PRepeated (k : rkind) (use_train : bool) (metric : string) (times_required : Z) (so_far : Z).

(* constructors as Python runs them; period = 0 raises ZeroDivisionError there *)
Definition period_local (period offset : Z) : pred := PPeriodLocal period (offset mod period).
Definition period_global (period offset : Z) : pred := PPeriodGlobal period (offset mod period).
Definition mk_period_local (period offset : Z) : option pred :=
  if period =? 0 then None else Some (period_local period offset).
Definition mk_period_global (period offset : Z) : option pred :=
  if period =? 0 then None else Some (period_global period offset).
Definition repeated_m (k : rkind) (use_train : bool) (metric : string) (repetition : Z) : pred := PRepeated k use_train metric repetition 0.
Definition repeated (k : rkind) (use_train : bool) (repetition : Z) : pred := repeated_m k use_train "loss" repetition.

Definition in_closed (lo hi : option Z) (e : Z) : bool :=
  match lo with None => true | Some a => a <=? e end &&
  match hi with None => true | Some b => e <=? b end.

(* the series a repeated-metric callback reads; None = the lookup raises KeyError in Python *)
Definition hist_of (use_train : bool) (metric : string) (v : view) : option (list Z) :=
  metric_history (store_of v) (callback_key use_train metric).
(* totalised for step / psem: theorems about leaves carry the hypothesis hist_of ... = Some h *)
Definition hist_or_nil (use_train : bool) (metric : string) (v : view) : list Z :=
  match hist_of use_train metric v with Some h => h | None => [] end.

(* condition(solver): returns the Boolean and the callback with its updated (cached) so_far.
   AndCallback / OrCallback return early (the remaining sub-callbacks are NOT evaluated, so
   their cached so_far stays as it is); XorCallback evaluates every sub-callback.  Since the
   repair of _RepeatedMetricChange the cached value is never read. *)
Fixpoint step (v : view) (p : pred) {struct p} : bool * pred :=
  match p with
  | PTrue => (true, p)
  | PFalse => (false, p)
  | PFirstLocal => (v_local v =? 1, p)
  | PFirstGlobal => (v_global v =? 1, p)
  | PLastLocal => (v_local v =? v_max v, p)
  | PPeriodLocal period offset => (v_local v mod period =? offset, p)
  | PPeriodGlobal period offset => (v_global v mod period =? offset, p)
  | PIntLocal lo hi => (in_closed lo hi (v_local v), p)
  | PIntGlobal lo hi => (in_closed lo hi (v_global v), p)
  | PAnd l =>
      let (b, l') :=
        (fix and_loop (l : list pred) : bool * list pred :=
           match l with
           | [] => (true, [])
           | q :: r => let (c, q') := step v q in
                       if c then let (b, r') := and_loop r in (b, q' :: r')
                       else (false, q' :: r)
           end) l in
      (b, PAnd l')
  | POr l =>
      let (b, l') :=
        (fix or_loop (l : list pred) : bool * list pred :=
           match l with
           | [] => (false, [])
           | q :: r => let (c, q') := step v q in
                       if c then (true, q' :: r)
                       else let (b, r') := or_loop r in (b, q' :: r')
           end) l in
      (b, POr l')
  | PNot q => let (c, q') := step v q in (negb c, PNot q')
  | PXor l =>
      let (cnt, l') :=
        (fix xor_loop (l : list pred) : Z * list pred :=
           match l with
           | [] => (0, [])
           | q :: r => let (c, q') := step v q in
                       let (n, r') := xor_loop r in
                       ((if c then 1 else 0) + n, q' :: r')
           end) l in
      (cnt mod 2 =? 1, PXor l')
  | PRepeated k tr mt n s =>
      let s' := leaf_count k n (hist_or_nil tr mt v) in
      (n <=? s', PRepeated k tr mt n s')
  end.

Definition cond (v : view) (p : pred) : bool := fst (step v p).

(* the three loops as stand-alone functions (same bodies as the local fixes in step) *)
Fixpoint and_loop (v : view) (l : list pred) : bool * list pred :=
  match l with
  | [] => (true, [])
  | q :: r => let (c, q') := step v q in
              if c then let (b, r') := and_loop v r in (b, q' :: r')
              else (false, q' :: r)
  end.
Fixpoint or_loop (v : view) (l : list pred) : bool * list pred :=
  match l with
  | [] => (false, [])
  | q :: r => let (c, q') := step v q in
              if c then (true, q' :: r)
              else let (b, r') := or_loop v r in (b, q' :: r')
  end.
Fixpoint xor_loop (v : view) (l : list pred) : Z * list pred :=
  match l with
  | [] => (0, [])
  | q :: r => let (c, q') := step v q in
              let (n, r') := xor_loop v r in
              ((if c then 1 else 0) + n, q' :: r')
  end.

(* no stateful leaf below *)
Fixpoint stateless (p : pred) : bool :=
  match p with
  | PAnd l | POr l | PXor l => (fix all (l : list pred) : bool := match l with [] => true | q :: r => stateless q && all r end) l
  | PNot q => stateless q
  | PRepeated _ _ _ _ _ => false
  | _ => true
  end.

(* The documented Boolean meaning of a callback (specification side): plain Boolean
   connectives, no evaluation order, no state.  A repeated-metric leaf means "the latest
   times_required consecutive history pairs (entries, for Below / Above) satisfy the relation". *)
Fixpoint psem (v : view) (p : pred) {struct p} : bool :=
  match p with
  | PTrue => true
  | PFalse => false
  | PFirstLocal => v_local v =? 1
  | PFirstGlobal => v_global v =? 1
  | PLastLocal => v_local v =? v_max v
  | PPeriodLocal period offset => v_local v mod period =? offset
  | PPeriodGlobal period offset => v_global v mod period =? offset
  | PIntLocal lo hi => in_closed lo hi (v_local v)
  | PIntGlobal lo hi => in_closed lo hi (v_global v)
  | PAnd l => (fix all (l : list pred) : bool := match l with [] => true | q :: r => psem v q && all r end) l
  | POr l => (fix any (l : list pred) : bool := match l with [] => false | q :: r => psem v q || any r end) l
  | PNot q => negb (psem v q)
  | PXor l => (fix par (l : list pred) : bool := match l with [] => false | q :: r => xorb (psem v q) (par r) end) l
  | PRepeated k tr mt n _ => n <=? Z.of_nat (doc_count k (hist_or_nil tr mt v))
  end.

(* odd parity of a list of Booleans *)
Definition parity (bs : list bool) : bool := fold_right xorb false bs.

(* a callback evaluated on a sequence of views (one per epoch), threading its state *)
Fixpoint run_pred (p : pred) (vs : list view) : list bool * pred :=
  match vs with
  | [] => ([], p)
  | v :: r => let (b, p') := step v p in let (bs, p'') := run_pred p' r in (b :: bs, p'')
  end.

Definition fires_on (p : pred) (triples : list (Z * Z * Z)) : list bool :=
  fst (run_pred p (map (fun t => match t with (l, g, m) => tview l g m end) triples)).

(* ------------------------------------------------------------------------------------- *)
(* BaseMonitor: __init__ stores `check_every or 100`; to_callback builds
   OnLastLocal | PeriodLocal(check_every) if the stored value is truthy, else OnLastLocal  *)

Definition monitor_init (check_every : option Z) : Z :=
  match check_every with
  | None => 100
  | Some c => if c =? 0 then 100 else c
  end.

Definition monitor_pred (stored_check_every : Z) : pred :=
  if stored_check_every =? 0 then PLastLocal
  else POr [PLastLocal; period_local stored_check_every 0].

(* ------------------------------------------------------------------------------------- *)
(* Actions                                                                                *)

(* SetLossFn / SetOptimizer guard `if self.reset or (not self.called)`: (effect?, called') *)
Definition set_once (reset called : bool) : bool * bool :=
  if reset || negb called then (true, true) else (false, called).

(* the action invoked at the epochs marked true *)
Fixpoint set_trace (reset called : bool) (fires : list bool) : list bool :=
  match fires with
  | [] => []
  | f :: r => if f then let (e, c) := set_once reset called in e :: set_trace reset c r
              else false :: set_trace reset called r
  end.

(* SetOptimizer(<class>): OrderedSet(chain.from_iterable(net.parameters() for net in solver.nets)):
   OrderedSet = order-preserving de-duplication keeping the first occurrence *)
Fixpoint dedup {P : Type} (dec : forall x y : P, {x = y} + {x <> y}) (seen : list P) (l : list P) : list P :=
  match l with
  | [] => []
  | x :: r => if in_dec dec x seen then dedup dec seen r else x :: dedup dec (x :: seen) r
  end.
Definition opt_params {P : Type} (dec : forall x y : P, {x = y} + {x <> y}) (nets : list (list P)) : list P :=
  dedup dec [] (concat nets).

(* EveCallback, integer part: `self.n_max = n_max or np.inf`, n = min(n_0 * 2 ** k, n_max) *)
Definition eve_cap (n_max : option Z) : option Z :=
  match n_max with
  | Some m => if m =? 0 then None else Some m
  | None => None
  end.
Definition min_cap (x : Z) (cap : option Z) : Z :=
  match cap with None => x | Some m => Z.min x m end.
(* t = int(EPS + log ratio) as computed by the float code *)
Definition eve_batches (n_0 : Z) (n_max : option Z) (t : Z) : Z :=
  min_cap (n_0 * 2 ^ (Z.max t 0)) (eve_cap n_max).

Inductive action :=
| ARecord                                 (* any action without effect on the solver *)
| AStop                                   (* StopCallback *)
| ASetLoss (id : Z) (reset : bool)        (* SetLossFn(callable id, reset) *)
| ASetOptInst (id : Z) (reset : bool)     (* SetOptimizer(instance id, reset) *)
| ASetOptClass (reset : bool).            (* SetOptimizer(class, reset): a new instance per effect *)

Record cbk := mkCb { c_pred : pred; c_act : action; c_called : bool }.

(* ------------------------------------------------------------------------------------- *)
(* The solver as far as callbacks can see / change it                                     *)

Record sst := mkS {
  s_global : Z; s_local : Z; s_max : Z; s_stop : bool;
  s_loss : Z;              (* identity of solver.loss_fn *)
  s_opt : Z;               (* identity of solver.optimizer: >= 0 given instance, < 0: -(serial) of a class-built one *)
  s_nopt : Z;              (* number of optimisers built from a class so far *)
  s_train : list Z; s_valid : list Z;
  s_custom : list (string * (list Z * list Z)) }.

Definition init_sst (loss opt : Z) : sst := mkS 0 0 0 false loss opt 0 [] [] [].

Definition view_of (s : sst) : view := mkView (s_local s) (s_global s) (s_max s) (s_train s) (s_valid s) (s_custom s).

Definition set_stop (b : bool) (s : sst) : sst :=
  mkS (s_global s) (s_local s) (s_max s) b (s_loss s) (s_opt s) (s_nopt s) (s_train s) (s_valid s) (s_custom s).
Definition set_max (m : Z) (s : sst) : sst :=
  mkS (s_global s) (s_local s) m (s_stop s) (s_loss s) (s_opt s) (s_nopt s) (s_train s) (s_valid s) (s_custom s).
Definition set_loss (id : Z) (s : sst) : sst :=
  mkS (s_global s) (s_local s) (s_max s) (s_stop s) id (s_opt s) (s_nopt s) (s_train s) (s_valid s) (s_custom s).
Definition set_opt (id : Z) (s : sst) : sst :=
  mkS (s_global s) (s_local s) (s_max s) (s_stop s) (s_loss s) id (s_nopt s) (s_train s) (s_valid s) (s_custom s).
Definition new_opt (s : sst) : sst :=
  mkS (s_global s) (s_local s) (s_max s) (s_stop s) (s_loss s) (- (s_nopt s + 1)) (s_nopt s + 1) (s_train s) (s_valid s) (s_custom s).

(* self.local_epoch = e; run_train_epoch(); run_valid_epoch(): one more entry in the train
   history (n_batches_train >= 1), one more in the valid history iff validation is on.
   feed g = the (train, valid) loss values of the epoch that makes global_epoch = g + 1 *)
Fixpoint custom_get (c : list (string * (list Z * list Z))) (name : string) : list Z * list Z :=
  match c with
  | [] => ([], [])
  | (k, h) :: r => if String.eqb k name then h else custom_get r name
  end.

(* cfeed: the custom metrics of solver.metrics_fn, each with its scripted (train, valid) values *)
Definition run_epoch (feed : Z -> Z * Z) (cfeed : list (string * (Z -> Z * Z))) (valid_on : bool) (e : Z) (s : sst) : sst :=
  let (x, y) := feed (s_global s) in
  mkS (s_global s + 1) e (s_max s) (s_stop s) (s_loss s) (s_opt s) (s_nopt s)
      (x :: s_train s) (if valid_on then y :: s_valid s else s_valid s)
      (map (fun nf : string * (Z -> Z * Z) =>
              let (cx, cy) := snd nf (s_global s) in
              let (t, va) := custom_get (s_custom s) (fst nf) in
              (fst nf, (cx :: t, if valid_on then cy :: va else va))) cfeed).

Definition run_action (a : action) (called : bool) (s : sst) : sst * bool :=
  match a with
  | ARecord => (s, called)
  | AStop => (set_stop true s, called)
  | ASetLoss id reset => let (eff, c) := set_once reset called in ((if eff then set_loss id s else s), c)
  | ASetOptInst id reset => let (eff, c) := set_once reset called in ((if eff then set_opt id s else s), c)
  | ASetOptClass reset => let (eff, c) := set_once reset called in ((if eff then new_opt s else s), c)
  end.

(* ConditionCallback.__call__ *)
Definition run_cb (s : sst) (c : cbk) : sst * cbk * bool :=
  let (b, p') := step (view_of s) (c_pred c) in
  if b then let (s', called') := run_action (c_act c) (c_called c) s in (s', mkCb p' (c_act c) called', true)
  else (s, mkCb p' (c_act c) (c_called c), false).

(* `for cb in callbacks: cb(self)`; mask selects which entries of the table were passed to
   this fit() (missing mask entries = not passed); returns the indices whose action ran *)
Fixpoint run_cbs (s : sst) (cbs : list cbk) (mask : list bool) (idx : nat) : sst * list cbk * list nat :=
  match cbs with
  | [] => (s, [], [])
  | c :: r =>
      match mask with
      | true :: mr =>
          let '(s1, c', fired) := run_cb s c in
          let '(s2, r', fs) := run_cbs s1 r mr (S idx) in
          (s2, c' :: r', if fired then idx :: fs else fs)
      | _ :: mr => let '(s2, r', fs) := run_cbs s r mr (S idx) in (s2, c :: r', fs)
      | [] => let '(s2, r', fs) := run_cbs s r [] (S idx) in (s2, c :: r', fs)
      end
  end.

(* what is observable at the end of an epoch, after the callbacks ran *)
Record erec := mkE { e_local : Z; e_global : Z; e_max : Z; e_fired : list nat; e_stop : bool; e_loss : Z; e_opt : Z }.

(* the loop of BaseSolver.fit: `for local_epoch in range(max_epochs): if self._stop_training: break; ...` *)
Fixpoint fit_loop (feed : Z -> Z * Z) (cfeed : list (string * (Z -> Z * Z))) (valid_on : bool) (mask : list bool) (fuel : nat) (e : Z)
         (s : sst) (cbs : list cbk) : sst * list cbk * list erec :=
  match fuel with
  | O => (s, cbs, [])
  | S k =>
      if s_stop s then (s, cbs, [])
      else
        let s1 := run_epoch feed cfeed valid_on e s in
        let '(s2, cbs2, fired) := run_cbs s1 cbs mask 0 in
        let '(s3, cbs3, recs) := fit_loop feed cfeed valid_on mask k (e + 1) s2 cbs2 in
        (s3, cbs3, mkE (s_local s2) (s_global s2) (s_max s2) fired (s_stop s2) (s_loss s2) (s_opt s2) :: recs)
  end.

Definition fit (feed : Z -> Z * Z) (cfeed : list (string * (Z -> Z * Z))) (valid_on : bool) (max_epochs : Z) (mask : list bool) (s : sst) (cbs : list cbk)
  : sst * list cbk * list erec :=
  fit_loop feed cfeed valid_on mask (Z.to_nat max_epochs) 1 (set_max max_epochs (set_stop false s)) cbs.

Fixpoint fit_seq (feed : Z -> Z * Z) (cfeed : list (string * (Z -> Z * Z))) (valid_on : bool) (calls : list (Z * list bool)) (s : sst) (cbs : list cbk)
  : sst * list cbk * list (list erec) :=
  match calls with
  | [] => (s, cbs, [])
  | (m, mask) :: r =>
      let '(s1, cbs1, recs) := fit feed cfeed valid_on m mask s cbs in
      let '(s2, cbs2, rest) := fit_seq feed cfeed valid_on r s1 cbs1 in
      (s2, cbs2, recs :: rest)
  end.

(* ------------------------------------------------------------------------------------- *)
(* Comparison helpers for the correspondence cases                                        *)

Fixpoint bools_eqb (a b : list bool) : bool :=
  match a, b with
  | [], [] => true
  | x :: r, y :: t => Bool.eqb x y && bools_eqb r t
  | _, _ => false
  end.

Fixpoint nats_eqb (a b : list nat) : bool :=
  match a, b with
  | [], [] => true
  | x :: r, y :: t => Nat.eqb x y && nats_eqb r t
  | _, _ => false
  end.

Definition erec_eqb (a b : erec) : bool :=
  (e_local a =? e_local b) && (e_global a =? e_global b) && (e_max a =? e_max b) &&
  nats_eqb (e_fired a) (e_fired b) && Bool.eqb (e_stop a) (e_stop b) &&
  (e_loss a =? e_loss b) && (e_opt a =? e_opt b).

Fixpoint erecs_eqb (a b : list erec) : bool :=
  match a, b with
  | [], [] => true
  | x :: r, y :: t => erec_eqb x y && erecs_eqb r t
  | _, _ => false
  end.

Fixpoint erecss_eqb (a b : list (list erec)) : bool :=
  match a, b with
  | [], [] => true
  | x :: r, y :: t => erecs_eqb x y && erecss_eqb r t
  | _, _ => false
  end.

Definition feed_of (l : list (Z * Z)) : Z -> Z * Z := fun g => nth (Z.to_nat g) l (0, 0).

Definition fit_seq_recs_c (feed : list (Z * Z)) (cfeed : list (string * list (Z * Z))) (valid_on : bool)
           (calls : list (Z * list bool)) (loss opt : Z) (cbs : list cbk) : list (list erec) :=
  match fit_seq (feed_of feed) (map (fun nf => (fst nf, feed_of (snd nf))) cfeed) valid_on calls (init_sst loss opt) cbs with
  | (_, _, r) => r
  end.
Definition fit_seq_recs (feed : list (Z * Z)) (valid_on : bool) (calls : list (Z * list bool)) (loss opt : Z) (cbs : list cbk)
  : list (list erec) := fit_seq_recs_c feed [] valid_on calls loss opt cbs.
