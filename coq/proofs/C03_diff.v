(* C03 — diff returns the exact per-sample k-th partial derivative, differentiably.
   (1) list/loop-generic model of unsafe_diff and its algebraic specification for every order,
   (2) analytic form: the result is Coquelicot's Derive_n of the row function, (3) zero for
   independent operands and above the polynomial degree, (4) the shape guard, (5) the per-sample
   ones-trick for every batch size, (6) ties to the terms regenerated from neurodiffeq.py.
   DESIGN.md §7 C03. *)
From Coq Require Import Reals List Lra Lia ZArith Bool.
From Coquelicot Require Import Coquelicot.
From ND.lib Require Import Expr ExprLemmas ExprSound Tac.
From ND.gen Require Import Gen_C03.
Import ListNotations.
Open Scope R_scope.

(* ------------------------------------------------------------------ model of unsafe_diff *)
(* autograd.grad(u, t, allow_unused=True): None iff t is not in the graph of u *)
Definition agrad (e : expr) (v : nat) : option expr := if occurs v e then Some (D v e) else None.

(* the `for i in range(1, order)` loop; `None` -> zeros_like(t) *)
Fixpoint udiff_loop (n : nat) (v : nat) (der : expr) : expr :=
  match n with
  | O => der
  | S n' => match agrad der v with None => ECst 0 | Some d => udiff_loop n' v d end
  end.

Definition unsafe_diff (e : expr) (v : nat) (order : nat) : expr :=
  match agrad e v with None => ECst 0 | Some d => udiff_loop (order - 1) v d end.

Lemma occurs_dargs f al args all j v :
  existsb (fun a => arg_is a v) args = false -> occurs v (dargs f al args all j v) = false.
Proof.
  revert j. induction args as [|a r IH]; intros j H; cbn [dargs]; [reflexivity|].
  cbn [existsb] in H. apply orb_false_iff in H as [Ha Hr]. rewrite Ha. now apply IH.
Qed.

Lemma occurs_D v e : occurs v e = false -> occurs v (D v e) = false.
Proof.
  induction e; cbn [occurs D]; intros H;
    try (apply orb_false_iff in H as [H1 H2]; specialize (IHe1 H1); specialize (IHe2 H2));
    try (specialize (IHe H));
    try (now apply occurs_dargs);
    try (destruct n); cbn [occurs];
    repeat match goal with Hx : _ = false |- _ => rewrite Hx end; reflexivity.
Qed.

Section Alg.
  Variable venv penv : nat -> R.
  Variable fenv : nat -> list nat -> list R -> R.
  Notation ev := (eval venv penv fenv).

  Lemma Dn_independent_zero v e k : occurs v e = false -> ev (Dn (S k) v e) = 0.
  Proof.
    revert e. induction k as [|k IH]; intros e H; cbn [Dn].
    - now apply D_independent_zero.
    - apply (IH (D v e)). now apply occurs_D.
  Qed.

  Lemma udiff_loop_spec n v d : ev (udiff_loop n v d) = ev (Dn n v d).
  Proof.
    revert d. induction n as [|n IH]; intros d; cbn [udiff_loop Dn]; [reflexivity|].
    unfold agrad. destruct (occurs v d) eqn:E.
    - apply IH.
    - cbn [eval]. symmetry. now apply (Dn_independent_zero v d n).
  Qed.

  (* diff(u, t, order = k) is the k-fold symbolic derivative, for every k >= 1 and every u *)
  Theorem unsafe_diff_spec e v k : (1 <= k)%nat -> ev (unsafe_diff e v k) = ev (Dn k v e).
  Proof.
    intros Hk. destruct k as [|k]; [lia|]. unfold unsafe_diff, agrad.
    replace (S k - 1)%nat with k by lia. cbn [Dn].
    destruct (occurs v e) eqn:E.
    - apply udiff_loop_spec.
    - cbn [eval]. symmetry. now apply (Dn_independent_zero v e k).
  Qed.

  (* identically zero when u does not depend on t *)
  Theorem diff_independent_zero e v k : occurs v e = false -> ev (unsafe_diff e v k) = 0.
  Proof. intros H. unfold unsafe_diff, agrad. rewrite H. reflexivity. Qed.

  (* mixed nestings commute: diff(diff(u,x),y) = diff(diff(u,y),x) on the generated terms *)
  Lemma nested_commute : ev nested_xy.term = ev nested_yx.term.
  Proof. reduce_eval. ring. Qed.
End Alg.

(* linearity of Dn (syntactic) *)
Lemma Dn_add k v a b : Dn k v (EAdd a b) = EAdd (Dn k v a) (Dn k v b).
Proof. revert a b. induction k as [|k IH]; intros a b; cbn [Dn D]; [reflexivity|]. apply IH. Qed.

(* ------------------------------------------------------------------ analytic form *)
(* expressions differentiable everywhere: no division / abs / sqrt / ln; symbols applied to
   distinct leaves *)
Fixpoint smooth (e : expr) : Prop :=
  match e with
  | EVar _ | EPar _ | ECst _ | ECstQ _ _ => True
  | EAdd a b | ESub a b | EMul a b => smooth a /\ smooth b
  | ENeg a | EPow a _ | ESin a | ECos a | EExp a | ETanh a => smooth a
  | EDiv _ _ | EAbs _ | ESqrt _ | ELn _ => False
  | EFun _ alpha args => NoDup (avars args) /\ List.length alpha = List.length args
  end.

Lemma bump_length al j : List.length (bump al j) = List.length al.
Proof. revert j. induction al as [|a r IH]; intros [|j]; cbn; auto. Qed.

Lemma smooth_dargs f al args all j v :
  NoDup (avars all) -> List.length al = List.length all -> smooth (dargs f al args all j v).
Proof.
  intros Hn Hl. revert j. induction args as [|a r IH]; intros j; cbn [dargs smooth]; [exact I|].
  destruct (arg_is a v); cbn [smooth]; auto. split; auto. split; auto. now rewrite bump_length.
Qed.

Lemma smooth_D v e : smooth e -> smooth (D v e).
Proof.
  induction e; cbn [smooth D]; intros H; try tauto; try (destruct (Nat.eqb v v0); exact I).
  - destruct n; cbn [smooth]; tauto.
  - destruct H. now apply smooth_dargs.
Qed.

Section Ana.
  Variable penv : nat -> R.
  Variable fenv : nat -> list nat -> list R -> R.
  Hypothesis Hcoh : coherent fenv.

  Lemma smooth_ok e : smooth e -> forall venv, ok penv fenv venv e.
  Proof. induction e; cbn [smooth ok]; intros H venv; try tauto; intuition. Qed.

  Lemma D_is_Derive venv v e x : smooth e ->
    eval (upd venv v x) penv fenv (D v e) = Derive (fun h => eval (upd venv v h) penv fenv e) x.
  Proof.
    intros Hs. symmetry. apply is_derive_unique.
    apply (D_sound_at penv fenv Hcoh venv v e x). now apply smooth_ok.
  Qed.

  (* the k-fold symbolic derivative IS the k-th derivative (Coquelicot) of the row function *)
  Theorem Dn_is_Derive_n venv v e : smooth e -> forall k x,
    eval (upd venv v x) penv fenv (Dn k v e) = Derive_n (fun h => eval (upd venv v h) penv fenv e) k x.
  Proof.
    intros Hs k. revert e Hs. induction k as [|k IH]; intros e Hs x; cbn [Dn]; [reflexivity|].
    rewrite (IH (D v e) (smooth_D v e Hs) x).
    rewrite (Derive_n_ext _ (Derive (fun h => eval (upd venv v h) penv fenv e))).
    2:{ intros t. now apply D_is_Derive. }
    replace (S k) with (k + 1)%nat by lia.
    rewrite <- (Derive_n_comp (fun h => eval (upd venv v h) penv fenv e) k 1 x).
    reflexivity.
  Qed.

  Corollary unsafe_diff_is_Derive_n venv v e k : smooth e -> (1 <= k)%nat ->
    eval venv penv fenv (unsafe_diff e v k) = Derive_n (fun h => eval (upd venv v h) penv fenv e) k (venv v).
  Proof.
    intros Hs Hk. rewrite unsafe_diff_spec by auto.
    rewrite <- (Dn_is_Derive_n venv v e Hs k (venv v)).
    apply ExprSound.eval_ext. intros w. symmetry. apply upd_same.
  Qed.

  (* above the polynomial degree: monomials c * t^n with c independent of t, and sums of them *)
  Lemma eval_upd_indep venv v h e : occurs v e = false ->
    eval (upd venv v h) penv fenv e = eval venv penv fenv e.
  Proof.
    induction e; cbn [occurs eval]; intros H;
      try (apply orb_false_iff in H as [H1 H2]; rewrite ?IHe1, ?IHe2 by auto); rewrite ?IHe by auto; try reflexivity.
    - apply upd_neq. apply Nat.eqb_neq in H. auto.
    - f_equal. apply map_ext_in. intros a Ha. destruct a as [w|p]; cbn; auto.
      apply upd_neq. intro; subst w.
      assert (existsb (fun a : arg => arg_is a v) args = true).
      { apply existsb_exists. exists (AVar v). split; auto. cbn. apply Nat.eqb_refl. }
      congruence.
  Qed.

  Theorem monomial_above_degree venv v c n k : smooth c -> occurs v c = false -> (n < k)%nat ->
    eval venv penv fenv (Dn k v (EMul c (EPow (EVar v) n))) = 0.
  Proof.
    intros Hs Hc Hk.
    assert (Hsm : smooth (EMul c (EPow (EVar v) n))) by (cbn; auto).
    rewrite <- (ExprSound.eval_ext penv fenv (upd venv v (venv v)) venv _ (upd_same venv v)).
    rewrite (Dn_is_Derive_n venv v _ Hsm k (venv v)).
    rewrite (Derive_n_ext _ (fun h => eval venv penv fenv c * h ^ n)).
    2:{ intros t. cbn [eval]. rewrite eval_upd_indep by auto. now rewrite upd_eq. }
    rewrite Derive_n_scal_l. rewrite Derive_n_pow_bigi by auto. ring.
  Qed.

  Theorem polynomial_above_degree venv v (ms : list (Expr.expr * nat)) k :
    List.Forall (fun m : Expr.expr * nat => smooth (fst m) /\ occurs v (fst m) = false /\ (snd m < k)%nat) ms ->
    eval venv penv fenv (Dn k v (fold_right (fun m acc => EAdd (EMul (fst m) (EPow (EVar v) (snd m))) acc) (ECst 0) ms)) = 0.
  Proof.
    induction 1 as [|m ms (Hs & Hc & Hk) Hall IH]; cbn [fold_right].
    - destruct k; cbn [Dn eval]; [reflexivity|]. now apply Dn_independent_zero.
    - rewrite Dn_add. cbn [eval]. rewrite IH. rewrite monomial_above_degree by auto. ring.
  Qed.
End Ana.

(* ------------------------------------------------------------------ per-sample: the ones trick *)
Definition updR (t : nat -> R) (j : nat) (h : R) : nat -> R := fun i => if Nat.eqb i j then h else t i.

(* autograd.grad(u, t, grad_outputs=ones): component j of ones^T * Jacobian *)
Definition vjp_ones (n : nat) (u : (nat -> R) -> nat -> R) (t : nat -> R) (j : nat) : R :=
  fold_right Rplus 0 (map (fun i => Derive (fun h => u (updR t j h) i) (t j)) (seq 0 n)).

Lemma sum_single (d : R) j : forall n k,
  fold_right Rplus 0 (map (fun i => if Nat.eqb i j then d else 0) (seq k n)) = if andb (Nat.leb k j) (Nat.ltb j (k + n)) then d else 0.
Proof.
  induction n as [|n IH]; intros k; cbn [seq map fold_right].
  - destruct (Nat.leb_spec k j), (Nat.ltb_spec j (k+0)); cbn; auto; lia.
  - rewrite IH. destruct (Nat.eqb_spec k j); subst.
    + destruct (Nat.leb_spec (S j) j); [lia|]. cbn [andb].
      destruct (Nat.leb_spec j j); [|lia]. destruct (Nat.ltb_spec j (j + S n)); [|lia]. cbn. ring.
    + destruct (Nat.leb_spec (S k) j), (Nat.leb_spec k j), (Nat.ltb_spec j (S k + n)), (Nat.ltb_spec j (k + S n)); cbn; try ring; lia.
Qed.

(* if row i of u depends on row i of t only (what C19 establishes for the shipped networks), the
   vector-Jacobian product with ones is the per-row derivative, for every batch size n *)
Theorem ones_trick n (g : nat -> R -> R) (t : nat -> R) j :
  (j < n)%nat ->
  vjp_ones n (fun t i => g i (t i)) t j = Derive (g j) (t j).
Proof.
  intros Hj. unfold vjp_ones.
  rewrite (map_ext _ (fun i => if Nat.eqb i j then Derive (g j) (t j) else 0)).
  - rewrite sum_single. cbn [Nat.leb andb Nat.add]. destruct (Nat.ltb_spec j n); [reflexivity|lia].
  - intros i. unfold updR. destruct (Nat.eqb_spec i j); subst.
    + apply Derive_ext. intros h. reflexivity.
    + apply Derive_const.
Qed.

(* ------------------------------------------------------------------ the shape guard *)
Theorem safe_guard_spec su st :
  guards.safe_diff_accepts su st = true <-> exists n, su = [n; 1%nat] /\ st = [n; 1%nat].
Proof.
  unfold guards.safe_diff_accepts. split.
  - intros H. apply negb_true_iff in H. apply orb_false_iff in H as [H Heq].
    apply orb_false_iff in H as [H Ht1]. apply orb_false_iff in H as [H Hu1]. apply orb_false_iff in H as [Hlu Hlt].
    apply negb_false_iff in Hlu, Hlt, Hu1, Ht1, Heq. apply Nat.eqb_eq in Hlu, Hlt.
    destruct su as [|a [|b [|? ?]]]; try discriminate. destruct st as [|c [|d [|? ?]]]; try discriminate.
    cbn in Hu1, Ht1. apply Nat.eqb_eq in Hu1, Ht1. subst.
    cbn in Heq. apply andb_true_iff in Heq as [Hac _]. apply Nat.eqb_eq in Hac. subst. eauto.
  - intros (n & -> & ->). cbn. rewrite Nat.eqb_refl. reflexivity.
Qed.

Lemma diff_dispatch :
  guards.diff_checks_shape true = true /\ guards.diff_checks_shape false = false /\
  guards.diff_default_shape_check = true /\ guards.diff_default_order = 1%nat.
Proof. repeat split. Qed.

(* ------------------------------------------------------------------ ties: the code is the model *)
Definition U (n : nat) : expr := EFun 0 (repeat 0%nat n) (map AVar (seq 0 n)).
Definition tie (u : expr) (idx : list (nat * list expr)) : bool :=
  forallb (fun kt : nat * list expr => match snd kt with [e] => expr_eqb (Dn 0 0 e) (Dn 0 0 (unsafe_diff u 0 (fst kt))) | _ => false end) idx.

(* both sides are compared after full evaluation of the nested D's *)
Lemma tie_unsafe_diff :
  tie (U 1) index_ud_U1 = true /\ tie (U 2) index_ud_U2 = true /\ tie (U 3) index_ud_U3 = true /\ tie (U 4) index_ud_U4 = true /\
  tie (EFun 0 [0;0]%nat [AVar 1; AVar 2]%nat) index_ud_indep = true /\
  tie (EAdd (EMul (EPow (EVar 0) 2) (EVar 1)) (EMul (ECst 3) (EVar 0))) index_ud_poly2 = true /\
  tie (EAdd (EMul (ESin (EMul (EVar 0) (EVar 1))) (EExp (EVar 2))) (ETanh (EVar 0))) index_ud_mixed = true.
Proof. repeat split; vm_compute; reflexivity. Qed.

Lemma generated_poly_above_degree venv penv fenv :
  eval venv penv fenv ud_poly2_3.term = 0 /\ eval venv penv fenv ud_poly2_4.term = 0 /\
  eval venv penv fenv ud_indep_1.term = 0 /\ eval venv penv fenv ud_indep_3.term = 0.
Proof. repeat split; reduce_eval; ring. Qed.

Example smooth_example : smooth (EAdd (EMul (ESin (EMul (EVar 0) (EVar 1))) (EExp (EVar 2))) (U 3)).
Proof. cbn. repeat split; auto; repeat constructor; cbn; intuition; discriminate. Qed.
