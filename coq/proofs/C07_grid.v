(* C07 — flattened meshgrid(indexing='ij') outputs are the columns of the row-major tensor
   product of the 1-D node lists, for any number of axes and any node lists. *)
From Coq Require Import Reals List Arith Lia.
From ND.lib Require Import Expr.
From ND.model Require Import AtomicGen.
Import ListNotations.
Open Scope R_scope.

Lemma map_flat_map {A B C} (f : B -> C) (g : A -> list B) l :
  map f (flat_map g l) = flat_map (fun x => map f (g x)) l.
Proof. induction l as [|a l IH]; cbn [flat_map map]; [reflexivity | now rewrite map_app, IH]. Qed.

Lemma map_const_repeat {A B} (x : B) (l : list A) : map (fun _ => x) l = repeat x (length l).
Proof. induction l as [|a l IH]; cbn [map length repeat]; [reflexivity | now rewrite IH]. Qed.

Lemma flat_map_const_concat {A B} (L : list B) (l : list A) : flat_map (fun _ => L) l = concat (repeat L (length l)).
Proof. induction l as [|a l IH]; cbn [flat_map length repeat concat]; [reflexivity | now rewrite IH]. Qed.

Lemma cart_length axes : length (cart axes) = prod_len axes.
Proof.
  induction axes as [|X r IH]; [reflexivity|]. cbn [cart prod_len fold_right].
  fold (prod_len r). rewrite <- IH. clear IH.
  induction X as [|x X IHX]; cbn [flat_map length]; [reflexivity|].
  rewrite app_length, map_length, IHX. lia.
Qed.

Lemma flat_map_ext_in {A B} (f g : A -> list B) l : (forall x, In x l -> f x = g x) -> flat_map f l = flat_map g l.
Proof.
  induction l as [|a l IH]; intros H; cbn [flat_map]; [reflexivity|].
  rewrite H by (left; reflexivity). rewrite IH; [reflexivity|]. intros x Hx. apply H. now right.
Qed.

Lemma grid_is_product axes : forall k, (k < length axes)%nat ->
  mesh_flat axes k = map (fun row => nth k row 0) (cart axes).
Proof.
  induction axes as [|X r IH]; intros k Hk; [inversion Hk|].
  cbn [cart mesh_flat]. rewrite map_flat_map. destruct k as [|k].
  - apply flat_map_ext_in. intros x _. rewrite map_map. cbn [nth].
    rewrite map_const_repeat, cart_length. reflexivity.
  - rewrite <- flat_map_const_concat. apply flat_map_ext_in. intros x _.
    rewrite map_map. cbn [nth]. apply IH. cbn [length] in Hk. lia.
Qed.

Lemma mesh_flat_length axes k : (k < length axes)%nat -> length (mesh_flat axes k) = prod_len axes.
Proof. intros Hk. rewrite grid_is_product by assumption. now rewrite map_length, cart_length. Qed.

(* every row of the product takes its k-th coordinate from the k-th node list *)
Lemma cart_rows axes : forall row, In row (cart axes) ->
  length row = length axes /\ forall k, (k < length axes)%nat -> In (nth k row 0) (nth k axes []).
Proof.
  induction axes as [|X r IH]; intros row Hin.
  - destruct Hin as [<-|[]]. split; [reflexivity|]. intros k Hk. inversion Hk.
  - cbn [cart] in Hin. apply in_flat_map in Hin. destruct Hin as [x [Hx Hin]].
    apply in_map_iff in Hin. destruct Hin as [row' [<- Hr]]. destruct (IH row' Hr) as [Hl Hc]. split.
    + cbn [length]. now rewrite Hl.
    + intros [|k] Hk; cbn [nth]; [assumption|]. apply Hc. cbn [length] in Hk. lia.
Qed.

Lemma combine_app_len {A B} (l1 l2 : list A) (m1 m2 : list B) : length l1 = length m1 ->
  combine (l1 ++ l2) (m1 ++ m2) = combine l1 m1 ++ combine l2 m2.
Proof.
  revert m1. induction l1 as [|a l1 IH]; intros [|b m1] H; cbn [length] in H; try discriminate; [reflexivity|].
  cbn [app combine]. f_equal. apply IH. lia.
Qed.

(* the 2-D case in the familiar form: points = list_prod X Y in row-major order *)
Lemma cart1 Y : cart [Y] = map (fun y => [y]) Y.
Proof.
  induction Y as [|y Y IH]; [reflexivity|].
  change (cart [y :: Y]) with ([y] :: cart [Y]). now rewrite IH.
Qed.

Lemma grid2_is_list_prod X Y :
  combine (mesh_flat [X; Y] 0) (mesh_flat [X; Y] 1) = list_prod X Y.
Proof.
  rewrite !grid_is_product by (cbn; lia).
  replace (cart [X; Y]) with (flat_map (fun x => map (cons x) (map (fun y => [y]) Y)) X)
    by (rewrite <- cart1; reflexivity).
  induction X as [|x X IH]; [reflexivity|].
  cbn [flat_map list_prod]. rewrite !map_app, combine_app_len by (now rewrite !map_length).
  rewrite IH. f_equal. clear IH. rewrite !map_map. cbn [nth].
  induction Y as [|y Y IHY]; [reflexivity|]. cbn [map combine]. now rewrite IHY.
Qed.

Example grid_ex : mesh_flat [[1; 2]; [5; 6; 7]] 0 = [1; 1; 1; 2; 2; 2] /\ mesh_flat [[1; 2]; [5; 6; 7]] 1 = [5; 6; 7; 5; 6; 7].
Proof. split; reflexivity. Qed.
