(* C04_epoch.v — a training epoch optimises exactly the user's residual loss on its batches (property C04).
   Part 1 (Section C04_routing): which condition / network / coordinates meet and what the equations receive,
   for arbitrary tensors, networks, conditions (model definitions `funcs`, `route_coords`, `eq_args` of
   coq/model/Solver.v; the toy instance computes its loss THROUGH these definitions, so the correspondence
   run of tools/props/C04.py validates them against the real solver classes).
   Part 2 (Section C04): draws, recorded loss, optimiser step, purity of validation, independence of the
   parameter trajectory from validation — for arbitrary components, callbacks and op sequences. *)
From Coq Require Import List Arith Bool Lia.
From ND.model Require Import Solver.
From ND.proofs Require Import C15_base C15_bookkeeping C05_best.
Import ListNotations.

Lemma combine_nth_lt {A B : Type} : forall (l : list A) (l' : list B) n x y,
  n < length l -> n < length l' -> nth n (combine l l') (x, y) = (nth n l x, nth n l' y).
Proof.
  induction l as [|a l IH]; intros [|b l'] n x y H1 H2; cbn in *; try lia.
  destruct n as [|n]; [reflexivity|]. apply IH; lia.
Qed.

Lemma mapM_all {A B : Type} (f : A -> option B) (g : A -> B) : forall l,
  (forall x, In x l -> f x = Some (g x)) -> mapM f l = Some (map g l).
Proof.
  induction l as [|x l IH]; intros H; cbn [mapM map]; [reflexivity|].
  rewrite (H x) by (left; reflexivity). rewrite IH by (intros y Hy; apply H; right; exact Hy). reflexivity.
Qed.

Section C04_routing.
  Variables T N Cd : Type.
  Variable enforce : Cd -> N -> list T -> T.
  Variable sig : Cd -> csig.
  Local Notation funcs := (Solver.funcs enforce sig).
  Local Notation route_coords := (Solver.route_coords sig).

  Lemma funcs_length cls nets cds (coords : list T) : length (funcs cls nets cds coords) = Nat.min (length nets) (length cds).
  Proof. unfold Solver.funcs. rewrite map_length, combine_length. reflexivity. Qed.

  (* C04 funcs_routing: unknown i is condition i enforced on network i (pairing by index, zip(nets, conditions))
     at the routed batch coordinates *)
  Theorem funcs_routing cls nets cds (coords : list T) i (dn : N) (dc : Cd) (dt : T) :
    i < length nets -> i < length cds ->
    nth i (funcs cls nets cds coords) dt =
    enforce (nth i cds dc) (nth i nets dn) (route_coords cls (nth i cds dc) coords).
  Proof.
    intros Hn Hc. unfold Solver.funcs.
    rewrite (nth_indep _ dt (enforce dc dn (route_coords cls dc coords)))
      by (rewrite map_length, combine_length; lia).
    rewrite (map_nth (fun nc => enforce (snd nc) (fst nc) (route_coords cls (snd nc) coords)) (combine nets cds) (dn, dc)).
    rewrite combine_nth_lt by lia. reflexivity.
  Qed.

  (* C04 funcs_routing (FULL strength after the F9 repair): the routed coordinates are ALL the batch coordinates,
     except in the spherical solver for a FIXED-arity condition, which receives the leading ones it accepts;
     a variadic condition receives all of them in every solver class *)
  Theorem route_coords_spec cls c (coords : list T) :
    route_coords cls c coords =
    match cls, sig c with
    | Spherical, SigFixed a => firstn a coords
    | _, _ => coords
    end.
  Proof. unfold Solver.route_coords. destruct cls; try reflexivity; destruct (sig c); reflexivity. Qed.

  Corollary route_coords_all cls c (coords : list T) :
    cls <> Spherical \/ sig c = SigVariadic -> route_coords cls c coords = coords.
  Proof.
    intros H. rewrite route_coords_spec. destruct cls; try reflexivity; destruct (sig c) eqn:E; try reflexivity.
    destruct H as [H|H]; [contradiction|discriminate].
  Qed.

  (* C04 bundle_routing: for EVERY eq_param_index list (any order, repeats allowed, any length) the equations of
     a BundleSolver1D receive  funcs ++ [t] ++ [theta_i for i in eq_param_index]  in that order; an index
     beyond the bundle parameters raises (None); every other solver class passes funcs ++ all coordinates *)
  Theorem bundle_routing (fs : list T) (t : T) (thetas : list T) (idx : list nat) :
    eq_args Bundle (length fs) idx fs (t :: thetas) =
    match mapM (fun i => nth_error thetas i) idx with
    | Some sel => Some (fs ++ [t] ++ sel)
    | None => None
    end.
  Proof.
    unfold Solver.eq_args.
    assert (E : forall i, nth_error (fs ++ t :: thetas) (length fs + 1 + i) = nth_error thetas i).
    { intros i. rewrite nth_error_app2 by lia. replace (length fs + 1 + i - length fs) with (S i) by lia. reflexivity. }
    assert (M : mapM (fun i => nth_error (fs ++ t :: thetas) (length fs + 1 + i)) idx = mapM (fun i => nth_error thetas i) idx).
    { clear -E. induction idx as [|i idx IH]; cbn [mapM]; [reflexivity|]. rewrite E, IH. reflexivity. }
    rewrite M. destruct (mapM (fun i => nth_error thetas i) idx) as [sel|]; [|reflexivity].
    f_equal. assert (F : firstn (length fs + 1) (fs ++ t :: thetas) = fs ++ [t]).
    { replace (fs ++ t :: thetas) with ((fs ++ [t]) ++ thetas) by (rewrite <- app_assoc; reflexivity).
      replace (length fs + 1) with (length (fs ++ [t])) by (rewrite app_length; cbn; lia).
      rewrite firstn_app, firstn_all, Nat.sub_diag. cbn [firstn]. apply app_nil_r. }
    rewrite F, <- app_assoc. reflexivity.
  Qed.

  Corollary bundle_routing_in_range (fs : list T) (t : T) (thetas : list T) (idx : list nat) (d : T) :
    Forall (fun i => i < length thetas) idx ->
    eq_args Bundle (length fs) idx fs (t :: thetas) = Some (fs ++ [t] ++ map (fun i => nth i thetas d) idx).
  Proof.
    intros H. rewrite bundle_routing.
    rewrite (mapM_all (fun i => nth_error thetas i) (fun i => nth i thetas d)); [reflexivity|].
    intros i Hi. rewrite Forall_forall in H. apply nth_error_nth'. apply H. exact Hi.
  Qed.

  Theorem plain_routing cls nf idx (fs coords : list T) :
    cls <> Bundle -> eq_args cls nf idx fs coords = Some (fs ++ coords).
  Proof. intros H. unfold Solver.eq_args. destruct cls; try reflexivity. contradiction. Qed.
End C04_routing.

Section C04.
  Variables P G B V O C : Type.
  Variable loss : nat -> C -> P -> B -> V.
  Variable gradl : nat -> C -> P -> B -> G.
  Variable metric : nat -> C -> P -> B -> V.
  Variable nmetrics : nat.
  Variable gzero : G.
  Variable gadd : G -> G -> G.
  Variable vzero : V.
  Variable vadd : V -> V -> V.
  Variable vdivn : V -> nat -> V.
  Variable vltb : V -> V -> bool.
  Variable requires_closure : O -> bool.
  Variable opt_step : O -> P -> G -> O * P.
  Variable closure_opt : O -> P -> (P -> V * G) -> O * list P * P.
  Variable draw : phase -> nat -> B.

  Local Notation state := (Solver.state P G V O C).
  Local Notation acc := (Solver.acc V).
  Local Notation callback := (Solver.callback P G V O C).
  Local Notation action := (Solver.action P O C).
  Local Notation op := (Solver.op P G V O C).
  Local Notation acc0 := (Solver.acc0 nmetrics vzero).
  Local Notation met_add := (Solver.met_add metric vadd).
  Local Notation met_add_from := (Solver.met_add_from metric vadd).
  Local Notation closure_of := (Solver.closure_of loss gradl).
  Local Notation eval_batch := (Solver.eval_batch loss gradl metric gadd vadd closure_opt).
  Local Notation batch_step := (Solver.batch_step loss gradl metric gadd vadd closure_opt draw).
  Local Notation run_batches := (Solver.run_batches loss gradl metric gadd vadd closure_opt draw).
  Local Notation update_best := (Solver.update_best vltb).
  Local Notation do_step := (Solver.do_step opt_step).
  Local Notation zero_grad := (Solver.zero_grad gzero).
  Local Notation run_epoch := (Solver.run_epoch loss gradl metric nmetrics gzero gadd vzero vadd vdivn vltb requires_closure opt_step closure_opt draw).
  Local Notation iteration := (Solver.iteration loss gradl metric nmetrics gzero gadd vzero vadd vdivn vltb requires_closure opt_step closure_opt draw).
  Local Notation fit_loop := (Solver.fit_loop loss gradl metric nmetrics gzero gadd vzero vadd vdivn vltb requires_closure opt_step closure_opt draw).
  Local Notation fit := (Solver.fit loss gradl metric nmetrics gzero gadd vzero vadd vdivn vltb requires_closure opt_step closure_opt draw).
  Local Notation run_op := (Solver.run_op loss gradl metric nmetrics gzero gadd vzero vadd vdivn vltb requires_closure opt_step closure_opt draw).
  Local Notation run_ops := (Solver.run_ops loss gradl metric nmetrics gzero gadd vzero vadd vdivn vltb requires_closure opt_step closure_opt draw).
  Local Notation init := (Solver.init V nmetrics gzero).

  (* lemmas of the earlier files, applied to the components above *)
  Local Notation batches := (C15_base.batches B draw).
  Local Notation same_book := (C15_base.same_book P G V O C).
  Local Notation same_book_refl := (C15_base.same_book_refl P G V O C).
  Local Notation same_book_trans := (C15_base.same_book_trans P G V O C).
  Local Notation batch_step_book := (C15_base.batch_step_book P G B V O C loss gradl metric gadd vadd closure_opt draw).
  Local Notation run_batches_book := (C15_base.run_batches_book P G B V O C loss gradl metric gadd vadd closure_opt draw).
  Local Notation batch_step_cur := (C15_base.batch_step_cur P G B V O C loss gradl metric gadd vadd closure_opt draw).
  Local Notation run_batches_cur := (C15_base.run_batches_cur P G B V O C loss gradl metric gadd vadd closure_opt draw).
  Local Notation batch_step_fixed := (C15_base.batch_step_fixed P G B V O C loss gradl metric gadd vadd closure_opt draw).
  Local Notation run_batches_fixed := (C15_base.run_batches_fixed P G B V O C loss gradl metric gadd vadd closure_opt draw).
  Local Notation batch_step_events := (C15_base.batch_step_events P G B V O C loss gradl metric gadd vadd closure_opt draw).
  Local Notation run_batches_events := (C15_base.run_batches_events P G B V O C loss gradl metric gadd vadd closure_opt draw).
  Local Notation state_ext := (C15_base.state_ext P G V O C).
  Local Notation set_cur := (C15_base.set_cur P G V O C).
  Local Notation run_batches_fixed_state := (C15_base.run_batches_fixed_state P G B V O C loss gradl metric gadd vadd closure_opt draw).
  Local Notation cstate := (C15_base.cstate P G V O).
  Local Notation closure_batch := (C15_base.closure_batch P G B V O C loss gradl metric vadd closure_opt).
  Local Notation run_batches_closure := (C15_base.run_batches_closure P G B V O C loss gradl metric gadd vadd closure_opt draw).
  Local Notation better := (C15_base.better P G V O C vltb).
  Local Notation update_best_snoc := (C15_base.update_best_snoc P G V O C vltb).
  Local Notation run_epoch_zero := (C15_base.run_epoch_zero P G B V O C loss gradl metric nmetrics gzero gadd vzero vadd vdivn vltb requires_closure opt_step closure_opt draw).
  Local Notation push_each_length := (C15_base.push_each_length V).
  Local Notation push_each_Forall := (C15_base.push_each_Forall V).
  Local Notation met_add_from_length := (C15_base.met_add_from_length P B V C metric vadd).
  Local Notation fold_met_length := (C15_base.fold_met_length P B V C metric vadd).
  Local Notation pre_state := (C15_base.pre_state P G V O C gzero requires_closure).
  Local Notation epoch_batches := (C15_base.epoch_batches P G B V O C loss gradl metric nmetrics gzero gadd vzero vadd requires_closure closure_opt draw).
  Local Notation means := (C15_base.means V vdivn).
  Local Notation epoch_loss := (C15_base.epoch_loss P G B V O C loss gradl metric nmetrics gzero gadd vzero vadd vdivn requires_closure closure_opt draw).
  Local Notation pre_state_book := (C15_base.pre_state_book P G V O C gzero requires_closure).
  Local Notation epoch_batches_book := (C15_base.epoch_batches_book P G B V O C loss gradl metric nmetrics gzero gadd vzero vadd requires_closure closure_opt draw).
  Local Notation run_epoch_unfold := (C15_base.run_epoch_unfold P G B V O C loss gradl metric nmetrics gzero gadd vzero vadd vdivn vltb requires_closure opt_step closure_opt draw).
  Local Notation ctl := (C15_base.ctl P G V O C).
  Local Notation ctl_of_book := (C15_base.ctl_of_book P G V O C).
  Local Notation ctl_push_hist := (C15_base.ctl_push_hist P G V O C).
  Local Notation ctl_update_best := (C15_base.ctl_update_best P G V O C vltb).
  Local Notation ctl_do_step := (C15_base.ctl_do_step P G V O C opt_step).
  Local Notation ctl_push_metrics := (C15_base.ctl_push_metrics P G V O C).
  Local Notation ctl_run_epoch := (C15_base.ctl_run_epoch P G B V O C loss gradl metric nmetrics gzero gadd vzero vadd vdivn vltb requires_closure opt_step closure_opt draw).
  Local Notation hists_update_best := (C15_base.hists_update_best P G V O C vltb).
  Local Notation hists_do_step := (C15_base.hists_do_step P G V O C opt_step).
  Local Notation a_met_length := (C15_base.a_met_length P G B V O C loss gradl metric gadd vadd closure_opt draw).
  Local Notation epoch_met_length := (C15_base.epoch_met_length P G B V O C loss gradl metric nmetrics gzero gadd vzero vadd requires_closure closure_opt draw).
  Local Notation run_epoch_hists := (C15_base.run_epoch_hists P G B V O C loss gradl metric nmetrics gzero gadd vzero vadd vdivn vltb requires_closure opt_step closure_opt draw).
  Local Notation events_update_best := (C15_base.events_update_best P G V O C vltb).
  Local Notation events_do_step := (C15_base.events_do_step P G V O C opt_step).
  Local Notation step_count := (C15_base.step_count P G V O C requires_closure).
  Local Notation run_epoch_events := (C15_base.run_epoch_events P G B V O C loss gradl metric nmetrics gzero gadd vzero vadd vdivn vltb requires_closure opt_step closure_opt draw).
  Local Notation rec_part := (C15_base.rec_part P G V O C).
  Local Notation rec_part_action := (C15_base.rec_part_action P G V O C).
  Local Notation rec_part_actions := (C15_base.rec_part_actions P G V O C).
  Local Notation rec_part_events := (C15_base.rec_part_events P G V O C).
  Local Notation quiet_part := (C15_base.quiet_part P G V O C).
  Local Notation run_cb_spec := (C15_base.run_cb_spec P G V O C).
  Local Notation run_cbs_from_spec := (C15_base.run_cbs_from_spec P G V O C).
  Local Notation runs := (C15_bookkeeping.runs P G V O C).
  Local Notation Inv_ph := (C15_bookkeeping.Inv_ph P G V O C nmetrics).
  Local Notation Inv_len := (C15_bookkeeping.Inv_len P G V O C nmetrics).
  Local Notation inv_init := (C15_bookkeeping.inv_init P G V O C nmetrics gzero).
  Local Notation inv_ph_transfer := (C15_bookkeeping.inv_ph_transfer P G V O C nmetrics).
  Local Notation inv_epoch := (C15_bookkeeping.inv_epoch P G B V O C loss gradl metric nmetrics gzero gadd vzero vadd vdivn vltb requires_closure opt_step closure_opt draw).
  Local Notation inv_same_counts := (C15_bookkeeping.inv_same_counts P G V O C nmetrics).
  Local Notation runs_app_quiet := (C15_bookkeeping.runs_app_quiet P G V O C).
  Local Notation inv_cbs := (C15_bookkeeping.inv_cbs P G V O C nmetrics).
  Local Notation inv_iteration := (C15_bookkeeping.inv_iteration P G B V O C loss gradl metric nmetrics gzero gadd vzero vadd vdivn vltb requires_closure opt_step closure_opt draw).
  Local Notation inv_fit_loop := (C15_bookkeeping.inv_fit_loop P G B V O C loss gradl metric nmetrics gzero gadd vzero vadd vdivn vltb requires_closure opt_step closure_opt draw).
  Local Notation inv_fit := (C15_bookkeeping.inv_fit P G B V O C loss gradl metric nmetrics gzero gadd vzero vadd vdivn vltb requires_closure opt_step closure_opt draw).
  Local Notation inv_action := (C15_bookkeeping.inv_action P G V O C nmetrics).
  Local Notation inv_ops := (C15_bookkeeping.inv_ops P G B V O C loss gradl metric nmetrics gzero gadd vzero vadd vdivn vltb requires_closure opt_step closure_opt draw).
  Local Notation global_epoch_inv := (C15_bookkeeping.global_epoch_inv P G B V O C loss gradl metric nmetrics gzero gadd vzero vadd vdivn vltb requires_closure opt_step closure_opt draw).
  Local Notation series_lengths := (C15_bookkeeping.series_lengths P G B V O C loss gradl metric nmetrics gzero gadd vzero vadd vdivn vltb requires_closure opt_step closure_opt draw).
  Local Notation runs_epoch := (C15_bookkeeping.runs_epoch P G B V O C loss gradl metric nmetrics gzero gadd vzero vadd vdivn vltb requires_closure opt_step closure_opt draw).
  Local Notation metric_sum := (C15_bookkeeping.metric_sum P B V C metric vzero vadd).
  Local Notation met_add_from_nth := (C15_bookkeeping.met_add_from_nth P B V C metric vadd).
  Local Notation fold_met_nth := (C15_bookkeeping.fold_met_nth P B V C metric vadd).
  Local Notation push_each_nth := (C15_bookkeeping.push_each_nth V).
  Local Notation epoch_met_fixed := (C15_bookkeeping.epoch_met_fixed P G B V O C loss gradl metric nmetrics gzero gadd vzero vadd requires_closure closure_opt draw).
  Local Notation metric_mean_plain := (C15_bookkeeping.metric_mean_plain P G B V O C loss gradl metric nmetrics gzero gadd vzero vadd vdivn vltb requires_closure opt_step closure_opt draw).
  Local Notation closure_points := (C15_bookkeeping.closure_points P G B V O C loss gradl closure_opt).
  Local Notation metric_lasts := (C15_bookkeeping.metric_lasts P B V C metric).
  Local Notation closure_fold_met := (C15_bookkeeping.closure_fold_met P G B V O C loss gradl metric vadd closure_opt).
  Local Notation epoch_met_closure := (C15_bookkeeping.epoch_met_closure P G B V O C loss gradl metric nmetrics gzero gadd vzero vadd requires_closure closure_opt draw).
  Local Notation metric_mean_closure_general := (C15_bookkeeping.metric_mean_closure_general P G B V O C loss gradl metric nmetrics gzero gadd vzero vadd vdivn vltb requires_closure opt_step closure_opt draw).
  Local Notation metric_mean_closure := (C15_bookkeeping.metric_mean_closure P G B V O C loss gradl metric nmetrics gzero gadd vzero vadd vdivn vltb requires_closure opt_step closure_opt draw).
  Local Notation iteration_local := (C15_bookkeeping.iteration_local P G B V O C loss gradl metric nmetrics gzero gadd vzero vadd vdivn vltb requires_closure opt_step closure_opt draw).
  Local Notation fit_states := (C15_bookkeeping.fit_states P G B V O C loss gradl metric nmetrics gzero gadd vzero vadd vdivn vltb requires_closure opt_step closure_opt draw).
  Local Notation fit_loop_last := (C15_bookkeeping.fit_loop_last P G B V O C loss gradl metric nmetrics gzero gadd vzero vadd vdivn vltb requires_closure opt_step closure_opt draw).
  Local Notation fit_states_spec := (C15_bookkeeping.fit_states_spec P G B V O C loss gradl metric nmetrics gzero gadd vzero vadd vdivn vltb requires_closure opt_step closure_opt draw).
  Local Notation local_epoch_run := (C15_bookkeeping.local_epoch_run P G B V O C loss gradl metric nmetrics gzero gadd vzero vadd vdivn vltb requires_closure opt_step closure_opt draw).
  Local Notation stop_request_ends_fit := (C15_bookkeeping.stop_request_ends_fit P G B V O C loss gradl metric nmetrics gzero gadd vzero vadd vdivn vltb requires_closure opt_step closure_opt draw).
  Local Notation last_map_seq := (C15_bookkeeping.last_map_seq P G V O C).
  Local Notation local_epoch_after := (C15_bookkeeping.local_epoch_after P G B V O C loss gradl metric nmetrics gzero gadd vzero vadd vdivn vltb requires_closure opt_step closure_opt draw).
  Local Notation fit_zero := (C15_bookkeeping.fit_zero P G B V O C loss gradl metric nmetrics gzero gadd vzero vadd vdivn vltb requires_closure opt_step closure_opt draw).
  Local Notation run_epoch_events_any := (C15_bookkeeping.run_epoch_events_any P G B V O C loss gradl metric nmetrics gzero gadd vzero vadd vdivn vltb requires_closure opt_step closure_opt draw).
  Local Notation callbacks_once_in_order := (C15_bookkeeping.callbacks_once_in_order P G B V O C loss gradl metric nmetrics gzero gadd vzero vadd vdivn vltb requires_closure opt_step closure_opt draw).
  Local Notation tracks := (C05_best.tracks P G V O C).
  Local Notation bt := (C05_best.bt P G V O C).
  Local Notation new_entry := (C05_best.new_entry P G B V O C loss gradl metric nmetrics gzero gadd vzero vadd vdivn requires_closure closure_opt draw).
  Local Notation bt_do_step := (C05_best.bt_do_step P G V O C opt_step).
  Local Notation bt_push_metrics := (C05_best.bt_push_metrics P G V O C).
  Local Notation bt_run_epoch := (C05_best.bt_run_epoch P G B V O C loss gradl metric nmetrics gzero gadd vzero vadd vdivn vltb requires_closure opt_step closure_opt draw).
  Local Notation step_best := (C05_best.step_best P V C vltb).
  Local Notation scan := (C05_best.scan P V C vltb).
  Local Notation Best_inv := (C05_best.Best_inv P G V O C vltb).
  Local Notation scan_snoc := (C05_best.scan_snoc P V C vltb).
  Local Notation best_inv_epoch := (C05_best.best_inv_epoch P G B V O C loss gradl metric nmetrics gzero gadd vzero vadd vdivn vltb requires_closure opt_step closure_opt draw).
  Local Notation best_inv_same := (C05_best.best_inv_same P G V O C vltb).
  Local Notation bt_action := (C05_best.bt_action P G V O C).
  Local Notation bt_cbs := (C05_best.bt_cbs P G V O C).
  Local Notation best_inv_iteration := (C05_best.best_inv_iteration P G B V O C loss gradl metric nmetrics gzero gadd vzero vadd vdivn vltb requires_closure opt_step closure_opt draw).
  Local Notation best_inv_fit_loop := (C05_best.best_inv_fit_loop P G B V O C loss gradl metric nmetrics gzero gadd vzero vadd vdivn vltb requires_closure opt_step closure_opt draw).
  Local Notation best_inv_ops := (C05_best.best_inv_ops P G B V O C loss gradl metric nmetrics gzero gadd vzero vadd vdivn vltb requires_closure opt_step closure_opt draw).
  Local Notation scan_none := (C05_best.scan_none P V C vltb).
  Local Notation scan_spec := (C05_best.scan_spec P V C vltb).
  Local Notation best_inv_init := (C05_best.best_inv_init P G V O C nmetrics gzero vltb).
  Local Notation best_inv := (C05_best.best_inv P G B V O C loss gradl metric nmetrics gzero gadd vzero vadd vdivn vltb requires_closure opt_step closure_opt draw).
  Local Notation act_ok := (C05_best.act_ok P G V O C).
  Local Notation op_ok := (C05_best.op_ok P G V O C).
  Local Notation keeps_valid_on := (C05_best.keeps_valid_on P O C).
  Local Notation keeps_valid_off := (C05_best.keeps_valid_off P O C).
  Local Notation Tr_valid := (C05_best.Tr_valid P G V O C).
  Local Notation Tr_train := (C05_best.Tr_train P G V O C).
  Local Notation nbv_run_epoch := (C05_best.nbv_run_epoch P G B V O C loss gradl metric nmetrics gzero gadd vzero vadd vdivn vltb requires_closure opt_step closure_opt draw).
  Local Notation tr_valid_epoch := (C05_best.tr_valid_epoch P G B V O C loss gradl metric nmetrics gzero gadd vzero vadd vdivn vltb requires_closure opt_step closure_opt draw).
  Local Notation tr_train_epoch := (C05_best.tr_train_epoch P G B V O C loss gradl metric nmetrics gzero gadd vzero vadd vdivn vltb requires_closure opt_step closure_opt draw).
  Local Notation inv_acts := (C05_best.inv_acts P G V O C).
  Local Notation inv_cbs_from := (C05_best.inv_cbs_from P G V O C).
  Local Notation tr_valid_act := (C05_best.tr_valid_act P G V O C).
  Local Notation tr_train_act := (C05_best.tr_train_act P G V O C).
  Local Notation tracked_is_valid_history := (C05_best.tracked_is_valid_history P G B V O C loss gradl metric nmetrics gzero gadd vzero vadd vdivn vltb requires_closure opt_step closure_opt draw).
  Local Notation tracked_is_train_history := (C05_best.tracked_is_train_history P G B V O C loss gradl metric nmetrics gzero gadd vzero vadd vdivn vltb requires_closure opt_step closure_opt draw).
  Local Notation strictly_lower := (C05_best.strictly_lower V vltb).
  Local Notation improves := (C05_best.improves P G V O C vltb).
  Local Notation improves_refl := (C05_best.improves_refl P G V O C vltb).
  Local Notation improves_trans := (C05_best.improves_trans P G V O C vltb).
  Local Notation improves_same := (C05_best.improves_same P G V O C vltb).
  Local Notation best_frozen_epoch := (C05_best.best_frozen_epoch P G B V O C loss gradl metric nmetrics gzero gadd vzero vadd vdivn vltb requires_closure opt_step closure_opt draw).
  Local Notation improves_iteration := (C05_best.improves_iteration P G B V O C loss gradl metric nmetrics gzero gadd vzero vadd vdivn vltb requires_closure opt_step closure_opt draw).
  Local Notation improves_fit_loop := (C05_best.improves_fit_loop P G B V O C loss gradl metric nmetrics gzero gadd vzero vadd vdivn vltb requires_closure opt_step closure_opt draw).
  Local Notation best_frozen := (C05_best.best_frozen P G B V O C loss gradl metric nmetrics gzero gadd vzero vadd vdivn vltb requires_closure opt_step closure_opt draw).
  Local Notation mean_loss := (C05_best.mean_loss P B V C loss vzero vadd vdivn draw).
  Local Notation reproduces := (C05_best.reproduces P B V C loss vzero vadd vdivn draw).
  Local Notation new_entry_reproduces := (C05_best.new_entry_reproduces P G B V O C loss gradl metric nmetrics gzero gadd vzero vadd vdivn requires_closure closure_opt draw).
  Local Notation Rep_inv := (C05_best.Rep_inv P G B V O C loss vzero vadd vdivn draw).
  Local Notation rep_epoch := (C05_best.rep_epoch P G B V O C loss gradl metric nmetrics gzero gadd vzero vadd vdivn vltb requires_closure opt_step closure_opt draw).
  Local Notation rep_same := (C05_best.rep_same P G B V O C loss vzero vadd vdivn draw).
  Local Notation rep_fit_loop := (C05_best.rep_fit_loop P G B V O C loss gradl metric nmetrics gzero gadd vzero vadd vdivn vltb requires_closure opt_step closure_opt draw).
  Local Notation rep_ops := (C05_best.rep_ops P G B V O C loss gradl metric nmetrics gzero gadd vzero vadd vdivn vltb requires_closure opt_step closure_opt draw).
  Local Notation best_reproduces := (C05_best.best_reproduces P G B V O C loss gradl metric nmetrics gzero gadd vzero vadd vdivn vltb requires_closure opt_step closure_opt draw).
  Local Notation closure_final := (C05_best.closure_final P G B V O C loss gradl closure_opt).
  Local Notation closure_pts := (C05_best.closure_pts P G B V O C loss gradl closure_opt).
  Local Notation closure_fold_spec := (C05_best.closure_fold_spec P G B V O C loss gradl metric vadd closure_opt).
  Local Notation best_closure_novalid_partial := (C05_best.best_closure_novalid_partial P G B V O C loss gradl metric nmetrics gzero gadd vzero vadd vdivn vltb requires_closure opt_step closure_opt draw).

  (* ======================================================================================== *)
  (* 1. draws                                                                                  *)

  Lemma cur_post (ph : phase) (s : state) v vs clo :
    (forall p, cur p (push_hist ph v s) = cur p s) /\
    (forall p q, cur p (update_best q clo s) = cur p s) /\
    (forall p, cur p (do_step s) = cur p s) /\
    (forall p, cur p (push_metrics ph vs s) = cur p s).
  Proof.
    repeat split; intros.
    - unfold Solver.push_hist. destruct ph, p; reflexivity.
    - unfold Solver.update_best. destruct (last_opt (hist q s)); [|reflexivity].
      destruct (lowest s) as [l0|]; [destruct (vltb v0 l0)|]; destruct p; reflexivity.
    - unfold Solver.do_step. destruct (opt_step _ _ _). destruct p; reflexivity.
    - unfold Solver.push_metrics. destruct ph, p; reflexivity.
  Qed.

  Lemma cur_run_epoch ph s :
    cur ph (run_epoch ph s) = cur ph s + nb ph s /\ cur (other ph) (run_epoch ph s) = cur (other ph) s.
  Proof.
    destruct (Nat.eq_dec (nb ph s) 0) as [Hz|Hn].
    - rewrite run_epoch_zero by exact Hz. rewrite Hz. split; [lia|reflexivity].
    - rewrite run_epoch_unfold by exact Hn. cbv zeta.
      pose proof (run_batches_cur (nb ph s) (requires_closure (ost s)) ph (pre_state ph s, acc0)) as [H1 H2].
      fold (epoch_batches ph s) in H1, H2. cbn [fst] in H1, H2.
      assert (Hp : forall p, cur p (pre_state ph s) = cur p s).
      { intros p. unfold C15_base.pre_state, Solver.zero_grad. destruct (is_train ph && _); destruct p; reflexivity. }
      rewrite !Hp in H1, H2.
      set (s2 := push_hist ph (epoch_loss ph s) (fst (epoch_batches ph s))).
      assert (A2 : forall p, cur p s2 = cur p (fst (epoch_batches ph s))).
      { intros p. subst s2. apply (cur_post ph (fst (epoch_batches ph s)) (epoch_loss ph s) [] false). }
      set (s3 := if negb (is_train ph) || (nb_valid s =? 0) then update_best ph (requires_closure (ost s)) s2 else s2).
      assert (A3 : forall p, cur p s3 = cur p s2).
      { intros p. subst s3. destruct (negb (is_train ph) || _); [|reflexivity].
        apply (cur_post ph s2 (epoch_loss ph s) [] (requires_closure (ost s))). }
      set (s4 := if is_train ph && negb (requires_closure (ost s)) then do_step s3 else s3).
      assert (A4 : forall p, cur p s4 = cur p s3).
      { intros p. subst s4. destruct (is_train ph && _); [|reflexivity].
        apply (cur_post ph s3 (epoch_loss ph s) [] false). }
      split.
      + rewrite (proj2 (proj2 (proj2 (cur_post ph s4 (epoch_loss ph s) _ false)))), A4, A3, A2. exact H1.
      + rewrite (proj2 (proj2 (proj2 (cur_post ph s4 (epoch_loss ph s) _ false)))), A4, A3, A2. exact H2.
  Qed.

  (* C04 train_epoch_draws: a training epoch draws exactly n_batches_train batches from the TRAINING generator,
     the ones at its cursor, in order, and none from the validation generator (symmetrically for validation) *)
  Theorem train_epoch_draws ph s :
    cur ph (run_epoch ph s) = cur ph s + nb ph s /\
    cur (other ph) (run_epoch ph s) = cur (other ph) s /\
    exists l, events (run_epoch ph s) = l ++ events s /\
              filter is_draw (rev l) = map (EvDraw ph) (seq (cur ph s) (nb ph s)).
  Proof.
    destruct (cur_run_epoch ph s) as [H1 H2]. split; [exact H1|]. split; [exact H2|].
    destruct (Nat.eq_dec (nb ph s) 0) as [Hz|Hn].
    - rewrite run_epoch_zero by exact Hz. rewrite Hz. exists []. split; reflexivity.
    - destruct (run_epoch_events ph s Hn) as (l & E & _ & D & _). exists l. split; [exact E|].
      rewrite <- (rev_involutive (map (EvDraw ph) (seq (cur ph s) (nb ph s)))), <- D.
      clear. induction l as [|e l IH]; [reflexivity|]. cbn [rev filter]. rewrite filter_app', IH.
      cbn [filter]. destruct (is_draw e); cbn [rev app]; rewrite ?app_nil_r; reflexivity.
  Qed.

  (* ======================================================================================== *)
  (* 2. the recorded loss and the optimiser step                                               *)

  Lemma pre_state_fields ph s :
    lid (pre_state ph s) = lid s /\ conds (pre_state ph s) = conds s /\ theta (pre_state ph s) = theta s /\
    ost (pre_state ph s) = ost s /\ cur ph (pre_state ph s) = cur ph s /\
    grad (pre_state ph s) = (if is_train ph && negb (requires_closure (ost s)) then gzero else grad s).
  Proof. unfold C15_base.pre_state, Solver.zero_grad. destruct (is_train ph && _); destruct ph; repeat split. Qed.

  (* C04 train_loss_is_mean (and the same for validation): with parameters that do not move during the epoch
     (validation; training with a plain optimiser) the recorded epoch loss is the mean over the epoch's batches
     of loss_fn + additional_loss (the model's `loss`) evaluated with the epoch's parameters *)
  Theorem loss_is_mean ph s :
    nb ph s <> 0 -> fixed_mode (requires_closure (ost s)) ph ->
    hist ph (run_epoch ph s) =
    hist ph s ++ [mean_loss (lid s) (conds s) (theta s) ph (cur ph s) (nb ph s)].
  Proof.
    intros Hn Hf. destruct (run_epoch_hists ph s Hn) as (H1 & _). rewrite H1. f_equal. f_equal.
    unfold C15_base.epoch_loss, C15_base.epoch_batches, C05_best.mean_loss.
    pose proof (run_batches_fixed (nb ph s) (requires_closure (ost s)) ph Hf (pre_state ph s) acc0) as H.
    cbv zeta in H. destruct H as (_ & _ & He & _).
    destruct (pre_state_fields ph s) as (E1 & E2 & E3 & _ & E5 & _). rewrite E1, E2, E3, E5 in He.
    rewrite He. reflexivity.
  Qed.

  (* the optimiser-visible part of the state *)
  Definition wts (s : state) := (theta s, ost s, grad s).

  Lemma wts_post ph (s : state) v vs clo :
    wts (push_hist ph v s) = wts s /\ wts (update_best ph clo s) = wts s /\ wts (push_metrics ph vs s) = wts s.
  Proof.
    repeat split.
    - unfold Solver.push_hist. destruct ph; reflexivity.
    - unfold Solver.update_best. destruct (last_opt (hist ph s)); [|reflexivity].
      destruct (lowest s) as [l0|]; [destruct (vltb v0 l0)|]; reflexivity.
    - unfold Solver.push_metrics. destruct ph; reflexivity.
  Qed.

  Lemma wts_run_epoch ph s : nb ph s <> 0 ->
    wts (run_epoch ph s) =
    let r := fst (epoch_batches ph s) in
    if is_train ph && negb (requires_closure (ost s))
    then (snd (opt_step (ost r) (theta r) (grad r)), fst (opt_step (ost r) (theta r) (grad r)), grad r)
    else wts r.
  Proof.
    intros Hn. rewrite run_epoch_unfold by exact Hn. cbv zeta.
    set (r := fst (epoch_batches ph s)).
    set (s2 := push_hist ph (epoch_loss ph s) r).
    assert (A2 : wts s2 = wts r) by (subst s2; apply (wts_post ph r (epoch_loss ph s) [] false)).
    set (s3 := if negb (is_train ph) || (nb_valid s =? 0) then update_best ph (requires_closure (ost s)) s2 else s2).
    assert (A3 : wts s3 = wts r).
    { subst s3. destruct (negb (is_train ph) || _); [|exact A2].
      rewrite (proj1 (proj2 (wts_post ph s2 (epoch_loss ph s) [] (requires_closure (ost s))))). exact A2. }
    rewrite (proj2 (proj2 (wts_post ph _ (epoch_loss ph s) (means (nb ph s) (a_met (snd (epoch_batches ph s)))) false))).
    destruct (is_train ph && negb (requires_closure (ost s))); [|exact A3].
    unfold wts in A3. injection A3 as B1 B2 B3.
    unfold Solver.do_step. rewrite B1, B2, B3. destruct (opt_step (ost r) (theta r) (grad r)) as [o' p'].
    unfold wts. sproj. rewrite B3. reflexivity.
  Qed.

  Definition grad_sum (l : nat) (c : C) (p : P) (bs : list B) : G := fold_left gadd (map (gradl l c p) bs) gzero.

  (* C04 plain_step: with a plain optimiser the parameters move by ONE optimiser step on the gradient
     accumulated (from zero) over exactly this epoch's batches, all evaluated at the epoch's parameters *)
  Theorem plain_step s :
    nb_train s <> 0 -> requires_closure (ost s) = false ->
    let g := grad_sum (lid s) (conds s) (theta s) (batches Train (cur_train s) (nb_train s)) in
    theta (run_epoch Train s) = snd (opt_step (ost s) (theta s) g) /\
    ost (run_epoch Train s) = fst (opt_step (ost s) (theta s) g) /\
    grad (run_epoch Train s) = g.
  Proof.
    intros Hn Hc. cbv zeta.
    pose proof (wts_run_epoch Train s Hn) as H. cbv zeta in H. cbn [is_train nb] in H. rewrite Hc in H. cbn [negb andb] in H.
    unfold C15_base.epoch_batches in H. cbn [nb] in H. rewrite Hc in H.
    pose proof (run_batches_fixed (nb_train s) false Train (or_introl eq_refl) (pre_state Train s) acc0) as F.
    cbv zeta in F. destruct F as (Ft & Fo & _ & _ & Fg & _). cbn [is_train] in Fg.
    destruct (pre_state_fields Train s) as (E1 & E2 & E3 & E4 & E5 & E6).
    cbn [is_train cur] in E5, E6. rewrite Hc in E6. cbn in E6.
    cbn [cur] in Fg. rewrite E1, E2, E3, E5, E6 in Fg. rewrite E3 in Ft. rewrite E4 in Fo.
    rewrite Ft, Fo, Fg in H. unfold wts in H. injection H as H1 H2 H3. unfold grad_sum. auto.
  Qed.

  (* ... with exactly one zero_grad before the first batch and one step after the last *)
  Theorem plain_step_events s :
    nb_train s <> 0 -> requires_closure (ost s) = false ->
    exists lb,
      trace (run_epoch Train s) =
      trace s ++ [EvBegin Train; EvZero]
              ++ flat_map (fun k => [EvDraw Train k; EvEval Train k]) (seq (cur_train s) (nb_train s))
              ++ [EvHist Train] ++ lb ++ [EvStep] ++ map (EvMetric Train) (seq 0 nmetrics) /\
      (lb = [] \/ exists b, lb = [EvBest Train b]).
  Proof.
    intros Hn Hc. rewrite run_epoch_unfold by exact Hn. cbv zeta. cbn [is_train nb negb orb andb]. rewrite Hc. cbn [negb andb].
    unfold C15_base.epoch_batches, C15_base.epoch_loss, C15_base.epoch_batches. cbn [nb]. rewrite Hc.
    rewrite (run_batches_fixed_state (nb_train s) false Train (or_introl eq_refl) (pre_state Train s) acc0).
    set (r := run_batches (nb_train s) false Train (pre_state Train s, acc0)).
    assert (Hpre : events (pre_state Train s) = EvZero :: EvBegin Train :: events s /\ cur_train (pre_state Train s) = cur_train s).
    { unfold C15_base.pre_state. cbn [is_train]. rewrite Hc. cbn. split; reflexivity. }
    destruct Hpre as [Ep Cp].
    match goal with |- context [push_hist Train ?v ?st] => set (s2 := push_hist Train v st) end.
    assert (E2 : events s2 = EvHist Train :: rev (flat_map (fun k => [EvDraw Train k; EvEval Train k]) (seq (cur_train s) (nb_train s)))
                             ++ EvZero :: EvBegin Train :: events s).
    { subst s2. unfold Solver.push_hist, C15_base.set_cur. sproj. cbn [cur]. rewrite Cp, Ep. reflexivity. }
    set (s3 := if nb_valid s =? 0 then update_best Train false s2 else s2).
    assert (E3 : exists lb, events s3 = rev lb ++ events s2 /\ (lb = [] \/ exists b, lb = [EvBest Train b])).
    { subst s3. destruct (nb_valid s =? 0).
      - destruct (events_update_best Train false s2) as (l & El & [->|[b ->]]); [exists []|exists [EvBest Train b]]; eauto.
      - exists []. auto. }
    destruct E3 as (lb & E3 & Hlb). exists lb. split; [|exact Hlb].
    unfold Solver.trace, Solver.push_metrics. sproj.
    rewrite events_do_step, E3, E2.
    unfold C15_base.means. rewrite map_length.
    assert (Hml : length (a_met (snd r)) = nmetrics).
    { subst r. rewrite a_met_length. cbn. apply repeat_length. }
    rewrite Hml.
    repeat (progress (rewrite ?rev_app_distr, ?rev_involutive; cbn [rev app])).
    rewrite <- ?app_assoc. cbn [app]. rewrite <- ?app_assoc. cbn [app]. reflexivity.
  Qed.

  (* ---- closure optimisers *)
  Lemma closure_fold_theta (l : nat) (c : C) : forall bs o p g a,
    snd (fst (fst (fold_left (closure_batch l c) bs (o, p, g, a)))) = closure_final l c o p bs.
  Proof.
    induction bs as [|b bs IH]; intros o p g a; cbn [fold_left C05_best.closure_final]; [reflexivity|].
    unfold C15_base.closure_batch at 2. destruct (closure_opt o p _) as [[o' pts] p']. apply IH.
  Qed.

  (* C04 closure_step: with a closure-requiring optimiser there is ONE optimiser call per batch (and no plain
     step); each call receives the closure of ITS batch (loss and gradient of that batch alone, at whatever
     points the optimiser asks for); the parameters after the epoch are the result of chaining these calls *)
  Theorem closure_step s :
    nb_train s <> 0 -> requires_closure (ost s) = true ->
    let bs := batches Train (cur_train s) (nb_train s) in
    let r := fold_left (closure_batch (lid s) (conds s)) bs (ost s, theta s, grad s, acc0) in
    wts (run_epoch Train s) = (snd (fst (fst r)), fst (fst (fst r)), snd (fst r)) /\
    theta (run_epoch Train s) = closure_final (lid s) (conds s) (ost s) (theta s) bs /\
    exists l, events (run_epoch Train s) = l ++ events s /\ count is_cstep l = nb_train s /\ count is_step l = 0.
  Proof.
    intros Hn Hc. cbv zeta.
    pose proof (wts_run_epoch Train s Hn) as H. cbv zeta in H. cbn [is_train] in H. rewrite Hc in H. cbn [negb andb] in H.
    unfold C15_base.epoch_batches in H. cbn [nb] in H. rewrite Hc in H.
    pose proof (run_batches_closure (nb_train s) (pre_state Train s) acc0) as R. cbv zeta in R.
    destruct (pre_state_fields Train s) as (E1 & E2 & E3 & E4 & E5 & E6).
    cbn [is_train cur] in E5, E6. rewrite Hc in E6. cbn in E6.
    rewrite E1, E2, E3, E4, E5, E6 in R.
    set (F := fold_left (closure_batch (lid s) (conds s)) (batches Train (cur_train s) (nb_train s))
                        (ost s, theta s, grad s, acc0)) in *.
    assert (W : wts (run_epoch Train s) = (snd (fst (fst F)), fst (fst (fst F)), snd (fst F))).
    { rewrite H. rewrite <- R. reflexivity. }
    split; [exact W|]. split.
    - unfold wts in W. injection W as W1 _ _. rewrite W1. subst F. apply closure_fold_theta.
    - destruct (run_epoch_events Train s Hn) as (l & E & _ & _ & _ & S1 & C1). exists l.
      unfold C15_base.step_count in S1. cbn [is_train nb] in S1, C1. rewrite Hc in S1, C1. cbn in S1, C1. auto.
  Qed.

  (* ... and the recorded training loss is the mean over the batches of the loss at the optimiser's LAST
     evaluation point of each batch (every call evaluating the closure at least once) *)
  Theorem closure_loss_is_mean_of_last s (d : P) :
    nb_train s <> 0 -> requires_closure (ost s) = true ->
    let bs := batches Train (cur_train s) (nb_train s) in
    Forall (fun bp => snd bp <> []) (closure_pts (lid s) (conds s) (ost s) (theta s) bs) ->
    h_train (run_epoch Train s) =
    h_train s ++ [vdivn (fold_left vadd
                           (map (fun bp => loss (lid s) (conds s) (last (snd bp) d) (fst bp))
                                (closure_pts (lid s) (conds s) (ost s) (theta s) bs)) vzero) (nb_train s)].
  Proof.
    intros Hn Hc bs HF. destruct (run_epoch_hists Train s Hn) as (H1 & _). cbn [hist] in H1. rewrite H1.
    f_equal. f_equal. unfold C15_base.epoch_loss, C15_base.epoch_batches. cbn [nb]. rewrite Hc.
    pose proof (run_batches_closure (nb_train s) (pre_state Train s) acc0) as R. cbv zeta in R.
    destruct (pre_state_fields Train s) as (E1 & E2 & E3 & E4 & E5 & E6).
    cbn [is_train cur] in E5. rewrite E1, E2, E3, E4, E5 in R. fold bs in R.
    pose proof (closure_fold_spec (lid s) (conds s) d bs (ost s) (theta s) (grad (pre_state Train s)) acc0 HF) as K.
    cbv zeta in K. rewrite <- R in K. cbn [fst snd] in K. destruct K as [_ K2]. rewrite K2. reflexivity.
  Qed.

  (* ======================================================================================== *)
  (* 3. validation is pure; the parameter trajectory does not depend on validation              *)

  (* C04 valid_epoch_pure: a validation epoch changes no parameter, no optimiser state, no gradient, nothing of
     the training history, no training cursor and no control field *)
  Theorem valid_epoch_pure s :
    wts (run_epoch Valid s) = wts s /\
    h_train (run_epoch Valid s) = h_train s /\ m_train (run_epoch Valid s) = m_train s /\
    cur_train (run_epoch Valid s) = cur_train s /\ ctl (run_epoch Valid s) = ctl s.
  Proof.
    split; [|split; [|split; [|split]]].
    - destruct (Nat.eq_dec (nb Valid s) 0) as [Hz|Hn]; [rewrite run_epoch_zero; auto|].
      rewrite (wts_run_epoch Valid s Hn). cbv zeta. cbn [is_train andb].
      unfold C15_base.epoch_batches.
      pose proof (run_batches_fixed (nb Valid s) (requires_closure (ost s)) Valid (or_intror eq_refl) (pre_state Valid s) acc0) as F.
      cbv zeta in F. destruct F as (Ft & Fo & _ & _ & Fg & _). cbn [is_train] in Fg.
      destruct (pre_state_fields Valid s) as (_ & _ & E3 & E4 & _ & E6). cbn [is_train andb] in E6.
      unfold wts. rewrite Ft, Fo, Fg, E3, E4, E6. reflexivity.
    - destruct (Nat.eq_dec (nb Valid s) 0) as [Hz|Hn]; [rewrite run_epoch_zero; auto|].
      destruct (run_epoch_hists Valid s Hn) as (_ & H2 & _). exact H2.
    - destruct (Nat.eq_dec (nb Valid s) 0) as [Hz|Hn]; [rewrite run_epoch_zero; auto|].
      destruct (run_epoch_hists Valid s Hn) as (_ & _ & _ & H4). exact H4.
    - destruct (cur_run_epoch Valid s) as [_ H]. exact H.
    - apply ctl_run_epoch.
  Qed.

  (* what training reads and writes (everything except: n_batches_valid, the validation history/cursor, the best-model
     record, the event log and the recorder's snapshots) *)
  Definition train_view (s : state) :=
    (theta s, ost s, grad s, conds s, lid s, nb_train s, h_train s, m_train s,
     local_epoch s, max_local s, stop s, cur_train s).

  Lemma tv_valid s : train_view (run_epoch Valid s) = train_view s.
  Proof.
    destruct (valid_epoch_pure s) as (W & H1 & H2 & H3 & Ct). unfold wts in W. unfold C15_base.ctl in Ct.
    unfold train_view. congruence.
  Qed.

  (* the batch loop of a training epoch, as seen by training: a function of the train view only *)
  Lemma train_core_eq s1 s2 : train_view s1 = train_view s2 ->
    let r1 := epoch_batches Train s1 in
    let r2 := epoch_batches Train s2 in
    wts (fst r1) = wts (fst r2) /\ a_eloss (snd r1) = a_eloss (snd r2) /\ a_met (snd r1) = a_met (snd r2).
  Proof.
    intros Hv. unfold train_view in Hv. injection Hv as V1 V2 V3 V4 V5 V6 V7 V8 V9 V10 V11 V12.
    cbv zeta. unfold C15_base.epoch_batches. cbn [nb]. rewrite <- V2, <- V6.
    destruct (pre_state_fields Train s1) as (A1 & A2 & A3 & A4 & A5 & A6).
    destruct (pre_state_fields Train s2) as (B1 & B2 & B3 & B4 & B5 & B6).
    cbn [cur is_train] in *. rewrite <- V2 in B6.
    destruct (requires_closure (ost s1)) eqn:Hc.
    - pose proof (run_batches_closure (nb_train s1) (pre_state Train s1) acc0) as R1.
      pose proof (run_batches_closure (nb_train s1) (pre_state Train s2) acc0) as R2.
      cbv zeta in R1, R2. cbn [negb andb] in A6, B6.
      rewrite A1, A2, A3, A4, A5, A6 in R1. rewrite B1, B2, B3, B4, B5, B6 in R2.
      rewrite <- V1, <- V2, <- V3, <- V4, <- V5, <- V12 in R2. rewrite <- R2 in R1.
      injection R1 as R1a R1b R1c R1d. unfold wts. rewrite R1a, R1b, R1c, R1d. auto.
    - pose proof (run_batches_fixed (nb_train s1) false Train (or_introl eq_refl) (pre_state Train s1) acc0) as F1.
      pose proof (run_batches_fixed (nb_train s1) false Train (or_introl eq_refl) (pre_state Train s2) acc0) as F2.
      cbv zeta in F1, F2. cbn [negb andb is_train cur] in *.
      destruct F1 as (F1t & F1o & F1e & F1m & F1g & _). destruct F2 as (F2t & F2o & F2e & F2m & F2g & _).
      rewrite A3 in F1t. rewrite A4 in F1o. rewrite A1, A2, A3, A5 in F1e. rewrite A2, A3, A5 in F1m.
      rewrite A1, A2, A3, A5, A6 in F1g.
      rewrite B3 in F2t. rewrite B4 in F2o. rewrite B1, B2, B3, B5 in F2e. rewrite B2, B3, B5 in F2m.
      rewrite B1, B2, B3, B5, B6 in F2g.
      unfold wts. rewrite F1t, F1o, F1e, F1m, F1g, F2t, F2o, F2e, F2m, F2g.
      rewrite V1, V2, V4, V5, V12. auto.
  Qed.

  Lemma tv_train_formula s : nb_train s <> 0 ->
    train_view (run_epoch Train s) =
    let r := epoch_batches Train s in
    let w := wts (run_epoch Train s) in
    (fst (fst w), snd (fst w), snd w, conds s, lid s, nb_train s,
     h_train s ++ [vdivn (a_eloss (snd r)) (nb_train s)],
     push_each (m_train s) (means (nb_train s) (a_met (snd r))),
     local_epoch s, max_local s, stop s, cur_train s + nb_train s).
  Proof.
    intros Hn. cbv zeta. unfold train_view.
    destruct (run_epoch_hists Train s Hn) as (H1 & _ & H3 & _). cbn [hist mhist nb] in H1, H3.
    destruct (cur_run_epoch Train s) as [Hc _]. cbn [cur nb] in Hc.
    pose proof (ctl_run_epoch Train s) as Ct. unfold C15_base.ctl in Ct. injection Ct as C1 C2 C3 _ C5 C6 C7 _.
    rewrite H1, H3, Hc, C1, C2, C3, C5, C6, C7. unfold C15_base.epoch_loss. reflexivity.
  Qed.

  Lemma tv_train s1 s2 : train_view s1 = train_view s2 ->
    train_view (run_epoch Train s1) = train_view (run_epoch Train s2).
  Proof.
    intros Hv. pose proof Hv as Hv'. unfold train_view in Hv'. injection Hv' as V1 V2 V3 V4 V5 V6 V7 V8 V9 V10 V11 V12.
    destruct (Nat.eq_dec (nb_train s1) 0) as [Hz|Hn].
    - rewrite !run_epoch_zero; [exact Hv| cbn [nb]; congruence | exact Hz].
    - assert (Hn2 : nb_train s2 <> 0) by congruence.
      rewrite (tv_train_formula s1 Hn), (tv_train_formula s2 Hn2). cbv zeta.
      rewrite (wts_run_epoch Train s1 Hn), (wts_run_epoch Train s2 Hn2). cbv zeta.
      destruct (train_core_eq s1 s2 Hv) as (W & E & M). cbv zeta in W, E, M.
      pose proof W as Ww. unfold wts in W. injection W as W1 W2 W3.
      rewrite Ww, E, M, W1, W2, W3, V2, V4, V5, V6, V7, V8, V9, V10, V11, V12. reflexivity.
  Qed.

  (* callbacks that cannot see validation: equal train views give equal decisions *)
  Definition blind (cb : callback) : Prop := forall s1 s2, train_view s1 = train_view s2 -> cb s1 = cb s2.

  Lemma tv_action (a : action) (s1 s2 : state) : train_view s1 = train_view s2 ->
    train_view (apply_action a s1) = train_view (apply_action a s2).
  Proof.
    intros Hv. unfold train_view in *. injection Hv as V1 V2 V3 V4 V5 V6 V7 V8 V9 V10 V11 V12.
    destruct a as [ph n| | | | | |]; try (destruct ph); cbn; congruence.
  Qed.

  Lemma tv_actions (acts : list action) : forall s1 s2, train_view s1 = train_view s2 ->
    train_view (fold_left (fun s' a => apply_action a s') acts s1) =
    train_view (fold_left (fun s' a => apply_action a s') acts s2).
  Proof.
    induction acts as [|a acts IH]; intros s1 s2 Hv; cbn [fold_left]; [exact Hv|]. apply IH, tv_action, Hv.
  Qed.

  Lemma tv_log e (s : state) : train_view (log e s) = train_view s.
  Proof. reflexivity. Qed.

  Lemma tv_cbs (cbs : list callback) : Forall blind cbs -> forall i s1 s2, train_view s1 = train_view s2 ->
    train_view (run_cbs_from i cbs s1) = train_view (run_cbs_from i cbs s2).
  Proof.
    induction 1 as [|cb cbs Hb _ IH]; intros i s1 s2 Hv; cbn [Solver.run_cbs_from]; [exact Hv|].
    apply IH. unfold Solver.run_cb.
    rewrite (Hb s1 s2 Hv).
    apply tv_actions. rewrite !tv_log. exact Hv.
  Qed.

  Lemma tv_iteration i cbs s1 s2 : Forall blind cbs -> train_view s1 = train_view s2 ->
    train_view (iteration i cbs s1) = train_view (iteration i cbs s2).
  Proof.
    intros Hb Hv. unfold Solver.iteration, Solver.run_cbs. apply tv_cbs; [exact Hb|].
    rewrite !tv_valid. apply tv_train.
    unfold train_view in *. injection Hv as V1 V2 V3 V4 V5 V6 V7 V8 V9 V10 V11 V12. sproj. congruence.
  Qed.

  Lemma tv_stop (s1 s2 : state) : train_view s1 = train_view s2 -> stop s1 = stop s2.
  Proof. unfold train_view. congruence. Qed.

  Lemma tv_fit_states r : forall i cbs s1 s2, Forall blind cbs -> train_view s1 = train_view s2 ->
    map train_view (fit_states r i cbs s1) = map train_view (fit_states r i cbs s2) /\
    train_view (fit_loop r i cbs s1) = train_view (fit_loop r i cbs s2).
  Proof.
    induction r as [|r IH]; intros i cbs s1 s2 Hb Hv; cbn [C15_bookkeeping.fit_states Solver.fit_loop map]; [auto|].
    rewrite <- (tv_stop s1 s2 Hv). destruct (stop s1); [auto|].
    pose proof (tv_iteration i cbs s1 s2 Hb Hv) as Hi.
    destruct (IH (S i) cbs _ _ Hb Hi) as [I1 I2]. cbn [map]. rewrite Hi, I1. auto.
  Qed.

  Definition op_blind (o : op) : Prop := match o with OFit _ cbs => Forall blind cbs | OAct _ => True end.

  (* C04 trajectory_independent_of_validation: two runs that agree on everything training reads (they may differ in
     n_batches_valid, in the validation history and cursor, in the best-model record) and perform the same
     operations with validation-blind callbacks have the same parameters, optimiser state, gradients and training
     history after every operation — the parameter trajectory does not depend on how much validation is run *)
  Theorem trajectory_independent_of_validation (ops : list op) : Forall op_blind ops ->
    forall s1 s2, train_view s1 = train_view s2 -> train_view (run_ops ops s1) = train_view (run_ops ops s2).
  Proof.
    induction 1 as [|o ops Ho _ IH]; intros s1 s2 Hv; cbn [Solver.run_ops fold_left]; [exact Hv|].
    apply IH. destruct o as [m cbs|a]; cbn [Solver.run_op op_blind] in *.
    - unfold Solver.fit. apply tv_fit_states; [exact Ho|].
      unfold train_view in *. injection Hv as V1 V2 V3 V4 V5 V6 V7 V8 V9 V10 V11 V12. sproj. congruence.
    - apply tv_action, Hv.
  Qed.

  (* ... and inside a fit() call: the states after every epoch have the same train view *)
  Theorem epoch_trajectory_independent_of_validation m cbs s1 s2 : Forall blind cbs -> train_view s1 = train_view s2 ->
    map train_view (fit_states m 0 cbs (set_local_epoch 0 (set_max_local m (set_stop false s1)))) =
    map train_view (fit_states m 0 cbs (set_local_epoch 0 (set_max_local m (set_stop false s2)))).
  Proof.
    intros Hb Hv. apply tv_fit_states; [exact Hb|].
    unfold train_view in *. injection Hv as V1 V2 V3 V4 V5 V6 V7 V8 V9 V10 V11 V12. sproj. congruence.
  Qed.

End C04.

(* ------------------------------------------------------------------------------------------ *)
(* Non-vacuity on the toy instance: premises of the implications are satisfiable, and two runs that differ
   only in the amount of validation are related as the trajectory theorem requires *)
From Coq Require Import ZArith QArith.
Module C04_examples.
  Import Toy.
  Local Close Scope Q_scope.
  Definition cfg := mkCfg Bundle 1 [1%Z] [0] 1 [1; 0] false.
  Definition b0 : list (list Q) := [[Qmake 1 1; Qmake 2 1]; [Qmake 0 1; Qmake 1 1]; [Qmake 3 1; Qmake (-1) 1]].
  Definition trs : list (list (list Q)) := repeat b0 8.
  Definition cds := [mkCond 5%Z 1%Z SigVariadic].
  Definition s_plain (nbv : nat) : t_state := t_init cfg 0 [Qmake 1 2] (TSgd (Qmake 1 4)) cds 0 2 nbv.
  Definition s_clo : t_state := t_init cfg 0 [Qmake 1 2] (TScript (Qmake 1 4) [2; 1]) cds 0 2 0.

  Example plain_step_premises : nb_train (s_plain 1) <> 0 /\ t_requires_closure (ost (s_plain 1)) = false.
  Proof. split; [vm_compute; discriminate|reflexivity]. Qed.

  Example closure_step_premises :
    nb_train s_clo <> 0 /\ t_requires_closure (ost s_clo) = true /\
    Forall (fun bp : list (list Q) * list (list Q) => snd bp <> [])
           (closure_pts _ _ _ _ _ _ (t_loss cfg) (t_grad cfg) t_closure_opt (lid s_clo) (conds s_clo) (ost s_clo) (theta s_clo)
                        (batches _ (t_draw trs trs) Train (cur_train s_clo) (nb_train s_clo))).
  Proof. split; [vm_compute; discriminate|]. split; [reflexivity|]. vm_compute. repeat constructor; discriminate. Qed.

  (* runs with 0 and with 3 validation batches per epoch start from states with equal train views *)
  Example trajectory_premises :
    train_view _ _ _ _ _ (s_plain 0) = train_view _ _ _ _ _ (s_plain 3) /\
    theta (t_fit cfg 0 trs trs 3 [] (s_plain 0)) = theta (t_fit cfg 0 trs trs 3 [] (s_plain 3)) /\
    h_valid (t_fit cfg 0 trs trs 3 [] (s_plain 0)) <> h_valid (t_fit cfg 0 trs trs 3 [] (s_plain 3)).
  Proof. split; [reflexivity|]. split; [vm_compute; reflexivity|]. vm_compute. discriminate. Qed.

  (* the bundle equations of this configuration receive funcs ++ [t] ++ [theta_1; theta_0] *)
  Example bundle_routing_example :
    eq_args Bundle 1 [1; 0] [10] [20; 30; 40] = Some [10; 20; 40; 30].
  Proof. reflexivity. Qed.
End C04_examples.
