(* C20 — the legacy point samplers stay on their domain, one point per equal-width stratum, on
   EVERY draw.  Lemmas about the step functions tools/props/t_C20.py regenerates from
   neurodiffeq/temporal.py into gen/Gen_C20.v, instantiated at the real numbers. *)
From Coq Require Import Reals List Lra Lia ZArith Arith Field Psatz.
From ND.model Require Import Legacy.
From ND.gen Require Import Gen_C20.
Import ListNotations.
Open Scope R_scope.

Definition ROps : FOps := mkFOps R Rplus Rminus Rmult Rdiv Ropp IZR.

(* oracle: every torch.rand element lies in [0, 1) *)
Definition unit_draws (rnd : nat -> nat -> R) : Prop := forall c j, 0 <= rnd c j < 1.

(* x lies in the i-th of n equal-width strata of [lo, hi] *)
Definition stratum (lo hi : R) (n i : nat) (x : R) : Prop :=
  lo + INR i * ((hi - lo) / INR n) <= x <= lo + (INR i + 1) * ((hi - lo) / INR n).

(* (x, y) lies on the segment from (x1,y1) to (x2,y2), in the i-th of n equal strata *)
Definition segment_stratum (x1 y1 x2 y2 : R) (n i : nat) (x y : R) : Prop :=
  exists s, INR i / INR n <= s <= (INR i + 1) / INR n /\ x = x1 + (x2 - x1) * s /\ y = y1 + (y2 - y1) * s.

Lemma stratum_in_interval lo hi n i x :
  (1 <= n)%nat -> (i < n)%nat -> lo <= hi -> stratum lo hi n i x -> lo <= x <= hi.
Proof.
  intros Hn Hi Hle [H1 H2].
  assert (Hp : 0 < INR n) by (apply lt_0_INR; lia).
  assert (Hi' : INR i + 1 <= INR n) by (rewrite <- S_INR; apply le_INR; lia).
  assert (H0 : 0 <= INR i) by apply pos_INR.
  set (w := (hi - lo) / INR n) in *.
  assert (Hw : 0 <= w) by (unfold w; apply Rmult_le_pos; [lra | left; now apply Rinv_0_lt_compat]).
  assert (Hn' : INR n * w = hi - lo) by (unfold w; field; lra).
  split; nra.
Qed.

Lemma fofnat_R n : fofnat ROps n = INR n.
Proof. unfold fofnat. cbn [fofZ ROps]. symmetry. apply INR_IZR_INZ. Qed.

Ltac r_ops := cbn [F fadd fsub fmul fdiv fopp fofZ ROps] in *; unfold fofQ in *; rewrite ?fofnat_R in *;
              cbn [F fadd fsub fmul fdiv fopp fofZ ROps] in *.

(* torch.linspace with end points (a, a + (n-1) w) has the points a + i w *)
Lemma linspace_R a b n i w :
  (1 <= n)%nat -> (i < n)%nat -> b - a = (INR n - 1) * w -> linspace ROps a b n i = a + INR i * w.
Proof.
  intros Hn Hi Hab. unfold linspace. destruct (Nat.eqb_spec n 1) as [E|E].
  - subst n. assert (i = 0)%nat by lia. subst i. cbn [INR]. change (a = a + 0 * w). ring.
  - rewrite !fofnat_R. cbn [F fadd fmul fdiv fsub ROps]. rewrite minus_INR by lia. cbn [INR].
    assert (Hz : INR n - 1 <> 0).
    { assert (2 <= INR n) by (change 2 with (INR 2); apply le_INR; lia). lra. }
    rewrite Hab. field. exact Hz.
Qed.

(* goal: lo + i w <= <centre i [+ noise]> <= lo + (i+1) w  over the reals, where the centres come
   from torch.linspace and w = (hi - lo) / size; the proof does not depend on how the source
   spells the end points of the linspace, only on their values *)
Ltac one_d_strata lo hi size i :=
  let w := fresh "w" in
  set (w := (hi - lo) / INR size) in *;
  assert (0 < INR size) by (apply lt_0_INR; lia);
  assert (0 <= w) by (unfold w; apply Rmult_le_pos; [lra | left; now apply Rinv_0_lt_compat]);
  assert (INR size * w = hi - lo) by (unfold w; field; lra);
  rewrite (linspace_R _ _ size i w) by (auto; unfold w; field; lra);
  split; nra.

(* ------------------------------------------------------------------ generic induction on the draw index *)
Lemma draw_invariant {St Out : Type} (step : nat -> St -> Out * nat * St) (I : St -> Prop) (P : Out -> Prop) :
  (forall cur st, I st -> P (fst (fst (step cur st))) /\ I (snd (step cur st))) ->
  forall k cur st, I st -> P (draw step k cur st).
Proof.
  intros Hstep. induction k as [|k IH]; intros cur st Hst; unfold draw; cbn [run].
  - apply Hstep, Hst.
  - destruct (Hstep cur st Hst) as [_ HI]. destruct (step cur st) as [[o c] s]. cbn [snd] in HI.
    apply (IH c s HI).
Qed.

(* ------------------------------------------------------------------ 1-D interval sampler *)
Section OneD.
  Variables (rnd : nat -> nat -> R) (size : nat) (x_min x_max : R) (random : bool).
  Hypothesis Hrnd : unit_draws rnd.
  Hypothesis Hsize : (1 <= size)%nat.
  Hypothesis Hle : x_min <= x_max.

  Lemma s1d_step_out cur st i :
    (i < size)%nat ->
    stratum x_min x_max size i (fst (fst (generator_1dspatial_step ROps rnd size x_min x_max random cur st)) i).
  Proof.
    intros Hi. unfold generator_1dspatial_step. cbv zeta.
    destruct (Hrnd cur i) as [Hu0 Hu1]. set (u := rnd cur i) in *.
    destruct random; cbn [fst]; unfold vmap2, vmapr, vmapl, stratum; r_ops; fold u; one_d_strata x_min x_max size i.
  Qed.

  Lemma s1d_all_draws k cur i :
    (i < size)%nat ->
    stratum x_min x_max size i
      (draw (generator_1dspatial_step ROps rnd size x_min x_max random) k cur
            (generator_1dspatial_init ROps size x_min x_max random) i).
  Proof.
    intros Hi.
    apply (draw_invariant (generator_1dspatial_step ROps rnd size x_min x_max random)
             (fun _ => True) (fun out => stratum x_min x_max size i (out i))); auto.
    intros c s _. split; auto. apply s1d_step_out, Hi.
  Qed.
End OneD.

(* ------------------------------------------------------------------ temporal sampler (same formula, own source lines) *)
Section Temporal.
  Variables (rnd : nat -> nat -> R) (size : nat) (t_min t_max : R) (random : bool).
  Hypothesis Hrnd : unit_draws rnd.
  Hypothesis Hsize : (1 <= size)%nat.
  Hypothesis Hle : t_min <= t_max.

  Lemma temporal_step_out cur st i :
    (i < size)%nat ->
    stratum t_min t_max size i (fst (fst (generator_temporal_step ROps rnd size t_min t_max random cur st)) i).
  Proof.
    intros Hi. unfold generator_temporal_step. cbv zeta.
    destruct (Hrnd cur i) as [Hu0 Hu1]. set (u := rnd cur i) in *.
    destruct random; cbn [fst]; unfold vmap2, vmapr, vmapl, stratum; r_ops; fold u; one_d_strata t_min t_max size i.
  Qed.

  Lemma temporal_all_draws k cur i :
    (i < size)%nat ->
    stratum t_min t_max size i
      (draw (generator_temporal_step ROps rnd size t_min t_max random) k cur
            (generator_temporal_init ROps size t_min t_max random) i).
  Proof.
    intros Hi.
    apply (draw_invariant (generator_temporal_step ROps rnd size t_min t_max random)
             (fun _ => True) (fun out => stratum t_min t_max size i (out i))); auto.
    intros c s _. split; auto. apply temporal_step_out, Hi.
  Qed.
End Temporal.

(* ------------------------------------------------------------------ rectangle sampler *)
Section Rect.
  Variables (rnd : nat -> nat -> R) (nx ny : nat) (x_min x_max y_min y_max : R) (random : bool).
  Hypothesis Hrnd : unit_draws rnd.
  Hypothesis Hnx : (1 <= nx)%nat.
  Hypothesis Hny : (1 <= ny)%nat.
  Hypothesis Hx : x_min <= x_max.
  Hypothesis Hy : y_min <= y_max.

  (* row r of the cartesian product is cell (r / ny, r mod ny): a bijection onto the grid of cells *)
  Lemma cell_in_grid r : (r < nx * ny)%nat -> (r / ny < nx)%nat /\ (r mod ny < ny)%nat.
  Proof.
    intros Hr. split.
    - apply Nat.div_lt_upper_bound; lia.
    - apply Nat.mod_upper_bound; lia.
  Qed.

  Lemma cell_injective r r' : (r / ny = r' / ny)%nat -> (r mod ny = r' mod ny)%nat -> r = r'.
  Proof.
    intros Hd Hm. rewrite (Nat.div_mod r ny), (Nat.div_mod r' ny) by lia. now rewrite Hd, Hm.
  Qed.

  Definition rect_cell (r : nat) (out : (nat -> R) * (nat -> R)) : Prop :=
    stratum x_min x_max nx (r / ny) (fst out r) /\ stratum y_min y_max ny (r mod ny) (snd out r).

  Lemma rect_step_out cur st r :
    (r < nx * ny)%nat ->
    rect_cell r (fst (fst (generator_2dspatial_rectangle_step ROps rnd (nx, ny) x_min x_max y_min y_max random cur st))).
  Proof.
    intros Hr. destruct (cell_in_grid r Hr) as [Hq Hm].
    unfold generator_2dspatial_rectangle_step. cbv zeta. destruct st as [xg yg].
    pose proof (s1d_step_out rnd nx x_min x_max random Hrnd Hnx Hx cur xg (r / ny) Hq) as HX.
    destruct (generator_1dspatial_step ROps rnd nx x_min x_max random cur xg) as [[x c1] xg1].
    pose proof (s1d_step_out rnd ny y_min y_max random Hrnd Hny Hy c1 yg (r mod ny) Hm) as HY.
    destruct (generator_1dspatial_step ROps rnd ny y_min y_max random c1 yg) as [[y c2] yg1].
    cbn [fst snd] in *. unfold rect_cell, cart_fst, cart_snd. cbn [fst snd]. split; assumption.
  Qed.

  Lemma rect_all_draws k cur r :
    (r < nx * ny)%nat ->
    rect_cell r (draw (generator_2dspatial_rectangle_step ROps rnd (nx, ny) x_min x_max y_min y_max random) k cur
                      (generator_2dspatial_rectangle_init ROps (nx, ny) x_min x_max y_min y_max random)).
  Proof.
    intros Hr.
    apply (draw_invariant (generator_2dspatial_rectangle_step ROps rnd (nx, ny) x_min x_max y_min y_max random)
             (fun _ => True) (rect_cell r)); auto.
    intros c s _. split; auto. apply rect_step_out, Hr.
  Qed.
End Rect.

Lemma rect_cells_bijective (nx ny : nat) : (1 <= ny)%nat ->
  (forall r, (r < nx * ny)%nat -> (r / ny < nx)%nat /\ (r mod ny < ny)%nat) /\
  (forall r r', (r / ny = r' / ny)%nat -> (r mod ny = r' mod ny)%nat -> r = r').
Proof.
  intros H. split.
  - intros r Hr. split; [apply Nat.div_lt_upper_bound; lia | apply Nat.mod_upper_bound; lia].
  - intros r r' Hd Hm. rewrite (Nat.div_mod r ny), (Nat.div_mod r' ny) by lia. now rewrite Hd, Hm.
Qed.

(* ------------------------------------------------------------------ segment sampler *)
Section Segment.
  Variables (rnd : nat -> nat -> R) (size : nat) (x1 y1 x2 y2 : R) (random : bool).
  Hypothesis Hrnd : unit_draws rnd.
  Hypothesis Hsize : (1 <= size)%nat.

  (* the stratum centres (i + 1/2) / size, however the source spells the linspace end points *)
  Lemma segment_centres i a b :
    (i < size)%nat -> a = 1 / INR size * (1 / 2) -> b - a = (INR size - 1) * (1 / INR size) ->
    linspace ROps a b size i = (INR i + 1 / 2) / INR size.
  Proof.
    intros Hi Ha Hb. assert (Hp : 0 < INR size) by (apply lt_0_INR; lia).
    rewrite (linspace_R a b size i (1 / INR size)) by auto. rewrite Ha. cbn [F ROps]. field. lra.
  Qed.

  Lemma segment_step_out cur st i :
    (i < size)%nat ->
    let out := fst (fst (generator_2dspatial_segment_step ROps rnd size (x1, y1) (x2, y2) random cur st)) in
    segment_stratum x1 y1 x2 y2 size i (fst out i) (snd out i).
  Proof.
    intros Hi. unfold generator_2dspatial_segment_step. cbv zeta.
    assert (Hp : 0 < INR size) by (apply lt_0_INR; lia).
    destruct (Hrnd cur i) as [Hu0 Hu1]. set (u := rnd cur i) in *.
    destruct random; cbn [fst snd]; unfold vmapl, vmap2, vmapr, segment_stratum; r_ops; fold u;
      rewrite (segment_centres i) by (auto; field; lra).
    - exists ((INR i + u) / INR size). repeat split.
      + apply Rmult_le_compat_r; [left; now apply Rinv_0_lt_compat | lra].
      + apply Rmult_le_compat_r; [left; now apply Rinv_0_lt_compat | lra].
      + f_equal. f_equal. field. lra.
      + f_equal. f_equal. field. lra.
    - exists ((INR i + 1 / 2) / INR size). repeat split.
      + apply Rmult_le_compat_r; [left; now apply Rinv_0_lt_compat | lra].
      + apply Rmult_le_compat_r; [left; now apply Rinv_0_lt_compat | lra].
  Qed.

  Lemma segment_all_draws k cur i :
    (i < size)%nat ->
    let out := draw (generator_2dspatial_segment_step ROps rnd size (x1, y1) (x2, y2) random) k cur
                    (generator_2dspatial_segment_init ROps size (x1, y1) (x2, y2) random) in
    segment_stratum x1 y1 x2 y2 size i (fst out i) (snd out i).
  Proof.
    intros Hi.
    apply (draw_invariant (generator_2dspatial_segment_step ROps rnd size (x1, y1) (x2, y2) random) (fun _ => True)
             (fun out => segment_stratum x1 y1 x2 y2 size i (fst out i) (snd out i))); auto.
    intros c s _. split; auto. apply segment_step_out, Hi.
  Qed.
End Segment.

(* a point of the i-th segment stratum lies on the segment, between its end points *)
Lemma segment_stratum_on_segment x1 y1 x2 y2 n i x y :
  (1 <= n)%nat -> (i < n)%nat -> segment_stratum x1 y1 x2 y2 n i x y ->
  exists s, 0 <= s <= 1 /\ x = x1 + (x2 - x1) * s /\ y = y1 + (y2 - y1) * s.
Proof.
  intros Hn Hi [s [[H0 H1] [Hx Hy]]]. exists s. split; [|split; assumption].
  assert (Hp : 0 < INR n) by (apply lt_0_INR; lia).
  assert (Hi' : INR i + 1 <= INR n) by (rewrite <- S_INR; apply le_INR; lia).
  assert (Hi0 : 0 <= INR i) by apply pos_INR.
  split.
  - apply Rle_trans with (INR i / INR n); [|exact H0]. apply Rmult_le_pos; [exact Hi0 | left; now apply Rinv_0_lt_compat].
  - apply Rle_trans with ((INR i + 1) / INR n); [exact H1|].
    apply Rmult_le_reg_r with (INR n); [exact Hp|]. unfold Rdiv. rewrite Rmult_assoc, Rinv_l by lra. lra.
Qed.

(* ------------------------------------------------------------------ non-vacuity *)
Example s1d_premises_satisfiable :
  unit_draws (fun _ _ => 1 / 2) /\ (1 <= 4)%nat /\ -1 <= 3 /\
  draw (generator_1dspatial_step ROps (fun _ _ => 1 / 2) 4 (-1) 3 true) 3 0
       (generator_1dspatial_init ROps 4 (-1) 3 true) 2%nat = 3 / 2.
Proof.
  split; [intros c j; lra|]. split; [lia|]. split; [lra|].
  unfold draw. cbn [run]. unfold generator_1dspatial_step. cbv zeta. cbn [fst].
  unfold vmap2, vmapr, vmapl, linspace. cbn [Nat.eqb]. r_ops. cbn [INR Nat.sub]. field.
Qed.

Example rect_premises_satisfiable :
  rect_cell 2 3 0 1 0 6 4
    (draw (generator_2dspatial_rectangle_step ROps (fun _ _ => 0) (2%nat, 3%nat) 0 1 0 6 true) 5 0
          (generator_2dspatial_rectangle_init ROps (2%nat, 3%nat) 0 1 0 6 true)).
Proof. apply rect_all_draws; try lia; try lra. intros c j; lra. Qed.

Example segment_premises_satisfiable :
  unit_draws (fun _ _ => 3 / 4) /\ (1 <= 1)%nat /\
  fst (draw (generator_2dspatial_segment_step ROps (fun _ _ => 3 / 4) 1 (0, 0) (1, 0) true) 2 0
            (generator_2dspatial_segment_init ROps 1 (0, 0) (1, 0) true)) 0%nat = 3 / 4.
Proof.
  split; [intros c j; lra|]. split; [lia|].
  unfold draw. cbn [run]. unfold generator_2dspatial_segment_step. cbv zeta. cbn [fst snd].
  unfold vmap2, vmapr, vmapl, linspace. cbn [Nat.eqb]. r_ops. cbn [INR]. field.
Qed.
