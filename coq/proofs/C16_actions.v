(* C16: the stateful parts -- repeated-metric counter vs the history predicate, set-once
   actions, the parameter list SetOptimizer builds, and the stop flag in the fit loop. *)
From Coq Require Import ZArith List Bool Lia.
From ND.model Require Import Callbacks.
From ND.proofs Require Import C16_pred.
Import ListNotations.
Open Scope Z_scope.

(* ------------------------------------------------------------------------------------- *)
(* _RepeatedMetricChange: the counter equals the streak of the history, PROVIDED the
   callback has been evaluated exactly once after every append since the history was empty *)

Section Repeated.
  Context {V : Type}.
  Variable rel : V -> V -> bool.

  Lemma so_far_step_streak : forall h x,
    so_far_step rel (Z.of_nat (streak rel h)) (x :: h) = Z.of_nat (streak rel (x :: h)).
  Proof.
    intros h x. destruct h as [|b t]; [reflexivity|].
    cbn [so_far_step]. change (streak rel (x :: b :: t)) with (if rel x b then S (streak rel (b :: t)) else O).
    destruct (rel x b); [|reflexivity]. rewrite Nat2Z.inj_succ. lia.
  Qed.

  Lemma run_counter_streak : forall xs h0,
    run_counter rel (Z.of_nat (streak rel h0)) h0 xs = Z.of_nat (streak rel (rev xs ++ h0)).
  Proof.
    induction xs as [|x r IH]; intros h0; [reflexivity|].
    cbn [run_counter rev]. rewrite so_far_step_streak, IH, <- app_assoc. reflexivity.
  Qed.

  Lemma rep_trace_streak : forall n xs h0,
    rep_trace rel n (Z.of_nat (streak rel h0)) h0 xs =
    map (fun t => n <=? Z.of_nat (streak rel (rev (firstn (S t) xs) ++ h0))) (seq 0 (length xs)).
  Proof.
    intros n. induction xs as [|x r IH]; intros h0; [reflexivity|].
    cbn [rep_trace length]. rewrite so_far_step_streak.
    change (seq 0 (S (length r))) with (O :: seq 1 (length r)).
    rewrite <- seq_shift, map_cons, map_map. f_equal.
    rewrite IH. apply map_ext. intros t.
    change (firstn (S (S t)) (x :: r)) with (x :: firstn (S t) r).
    change (rev (x :: firstn (S t) r)) with (rev (firstn (S t) r) ++ [x]).
    rewrite <- app_assoc. reflexivity.
  Qed.

  (* what `streak >= n` says about the history, element by element *)
  Lemma streak_spec : forall (d : V) h n,
    (n <= streak rel h)%nat <->
    (forall i, (i < n)%nat -> (S i < length h)%nat /\ rel (nth i h d) (nth (S i) h d) = true).
  Proof.
    intros d. induction h as [|a t IH]; intros n.
    - cbn [streak length]. split.
      + intros H i Hi. lia.
      + intros H. destruct n as [|n]; [lia|]. destruct (H O) as [H1 _]; [lia|]. cbn [length] in H1. lia.
    - destruct t as [|b t'].
      + cbn [streak length]. split.
        * intros H i Hi. lia.
        * intros H. destruct n as [|n]; [lia|]. destruct (H O) as [H1 _]; [lia|]. lia.
      + change (streak rel (a :: b :: t')) with (if rel a b then S (streak rel (b :: t')) else O).
        destruct (rel a b) eqn:Eab.
        * split.
          -- intros H i Hi. destruct i as [|i].
             ++ split; [cbn [length]; lia|exact Eab].
             ++ assert (Hn : (Nat.pred n <= streak rel (b :: t'))%nat) by lia.
                destruct (proj1 (IH (Nat.pred n)) Hn i) as [H1 H2]; [lia|].
                split; [cbn [length] in *; lia|exact H2].
          -- intros H. destruct n as [|n]; [lia|].
             assert (Hn : (n <= streak rel (b :: t'))%nat).
             { apply IH. intros i Hi. destruct (H (S i)) as [H1 H2]; [lia|].
               split; [cbn [length] in *; lia|exact H2]. }
             lia.
        * split.
          -- intros H i Hi. lia.
          -- intros H. destruct n as [|n]; [lia|]. destruct (H O) as [_ H2]; [lia|].
             cbn [nth] in H2. congruence.
  Qed.

  (* The theorem: evaluated once per epoch from the first epoch on (history empty when the
     callback was created, counter 0), after the (t+1)-th epoch the callback fires iff the
     latest n consecutive pairs of the history satisfy the relation. *)
  Theorem repeated_spec : forall (d : V) (n : Z) (xs : list V) (t : nat),
    (t < length xs)%nat ->
    let h := rev (firstn (S t) xs) in
    nth t (rep_trace rel n 0 [] xs) false = true <->
    (forall i : nat, Z.of_nat i < n -> (S i < length h)%nat /\ rel (nth i h d) (nth (S i) h d) = true).
  Proof.
    intros d n xs t Ht h.
    change 0 with (Z.of_nat (streak rel (@nil V))). rewrite rep_trace_streak.
    match goal with |- context [map ?g (seq 0 (length xs))] => set (f := g) end.
    rewrite (nth_indep (map f (seq 0 (length xs))) false (f O))
      by (rewrite map_length, seq_length; exact Ht).
    rewrite map_nth, seq_nth by exact Ht. subst f. cbn beta. cbn [plus]. rewrite app_nil_r. fold h.
    rewrite Z.leb_le. split.
    - intros H i Hi. apply (proj1 (streak_spec d h (Z.to_nat n))); lia.
    - intros H. assert (Hs : (Z.to_nat n <= streak rel h)%nat).
      { apply (streak_spec d). intros i Hi. apply H. lia. }
      lia.
  Qed.

  (* the final counter, same hypothesis *)
  Corollary counter_is_streak : forall xs, run_counter rel 0 [] xs = Z.of_nat (streak rel (rev xs)).
  Proof.
    intros xs. change 0 with (Z.of_nat (streak rel (@nil V))). rewrite run_counter_streak, app_nil_r. reflexivity.
  Qed.
End Repeated.

(* RepeatedMetricBelow / Above: the relation ignores the second-to-last value but the code
   still demands two history entries, so what they compute is the streak of VALUES capped at
   length - 1 (the oldest entry of the history is never counted). *)
Lemma below_above_actual : forall {V : Type} (f : V -> bool) (h : list V),
  streak (fun last _ => f last) h = Nat.min (streak1 f h) (Nat.pred (length h)).
Proof.
  intros V f. induction h as [|a t IH]; [reflexivity|].
  destruct t as [|b t'].
  - cbn [streak streak1 length Nat.pred]. destruct (f a); reflexivity.
  - change (streak (fun last _ => f last) (a :: b :: t'))
      with (if f a then S (streak (fun last _ => f last) (b :: t')) else O).
    change (streak1 f (a :: b :: t')) with (if f a then S (streak1 f (b :: t')) else O).
    destruct (f a); [|reflexivity]. rewrite IH.
    change (Nat.pred (length (a :: b :: t'))) with (S (length t')).
    change (Nat.pred (length (b :: t'))) with (length t').
    rewrite <- Nat.succ_min_distr. reflexivity.
Qed.

(* growing histories, as fit() produces them: one append per epoch *)
Fixpoint growing {V : Type} (h0 : list V) (xs : list V) : list (list V) :=
  match xs with
  | [] => []
  | x :: r => (x :: h0) :: growing (x :: h0) r
  end.

(* the AST leaf run on a sequence of solver views is rep_trace on the histories seen *)
Lemma run_pred_repeated : forall k tr n xs h0 s vs,
  map (hist_of tr) vs = growing h0 xs ->
  fst (run_pred (PRepeated k tr n s) vs) = rep_trace (rel_of k) n s h0 xs.
Proof.
  intros k tr n. induction xs as [|x r IH]; intros h0 s vs E.
  - destruct vs; [reflexivity|discriminate E].
  - destruct vs as [|v vr]; [discriminate E|]. cbn [map growing] in E. injection E as E1 E2.
    cbn [run_pred step rep_trace]. rewrite E1.
    specialize (IH (x :: h0) (so_far_step (rel_of k) s (x :: h0)) vr E2).
    destruct (run_pred _ vr) as [bs p'']. cbn [fst] in *. rewrite IH. reflexivity.
Qed.

Theorem repeated_callback_spec : forall k tr n xs vs t,
  map (hist_of tr) vs = growing [] xs -> (t < length xs)%nat ->
  let h := rev (firstn (S t) xs) in
  nth t (fst (run_pred (repeated k tr n) vs)) false = true <->
  (forall i : nat, Z.of_nat i < n -> (S i < length h)%nat /\ rel_of k (nth i h 0) (nth (S i) h 0) = true).
Proof.
  intros k tr n xs vs t E Ht. unfold repeated. rewrite (run_pred_repeated k tr n xs [] 0 vs E).
  apply repeated_spec. exact Ht.
Qed.

Example repeated_nonvacuous :
  rep_trace (rel_of (RUp 0)) 2 0 [] [1; 2; 3; 0; 1; 2; 3] = [false; false; true; false; false; true; true].
Proof. reflexivity. Qed.

(* ------------------------------------------------------------------------------------- *)
(* SetLossFn / SetOptimizer: effect at the first firing only; at every firing with reset  *)

Lemma set_trace_gen : forall reset fires called t,
  nth t (set_trace reset called fires) false =
  nth t fires false && (reset || negb (called || existsb (fun b : bool => b) (firstn t fires))).
Proof.
  intros reset. induction fires as [|f r IH]; intros called t.
  - destruct t; reflexivity.
  - destruct t as [|t].
    + cbn [set_trace firstn existsb nth]. rewrite orb_false_r. destruct f; [|reflexivity].
      unfold set_once. destruct (reset || negb called); reflexivity.
    + cbn [firstn existsb]. destruct f.
      * cbn [set_trace]. unfold set_once. destruct (reset || negb called) eqn:E.
        -- cbn [nth]. rewrite IH. cbn [orb]. rewrite orb_true_r. reflexivity.
        -- cbn [nth]. rewrite IH. apply orb_false_iff in E. destruct E as [E1 E2].
           apply negb_false_iff in E2. subst. reflexivity.
      * cbn [set_trace nth]. rewrite IH. cbn [orb]. reflexivity.
Qed.

Theorem set_once_spec : forall reset fires t,
  nth t (set_trace reset false fires) false =
  nth t fires false && (reset || negb (existsb (fun b : bool => b) (firstn t fires))).
Proof. intros reset fires t. rewrite set_trace_gen. reflexivity. Qed.

Example set_once_nonvacuous :
  set_trace false false [false; true; false; true; true] = [false; true; false; false; false] /\
  set_trace true false [false; true; false; true; true] = [false; true; false; true; true].
Proof. split; reflexivity. Qed.

(* ------------------------------------------------------------------------------------- *)
(* SetOptimizer(<class>): the list handed to the optimiser                                *)

Lemma opt_params_complete : forall {P : Type} (nets : list (list P)) (p : P),
  In p (opt_params nets) <-> exists net, In net nets /\ In p net.
Proof.
  intros P nets p. unfold opt_params. rewrite in_concat. split; intros [net [H1 H2]]; exists net; tauto.
Qed.

(* how often a parameter is handed over (= how often torch steps it per optimiser step) *)
Lemma opt_params_count : forall {P : Type} (dec : forall x y : P, {x = y} + {x <> y}) (nets : list (list P)) (p : P),
  count_occ dec (opt_params nets) p = fold_right (fun net acc => (count_occ dec net p + acc)%nat) O nets.
Proof.
  intros P dec nets p. unfold opt_params. induction nets as [|n r IH]; [reflexivity|].
  cbn [concat fold_right]. rewrite count_occ_app, IH. reflexivity.
Qed.

(* Full-strength statement (REFUTED on the unchanged tree, findings/F_C16_optimizer.v):
     forall nets, NoDup (opt_params nets)   given only that each net's own list is NoDup.
   Restricted theorem: when the nets do not share parameters. *)
Theorem optimizer_params_nodup_partial : forall {P : Type} (nets : list (list P)),
  NoDup (concat nets) ->
  NoDup (opt_params nets) /\ (forall p, In p (opt_params nets) <-> exists net, In net nets /\ In p net).
Proof. intros P nets H. split; [exact H|]. intros p. apply opt_params_complete. Qed.

(* the hypothesis in terms of the nets: each net duplicate-free and the nets pairwise disjoint *)
Lemma nodup_concat : forall {P : Type} (nets : list (list P)),
  Forall (@NoDup P) nets ->
  (forall i j a b p, (i < j)%nat -> nth_error nets i = Some a -> nth_error nets j = Some b -> In p a -> ~ In p b) ->
  NoDup (concat nets).
Proof.
  intros P. induction nets as [|n r IH]; intros HF HD; [constructor|].
  cbn [concat]. inversion HF as [|? ? Hn Hr]; subst.
  assert (Hrest : NoDup (concat r)).
  { apply IH; [exact Hr|]. intros i j a b p Hij Ha Hb. apply (HD (S i) (S j) a b p); [lia|exact Ha|exact Hb]. }
  clear IH HF. induction n as [|x n' IHn]; [exact Hrest|].
  cbn [app]. inversion Hn as [|? ? Hx Hn']; subst. constructor.
  - rewrite in_app_iff. intros [H|H]; [contradiction|].
    apply in_concat in H. destruct H as [b [Hb Hp]]. apply In_nth_error in Hb. destruct Hb as [j Hj].
    apply (HD O (S j) (x :: n') b x); [lia|reflexivity|exact Hj|left; reflexivity|exact Hp].
  - apply IHn; [|exact Hn'].
    intros i j a b p Hij Ha Hb Hin. destruct i as [|i].
    + cbn [nth_error] in Ha. injection Ha as Ha. subst a.
      apply (HD O j (x :: n') b p); [exact Hij|reflexivity| |right; exact Hin].
      destruct j; [lia|exact Hb].
    + destruct j as [|j]; [lia|]. apply (HD (S i) (S j) a b p); [exact Hij|exact Ha|exact Hb|exact Hin].
Qed.

Example optimizer_params_nonvacuous : NoDup (opt_params [[1; 2]; [3; 4]]).
Proof. unfold opt_params. cbn [concat app]. repeat (apply NoDup_cons; [cbn [In]; lia|]). apply NoDup_nil. Qed.

(* ------------------------------------------------------------------------------------- *)
(* The stop flag and the fit loop                                                         *)

Definition is_stop (a : action) : bool := match a with AStop => true | _ => false end.
Definition is_stop_at (acts : list action) (j : nat) : bool :=
  match nth_error acts j with Some a => is_stop a | None => false end.

Lemma run_action_inv : forall a called s s' c',
  run_action a called s = (s', c') ->
  s_local s' = s_local s /\ s_global s' = s_global s /\ s_max s' = s_max s /\
  s_train s' = s_train s /\ s_valid s' = s_valid s /\
  s_stop s' = s_stop s || is_stop a.
Proof.
  intros a called s s' c' E. destruct a; cbn [run_action is_stop] in *.
  - injection E as E1 E2. subst. rewrite orb_false_r. repeat split.
  - injection E as E1 E2. subst. cbn. rewrite orb_true_r. repeat split.
  - destruct (set_once reset called) as [eff c]. injection E as E1 E2. subst.
    rewrite orb_false_r. destruct eff; repeat split.
  - destruct (set_once reset called) as [eff c]. injection E as E1 E2. subst.
    rewrite orb_false_r. destruct eff; repeat split.
  - destruct (set_once reset called) as [eff c]. injection E as E1 E2. subst.
    rewrite orb_false_r. destruct eff; repeat split.
Qed.

Lemma run_cb_inv : forall s c s' c' fired,
  run_cb s c = (s', c', fired) ->
  c_act c' = c_act c /\
  s_local s' = s_local s /\ s_global s' = s_global s /\ s_max s' = s_max s /\
  s_train s' = s_train s /\ s_valid s' = s_valid s /\
  s_stop s' = s_stop s || (fired && is_stop (c_act c)) /\
  fired = cond (view_of s) (c_pred c).
Proof.
  intros s c s' c' fired E. unfold run_cb, cond in *.
  destruct (step (view_of s) (c_pred c)) as [b p']. cbn [fst]. destruct b.
  - destruct (run_action (c_act c) (c_called c) s) as [s1 called'] eqn:EA.
    injection E as E1 E2 E3. subst.
    destruct (run_action_inv _ _ _ _ _ EA) as (H1 & H2 & H3 & H4 & H5 & H6).
    cbn [c_act andb]. repeat split; assumption.
  - injection E as E1 E2 E3. subst. cbn [c_act andb]. rewrite orb_false_r. repeat split.
Qed.

Lemma existsb_ext_fun : forall {A : Type} (f g : A -> bool) (l : list A),
  (forall a, f a = g a) -> existsb f l = existsb g l.
Proof. intros A f g l H. induction l as [|a r IH]; [reflexivity|]. cbn [existsb]. rewrite H, IH. reflexivity. Qed.

Lemma existsb_shift : forall (acts : list action) a idx fs,
  Forall (fun j => (S idx <= j)%nat) fs ->
  existsb (fun j => is_stop_at (a :: acts) (j - idx)) fs = existsb (fun j => is_stop_at acts (j - S idx)) fs.
Proof.
  intros acts a idx fs HF. induction HF as [|j r Hj _ IH]; [reflexivity|].
  cbn [existsb]. rewrite IH. f_equal. unfold is_stop_at.
  replace (j - idx)%nat with (S (j - S idx)) by lia. reflexivity.
Qed.

Lemma run_cbs_inv : forall cbs s mask idx s' cbs' fs,
  run_cbs s cbs mask idx = (s', cbs', fs) ->
  map c_act cbs' = map c_act cbs /\
  s_local s' = s_local s /\ s_global s' = s_global s /\ s_max s' = s_max s /\
  s_train s' = s_train s /\ s_valid s' = s_valid s /\
  Forall (fun j => (idx <= j)%nat) fs /\
  s_stop s' = s_stop s || existsb (fun j => is_stop_at (map c_act cbs) (j - idx)) fs.
Proof.
  induction cbs as [|c r IH]; intros s mask idx s' cbs' fs E.
  - cbn [run_cbs] in E. injection E as E1 E2 E3. subst. cbn [existsb]. rewrite orb_false_r.
    repeat split. constructor.
  - cbn [run_cbs] in E.
    assert (Skip : forall mr, (let '(s2, r', fs0) := run_cbs s r mr (S idx) in (s2, c :: r', fs0)) = (s', cbs', fs) ->
      map c_act cbs' = map c_act (c :: r) /\
      s_local s' = s_local s /\ s_global s' = s_global s /\ s_max s' = s_max s /\
      s_train s' = s_train s /\ s_valid s' = s_valid s /\
      Forall (fun j => (idx <= j)%nat) fs /\
      s_stop s' = s_stop s || existsb (fun j => is_stop_at (map c_act (c :: r)) (j - idx)) fs).
    { intros mr E'. destruct (run_cbs s r mr (S idx)) as [[s2 r'] fs0] eqn:ER.
      injection E' as E1 E2 E3. subst.
      destruct (IH _ _ _ _ _ _ ER) as (H1 & H2 & H3 & H4 & H5 & H6 & H7 & H8).
      cbn [map]. rewrite existsb_shift by exact H7. rewrite H1.
      repeat split; try assumption.
      eapply Forall_impl; [|exact H7]. intros j Hj. cbn beta in Hj. lia. }
    destruct mask as [|m mr]; [apply (Skip [] E)|].
    destruct m; [|apply (Skip mr E)].
    destruct (run_cb s c) as [[s1 c'] fired] eqn:EC.
    destruct (run_cbs s1 r mr (S idx)) as [[s2 r'] fs0] eqn:ER.
    injection E as E1 E2 E3. subst.
    destruct (run_cb_inv _ _ _ _ _ EC) as (A0 & A1 & A2 & A3 & A4 & A5 & A6 & _).
    destruct (IH _ _ _ _ _ _ ER) as (H1 & H2 & H3 & H4 & H5 & H6 & H7 & H8).
    assert (H7' : Forall (fun j => (idx <= j)%nat) fs0).
    { eapply Forall_impl; [|exact H7]. intros j Hj. cbn beta in Hj. lia. }
    cbn [map]. rewrite H1, A0.
    repeat split; try congruence.
    + destruct fired; [constructor; [lia|exact H7']|exact H7'].
    + rewrite H8, A6. destruct fired; cbn [andb].
      * cbn [existsb]. rewrite existsb_shift by exact H7.
        unfold is_stop_at at 2. rewrite Nat.sub_diag. cbn [nth_error]. rewrite orb_assoc. reflexivity.
      * rewrite existsb_shift by exact H7. rewrite orb_false_r. reflexivity.
Qed.

(* Everything the fit loop does with the stop flag, for every callback table, feed, mask,
   starting state and epoch budget. *)
Lemma fit_loop_spec : forall feed von mask fuel e s cbs s' cbs' recs,
  fit_loop feed von mask fuel e s cbs = (s', cbs', recs) ->
  map c_act cbs' = map c_act cbs /\
  (length recs <= fuel)%nat /\
  (s_stop s = true -> recs = []) /\
  (s_stop s = false -> (0 < fuel)%nat -> recs <> []) /\
  (forall i r, nth_error recs i = Some r ->
     e_local r = e + Z.of_nat i /\ e_max r = s_max s /\ e_global r = s_global s + 1 + Z.of_nat i /\
     e_stop r = existsb (is_stop_at (map c_act cbs)) (e_fired r) /\
     (e_stop r = true -> S i = length recs) /\
     (e_stop r = false -> (S i < fuel)%nat -> (S i < length recs)%nat)).
Proof.
  intros feed von mask. induction fuel as [|k IH]; intros e s cbs s' cbs' recs E.
  - cbn [fit_loop] in E. injection E as E1 E2 E3. subst.
    split; [reflexivity|]. split; [cbn [length]; lia|]. split; [reflexivity|]. split; [lia|].
    intros i r Hr. destruct i; discriminate Hr.
  - cbn [fit_loop] in E. destruct (s_stop s) eqn:Estop.
    + injection E as E1 E2 E3. subst.
      split; [reflexivity|]. split; [cbn [length]; lia|]. split; [reflexivity|]. split; [discriminate|].
      intros i r Hr. destruct i; discriminate Hr.
    + destruct (run_cbs (run_epoch feed von e s) cbs mask 0) as [[s2 cbs2] fired] eqn:EC.
      destruct (fit_loop feed von mask k (e + 1) s2 cbs2) as [[s3 cbs3] recs'] eqn:EF.
      injection E as E1 E2 E3. subst.
      destruct (run_cbs_inv _ _ _ _ _ _ _ EC) as (C1 & C2 & C3 & C4 & C5 & C6 & C7 & C8).
      destruct (IH _ _ _ _ _ _ EF) as (F1 & F2 & F3 & F4 & F5).
      assert (R1 : s_local (run_epoch feed von e s) = e /\ s_global (run_epoch feed von e s) = s_global s + 1 /\
                   s_max (run_epoch feed von e s) = s_max s /\ s_stop (run_epoch feed von e s) = false).
      { unfold run_epoch. destruct (feed (s_global s)) as [x y]. cbn. rewrite Estop. repeat split. }
      destruct R1 as (R1 & R2 & R3 & R4).
      split; [congruence|]. split; [cbn [length]; lia|]. split; [discriminate|]. split; [discriminate|].
      intros i r Hr. destruct i as [|i].
      * cbn [nth_error] in Hr. injection Hr as Hr. subst r. cbn [e_local e_max e_global e_stop e_fired].
        assert (Hstop : s_stop s2 = existsb (is_stop_at (map c_act cbs)) fired).
        { rewrite C8, R4. cbn [orb]. apply existsb_ext_fun. intros j. rewrite Nat.sub_0_r. reflexivity. }
        repeat split; try lia; try congruence.
        -- intros Hs. rewrite (F3 Hs). reflexivity.
        -- intros Hs Hk. cbn [length]. destruct k as [|k']; [lia|].
           assert (recs' <> []) by (apply F4; [exact Hs|lia]). destruct recs'; [contradiction|cbn [length]; lia].
      * cbn [nth_error] in Hr. destruct (F5 i r Hr) as (G1 & G2 & G3 & G4 & G5 & G6).
        rewrite C1 in G4. cbn [length].
        repeat split; try lia; try congruence.
        -- intros Hs. rewrite (G5 Hs). reflexivity.
        -- intros Hs Hk. apply G6 in Hs; lia.
Qed.

(* stop_spec: one fit(max_epochs) call.  The epochs run are local epochs 1, 2, ..., K with
   K <= max_epochs; the stop flag at the end of an epoch is true iff a StopCallback's action ran
   in that epoch; an epoch that ended with the flag set is the last one; an epoch that ended
   with the flag clear and is not the max_epochs-th is followed by another one. *)
Theorem stop_spec : forall feed von max_epochs mask s cbs s' cbs' recs,
  fit feed von max_epochs mask s cbs = (s', cbs', recs) ->
  Z.of_nat (length recs) <= Z.max 0 max_epochs /\
  (0 < max_epochs -> recs <> []) /\
  (forall i r, nth_error recs i = Some r ->
     e_local r = Z.of_nat (S i) /\ e_max r = max_epochs /\ e_global r = s_global s + Z.of_nat (S i) /\
     (e_stop r = true <-> exists j a, In j (e_fired r) /\ nth_error (map c_act cbs) j = Some a /\ a = AStop) /\
     (e_stop r = true -> S i = length recs) /\
     (e_stop r = false -> Z.of_nat (S i) < max_epochs -> (S i < length recs)%nat)).
Proof.
  intros feed von max_epochs mask s cbs s' cbs' recs E. unfold fit in E.
  destruct (fit_loop_spec _ _ _ _ _ _ _ _ _ _ E) as (F1 & F2 & F3 & F4 & F5).
  split; [lia|]. split.
  - intros Hm. apply F4; [reflexivity|lia].
  - intros i r Hr. destruct (F5 i r Hr) as (G1 & G2 & G3 & G4 & G5 & G6).
    cbn [set_max set_stop s_max s_global] in G2, G3.
    repeat split; try lia; try assumption.
    + intros Hs. rewrite G4 in Hs. apply existsb_exists in Hs. destruct Hs as [j [Hj Hst]].
      unfold is_stop_at in Hst. destruct (nth_error (map c_act cbs) j) as [a|] eqn:Ea; [|discriminate].
      exists j, a. repeat split; try assumption. destruct a; try discriminate; reflexivity.
    + intros [j [a [Hj [Ha Hst]]]]. rewrite G4. apply existsb_exists. exists j. split; [exact Hj|].
      unfold is_stop_at. rewrite Ha. subst a. reflexivity.
    + intros Hs Hlt. apply G6; [exact Hs|lia].
Qed.

(* non-vacuity: a stop conditioned on PeriodLocal(3) ends fit(6) after epoch 3, later
   callbacks of the same epoch still run *)
Example stop_nonvacuous :
  let cbs := [mkCb (period_local 3 0) AStop false; mkCb PTrue ARecord false] in
  match fit (fun _ => (0, 0)) true 6 [true; true] (init_sst 0 0) cbs with
  | (_, _, recs) => map (fun r => (e_local r, e_fired r, e_stop r)) recs
  end = [(1, [1%nat], false); (2, [1%nat], false); (3, [0%nat; 1%nat], true)].
Proof. reflexivity. Qed.
