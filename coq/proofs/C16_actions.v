(* C16: the stateful parts -- repeated-metric counter vs the history predicate, set-once
   actions, the parameter list SetOptimizer builds, and the stop flag in the fit loop. *)
From Coq Require Import String ZArith List Bool Lia.
From ND.model Require Import Callbacks.
From ND.proofs Require Import C16_pred.
Import ListNotations.
Open Scope Z_scope.

(* ------------------------------------------------------------------------------------- *)
(* _RepeatedMetricChange (repaired): so_far is computed from the history itself, so the value
   of condition() is a function of the history alone -- whenever the callback was created,
   however often and at which epochs it was evaluated before. *)

Section Repeated.
  Context {V : Type}.

  Lemma streak_cap_min : forall (rel : V -> V -> bool) cap h, streak_cap rel cap h = Nat.min cap (streak rel h).
  Proof.
    intros rel. induction cap as [|c IH]; intros h; [reflexivity|].
    destruct h as [|a t]; [reflexivity|]. destruct t as [|b t']; [reflexivity|].
    change (streak_cap rel (S c) (a :: b :: t')) with (if rel a b then S (streak_cap rel c (b :: t')) else O).
    change (streak rel (a :: b :: t')) with (if rel a b then S (streak rel (b :: t')) else O).
    destruct (rel a b); [|reflexivity]. rewrite IH, <- Nat.succ_min_distr. reflexivity.
  Qed.

  Lemma streak1_cap_min : forall (f : V -> bool) cap h, streak1_cap f cap h = Nat.min cap (streak1 f h).
  Proof.
    intros f. induction cap as [|c IH]; intros h; [reflexivity|].
    destruct h as [|a t]; [reflexivity|].
    change (streak1_cap f (S c) (a :: t)) with (if f a then S (streak1_cap f c t) else O).
    change (streak1 f (a :: t)) with (if f a then S (streak1 f t) else O).
    destruct (f a); [|reflexivity]. rewrite IH, <- Nat.succ_min_distr. reflexivity.
  Qed.

  (* what `streak >= n` says about the history, element by element *)
  Lemma streak_spec : forall (rel : V -> V -> bool) (d : V) h n,
    (n <= streak rel h)%nat <->
    (forall i, (i < n)%nat -> (S i < length h)%nat /\ rel (nth i h d) (nth (S i) h d) = true).
  Proof.
    intros rel d. induction h as [|a t IH]; intros n.
    - cbn [streak length]. split.
      + intros H i Hi. lia.
      + intros H. destruct n as [|n]; [lia|]. destruct (H O) as [H1 _]; [lia|]. cbn [length] in H1. lia.
    - destruct t as [|b t'].
      + cbn [streak length]. split.
        * intros H i Hi. lia.
        * intros H. destruct n as [|n]; [lia|]. destruct (H O) as [H1 _]; [lia|]. lia.
      + change (streak rel (a :: b :: t')) with (if rel a b then S (streak rel (b :: t')) else O).
        destruct (rel a b) eqn:Eab.
        * split.
          -- intros H i Hi. destruct i as [|i].
             ++ split; [cbn [length]; lia|exact Eab].
             ++ assert (Hn : (Nat.pred n <= streak rel (b :: t'))%nat) by lia.
                destruct (proj1 (IH (Nat.pred n)) Hn i) as [H1 H2]; [lia|].
                split; [cbn [length] in *; lia|exact H2].
          -- intros H. destruct n as [|n]; [lia|].
             assert (Hn : (n <= streak rel (b :: t'))%nat).
             { apply IH. intros i Hi. destruct (H (S i)) as [H1 H2]; [lia|].
               split; [cbn [length] in *; lia|exact H2]. }
             lia.
        * split.
          -- intros H i Hi. lia.
          -- intros H. destruct n as [|n]; [lia|]. destruct (H O) as [_ H2]; [lia|].
             cbn [nth] in H2. congruence.
  Qed.

  Lemma streak1_spec : forall (f : V -> bool) (d : V) h n,
    (n <= streak1 f h)%nat <-> (forall i, (i < n)%nat -> (i < length h)%nat /\ f (nth i h d) = true).
  Proof.
    intros f d. induction h as [|a t IH]; intros n.
    - cbn [streak1 length]. split.
      + intros H i Hi. lia.
      + intros H. destruct n as [|n]; [lia|]. destruct (H O) as [H1 _]; lia.
    - cbn [streak1]. destruct (f a) eqn:Ea.
      + split.
        * intros H i Hi. destruct i as [|i].
          -- split; [cbn [length]; lia|exact Ea].
          -- assert (Hn : (Nat.pred n <= streak1 f t)%nat) by lia.
             destruct (proj1 (IH (Nat.pred n)) Hn i) as [H1 H2]; [lia|].
             split; [cbn [length]; lia|exact H2].
        * intros H. destruct n as [|n]; [lia|].
          assert (Hn : (n <= streak1 f t)%nat).
          { apply IH. intros i Hi. destruct (H (S i)) as [H1 H2]; [lia|].
            split; [cbn [length] in H1; lia|exact H2]. }
          lia.
      + split.
        * intros H i Hi. lia.
        * intros H. destruct n as [|n]; [lia|]. destruct (H O) as [_ H2]; [lia|].
          cbn [nth] in H2. congruence.
  Qed.
End Repeated.

Lemma streak_cap_spec : forall {V : Type} (rel : V -> V -> bool) (d : V) (cap n : nat) (h : list V),
  (n <= cap)%nat ->
  ((n <= streak_cap rel cap h)%nat <->
   (forall i, (i < n)%nat -> (S i < length h)%nat /\ rel (nth i h d) (nth (S i) h d) = true)).
Proof.
  intros V rel d cap n h Hn. rewrite streak_cap_min, <- (streak_spec rel d h n).
  split; intros H; [apply Nat.min_glb_r in H; exact H|apply Nat.min_glb; assumption].
Qed.

(* the cached so_far decides exactly like the documented count *)
Lemma leaf_fires : forall k n h, (n <=? leaf_count k n h) = (n <=? Z.of_nat (doc_count k h)).
Proof.
  intros k n h. unfold leaf_count, doc_count. destruct (pairwise_of k).
  - rewrite streak_cap_min. destruct (Z.leb_spec n (Z.of_nat (streak (rel_of k) h))) as [H|H].
    + apply Z.leb_le. lia.
    + apply Z.leb_gt. lia.
  - rewrite streak1_cap_min. destruct (Z.leb_spec n (Z.of_nat (streak1 (val_of k) h))) as [H|H].
    + apply Z.leb_le. lia.
    + apply Z.leb_gt. lia.
Qed.

(* repeated_spec, FULL strength: for every history, every cached state, whenever evaluated, for
   the loss and for every custom metric name whose series the lookup finds (h) *)
Theorem repeated_spec : forall k tr mt n s v h,
  pairwise_of k = true -> hist_of tr mt v = Some h ->
  cond v (PRepeated k tr mt n s) = true <->
  (forall i : nat, Z.of_nat i < n -> (S i < List.length h)%nat /\ rel_of k (nth i h 0) (nth (S i) h 0) = true).
Proof.
  intros k tr mt n s v h Hp Hh. unfold cond. cbn [step fst]. unfold hist_or_nil. rewrite Hh, leaf_fires.
  unfold doc_count. rewrite Hp, Z.leb_le. split.
  - intros H i Hi. apply (proj1 (streak_spec (rel_of k) 0 h (Z.to_nat n))); lia.
  - intros H. assert (Hs : (Z.to_nat n <= streak (rel_of k) h)%nat).
    { apply (streak_spec (rel_of k) 0). intros i Hi. apply H. lia. }
    lia.
Qed.

(* RepeatedMetricBelow / Above: the documented "on the required side for the latest n epochs" *)
Theorem below_above_spec : forall k tr mt n s v h,
  pairwise_of k = false -> hist_of tr mt v = Some h ->
  cond v (PRepeated k tr mt n s) = true <->
  (forall i : nat, Z.of_nat i < n -> (i < List.length h)%nat /\ val_of k (nth i h 0) = true).
Proof.
  intros k tr mt n s v h Hp Hh. unfold cond. cbn [step fst]. unfold hist_or_nil. rewrite Hh, leaf_fires.
  unfold doc_count. rewrite Hp, Z.leb_le. split.
  - intros H i Hi. apply (proj1 (streak1_spec (val_of k) 0 h (Z.to_nat n))); lia.
  - intros H. assert (Hs : (Z.to_nat n <= streak1 (val_of k) h)%nat).
    { apply (streak1_spec (val_of k) 0). intros i Hi. apply H. lia. }
    lia.
Qed.

(* ---- which series is read: the one the solver records for that metric in that phase ------ *)

Lemma partition_train : forall m, partition_us (String.append "train_" m) = ("train"%string, m).
Proof. intros m. reflexivity. Qed.
Lemma partition_valid : forall m, partition_us (String.append "valid_" m) = ("valid"%string, m).
Proof. intros m. reflexivity. Qed.

Lemma lookup_key_spec : forall d tr m,
  lookup_key d (callback_key tr m) = if dict_has d (callback_key tr m) then callback_key tr m else solver_key tr m.
Proof.
  intros d tr m. unfold lookup_key. destruct (dict_has d (callback_key tr m)); [reflexivity|].
  destruct tr; reflexivity.
Qed.

(* the loss: always the solver's '<phase>_loss' series *)
Theorem metric_loss_spec : forall v tr, hist_of tr "loss" v = Some (if tr then v_train v else v_valid v).
Proof. intros v tr. destruct tr; reflexivity. Qed.

(* a custom metric: the solver's '<phase>__<name>' series, provided no recorded key is literally
   '<phase>_<name>' (only possible for the name "loss" or a name "_x" beside a metric "x") *)
Theorem metric_custom_spec : forall v tr m,
  dict_has (store_of v) (callback_key tr m) = false ->
  hist_of tr m v = dict_get (store_of v) (solver_key tr m).
Proof.
  intros v tr m H. unfold hist_of, metric_history. rewrite lookup_key_spec, H. reflexivity.
Qed.

(* the solver's series of a recorded custom metric (first entry with that name) *)
Lemma custom_store_get : forall c tr m,
  (forall k, In k (map fst c) -> String.eqb (solver_key (negb tr) k) (solver_key tr m) = false) ->
  dict_get (custom_store c) (solver_key tr m) =
  match find (fun e => String.eqb (fst e) m) c with
  | Some (_, (t, va)) => Some (if tr then t else va)
  | None => None
  end.
Proof.
  induction c as [|[k [t va]] r IH]; intros tr m Hx; [reflexivity|].
  cbn [custom_store dict_get find fst].
  assert (Hk : forall b, String.eqb (solver_key b k) (solver_key b m) = String.eqb k m).
  { intros b. unfold solver_key. destruct b; cbn; reflexivity. }
  assert (Hneg : String.eqb (solver_key (negb tr) k) (solver_key tr m) = false) by (apply Hx; left; reflexivity).
  destruct tr; cbn [negb] in Hneg.
  - rewrite Hk. destruct (String.eqb k m); [reflexivity|]. rewrite Hneg. apply IH. intros k' Hk'. apply Hx. right. exact Hk'.
  - rewrite Hneg, Hk. destruct (String.eqb k m); [reflexivity|]. apply IH. intros k' Hk'. apply Hx. right. exact Hk'.
Qed.

Lemma phases_differ : forall tr k m, String.eqb (solver_key (negb tr) k) (solver_key tr m) = false.
Proof. intros tr k m. destruct tr; reflexivity. Qed.

Theorem metric_recorded_spec : forall v tr m t va,
  dict_has (store_of v) (callback_key tr m) = false ->
  find (fun e => String.eqb (fst e) m) (v_custom v) = Some (m, (t, va)) ->
  hist_of tr m v = Some (if tr then t else va).
Proof.
  intros v tr m t va H Hf. rewrite (metric_custom_spec v tr m H). unfold store_of. cbn [dict_get].
  assert (E1 : String.eqb "train_loss" (solver_key tr m) = false) by (destruct tr; reflexivity).
  assert (E2 : String.eqb "valid_loss" (solver_key tr m) = false) by (destruct tr; reflexivity).
  rewrite E1, E2, custom_store_get by (intros; apply phases_differ). rewrite Hf. reflexivity.
Qed.

Example custom_metric_nonvacuous :
  let v := mkView 2 2 2 [5; 5] [5; 5] [("mymetric"%string, ([3; 1], [0; 2]))] in
  hist_of true "mymetric" v = Some [3; 1] /\ hist_of false "mymetric" v = Some [0; 2] /\
  cond v (repeated_m (RUp 0) true "mymetric" 1) = true /\ cond v (repeated_m (RUp 0) false "mymetric" 1) = false /\
  hist_of true "other" v = None.
Proof. cbv zeta. repeat split. Qed.

Lemma val_of_spec : forall t x, val_of (RBelow t) x = (x <? t) /\ val_of (RAbove t) x = (t <? x).
Proof. intros t x. split; reflexivity. Qed.

Example repeated_nonvacuous :
  fst (run_pred (repeated (RUp 0) true 2)
         [mkView 1 1 2 [3; 2; 1] [] []; mkView 2 2 2 [0; 3; 2; 1] [] []; mkView 1 3 1 [2; 1; 0; 3; 2; 1] [] []]) = [true; false; true]
  /\ cond (mkView 1 1 1 [0] [] []) (repeated (RBelow 1) true 1) = true.
Proof. split; reflexivity. Qed.

(* ------------------------------------------------------------------------------------- *)
(* SetLossFn / SetOptimizer: effect at the first firing only; at every firing with reset  *)

Lemma set_trace_gen : forall reset fires called t,
  nth t (set_trace reset called fires) false =
  nth t fires false && (reset || negb (called || existsb (fun b : bool => b) (firstn t fires))).
Proof.
  intros reset. induction fires as [|f r IH]; intros called t.
  - destruct t; reflexivity.
  - destruct t as [|t].
    + cbn [set_trace firstn existsb nth]. rewrite orb_false_r. destruct f; [|reflexivity].
      unfold set_once. destruct (reset || negb called); reflexivity.
    + cbn [firstn existsb]. destruct f.
      * cbn [set_trace]. unfold set_once. destruct (reset || negb called) eqn:E.
        -- cbn [nth]. rewrite IH. cbn [orb]. rewrite orb_true_r. reflexivity.
        -- cbn [nth]. rewrite IH. apply orb_false_iff in E. destruct E as [E1 E2].
           apply negb_false_iff in E2. subst. reflexivity.
      * cbn [set_trace nth]. rewrite IH. cbn [orb]. reflexivity.
Qed.

Theorem set_once_spec : forall reset fires t,
  nth t (set_trace reset false fires) false =
  nth t fires false && (reset || negb (existsb (fun b : bool => b) (firstn t fires))).
Proof. intros reset fires t. rewrite set_trace_gen. reflexivity. Qed.

Example set_once_nonvacuous :
  set_trace false false [false; true; false; true; true] = [false; true; false; false; false] /\
  set_trace true false [false; true; false; true; true] = [false; true; false; true; true].
Proof. split; reflexivity. Qed.

(* ------------------------------------------------------------------------------------- *)
(* SetOptimizer(<class>): the list handed to the optimiser (OrderedSet of the chained parameters) *)

Lemma dedup_spec : forall {P : Type} (dec : forall x y : P, {x = y} + {x <> y}) (l seen : list P),
  NoDup (dedup dec seen l) /\ (forall p, In p (dedup dec seen l) <-> In p l /\ ~ In p seen).
Proof.
  intros P dec. induction l as [|x r IH]; intros seen.
  - split; [constructor|]. intros p. cbn [dedup In]. tauto.
  - cbn [dedup]. destruct (in_dec dec x seen) as [Hin|Hnin].
    + destruct (IH seen) as [N I]. split; [exact N|]. intros p. rewrite I. cbn [In]. split.
      * intros [H1 H2]. split; [right; exact H1|exact H2].
      * intros [[H1|H1] H2]; [subst; contradiction|split; assumption].
    + destruct (IH (x :: seen)) as [N I]. split.
      * constructor; [|exact N]. rewrite I. cbn [In]. tauto.
      * intros p. cbn [In]. rewrite I. cbn [In]. split.
        -- intros [H|[H1 H2]]; [subst; split; [left; reflexivity|exact Hnin]|].
           split; [right; exact H1|tauto].
        -- intros [[H1|H1] H2]; [left; exact H1|].
           destruct (dec x p) as [E|E]; [left; exact E|right; split; [exact H1|tauto]].
Qed.

(* optimizer_params_nodup, FULL strength: for any nets, sharing parameters or not, every
   distinct parameter of any net is handed to the optimiser exactly once *)
Theorem optimizer_params_nodup : forall {P : Type} (dec : forall x y : P, {x = y} + {x <> y}) (nets : list (list P)),
  NoDup (opt_params dec nets) /\
  (forall p, In p (opt_params dec nets) <-> exists net, In net nets /\ In p net) /\
  (forall p net, In net nets -> In p net -> count_occ dec (opt_params dec nets) p = 1%nat).
Proof.
  intros P dec nets. unfold opt_params. destruct (dedup_spec dec (concat nets) []) as [N I].
  assert (M : forall p, In p (dedup dec [] (concat nets)) <-> exists net, In net nets /\ In p net).
  { intros p. rewrite I, in_concat. cbn [In]. split.
    - intros [[net [H1 H2]] _]. exists net. split; assumption.
    - intros [net [H1 H2]]. split; [exists net; split; assumption|tauto]. }
  split; [exact N|]. split; [exact M|].
  intros p net H1 H2. apply (proj1 (NoDup_count_occ' dec _) N). apply M. exists net. split; assumption.
Qed.

(* order: a parameter that is new when first met keeps its position (first occurrences, in order) *)
Lemma dedup_head : forall {P : Type} (dec : forall x y : P, {x = y} + {x <> y}) (x : P) (r seen : list P),
  ~ In x seen -> dedup dec seen (x :: r) = x :: dedup dec (x :: seen) r.
Proof. intros P dec x r seen H. cbn [dedup]. destruct (in_dec dec x seen); [contradiction|reflexivity]. Qed.

Example optimizer_params_nonvacuous :
  opt_params Z.eq_dec [[1; 2]; [1; 2]] = [1; 2] /\ opt_params Z.eq_dec [[1; 2]; [3; 1]; [4]] = [1; 2; 3; 4].
Proof. split; reflexivity. Qed.

(* ------------------------------------------------------------------------------------- *)
(* The stop flag and the fit loop                                                         *)

Definition is_stop (a : action) : bool := match a with AStop => true | _ => false end.
Definition is_stop_at (acts : list action) (j : nat) : bool :=
  match nth_error acts j with Some a => is_stop a | None => false end.

Lemma run_action_inv : forall a called s s' c',
  run_action a called s = (s', c') ->
  s_local s' = s_local s /\ s_global s' = s_global s /\ s_max s' = s_max s /\
  s_train s' = s_train s /\ s_valid s' = s_valid s /\
  s_stop s' = s_stop s || is_stop a.
Proof.
  intros a called s s' c' E. destruct a; cbn [run_action is_stop] in *.
  - injection E as E1 E2. subst. rewrite orb_false_r. repeat split.
  - injection E as E1 E2. subst. cbn. rewrite orb_true_r. repeat split.
  - destruct (set_once reset called) as [eff c]. injection E as E1 E2. subst.
    rewrite orb_false_r. destruct eff; repeat split.
  - destruct (set_once reset called) as [eff c]. injection E as E1 E2. subst.
    rewrite orb_false_r. destruct eff; repeat split.
  - destruct (set_once reset called) as [eff c]. injection E as E1 E2. subst.
    rewrite orb_false_r. destruct eff; repeat split.
Qed.

Lemma run_cb_inv : forall s c s' c' fired,
  run_cb s c = (s', c', fired) ->
  c_act c' = c_act c /\
  s_local s' = s_local s /\ s_global s' = s_global s /\ s_max s' = s_max s /\
  s_train s' = s_train s /\ s_valid s' = s_valid s /\
  s_stop s' = s_stop s || (fired && is_stop (c_act c)) /\
  fired = cond (view_of s) (c_pred c).
Proof.
  intros s c s' c' fired E. unfold run_cb, cond in *.
  destruct (step (view_of s) (c_pred c)) as [b p']. cbn [fst]. destruct b.
  - destruct (run_action (c_act c) (c_called c) s) as [s1 called'] eqn:EA.
    injection E as E1 E2 E3. subst.
    destruct (run_action_inv _ _ _ _ _ EA) as (H1 & H2 & H3 & H4 & H5 & H6).
    cbn [c_act andb]. repeat split; assumption.
  - injection E as E1 E2 E3. subst. cbn [c_act andb]. rewrite orb_false_r. repeat split.
Qed.

Lemma existsb_ext_fun : forall {A : Type} (f g : A -> bool) (l : list A),
  (forall a, f a = g a) -> existsb f l = existsb g l.
Proof. intros A f g l H. induction l as [|a r IH]; [reflexivity|]. cbn [existsb]. rewrite H, IH. reflexivity. Qed.

Lemma existsb_shift : forall (acts : list action) a idx fs,
  Forall (fun j => (S idx <= j)%nat) fs ->
  existsb (fun j => is_stop_at (a :: acts) (j - idx)) fs = existsb (fun j => is_stop_at acts (j - S idx)) fs.
Proof.
  intros acts a idx fs HF. induction HF as [|j r Hj _ IH]; [reflexivity|].
  cbn [existsb]. rewrite IH. f_equal. unfold is_stop_at.
  replace (j - idx)%nat with (S (j - S idx)) by lia. reflexivity.
Qed.

Lemma run_cbs_inv : forall cbs s mask idx s' cbs' fs,
  run_cbs s cbs mask idx = (s', cbs', fs) ->
  map c_act cbs' = map c_act cbs /\
  s_local s' = s_local s /\ s_global s' = s_global s /\ s_max s' = s_max s /\
  s_train s' = s_train s /\ s_valid s' = s_valid s /\
  Forall (fun j => (idx <= j)%nat) fs /\
  s_stop s' = s_stop s || existsb (fun j => is_stop_at (map c_act cbs) (j - idx)) fs.
Proof.
  induction cbs as [|c r IH]; intros s mask idx s' cbs' fs E.
  - cbn [run_cbs] in E. injection E as E1 E2 E3. subst. cbn [existsb]. rewrite orb_false_r.
    repeat split. constructor.
  - cbn [run_cbs] in E.
    assert (Skip : forall mr, (let '(s2, r', fs0) := run_cbs s r mr (S idx) in (s2, c :: r', fs0)) = (s', cbs', fs) ->
      map c_act cbs' = map c_act (c :: r) /\
      s_local s' = s_local s /\ s_global s' = s_global s /\ s_max s' = s_max s /\
      s_train s' = s_train s /\ s_valid s' = s_valid s /\
      Forall (fun j => (idx <= j)%nat) fs /\
      s_stop s' = s_stop s || existsb (fun j => is_stop_at (map c_act (c :: r)) (j - idx)) fs).
    { intros mr E'. destruct (run_cbs s r mr (S idx)) as [[s2 r'] fs0] eqn:ER.
      injection E' as E1 E2 E3. subst.
      destruct (IH _ _ _ _ _ _ ER) as (H1 & H2 & H3 & H4 & H5 & H6 & H7 & H8).
      cbn [map]. rewrite existsb_shift by exact H7. rewrite H1.
      repeat split; try assumption.
      eapply Forall_impl; [|exact H7]. intros j Hj. cbn beta in Hj. lia. }
    destruct mask as [|m mr]; [apply (Skip [] E)|].
    destruct m; [|apply (Skip mr E)].
    destruct (run_cb s c) as [[s1 c'] fired] eqn:EC.
    destruct (run_cbs s1 r mr (S idx)) as [[s2 r'] fs0] eqn:ER.
    injection E as E1 E2 E3. subst.
    destruct (run_cb_inv _ _ _ _ _ EC) as (A0 & A1 & A2 & A3 & A4 & A5 & A6 & _).
    destruct (IH _ _ _ _ _ _ ER) as (H1 & H2 & H3 & H4 & H5 & H6 & H7 & H8).
    assert (H7' : Forall (fun j => (idx <= j)%nat) fs0).
    { eapply Forall_impl; [|exact H7]. intros j Hj. cbn beta in Hj. lia. }
    cbn [map]. rewrite H1, A0.
    repeat split; try congruence.
    + destruct fired; [constructor; [lia|exact H7']|exact H7'].
    + rewrite H8, A6. destruct fired; cbn [andb].
      * cbn [existsb]. rewrite existsb_shift by exact H7.
        unfold is_stop_at at 2. rewrite Nat.sub_diag. cbn [nth_error]. rewrite orb_assoc. reflexivity.
      * rewrite existsb_shift by exact H7. rewrite orb_false_r. reflexivity.
Qed.

(* Everything the fit loop does with the stop flag, for every callback table, feed, mask,
   starting state and epoch budget. *)
Lemma fit_loop_spec : forall feed cfeed von mask fuel e s cbs s' cbs' recs,
  fit_loop feed cfeed von mask fuel e s cbs = (s', cbs', recs) ->
  map c_act cbs' = map c_act cbs /\
  (length recs <= fuel)%nat /\
  (s_stop s = true -> recs = []) /\
  (s_stop s = false -> (0 < fuel)%nat -> recs <> []) /\
  (forall i r, nth_error recs i = Some r ->
     e_local r = e + Z.of_nat i /\ e_max r = s_max s /\ e_global r = s_global s + 1 + Z.of_nat i /\
     e_stop r = existsb (is_stop_at (map c_act cbs)) (e_fired r) /\
     (e_stop r = true -> S i = length recs) /\
     (e_stop r = false -> (S i < fuel)%nat -> (S i < length recs)%nat)).
Proof.
  intros feed cfeed von mask. induction fuel as [|k IH]; intros e s cbs s' cbs' recs E.
  - cbn [fit_loop] in E. injection E as E1 E2 E3. subst.
    split; [reflexivity|]. split; [cbn [length]; lia|]. split; [reflexivity|]. split; [lia|].
    intros i r Hr. destruct i; discriminate Hr.
  - cbn [fit_loop] in E. destruct (s_stop s) eqn:Estop.
    + injection E as E1 E2 E3. subst.
      split; [reflexivity|]. split; [cbn [length]; lia|]. split; [reflexivity|]. split; [discriminate|].
      intros i r Hr. destruct i; discriminate Hr.
    + destruct (run_cbs (run_epoch feed cfeed von e s) cbs mask 0) as [[s2 cbs2] fired] eqn:EC.
      destruct (fit_loop feed cfeed von mask k (e + 1) s2 cbs2) as [[s3 cbs3] recs'] eqn:EF.
      injection E as E1 E2 E3. subst.
      destruct (run_cbs_inv _ _ _ _ _ _ _ EC) as (C1 & C2 & C3 & C4 & C5 & C6 & C7 & C8).
      destruct (IH _ _ _ _ _ _ EF) as (F1 & F2 & F3 & F4 & F5).
      assert (R1 : s_local (run_epoch feed cfeed von e s) = e /\ s_global (run_epoch feed cfeed von e s) = s_global s + 1 /\
                   s_max (run_epoch feed cfeed von e s) = s_max s /\ s_stop (run_epoch feed cfeed von e s) = false).
      { unfold run_epoch. destruct (feed (s_global s)) as [x y]. cbn. rewrite Estop. repeat split. }
      destruct R1 as (R1 & R2 & R3 & R4).
      split; [congruence|]. split; [cbn [length]; lia|]. split; [discriminate|]. split; [discriminate|].
      intros i r Hr. destruct i as [|i].
      * cbn [nth_error] in Hr. injection Hr as Hr. subst r. cbn [e_local e_max e_global e_stop e_fired].
        assert (Hstop : s_stop s2 = existsb (is_stop_at (map c_act cbs)) fired).
        { rewrite C8, R4. cbn [orb]. apply existsb_ext_fun. intros j. rewrite Nat.sub_0_r. reflexivity. }
        repeat split; try lia; try congruence.
        -- intros Hs. rewrite (F3 Hs). reflexivity.
        -- intros Hs Hk. cbn [length]. destruct k as [|k']; [lia|].
           assert (recs' <> []) by (apply F4; [exact Hs|lia]). destruct recs'; [contradiction|cbn [length]; lia].
      * cbn [nth_error] in Hr. destruct (F5 i r Hr) as (G1 & G2 & G3 & G4 & G5 & G6).
        rewrite C1 in G4. cbn [length].
        repeat split; try lia; try congruence.
        -- intros Hs. rewrite (G5 Hs). reflexivity.
        -- intros Hs Hk. apply G6 in Hs; lia.
Qed.

(* stop_spec: one fit(max_epochs) call.  The epochs run are local epochs 1, 2, ..., K with
   K <= max_epochs; the stop flag at the end of an epoch is true iff a StopCallback's action ran
   in that epoch; an epoch that ended with the flag set is the last one; an epoch that ended
   with the flag clear and is not the max_epochs-th is followed by another one. *)
Theorem stop_spec : forall feed cfeed von max_epochs mask s cbs s' cbs' recs,
  fit feed cfeed von max_epochs mask s cbs = (s', cbs', recs) ->
  Z.of_nat (length recs) <= Z.max 0 max_epochs /\
  (0 < max_epochs -> recs <> []) /\
  (forall i r, nth_error recs i = Some r ->
     e_local r = Z.of_nat (S i) /\ e_max r = max_epochs /\ e_global r = s_global s + Z.of_nat (S i) /\
     (e_stop r = true <-> exists j a, In j (e_fired r) /\ nth_error (map c_act cbs) j = Some a /\ a = AStop) /\
     (e_stop r = true -> S i = length recs) /\
     (e_stop r = false -> Z.of_nat (S i) < max_epochs -> (S i < length recs)%nat)).
Proof.
  intros feed cfeed von max_epochs mask s cbs s' cbs' recs E. unfold fit in E.
  destruct (fit_loop_spec _ _ _ _ _ _ _ _ _ _ _ E) as (F1 & F2 & F3 & F4 & F5).
  split; [lia|]. split.
  - intros Hm. apply F4; [reflexivity|lia].
  - intros i r Hr. destruct (F5 i r Hr) as (G1 & G2 & G3 & G4 & G5 & G6).
    cbn [set_max set_stop s_max s_global] in G2, G3.
    repeat split; try lia; try assumption.
    + intros Hs. rewrite G4 in Hs. apply existsb_exists in Hs. destruct Hs as [j [Hj Hst]].
      unfold is_stop_at in Hst. destruct (nth_error (map c_act cbs) j) as [a|] eqn:Ea; [|discriminate].
      exists j, a. repeat split; try assumption. destruct a; try discriminate; reflexivity.
    + intros [j [a [Hj [Ha Hst]]]]. rewrite G4. apply existsb_exists. exists j. split; [exact Hj|].
      unfold is_stop_at. rewrite Ha. subst a. reflexivity.
    + intros Hs Hlt. apply G6; [exact Hs|lia].
Qed.

(* non-vacuity: a stop conditioned on PeriodLocal(3) ends fit(6) after epoch 3, later
   callbacks of the same epoch still run *)
Example stop_nonvacuous :
  let cbs := [mkCb (period_local 3 0) AStop false; mkCb PTrue ARecord false] in
  match fit (fun _ => (0, 0)) [] true 6 [true; true] (init_sst 0 0) cbs with
  | (_, _, recs) => map (fun r => (e_local r, e_fired r, e_stop r)) recs
  end = [(1, [1%nat], false); (2, [1%nat], false); (3, [0%nat; 1%nat], true)].
Proof. reflexivity. Qed.
