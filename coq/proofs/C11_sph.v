(* C11 — spherical shell, infinite-domain and coefficient-space conditions.  Lemmas about the
   terms regenerated into gen/Gen_C11.v.  DESIGN.md §7 C11. *)
From Coq Require Import Reals List Lra Lia ZArith Field.
From Coquelicot Require Import Coquelicot.
From ND.lib Require Import Expr ExprSound Tac Lim.
From ND.gen Require Import Gen_C11.
Import ListNotations.
Open Scope R_scope.

Section Shell2.
  Import shell2.
  Lemma shell2_inner venv penv fenv :
    penv p_r_1 - penv p_r_0 <> 0 -> venv v_r = penv p_r_0 ->
    eval venv penv fenv term = fenv f_f [0;0]%nat [venv v_theta; venv v_phi].
  Proof. intros Hd H. reduce_eval. norm_names. rewrite H. norm_exp0. field. auto. Qed.
  Lemma shell2_outer venv penv fenv :
    penv p_r_1 - penv p_r_0 <> 0 -> venv v_r = penv p_r_1 ->
    eval venv penv fenv term = fenv f_g [0;0]%nat [venv v_theta; venv v_phi].
  Proof. intros Hd H. reduce_eval. norm_names. rewrite H. norm_exp0. field. auto. Qed.
End Shell2.

Section Shell1.
  Import shell1.
  Lemma shell1_inner venv penv fenv :
    venv v_r = penv p_r_0 -> eval venv penv fenv term = fenv f_f [0;0]%nat [venv v_theta; venv v_phi].
  Proof.
    intros H. reduce_eval. norm_names. rewrite H.
    replace (penv 0%nat - penv 0%nat) with 0 by ring. rewrite Rabs_R0, Ropp_0, exp_0. ring.
  Qed.
End Shell1.

Section Inf.
  Import inf.
  Lemma inf_inner venv penv fenv :
    venv v_r = penv p_r_0 -> eval venv penv fenv term = fenv f_f [0;0]%nat [venv v_theta; venv v_phi].
  Proof.
    intros H. reduce_eval. norm_names. rewrite H.
    replace (penv 0%nat - penv 0%nat) with 0 by ring. rewrite Rmult_0_r, exp_0, tanh_0. ring.
  Qed.

  (* u(r, theta, phi) -> g(theta, phi) as r -> infinity, for every order k > 0 and every bounded network *)
  Lemma inf_limit_gen venv penv fenv M :
    0 < penv p_order ->
    (forall r, Rabs (fenv f_N [0;0;0]%nat [r; venv v_theta; venv v_phi]) <= M) ->
    is_lim (fun r => eval (upd venv v_r r) penv fenv term) p_infty (fenv f_g [0;0]%nat [venv v_theta; venv v_phi]).
  Proof.
    intros Hk HN.
    apply (is_lim_ext (inf_u (penv p_r_0) (penv p_order)
                             (fenv f_f [0;0]%nat [venv v_theta; venv v_phi])
                             (fenv f_g [0;0]%nat [venv v_theta; venv v_phi])
                             (fun r => fenv f_N [0;0;0]%nat [r; venv v_theta; venv v_phi]))).
    - intros r. reduce_eval. norm_names. cbv [upd Nat.eqb]. unfold inf_u. ring.
    - apply inf_limit with (M := M); auto.
  Qed.
End Inf.

Section Basis2.
  Import basis2.
  Lemma basis2_inner venv penv fenv :
    penv p_r_1 - penv p_r_0 <> 0 -> venv v_r = penv p_r_0 -> eval venv penv fenv term = penv p_R_0.
  Proof. intros Hd H. reduce_eval. norm_names. rewrite H. norm_exp0. field. auto. Qed.
  Lemma basis2_outer venv penv fenv :
    penv p_r_1 - penv p_r_0 <> 0 -> venv v_r = penv p_r_1 -> eval venv penv fenv term = penv p_R_1.
  Proof. intros Hd H. reduce_eval. norm_names. rewrite H. norm_exp0. field. auto. Qed.
End Basis2.

Section Basis1.
  Import basis1.
  Lemma basis1_inner venv penv fenv :
    venv v_r = penv p_r_0 -> eval venv penv fenv term = penv p_R_0.
  Proof. intros H. reduce_eval. norm_names. rewrite H. norm_exp0. ring. Qed.
End Basis1.

Section InfBasis.
  Import inf_basis.
  Lemma inf_basis_inner venv penv fenv :
    venv v_r = penv p_r_0 -> eval venv penv fenv term = penv p_R_0.
  Proof.
    intros H. reduce_eval. norm_names. rewrite H.
    replace (penv 0%nat - penv 0%nat) with 0 by ring. rewrite Rmult_0_r, exp_0, tanh_0. ring.
  Qed.
  Lemma inf_basis_limit venv penv fenv M :
    0 < penv p_order ->
    (forall r, Rabs (fenv f_N [0]%nat [r]) <= M) ->
    is_lim (fun r => eval (upd venv v_r r) penv fenv term) p_infty (penv p_R_inf).
  Proof.
    intros Hk HN.
    apply (is_lim_ext (inf_u (penv p_r_0) (penv p_order) (penv p_R_0) (penv p_R_inf) (fun r => fenv f_N [0]%nat [r]))).
    - intros r. reduce_eval. norm_names. cbv [upd Nat.eqb]. unfold inf_u. ring.
    - apply inf_limit with (M := M); auto.
  Qed.
End InfBasis.

Lemma c11_rejects : shell_reject.raises = true /\ basis_reject.raises = true /\
  shell2.raises = false /\ shell1.raises = false /\ basis2.raises = false /\ basis1.raises = false.
Proof. repeat split. Qed.

(* non-vacuity: r_0 = 2 > r_1 = 1/2 (reversed orientation) *)
Example shell2_premises_satisfiable :
  exists (venv penv : nat -> R), penv shell2.p_r_1 - penv shell2.p_r_0 <> 0 /\ venv shell2.v_r = penv shell2.p_r_0.
Proof. exists (fun _ => 2), (fun p => match p with 0%nat => 2 | _ => / 2 end). split; cbn; lra. Qed.
