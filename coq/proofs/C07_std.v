(* C07 -- the std of every torch.normal draw is non-negative (torch.normal raises otherwise), for
   all real bounds in EITHER orientation, all sizes and indices: the default std is
   |(max - min) / n| / 4 since commit 0dd583c, and the exp-spaced std is |noise_rstd * node|. *)
From Coq Require Import Reals List String Bool Arith Lra.
From ND.lib Require Import Expr.
From ND.model Require Import AtomicGen.
From ND.gen Require Import Gen_C07.
From ND.proofs Require Import C07_table.
Import ListNotations.
Open Scope R_scope.

(* the factors S of the nodes  EMul S (EVar v_z0)  of a formula *)
Fixpoint z_coeffs (e : expr) : list expr :=
  match e with
  | EMul s (EVar v) => (if Nat.eqb v v_z0 then [s] else []) ++ z_coeffs s
  | EAdd a b | ESub a b | EMul a b | EDiv a b => z_coeffs a ++ z_coeffs b
  | ENeg a | EPow a _ | ESin a | ECos a | EExp a | ETanh a | EAbs a | ESqrt a | ELn a => z_coeffs a
  | _ => []
  end.

Definition std_listed (s : expr) : bool := existsb (expr_eqb s) std_terms.

(* every tensor with normal noise has exactly one normal factor, and it is one of std_terms *)
Definition std_cover (t : tinfo) : bool :=
  negb (t_noise t) || (Nat.eqb (List.length (z_coeffs (t_term t))) 1 && forallb std_listed (z_coeffs (t_term t))).

Lemma std_cover_b : forallb (fun e => forallb std_cover (e_tensors e)) table = true.
Proof. vm_compute. reflexivity. Qed.

Ltac nonneg :=
  lazymatch goal with
  | |- 0 <= Rabs _ => apply Rabs_pos
  | |- 0 <= exp _ => left; apply exp_pos
  | |- 0 <= / _ => left; apply Rinv_0_lt_compat; lra
  | |- 0 <= _ * _ => apply Rmult_le_pos; nonneg
  | |- _ => lra
  end.

Lemma std_nonneg s : In s std_terms -> forall venv penv fenv, 0 <= eval venv penv fenv s.
Proof.
  intros Hin venv penv fenv. cbv [std_terms] in Hin. cbn [In] in Hin.
  repeat (destruct Hin as [Hin|Hin]; [subst s; cbn [eval]; unfold Rdiv; nonneg |]).
  contradiction.
Qed.

Lemma noisy_std_nonneg e t : In e table -> In t (e_tensors e) -> t_noise t = true ->
  exists s, z_coeffs (t_term t) = [s] /\ forall venv penv fenv, 0 <= eval venv penv fenv s.
Proof.
  intros He Ht Hn.
  pose proof (proj1 (forallb_forall _ _) std_cover_b e He) as H1. cbv beta in H1.
  pose proof (proj1 (forallb_forall _ _) H1 t Ht) as H2. unfold std_cover in H2.
  rewrite Hn in H2. cbn [negb orb] in H2. apply andb_prop in H2. destruct H2 as [Hl Hall].
  apply Nat.eqb_eq in Hl.
  destruct (z_coeffs (t_term t)) as [|s [|s2 r]] eqn:E; cbn [List.length] in Hl; try discriminate.
  exists s. split; [reflexivity|]. cbn [forallb] in Hall. apply andb_prop in Hall. destruct Hall as [Hs _].
  unfold std_listed in Hs. apply existsb_exists in Hs. destruct Hs as [s' [Hin Heq]].
  apply expr_eqb_eq in Heq. subst s'. now apply std_nonneg.
Qed.

Example std_terms_nonempty : Nat.leb 3 (List.length std_terms) = true.
Proof. vm_compute. reflexivity. Qed.
