(* C05_best.v — best-model tracking (property C05): lowest_loss is the running minimum of the tracked
   losses, best_nets is the snapshot taken at the EARLIEST epoch attaining it, later training never
   replaces it without a strictly lower loss, and re-evaluating the loss with the snapshot on that
   epoch's batches reproduces lowest_loss (plain optimisers; any optimiser when validation is on).
   Model: coq/model/Solver.v.  All statements for arbitrary components, callbacks and op sequences;
   the value type V only needs a decidable strict weak order (no NaN, as in the property text). *)
From Coq Require Import List Arith Bool Lia.
From ND.model Require Import Solver.
From ND.proofs Require Import C15_base.
Import ListNotations.

Section C05.
  Variables P G B V O C : Type.
  Variable loss : nat -> C -> P -> B -> V.
  Variable gradl : nat -> C -> P -> B -> G.
  Variable metric : nat -> C -> P -> B -> V.
  Variable nmetrics : nat.
  Variable gzero : G.
  Variable gadd : G -> G -> G.
  Variable vzero : V.
  Variable vadd : V -> V -> V.
  Variable vdivn : V -> nat -> V.
  Variable vltb : V -> V -> bool.
  Variable requires_closure : O -> bool.
  Variable opt_step : O -> P -> G -> O * P.
  Variable closure_opt : O -> P -> (P -> V * G) -> O * list P * P.
  Variable draw : phase -> nat -> B.

  Local Notation state := (Solver.state P G V O C).
  Local Notation acc := (Solver.acc V).
  Local Notation callback := (Solver.callback P G V O C).
  Local Notation action := (Solver.action P O C).
  Local Notation op := (Solver.op P G V O C).
  Local Notation acc0 := (Solver.acc0 nmetrics vzero).
  Local Notation met_add := (Solver.met_add metric vadd).
  Local Notation met_add_from := (Solver.met_add_from metric vadd).
  Local Notation closure_of := (Solver.closure_of loss gradl).
  Local Notation eval_batch := (Solver.eval_batch loss gradl metric gadd vadd closure_opt).
  Local Notation batch_step := (Solver.batch_step loss gradl metric gadd vadd closure_opt draw).
  Local Notation run_batches := (Solver.run_batches loss gradl metric gadd vadd closure_opt draw).
  Local Notation update_best := (Solver.update_best vltb).
  Local Notation do_step := (Solver.do_step opt_step).
  Local Notation zero_grad := (Solver.zero_grad gzero).
  Local Notation run_epoch := (Solver.run_epoch loss gradl metric nmetrics gzero gadd vzero vadd vdivn vltb requires_closure opt_step closure_opt draw).
  Local Notation iteration := (Solver.iteration loss gradl metric nmetrics gzero gadd vzero vadd vdivn vltb requires_closure opt_step closure_opt draw).
  Local Notation fit_loop := (Solver.fit_loop loss gradl metric nmetrics gzero gadd vzero vadd vdivn vltb requires_closure opt_step closure_opt draw).
  Local Notation fit := (Solver.fit loss gradl metric nmetrics gzero gadd vzero vadd vdivn vltb requires_closure opt_step closure_opt draw).
  Local Notation run_op := (Solver.run_op loss gradl metric nmetrics gzero gadd vzero vadd vdivn vltb requires_closure opt_step closure_opt draw).
  Local Notation run_ops := (Solver.run_ops loss gradl metric nmetrics gzero gadd vzero vadd vdivn vltb requires_closure opt_step closure_opt draw).
  Local Notation init := (Solver.init V nmetrics gzero).

  (* lemmas of the earlier files, applied to the components above *)
  Local Notation batches := (C15_base.batches B draw).
  Local Notation same_book := (C15_base.same_book P G V O C).
  Local Notation same_book_refl := (C15_base.same_book_refl P G V O C).
  Local Notation same_book_trans := (C15_base.same_book_trans P G V O C).
  Local Notation batch_step_book := (C15_base.batch_step_book P G B V O C loss gradl metric gadd vadd closure_opt draw).
  Local Notation run_batches_book := (C15_base.run_batches_book P G B V O C loss gradl metric gadd vadd closure_opt draw).
  Local Notation batch_step_cur := (C15_base.batch_step_cur P G B V O C loss gradl metric gadd vadd closure_opt draw).
  Local Notation run_batches_cur := (C15_base.run_batches_cur P G B V O C loss gradl metric gadd vadd closure_opt draw).
  Local Notation batch_step_fixed := (C15_base.batch_step_fixed P G B V O C loss gradl metric gadd vadd closure_opt draw).
  Local Notation run_batches_fixed := (C15_base.run_batches_fixed P G B V O C loss gradl metric gadd vadd closure_opt draw).
  Local Notation batch_step_events := (C15_base.batch_step_events P G B V O C loss gradl metric gadd vadd closure_opt draw).
  Local Notation run_batches_events := (C15_base.run_batches_events P G B V O C loss gradl metric gadd vadd closure_opt draw).
  Local Notation state_ext := (C15_base.state_ext P G V O C).
  Local Notation set_cur := (C15_base.set_cur P G V O C).
  Local Notation run_batches_fixed_state := (C15_base.run_batches_fixed_state P G B V O C loss gradl metric gadd vadd closure_opt draw).
  Local Notation cstate := (C15_base.cstate P G V O).
  Local Notation closure_batch := (C15_base.closure_batch P G B V O C loss gradl metric vadd closure_opt).
  Local Notation run_batches_closure := (C15_base.run_batches_closure P G B V O C loss gradl metric gadd vadd closure_opt draw).
  Local Notation better := (C15_base.better P G V O C vltb).
  Local Notation update_best_snoc := (C15_base.update_best_snoc P G V O C vltb).
  Local Notation run_epoch_zero := (C15_base.run_epoch_zero P G B V O C loss gradl metric nmetrics gzero gadd vzero vadd vdivn vltb requires_closure opt_step closure_opt draw).
  Local Notation push_each_length := (C15_base.push_each_length V).
  Local Notation push_each_Forall := (C15_base.push_each_Forall V).
  Local Notation met_add_from_length := (C15_base.met_add_from_length P B V C metric vadd).
  Local Notation fold_met_length := (C15_base.fold_met_length P B V C metric vadd).
  Local Notation pre_state := (C15_base.pre_state P G V O C gzero requires_closure).
  Local Notation epoch_batches := (C15_base.epoch_batches P G B V O C loss gradl metric nmetrics gzero gadd vzero vadd requires_closure closure_opt draw).
  Local Notation means := (C15_base.means V vdivn).
  Local Notation epoch_loss := (C15_base.epoch_loss P G B V O C loss gradl metric nmetrics gzero gadd vzero vadd vdivn requires_closure closure_opt draw).
  Local Notation pre_state_book := (C15_base.pre_state_book P G V O C gzero requires_closure).
  Local Notation epoch_batches_book := (C15_base.epoch_batches_book P G B V O C loss gradl metric nmetrics gzero gadd vzero vadd requires_closure closure_opt draw).
  Local Notation run_epoch_unfold := (C15_base.run_epoch_unfold P G B V O C loss gradl metric nmetrics gzero gadd vzero vadd vdivn vltb requires_closure opt_step closure_opt draw).
  Local Notation ctl := (C15_base.ctl P G V O C).
  Local Notation ctl_of_book := (C15_base.ctl_of_book P G V O C).
  Local Notation ctl_push_hist := (C15_base.ctl_push_hist P G V O C).
  Local Notation ctl_update_best := (C15_base.ctl_update_best P G V O C vltb).
  Local Notation ctl_do_step := (C15_base.ctl_do_step P G V O C opt_step).
  Local Notation ctl_push_metrics := (C15_base.ctl_push_metrics P G V O C).
  Local Notation ctl_run_epoch := (C15_base.ctl_run_epoch P G B V O C loss gradl metric nmetrics gzero gadd vzero vadd vdivn vltb requires_closure opt_step closure_opt draw).
  Local Notation hists_update_best := (C15_base.hists_update_best P G V O C vltb).
  Local Notation hists_do_step := (C15_base.hists_do_step P G V O C opt_step).
  Local Notation a_met_length := (C15_base.a_met_length P G B V O C loss gradl metric gadd vadd closure_opt draw).
  Local Notation epoch_met_length := (C15_base.epoch_met_length P G B V O C loss gradl metric nmetrics gzero gadd vzero vadd requires_closure closure_opt draw).
  Local Notation run_epoch_hists := (C15_base.run_epoch_hists P G B V O C loss gradl metric nmetrics gzero gadd vzero vadd vdivn vltb requires_closure opt_step closure_opt draw).
  Local Notation events_update_best := (C15_base.events_update_best P G V O C vltb).
  Local Notation events_do_step := (C15_base.events_do_step P G V O C opt_step).
  Local Notation step_count := (C15_base.step_count P G V O C requires_closure).
  Local Notation run_epoch_events := (C15_base.run_epoch_events P G B V O C loss gradl metric nmetrics gzero gadd vzero vadd vdivn vltb requires_closure opt_step closure_opt draw).
  Local Notation rec_part := (C15_base.rec_part P G V O C).
  Local Notation rec_part_action := (C15_base.rec_part_action P G V O C).
  Local Notation rec_part_actions := (C15_base.rec_part_actions P G V O C).
  Local Notation rec_part_events := (C15_base.rec_part_events P G V O C).
  Local Notation quiet_part := (C15_base.quiet_part P G V O C).
  Local Notation run_cb_spec := (C15_base.run_cb_spec P G V O C).
  Local Notation run_cbs_from_spec := (C15_base.run_cbs_from_spec P G V O C).

  (* the order on loss values: a strict weak order (floats without NaN, rationals, ...) *)
  Hypothesis vlt_irrefl : forall a, vltb a a = false.
  Hypothesis vlt_trans : forall a b c, vltb a b = true -> vltb b c = true -> vltb a c = true.
  Hypothesis vlt_cotrans : forall a b c, vltb a b = true -> vltb a c = true \/ vltb c b = true.

  Local Notation tentry := (Solver.tentry P V C).

  (* ======================================================================================== *)
  (* 1. what an epoch does to (lowest_loss, best_nets) and to the ghost list of tracked epochs  *)

  (* _update_best is called for phase ph: after validation, or after training when n_batches_valid = 0 *)
  Definition tracks (ph : phase) (s : state) : bool := negb (is_train ph) || (nb_valid s =? 0).
  Definition bt (s : state) := (lowest s, best s, tracked s).

  Definition new_entry (ph : phase) (s : state) : tentry :=
    mkTE (epoch_loss ph s) (theta (fst (epoch_batches ph s))) ph (lid s) (conds s) (cur ph s) (nb ph s)
         (requires_closure (ost s)).

  Lemma bt_do_step (s : state) : bt (do_step s) = bt s.
  Proof. unfold Solver.do_step. destruct (opt_step _ _ _). reflexivity. Qed.
  Lemma bt_push_metrics ph vs (s : state) : bt (push_metrics ph vs s) = bt s.
  Proof. unfold Solver.push_metrics. destruct ph; reflexivity. Qed.

  Lemma bt_run_epoch ph s : nb ph s <> 0 ->
    bt (run_epoch ph s) =
    if tracks ph s then
      let e := new_entry ph s in
      ((if better (t_val e) s then Some (t_val e) else lowest s),
       (if better (t_val e) s then Some (t_theta e) else best s),
       tracked s ++ [e])
    else bt s.
  Proof.
    intros Hn. rewrite run_epoch_unfold by exact Hn. cbv zeta.
    rewrite bt_push_metrics.
    pose proof (epoch_batches_book ph s) as Hb. unfold C15_base.same_book in Hb.
    repeat match goal with H : _ /\ _ |- _ => destruct H end.
    pose proof (run_batches_cur (nb ph s) (requires_closure (ost s)) ph (pre_state ph s, acc0)) as [Hc _].
    fold (epoch_batches ph s) in Hc. cbn [fst] in Hc.
    assert (Hpc : cur ph (pre_state ph s) = cur ph s).
    { unfold C15_base.pre_state, Solver.zero_grad. destruct (is_train ph && _); destruct ph; reflexivity. }
    rewrite Hpc in Hc.
    set (r := epoch_batches ph s) in *.
    set (s2 := push_hist ph (epoch_loss ph s) (fst r)).
    assert (K2 : hist ph s2 = hist ph s ++ [epoch_loss ph s] /\ theta s2 = theta (fst r) /\ lid s2 = lid s /\
                 conds s2 = conds s /\ lowest s2 = lowest s /\ best s2 = best s /\ tracked s2 = tracked s /\
                 cur ph s2 = cur ph s + nb ph s /\ nb ph s2 = nb ph s).
    { subst s2. unfold Solver.push_hist. destruct ph; sproj; cbn [cur nb hist] in *; repeat split; congruence. }
    destruct K2 as (A1 & A2 & A3 & A4 & A5 & A6 & A7 & A8 & A9).
    unfold tracks.
    assert (Hs3 : bt (if negb (is_train ph) || (nb_valid s =? 0) then update_best ph (requires_closure (ost s)) s2 else s2) =
                  if negb (is_train ph) || (nb_valid s =? 0) then
                    let e := new_entry ph s in
                    ((if better (t_val e) s then Some (t_val e) else lowest s),
                     (if better (t_val e) s then Some (t_theta e) else best s), tracked s ++ [e])
                  else bt s).
    { destruct (negb (is_train ph) || (nb_valid s =? 0)).
      - rewrite (update_best_snoc ph _ s2 (hist ph s) (epoch_loss ph s) A1).
        unfold bt, new_entry. cbv zeta. cbn [t_val t_theta].
        assert (Hbet : better (epoch_loss ph s) s2 = better (epoch_loss ph s) s).
        { unfold C15_base.better. rewrite A5. reflexivity. }
        rewrite Hbet. fold r.
        destruct (better (epoch_loss ph s) s); sproj; rewrite ?A2, ?A3, ?A4, ?A5, ?A6, ?A7, ?A8, ?A9;
          replace (cur ph s + nb ph s - nb ph s) with (cur ph s) by lia; reflexivity.
      - unfold bt. rewrite A5, A6, A7. reflexivity. }
    destruct (is_train ph && negb (requires_closure (ost s))); [rewrite bt_do_step|]; exact Hs3.
  Qed.

  (* ======================================================================================== *)
  (* 2. the running minimum with earliest-argmin snapshot, as a pure function of the tracked list *)

  Definition step_best (acc : option (V * P)) (e : tentry) : option (V * P) :=
    match acc with
    | None => Some (t_val e, t_theta e)
    | Some (v, p) => if vltb (t_val e) v then Some (t_val e, t_theta e) else acc
    end.
  Definition scan (l : list tentry) : option (V * P) := fold_left step_best l None.

  Definition Best_inv (s : state) : Prop :=
    lowest s = option_map fst (scan (tracked s)) /\ best s = option_map snd (scan (tracked s)).

  Lemma scan_snoc l e : scan (l ++ [e]) = step_best (scan l) e.
  Proof. unfold scan. rewrite fold_left_app. reflexivity. Qed.

  Lemma best_inv_epoch ph s : Best_inv s -> Best_inv (run_epoch ph s).
  Proof.
    intros [HL HB]. destruct (Nat.eq_dec (nb ph s) 0) as [Hz|Hn]; [rewrite run_epoch_zero; [split|]; auto|].
    pose proof (bt_run_epoch ph s Hn) as H. unfold bt in H.
    destruct (tracks ph s).
    - cbv zeta in H. injection H as H1 H2 H3. unfold Best_inv. rewrite H1, H2, H3, scan_snoc.
      unfold C15_base.better. rewrite HL, HB. unfold new_entry. cbn [t_val t_theta].
      destruct (scan (tracked s)) as [[v p]|]; cbn [option_map fst snd step_best t_val t_theta].
      + destruct (vltb (epoch_loss ph s) v); split; reflexivity.
      + split; reflexivity.
    - injection H as H1 H2 H3. unfold Best_inv. rewrite H1, H2, H3. split; assumption.
  Qed.

  Lemma best_inv_same (s s' : state) : bt s' = bt s -> Best_inv s -> Best_inv s'.
  Proof. unfold bt, Best_inv. intros H [A B']. injection H as -> -> ->. split; assumption. Qed.

  Lemma bt_action (a : action) (s : state) : bt (apply_action a s) = bt s.
  Proof. pose proof (rec_part_action a s) as H. unfold C15_base.rec_part in H. unfold bt. congruence. Qed.

  Lemma bt_cbs (cbs : list callback) (s : state) : bt (run_cbs cbs s) = bt s.
  Proof.
    unfold Solver.run_cbs. destruct (run_cbs_from_spec cbs 0 s) as [_ Q]. unfold C15_base.quiet_part in Q.
    unfold bt. congruence.
  Qed.

  Lemma best_inv_iteration i cbs s : Best_inv s -> Best_inv (iteration i cbs s).
  Proof.
    intros HI. unfold Solver.iteration. eapply best_inv_same; [apply bt_cbs|].
    apply best_inv_epoch. apply best_inv_epoch. eapply best_inv_same; [|exact HI]. reflexivity.
  Qed.

  Lemma best_inv_fit_loop r : forall i cbs s, Best_inv s -> Best_inv (fit_loop r i cbs s).
  Proof.
    induction r as [|r IH]; intros i cbs s HI; cbn [Solver.fit_loop]; [exact HI|].
    destruct (stop s); [exact HI|]. apply IH, best_inv_iteration, HI.
  Qed.

  Lemma best_inv_ops (ops : list op) : forall s, Best_inv s -> Best_inv (run_ops ops s).
  Proof.
    induction ops as [|o ops IH]; intros s HI; cbn [Solver.run_ops fold_left]; [exact HI|].
    apply IH. destruct o as [m cbs|a]; cbn [Solver.run_op].
    - unfold Solver.fit. apply best_inv_fit_loop. eapply best_inv_same; [|exact HI]. reflexivity.
    - eapply best_inv_same; [apply bt_action|exact HI].
  Qed.

  (* what [scan] computes, under the order axioms: the entry it returns is no larger than any tracked value and
     STRICTLY smaller than every earlier one (so it is the earliest epoch attaining the minimum) *)
  Lemma scan_none l : scan l = None -> l = [].
  Proof.
    destruct l as [|e l] using rev_ind; [reflexivity|]. rewrite scan_snoc.
    destruct (scan l) as [[v p]|]; cbn; [destruct (vltb (t_val e) v)|]; discriminate.
  Qed.

  Lemma scan_spec l v p : scan l = Some (v, p) ->
    exists l1 e l2, l = l1 ++ e :: l2 /\ t_val e = v /\ t_theta e = p /\
                    Forall (fun e' => vltb v (t_val e') = true) l1 /\
                    Forall (fun e' => vltb (t_val e') v = false) l2.
  Proof.
    revert v p. induction l as [|x l IH] using rev_ind; intros v p H; [discriminate|].
    rewrite scan_snoc in H. destruct (scan l) as [[v0 p0]|] eqn:E.
    - destruct (IH v0 p0 eq_refl) as (l1 & e & l2 & -> & Hv & Hp & F1 & F2).
      cbn [step_best] in H. destruct (vltb (t_val x) v0) eqn:Lt.
      + injection H as <- <-. exists (l1 ++ e :: l2), x, []. rewrite <- app_assoc. repeat split; [|constructor].
        apply Forall_app. split.
        * eapply Forall_impl; [|exact F1]. cbn. intros a Ha. eapply vlt_trans; eassumption.
        * constructor; [rewrite Hv; exact Lt|].
          eapply Forall_impl; [|exact F2]. cbn. intros a Ha.
          destruct (vlt_cotrans _ _ (t_val a) Lt) as [K|K]; [exact K|congruence].
      + injection H as <- <-. exists l1, e, (l2 ++ [x]). rewrite <- app_assoc. repeat split; auto.
        apply Forall_app. split; [exact F2|]. constructor; [exact Lt|constructor].
    - apply scan_none in E. subst l. cbn in H. injection H as <- <-.
      exists [], x, []. repeat split; constructor.
  Qed.

  Lemma best_inv_init p o c l nbt nbv : Best_inv (init p o c l nbt nbv).
  Proof. split; reflexivity. Qed.

  (* C05 best_inv: after ANY sequence of fit() calls / user actions (callbacks may swap the loss function or the
     optimiser, change n_batches, mutate the live parameters): either nothing has been tracked yet and
     lowest_loss = best_nets = None, or the tracked epochs split as l1 ++ e :: l2 where
       lowest_loss = value of e, best_nets = the parameters snapshotted at e,
       every EARLIER tracked value is strictly larger, no LATER one is smaller. *)
  Theorem best_inv (ops : list op) p o c l nbt nbv :
    let s := run_ops ops (init p o c l nbt nbv) in
    (tracked s = [] /\ lowest s = None /\ best s = None) \/
    exists l1 e l2, tracked s = l1 ++ e :: l2 /\
                    lowest s = Some (t_val e) /\ best s = Some (t_theta e) /\
                    Forall (fun e' => vltb (t_val e) (t_val e') = true) l1 /\
                    Forall (fun e' => vltb (t_val e') (t_val e) = false) l2.
  Proof.
    cbv zeta. destruct (best_inv_ops ops _ (best_inv_init p o c l nbt nbv)) as [HL HB].
    destruct (scan (tracked (run_ops ops (init p o c l nbt nbv)))) as [[v q]|] eqn:E.
    - right. destruct (scan_spec _ _ _ E) as (l1 & e & l2 & Ht & Hv & Hp & F1 & F2).
      exists l1, e, l2. rewrite Hv, Hp. cbn in HL, HB. auto.
    - left. apply scan_none in E. cbn in HL, HB. auto.
  Qed.

  (* ---- which history is tracked *)
  Definition act_ok (Q : action -> Prop) (cbs : list callback) : Prop :=
    forall cb s, In cb cbs -> Forall Q (cb s).
  Definition op_ok (Q : action -> Prop) (o : op) : Prop :=
    match o with OFit _ cbs => act_ok Q cbs | OAct a => Q a end.
  Definition keeps_valid_on (a : action) : Prop := forall n, a = ASetNb Valid n -> n <> 0.
  Definition keeps_valid_off (a : action) : Prop := forall n, a = ASetNb Valid n -> n = 0.

  (* the tracked values are the validation history / the training history *)
  Definition Tr_valid (s : state) : Prop := nb_valid s <> 0 /\ map (@t_val P V C) (tracked s) = h_valid s.
  Definition Tr_train (s : state) : Prop := nb_valid s = 0 /\ map (@t_val P V C) (tracked s) = h_train s.

  Lemma nbv_run_epoch ph s : nb_valid (run_epoch ph s) = nb_valid s.
  Proof. pose proof (ctl_run_epoch ph s) as H. unfold C15_base.ctl in H. congruence. Qed.

  Lemma tr_valid_epoch ph s : Tr_valid s -> Tr_valid (run_epoch ph s).
  Proof.
    intros [Hn Hm]. split; [rewrite nbv_run_epoch; exact Hn|].
    destruct (Nat.eq_dec (nb ph s) 0) as [Hz|Hnz]; [rewrite run_epoch_zero; auto|].
    pose proof (bt_run_epoch ph s Hnz) as H. unfold bt, tracks in H.
    destruct (run_epoch_hists ph s Hnz) as (H1 & H2 & _).
    apply Nat.eqb_neq in Hn. destruct ph; cbn [is_train negb orb hist other] in *.
    - rewrite Hn in H. injection H as _ _ ->. rewrite H2. exact Hm.
    - cbv zeta in H. injection H as _ _ ->. rewrite H1, map_app, Hm. reflexivity.
  Qed.

  Lemma tr_train_epoch ph s : Tr_train s -> Tr_train (run_epoch ph s).
  Proof.
    intros [Hn Hm]. split; [rewrite nbv_run_epoch; exact Hn|].
    destruct (Nat.eq_dec (nb ph s) 0) as [Hz|Hnz]; [rewrite run_epoch_zero; auto|].
    pose proof (bt_run_epoch ph s Hnz) as H. unfold bt, tracks in H.
    destruct (run_epoch_hists ph s Hnz) as (H1 & H2 & _).
    destruct ph; cbn [is_train negb orb hist other nb] in *.
    - rewrite Hn in H. cbn in H. injection H as _ _ ->. rewrite H1, map_app, Hm. reflexivity.
    - contradiction.
  Qed.

  Section Tracked.
    Variable Inv : state -> Prop.
    Variable Q : action -> Prop.
    Hypothesis inv_epoch : forall ph s, Inv s -> Inv (run_epoch ph s).
    Hypothesis inv_act : forall a s, Q a -> Inv s -> Inv (apply_action a s).
    Hypothesis inv_quiet : forall s s' : state,
      nb_valid s' = nb_valid s -> tracked s' = tracked s -> h_train s' = h_train s -> h_valid s' = h_valid s ->
      Inv s -> Inv s'.

    Lemma inv_acts (acts : list action) : forall s, Forall Q acts -> Inv s ->
      Inv (fold_left (fun s' a => apply_action a s') acts s).
    Proof.
      induction acts as [|a acts IH]; intros s HF HI; cbn [fold_left]; [exact HI|].
      inversion HF; subst. apply IH; auto.
    Qed.

    Lemma inv_cbs_from (cbs : list callback) : forall i s, act_ok Q cbs -> Inv s -> Inv (run_cbs_from i cbs s).
    Proof.
      induction cbs as [|cb cbs IH]; intros i s Hok HI; cbn [Solver.run_cbs_from]; [exact HI|].
      apply IH; [intros cb' s' Hin; apply Hok; right; exact Hin|].
      unfold Solver.run_cb. apply inv_acts.
      - replace (cb (log (EvCb i) s)) with (cb (log (EvCb i) s)) by reflexivity. apply Hok. left. reflexivity.
      - apply (inv_quiet s); auto.
    Qed.

    Lemma inv_fit_loop' r : forall i cbs s, act_ok Q cbs -> Inv s -> Inv (fit_loop r i cbs s).
    Proof.
      induction r as [|r IH]; intros i cbs s Hok HI; cbn [Solver.fit_loop]; [exact HI|].
      destruct (stop s); [exact HI|]. apply IH; [exact Hok|].
      unfold Solver.iteration, Solver.run_cbs. apply inv_cbs_from; [exact Hok|].
      apply inv_epoch, inv_epoch. apply (inv_quiet s); auto.
    Qed.

    Lemma inv_ops' (ops : list op) : forall s, Forall (op_ok Q) ops -> Inv s -> Inv (run_ops ops s).
    Proof.
      induction ops as [|o ops IH]; intros s HF HI; cbn [Solver.run_ops fold_left]; [exact HI|].
      inversion HF as [|? ? Ho Hr]; subst. apply IH; [exact Hr|].
      destruct o as [m cbs|a]; cbn [Solver.run_op op_ok] in *.
      - unfold Solver.fit. apply inv_fit_loop'; [exact Ho|]. apply (inv_quiet s); auto.
      - apply inv_act; assumption.
    Qed.
  End Tracked.

  Lemma tr_valid_act a (s : state) : keeps_valid_on a -> Tr_valid s -> Tr_valid (apply_action a s).
  Proof.
    intros Hk [Hn Hm]. pose proof (rec_part_action a s) as H. unfold C15_base.rec_part in H.
    split; [|congruence].
    destruct a as [ph n| | | | | |]; try exact Hn. destruct ph; [exact Hn|]. cbn. apply (Hk n). reflexivity.
  Qed.
  Lemma tr_train_act a (s : state) : keeps_valid_off a -> Tr_train s -> Tr_train (apply_action a s).
  Proof.
    intros Hk [Hn Hm]. pose proof (rec_part_action a s) as H. unfold C15_base.rec_part in H.
    split; [|congruence].
    destruct a as [ph n| | | | | |]; try exact Hn. destruct ph; [exact Hn|]. cbn. apply (Hk n). reflexivity.
  Qed.

  (* C05 tracked_is_valid_history / tracked_is_train_history: with validation enabled throughout (no action sets
     n_batches_valid to 0) the tracked values are exactly the validation history; with validation disabled
     throughout they are exactly the training history.  Together with best_inv: lowest_loss is the minimum
     of that history and best_nets the snapshot of its earliest argmin. *)
  Theorem tracked_is_valid_history (ops : list op) p o c l nbt nbv :
    nbv <> 0 -> Forall (op_ok keeps_valid_on) ops ->
    let s := run_ops ops (init p o c l nbt nbv) in
    map (@t_val P V C) (tracked s) = h_valid s.
  Proof.
    intros Hn Hok. cbv zeta.
    apply (inv_ops' Tr_valid keeps_valid_on tr_valid_epoch tr_valid_act); [| exact Hok |split; [exact Hn|reflexivity]].
    intros s s' A1 A2 A3 A4 [B1 B2]. split; congruence.
  Qed.

  Theorem tracked_is_train_history (ops : list op) p o c l nbt :
    Forall (op_ok keeps_valid_off) ops ->
    let s := run_ops ops (init p o c l nbt 0) in
    map (@t_val P V C) (tracked s) = h_train s.
  Proof.
    intros Hok. cbv zeta.
    apply (inv_ops' Tr_train keeps_valid_off tr_train_epoch tr_train_act); [| exact Hok |split; reflexivity].
    intros s s' A1 A2 A3 A4 [B1 B2]. split; congruence.
  Qed.

  (* ======================================================================================== *)
  (* 3. the stored best is frozen unless a strictly lower loss occurs                          *)

  Definition strictly_lower (a b : option V) : Prop :=
    match a, b with
    | Some x, None => True
    | Some x, Some y => vltb x y = true
    | None, _ => False
    end.
  Definition improves (s s' : state) : Prop :=
    (lowest s' = lowest s /\ best s' = best s) \/ strictly_lower (lowest s') (lowest s).

  Lemma improves_refl s : improves s s.
  Proof. left. split; reflexivity. Qed.

  Lemma improves_trans s1 s2 s3 : improves s1 s2 -> improves s2 s3 -> improves s1 s3.
  Proof.
    intros [[A1 A2]|A] [[B1 B2]|B'].
    - left. split; congruence.
    - right. rewrite <- A1. exact B'.
    - right. rewrite B1. exact A.
    - right. unfold strictly_lower in *.
      destruct (lowest s3) as [z|]; [|contradiction].
      destruct (lowest s2) as [y|]; [|contradiction].
      destruct (lowest s1) as [x|]; [|exact I]. eapply vlt_trans; eassumption.
  Qed.

  Lemma improves_same (s s' : state) : bt s' = bt s -> improves s s'.
  Proof. unfold bt. intros H. left. split; congruence. Qed.

  (* C05 best_frozen (one epoch): an epoch that is not tracked, or whose loss is not strictly below lowest_loss,
     leaves lowest_loss and best_nets untouched; otherwise the new lowest_loss is strictly lower *)
  Theorem best_frozen_epoch ph s :
    improves s (run_epoch ph s) /\
    (nb ph s = 0 \/ tracks ph s = false \/ better (epoch_loss ph s) s = false ->
     lowest (run_epoch ph s) = lowest s /\ best (run_epoch ph s) = best s).
  Proof.
    destruct (Nat.eq_dec (nb ph s) 0) as [Hz|Hn].
    - rewrite run_epoch_zero by exact Hz. split; [apply improves_refl|auto].
    - pose proof (bt_run_epoch ph s Hn) as H. unfold bt in H. destruct (tracks ph s).
      + cbv zeta in H. injection H as H1 H2 _. unfold new_entry in H1, H2. cbn [t_val t_theta] in H1, H2.
        split.
        * unfold improves. rewrite H1, H2. unfold C15_base.better.
          destruct (lowest s) as [l0|] eqn:El.
          -- destruct (vltb (epoch_loss ph s) l0) eqn:Lt; [right; cbn; exact Lt|left; auto].
          -- right. exact I.
        * intros [K|[K|K]]; [contradiction|discriminate|]. rewrite H1, H2, K. auto.
      + injection H as H1 H2 _. split; [left; auto|auto].
  Qed.

  Lemma improves_iteration i cbs s : improves s (iteration i cbs s).
  Proof.
    unfold Solver.iteration.
    eapply improves_trans; [|apply improves_same, bt_cbs].
    eapply improves_trans; [|apply best_frozen_epoch].
    eapply improves_trans; [|apply best_frozen_epoch].
    apply improves_same. reflexivity.
  Qed.

  Lemma improves_fit_loop r : forall i cbs s, improves s (fit_loop r i cbs s).
  Proof.
    induction r as [|r IH]; intros i cbs s; cbn [Solver.fit_loop]; [apply improves_refl|].
    destruct (stop s); [apply improves_refl|].
    eapply improves_trans; [apply improves_iteration|apply IH].
  Qed.

  (* C05 best_frozen: over ANY sequence of fit() calls and user actions, the stored best networks (and lowest
     loss) are either exactly what they were, or the new lowest loss is strictly lower than the old one *)
  Theorem best_frozen (ops : list op) : forall s, improves s (run_ops ops s).
  Proof.
    induction ops as [|o ops IH]; intros s; cbn [Solver.run_ops fold_left]; [apply improves_refl|].
    eapply improves_trans; [|apply IH].
    destruct o as [m cbs|a]; cbn [Solver.run_op].
    - unfold Solver.fit. eapply improves_trans; [|apply improves_fit_loop]. apply improves_same. reflexivity.
    - apply improves_same, bt_action.
  Qed.

  (* ======================================================================================== *)
  (* 4. re-evaluating the loss with the snapshot on that epoch's batches reproduces the value   *)

  Definition mean_loss (l : nat) (c : C) (p : P) (ph : phase) (start n : nat) : V :=
    vdivn (fold_left vadd (map (loss l c p) (batches ph start n)) vzero) n.

  (* holds for entries recorded by a validation epoch (any optimiser) or by a training epoch with a plain
     optimiser (the snapshot precedes the optimiser step) *)
  Definition reproduces (e : tentry) : Prop :=
    t_phase e = Valid \/ t_closure e = false ->
    t_val e = mean_loss (t_lid e) (t_conds e) (t_theta e) (t_phase e) (t_start e) (t_n e).

  Lemma new_entry_reproduces ph s : reproduces (new_entry ph s).
  Proof.
    unfold reproduces, new_entry. cbn [t_phase t_closure t_val t_lid t_conds t_theta t_start t_n].
    intros Hm.
    assert (Hf : fixed_mode (requires_closure (ost s)) ph) by (destruct Hm; [right|left]; assumption).
    unfold C15_base.epoch_loss, C15_base.epoch_batches, mean_loss.
    pose proof (run_batches_fixed (nb ph s) (requires_closure (ost s)) ph Hf (pre_state ph s) acc0) as H.
    cbv zeta in H. destruct H as (Ht & _ & He & _).
    assert (E : lid (pre_state ph s) = lid s /\ conds (pre_state ph s) = conds s /\
                theta (pre_state ph s) = theta s /\ cur ph (pre_state ph s) = cur ph s).
    { unfold C15_base.pre_state, Solver.zero_grad. destruct (is_train ph && _); destruct ph; repeat split. }
    destruct E as (E1 & E2 & E3 & E4). rewrite E1, E2, E3, E4 in He. rewrite E3 in Ht.
    rewrite He, Ht. reflexivity.
  Qed.

  Definition Rep_inv (s : state) : Prop := Forall reproduces (tracked s).

  Lemma rep_epoch ph s : Rep_inv s -> Rep_inv (run_epoch ph s).
  Proof.
    intros HI. destruct (Nat.eq_dec (nb ph s) 0) as [Hz|Hn]; [rewrite run_epoch_zero; auto|].
    pose proof (bt_run_epoch ph s Hn) as H. unfold bt in H. unfold Rep_inv.
    destruct (tracks ph s).
    - cbv zeta in H. injection H as _ _ ->. apply Forall_app. split; [exact HI|].
      constructor; [apply new_entry_reproduces|constructor].
    - injection H as _ _ ->. exact HI.
  Qed.

  Lemma rep_same (s s' : state) : bt s' = bt s -> Rep_inv s -> Rep_inv s'.
  Proof. unfold bt, Rep_inv. intros H. injection H as _ _ ->. auto. Qed.

  Lemma rep_fit_loop r : forall i cbs s, Rep_inv s -> Rep_inv (fit_loop r i cbs s).
  Proof.
    induction r as [|r IH]; intros i cbs s HI; cbn [Solver.fit_loop]; [exact HI|].
    destruct (stop s); [exact HI|]. apply IH. unfold Solver.iteration.
    eapply rep_same; [apply bt_cbs|]. apply rep_epoch, rep_epoch. eapply rep_same; [|exact HI]. reflexivity.
  Qed.

  Lemma rep_ops (ops : list op) : forall s, Rep_inv s -> Rep_inv (run_ops ops s).
  Proof.
    induction ops as [|o ops IH]; intros s HI; cbn [Solver.run_ops fold_left]; [exact HI|].
    apply IH. destruct o as [m cbs|a]; cbn [Solver.run_op].
    - unfold Solver.fit. apply rep_fit_loop. eapply rep_same; [|exact HI]. reflexivity.
    - eapply rep_same; [apply bt_action|exact HI].
  Qed.

  (* C05 best_reproduces: after any op sequence, if the epoch that produced lowest_loss was a validation epoch
     (any optimiser, also after callbacks swapped loss function / optimiser: the entry remembers the loss id
     and conditions of ITS epoch) or a training epoch with a plain optimiser, then the mean over that epoch's
     batches of the loss evaluated with best_nets equals lowest_loss *)
  Theorem best_reproduces (ops : list op) p o c l nbt nbv :
    let s := run_ops ops (init p o c l nbt nbv) in
    forall l1 e l2, tracked s = l1 ++ e :: l2 -> lowest s = Some (t_val e) -> best s = Some (t_theta e) ->
    t_phase e = Valid \/ t_closure e = false ->
    mean_loss (t_lid e) (t_conds e) (t_theta e) (t_phase e) (t_start e) (t_n e) = t_val e.
  Proof.
    cbv zeta. intros l1 e l2 Ht _ _ Hm.
    assert (HR : Rep_inv (run_ops ops (init p o c l nbt nbv))) by (apply rep_ops; constructor).
    unfold Rep_inv in HR. rewrite Ht in HR. apply Forall_app in HR. destruct HR as [_ HR].
    inversion HR as [|? ? He _]; subst. symmetry. apply He. exact Hm.
  Qed.

  (* ---- closure optimiser with validation disabled (finding F7): the snapshot is taken AFTER the optimiser
     moved the parameters, while the recorded loss was computed BEFORE (at the last closure evaluation of each
     batch).  What does hold: *)
  Fixpoint closure_final (l : nat) (c : C) (o : O) (p : P) (bs : list B) : P :=
    match bs with
    | [] => p
    | b :: bs' => match closure_opt o p (fun q => (loss l c q b, gradl l c q b)) with
                  | (o', _, p') => closure_final l c o' p' bs'
                  end
    end.
  Fixpoint closure_pts (l : nat) (c : C) (o : O) (p : P) (bs : list B) : list (B * list P) :=
    match bs with
    | [] => []
    | b :: bs' => match closure_opt o p (fun q => (loss l c q b, gradl l c q b)) with
                  | (o', pts, p') => (b, pts) :: closure_pts l c o' p' bs'
                  end
    end.

  Lemma last_opt_some {A : Type} (l : list A) (d : A) : l <> [] -> last_opt l = Some (last l d).
  Proof.
    induction l as [|x l IH]; [contradiction|]. intros _. destruct l as [|y l']; [reflexivity|].
    change (last_opt (x :: y :: l')) with (last_opt (y :: l')). change (last (x :: y :: l') d) with (last (y :: l') d).
    apply IH. discriminate.
  Qed.

  Lemma closure_fold_spec (l : nat) (c : C) (d : P) : forall bs o p g a,
    Forall (fun bp => snd bp <> []) (closure_pts l c o p bs) ->
    let r := fold_left (closure_batch l c) bs (o, p, g, a) in
    snd (fst (fst r)) = closure_final l c o p bs /\
    a_eloss (snd r) = fold_left vadd (map (fun bp => loss l c (last (snd bp) d) (fst bp)) (closure_pts l c o p bs))
                                (a_eloss a).
  Proof.
    induction bs as [|b bs IH]; intros o p g a HF; cbn [fold_left closure_final closure_pts map] in *.
    - split; reflexivity.
    - unfold C15_base.closure_batch at 2 4.
      destruct (closure_opt o p _) as [[o' pts] p'].
      inversion HF as [|? ? Hne Hrest]; subst. cbn [snd] in Hne.
      specialize (IH o' p'). cbv zeta in IH.
      rewrite (last_opt_some pts d Hne).
      match goal with |- context [fold_left _ bs (o', p', ?g1, ?a1)] => destruct (IH g1 a1 Hrest) as [I1 I2] end.
      rewrite I1, I2. cbn [a_eloss fst snd]. split; reflexivity.
  Qed.

  (* C05 best_closure_novalid_partial.
     FULL-STRENGTH statement (fails, findings/F_C05_closure.v): re-evaluating the loss with best_nets on that
     epoch's batches reproduces lowest_loss.
     Proved instead: for a training epoch driven by a closure optimiser with validation disabled, the tracked
     value is the mean over the batches of the loss at the LAST closure evaluation of each batch, and the
     snapshot holds the parameters AFTER the last optimiser call of the epoch. *)
  Theorem best_closure_novalid_partial s (d : P) :
    nb_train s <> 0 -> requires_closure (ost s) = true -> nb_valid s = 0 ->
    let bs := batches Train (cur_train s) (nb_train s) in
    Forall (fun bp => snd bp <> []) (closure_pts (lid s) (conds s) (ost s) (theta s) bs) ->
    exists e, tracked (run_epoch Train s) = tracked s ++ [e] /\
              t_theta e = closure_final (lid s) (conds s) (ost s) (theta s) bs /\
              t_val e = vdivn (fold_left vadd
                                 (map (fun bp => loss (lid s) (conds s) (last (snd bp) d) (fst bp))
                                      (closure_pts (lid s) (conds s) (ost s) (theta s) bs)) vzero) (nb_train s).
  Proof.
    intros Hn Hc Hv bs HF.
    pose proof (bt_run_epoch Train s Hn) as H. unfold bt, tracks in H. cbn [is_train negb orb] in H.
    rewrite Hv in H. cbn in H. injection H as _ _ H3.
    exists (new_entry Train s). split; [exact H3|].
    unfold new_entry. cbn [t_theta t_val].
    unfold C15_base.epoch_loss, C15_base.epoch_batches. cbn [nb]. rewrite Hc.
    pose proof (run_batches_closure (nb_train s) (pre_state Train s) acc0) as R. cbv zeta in R.
    assert (E : lid (pre_state Train s) = lid s /\ conds (pre_state Train s) = conds s /\
                theta (pre_state Train s) = theta s /\ ost (pre_state Train s) = ost s /\
                cur_train (pre_state Train s) = cur_train s).
    { unfold C15_base.pre_state. rewrite Hc. cbn. repeat split. }
    destruct E as (E1 & E2 & E3 & E4 & E5). rewrite E1, E2, E3, E4, E5 in R. fold bs in R.
    pose proof (closure_fold_spec (lid s) (conds s) d bs (ost s) (theta s) (grad (pre_state Train s)) acc0 HF) as K.
    cbv zeta in K. rewrite <- R in K. cbn [fst snd] in K. destruct K as [K1 K2].
    rewrite K1, K2. split; reflexivity.
  Qed.

End C05.

(* ------------------------------------------------------------------------------------------ *)
(* Non-vacuity: the order hypotheses are satisfiable (rationals, the toy instance's comparison),  *)
(* and the premises of best_reproduces / the closure theorem hold on concrete runs of the toy.   *)
From Coq Require Import ZArith QArith.
Module C05_examples.
  Import Toy.

  Lemma qltb_lt a b : qltb a b = true <-> (a < b)%Q.
  Proof.
    unfold qltb. rewrite negb_true_iff. split; intros H.
    - apply Qnot_le_lt. intros K. apply Qle_bool_iff in K. congruence.
    - destruct (Qle_bool b a) eqn:E; [|reflexivity]. apply Qle_bool_iff in E. exfalso. apply (Qlt_not_le _ _ H E).
  Qed.

  Example order_hypotheses_satisfiable :
    (forall a, qltb a a = false) /\
    (forall a b c, qltb a b = true -> qltb b c = true -> qltb a c = true) /\
    (forall a b c, qltb a b = true -> qltb a c = true \/ qltb c b = true).
  Proof.
    split; [|split].
    - intros a. unfold qltb. rewrite negb_false_iff. apply Qle_bool_iff. apply Qle_refl.
    - intros a b c H1 H2. apply qltb_lt in H1. apply qltb_lt in H2. apply qltb_lt. eapply Qlt_trans; eassumption.
    - intros a b c H. apply qltb_lt in H. destruct (Qlt_le_dec a c) as [K|K].
      + left. apply qltb_lt. exact K.
      + right. apply qltb_lt. eapply Qle_lt_trans; eassumption.
  Qed.

  Local Close Scope Q_scope.
  Definition cfg := mkCfg S1D 1 [1%Z] [0] 1 (@nil nat) false.
  Definition trs : list (list (list Q)) := [[[Qmake 1 1; Qmake 2 1]]; [[Qmake 0 1; Qmake 3 1]]; [[Qmake 1 1; Qmake 2 1]]].
  Definition cds := [mkCond 5%Z 1%Z SigVariadic].
  Definition s_plain : t_state := t_init cfg 0 [Qmake 1 2] (TSgd (Qmake 1 4)) cds 0 1 0.
  Definition s_clo : t_state := t_init cfg 0 [Qmake 1 2] (TScript (Qmake 1 4) [2; 1]) cds 0 1 0.

  (* a plain-optimiser run whose tracked minimum is a training entry: premises of best_reproduces hold *)
  Example best_reproduces_premises :
    let s := t_fit cfg 0 trs [] 3 [] s_plain in
    exists l1 e l2, tracked s = l1 ++ e :: l2 /\ lowest s = Some (t_val e) /\ best s = Some (t_theta e) /\
                    t_closure e = false.
  Proof.
    cbv zeta. remember (tracked (t_fit cfg 0 trs [] 3 [] s_plain)) as tr eqn:E. vm_compute in E.
    match type of E with _ = [?a; ?b; ?c] => exists [a; b], c, [] end.
    subst tr. repeat split; vm_compute; reflexivity.
  Qed.

  Example closure_novalid_premises :
    nb_train s_clo <> 0 /\ t_requires_closure (ost s_clo) = true /\ nb_valid s_clo = 0 /\
    Forall (fun bp : list (list Q) * list (list Q) => snd bp <> [])
           (closure_pts _ _ _ _ _ _ (t_loss cfg) (t_grad cfg) t_closure_opt (lid s_clo) (conds s_clo) (ost s_clo) (theta s_clo)
                        (batches _ (t_draw trs []) Train (cur_train s_clo) (nb_train s_clo))).
  Proof.
    split; [vm_compute; discriminate|]. split; [reflexivity|]. split; [reflexivity|].
    vm_compute. repeat constructor; discriminate.
  Qed.
End C05_examples.
