(* C14: the step functions GENERATED from BatchGenerator's source (gen/Gen_C14.v) equal the
   column model of model/Batch.v for all states, draws and fuel; so the theorems about the
   model transfer to the code as translated. *)
From Coq Require Import List Arith ZArith Bool Lia.
Import ListNotations.
From ND.model Require Import PySem Batch.
From ND.gen Require Import Gen_C14.
From ND.proofs Require Import C14_batch.

(* the underlying draws as columns *)
Definition cdraw_of_py (draw : nat -> pyv) : nat -> list (list Z) := fun k => cols_of (draw k).

(* what get_examples returns for the per-dimension batch b: the tensor itself for one dimension, else the list *)
Definition ret_of (b : list (list Z)) : pyv := match b with [c] => PT c | _ => PL b end.

Lemma cols_of_ret_of b : cols_of (ret_of b) = b.
Proof. destruct b as [|c [|c2 l]]; reflexivity. Qed.

Lemma is_tensor_ret_of b : is_tensor (ret_of b) = Nat.eqb (length b) 1.
Proof. destruct b as [|c [|c2 l]]; reflexivity. Qed.

Lemma wrap_tensor_seq v : as_seq (if is_tensor v then PL [as_tensor v] else v) = cols_of v.
Proof. destruct v; reflexivity. Qed.

Lemma normalise_init v :
  (if is_tuple (if is_tensor v then PL [as_tensor v] else v)
   then PL (as_seq (if is_tensor v then PL [as_tensor v] else v))
   else (if is_tensor v then PL [as_tensor v] else v)) = PL (cols_of v).
Proof. destruct v; reflexivity. Qed.

Lemma zipwith_cat2 a : forall b, zipwith (fun x n => cat2 x n) a b = zip_app Z a b.
Proof.
  induction a as [|x a IH]; intros [|n b]; cbn [zipwith zip_app]; try reflexivity.
  rewrite IH. reflexivity.
Qed.

Definition st_of (s : cst Z) : pyv * nat := (PL (ccached s), ctaken s).

(* __init__ *)
Theorem gen_init_eq (draw : nat -> pyv) (gsize batch_size : nat) :
  batch_init draw gsize batch_size 0 =
  if Nat.leb gsize 0 then None
  else Some (batch_size, fst (st_of (cinit Z (cdraw_of_py draw))), snd (st_of (cinit Z (cdraw_of_py draw)))).
Proof.
  (* by cases on the kind of the first draw: insensitive to how the source spells the
     Tensor -> [Tensor] / tuple -> list normalisation (inline ifs, a helper, temporaries) *)
  unfold batch_init. destruct gsize as [|g']; [reflexivity|].
  cbn [Nat.leb Nat.ltb negb]. cbv zeta. unfold cinit, cdraw_of_py, st_of. cbn [fst snd ccached ctaken].
  destruct (draw 0); reflexivity.
Qed.

(* the while loop *)
Theorem gen_loop_eq (draw : nat -> pyv) (size : nat) : forall fuel cs t,
    batch_get_examples_loop draw size fuel (PL cs) t =
    option_map st_of (crefill Z (cdraw_of_py draw) fuel size {| ccached := cs; ctaken := t |}).
Proof.
  induction fuel as [|f IH]; intros cs t; cbn [batch_get_examples_loop crefill ccached ctaken as_seq];
    destruct cs as [|c0 rest]; cbn [index0]; try reflexivity;
    repeat rewrite Nat.leb_antisym; repeat rewrite negb_involutive;
    destruct (Nat.ltb (length c0) size); cbn [negb]; try reflexivity.
  cbv zeta. change (cdraw_of_py draw t) with (cols_of (draw t)).
  destruct (draw t); cbn [is_tensor is_tuple is_list as_tensor as_seq cols_of];
    rewrite zipwith_cat2; apply IH.
Qed.

(* one get_examples() call *)
Theorem gen_get_eq (draw : nat -> pyv) (size fuel : nat) cs t :
  batch_get_examples fuel draw size (PL cs) t =
  option_map (fun p => (ret_of (fst p), (size, fst (st_of (snd p)), snd (st_of (snd p)))))
             (cget Z (cdraw_of_py draw) fuel size {| ccached := cs; ctaken := t |}).
Proof.
  unfold batch_get_examples, cget. rewrite gen_loop_eq.
  destruct (crefill Z (cdraw_of_py draw) fuel size {| ccached := cs; ctaken := t |}) as [s1|]; [|reflexivity].
  cbn [option_map st_of fst snd ccached ctaken as_seq]. cbv zeta.
  unfold slice_to, slice_from.
  destruct (map (fun x : list Z => firstn size x) (ccached s1)) as [|c [|c2 l]] eqn:E; reflexivity.
Qed.

(* any number of calls on the generated step *)
Fixpoint grun (fuel : nat) (draw : nat -> pyv) (size k : nat) (c : pyv) (t : nat) : option (list pyv * (pyv * nat)) :=
  match k with
  | O => Some ([], (c, t))
  | S k' => match batch_get_examples fuel draw size c t with
            | None => None
            | Some (v, (_, c1, t1)) => match grun fuel draw size k' c1 t1 with
                                       | None => None
                                       | Some (vs, s2) => Some (v :: vs, s2)
                                       end
            end
  end.

Theorem gen_run_eq (draw : nat -> pyv) (size fuel k : nat) : forall cs t,
    grun fuel draw size k (PL cs) t =
    option_map (fun p => (map ret_of (fst p), st_of (snd p)))
               (crun Z (cdraw_of_py draw) fuel size k {| ccached := cs; ctaken := t |}).
Proof.
  induction k as [|k IH]; intros cs t; cbn [grun crun]; [reflexivity|].
  rewrite gen_get_eq.
  destruct (cget Z (cdraw_of_py draw) fuel size {| ccached := cs; ctaken := t |}) as [[b s1]|]; [|reflexivity].
  cbn [option_map fst snd st_of]. destruct s1 as [c1 t1]. cbn [ccached ctaken]. rewrite IH.
  destruct (crun Z (cdraw_of_py draw) fuel size k {| ccached := c1; ctaken := t1 |}) as [[bs s2]|]; reflexivity.
Qed.

(* transfer: the code as translated streams the rows of the draws *)
Theorem gen_stream (d : nat) (draw : nat -> pyv) (gsize size fuel k : nat) :
  1 <= d -> 1 <= gsize -> (forall n, wf_cols d (cols_of (draw n))) ->
  forall sz c0 t0 vs c' t',
    batch_init draw gsize size 0 = Some (sz, c0, t0) ->
    grun fuel draw sz k c0 t0 = Some (vs, (c', t')) ->
    sz = size /\
    exists (bs : list (list (list Z))) (s' : st (list Z)),
      map cols_of vs = map (cols d (zproj Z 0%Z)) bs /\
      cols_of c' = cols d (zproj Z 0%Z) (cached s') /\ t' = taken s' /\
      concat bs ++ cached s' = draws _ (rdraw d (cdraw_of_py draw)) (taken s') /\
      Forall (fun b => length b = size) bs /\
      Forall (fun v => is_tensor v = Nat.eqb d 1) vs.
Proof.
  intros Hd Hg Hwf sz c0 t0 vs c' t' Hi Hr.
  rewrite gen_init_eq in Hi. destruct (Nat.leb gsize 0) eqn:Ele; [apply Nat.leb_le in Ele; lia|].
  injection Hi as <- <- <-. split; [reflexivity|].
  unfold st_of in Hr. cbn [fst snd] in Hr. rewrite gen_run_eq in Hr.
  match type of Hr with
  | context [crun ?a ?b ?c ?d ?e ?f] => destruct (crun a b c d e f) as [[cbs cs']|] eqn:R
  end; [|cbn [option_map] in Hr; discriminate].
  cbn [option_map fst snd st_of] in Hr. injection Hr as <- <- <-.
  assert (R' : crun Z (cdraw_of_py draw) fuel size k (cinit Z (cdraw_of_py draw)) = Some (cbs, cs')) by exact R.
  destruct (columns_stream d Hd (cdraw_of_py draw) Hwf fuel size k cbs cs' R') as [bs [s' [E1 [E2 [E3 [E4 E5]]]]]].
  exists bs, s'. repeat split; auto.
  - rewrite map_map. rewrite <- E1. rewrite <- (map_id cbs) at 2. apply map_ext. intros b. apply cols_of_ret_of.
  - apply Forall_forall. intros v Hv. apply in_map_iff in Hv as [b [<- Hb]]. rewrite is_tensor_ret_of.
    rewrite E1 in Hb. apply in_map_iff in Hb as [rs [<- _]].
    unfold cols. rewrite map_length, seq_length. reflexivity.
Qed.
