(* C17 — the 25 real spherical harmonics of function_basis.py are eigenfunctions of the angular
   Laplacian with eigenvalue -l(l+1), and for each of them the basis-space Laplacian of one
   summand R(r) Y_k equals the full spherical Laplacian (operators.py) of that summand.
   Terms regenerated into gen/Gen_C17.v.  DESIGN.md §7 C17. *)
From Coq Require Import Reals List Lra Lia ZArith Field.
From ND.lib Require Import Expr Tac.
From ND.gen Require Import Gen_C17.
Import ListNotations.
Open Scope R_scope.

(* angular part of the Laplacian on the unit sphere; theta = leaf 0, phi = leaf 1 *)
Definition ang_lap (Y : expr) : expr :=
  D 0 (ESin (EVar 0) *' D 0 Y) /' ESin (EVar 0) +' D 1 (D 1 Y) /' EPow (ESin (EVar 0)) 2.

Ltac trig2 venv T P :=
  rewrite ?cos_2a_sin, ?sin_2a;
  generalize (sc2 (venv T)) (sc2 (venv P));
  set (s := sin (venv T)) in *; set (c := cos (venv T)); set (sp := sin (venv P)); set (cp := cos (venv P));
  let H1 := fresh "H1" in let H2 := fresh "H2" in intros H1 H2; field [H1 H2]; auto.

Ltac eigen := intros venv penv fenv Hs; reduce_eval; trig2 venv 0%nat 1%nat.
Ltac single := intros venv penv fenv Hr Hs; reduce_eval; set (R0 := venv 0%nat) in *; trig2 venv 1%nat 2%nat.

Lemma Y0_0_eigen : forall venv penv fenv, sin (venv 0%nat) <> 0 ->
  eval venv penv fenv (ang_lap Y0_0.term) = - 0 * eval venv penv fenv Y0_0.term.
Proof. eigen. Qed.

Lemma Y1n1_eigen : forall venv penv fenv, sin (venv 0%nat) <> 0 ->
  eval venv penv fenv (ang_lap Y1n1.term) = - 2 * eval venv penv fenv Y1n1.term.
Proof. eigen. Qed.

Lemma Y1_0_eigen : forall venv penv fenv, sin (venv 0%nat) <> 0 ->
  eval venv penv fenv (ang_lap Y1_0.term) = - 2 * eval venv penv fenv Y1_0.term.
Proof. eigen. Qed.

Lemma Y1p1_eigen : forall venv penv fenv, sin (venv 0%nat) <> 0 ->
  eval venv penv fenv (ang_lap Y1p1.term) = - 2 * eval venv penv fenv Y1p1.term.
Proof. eigen. Qed.

Lemma Y2n2_eigen : forall venv penv fenv, sin (venv 0%nat) <> 0 ->
  eval venv penv fenv (ang_lap Y2n2.term) = - 6 * eval venv penv fenv Y2n2.term.
Proof. eigen. Qed.

Lemma Y2n1_eigen : forall venv penv fenv, sin (venv 0%nat) <> 0 ->
  eval venv penv fenv (ang_lap Y2n1.term) = - 6 * eval venv penv fenv Y2n1.term.
Proof. eigen. Qed.

Lemma Y2_0_eigen : forall venv penv fenv, sin (venv 0%nat) <> 0 ->
  eval venv penv fenv (ang_lap Y2_0.term) = - 6 * eval venv penv fenv Y2_0.term.
Proof. eigen. Qed.

Lemma Y2p1_eigen : forall venv penv fenv, sin (venv 0%nat) <> 0 ->
  eval venv penv fenv (ang_lap Y2p1.term) = - 6 * eval venv penv fenv Y2p1.term.
Proof. eigen. Qed.

Lemma Y2p2_eigen : forall venv penv fenv, sin (venv 0%nat) <> 0 ->
  eval venv penv fenv (ang_lap Y2p2.term) = - 6 * eval venv penv fenv Y2p2.term.
Proof. eigen. Qed.

Lemma Y3n3_eigen : forall venv penv fenv, sin (venv 0%nat) <> 0 ->
  eval venv penv fenv (ang_lap Y3n3.term) = - 12 * eval venv penv fenv Y3n3.term.
Proof. eigen. Qed.

Lemma Y3n2_eigen : forall venv penv fenv, sin (venv 0%nat) <> 0 ->
  eval venv penv fenv (ang_lap Y3n2.term) = - 12 * eval venv penv fenv Y3n2.term.
Proof. eigen. Qed.

Lemma Y3n1_eigen : forall venv penv fenv, sin (venv 0%nat) <> 0 ->
  eval venv penv fenv (ang_lap Y3n1.term) = - 12 * eval venv penv fenv Y3n1.term.
Proof. eigen. Qed.

Lemma Y3_0_eigen : forall venv penv fenv, sin (venv 0%nat) <> 0 ->
  eval venv penv fenv (ang_lap Y3_0.term) = - 12 * eval venv penv fenv Y3_0.term.
Proof. eigen. Qed.

Lemma Y3p1_eigen : forall venv penv fenv, sin (venv 0%nat) <> 0 ->
  eval venv penv fenv (ang_lap Y3p1.term) = - 12 * eval venv penv fenv Y3p1.term.
Proof. eigen. Qed.

Lemma Y3p2_eigen : forall venv penv fenv, sin (venv 0%nat) <> 0 ->
  eval venv penv fenv (ang_lap Y3p2.term) = - 12 * eval venv penv fenv Y3p2.term.
Proof. eigen. Qed.

Lemma Y3p3_eigen : forall venv penv fenv, sin (venv 0%nat) <> 0 ->
  eval venv penv fenv (ang_lap Y3p3.term) = - 12 * eval venv penv fenv Y3p3.term.
Proof. eigen. Qed.

Lemma Y4n4_eigen : forall venv penv fenv, sin (venv 0%nat) <> 0 ->
  eval venv penv fenv (ang_lap Y4n4.term) = - 20 * eval venv penv fenv Y4n4.term.
Proof. eigen. Qed.

Lemma Y4n3_eigen : forall venv penv fenv, sin (venv 0%nat) <> 0 ->
  eval venv penv fenv (ang_lap Y4n3.term) = - 20 * eval venv penv fenv Y4n3.term.
Proof. eigen. Qed.

Lemma Y4n2_eigen : forall venv penv fenv, sin (venv 0%nat) <> 0 ->
  eval venv penv fenv (ang_lap Y4n2.term) = - 20 * eval venv penv fenv Y4n2.term.
Proof. eigen. Qed.

Lemma Y4n1_eigen : forall venv penv fenv, sin (venv 0%nat) <> 0 ->
  eval venv penv fenv (ang_lap Y4n1.term) = - 20 * eval venv penv fenv Y4n1.term.
Proof. eigen. Qed.

Lemma Y4_0_eigen : forall venv penv fenv, sin (venv 0%nat) <> 0 ->
  eval venv penv fenv (ang_lap Y4_0.term) = - 20 * eval venv penv fenv Y4_0.term.
Proof. eigen. Qed.

Lemma Y4p1_eigen : forall venv penv fenv, sin (venv 0%nat) <> 0 ->
  eval venv penv fenv (ang_lap Y4p1.term) = - 20 * eval venv penv fenv Y4p1.term.
Proof. eigen. Qed.

Lemma Y4p2_eigen : forall venv penv fenv, sin (venv 0%nat) <> 0 ->
  eval venv penv fenv (ang_lap Y4p2.term) = - 20 * eval venv penv fenv Y4p2.term.
Proof. eigen. Qed.

Lemma Y4p3_eigen : forall venv penv fenv, sin (venv 0%nat) <> 0 ->
  eval venv penv fenv (ang_lap Y4p3.term) = - 20 * eval venv penv fenv Y4p3.term.
Proof. eigen. Qed.

Lemma Y4p4_eigen : forall venv penv fenv, sin (venv 0%nat) <> 0 ->
  eval venv penv fenv (ang_lap Y4p4.term) = - 20 * eval venv penv fenv Y4p4.term.
Proof. eigen. Qed.

Lemma single_0_ok : forall venv penv fenv, venv 0%nat <> 0 -> sin (venv 1%nat) <> 0 ->
  eval venv penv fenv single_sph_0.term = eval venv penv fenv single_basis_0.term.
Proof. single. Qed.

Lemma single_1_ok : forall venv penv fenv, venv 0%nat <> 0 -> sin (venv 1%nat) <> 0 ->
  eval venv penv fenv single_sph_1.term = eval venv penv fenv single_basis_1.term.
Proof. single. Qed.

Lemma single_2_ok : forall venv penv fenv, venv 0%nat <> 0 -> sin (venv 1%nat) <> 0 ->
  eval venv penv fenv single_sph_2.term = eval venv penv fenv single_basis_2.term.
Proof. single. Qed.

Lemma single_3_ok : forall venv penv fenv, venv 0%nat <> 0 -> sin (venv 1%nat) <> 0 ->
  eval venv penv fenv single_sph_3.term = eval venv penv fenv single_basis_3.term.
Proof. single. Qed.

Lemma single_4_ok : forall venv penv fenv, venv 0%nat <> 0 -> sin (venv 1%nat) <> 0 ->
  eval venv penv fenv single_sph_4.term = eval venv penv fenv single_basis_4.term.
Proof. single. Qed.

Lemma single_5_ok : forall venv penv fenv, venv 0%nat <> 0 -> sin (venv 1%nat) <> 0 ->
  eval venv penv fenv single_sph_5.term = eval venv penv fenv single_basis_5.term.
Proof. single. Qed.

Lemma single_6_ok : forall venv penv fenv, venv 0%nat <> 0 -> sin (venv 1%nat) <> 0 ->
  eval venv penv fenv single_sph_6.term = eval venv penv fenv single_basis_6.term.
Proof. single. Qed.

Lemma single_7_ok : forall venv penv fenv, venv 0%nat <> 0 -> sin (venv 1%nat) <> 0 ->
  eval venv penv fenv single_sph_7.term = eval venv penv fenv single_basis_7.term.
Proof. single. Qed.

Lemma single_8_ok : forall venv penv fenv, venv 0%nat <> 0 -> sin (venv 1%nat) <> 0 ->
  eval venv penv fenv single_sph_8.term = eval venv penv fenv single_basis_8.term.
Proof. single. Qed.

Lemma single_9_ok : forall venv penv fenv, venv 0%nat <> 0 -> sin (venv 1%nat) <> 0 ->
  eval venv penv fenv single_sph_9.term = eval venv penv fenv single_basis_9.term.
Proof. single. Qed.

Lemma single_10_ok : forall venv penv fenv, venv 0%nat <> 0 -> sin (venv 1%nat) <> 0 ->
  eval venv penv fenv single_sph_10.term = eval venv penv fenv single_basis_10.term.
Proof. single. Qed.

Lemma single_11_ok : forall venv penv fenv, venv 0%nat <> 0 -> sin (venv 1%nat) <> 0 ->
  eval venv penv fenv single_sph_11.term = eval venv penv fenv single_basis_11.term.
Proof. single. Qed.

Lemma single_12_ok : forall venv penv fenv, venv 0%nat <> 0 -> sin (venv 1%nat) <> 0 ->
  eval venv penv fenv single_sph_12.term = eval venv penv fenv single_basis_12.term.
Proof. single. Qed.

Lemma single_13_ok : forall venv penv fenv, venv 0%nat <> 0 -> sin (venv 1%nat) <> 0 ->
  eval venv penv fenv single_sph_13.term = eval venv penv fenv single_basis_13.term.
Proof. single. Qed.

Lemma single_14_ok : forall venv penv fenv, venv 0%nat <> 0 -> sin (venv 1%nat) <> 0 ->
  eval venv penv fenv single_sph_14.term = eval venv penv fenv single_basis_14.term.
Proof. single. Qed.

Lemma single_15_ok : forall venv penv fenv, venv 0%nat <> 0 -> sin (venv 1%nat) <> 0 ->
  eval venv penv fenv single_sph_15.term = eval venv penv fenv single_basis_15.term.
Proof. single. Qed.

Lemma single_16_ok : forall venv penv fenv, venv 0%nat <> 0 -> sin (venv 1%nat) <> 0 ->
  eval venv penv fenv single_sph_16.term = eval venv penv fenv single_basis_16.term.
Proof. single. Qed.

Lemma single_17_ok : forall venv penv fenv, venv 0%nat <> 0 -> sin (venv 1%nat) <> 0 ->
  eval venv penv fenv single_sph_17.term = eval venv penv fenv single_basis_17.term.
Proof. single. Qed.

Lemma single_18_ok : forall venv penv fenv, venv 0%nat <> 0 -> sin (venv 1%nat) <> 0 ->
  eval venv penv fenv single_sph_18.term = eval venv penv fenv single_basis_18.term.
Proof. single. Qed.

Lemma single_19_ok : forall venv penv fenv, venv 0%nat <> 0 -> sin (venv 1%nat) <> 0 ->
  eval venv penv fenv single_sph_19.term = eval venv penv fenv single_basis_19.term.
Proof. single. Qed.

Lemma single_20_ok : forall venv penv fenv, venv 0%nat <> 0 -> sin (venv 1%nat) <> 0 ->
  eval venv penv fenv single_sph_20.term = eval venv penv fenv single_basis_20.term.
Proof. single. Qed.

Lemma single_21_ok : forall venv penv fenv, venv 0%nat <> 0 -> sin (venv 1%nat) <> 0 ->
  eval venv penv fenv single_sph_21.term = eval venv penv fenv single_basis_21.term.
Proof. single. Qed.

Lemma single_22_ok : forall venv penv fenv, venv 0%nat <> 0 -> sin (venv 1%nat) <> 0 ->
  eval venv penv fenv single_sph_22.term = eval venv penv fenv single_basis_22.term.
Proof. single. Qed.

Lemma single_23_ok : forall venv penv fenv, venv 0%nat <> 0 -> sin (venv 1%nat) <> 0 ->
  eval venv penv fenv single_sph_23.term = eval venv penv fenv single_basis_23.term.
Proof. single. Qed.

Lemma single_24_ok : forall venv penv fenv, venv 0%nat <> 0 -> sin (venv 1%nat) <> 0 ->
  eval venv penv fenv single_sph_24.term = eval venv penv fenv single_basis_24.term.
Proof. single. Qed.
