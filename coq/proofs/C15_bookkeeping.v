(* C15_bookkeeping.v — epoch and metric bookkeeping across ANY sequence of fit() calls (property C15).
   All statements are about the executable model coq/model/Solver.v, for arbitrary components
   (parameters, gradients, batches, values, optimisers, generator streams, callbacks) and are proved
   by induction over the list of operations / the fit loop / the batch loop: no bound anywhere. *)
From Coq Require Import List Arith Bool Lia.
From ND.model Require Import Solver.
From ND.proofs Require Import C15_base.
Import ListNotations.

Section C15.
  Variables P G B V O C : Type.
  Variable loss : nat -> C -> P -> B -> V.
  Variable gradl : nat -> C -> P -> B -> G.
  Variable metric : nat -> C -> P -> B -> V.
  Variable nmetrics : nat.
  Variable gzero : G.
  Variable gadd : G -> G -> G.
  Variable vzero : V.
  Variable vadd : V -> V -> V.
  Variable vdivn : V -> nat -> V.
  Variable vltb : V -> V -> bool.
  Variable requires_closure : O -> bool.
  Variable opt_step : O -> P -> G -> O * P.
  Variable closure_opt : O -> P -> (P -> V * G) -> O * list P * P.
  Variable draw : phase -> nat -> B.

  Local Notation state := (Solver.state P G V O C).
  Local Notation acc := (Solver.acc V).
  Local Notation callback := (Solver.callback P G V O C).
  Local Notation action := (Solver.action P O C).
  Local Notation op := (Solver.op P G V O C).
  Local Notation acc0 := (Solver.acc0 nmetrics vzero).
  Local Notation met_add := (Solver.met_add metric vadd).
  Local Notation met_add_from := (Solver.met_add_from metric vadd).
  Local Notation closure_of := (Solver.closure_of loss gradl).
  Local Notation eval_batch := (Solver.eval_batch loss gradl metric gadd vadd closure_opt).
  Local Notation batch_step := (Solver.batch_step loss gradl metric gadd vadd closure_opt draw).
  Local Notation run_batches := (Solver.run_batches loss gradl metric gadd vadd closure_opt draw).
  Local Notation update_best := (Solver.update_best vltb).
  Local Notation do_step := (Solver.do_step opt_step).
  Local Notation zero_grad := (Solver.zero_grad gzero).
  Local Notation run_epoch := (Solver.run_epoch loss gradl metric nmetrics gzero gadd vzero vadd vdivn vltb requires_closure opt_step closure_opt draw).
  Local Notation iteration := (Solver.iteration loss gradl metric nmetrics gzero gadd vzero vadd vdivn vltb requires_closure opt_step closure_opt draw).
  Local Notation fit_loop := (Solver.fit_loop loss gradl metric nmetrics gzero gadd vzero vadd vdivn vltb requires_closure opt_step closure_opt draw).
  Local Notation fit := (Solver.fit loss gradl metric nmetrics gzero gadd vzero vadd vdivn vltb requires_closure opt_step closure_opt draw).
  Local Notation run_op := (Solver.run_op loss gradl metric nmetrics gzero gadd vzero vadd vdivn vltb requires_closure opt_step closure_opt draw).
  Local Notation run_ops := (Solver.run_ops loss gradl metric nmetrics gzero gadd vzero vadd vdivn vltb requires_closure opt_step closure_opt draw).
  Local Notation init := (Solver.init V nmetrics gzero).

  (* lemmas of the earlier files, applied to the components above *)
  Local Notation batches := (C15_base.batches B draw).
  Local Notation same_book := (C15_base.same_book P G V O C).
  Local Notation same_book_refl := (C15_base.same_book_refl P G V O C).
  Local Notation same_book_trans := (C15_base.same_book_trans P G V O C).
  Local Notation batch_step_book := (C15_base.batch_step_book P G B V O C loss gradl metric gadd vadd closure_opt draw).
  Local Notation run_batches_book := (C15_base.run_batches_book P G B V O C loss gradl metric gadd vadd closure_opt draw).
  Local Notation batch_step_cur := (C15_base.batch_step_cur P G B V O C loss gradl metric gadd vadd closure_opt draw).
  Local Notation run_batches_cur := (C15_base.run_batches_cur P G B V O C loss gradl metric gadd vadd closure_opt draw).
  Local Notation batch_step_fixed := (C15_base.batch_step_fixed P G B V O C loss gradl metric gadd vadd closure_opt draw).
  Local Notation run_batches_fixed := (C15_base.run_batches_fixed P G B V O C loss gradl metric gadd vadd closure_opt draw).
  Local Notation batch_step_events := (C15_base.batch_step_events P G B V O C loss gradl metric gadd vadd closure_opt draw).
  Local Notation run_batches_events := (C15_base.run_batches_events P G B V O C loss gradl metric gadd vadd closure_opt draw).
  Local Notation state_ext := (C15_base.state_ext P G V O C).
  Local Notation set_cur := (C15_base.set_cur P G V O C).
  Local Notation run_batches_fixed_state := (C15_base.run_batches_fixed_state P G B V O C loss gradl metric gadd vadd closure_opt draw).
  Local Notation cstate := (C15_base.cstate P G V O).
  Local Notation closure_batch := (C15_base.closure_batch P G B V O C loss gradl metric vadd closure_opt).
  Local Notation run_batches_closure := (C15_base.run_batches_closure P G B V O C loss gradl metric gadd vadd closure_opt draw).
  Local Notation better := (C15_base.better P G V O C vltb).
  Local Notation update_best_snoc := (C15_base.update_best_snoc P G V O C vltb).
  Local Notation run_epoch_zero := (C15_base.run_epoch_zero P G B V O C loss gradl metric nmetrics gzero gadd vzero vadd vdivn vltb requires_closure opt_step closure_opt draw).
  Local Notation push_each_length := (C15_base.push_each_length V).
  Local Notation push_each_Forall := (C15_base.push_each_Forall V).
  Local Notation met_add_from_length := (C15_base.met_add_from_length P B V C metric vadd).
  Local Notation fold_met_length := (C15_base.fold_met_length P B V C metric vadd).
  Local Notation pre_state := (C15_base.pre_state P G V O C gzero requires_closure).
  Local Notation epoch_batches := (C15_base.epoch_batches P G B V O C loss gradl metric nmetrics gzero gadd vzero vadd requires_closure closure_opt draw).
  Local Notation means := (C15_base.means V vdivn).
  Local Notation epoch_loss := (C15_base.epoch_loss P G B V O C loss gradl metric nmetrics gzero gadd vzero vadd vdivn requires_closure closure_opt draw).
  Local Notation pre_state_book := (C15_base.pre_state_book P G V O C gzero requires_closure).
  Local Notation epoch_batches_book := (C15_base.epoch_batches_book P G B V O C loss gradl metric nmetrics gzero gadd vzero vadd requires_closure closure_opt draw).
  Local Notation run_epoch_unfold := (C15_base.run_epoch_unfold P G B V O C loss gradl metric nmetrics gzero gadd vzero vadd vdivn vltb requires_closure opt_step closure_opt draw).
  Local Notation ctl := (C15_base.ctl P G V O C).
  Local Notation ctl_of_book := (C15_base.ctl_of_book P G V O C).
  Local Notation ctl_push_hist := (C15_base.ctl_push_hist P G V O C).
  Local Notation ctl_update_best := (C15_base.ctl_update_best P G V O C vltb).
  Local Notation ctl_do_step := (C15_base.ctl_do_step P G V O C opt_step).
  Local Notation ctl_push_metrics := (C15_base.ctl_push_metrics P G V O C).
  Local Notation ctl_run_epoch := (C15_base.ctl_run_epoch P G B V O C loss gradl metric nmetrics gzero gadd vzero vadd vdivn vltb requires_closure opt_step closure_opt draw).
  Local Notation hists_update_best := (C15_base.hists_update_best P G V O C vltb).
  Local Notation hists_do_step := (C15_base.hists_do_step P G V O C opt_step).
  Local Notation a_met_length := (C15_base.a_met_length P G B V O C loss gradl metric gadd vadd closure_opt draw).
  Local Notation epoch_met_length := (C15_base.epoch_met_length P G B V O C loss gradl metric nmetrics gzero gadd vzero vadd requires_closure closure_opt draw).
  Local Notation run_epoch_hists := (C15_base.run_epoch_hists P G B V O C loss gradl metric nmetrics gzero gadd vzero vadd vdivn vltb requires_closure opt_step closure_opt draw).
  Local Notation events_update_best := (C15_base.events_update_best P G V O C vltb).
  Local Notation events_do_step := (C15_base.events_do_step P G V O C opt_step).
  Local Notation step_count := (C15_base.step_count P G V O C requires_closure).
  Local Notation run_epoch_events := (C15_base.run_epoch_events P G B V O C loss gradl metric nmetrics gzero gadd vzero vadd vdivn vltb requires_closure opt_step closure_opt draw).
  Local Notation rec_part := (C15_base.rec_part P G V O C).
  Local Notation rec_part_action := (C15_base.rec_part_action P G V O C).
  Local Notation rec_part_actions := (C15_base.rec_part_actions P G V O C).
  Local Notation rec_part_events := (C15_base.rec_part_events P G V O C).
  Local Notation quiet_part := (C15_base.quiet_part P G V O C).
  Local Notation run_cb_spec := (C15_base.run_cb_spec P G V O C).
  Local Notation run_cbs_from_spec := (C15_base.run_cbs_from_spec P G V O C).

  (* ======================================================================================== *)
  (* 1. lengths of all series = number of epochs in which their phase actually ran             *)

  (* "phase ph actually ran" = _run_epoch(ph) passed its n_batches guard = one EvBegin ph *)
  Definition runs (ph : phase) (s : state) : nat := count (is_begin ph) (events s).

  Definition Inv_ph (ph : phase) (s : state) : Prop :=
    length (hist ph s) = runs ph s /\ length (mhist ph s) = nmetrics /\
    Forall (fun h => length h = runs ph s) (mhist ph s).
  Definition Inv_len (s : state) : Prop := Inv_ph Train s /\ Inv_ph Valid s.

  Lemma inv_init p o c l nbt nbv : Inv_len (init p o c l nbt nbv).
  Proof.
    unfold Inv_len, Inv_ph, runs, Solver.init. cbn. rewrite !repeat_length.
    repeat split; apply Forall_forall; intros h Hh; apply repeat_spec in Hh; subst; reflexivity.
  Qed.

  Lemma epoch_event_not_other ph l :
    Forall (fun e => epoch_event ph e = true) l -> count (is_begin (other ph)) l = 0.
  Proof.
    intros H. apply count_none. eapply Forall_impl; [|exact H].
    intros e He. destruct e; try reflexivity. cbn in *. destruct ph, ph0; cbn in *; congruence.
  Qed.

  Lemma inv_ph_transfer ph (s s' : state) :
    hist ph s' = hist ph s -> mhist ph s' = mhist ph s -> runs ph s' = runs ph s ->
    Inv_ph ph s -> Inv_ph ph s'.
  Proof. unfold Inv_ph. intros -> -> ->. auto. Qed.

  Lemma inv_epoch ph s : Inv_len s -> Inv_len (run_epoch ph s).
  Proof.
    intros HI. destruct (Nat.eq_dec (nb ph s) 0) as [Hz|Hn]; [rewrite run_epoch_zero; auto|].
    destruct (run_epoch_hists ph s Hn) as (H1 & H2 & H3 & H4).
    destruct (run_epoch_events ph s Hn) as (l & E & F & _ & Bc & _).
    assert (Rp : runs ph (run_epoch ph s) = S (runs ph s)).
    { unfold runs. rewrite E, count_app, Bc. reflexivity. }
    assert (Ro : runs (other ph) (run_epoch ph s) = runs (other ph) s).
    { unfold runs. rewrite E, count_app, (epoch_event_not_other ph l F). reflexivity. }
    assert (Ip : Inv_ph ph s -> Inv_ph ph (run_epoch ph s)).
    { unfold Inv_ph. intros (A & B' & D). rewrite H1, H3, Rp, app_length, push_each_length. cbn.
      repeat split; [lia|exact B'|].
      apply push_each_Forall; [|exact D]. unfold C15_base.means. rewrite map_length, epoch_met_length. auto. }
    assert (Io : Inv_ph (other ph) s -> Inv_ph (other ph) (run_epoch ph s)).
    { apply inv_ph_transfer; assumption. }
    destruct HI as [HT HV]. destruct ph; cbn [other] in *; split; auto.
  Qed.

  Lemma inv_same_counts (s s' : state) :
    h_train s' = h_train s -> h_valid s' = h_valid s -> m_train s' = m_train s -> m_valid s' = m_valid s ->
    (forall ph, runs ph s' = runs ph s) -> Inv_len s -> Inv_len s'.
  Proof.
    intros A1 A2 A3 A4 R [HT HV]. split; [apply (inv_ph_transfer Train s s')|apply (inv_ph_transfer Valid s s')];
      cbn [hist mhist]; auto.
  Qed.

  Lemma runs_app_quiet ph l (s s' : state) :
    events s' = l ++ events s -> Forall (fun e => is_begin ph e = false) l -> runs ph s' = runs ph s.
  Proof. intros E F. unfold runs. rewrite E, count_app, count_none by exact F. reflexivity. Qed.

  Lemma cb_events_quiet ph i n : Forall (fun e => is_begin ph e = false) (rev (map EvCb (seq i n))).
  Proof.
    apply Forall_rev'. apply Forall_forall. intros e He. apply in_map_iff in He. destruct He as (j & <- & _). reflexivity.
  Qed.

  Lemma inv_cbs (cbs : list callback) (s : state) : Inv_len s -> Inv_len (run_cbs cbs s).
  Proof.
    intros HI. unfold Solver.run_cbs. destruct (run_cbs_from_spec cbs 0 s) as [E Q].
    unfold C15_base.quiet_part in Q.
    apply (inv_same_counts s); try congruence.
    intros ph. eapply runs_app_quiet; [exact E|apply cb_events_quiet].
  Qed.

  Lemma inv_iteration i cbs s : Inv_len s -> Inv_len (iteration i cbs s).
  Proof.
    intros HI. unfold Solver.iteration. apply inv_cbs. apply inv_epoch. apply inv_epoch.
    apply (inv_same_counts s); try reflexivity; auto.
  Qed.

  Lemma inv_fit_loop r : forall i cbs s, Inv_len s -> Inv_len (fit_loop r i cbs s).
  Proof.
    induction r as [|r IH]; intros i cbs s HI; cbn [Solver.fit_loop]; [exact HI|].
    destruct (stop s); [exact HI|]. apply IH. apply inv_iteration. exact HI.
  Qed.

  Lemma inv_fit m cbs s : Inv_len s -> Inv_len (fit m cbs s).
  Proof. intros HI. unfold Solver.fit. apply inv_fit_loop. apply (inv_same_counts s); auto. Qed.

  Lemma inv_action (a : action) (s : state) : Inv_len s -> Inv_len (apply_action a s).
  Proof.
    intros HI. pose proof (rec_part_action a s) as H. unfold C15_base.rec_part in H.
    apply (inv_same_counts s); try congruence. intros ph. unfold runs. congruence.
  Qed.

  Lemma inv_ops (ops : list op) : forall s, Inv_len s -> Inv_len (run_ops ops s).
  Proof.
    induction ops as [|o ops IH]; intros s HI; cbn [Solver.run_ops fold_left]; [exact HI|].
    apply IH. destruct o as [m cbs|a]; cbn [Solver.run_op]; [apply inv_fit|apply inv_action]; exact HI.
  Qed.

  (* C15 global_epoch_inv: after ANY sequence of fit() calls (any max_epochs, callbacks, early stops) and
     user actions, global_epoch = len(train_loss) = number of training epochs actually run *)
  Theorem global_epoch_inv (ops : list op) p o c l nbt nbv :
    let s := run_ops ops (init p o c l nbt nbv) in
    global_epoch s = length (h_train s) /\ length (h_train s) = runs Train s.
  Proof. cbv zeta. split; [reflexivity|]. apply (inv_ops ops _ (inv_init p o c l nbt nbv)). Qed.

  (* C15 series_lengths: validation loss and every custom metric (both phases) have exactly one entry
     per epoch in which their phase ran *)
  Theorem series_lengths (ops : list op) p o c l nbt nbv :
    let s := run_ops ops (init p o c l nbt nbv) in
    length (h_valid s) = runs Valid s /\
    length (m_train s) = nmetrics /\ length (m_valid s) = nmetrics /\
    (forall i, i < nmetrics -> length (nth i (m_train s) []) = runs Train s) /\
    (forall i, i < nmetrics -> length (nth i (m_valid s) []) = runs Valid s).
  Proof.
    cbv zeta. destruct (inv_ops ops _ (inv_init p o c l nbt nbv)) as [(A & B' & D) (A' & B'' & D')].
    cbn [hist mhist] in *. repeat split; auto.
    - intros i Hi. rewrite Forall_forall in D. apply D. apply nth_In. lia.
    - intros i Hi. rewrite Forall_forall in D'. apply D'. apply nth_In. lia.
  Qed.

  (* how one fit-loop iteration moves the counts: a phase runs iff its n_batches is non-zero when reached *)
  Lemma runs_epoch ph s :
    runs ph (run_epoch ph s) = runs ph s + (if nb ph s =? 0 then 0 else 1) /\
    runs (other ph) (run_epoch ph s) = runs (other ph) s.
  Proof.
    destruct (Nat.eq_dec (nb ph s) 0) as [Hz|Hn].
    - rewrite run_epoch_zero by exact Hz. rewrite Hz. cbn. split; [lia|reflexivity].
    - destruct (run_epoch_events ph s Hn) as (l & E & F & _ & Bc & _).
      apply Nat.eqb_neq in Hn. rewrite Hn. unfold runs. rewrite E, !count_app, Bc, (epoch_event_not_other ph l F).
      split; lia.
  Qed.

  (* ======================================================================================== *)
  (* 2. a custom metric's entry is the mean over that epoch's batches                          *)

  Definition metric_sum (i : nat) (c : C) (p : P) (bs : list B) : V :=
    fold_left vadd (map (metric i c p) bs) vzero.

  Lemma met_add_from_nth (c : C) (p : P) (b : B) (d : V) : forall ms i j, j < length ms ->
    nth j (met_add_from i c p b ms) d = vadd (nth j ms d) (metric (i + j) c p b).
  Proof.
    induction ms as [|v ms IH]; intros i j Hj; cbn in Hj; [lia|].
    destruct j as [|j]; cbn [Solver.met_add_from nth].
    - rewrite Nat.add_0_r. reflexivity.
    - rewrite IH by lia. f_equal. f_equal. lia.
  Qed.

  Lemma fold_met_nth (c : C) (p : P) (d : V) (j : nat) : forall bs ms, j < length ms ->
    nth j (fold_left (fun ms b => met_add c p b ms) bs ms) d =
    fold_left vadd (map (metric j c p) bs) (nth j ms d).
  Proof.
    induction bs as [|b bs IH]; intros ms Hj; cbn [fold_left map]; [reflexivity|].
    rewrite IH by (unfold Solver.met_add; rewrite met_add_from_length; exact Hj).
    unfold Solver.met_add. rewrite met_add_from_nth by exact Hj. reflexivity.
  Qed.

  Lemma push_each_nth (d : V) : forall (hs : list (list V)) vs i, i < length hs -> i < length vs ->
    nth i (push_each hs vs) [] = nth i hs [] ++ [nth i vs d].
  Proof.
    induction hs as [|h hs IH]; intros [|v vs] i Hh Hv; cbn in *; try lia.
    destruct i as [|i]; [reflexivity|]. apply IH; lia.
  Qed.

  (* the accumulated metric values after the batch loop of an epoch whose parameters do not move *)
  Lemma epoch_met_fixed ph s : fixed_mode (requires_closure (ost s)) ph ->
    a_met (snd (epoch_batches ph s)) =
    fold_left (fun ms b => met_add (conds s) (theta s) b ms) (batches ph (cur ph s) (nb ph s)) (repeat vzero nmetrics).
  Proof.
    intros Hm. unfold C15_base.epoch_batches.
    pose proof (run_batches_fixed (nb ph s) (requires_closure (ost s)) ph Hm (pre_state ph s) acc0) as H.
    cbv zeta in H. destruct H as (_ & _ & _ & Hmet & _).
    rewrite Hmet.
    assert (E : conds (pre_state ph s) = conds s /\ theta (pre_state ph s) = theta s /\ cur ph (pre_state ph s) = cur ph s).
    { unfold C15_base.pre_state, Solver.zero_grad. destruct (is_train ph && _); destruct ph; repeat split. }
    destruct E as (-> & -> & ->). reflexivity.
  Qed.

  (* C15 metric_mean_plain: validation epochs, and training epochs with a plain optimiser, record for every
     custom metric the mean over THAT epoch's batches of the metric function evaluated with the epoch's
     parameters *)
  Theorem metric_mean_plain ph s i :
    nb ph s <> 0 -> fixed_mode (requires_closure (ost s)) ph ->
    length (mhist ph s) = nmetrics -> i < nmetrics ->
    nth i (mhist ph (run_epoch ph s)) [] =
    nth i (mhist ph s) [] ++
        [vdivn (metric_sum i (conds s) (theta s) (batches ph (cur ph s) (nb ph s))) (nb ph s)].
  Proof.
    intros Hn Hm Hl Hi.
    destruct (run_epoch_hists ph s Hn) as (_ & _ & H3 & _). rewrite H3.
    rewrite (push_each_nth (vdivn vzero (nb ph s))).
    - f_equal. f_equal. unfold C15_base.means.
      rewrite (map_nth (fun v => vdivn v (nb ph s))). f_equal.
      rewrite (epoch_met_fixed ph s Hm). rewrite fold_met_nth by (rewrite repeat_length; exact Hi).
      unfold metric_sum. f_equal. apply nth_repeat.
    - lia.
    - unfold C15_base.means. rewrite map_length, epoch_met_length. exact Hi.
  Qed.

  (* ---- closure optimisers: the optimiser may evaluate the closure several times per batch; the metric of a
     batch is the value at the LAST evaluation (like the batch loss), counted once.
     [closure_points] lists, per batch, the points at which the optimiser evaluated the closure. *)
  Fixpoint closure_points (l : nat) (c : C) (o : O) (p : P) (bs : list B) : list (B * list P) :=
    match bs with
    | [] => []
    | b :: bs' =>
      match closure_opt o p (fun q => (loss l c q b, gradl l c q b)) with
      | (o', pts, p') => (b, pts) :: closure_points l c o' p' bs'
      end
    end.

  (* one value per batch: the metric at the last closure evaluation (none if the closure was never evaluated) *)
  Definition metric_lasts (i : nat) (c : C) (tr : list (B * list P)) : list V :=
    flat_map (fun bp => match last_opt (snd bp) with Some q => [metric i c q (fst bp)] | None => [] end) tr.

  Lemma closure_fold_met (l : nat) (c : C) (d : V) (j : nat) : forall bs o p g a, j < length (a_met a) ->
    nth j (a_met (snd (fold_left (closure_batch l c) bs (o, p, g, a)))) d =
    fold_left vadd (metric_lasts j c (closure_points l c o p bs)) (nth j (a_met a) d).
  Proof.
    induction bs as [|b bs IH]; intros o p g a Hj; cbn [fold_left closure_points]; [reflexivity|].
    unfold C15_base.closure_batch at 2.
    destruct (closure_opt o p _) as [[o' pts] p'].
    unfold metric_lasts. cbn [flat_map fst snd]. rewrite fold_left_app. fold (metric_lasts j c (closure_points l c o' p' bs)).
    destruct (last_opt pts) as [q|].
    - rewrite IH by (cbn [a_met]; unfold Solver.met_add; rewrite met_add_from_length; exact Hj).
      cbn [a_met fold_left]. unfold Solver.met_add. rewrite met_add_from_nth by exact Hj. reflexivity.
    - rewrite IH by (cbn [a_met]; exact Hj). reflexivity.
  Qed.

  Lemma epoch_met_closure s : requires_closure (ost s) = true ->
    a_met (snd (epoch_batches Train s)) =
    a_met (snd (fold_left (closure_batch (lid s) (conds s)) (batches Train (cur_train s) (nb_train s))
                          (ost s, theta s, grad (pre_state Train s), acc0))).
  Proof.
    intros Hc. unfold C15_base.epoch_batches. cbn [nb]. rewrite Hc.
    pose proof (run_batches_closure (nb_train s) (pre_state Train s) acc0) as H. cbv zeta in H.
    assert (E : lid (pre_state Train s) = lid s /\ conds (pre_state Train s) = conds s /\
                theta (pre_state Train s) = theta s /\ ost (pre_state Train s) = ost s /\
                cur_train (pre_state Train s) = cur_train s).
    { unfold C15_base.pre_state. rewrite Hc. cbn. repeat split. }
    destruct E as (E1 & E2 & E3 & E4 & E5). rewrite E1, E2, E3, E4, E5 in H. rewrite <- H. reflexivity.
  Qed.

  (* what is recorded with a closure optimiser, without any assumption on the optimiser *)
  Theorem metric_mean_closure_general s i :
    nb_train s <> 0 -> requires_closure (ost s) = true ->
    length (m_train s) = nmetrics -> i < nmetrics ->
    nth i (m_train (run_epoch Train s)) [] =
    nth i (m_train s) [] ++
        [vdivn (fold_left vadd (metric_lasts i (conds s)
                  (closure_points (lid s) (conds s) (ost s) (theta s) (batches Train (cur_train s) (nb_train s)))) vzero)
               (nb_train s)].
  Proof.
    intros Hn Hc Hl Hi.
    destruct (run_epoch_hists Train s Hn) as (_ & _ & H3 & _). cbn [mhist nb] in H3. rewrite H3.
    rewrite (push_each_nth (vdivn vzero (nb_train s))).
    - f_equal. f_equal. unfold C15_base.means.
      rewrite (map_nth (fun v => vdivn v (nb_train s))). f_equal.
      rewrite (epoch_met_closure s Hc).
      rewrite closure_fold_met by (cbn; rewrite repeat_length; exact Hi).
      f_equal. cbn [a_met Solver.acc0]. apply nth_repeat.
    - lia.
    - unfold C15_base.means. rewrite map_length, epoch_met_length. exact Hi.
  Qed.

  Lemma last_opt_last {A : Type} (l : list A) (d : A) : l <> [] -> last_opt l = Some (last l d).
  Proof.
    induction l as [|x l IH]; [contradiction|]. intros _. destruct l as [|y l']; [reflexivity|].
    change (last_opt (x :: y :: l')) with (last_opt (y :: l')). change (last (x :: y :: l') d) with (last (y :: l') d).
    apply IH. discriminate.
  Qed.

  (* C15 metric_mean_closure (FULL strength after the F6 repair): with a closure optimiser that evaluates its
     closure at least once per call, a custom training metric's entry is the mean over THAT epoch's batches of the
     metric function's value — one value per batch, taken at the optimiser's last evaluation point of that batch
     (the same point the recorded batch loss refers to) *)
  Theorem metric_mean_closure s i (d : P) :
    nb_train s <> 0 -> requires_closure (ost s) = true ->
    length (m_train s) = nmetrics -> i < nmetrics ->
    let tr := closure_points (lid s) (conds s) (ost s) (theta s) (batches Train (cur_train s) (nb_train s)) in
    Forall (fun bp => snd bp <> []) tr ->
    nth i (m_train (run_epoch Train s)) [] =
    nth i (m_train s) [] ++
        [vdivn (fold_left vadd (map (fun bp => metric i (conds s) (last (snd bp) d) (fst bp)) tr) vzero)
               (nb_train s)].
  Proof.
    intros Hn Hc Hl Hi tr Hne. rewrite (metric_mean_closure_general s i Hn Hc Hl Hi). fold tr.
    f_equal. f_equal. f_equal. f_equal. unfold metric_lasts.
    clear -Hne. induction tr as [|[b pts] tr IH]; [reflexivity|].
    inversion Hne as [|? ? H1 H2]; subst. cbn [flat_map map fst snd] in *.
    rewrite (last_opt_last pts d H1). cbn [app]. f_equal. apply IH. exact H2.
  Qed.

  (* ======================================================================================== *)
  (* 3. the fit loop: local epoch, early stopping, callbacks                                   *)

  Lemma iteration_local i cbs s :
    local_epoch (iteration i cbs s) = S i /\ max_local (iteration i cbs s) = max_local s.
  Proof.
    unfold Solver.iteration, Solver.run_cbs.
    destruct (run_cbs_from_spec cbs 0
                (run_epoch Valid (run_epoch Train (log (EvLocal (S i)) (set_local_epoch (S i) s))))) as [_ Q].
    unfold C15_base.quiet_part in Q.
    pose proof (ctl_run_epoch Valid (run_epoch Train (log (EvLocal (S i)) (set_local_epoch (S i) s)))) as C1.
    pose proof (ctl_run_epoch Train (log (EvLocal (S i)) (set_local_epoch (S i) s))) as C2.
    unfold C15_base.ctl in C1, C2. sproj_in C2. split; congruence.
  Qed.

  (* the states after each completed iteration (what the callbacks of that epoch leave behind) *)
  Fixpoint fit_states (r i : nat) (cbs : list callback) (s : state) : list state :=
    match r with
    | 0 => []
    | S r' => if stop s then [] else iteration i cbs s :: fit_states r' (S i) cbs (iteration i cbs s)
    end.

  Lemma last_cons {A : Type} (a : A) (l : list A) (d : A) : last (a :: l) d = last l a.
  Proof.
    revert a d. induction l as [|b l IH]; intros a d; [reflexivity|].
    change (last (a :: b :: l) d) with (last (b :: l) d). rewrite (IH b d), (IH b a). reflexivity.
  Qed.

  Lemma fit_loop_last r : forall i cbs s, fit_loop r i cbs s = last (fit_states r i cbs s) s.
  Proof.
    induction r as [|r IH]; intros i cbs s; cbn [Solver.fit_loop fit_states]; [reflexivity|].
    destruct (stop s); [reflexivity|]. rewrite last_cons. apply IH.
  Qed.

  Lemma fit_states_spec r : forall i cbs s,
    let L := fit_states r i cbs s in
    length L <= r /\
    map (@local_epoch P G V O C) L = seq (S i) (length L) /\
    Forall (fun s' => max_local s' = max_local s) L /\
    (forall j, S j < length L -> stop (nth j L s) = false) /\
    (length L < r -> stop (last L s) = true) /\
    (stop s = false -> 1 <= r -> 1 <= length L).
  Proof.
    induction r as [|r IH]; intros i cbs s; cbn [fit_states].
    - cbn. repeat split; try constructor; intros; lia.
    - destruct (stop s) eqn:Es.
      + cbn. repeat split; try constructor; intros; try lia; try discriminate. exact Es.
      + destruct (iteration_local i cbs s) as [Hl Hm].
        specialize (IH (S i) cbs (iteration i cbs s)). cbv zeta in IH.
        destruct IH as (I1 & I2 & I3 & I4 & I5 & I6).
        cbv zeta. cbn [length map seq]. repeat split.
        * lia.
        * rewrite Hl, I2. reflexivity.
        * constructor; [exact Hm|]. eapply Forall_impl; [|exact I3]. cbn. intros a Ha. congruence.
        * intros j Hj. destruct j as [|j]; cbn [nth].
          -- destruct (fit_states r (S i) cbs (iteration i cbs s)) eqn:EL; [cbn in Hj; lia|].
             destruct r; cbn [fit_states] in EL; [discriminate|].
             destruct (stop (iteration i cbs s)); [discriminate|reflexivity].
          -- rewrite (nth_indep _ s (iteration i cbs s)) by lia. apply I4. lia.
        * intros Hlt. rewrite last_cons. apply I5. lia.
        * intros _ _. lia.
  Qed.

  (* C15 local_epoch_run: during one fit(m, cbs) call the local epoch takes exactly the values 1..k with
     k <= m; every epoch but the last left the stop flag clear; if k < m the loop ended because the stop
     flag was set during epoch k (so a stop request at epoch k gives k epochs). *)
  Theorem local_epoch_run m cbs s :
    let s0 := set_local_epoch 0 (set_max_local m (set_stop false s)) in
    let L := fit_states m 0 cbs s0 in
    fit m cbs s = last L s0 /\
    length L <= m /\
    map (@local_epoch P G V O C) L = seq 1 (length L) /\
    Forall (fun s' => max_local s' = m) L /\
    (forall j, S j < length L -> stop (nth j L s0) = false) /\
    (length L < m -> stop (last L s0) = true) /\
    (1 <= m -> 1 <= length L).
  Proof.
    cbv zeta. unfold Solver.fit. rewrite fit_loop_last.
    pose proof (fit_states_spec m 0 cbs (set_local_epoch 0 (set_max_local m (set_stop false s)))) as H. cbv zeta in H.
    destruct H as (H1 & H2 & H3 & H4 & H5 & H6). repeat split; auto.
  Qed.

  Corollary stop_request_ends_fit m cbs s k :
    let s0 := set_local_epoch 0 (set_max_local m (set_stop false s)) in
    let L := fit_states m 0 cbs s0 in
    1 <= k <= length L -> stop (nth (k - 1) L s0) = true -> length L = k.
  Proof.
    cbv zeta. intros Hk Hs. destruct (local_epoch_run m cbs s) as (_ & _ & _ & _ & H4 & _).
    cbv zeta in H4.
    destruct (Nat.eq_dec (length (fit_states m 0 cbs (set_local_epoch 0 (set_max_local m (set_stop false s))))) k) as [E|NE]; [exact E|].
    specialize (H4 (k - 1)). rewrite H4 in Hs; [discriminate|lia].
  Qed.

  Lemma last_map_seq (L : list state) : forall a (d : state), L <> [] ->
    map (@local_epoch P G V O C) L = seq a (length L) -> local_epoch (last L d) = a + length L - 1.
  Proof.
    induction L as [|x L IH]; intros a d Hne Hm; [contradiction|].
    cbn [length map seq] in Hm. inversion Hm as [[Hx Hr]].
    destruct L as [|y L']; [cbn; lia|].
    change (last (x :: y :: L') d) with (last (y :: L') d).
    rewrite (IH (S a) d); [cbn [length]; lia|discriminate|rewrite <- Hx; exact Hr].
  Qed.

  (* C15 local_epoch_after (FULL strength after the F11 repair): after EVERY fit(m) call, including m = 0 after a
     non-empty call, the local epoch does not exceed that call's max_epochs; it is at least 1 iff an epoch ran *)
  Theorem local_epoch_after m cbs s :
    local_epoch (fit m cbs s) <= m /\ (1 <= m -> 1 <= local_epoch (fit m cbs s)).
  Proof.
    destruct m as [|m']; [split; [cbn; lia|lia]|].
    set (m := S m'). assert (Hm : 1 <= m) by (subst m; lia).
    destruct (local_epoch_run m cbs s) as (E & H1 & H2 & _ & _ & _ & H6). cbv zeta in *.
    rewrite E. specialize (H6 Hm).
    set (L := fit_states m 0 cbs (set_local_epoch 0 (set_max_local m (set_stop false s)))) in *.
    assert (Hne : L <> []) by (intros ->; cbn in H6; lia).
    destruct L as [|x L'] eqn:EL; [contradiction|].
    rewrite last_cons.
    assert (Hl : local_epoch (last L' x) = length (x :: L')).
    { rewrite <- last_cons with (d := x). rewrite (last_map_seq (x :: L') 1 x Hne H2). lia. }
    rewrite Hl. split; [lia|intros _; cbn [length]; lia].
  Qed.

  (* what fit(0) does: it resets the stop flag, max_local and the local epoch (to 0) and runs nothing *)
  Theorem fit_zero cbs s : fit 0 cbs s = set_local_epoch 0 (set_max_local 0 (set_stop false s)).
  Proof. reflexivity. Qed.

  (* ---- callbacks run exactly once per epoch, in the given order, after both phases *)
  Lemma run_epoch_events_any ph s :
    exists l, events (run_epoch ph s) = l ++ events s /\
              Forall (fun e => epoch_event ph e = true) l /\
              count (is_begin ph) l = (if nb ph s =? 0 then 0 else 1).
  Proof.
    destruct (Nat.eq_dec (nb ph s) 0) as [Hz|Hn].
    - rewrite run_epoch_zero by exact Hz. rewrite Hz. exists []. repeat split. constructor.
    - destruct (run_epoch_events ph s Hn) as (l & E & F & _ & Bc & _). exists l.
      apply Nat.eqb_neq in Hn. rewrite Hn. auto.
  Qed.

  (* C15 callbacks_once_in_order: the events of one fit-loop iteration are, in program order,
       EvLocal (i+1); <training-phase events>; <validation-phase events>; EvCb 0; ...; EvCb (m-1)
     for ANY callbacks (whatever actions they take). *)
  Theorem callbacks_once_in_order i cbs s :
    exists lt lv,
      trace (iteration i cbs s) =
        trace s ++ [EvLocal (S i)] ++ lt ++ lv ++ map EvCb (seq 0 (length cbs)) /\
      Forall (fun e => epoch_event Train e = true) lt /\
      Forall (fun e => epoch_event Valid e = true) lv /\
      count (is_begin Train) lt = (if nb_train s =? 0 then 0 else 1) /\
      count (is_begin Valid) lv = (if nb_valid s =? 0 then 0 else 1).
  Proof.
    unfold Solver.iteration, Solver.run_cbs.
    set (s1 := log (EvLocal (S i)) (set_local_epoch (S i) s)).
    destruct (run_epoch_events_any Train s1) as (lt & Et & Ft & Ct).
    destruct (run_epoch_events_any Valid (run_epoch Train s1)) as (lv & Ev & Fv & Cv).
    destruct (run_cbs_from_spec cbs 0 (run_epoch Valid (run_epoch Train s1))) as [Ec _].
    pose proof (ctl_run_epoch Train s1) as Ctl. unfold C15_base.ctl in Ctl.
    assert (Hnv : nb_valid (run_epoch Train s1) = nb_valid s) by (subst s1; sproj_in Ctl; congruence).
    exists (rev lt), (rev lv). split; [|split; [|split; [|split]]].
    - unfold Solver.trace. rewrite Ec, Ev, Et. subst s1. sproj.
      rewrite !rev_app_distr, rev_involutive. cbn [rev app]. rewrite <- !app_assoc. reflexivity.
    - apply Forall_rev'. exact Ft.
    - apply Forall_rev'. exact Fv.
    - unfold count. rewrite <- (rev_length (filter _ _)). 
      replace (rev (filter (is_begin Train) (rev lt))) with (filter (is_begin Train) lt).
      + exact Ct.
      + clear. induction lt as [|e lt IH]; [reflexivity|]. cbn [rev]. rewrite filter_app', rev_app_distr, <- IH.
        cbn [filter]. destruct (is_begin Train e); reflexivity.
    - unfold count. rewrite <- (rev_length (filter _ _)).
      replace (rev (filter (is_begin Valid) (rev lv))) with (filter (is_begin Valid) lv).
      + cbn [nb] in Cv. rewrite Hnv in Cv. exact Cv.
      + clear. induction lv as [|e lv IH]; [reflexivity|]. cbn [rev]. rewrite filter_app', rev_app_distr, <- IH.
        cbn [filter]. destruct (is_begin Valid e); reflexivity.
  Qed.

End C15.

(* ------------------------------------------------------------------------------------------ *)
(* Non-vacuity: the premises of the implications above are satisfiable (toy instance of the model) *)
From Coq Require Import ZArith QArith.
Module C15_examples.
  Import Toy.
  Local Close Scope Q_scope.
  Definition cfg := mkCfg S1D 1 [1%Z] [0] 1 (@nil nat) false.
  Definition trs : list (list (list Q)) := repeat [[Qmake 1 1; Qmake 2 1]] 8.
  Definition cds := [mkCond 5%Z 1%Z SigVariadic].
  Definition s_plain : t_state := t_init cfg 1 [Qmake 1 2] (TSgd (Qmake 1 4)) cds 0 2 1.
  Definition s_clo : t_state := t_init cfg 1 [Qmake 1 2] (TScript (Qmake 1 4) [2; 3]) cds 0 2 1.

  Example metric_mean_plain_premises :
    nb Train s_plain <> 0 /\ fixed_mode (t_requires_closure (ost s_plain)) Train /\
    length (mhist Train s_plain) = 1 /\ 0 < 1.
  Proof. split; [vm_compute; discriminate|]. split; [left; reflexivity|]. split; [reflexivity|lia]. Qed.

  Example metric_mean_closure_premises :
    nb_train s_clo <> 0 /\ t_requires_closure (ost s_clo) = true /\ length (m_train s_clo) = 1 /\
    Forall (fun bp : list (list Q) * list (list Q) => snd bp <> [])
           (closure_points _ _ _ _ _ _ (t_loss cfg) (t_grad cfg) t_closure_opt (lid s_clo) (conds s_clo) (ost s_clo) (theta s_clo)
                           (batches _ (t_draw trs []) Train (cur_train s_clo) (nb_train s_clo))).
  Proof.
    split; [vm_compute; discriminate|]. split; [reflexivity|]. split; [reflexivity|].
    vm_compute. repeat constructor; discriminate.
  Qed.

  (* a stop request at local epoch 2 of fit(5) gives exactly 2 epochs *)
  Definition stop_at_2 : t_callback := fun s => if Nat.eqb (local_epoch s) 2 then [AStop] else [].
  Example stop_request_premises :
    let s0 := set_local_epoch 0 (set_max_local 5 (set_stop false s_plain)) in
    let L := fit_states _ _ _ _ _ _ (t_loss cfg) (t_grad cfg) (t_metric cfg) 1 (t_gzero cfg) (zipw qadd) (0%Q) qadd qdivn qltb
                        t_requires_closure t_opt_step t_closure_opt (t_draw trs []) 5 0 [stop_at_2] s0 in
    length L = 2 /\ stop (nth 1 L s0) = true /\ local_epoch (t_fit cfg 1 trs [] 5 [stop_at_2] s_plain) = 2.
  Proof. vm_compute. repeat split. Qed.

  (* after fit(3); fit(0) the local epoch is 0 (it used to stay 3: repaired finding F11) *)
  Example fit0_resets_local_epoch :
    local_epoch (t_fit cfg 1 trs [] 0 [] (t_fit cfg 1 trs [] 3 [] s_plain)) = 0.
  Proof. vm_compute. reflexivity. Qed.
End C15_examples.
