(* C20 — legacy approximators (neurodiffeq/temporal.py) reproduce the prescribed initial state
   at t = 0 for every network.  Lemmas about the terms pyfront regenerates into
   gen/Gen_C20.v (modules Approx1D, Approx2D_first, Approx2D_second, Approx2D_steady). *)
From Coq Require Import Reals List Lra Lia ZArith Field.
From Coquelicot Require Import Coquelicot.
From ND.lib Require Import Expr ExprSound Tac.
From ND.gen Require Import Gen_C20.
Import ListNotations.
Open Scope R_scope.

(* ---- 1-D space + time, first-order initial condition *)
Section A1.
  Import Approx1D.
  Lemma approx1d_init venv penv fenv :
    venv v_tt = 0 -> eval venv penv fenv term = fenv f_u0 [0%nat] [venv v_xx].
  Proof. intros H. reduce_eval. norm_names. rewrite H. norm_exp0. ring. Qed.

  (* the network really enters away from t = 0: u = e^{-t} u0 + (1 - e^{-t}) N *)
  Lemma approx1d_form venv penv fenv :
    eval venv penv fenv term =
      exp (- venv v_tt) * fenv f_u0 [0%nat] [venv v_xx]
      + (1 - exp (- venv v_tt)) * fenv f_N [0%nat; 0%nat] [venv v_xx; venv v_tt].
  Proof. reduce_eval. norm_names. ring. Qed.
End A1.

(* ---- 2-D space + time, first-order initial condition *)
Section A2.
  Import Approx2D_first.
  Lemma approx2d_init venv penv fenv :
    venv v_tt = 0 -> eval venv penv fenv term = fenv f_u0 [0%nat; 0%nat] [venv v_xx; venv v_yy].
  Proof. intros H. reduce_eval. norm_names. rewrite H. norm_exp0. ring. Qed.

  Lemma approx2d_form venv penv fenv :
    eval venv penv fenv term =
      exp (- venv v_tt) * fenv f_u0 [0%nat; 0%nat] [venv v_xx; venv v_yy]
      + (1 - exp (- venv v_tt)) * fenv f_N [0%nat; 0%nat; 0%nat] [venv v_xx; venv v_yy; venv v_tt].
  Proof. reduce_eval. norm_names. ring. Qed.
End A2.

(* ---- 2-D space + time, second-order initial condition: value and time derivative *)
Section A3.
  Import Approx2D_second.
  Lemma approx2d_second_init_value venv penv fenv :
    venv v_tt = 0 -> eval venv penv fenv term = fenv f_u0 [0%nat; 0%nat] [venv v_xx; venv v_yy].
  Proof. intros H. reduce_eval. norm_names. rewrite H. norm_exp0. ring. Qed.

  Lemma approx2d_second_init_deriv venv penv fenv :
    venv v_tt = 0 ->
    eval venv penv fenv (D v_tt term) = fenv f_u0dot [0%nat; 0%nat] [venv v_xx; venv v_yy].
  Proof. intros H. reduce_eval. norm_names. rewrite H. norm_exp0. ring. Qed.

  Lemma approx2d_second_ok venv penv fenv : ok penv fenv venv term.
  Proof. vm_compute. repeat split; auto; repeat constructor; auto; cbn; intuition discriminate. Qed.

  (* analytic form: for every differentiable network (coherent jets) the approximated solution
     t |-> u(x, y, t) has derivative u0dot(x, y) at t = 0 *)
  Lemma approx2d_second_is_derive venv penv fenv :
    coherent fenv ->
    is_derive (fun t => eval (upd venv v_tt t) penv fenv term) 0
              (fenv f_u0dot [0%nat; 0%nat] [venv v_xx; venv v_yy]).
  Proof.
    intros Hc. evar_last.
    apply (D_sound_at penv fenv Hc venv v_tt term 0). apply approx2d_second_ok.
    rewrite approx2d_second_init_deriv by apply upd_eq.
    rewrite !upd_neq by (vm_compute; discriminate). reflexivity.
  Qed.
End A3.

(* ---- 2-D steady state: no initial condition, the approximator is the raw network *)
Section A4.
  Import Approx2D_steady.
  Lemma approx2d_steady_is_net venv penv fenv :
    eval venv penv fenv term = fenv f_N [0%nat; 0%nat] [venv v_xx; venv v_yy].
  Proof. reduce_eval. norm_names. reflexivity. Qed.
End A4.

(* ---- non-vacuity: a concrete network, concrete data, the premises are satisfiable and the
   conclusions are the expected numbers *)
Section NonVacuity.
  (* u0(x,y) = 3 - x + 2y, u0dot = 7, N(x,y,t) = 5 - 7 t + x ; jets beyond order 0 unused *)
  Let fenv2 : nat -> list nat -> list R -> R := fun f al xs =>
    match f, al, xs with
    | 0%nat, [0%nat; 0%nat], [x; y] => 3 - x + 2 * y
    | 1%nat, [0%nat; 0%nat], [x; y] => 7
    | 2%nat, [0%nat; 0%nat; 0%nat], [x; y; t] => 5 - 7 * t + x
    | _, _, _ => 0
    end.
  Let venv2 : nat -> R := fun v => match v with 0%nat => 2 | 1%nat => -1 | _ => 0 end.

  Example approx2d_second_value_example :
    eval venv2 (fun _ => 0) fenv2 Approx2D_second.term = -1.
  Proof.
    rewrite approx2d_second_init_value by reflexivity.
    cbv [fenv2 venv2 Approx2D_second.f_u0 Approx2D_second.v_xx Approx2D_second.v_yy]. lra.
  Qed.

  Example approx2d_second_deriv_example :
    eval venv2 (fun _ => 0) fenv2 (D Approx2D_second.v_tt Approx2D_second.term) = 7.
  Proof.
    rewrite approx2d_second_init_deriv by reflexivity.
    cbv [fenv2 venv2 Approx2D_second.f_u0dot]. reflexivity.
  Qed.
End NonVacuity.
