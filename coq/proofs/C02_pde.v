(* C02 — rectangle Dirichlet condition and 1-D initial-boundary condition hold on the whole
   boundary, for every network and every boundary data derived from an arbitrary field G.
   DESIGN.md §7 C02. *)
From Coq Require Import Reals List Lra Lia ZArith Field.
From ND.lib Require Import Expr Tac.
From ND.gen Require Import Gen_C02.
Import ListNotations.
Open Scope R_scope.

Ltac edge H := reduce_eval; norm_names; rewrite ?H; norm_exp0; try field; auto.

Section BVP2D.
  Import BVP2D.
  Variable venv penv : nat -> R.
  Variable fenv : nat -> list nat -> list R -> R.
  Hypothesis Hx : penv p_x1 - penv p_x0 <> 0.
  Hypothesis Hy : penv p_y1 - penv p_y0 <> 0.
  Lemma bvp2d_edge_x0 : venv v_x = penv p_x0 -> eval venv penv fenv term = fenv f_G [0;0]%nat [penv p_x0; venv v_y].
  Proof. intros H. norm_names. edge H. Qed.
  Lemma bvp2d_edge_x1 : venv v_x = penv p_x1 -> eval venv penv fenv term = fenv f_G [0;0]%nat [penv p_x1; venv v_y].
  Proof. intros H. norm_names. edge H. Qed.
  Lemma bvp2d_edge_y0 : venv v_y = penv p_y0 -> eval venv penv fenv term = fenv f_G [0;0]%nat [venv v_x; penv p_y0].
  Proof. intros H. norm_names. edge H. Qed.
  Lemma bvp2d_edge_y1 : venv v_y = penv p_y1 -> eval venv penv fenv term = fenv f_G [0;0]%nat [venv v_x; penv p_y1].
  Proof. intros H. norm_names. edge H. Qed.
End BVP2D.

Section BVP2Du.
  Import BVP2D_unit.
  Variable venv penv : nat -> R.
  Variable fenv : nat -> list nat -> list R -> R.
  Hypothesis Hx : penv p_x1 - penv p_x0 <> 0.
  Hypothesis Hy : penv p_y1 - penv p_y0 <> 0.
  Lemma bvp2d_unit_edges :
    (venv v_x = penv p_x0 -> eval venv penv fenv term = fenv f_G [0;0]%nat [penv p_x0; venv v_y]) /\
    (venv v_x = penv p_x1 -> eval venv penv fenv term = fenv f_G [0;0]%nat [penv p_x1; venv v_y]) /\
    (venv v_y = penv p_y0 -> eval venv penv fenv term = fenv f_G [0;0]%nat [venv v_x; penv p_y0]) /\
    (venv v_y = penv p_y1 -> eval venv penv fenv term = fenv f_G [0;0]%nat [venv v_x; penv p_y1]).
  Proof. norm_names. repeat split; intros H; edge H. Qed.
End BVP2Du.

(* ---- IBVP1D.  Fresh leaves: t0 (value t_min), x0 (x_min), x1 (x_max). *)
Section IBVP_dd.
  Import IBVP_dd.
  Variable venv penv : nat -> R.
  Variable fenv : nat -> list nat -> list R -> R.
  Hypothesis HL : penv p_x_max - penv p_x_min <> 0.
  Hypothesis Ht0 : venv v_t0 = penv p_t_min.
  Lemma ibvp_dd_init : venv v_t = penv p_t_min -> eval venv penv fenv term = fenv f_G [0;0]%nat [venv v_x; penv p_t_min].
  Proof. intros H. norm_names. reduce_eval. rewrite H, Ht0. norm_exp0. field. auto. Qed.
  Lemma ibvp_dd_left : venv v_x = penv p_x_min -> eval venv penv fenv term = fenv f_G [0;0]%nat [penv p_x_min; venv v_t].
  Proof. intros H. norm_names. reduce_eval. rewrite H, Ht0. field. auto. Qed.
  Lemma ibvp_dd_right : venv v_x = penv p_x_max -> eval venv penv fenv term = fenv f_G [0;0]%nat [penv p_x_max; venv v_t].
  Proof. intros H. norm_names. reduce_eval. rewrite H, Ht0. field. auto. Qed.
  Lemma ibvp_dd_fresh : fresh = [(v_t0, EPar p_t_min)].
  Proof. reflexivity. Qed.
End IBVP_dd.

Section IBVP_dn.
  Import IBVP_dn.
  Variable venv penv : nat -> R.
  Variable fenv : nat -> list nat -> list R -> R.
  Hypothesis HL : penv p_x_max - penv p_x_min <> 0.
  Hypothesis Ht0 : venv v_t0 = penv p_t_min.
  Hypothesis Hx1 : venv v_x1 = penv p_x_max.
  Lemma ibvp_dn_init : venv v_t = penv p_t_min -> eval venv penv fenv term = fenv f_G [0;0]%nat [venv v_x; penv p_t_min].
  Proof. intros H. norm_names. reduce_eval. rewrite H, Ht0. norm_exp0. field. auto. Qed.
  Lemma ibvp_dn_left : venv v_x = penv p_x_min -> eval venv penv fenv term = fenv f_G [0;0]%nat [penv p_x_min; venv v_t].
  Proof. intros H. norm_names. reduce_eval. rewrite H, Ht0. field. auto. Qed.
  Lemma ibvp_dn_right : venv v_x = penv p_x_max -> eval venv penv fenv (D v_x term) = fenv f_G [1;0]%nat [penv p_x_max; venv v_t].
  Proof. intros H. norm_names. reduce_eval. rewrite H, Ht0, Hx1. field. auto. Qed.
  Lemma ibvp_dn_fresh : fresh = [(v_x1, EPar p_x_max); (v_t0, EPar p_t_min)].
  Proof. reflexivity. Qed.
End IBVP_dn.

Section IBVP_nd.
  Import IBVP_nd.
  Variable venv penv : nat -> R.
  Variable fenv : nat -> list nat -> list R -> R.
  Hypothesis HL : penv p_x_max - penv p_x_min <> 0.
  Hypothesis Ht0 : venv v_t0 = penv p_t_min.
  Hypothesis Hx0 : venv v_x0 = penv p_x_min.
  Lemma ibvp_nd_init : venv v_t = penv p_t_min -> eval venv penv fenv term = fenv f_G [0;0]%nat [venv v_x; penv p_t_min].
  Proof. intros H. norm_names. reduce_eval. rewrite H, Ht0. norm_exp0. field. auto. Qed.
  Lemma ibvp_nd_left : venv v_x = penv p_x_min -> eval venv penv fenv (D v_x term) = fenv f_G [1;0]%nat [penv p_x_min; venv v_t].
  Proof. intros H. norm_names. reduce_eval. rewrite H, Ht0, Hx0. field. auto. Qed.
  Lemma ibvp_nd_right : venv v_x = penv p_x_max -> eval venv penv fenv term = fenv f_G [0;0]%nat [penv p_x_max; venv v_t].
  Proof. intros H. norm_names. reduce_eval. rewrite H, Ht0. field. auto. Qed.
  Lemma ibvp_nd_fresh : fresh = [(v_x0, EPar p_x_min); (v_t0, EPar p_t_min)].
  Proof. reflexivity. Qed.
End IBVP_nd.

Section IBVP_nn.
  Import IBVP_nn.
  Variable venv penv : nat -> R.
  Variable fenv : nat -> list nat -> list R -> R.
  Hypothesis HL : penv p_x_max - penv p_x_min <> 0.
  Hypothesis Ht0 : venv v_t0 = penv p_t_min.
  Hypothesis Hx0 : venv v_x0 = penv p_x_min.
  Hypothesis Hx1 : venv v_x1 = penv p_x_max.
  Lemma ibvp_nn_init : venv v_t = penv p_t_min -> eval venv penv fenv term = fenv f_G [0;0]%nat [venv v_x; penv p_t_min].
  Proof. intros H. norm_names. reduce_eval. rewrite H, Ht0. norm_exp0. field. auto. Qed.
  Lemma ibvp_nn_left : venv v_x = penv p_x_min -> eval venv penv fenv (D v_x term) = fenv f_G [1;0]%nat [penv p_x_min; venv v_t].
  Proof. intros H. norm_names. reduce_eval. rewrite H, Ht0, Hx0. field. auto. Qed.
  Lemma ibvp_nn_right : venv v_x = penv p_x_max -> eval venv penv fenv (D v_x term) = fenv f_G [1;0]%nat [penv p_x_max; venv v_t].
  Proof. intros H. norm_names. reduce_eval. rewrite H, Ht0, Hx0, Hx1. field. auto. Qed.
  Lemma ibvp_nn_fresh : fresh = [(v_x0, EPar p_x_min); (v_x1, EPar p_x_max); (v_t0, EPar p_t_min)].
  Proof. reflexivity. Qed.
End IBVP_nn.


Lemma unit_terms_same_shape :
  IBVP_dd_unit.term = IBVP_dd.term /\ IBVP_dn_unit.term = IBVP_dn.term /\
  IBVP_nd_unit.term = IBVP_nd.term /\ IBVP_nn_unit.term = IBVP_nn.term /\ BVP2D_unit.term = BVP2D.term.
Proof. repeat split; vm_compute; reflexivity. Qed.

Lemma ibvp_rejects : IBVP_reject_three.raises = true /\ IBVP_reject_both_max.raises = true /\
  IBVP_dd.raises = false /\ IBVP_dn.raises = false /\ IBVP_nd.raises = false /\ IBVP_nn.raises = false.
Proof. repeat split. Qed.

Example bvp2d_premises_satisfiable : exists penv : nat -> R,
  penv BVP2D.p_x1 - penv BVP2D.p_x0 <> 0 /\ penv BVP2D.p_y1 - penv BVP2D.p_y0 <> 0.
Proof. exists (fun p => match p with 0%nat => 2 | 1%nat => -1 | 2%nat => 0 | _ => 3 end). cbn. split; lra. Qed.
