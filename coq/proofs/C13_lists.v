(* C13: list lemmas -- how the per-dimension (column) operations of the code act on the
   transposition of a list of rows; Cartesian product facts. *)
From Coq Require Import List Arith ZArith Bool Lia.
Import ListNotations.
From ND.model Require Import Batch GenComb.
From ND.proofs Require Import C14_batch.


Lemma zp_nil j : zp j [] = 0%Z.
Proof. unfold zproj. destruct j; reflexivity. Qed.

Lemma transpose_length d rows : length (transpose d rows) = d.
Proof. unfold transpose, cols. rewrite map_length, seq_length. reflexivity. Qed.

Lemma transpose_col_length d rows : Forall (fun c => length c = length rows) (transpose d rows).
Proof.
  unfold transpose, cols. apply Forall_forall. intros c Hin.
  apply in_map_iff in Hin as [j [<- _]]. apply map_length.
Qed.

Lemma transpose_1 rows : transpose 1 rows = [map (zp 0) rows].
Proof. reflexivity. Qed.

Lemma map_seq_shift {B : Type} (F : nat -> B) n : forall a,
    map F (seq a n) = map (fun j => F (a + j)) (seq 0 n).
Proof.
  induction n as [|n IH]; intros a; [reflexivity|].
  cbn [seq map]. rewrite Nat.add_0_r. f_equal.
  rewrite <- (seq_shift n 0), map_map. rewrite (IH (S a)). apply map_ext. intros j. f_equal. lia.
Qed.

(* ---- all_some ---- *)
Lemma all_some_map {A B : Type} (f : A -> option B) (g : A -> B) l :
  (forall x, In x l -> f x = Some (g x)) -> all_some (map f l) = Some (map g l).
Proof.
  induction l as [|x l IH]; intros H; [reflexivity|].
  cbn [map all_some]. rewrite (H x (or_introl eq_refl)), IH; [reflexivity|].
  intros y Hy. apply H. right. exact Hy.
Qed.

(* ---- filter: x[mask] ---- *)
Lemma select_map {A B : Type} (f : A -> B) mk : forall xs, select mk (map f xs) = map f (select mk xs).
Proof.
  induction mk as [|b mk IH]; intros [|x xs]; cbn [select map]; try reflexivity.
  destruct b; cbn [map]; rewrite IH; reflexivity.
Qed.

Lemma select_transpose d mk rows : map (select mk) (transpose d rows) = transpose d (select mk rows).
Proof.
  unfold transpose, cols. rewrite map_map. apply map_ext. intros j. apply select_map.
Qed.

Lemma select_incl {A : Type} mk : forall (xs : list A) x, In x (select mk xs) -> In x xs.
Proof.
  induction mk as [|b mk IH]; intros [|y xs] x; cbn [select In]; try tauto.
  destruct b; cbn [In]; intros H; [destruct H as [H|H]; [left; exact H|]|]; right; apply IH; exact H.
Qed.


Lemma select_length {A : Type} mk : forall (xs : list A), length mk = length xs -> length (select mk xs) = count_true mk.
Proof.
  unfold count_true.
  induction mk as [|b mk IH]; intros [|x xs] H; cbn [select filter length] in *; try discriminate; try reflexivity.
  destruct b; cbn [length]; rewrite IH by lia; reflexivity.
Qed.

Lemma select_Forall {A : Type} (P : A -> Prop) mk xs : Forall P xs -> Forall P (select mk xs).
Proof.
  intros H. apply Forall_forall. intros x Hx. rewrite Forall_forall in H. apply H. eapply select_incl. exact Hx.
Qed.

(* ---- resample: x[indices] ---- *)
Lemma gather_col idx (rows : list row) j :
  Forall (fun i => i < length rows) idx ->
  gather idx (map (zp j) rows) = Some (map (zp j) (map (fun i => nth i rows []) idx)).
Proof.
  intros H. unfold gather. rewrite map_length.
  assert (E : forallb (fun i => Nat.ltb i (length rows)) idx = true).
  { apply forallb_forall. intros i Hi. apply Nat.ltb_lt. rewrite Forall_forall in H. apply H. exact Hi. }
  rewrite E. f_equal. rewrite map_map. apply map_ext. intros i.
  transitivity (nth i (map (zp j) rows) (zp j [])); [rewrite zp_nil; reflexivity|apply map_nth].
Qed.

Lemma gather_transpose d idx rows :
  Forall (fun i => i < length rows) idx ->
  all_some (map (gather idx) (transpose d rows)) = Some (transpose d (map (fun i => nth i rows []) idx)).
Proof.
  intros H. unfold transpose, cols. rewrite map_map.
  apply all_some_map. intros j _. apply gather_col. exact H.
Qed.

Lemma gather_none idx xs i : In i idx -> length xs <= i -> gather idx xs = None.
Proof.
  intros Hin Hle. unfold gather.
  destruct (forallb (fun i0 => Nat.ltb i0 (length xs)) idx) eqn:E; [|reflexivity].
  rewrite forallb_forall in E. specialize (E i Hin). apply Nat.ltb_lt in E. lia.
Qed.

(* ---- concat: torch.cat per dimension ---- *)
Lemma transpose_app d a b : zip_app Z (transpose d a) (transpose d b) = transpose d (a ++ b).
Proof. apply zip_app_cols. Qed.

Lemma zipn_app_cons2 a b l : zipn_app (a :: b :: l) = zip_app Z a (zipn_app (b :: l)).
Proof. reflexivity. Qed.

Lemma zipn_app_transpose d rss : rss <> [] -> zipn_app (map (transpose d) rss) = transpose d (concat rss).
Proof.
  induction rss as [|rs rest IH]; [congruence|]. intros _.
  destruct rest as [|rs2 rest'].
  - cbn [map zipn_app concat]. rewrite app_nil_r. reflexivity.
  - cbn [map]. rewrite zipn_app_cons2. cbn [map] in IH. rewrite IH by discriminate.
    rewrite transpose_app. reflexivity.
Qed.

(* ---- ensemble: juxtaposition of dimensions ---- *)


Lemma juxt_cons2 a b l : juxt (a :: b :: l) = zipw a (juxt (b :: l)).
Proof. reflexivity. Qed.

Lemma zipw_length a b : length a = length b -> length (zipw a b) = length a.
Proof. intros H. unfold zipw. rewrite map_length, combine_length. lia. Qed.

Lemma zipw_width d1 d2 a b : Forall (width d1) a -> Forall (width d2) b -> Forall (width (d1 + d2)) (zipw a b).
Proof.
  intros Ha. revert b. induction Ha as [|x a Hx Ha IH]; intros b Hb; [constructor|].
  destruct Hb as [|y b Hy Hb]; [constructor|]. unfold zipw. cbn [combine map fst snd]. constructor.
  - unfold width in *. rewrite app_length. lia.
  - apply IH. exact Hb.
Qed.

Lemma zipw_col_left d1 j : j < d1 -> forall a b, length a = length b -> Forall (width d1) a ->
    map (zp j) (zipw a b) = map (zp j) a.
Proof.
  intros Hj. induction a as [|x a IH]; intros [|y b] Hlen Hw; cbn in Hlen; try discriminate; [reflexivity|].
  unfold zipw. cbn [combine map fst snd]. inversion Hw as [|? ? Hx Ha]; subst. f_equal.
  - unfold zproj. apply app_nth1. unfold width in Hx. lia.
  - apply IH; [lia|exact Ha].
Qed.

Lemma zipw_col_right d1 j : forall a b, length a = length b -> Forall (width d1) a ->
    map (zp (d1 + j)) (zipw a b) = map (zp j) b.
Proof.
  induction a as [|x a IH]; intros [|y b] Hlen Hw; cbn in Hlen; try discriminate; [reflexivity|].
  unfold zipw. cbn [combine map fst snd]. inversion Hw as [|? ? Hx Ha]; subst. f_equal.
  - unfold zproj. unfold width in Hx. rewrite <- Hx. apply app_nth2_plus.
  - apply IH; [lia|exact Ha].
Qed.

Lemma transpose_zipw d1 d2 a b : length a = length b -> Forall (width d1) a ->
  transpose (d1 + d2) (zipw a b) = transpose d1 a ++ transpose d2 b.
Proof.
  intros Hlen Hw. unfold transpose, cols. rewrite seq_app, map_app. f_equal.
  - apply map_ext_in. intros j Hj. apply in_seq in Hj. apply (zipw_col_left d1); auto. lia.
  - cbn [plus]. rewrite map_seq_shift. apply map_ext. intros j. apply zipw_col_right; auto.
Qed.


(* n-ary: X = the children, D = their dimension counts, R = their rows *)
Lemma juxt_transpose {X : Type} (D : X -> nat) (R : X -> list row) n : forall gs : list X,
    gs <> [] ->
    (forall g, In g gs -> length (R g) = n /\ Forall (width (D g)) (R g)) ->
    transpose (sumn (map D gs)) (juxt (map R gs)) = concat (map (fun g => transpose (D g) (R g)) gs)
    /\ length (juxt (map R gs)) = n
    /\ Forall (width (sumn (map D gs))) (juxt (map R gs)).
Proof.
  induction gs as [|g gs IH]; [congruence|]. intros _ H.
  destruct (H g (or_introl eq_refl)) as [Hn Hw].
  destruct gs as [|g2 gs'].
  - cbn [map juxt concat sumn GenComb.sum fold_right]. rewrite Nat.add_0_r, app_nil_r. auto.
  - assert (H' : forall x, In x (g2 :: gs') -> length (R x) = n /\ Forall (width (D x)) (R x)).
    { intros x Hx. apply H. right. exact Hx. }
    destruct (IH ltac:(discriminate) H') as [IH1 [IH2 IH3]].
    change (map R (g :: g2 :: gs')) with (R g :: map R (g2 :: gs')).
    change (map R (g2 :: gs')) with (R g2 :: map R gs') in *.
    rewrite juxt_cons2.
    change (sumn (map D (g :: g2 :: gs'))) with (D g + sumn (map D (g2 :: gs'))).
    repeat split.
    + rewrite transpose_zipw by (auto; lia).
      change (map (fun g0 => transpose (D g0) (R g0)) (g :: g2 :: gs'))
        with (transpose (D g) (R g) :: map (fun g0 => transpose (D g0) (R g0)) (g2 :: gs')).
      cbn [concat]. f_equal. exact IH1.
    + rewrite zipw_length; lia.
    + apply zipw_width; auto.
Qed.

(* ---- transforms=[...] ---- *)
Section TransL.
  Variable tfun : nat -> Z -> Z.
  Notation app1 := (GenComb.app1 tfun).
  Notation zipmap := (GenComb.zipmap tfun).


  Lemma zipmap_length ts : forall r, length r = length ts -> length (zipmap ts r) = length ts.
  Proof.
    induction ts as [|t ts IH]; intros [|x r] H; cbn in *; try discriminate; try reflexivity.
    f_equal. apply IH. lia.
  Qed.

  Lemma zipmap_nth ts : forall r j, length r = length ts -> j < length ts ->
      zp j (zipmap ts r) = app1 (nth j ts None) (zp j r).
  Proof.
    unfold zproj.
    induction ts as [|t ts IH]; intros [|x r] j H Hj; cbn in *; try discriminate; try lia.
    destruct j as [|j]; [reflexivity|]. apply IH; lia.
  Qed.

  Variable tvec : nat -> list Z -> list Z.
  Hypothesis tvec_pointwise : forall t c, tvec t c = map (tfun t) c.

  Lemma app_t_pointwise t c : app_t tvec t c = map (app1 t) c.
  Proof.
    destruct t as [i|]; cbn [app_t GenComb.app1]; [apply tvec_pointwise|]. symmetry. apply map_id.
  Qed.

  Lemma zip_trans_seq {F : nat -> list Z} ts : forall a,
      zip_trans (app_t tvec) ts (map F (seq a (length ts))) =
      map (fun j => app_t tvec (nth (j - a) ts None) (F j)) (seq a (length ts)).
  Proof.
    induction ts as [|t ts IH]; intros a; [reflexivity|].
    cbn [length seq map zip_trans]. f_equal.
    - rewrite Nat.sub_diag. reflexivity.
    - rewrite IH. apply map_ext_in. intros j Hj. apply in_seq in Hj.
      replace (j - a) with (S (j - S a)) by lia. reflexivity.
  Qed.

  Lemma transL_transpose ts rows :
    Forall (width (length ts)) rows ->
    zip_trans (app_t tvec) ts (transpose (length ts) rows) = transpose (length ts) (map (zipmap ts) rows).
  Proof.
    intros Hw. unfold transpose, cols. rewrite zip_trans_seq.
    apply map_ext_in. intros j Hj. apply in_seq in Hj. rewrite Nat.sub_0_r.
    rewrite app_t_pointwise, !map_map. apply map_ext_in. intros r Hr.
    rewrite Forall_forall in Hw. symmetry. apply zipmap_nth; [apply Hw; exact Hr|lia].
  Qed.
End TransL.

(* ---- mesh: Cartesian product ---- *)
Lemma flat_map_length_const {A B : Type} (f : A -> list B) m l :
  (forall x, In x l -> length (f x) = m) -> length (flat_map f l) = length l * m.
Proof.
  induction l as [|x l IH]; intros H; [reflexivity|].
  cbn [flat_map length]. rewrite app_length, IH, (H x (or_introl eq_refl)); [lia|].
  intros y Hy. apply H. right. exact Hy.
Qed.

Lemma cart_length cs : length (cart cs) = prod (map (@length Z) cs).
Proof.
  induction cs as [|c cs IH]; [reflexivity|].
  cbn [cart map prod fold_right]. rewrite (flat_map_length_const _ (length (cart cs))).
  - rewrite IH. reflexivity.
  - intros x _. apply map_length.
Qed.

Lemma cart_width cs : Forall (width (length cs)) (cart cs).
Proof.
  induction cs as [|c cs IH]; [repeat constructor|].
  cbn [cart]. apply Forall_forall. intros r Hr. apply in_flat_map in Hr as [x [_ Hr]].
  apply in_map_iff in Hr as [r' [<- Hr']]. rewrite Forall_forall in IH. unfold width in *.
  cbn [length]. f_equal. apply IH. exact Hr'.
Qed.

(* every combination, and nothing else *)
Lemma cart_In cs : forall r, In r (cart cs) <-> Forall2 (fun x c => In x c) r cs.
Proof.
  induction cs as [|c cs IH]; intros r; cbn [cart].
  - split; [intros [<-|[]]; constructor | intros H; inversion H; left; reflexivity].
  - rewrite in_flat_map. split.
    + intros [x [Hx Hr]]. apply in_map_iff in Hr as [r' [<- Hr']]. constructor; [exact Hx|]. apply IH. exact Hr'.
    + intros H. inversion H as [|x c' r' cs' Hx Hr']; subst. exists x. split; [exact Hx|].
      apply in_map. apply IH. exact Hr'.
Qed.

Lemma nth_flat_map_const {A B : Type} (f : A -> list B) m (dx : A) (d : B) : forall l i j,
    (forall x, length (f x) = m) -> i < length l -> j < m ->
    nth (i * m + j) (flat_map f l) d = nth j (f (nth i l dx)) d.
Proof.
  induction l as [|x l IH]; intros i j Hm Hi Hj; cbn [length] in Hi; [lia|].
  cbn [flat_map]. destruct i as [|i].
  - cbn [Nat.mul Nat.add nth]. apply app_nth1. rewrite Hm. exact Hj.
  - cbn [nth]. replace (S i * m + j) with (length (f x) + (i * m + j)) by (rewrite Hm; lia).
    rewrite app_nth2_plus. apply IH; auto. lia.
Qed.

(* row-major order, every index combination at exactly one position:
   position i * |cart cs| + j holds (c[i], then the j-th combination of the remaining axes) *)
Lemma cart_nth c cs i j :
  i < length c -> j < length (cart cs) ->
  nth (i * length (cart cs) + j) (cart (c :: cs)) [] = nth i c 0%Z :: nth j (cart cs) [].
Proof.
  intros Hi Hj. cbn [cart].
  rewrite (nth_flat_map_const _ (length (cart cs)) 0%Z []); auto.
  - rewrite (nth_indep _ [] (nth i c 0%Z :: [])) by (rewrite map_length; exact Hj).
    apply (map_nth (cons (nth i c 0%Z))).
  - intros x. apply map_length.
Qed.

Lemma cart_single c : map (zp 0) (cart [c]) = c.
Proof.
  cbn [cart]. induction c as [|x c IH]; [reflexivity|].
  cbn [flat_map map app]. f_equal. exact IH.
Qed.

Lemma concat_map_singleton {A B : Type} (F : A -> B) l : concat (map (fun x => [F x]) l) = map F l.
Proof. induction l as [|x l IH]; [reflexivity|]. cbn [map concat app]. f_equal. exact IH. Qed.

(* ---- rows_of / transpose round trip ---- *)
Lemma rows_of_width (d : nat) c : Forall (width d) (rows_of 0%Z d c).
Proof.
  unfold rows_of. apply Forall_forall. intros r Hr. apply in_map_iff in Hr as [i [<- _]].
  unfold width. rewrite map_length, seq_length. reflexivity.
Qed.

Lemma rows_of_length (d : nat) c : length (rows_of 0%Z d c) = length (hd [] c).
Proof. unfold rows_of. rewrite map_length, seq_length. reflexivity. Qed.

Lemma transpose_rows_of d c : wf_cols d c -> transpose d (rows_of 0%Z d c) = c.
Proof. apply cols_rows_of. Qed.

Lemma NoDup_app_l {A : Type} (l l' : list A) : NoDup (l ++ l') -> NoDup l.
Proof.
  induction l as [|x l IH]; intros H; [constructor|].
  cbn [app] in H. inversion H as [|? ? Hx Hl]; subst. constructor.
  - intros Hin. apply Hx. apply in_or_app. left. exact Hin.
  - apply IH. exact Hl.
Qed.

Lemma sum_cons a l : GenComb.sum (a :: l) = a + GenComb.sum l.
Proof. reflexivity. Qed.

Lemma concat_length_sum {A : Type} (l : list (list A)) : length (concat l) = GenComb.sum (map (@length A) l).
Proof.
  induction l as [|x l IH]; [reflexivity|]. cbn [concat map]. rewrite app_length, sum_cons, IH. reflexivity.
Qed.
