(* C13: the combinator model (model/GenComb.v, columns, as the code computes) against a
   row-level specification in which a row (= all coordinates of one point) is atomic. *)
From Coq Require Import List Arith ZArith Bool Lia.
Import ListNotations.
From ND.model Require Import Batch GenComb.
From ND.proofs Require Import C14_batch C13_lists.

(* ---------------------------------------------------------------- induction over the nested AST *)
Section GenInd.
  Variable P : gen -> Prop.
  Hypothesis HLeaf : forall i s f, P (Leaf i s f).
  Hypothesis HConcat : forall gs, Forall P gs -> P (Concat gs).
  Hypothesis HEnsemble : forall gs, Forall P gs -> P (Ensemble gs).
  Hypothesis HMesh : forall gs, Forall P gs -> P (Mesh gs).
  Hypothesis HTL : forall g ts, P g -> P (TransformL g ts).
  Hypothesis HTF : forall g t, P g -> P (TransformF g t).
  Hypothesis HTN : forall g, P g -> P (TransformN g).
  Hypothesis HFilter : forall g m s u, P g -> P (Filter g m s u).
  Hypothesis HResample : forall g r s b, P g -> P (Resample g r s b).
  Hypothesis HStatic : forall g, P g -> P (Static g).
  Hypothesis HPre : forall cs, P (Predefined cs).

  Fixpoint gen_ind' (g : gen) : P g :=
    let fix go (l : list gen) : Forall P l :=
      match l with
      | [] => Forall_nil P
      | h :: t => @Forall_cons _ P h t (gen_ind' h) (go t)
      end in
    match g with
    | Leaf i s f => HLeaf i s f
    | Concat gs => HConcat gs (go gs)
    | Ensemble gs => HEnsemble gs (go gs)
    | Mesh gs => HMesh gs (go gs)
    | TransformL g ts => HTL g ts (gen_ind' g)
    | TransformF g t => HTF g t (gen_ind' g)
    | TransformN g => HTN g (gen_ind' g)
    | Filter g m s u => HFilter g m s u (gen_ind' g)
    | Resample g r s b => HResample g r s b (gen_ind' g)
    | Static g => HStatic g (gen_ind' g)
    | Predefined cs => HPre cs
    end.
End GenInd.

Section Spec.
  (* the oracles of the model *)
  Variable draw : nat -> nat -> list (list Z).
  Variable mask : nat -> nat -> list bool.
  Variable rperm : nat -> nat -> list nat.
  Variable rint : nat -> nat -> list nat.
  Variable tvec : nat -> list Z -> list Z.
  Variable tmulti : nat -> list (list Z) -> out.
  (* what the property assumes about the user-supplied parts *)
  Variable ldims : nat -> nat.              (* number of dimensions of leaf id *)
  Variable tfun : nat -> Z -> Z.            (* entry t of transforms=[...] acts pointwise as tfun t *)
  Variable trow : nat -> row -> row.        (* transform=t acts row by row as trow t *)
  Variable tdims : nat -> nat -> nat.       (* ... producing tdims t d coordinates from d *)
  Variable tform : nat -> nat -> form.      (* ... in this container *)

  Notation sample := (sample draw mask rperm rint tvec tmulti).
  Notation size_at := (size_at draw mask rperm rint tvec tmulti).

  Notation ridx := (GenComb.ridx rperm rint).
  Notation dims := (GenComb.dims ldims tdims).
  Notation fform := (GenComb.fform ldims tdims tform).
  Notation rsem := (GenComb.rsem draw mask rperm rint ldims tfun trow).
  Notation ok := (GenComb.ok draw mask rperm rint ldims tfun trow tdims tform).
  Notation good := (GenComb.good draw mask rperm rint tvec tmulti ldims tfun trow tdims tform).
  Notation sized := (GenComb.sized draw rperm rint).

  (* ------------------------------------------------------------ per-combinator theorems.
     The children are arbitrary subtrees (any depth); what is assumed of them is only what
     they return at call k. *)

  Lemma samples_of (gs : list gen) k (F : gen -> form) (D : gen -> nat) (R : gen -> list row) :
    (forall h, In h gs -> sample h k = Some (F h, transpose (D h) (R h))) ->
    all_some (map (fun h => sample h k) gs) = Some (map (fun h => (F h, transpose (D h) (R h))) gs).
  Proof. intros H. apply all_some_map. exact H. Qed.

  Lemma concat_out_tensor (os : list out) :
    os <> [] -> (forall o, In o os -> fst o = FT) ->
    concat_out os = Some (FT, [concat (map (fun o => hd [] (snd o)) os)]).
  Proof.
    intros Hne H. unfold concat_out. destruct os as [|[f0 c0] os']; [congruence|].
    assert (E0 : f0 = FT) by (apply (H (f0, c0)); left; reflexivity). subst f0.
    assert (E : forallb (fun o : out => form_eqb (fst o) FT) ((FT, c0) :: os') = true).
    { apply forallb_forall. intros o Ho. rewrite (H o Ho). reflexivity. }
    cbv beta iota. match goal with |- (if ?c then _ else _) = _ => replace c with true by (symmetry; exact E) end. reflexivity.
  Qed.

  Lemma concat_out_list (os : list out) :
    os <> [] -> (forall o, In o os -> fst o <> FT) ->
    concat_out os = Some (FL, zipn_app (map snd os)).
  Proof.
    intros Hne H. unfold concat_out. destruct os as [|[f0 c0] os']; [congruence|].
    assert (E : forallb (fun o : out => negb (form_eqb (fst o) FT)) ((f0, c0) :: os') = true).
    { apply forallb_forall. intros o Ho. specialize (H o Ho). destruct (fst o); try reflexivity. congruence. }
    assert (E0 : f0 <> FT) by (apply (H (f0, c0)); left; reflexivity).
    destruct f0; [congruence| |]; cbv beta iota; match goal with |- (if ?c then _ else _) = _ => replace c with true by (symmetry; exact E) end; reflexivity.
  Qed.

  (* concatenation appends per dimension *)
  Theorem concat_rows (gs : list gen) k d (R : gen -> list row) (F : gen -> form) :
    gs <> [] ->
    (forall h, In h gs -> sample h k = Some (F h, transpose d (R h))) ->
    (forall h, In h gs -> (F h = FT <-> F (hd h gs) = FT)) ->
    (forall h, In h gs -> F h = FT -> d = 1) ->
    sample (Concat gs) k =
    Some (match F (hd (Leaf 0 0 FL) gs) with FT => FT | _ => FL end, transpose d (concat (map R gs))).
  Proof.
    intros Hne Hs Hf H1.
    cbn [GenComb.sample]. rewrite (samples_of gs k F (fun _ => d) R Hs).
    set (os := map (fun h => (F h, transpose d (R h))) gs).
    assert (Hos : os <> []) by (subst os; destruct gs; [congruence|discriminate]).
    destruct gs as [|h0 rest]; [congruence|]. cbn [hd].
    assert (Hf' : forall h, In h (h0 :: rest) -> (F h = FT <-> F h0 = FT)).
    { intros h Hh. specialize (Hf h Hh). cbn [hd] in Hf. exact Hf. }
    clear Hf.
    destruct (F h0) eqn:E0.
    - (* every child returns a tensor: torch.cat(all_examples) *)
      assert (Hd1 : d = 1) by (apply (H1 h0); [left; reflexivity|exact E0]). subst d.
      rewrite concat_out_tensor; [|exact Hos|].
      + f_equal. f_equal. rewrite transpose_1. f_equal. subst os.
        rewrite concat_map, !map_map. reflexivity.
      + intros o Ho. subst os. apply in_map_iff in Ho as [h [<- Hh]]. cbn [fst]. apply Hf'; [exact Hh|reflexivity].
    - rewrite concat_out_list; [|exact Hos|].
      + f_equal. f_equal. subst os. rewrite map_map. cbn [snd].
        rewrite <- (map_map R (transpose d)). apply zipn_app_transpose. discriminate.
      + intros o Ho. subst os. apply in_map_iff in Ho as [h [<- Hh]]. cbn [fst]. intros Eh.
        apply (Hf' h Hh) in Eh. discriminate.
    - rewrite concat_out_list; [|exact Hos|].
      + f_equal. f_equal. subst os. rewrite map_map. cbn [snd].
        rewrite <- (map_map R (transpose d)). apply zipn_app_transpose. discriminate.
      + intros o Ho. subst os. apply in_map_iff in Ho as [h [<- Hh]]. cbn [fst]. intros Eh.
        apply (Hf' h Hh) in Eh. discriminate.
  Qed.

  Definition FL_or_FT (d : nat) : form := match d with 1 => FT | _ => FL end.

  Lemma single_or_len f (cs : list (list Z)) :
    single_or f cs = (match length cs with 1 => FT | _ => f end, cs).
  Proof. destruct cs as [|a [|b l]]; reflexivity. Qed.

  (* ensemble juxtaposes dimensions (equal sizes required) *)
  Theorem ensemble_rows (gs : list gen) k n (D : gen -> nat) (R : gen -> list row) (F : gen -> form) :
    gs <> [] ->
    (forall h, In h gs -> sample h k = Some (F h, transpose (D h) (R h))) ->
    (forall h, In h gs -> length (R h) = n /\ Forall (width (D h)) (R h)) ->
    sample (Ensemble gs) k =
    Some (match sumn (map D gs) with 1 => FT | _ => FU end, transpose (sumn (map D gs)) (juxt (map R gs)))
    /\ length (juxt (map R gs)) = n
    /\ Forall (width (sumn (map D gs))) (juxt (map R gs)).
  Proof.
    intros Hne Hs Hw. destruct (juxt_transpose D R n gs Hne Hw) as [E [L W]].
    split; [|split; assumption].
    cbn [GenComb.sample]. rewrite (samples_of gs k F D R Hs). rewrite map_map. cbn [snd].
    rewrite <- E. rewrite single_or_len, transpose_length. reflexivity.
  Qed.

  (* mesh of one-dimensional generators: every combination, row-major *)
  Theorem mesh_rows (gs : list gen) k (R : gen -> list row) (F : gen -> form) :
    gs <> [] ->
    (forall h, In h gs -> sample h k = Some (F h, transpose 1 (R h))) ->
    sample (Mesh gs) k =
    Some (match gs with [_] => FT | _ => FU end,
          transpose (length gs) (cart (map (fun h => map (zp 0) (R h)) gs))).
  Proof.
    intros Hne Hs.
    cbn [GenComb.sample]. rewrite (samples_of gs k F (fun _ => 1) R Hs). rewrite map_map. cbn [snd].
    change (fun h => transpose 1 (R h)) with (fun h => [map (zp 0) (R h)]).
    rewrite concat_map_singleton.
    destruct gs as [|a [|b l]]; [congruence| |].
    - cbn [map length]. rewrite transpose_1, cart_single. reflexivity.
    - cbn [map length]. rewrite map_length. reflexivity.
  Qed.

  (* transform applies the given maps, one per dimension *)
  Hypothesis tvec_pointwise : forall t c, tvec t c = map (tfun t) c.

  Theorem transL_rows g ts k (R : list row) f :
    sample g k = Some (f, transpose (length ts) R) ->
    Forall (width (length ts)) R -> (f = FT -> length ts = 1) ->
    sample (TransformL g ts) k =
    Some (match f with FT => FT | _ => FU end, transpose (length ts) (map (zipmap tfun ts) R)).
  Proof.
    intros Hs Hw H1. cbn [GenComb.sample]. rewrite Hs.
    rewrite <- (transL_transpose tfun tvec tvec_pointwise ts R Hw).
    destruct f; try reflexivity.
    specialize (H1 eq_refl). destruct ts as [|t [|t2 ts']]; cbn [length] in H1; try discriminate.
    reflexivity.
  Qed.

  Hypothesis tmulti_spec : forall t d rows, 1 <= d -> Forall (width d) rows ->
      tmulti t (transpose d rows) = (tform t d, transpose (tdims t d) (map (trow t) rows))
      /\ Forall (width (tdims t d)) (map (trow t) rows)
      /\ 1 <= tdims t d /\ (tform t d = FT -> tdims t d = 1).

  Theorem transF_rows g t k d (R : list row) f :
    sample g k = Some (f, transpose d R) -> 1 <= d -> Forall (width d) R ->
    sample (TransformF g t) k = Some (tform t d, transpose (tdims t d) (map (trow t) R)).
  Proof.
    intros Hs Hd Hw. cbn [GenComb.sample]. rewrite Hs.
    destruct (tmulti_spec t d R Hd Hw) as [E _]. rewrite E. reflexivity.
  Qed.

  (* no maps given: the identity, for any number of dimensions *)
  Theorem transN_rows g k d (R : list row) f :
    sample g k = Some (f, transpose d R) ->
    sample (TransformN g) k = Some (match d with 1 => FT | _ => FU end, transpose d R).
  Proof.
    intros Hs. cbn [GenComb.sample]. rewrite Hs, single_or_len, transpose_length. reflexivity.
  Qed.

  (* filter keeps exactly the rows passing the mask; their number is the new size *)
  Theorem filter_rows g m s u k d (R : list row) f :
    sample g k = Some (f, transpose d R) -> 1 <= d -> length (mask m k) = length R ->
    sample (Filter g m s u) k = Some (match d with 1 => FT | _ => FL end, transpose d (select (mask m k) R))
    /\ length (select (mask m k) R) = count_true (mask m k).
  Proof.
    intros Hs Hd Hm. split; [|apply select_length; exact Hm].
    cbn [GenComb.sample]. rewrite Hs.
    destruct (transpose d R) as [|c0 cs0] eqn:E.
    { apply (f_equal (@length _)) in E. rewrite transpose_length in E. cbn in E. lia. }
    rewrite <- E.
    assert (Ef : forallb (fun c : list Z => Nat.eqb (length c) (length (mask m k))) (transpose d R) = true).
    { apply forallb_forall. intros c Hc. apply Nat.eqb_eq.
      pose proof (transpose_col_length d R) as Hl. rewrite Forall_forall in Hl. rewrite (Hl c Hc). lia. }
    rewrite Ef. rewrite single_or_len, select_transpose, transpose_length. reflexivity.
  Qed.

  Theorem filter_size_after g m s k f c cs :
    sample (Filter g m s true) k = Some (f, c :: cs) -> size_at (Filter g m s true) (S k) = length c.
  Proof. intros H. unfold GenComb.size_at. rewrite H. reflexivity. Qed.

  (* resample: rows of ONE underlying draw, at the drawn indices *)
  Lemma ridx_in_range g r (sz : option nat) (repl : bool) k n :
    (if repl then length (rint r k) = rsize g sz /\ Forall (fun i => i < n) (rint r k)
     else length (rperm r k) = n /\ Forall (fun i => i < n) (rperm r k)) ->
    Forall (fun i => i < n) (ridx g r sz repl k).
  Proof.
    unfold GenComb.ridx. destruct repl; intros [_ H]; [exact H|].
    apply Forall_forall. intros i Hi. rewrite Forall_forall in H. apply H.
    rewrite <- (firstn_skipn (rsize g sz) (rperm r k)). apply in_or_app. left. exact Hi.
  Qed.

  (* FULL strength, any child: whatever randperm(n) / randint(n, (size,)) can answer for n = the
     number of rows of the draw just taken selects rows of this very draw, never out of range *)
  Theorem resample_rows g r (sz : option nat) (repl : bool) k d (R : list row) f :
    sample g k = Some (f, transpose d R) -> 1 <= d ->
    (if repl then length (rint r k) = rsize g sz /\ Forall (fun i => i < length R) (rint r k)
     else length (rperm r k) = length R /\ Forall (fun i => i < length R) (rperm r k)) ->
    sample (Resample g r sz repl) k =
    Some (match f with FT => FT | _ => FL end, transpose d (map (fun i => nth i R []) (ridx g r sz repl k)))
    /\ Forall (fun i => i < length R) (ridx g r sz repl k).
  Proof.
    intros Hs Hd Hrng.
    assert (Hin : Forall (fun i => i < length R) (ridx g r sz repl k)) by (apply ridx_in_range; exact Hrng).
    split; [|exact Hin].
    cbn [GenComb.sample]. rewrite Hs.
    destruct (transpose d R) as [|c0 cs0] eqn:E.
    { apply (f_equal (@length _)) in E. rewrite transpose_length in E. cbn in E. lia. }
    assert (Hc0 : length c0 = length R).
    { pose proof (transpose_col_length d R) as Hl. rewrite E in Hl. inversion Hl; subst. assumption. }
    rewrite Hc0. rewrite <- E. fold (rsize g sz). fold (ridx g r sz repl k).
    assert (Ec : (if repl then Nat.eqb (length (ridx g r sz repl k)) (rsize g sz)
                               && forallb (fun i => Nat.ltb i (length R)) (ridx g r sz repl k)
                  else Nat.eqb (length (rperm r k)) (length R)) = true).
    { destruct repl.
      - destruct Hrng as [Hl Hf]. unfold GenComb.ridx. apply andb_true_intro. split.
        + apply Nat.eqb_eq. exact Hl.
        + apply forallb_forall. intros i Hi. apply Nat.ltb_lt. rewrite Forall_forall in Hf. apply Hf. exact Hi.
      - apply Nat.eqb_eq. apply Hrng. }
    rewrite Ec, (gather_transpose d _ R Hin). reflexivity.
  Qed.

  (* in particular directly above a filter: n is the number of rows the filter has just kept *)
  Theorem resample_over_filter g m s u r (sz : option nat) (repl : bool) k d (R : list row) f :
    sample g k = Some (f, transpose d R) -> 1 <= d -> length (mask m k) = length R ->
    let F := Filter g m s u in
    let R' := select (mask m k) R in
    (if repl then length (rint r k) = rsize F sz /\ Forall (fun i => i < length R') (rint r k)
     else length (rperm r k) = length R' /\ Forall (fun i => i < length R') (rperm r k)) ->
    sample (Resample F r sz repl) k =
    Some (FL_or_FT d, transpose d (map (fun i => nth i R' []) (ridx F r sz repl k))).
  Proof.
    intros Hs Hd Hm F R' Hrng.
    destruct (filter_rows g m s u k d R f Hs Hd Hm) as [HF _]. fold F R' in HF.
    destruct (resample_rows F r sz repl k d R' _ HF Hd Hrng) as [E _]. rewrite E.
    unfold FL_or_FT. destruct d as [|[|d']]; reflexivity.
  Qed.

  (* without replacement the indices are pairwise distinct: no row of the draw is returned twice *)
  Theorem resample_distinct g r sz k : NoDup (rperm r k) -> NoDup (ridx g r sz false k).
  Proof.
    intros H. unfold GenComb.ridx. rewrite <- (firstn_skipn (rsize g sz) (rperm r k)) in H.
    apply NoDup_app_l in H. exact H.
  Qed.

  (* static / predefined: the same points at every call *)
  Theorem static_const g k : sample (Static g) k = sample (Static g) 0.
  Proof. reflexivity. Qed.

  Theorem predefined_const cs k : sample (Predefined cs) k = sample (Predefined cs) 0.
  Proof. reflexivity. Qed.

  (* the solver-facing sampler: a list, every dimension reshaped to (n, 1), values untouched *)
  Theorem sampler_shape g k f cs :
    built (norm g) = true -> sample (norm g) k = Some (f, cs) ->
    run draw mask rperm rint tvec tmulti (Sampler g) k = Some (true, (FL, cs)).
  Proof. intros Hb Hs. unfold run. rewrite Hb, Hs. reflexivity. Qed.

  (* nested meshes are flattened by the constructor *)
  Theorem mesh_flatten gs rest : norm (Mesh (Mesh gs :: rest)) = norm (Mesh (gs ++ rest)).
  Proof. cbn [norm flat_map]. rewrite flat_map_app. reflexivity. Qed.

  (* ------------------------------------------------------------ the whole tree *)
  Lemma good_children (gs : list gen) k :
    Forall (fun h => forall k, ok h k -> good h k) gs -> Forall (fun h => ok h k) gs ->
    forall h, In h gs -> good h k.
  Proof.
    intros IH Hok h Hh. rewrite Forall_forall in IH, Hok. apply IH; [exact Hh|apply Hok; exact Hh].
  Qed.

  Theorem rows_paired : forall g k, ok g k -> good g k.
  Proof.
    induction g as [id s fm|gs IH|gs IH|gs IH|g ts IH|g t IH|g IH|g m s u IH|g r sz repl IH|g IH|cs] using gen_ind';
      intros k Hok;
      inversion Hok as [ ? ? ? ? Hl1 Hl2 Hl3 | ? ? Hne Hall Hdims Hforms | ? ? Hne Hall Hlens | ? ? Hne Hall Hone
                       | ? ? ? Hg Hlen | ? ? ? Hg | ? ? Hg | ? ? ? ? ? Hg Hm | ? ? ? ? ? Hg Hrng | ? ? Hg
                       | ? ? Hlen Hwf ]; subst; clear Hok.
    - (* Leaf *)
      unfold GenComb.good. cbn [GenComb.sample GenComb.fform GenComb.dims GenComb.rsem].
      rewrite transpose_rows_of by assumption. repeat split; auto. apply rows_of_width.
    - (* Concat *)
      pose proof (good_children gs k IH Hall) as G.
      destruct gs as [|h0 rest]; [congruence|].
      assert (G0 := G h0 (or_introl eq_refl)). destruct G0 as [_ [_ [Hd0 Hf0]]].
      cbn [GenComb.dims] in Hdims. cbn [GenComb.fform] in Hforms.
      unfold GenComb.good. cbn [GenComb.fform GenComb.dims GenComb.rsem]. repeat split.
      + rewrite (concat_rows (h0 :: rest) k (dims h0) (fun h => rsem h k) fform); [reflexivity|discriminate| | |].
        * intros h Hh. destruct (G h Hh) as [Hs _]. rewrite <- (Hdims h Hh). exact Hs.
        * intros h Hh. cbn [hd]. rewrite (Hforms h Hh). destruct (fform h0); split; intros; congruence.
        * intros h Hh Eh. destruct (G h Hh) as [_ [_ [_ Hf]]]. rewrite <- (Hdims h Hh). apply Hf. exact Eh.
      + apply Forall_forall. intros r0 Hr. apply in_concat in Hr as [rs [Hrs Hr]].
        apply in_map_iff in Hrs as [h [<- Hh]]. destruct (G h Hh) as [_ [Hw _]].
        rewrite Forall_forall in Hw. rewrite <- (Hdims h Hh). apply Hw. exact Hr.
      + exact Hd0.
      + destruct (fform h0); intros; [apply Hf0; reflexivity|discriminate|discriminate].
    - (* Ensemble *)
      pose proof (good_children gs k IH Hall) as G.
      destruct gs as [|h0 rest] eqn:Egs; [congruence|]. rewrite <- Egs in *.
      destruct (ensemble_rows gs k (length (rsem h0 k)) dims (fun h => rsem h k) fform Hne) as [Es [El Ew]].
      + intros h Hh. destruct (G h Hh) as [Hs _]. exact Hs.
      + intros h Hh. destruct (G h Hh) as [_ [Hw _]]. split; [|exact Hw].
        apply Hlens; [exact Hh|rewrite Egs; left; reflexivity].
      + unfold GenComb.good. cbn [GenComb.fform GenComb.dims GenComb.rsem]. repeat split; auto.
        * rewrite Egs. cbn [map sumn GenComb.sum fold_right]. destruct (G h0) as [_ [_ [Hd _]]]; [rewrite Egs; left; reflexivity|].
          unfold sumn, GenComb.sum. lia.
        * destruct (sumn (map dims gs)) as [|[|n]]; intros; try discriminate; reflexivity.
    - (* Mesh *)
      pose proof (good_children gs k IH Hall) as G.
      unfold GenComb.good. cbn [GenComb.fform GenComb.dims GenComb.rsem]. repeat split.
      + apply (mesh_rows gs k (fun h => rsem h k) fform Hne).
        intros h Hh. destruct (G h Hh) as [Hs _]. rewrite (Hone h Hh) in Hs. exact Hs.
      + pose proof (cart_width (map (fun h => map (zp 0) (rsem h k)) gs)) as Hw. rewrite map_length in Hw. exact Hw.
      + destruct gs; [congruence|cbn [length]; lia].
      + destruct gs as [|a [|b l]]; intros; try discriminate; reflexivity.
    - (* TransformL *)
      destruct (IH k Hg) as [Hs [Hw [Hd Hf]]].
      unfold GenComb.good. cbn [GenComb.fform GenComb.dims GenComb.rsem]. rewrite <- Hlen in *. repeat split; auto.
      + apply transL_rows; auto.
      + apply Forall_forall. intros r0 Hr. apply in_map_iff in Hr as [r1 [<- Hr1]].
        rewrite Forall_forall in Hw. unfold width. apply zipmap_length. apply Hw. exact Hr1.
      + destruct (fform g); intros; [apply Hf; reflexivity|discriminate|discriminate].
    - (* TransformF *)
      destruct (IH k Hg) as [Hs [Hw [Hd Hf]]].
      destruct (tmulti_spec t (dims g) (rsem g k) Hd Hw) as [_ [Hw' [Hd' Hf']]].
      unfold GenComb.good. cbn [GenComb.fform GenComb.dims GenComb.rsem]. repeat split; auto.
      apply (transF_rows g t k (dims g) (rsem g k) (fform g)); auto.
    - (* TransformN *)
      destruct (IH k Hg) as [Hs [Hw [Hd Hf]]].
      unfold GenComb.good. cbn [GenComb.fform GenComb.dims GenComb.rsem]. repeat split; auto.
      + apply (transN_rows g k (dims g) (rsem g k) (fform g)). exact Hs.
      + destruct (dims g) as [|[|n]]; intros; try discriminate; reflexivity.
    - (* Filter *)
      destruct (IH k Hg) as [Hs [Hw [Hd Hf]]].
      unfold GenComb.good. cbn [GenComb.fform GenComb.dims GenComb.rsem]. repeat split; auto.
      + apply (filter_rows g m s u k (dims g) (rsem g k) (fform g)); auto.
      + apply select_Forall. exact Hw.
      + destruct (dims g) as [|[|n]]; intros; try discriminate; reflexivity.
    - (* Resample *)
      destruct (IH k Hg) as [Hs [Hw [Hd Hf]]].
      unfold GenComb.good. cbn [GenComb.fform GenComb.dims GenComb.rsem]. repeat split; auto.
      + apply (resample_rows g r sz repl k (dims g) (rsem g k) (fform g)); auto.
      + destruct (resample_rows g r sz repl k (dims g) (rsem g k) (fform g) Hs Hd Hrng) as [_ Hin].
        apply Forall_forall. intros r0 Hr. apply in_map_iff in Hr as [i [<- Hi]].
        rewrite Forall_forall in Hw, Hin. apply Hw. apply nth_In. apply Hin. exact Hi.
      + destruct (fform g); intros; [apply Hf; reflexivity|discriminate|discriminate].
    - (* Static *)
      destruct (IH 0 Hg) as [Hs [Hw [Hd Hf]]].
      unfold GenComb.good. cbn [GenComb.sample GenComb.fform GenComb.dims GenComb.rsem]. repeat split; auto.
    - (* Predefined *)
      unfold GenComb.good. cbn [GenComb.sample GenComb.fform GenComb.dims GenComb.rsem].
      rewrite transpose_rows_of by assumption. rewrite single_or_len. repeat split; auto.
      + destruct cs as [|a [|b l]]; reflexivity.
      + apply rows_of_width.
      + destruct cs as [|a [|b l]]; intros; try discriminate; reflexivity.
  Qed.

  (* ------------------------------------------------------------ size arithmetic (static-size trees) *)
  Lemma juxt_length (rss : list (list row)) n :
    rss <> [] -> (forall rs, In rs rss -> length rs = n) -> length (juxt rss) = n.
  Proof.
    induction rss as [|rs rest IH]; [congruence|]. intros _ H.
    destruct rest as [|rs2 rest'].
    - apply H. left. reflexivity.
    - rewrite juxt_cons2, zipw_length.
      + apply H. left. reflexivity.
      + rewrite IH; [|discriminate|intros x Hx; apply H; right; exact Hx].
        apply H. left. reflexivity.
  Qed.

  Theorem size_matches : forall g k, sized g k -> length (rsem g k) = csize g /\ size_at g k = csize g.
  Proof.
    induction g as [id s fm|gs IH|gs IH|gs IH|g ts IH|g t IH|g IH|g m s u IH|g r sz repl IH|g IH|cs] using gen_ind';
      intros k Hsz;
      inversion Hsz as [ ? ? ? ? Hl | ? ? Hall | ? ? Hne Hall Heq | ? ? Hall | ? ? ? Hg | ? ? ? Hg | ? ? Hg
                       | ? ? ? ? ? Hg Hr | ? ? Hg | ? ? ]; subst; clear Hsz;
      (split; [|destruct k; reflexivity]); cbn [GenComb.rsem csize].
    - rewrite rows_of_length. reflexivity.
    - rewrite concat_length_sum, map_map. f_equal. apply map_ext_in. intros h Hh.
      rewrite Forall_forall in IH, Hall. apply (IH h Hh k). apply Hall. exact Hh.
    - rewrite Forall_forall in IH, Hall.
      rewrite (juxt_length _ (csize (Ensemble gs))).
      + reflexivity.
      + destruct gs; [congruence|discriminate].
      + intros rs Hrs. apply in_map_iff in Hrs as [h [<- Hh]].
        rewrite <- (Heq h Hh). apply (IH h Hh k). apply Hall. exact Hh.
    - rewrite cart_length, !map_map. f_equal. apply map_ext_in. intros h Hh. rewrite map_length.
      rewrite Forall_forall in IH, Hall. apply (IH h Hh k). apply Hall. exact Hh.
    - rewrite map_length. apply (IH k Hg).
    - rewrite map_length. apply (IH k Hg).
    - apply (IH k Hg).
    - rewrite map_length. unfold GenComb.ridx, rsize in *. destruct repl; [exact Hr|].
      rewrite firstn_length. lia.
    - apply (IH 0 Hg).
    - apply rows_of_length.
  Qed.

  (* together with rows_paired: every dimension returned has exactly .size entries *)
  Corollary size_of_columns g k f cs :
    ok g k -> sized g k -> sample g k = Some (f, cs) -> Forall (fun c => length c = csize g) cs.
  Proof.
    intros Hok Hsz Hs. destruct (rows_paired g k Hok) as [Hs' _]. rewrite Hs' in Hs.
    injection Hs as _ <-. destruct (size_matches g k Hsz) as [<- _]. apply transpose_col_length.
  Qed.
End Spec.

(* ---------------------------------------------------------------- non-vacuity: the preconditions are satisfiable *)
Section Example.
  Definition ex_draw (id k : nat) : list (list Z) :=
    match id with
    | 0 => [[Z.of_nat k; Z.of_nat k + 1; Z.of_nat k + 2]; [10; 11; 12]]%Z
    | 1 => [[20; 21]; [30; 31]]%Z
    | _ => [[40; 41]]%Z
    end.
  Definition ex_ldims (id : nat) : nat := match id with 0 | 1 => 2 | _ => 1 end.
  Definition ex_mask (m k : nat) : list bool := [true; false; true].
  Definition ex_perm (r k : nat) : list nat := [1; 0].
  Definition ex_tfun (t : nat) (x : Z) : Z := (2 * x + Z.of_nat t)%Z.
  Definition ex_tmulti (t : nat) (cs : list (list Z)) : out := (FU, cs).

  Definition ex_tree : gen :=
    Concat [Filter (Leaf 0 3 FL) 0 None true;
            Resample (TransformL (Leaf 1 2 FU) [Some 1; None]) 0 None false].

  Notation ex_ok := (ok ex_draw ex_mask ex_perm (fun _ _ => []) ex_ldims ex_tfun (fun _ r => r)
                        (fun _ d => d) (fun _ _ => FU)).

  Lemma ex_tree_ok : forall k, ex_ok ex_tree k.
  Proof.
    intros k. apply ok_concat.
    - discriminate.
    - repeat constructor; try discriminate; cbn; lia.
    - intros h [<-|[<-|[]]]; reflexivity.
    - intros h [<-|[<-|[]]]; cbn; tauto.
  Qed.

  Lemma ex_tvec_pointwise : forall t c, h_tvec t c = map (ex_tfun t) c.
  Proof. reflexivity. Qed.

  Lemma ex_tmulti_spec : forall (t d : nat) (rows : list row), 1 <= d -> Forall (width d) rows ->
      ex_tmulti t (transpose d rows) = (FU, transpose d (map (fun r : row => r) rows))
      /\ Forall (width d) (map (fun r : row => r) rows) /\ 1 <= d /\ (FU = FT -> d = 1).
  Proof.
    intros t d rows Hd Hw. rewrite map_id. repeat split; auto. discriminate.
  Qed.

  Example ex_rows_paired : forall k,
      good ex_draw ex_mask ex_perm (fun _ _ => []) h_tvec ex_tmulti ex_ldims ex_tfun (fun _ r => r)
           (fun _ d => d) (fun _ _ => FU) ex_tree k.
  Proof.
    intros k. apply (rows_paired _ _ _ _ _ _ _ _ _ _ _ ex_tvec_pointwise ex_tmulti_spec). apply ex_tree_ok.
  Qed.

  Example ex_sample_0 :
    sample ex_draw ex_mask ex_perm (fun _ _ => []) h_tvec ex_tmulti ex_tree 0 =
    Some (FL, [[0; 2; 43; 41]; [10; 12; 31; 30]]%Z).
  Proof. vm_compute. reflexivity. Qed.

  Example ex_sized : forall k,
      sized ex_draw ex_perm (fun _ _ => [])
            (Ensemble [Leaf 1 2 FU; Resample (Mesh [Leaf 2 2 FT; Static (Leaf 3 2 FT)]) 0 (Some 2) false]) k.
  Proof.
    intros k. apply sz_ensemble; [discriminate| |intros h [<-|[<-|[]]]; reflexivity].
    repeat constructor; cbn; lia.
  Qed.
End Example.

(* what the code does on an ensemble of unequal sizes: the constructor refuses *)
Lemma ensemble_mismatch_refused (a b : gen) :
  built a = true -> built b = true -> csize a <> csize b -> built (Ensemble [a; b]) = false.
Proof.
  intros Ha Hb Hne. cbn [built forallb]. rewrite Ha, Hb, Nat.eqb_refl. cbn [andb].
  destruct (Nat.eqb_spec (csize b) (csize a)) as [E|E]; [congruence|reflexivity].
Qed.
