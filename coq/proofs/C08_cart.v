(* C08 — Cartesian grad/div/curl/laplacian equal their textbook definitions.
   List-generic models (any number of dimensions), their specification, and the ties to the
   terms pyfront regenerates from operators.py at every dimension the property names (1..4).
   DESIGN.md §7 C08. *)
From Coq Require Import Reals List Lra Lia ZArith Field.
From ND.lib Require Import Expr Tac.
From ND.gen Require Import Gen_C08.
Import ListNotations.
Open Scope R_scope.

(* ------------------------------------------------------------------ generic models *)
Definition grad_model (u : expr) (xs : list nat) : list expr := map (fun x => D x u) xs.

(* Python: sum(diff(u, x) for u, x in zip(us, xs))  =  ((0 + d1) + d2) + ... *)
Definition sum_diff (us : list expr) (xs : list nat) : expr :=
  fold_left (fun acc p => EAdd acc (D (snd p) (fst p))) (combine us xs) (ECst 0).

Definition div_model (us : list expr) (xs : list nat) : option expr :=
  if (Nat.eqb (length us) 0 || negb (Nat.eqb (length us) (length xs)))%bool then None
  else Some (sum_diff us xs).

Definition laplacian_model (u : expr) (xs : list nat) : expr := sum_diff (grad_model u xs) xs.

Definition Rsum (l : list R) : R := fold_right Rplus 0 l.

Section Spec.
  Variable venv penv : nat -> R.
  Variable fenv : nat -> list nat -> list R -> R.
  Notation ev := (eval venv penv fenv).

  Lemma fold_sum_diff l : forall acc,
    ev (fold_left (fun acc p => EAdd acc (D (snd p) (fst p))) l acc)
    = ev acc + Rsum (map (fun p : expr * nat => ev (D (snd p) (fst p))) l).
  Proof.
    induction l as [|p l IH]; intros acc; cbn [fold_left map Rsum fold_right].
    - ring.
    - rewrite IH. cbn [eval]. unfold Rsum. ring.
  Qed.

  (* divergence in any dimension: the sum of d u_i / d x_i *)
  Theorem div_spec us xs e :
    div_model us xs = Some e ->
    length us = length xs /\ (0 < length us)%nat /\
    ev e = Rsum (map (fun p : expr * nat => ev (D (snd p) (fst p))) (combine us xs)).
  Proof.
    unfold div_model. destruct (Nat.eqb_spec (length us) 0); cbn [orb]; [discriminate|].
    destruct (Nat.eqb_spec (length us) (length xs)); cbn [negb]; [|discriminate].
    intros [= <-]. repeat split; try lia.
    unfold sum_diff. rewrite fold_sum_diff. cbn [eval]. ring.
  Qed.

  Theorem div_rejects us xs :
    div_model us xs = None <-> (length us = 0%nat \/ length us <> length xs).
  Proof.
    unfold div_model. destruct (Nat.eqb_spec (length us) 0); cbn [orb].
    - split; auto.
    - destruct (Nat.eqb_spec (length us) (length xs)); cbn [negb]; split; try discriminate; auto.
      intros [|]; congruence.
  Qed.

  (* gradient: component i is d u / d x_i *)
  Theorem grad_spec u xs i x :
    nth_error xs i = Some x -> nth_error (grad_model u xs) i = Some (D x u).
  Proof. intros H. unfold grad_model. now rewrite nth_error_map, H. Qed.

  Theorem grad_length u xs : length (grad_model u xs) = length xs.
  Proof. apply map_length. Qed.

  (* a component the field does not depend on is zero *)
  Lemma dargs_zero f al args all j v : existsb (fun a => arg_is a v) args = false ->
    ev (dargs f al args all j v) = 0.
  Proof.
    revert j. induction args as [|a r IH]; intros j H; cbn [dargs]; [reflexivity|].
    cbn [existsb] in H. apply Bool.orb_false_iff in H as [Ha Hr]. rewrite Ha. now apply IH.
  Qed.

  Theorem D_independent_zero v e : occurs v e = false -> ev (D v e) = 0.
  Proof.
    induction e; cbn [occurs D]; intros H;
      try (apply Bool.orb_false_iff in H as [H1 H2]; specialize (IHe1 H1); specialize (IHe2 H2));
      cbn [eval]; rewrite ?IHe1, ?IHe2, ?IHe by auto; try ring.
    - rewrite H. reflexivity.
    - unfold Rdiv. ring.
    - destruct n; cbn [eval]; rewrite ?IHe by auto; ring.
    - unfold Rdiv. ring.
    - unfold Rdiv. ring.
    - now apply dargs_zero.
  Qed.

  (* laplacian in any dimension: the sum of second partials *)
  Theorem laplacian_spec u xs :
    ev (laplacian_model u xs) = Rsum (map (fun x => ev (D x (D x u))) xs).
  Proof.
    unfold laplacian_model, sum_diff. rewrite fold_sum_diff. cbn [eval].
    unfold grad_model. rewrite Rplus_0_l. f_equal.
    induction xs as [|x xs IH]; cbn [map combine]; [reflexivity|]. now rewrite IH.
  Qed.
End Spec.

(* ------------------------------------------------------------------ ties: generated = model *)
Definition S1 (f : nat) := EFun f [0]%nat [AVar 0]%nat.
Definition S2 (f : nat) := EFun f [0;0]%nat [AVar 0; AVar 1]%nat.
Definition S3 (f : nat) := EFun f [0;0;0]%nat [AVar 0; AVar 1; AVar 2]%nat.
Definition S4 (f : nat) := EFun f [0;0;0;0]%nat [AVar 0; AVar 1; AVar 2; AVar 3]%nat.

Lemma tie_grad :
  grad_1.terms = grad_model (S1 0) [0]%nat /\ grad_2.terms = grad_model (S2 0) [0;1]%nat /\
  grad_3.terms = grad_model (S3 0) [0;1;2]%nat /\ grad_4.terms = grad_model (S4 0) [0;1;2;3]%nat.
Proof. repeat split; vm_compute; reflexivity. Qed.

Lemma tie_div :
  Some div_1.term = div_model [S1 0] [0]%nat /\ Some div_2.term = div_model [S2 0; S2 1] [0;1]%nat /\
  Some div_3.term = div_model [S3 0; S3 1; S3 2] [0;1;2]%nat /\
  Some div_4.term = div_model [S4 0; S4 1; S4 2; S4 3] [0;1;2;3]%nat /\
  div_reject_empty.raises = true /\ div_reject_odd.raises = true.
Proof. repeat split; vm_compute; reflexivity. Qed.

Lemma tie_laplacian :
  laplacian_1.term = laplacian_model (S1 0) [0]%nat /\ laplacian_2.term = laplacian_model (S2 0) [0;1]%nat /\
  laplacian_3.term = laplacian_model (S3 0) [0;1;2]%nat /\ laplacian_4.term = laplacian_model (S4 0) [0;1;2;3]%nat.
Proof. repeat split; vm_compute; reflexivity. Qed.

Lemma tie_vector_laplacian :
  vector_laplacian.terms = map (fun u => laplacian_model u [0;1;2]%nat) [S3 0; S3 1; S3 2].
Proof. vm_compute. reflexivity. Qed.

Lemma tie_split : split_4.terms = [EVar 0; EVar 1; EVar 2; EVar 3]%nat.
Proof. reflexivity. Qed.

(* ------------------------------------------------------------------ textbook forms in the jets *)
Section Jets.
  Variable venv penv : nat -> R.
  Variable fenv : nat -> list nat -> list R -> R.
  Notation ev := (eval venv penv fenv).
  Let p3 := [venv 0%nat; venv 1%nat; venv 2%nat].

  Lemma curl_jets :
    ev curl.term_0 = fenv 2%nat [0;1;0]%nat p3 - fenv 1%nat [0;0;1]%nat p3 /\
    ev curl.term_1 = fenv 0%nat [0;0;1]%nat p3 - fenv 2%nat [1;0;0]%nat p3 /\
    ev curl.term_2 = fenv 1%nat [1;0;0]%nat p3 - fenv 0%nat [0;1;0]%nat p3.
  Proof. repeat split; reduce_eval; unfold p3; ring. Qed.

  Lemma grad3_jets :
    map ev grad_3.terms = [fenv 0%nat [1;0;0]%nat p3; fenv 0%nat [0;1;0]%nat p3; fenv 0%nat [0;0;1]%nat p3].
  Proof. unfold grad_3.terms. cbn [map]. reduce_eval. unfold p3. repeat f_equal; ring. Qed.

  Lemma div3_jets :
    ev div_3.term = fenv 0%nat [1;0;0]%nat p3 + fenv 1%nat [0;1;0]%nat p3 + fenv 2%nat [0;0;1]%nat p3.
  Proof. reduce_eval. unfold p3. ring. Qed.

  Lemma laplacian3_jets :
    ev laplacian_3.term = fenv 0%nat [2;0;0]%nat p3 + fenv 0%nat [0;2;0]%nat p3 + fenv 0%nat [0;0;2]%nat p3.
  Proof. reduce_eval. unfold p3. ring. Qed.

  Lemma laplacian4_jets : let p4 := [venv 0%nat; venv 1%nat; venv 2%nat; venv 3%nat] in
    ev laplacian_4.term = fenv 0%nat [2;0;0;0]%nat p4 + fenv 0%nat [0;2;0;0]%nat p4
                          + fenv 0%nat [0;0;2;0]%nat p4 + fenv 0%nat [0;0;0;2]%nat p4.
  Proof. cbv zeta. reduce_eval. ring. Qed.

  (* components a field does not depend on give zeros (autograd's None branch) *)
  Lemma curl_partial_jets :
    ev curl_partial.term_0 = 0 /\
    ev curl_partial.term_1 = fenv 0%nat [0;1]%nat [venv 1%nat; venv 2%nat] /\
    ev curl_partial.term_2 = fenv 1%nat [1]%nat [venv 0%nat] - fenv 0%nat [1;0]%nat [venv 1%nat; venv 2%nat].
  Proof. repeat split; reduce_eval; ring. Qed.

  (* compositions of two operators: classical identities for every field *)
  Lemma div_curl_zero : ev div_curl.term = 0.
  Proof. reduce_eval. ring. Qed.

  Lemma curl_grad_zero : ev curl_grad.term_0 = 0 /\ ev curl_grad.term_1 = 0 /\ ev curl_grad.term_2 = 0.
  Proof. repeat split; reduce_eval; ring. Qed.

  Lemma div_grad_is_laplacian : ev div_grad.term = ev laplacian_3.term.
  Proof. reduce_eval. ring. Qed.

  Lemma curl_curl_identity :
    ev curl_curl.term_0 = ev grad_div.term_0 - ev vector_laplacian.term_0 /\
    ev curl_curl.term_1 = ev grad_div.term_1 - ev vector_laplacian.term_1 /\
    ev curl_curl.term_2 = ev grad_div.term_2 - ev vector_laplacian.term_2.
  Proof. repeat split; reduce_eval; ring. Qed.
End Jets.

(* non-vacuity of div_spec's premise *)
Example div_model_defined : exists e, div_model [S2 0; S2 1] [0;1]%nat = Some e.
Proof. eexists. reflexivity. Qed.
