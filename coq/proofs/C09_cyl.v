(* C09 — cylindrical operators equal the physical components of the Cartesian objects, for
   every field and every point with rho <> 0. *)
From Coq Require Import Reals List Lra Lia ZArith Field.
From ND.lib Require Import Expr Tac.
From ND.gen Require Import Gen_C09.
From ND.proofs Require Import C09_spec.
Import ListNotations.
Open Scope R_scope.

Ltac cyl_solve venv Hr :=
  reduce_eval;
  set (R0 := venv 0%nat) in *; set (P := venv 1%nat) in *;
  generalize (sc2 P);
  set (sp := sin P); set (cp := cos P);
  let H1 := fresh "H1" in
  intros H1; field [H1]; auto.

Section Cyl.
  Variable venv penv : nat -> R.
  Variable fenv : nat -> list nat -> list R -> R.
  Hypothesis Hr : venv 0%nat <> 0.
  Notation ev := (eval venv penv fenv).
  Let U := F3 0.
  Let A := (F3 0, F3 1, F3 2).

  Lemma cyl_jacobian_inverse :
    ev (Cyl.dx cylindrical_to_cartesian.term_0) = 1 /\ ev (Cyl.dy cylindrical_to_cartesian.term_0) = 0 /\
    ev (Cyl.dz cylindrical_to_cartesian.term_0) = 0 /\
    ev (Cyl.dx cylindrical_to_cartesian.term_1) = 0 /\ ev (Cyl.dy cylindrical_to_cartesian.term_1) = 1 /\
    ev (Cyl.dz cylindrical_to_cartesian.term_1) = 0 /\
    ev (Cyl.dx cylindrical_to_cartesian.term_2) = 0 /\ ev (Cyl.dy cylindrical_to_cartesian.term_2) = 0 /\
    ev (Cyl.dz cylindrical_to_cartesian.term_2) = 1.
  Proof. repeat split; cyl_solve venv Hr. Qed.

  Lemma cyl_grad_ok :
    ev cylindrical_grad.term_0 = ev (fst3 (Cyl.frame (Cyl.grad U))) /\
    ev cylindrical_grad.term_1 = ev (snd3 (Cyl.frame (Cyl.grad U))) /\
    ev cylindrical_grad.term_2 = ev (thd3 (Cyl.frame (Cyl.grad U))).
  Proof. repeat split; cyl_solve venv Hr. Qed.

  Lemma cyl_div_ok : ev cylindrical_div.term = ev (Cyl.div (Cyl.cart A)).
  Proof. cyl_solve venv Hr. Qed.

  Lemma cyl_curl_ok :
    ev cylindrical_curl.term_0 = ev (fst3 (Cyl.frame (Cyl.curl (Cyl.cart A)))) /\
    ev cylindrical_curl.term_1 = ev (snd3 (Cyl.frame (Cyl.curl (Cyl.cart A)))) /\
    ev cylindrical_curl.term_2 = ev (thd3 (Cyl.frame (Cyl.curl (Cyl.cart A)))).
  Proof. repeat split; cyl_solve venv Hr. Qed.

  Lemma cyl_lap_ok : ev cylindrical_laplacian.term = ev (Cyl.lap U).
  Proof. cyl_solve venv Hr. Qed.

  Lemma cyl_vlap_ok :
    ev cylindrical_vector_laplacian.term_0 = ev (fst3 (Cyl.frame (Cyl.vlap (Cyl.cart A)))) /\
    ev cylindrical_vector_laplacian.term_1 = ev (snd3 (Cyl.frame (Cyl.vlap (Cyl.cart A)))) /\
    ev cylindrical_vector_laplacian.term_2 = ev (thd3 (Cyl.frame (Cyl.vlap (Cyl.cart A)))).
  Proof. repeat split; cyl_solve venv Hr. Qed.
End Cyl.
