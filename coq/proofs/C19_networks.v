(* C19 — provided networks are pointwise maps with the requested architecture.
   Lemmas about model/Networks.v (hand model, validated against the real modules by
   tools/props/C19.py) and about the terms pyfront regenerates into gen/Gen_C19.v. *)
From Coq Require Import Reals List Arith Lia Lra Field ZArith.
From ND.lib Require Import Expr Tac.
From ND.model Require Import Networks.
From ND.gen Require Import Gen_C19.
Import ListNotations.
Open Scope R_scope.

(* ================================================================== architecture *)

(* the requested architecture: [Linear; Act] for each hidden width, chained, then one Linear *)
Fixpoint chain (prev : nat) (hidden : list nat) (n_out : nat) : list layer :=
  match hidden with
  | [] => [Linear prev n_out true]
  | h :: r => Linear prev h true :: Act :: chain h r n_out
  end.

Lemma flat_map_seq_shift {A} (f : nat -> list A) n s :
  flat_map f (seq (S s) n) = flat_map (fun i => f (S i)) (seq s n).
Proof. rewrite <- seq_shift. rewrite flat_map_concat_map, map_map, <- flat_map_concat_map. reflexivity. Qed.

Lemma loop_chain hidden : forall prev n_out,
  flat_map (fun i => [Linear (nth i (prev :: hidden) 0%nat) (nth (S i) (prev :: hidden) 0%nat) true; Act])
           (seq 0 (length hidden))
  ++ [Linear (last (prev :: hidden) 0%nat) n_out true] = chain prev hidden n_out.
Proof.
  induction hidden as [|h r IH]; intros prev n_out.
  - reflexivity.
  - cbn [length seq flat_map]. rewrite flat_map_seq_shift.
    cbn [chain nth app]. f_equal. f_equal.
    rewrite <- (IH h n_out). f_equal.
Qed.

Lemma fcnn_layers_chain n_in n_out hidden : fcnn_layers n_in n_out hidden = chain n_in hidden n_out.
Proof.
  unfold fcnn_layers. cbn [length]. rewrite Nat.sub_succ, Nat.sub_0_r. apply loop_chain.
Qed.

Lemma last_cons_indep {A} (a : A) l d d' : last (a :: l) d = last (a :: l) d'.
Proof. revert a. induction l as [|b l IH]; intros a; [reflexivity|]. change (last (b :: l) d = last (b :: l) d'). apply IH. Qed.

(* the same, in the "[Linear; Act] * len ++ [Linear]" reading *)
Lemma chain_flat prev hidden n_out :
  chain prev hidden n_out =
  flat_map (fun p => [Linear (fst p) (snd p) true; Act]) (combine (prev :: hidden) hidden)
  ++ [Linear (last hidden prev) n_out true].
Proof.
  revert prev. induction hidden as [|h r IH]; intros prev.
  - reflexivity.
  - cbn [chain combine flat_map fst snd app]. rewrite IH. do 4 f_equal.
    destruct r as [|h2 r]; [reflexivity|]. f_equal.
    change (last (h2 :: r) h = last (h2 :: r) prev). apply last_cons_indep.
Qed.

Lemma fcnn_layers_spec n_in n_out hidden :
  fcnn_layers n_in n_out hidden =
  flat_map (fun p => [Linear (fst p) (snd p) true; Act]) (combine (n_in :: hidden) hidden)
  ++ [Linear (last hidden n_in) n_out true].
Proof. rewrite fcnn_layers_chain. apply chain_flat. Qed.

Lemma chain_length prev hidden n_out : length (chain prev hidden n_out) = (2 * length hidden + 1)%nat.
Proof. revert prev. induction hidden as [|h r IH]; intros prev; cbn [chain length]; [reflexivity | rewrite IH; lia]. Qed.

Lemma fcnn_layers_length n_in n_out hidden :
  length (fcnn_layers n_in n_out hidden) = (2 * length hidden + 1)%nat.
Proof. rewrite fcnn_layers_chain. apply chain_length. Qed.

(* no activation after the last layer: the last module is the Linear into n_out *)
Lemma chain_last prev hidden n_out :
  last (chain prev hidden n_out) Act = Linear (last hidden prev) n_out true.
Proof. rewrite chain_flat. apply last_last. Qed.

Lemma fcnn_last_linear n_in n_out hidden :
  last (fcnn_layers n_in n_out hidden) Act = Linear (last hidden n_in) n_out true.
Proof. rewrite fcnn_layers_chain. apply chain_last. Qed.

(* module 2i is the Linear (u_i -> u_{i+1}), module 2i+1 is an activation *)
Lemma chain_nth_even prev hidden n_out i : (i < length hidden)%nat ->
  nth (2 * i) (chain prev hidden n_out) Act = Linear (nth i (prev :: hidden) 0%nat) (nth i hidden 0%nat) true.
Proof.
  revert prev i. induction hidden as [|h r IH]; intros prev i Hi; [inversion Hi|].
  destruct i as [|i]; [reflexivity|].
  replace (2 * S i)%nat with (S (S (2 * i))) by lia. cbn [chain nth].
  apply IH. cbn [length] in Hi. lia.
Qed.

Lemma chain_nth_odd prev hidden n_out i : (i < length hidden)%nat ->
  nth (2 * i + 1) (chain prev hidden n_out) (Linear 0 0 true) = Act.
Proof.
  revert prev i. induction hidden as [|h r IH]; intros prev i Hi; [inversion Hi|].
  destruct i as [|i]; [reflexivity|].
  replace (2 * S i + 1)%nat with (S (S (2 * i + 1))) by lia. cbn [chain nth].
  apply IH. cbn [length] in Hi. lia.
Qed.

(* ---- deprecated size arguments *)
Lemma map_const_repeat {A} (u : A) n s : map (fun _ => u) (seq s n) = repeat u n.
Proof. revert s. induction n as [|n IH]; intros s; cbn [seq map repeat]; [reflexivity | now rewrite IH]. Qed.

Lemma fcnn_legacy_both n_in n_out h L :
  fcnn_init n_in n_out (Some h) (Some L) None = fcnn_init n_in n_out None None (Some (repeat h (L + 1))).
Proof. unfold fcnn_init, legacy_hidden, fill_legacy. now rewrite map_const_repeat. Qed.

Lemma fcnn_legacy_layers_only n_in n_out L :
  fcnn_init n_in n_out None (Some L) None = fcnn_init n_in n_out None None (Some (repeat 32%nat (L + 1))).
Proof. unfold fcnn_init, legacy_hidden, fill_legacy. now rewrite map_const_repeat. Qed.

Lemma fcnn_legacy_units_only n_in n_out h :
  fcnn_init n_in n_out (Some h) None None = fcnn_init n_in n_out None None (Some [h; h]).
Proof. reflexivity. Qed.

Lemma fcnn_default n_in n_out :
  fcnn_init n_in n_out None None None = fcnn_init n_in n_out None None (Some [32; 32]%nat).
Proof. reflexivity. Qed.

Lemma fcnn_legacy_ignored n_in n_out nhu nhl hid :
  fcnn_init n_in n_out nhu nhl (Some hid) = fcnn_layers n_in n_out hid.
Proof. unfold fcnn_init, legacy_hidden, fill_legacy. destruct nhu, nhl; reflexivity. Qed.

Lemma fcnn_legacy_equiv n_in n_out h L :
  fcnn_init n_in n_out (Some h) (Some L) None = fcnn_layers n_in n_out (repeat h (L + 1))
  /\ fcnn_init n_in n_out None (Some L) None = fcnn_layers n_in n_out (repeat 32%nat (L + 1))
  /\ fcnn_init n_in n_out (Some h) None None = fcnn_layers n_in n_out [h; h]
  /\ fcnn_init n_in n_out None None None = fcnn_layers n_in n_out [32; 32]%nat.
Proof.
  repeat split.
  - rewrite fcnn_legacy_both. apply fcnn_legacy_ignored.
  - rewrite fcnn_legacy_layers_only. apply fcnn_legacy_ignored.
Qed.

Lemma resnet_spec n_in n_out hid :
  resnet_init n_in n_out None None (Some hid) = (chain n_in hid n_out, Linear n_in n_out false).
Proof. unfold resnet_init. rewrite fcnn_legacy_ignored, fcnn_layers_chain. reflexivity. Qed.

Example fcnn_layers_ex :
  fcnn_layers 2 3 [5; 7]%nat = [Linear 2 5 true; Act; Linear 5 7 true; Act; Linear 7 3 true].
Proof. reflexivity. Qed.

Example fcnn_legacy_ex :
  fcnn_init 2 3 (Some 5%nat) (Some 2%nat) None
  = [Linear 2 5 true; Act; Linear 5 5 true; Act; Linear 5 5 true; Act; Linear 5 3 true].
Proof. reflexivity. Qed.

Example fcnn_no_hidden_ex : fcnn_layers 4 1 [] = [Linear 4 1 true].
Proof. reflexivity. Qed.

(* ---- module identity: no module object appears twice in the Sequential *)
Lemma module_ids_nodup ls : NoDup (module_ids ls).
Proof. apply seq_NoDup. Qed.

Lemma module_ids_length ls : length (module_ids ls) = length ls.
Proof. apply seq_length. Qed.

(* the identity pattern read from the constructor source (pyfront: one object per call) is the model's *)
Lemma module_ids_generated :
  FCNN_ids_h3.terms = map (fun k => ECst (Z.of_nat k)) (module_ids (fcnn_layers 2 3 [4; 5; 6]%nat))
  /\ FCNN_ids_h0.terms = map (fun k => ECst (Z.of_nat k)) (module_ids (fcnn_layers 2 3 []))
  /\ Resnet_ids_h2.terms = map (fun k => ECst (Z.of_nat k)) (module_ids (fst (resnet_init 2 3 None None (Some [4; 5]%nat)))).
Proof. repeat split; reflexivity. Qed.

(* ================================================================== row-wise forward *)

Lemma map2_map_map {A B C D} (f : B -> C -> D) (g : A -> B) (h : A -> C) (l : list A) :
  map2 f (map g l) (map h l) = map (fun a => f (g a) (h a)) l.
Proof. induction l as [|a l IH]; cbn [map map2]; [reflexivity | now rewrite IH]. Qed.

Section Rowwise.
  Variable LinB : nat -> batch -> batch.
  Variable ActB : nat -> batch -> batch.
  Variable lin : nat -> row -> row.
  Variable act : nat -> row -> row.
  Variable SkipB : batch -> batch.
  Variable skip : row -> row.
  (* the modelling assumption: nn.Linear and the activation modules act row by row *)
  Hypothesis LinB_rowwise : forall k X, LinB k X = map (lin k) X.
  Hypothesis ActB_rowwise : forall k X, ActB k X = map (act k) X.
  Hypothesis SkipB_rowwise : forall X, SkipB X = map skip X.

  Lemma seqB_rowwise ls : forall k X, seqB LinB ActB k ls X = map (seq_row lin act k ls) X.
  Proof.
    induction ls as [|l r IH]; intros k X; cbn [seqB seq_row].
    - now rewrite map_id.
    - rewrite IH. destruct l; cbn [apply_layerB apply_layer_row];
        [rewrite LinB_rowwise | rewrite ActB_rowwise]; now rewrite map_map.
  Qed.

  Lemma fcnn_rowwise ls X :
    fcnn_forwardB LinB ActB ls X = map (fcnn_forward_row lin act ls) X.
  Proof. apply seqB_rowwise. Qed.

  Lemma resnet_rowwise ls X :
    resnet_forwardB LinB ActB SkipB ls X = map (resnet_forward_row lin act skip ls) X.
  Proof.
    unfold resnet_forwardB, resnet_forward_row, batch_add.
    rewrite fcnn_rowwise, SkipB_rowwise. apply map2_map_map.
  Qed.

  (* consequences in the form the property is read: same number of rows, row i of the output
     is a function of row i of the input alone, for every batch size *)
  Lemma fcnn_rows ls X : length (fcnn_forwardB LinB ActB ls X) = length X.
  Proof. rewrite fcnn_rowwise. apply map_length. Qed.

  Lemma fcnn_row_i ls X i d : (i < length X)%nat ->
    nth i (fcnn_forwardB LinB ActB ls X) (fcnn_forward_row lin act ls d) = fcnn_forward_row lin act ls (nth i X d).
  Proof. intros _. rewrite fcnn_rowwise. apply map_nth. Qed.

  (* net(x)[i] = net(x[i:i+1])[0] *)
  Lemma fcnn_single_row ls X i d : (i < length X)%nat ->
    fcnn_forwardB LinB ActB ls [nth i X d] = [nth i (fcnn_forwardB LinB ActB ls X) (fcnn_forward_row lin act ls d)].
  Proof. intros Hi. rewrite fcnn_row_i by exact Hi. rewrite fcnn_rowwise. reflexivity. Qed.

  (* changing the other rows does not change row i *)
  Lemma fcnn_row_independent ls X Y i d : (i < length X)%nat -> (i < length Y)%nat -> nth i X d = nth i Y d ->
    nth i (fcnn_forwardB LinB ActB ls X) (fcnn_forward_row lin act ls d)
    = nth i (fcnn_forwardB LinB ActB ls Y) (fcnn_forward_row lin act ls d).
  Proof. intros HX HY E. rewrite !fcnn_row_i by assumption. now rewrite E. Qed.

  Lemma resnet_rows ls X : length (resnet_forwardB LinB ActB SkipB ls X) = length X.
  Proof. rewrite resnet_rowwise. apply map_length. Qed.

  Lemma resnet_row_independent ls X Y i d : (i < length X)%nat -> (i < length Y)%nat -> nth i X d = nth i Y d ->
    nth i (resnet_forwardB LinB ActB SkipB ls X) (resnet_forward_row lin act skip ls d)
    = nth i (resnet_forwardB LinB ActB SkipB ls Y) (resnet_forward_row lin act skip ls d).
  Proof. intros HX HY E. rewrite !resnet_rowwise. rewrite !map_nth. now rewrite E. Qed.

  (* output width: if module k, a Linear(i, o), returns rows of length o, the FCNN returns
     rows of length n_out whatever the hidden widths *)
  Lemma seq_row_app k l1 l2 x :
    seq_row lin act k (l1 ++ l2) x = seq_row lin act (k + length l1) l2 (seq_row lin act k l1 x).
  Proof.
    revert k x. induction l1 as [|a l1 IH]; intros k x; cbn [app seq_row length].
    - now rewrite Nat.add_0_r.
    - rewrite IH. f_equal. lia.
  Qed.

  Lemma fcnn_out_width n_in n_out hidden x :
    (forall k y, length (lin k y) = match nth k (fcnn_layers n_in n_out hidden) Act with
                                    | Linear _ o _ => o | Act => length (lin k y) end) ->
    length (fcnn_forward_row lin act (fcnn_layers n_in n_out hidden) x) = n_out.
  Proof.
    intros Hw. unfold fcnn_forward_row.
    pose proof (fcnn_layers_spec n_in n_out hidden) as E.
    set (pre := flat_map _ _) in E.
    rewrite E, seq_row_app. cbn [seq_row apply_layer_row Nat.add].
    rewrite Hw. rewrite E, app_nth2 by lia.
    rewrite Nat.sub_diag. reflexivity.
  Qed.
End Rowwise.

(* non-vacuity of the row-wise hypotheses: batch maps defined as `map` of a dense row map *)
Example rowwise_premises_satisfiable :
  let lin := fun (_ : nat) (x : row) => dense [[1; 2]; [0; 1]] [1; 1] x in
  let act := fun (_ : nat) (x : row) => map sin x in
  (forall k X, (fun k X => map (lin k) X) k X = map (lin k) X)
  /\ fcnn_forwardB (fun k X => map (lin k) X) (fun k X => map (act k) X) (fcnn_layers 2 2 [2%nat]) [[0; 0]; [1; 0]]
     = map (fcnn_forward_row lin act (fcnn_layers 2 2 [2%nat])) [[0; 0]; [1; 0]].
Proof. split; [reflexivity|]. apply fcnn_rowwise; reflexivity. Qed.

(* ================================================================== MonomialNN *)

Lemma cat1_rowwise (fs : list (row -> row)) (X : batch) : fs <> [] ->
  cat1 (map (fun f => map f X) fs) = map (fun x => flat_map (fun f => f x) fs) X.
Proof.
  induction fs as [|f fs IH]; intros Hne; [contradiction|].
  destruct fs as [|g fs].
  - cbn [map cat1 flat_map]. apply map_ext. intros a. now rewrite app_nil_r.
  - change (cat1 (map (fun f0 => map f0 X) (f :: g :: fs)))
      with (map2 (@app R) (map f X) (cat1 (map (fun f0 => map f0 X) (g :: fs)))).
    rewrite IH by discriminate. rewrite map2_map_map. reflexivity.
Qed.

Lemma monomial_rowwise degrees X : degrees <> [] ->
  monomial_forwardB degrees X = map (monomial_row degrees) X.
Proof.
  intros Hne. unfold monomial_forwardB, monomial_row, batch_pow.
  rewrite <- (map_map (fun d => fun x : row => map (fun v => v ^ d) x) (fun f => map f X)).
  rewrite cat1_rowwise by (destruct degrees; [contradiction | discriminate]).
  apply map_ext. intros x. now rewrite flat_map_concat_map, map_map, <- flat_map_concat_map.
Qed.

Lemma monomial_row_length degrees x : length (monomial_row degrees x) = (length degrees * length x)%nat.
Proof.
  unfold monomial_row. induction degrees as [|d r IH]; cbn [flat_map length]; [reflexivity|].
  rewrite app_length, map_length, IH. lia.
Qed.

(* entry k*n_in + j of the output row is x_j ^ d_k *)
Lemma monomial_row_nth degrees x k j : (k < length degrees)%nat -> (j < length x)%nat ->
  nth (k * length x + j) (monomial_row degrees x) 0 = (nth j x 0) ^ (nth k degrees 0%nat).
Proof.
  unfold monomial_row. revert k. induction degrees as [|d r IH]; intros k Hk Hj; [inversion Hk|].
  cbn [flat_map]. destruct k as [|k].
  - cbn [Nat.mul Nat.add nth]. rewrite app_nth1 by (now rewrite map_length).
    rewrite (nth_indep _ 0 ((fun v => v ^ d) 0)) by (now rewrite map_length).
    apply (map_nth (fun v => v ^ d)).
  - rewrite app_nth2 by (rewrite map_length; cbn [Nat.mul]; lia).
    rewrite map_length. replace (S k * length x + j - length x)%nat with (k * length x + j)%nat by (cbn [Nat.mul]; lia).
    cbn [nth]. apply IH; [cbn [length] in Hk; lia | exact Hj].
Qed.

Lemma monomial_init_int n : (1 <= n)%nat -> monomial_init (DegInt n) = Some (seq 1 n).
Proof. intros H. unfold monomial_init. destruct n; [lia | reflexivity]. Qed.

Lemma monomial_init_list l : l <> [] -> monomial_init (DegList l) = Some l.
Proof. intros H. unfold monomial_init. destruct l; [contradiction | reflexivity]. Qed.

Lemma monomial_init_empty : monomial_init (DegList []) = None /\ monomial_init (DegInt 0) = None.
Proof. split; reflexivity. Qed.

(* the generated forward terms are the model's row, for the configurations the translator is
   run at (int degrees, tuple with 0, a single degree, duplicates) *)
Lemma monomial_gen_int3 venv penv fenv :
  map (eval venv penv fenv) Mono_int3_w2.terms = monomial_row (seq 1 3) [venv 0%nat; venv 1%nat].
Proof. reflexivity. Qed.

Lemma monomial_gen_list venv penv fenv :
  map (eval venv penv fenv) Mono_list_w3.terms = monomial_row [2; 0; 5]%nat [venv 0%nat; venv 1%nat; venv 2%nat].
Proof. reflexivity. Qed.

Lemma monomial_gen_int1 venv penv fenv :
  map (eval venv penv fenv) Mono_int1_w1.terms = monomial_row (seq 1 1) [venv 0%nat].
Proof. reflexivity. Qed.

Lemma monomial_gen_dup venv penv fenv :
  map (eval venv penv fenv) Mono_dup_w2.terms = monomial_row [4; 1; 4]%nat [venv 0%nat; venv 1%nat].
Proof. reflexivity. Qed.

Lemma monomial_gen_reject : Mono_reject_empty.raises = true.
Proof. reflexivity. Qed.

Example monomial_ex : monomial_forwardB [1; 2]%nat [[2; 3]; [1; 0]] = [[2 ^ 1; 3 ^ 1; 2 ^ 2; 3 ^ 2]; [1 ^ 1; 0 ^ 1; 1 ^ 2; 0 ^ 2]].
Proof. reflexivity. Qed.

(* ================================================================== activations *)

(* bring the argument of every occurrence of f to the given form (commuted products etc.),
   so that harmless rewrites of the source do not break `ring`/`field` on the atoms *)
Ltac fun_arg_to f t :=
  repeat match goal with
  | |- context [f ?a] => lazymatch a with t => fail | _ => replace a with t by ring end
  end.

Lemma one_plus_exp_nz a : 1 + exp a <> 0.
Proof. generalize (exp_pos a). lra. Qed.

Lemma sin_formula venv penv fenv : eval venv penv fenv SinActv.term = sin (venv SinActv.v_x).
Proof. reflexivity. Qed.

Lemma swish_formula_fixed venv penv fenv :
  let x := venv Swish_fixed.v_x in let beta := penv Swish_fixed.p_beta in
  eval venv penv fenv Swish_fixed.term = x / (1 + exp (- (beta * x))).
Proof.
  cbv zeta. reduce_eval. norm_names. fun_arg_to exp (- (penv 0%nat * venv 0%nat)).
  field. apply one_plus_exp_nz.
Qed.

Lemma swish_formula_trainable venv penv fenv :
  let x := venv Swish_trainable.v_x in let beta := penv Swish_trainable.p_beta in
  eval venv penv fenv Swish_trainable.term = x / (1 + exp (- (beta * x))).
Proof.
  cbv zeta. reduce_eval. norm_names. fun_arg_to exp (- (penv 0%nat * venv 0%nat)).
  field. apply one_plus_exp_nz.
Qed.

Lemma swish_defined venv penv fenv : defined venv penv fenv Swish_fixed.term /\ defined venv penv fenv Swish_trainable.term.
Proof. split; cbn [defined eval Swish_fixed.term Swish_trainable.term]; repeat split; auto; apply one_plus_exp_nz. Qed.

Lemma aptx_formula_fixed venv penv fenv :
  let x := venv APTx_fixed.v_x in
  let alpha := penv APTx_fixed.p_alpha in let beta := penv APTx_fixed.p_beta in let gamma := penv APTx_fixed.p_gamma in
  eval venv penv fenv APTx_fixed.term = (alpha + tanh (beta * x)) * gamma * x.
Proof. cbv zeta. reduce_eval. norm_names. fun_arg_to tanh (penv 1%nat * venv 0%nat). ring. Qed.

Lemma aptx_formula_trainable venv penv fenv :
  let x := venv APTx_trainable.v_x in
  let alpha := penv APTx_trainable.p_alpha in let beta := penv APTx_trainable.p_beta in let gamma := penv APTx_trainable.p_gamma in
  eval venv penv fenv APTx_trainable.term = (alpha + tanh (beta * x)) * gamma * x.
Proof. cbv zeta. reduce_eval. norm_names. fun_arg_to tanh (penv 1%nat * venv 0%nat). ring. Qed.

(* parameters are registered as trainable (went through nn.Parameter) iff trainable=True *)
Lemma trainable_flags :
  Swish_flags_trainable.terms = [ECst 1] /\ Swish_flags_fixed.terms = [ECst 0]
  /\ APTx_flags_trainable.terms = [ECst 1; ECst 1; ECst 1] /\ APTx_flags_fixed.terms = [ECst 0; ECst 0; ECst 0].
Proof. repeat split; reflexivity. Qed.
