(* C09 — specification side: Cartesian partial derivatives of a field given in curvilinear
   coordinates (inverse Jacobian on jets), the local orthonormal frames, and the Cartesian
   components of a vector field given by physical components.  Short enough to read in minutes.
   Leaves are numbered as the generated modules number them: spherical (r, theta, phi) = 0,1,2;
   cylindrical (rho, phi, z) = 0,1,2.  DESIGN.md §7 C09. *)
From Coq Require Import Reals List ZArith.
From ND.lib Require Import Expr.
Import ListNotations.

(* ---------------------------------------------------------------- spherical *)
Module Sph.
  Definition r := EVar 0.   Definition th := EVar 1.   Definition ph := EVar 2.
  Definition s := ESin th.  Definition c := ECos th.   Definition sp := ESin ph.  Definition cp := ECos ph.

  (* d/dx, d/dy, d/dz through the inverse Jacobian *)
  Definition dx (e : expr) : expr :=
    (s *' cp) *' D 0 e +' ((c *' cp) /' r) *' D 1 e -' (sp /' (r *' s)) *' D 2 e.
  Definition dy (e : expr) : expr :=
    (s *' sp) *' D 0 e +' ((c *' sp) /' r) *' D 1 e +' (cp /' (r *' s)) *' D 2 e.
  Definition dz (e : expr) : expr :=
    c *' D 0 e -' (s /' r) *' D 1 e.

  (* Cartesian components of a vector with physical components (a_r, a_theta, a_phi) *)
  Definition cart (a : expr * expr * expr) : expr * expr * expr :=
    let '(ar, at_, ap) := a in
    (ar *' s *' cp +' at_ *' c *' cp -' ap *' sp,
     ar *' s *' sp +' at_ *' c *' sp +' ap *' cp,
     ar *' c -' at_ *' s).

  (* physical components (projection on e_r, e_theta, e_phi) of a Cartesian vector *)
  Definition frame (v : expr * expr * expr) : expr * expr * expr :=
    let '(vx, vy, vz) := v in
    (s *' cp *' vx +' s *' sp *' vy +' c *' vz,
     c *' cp *' vx +' c *' sp *' vy -' s *' vz,
     cp *' vy -' sp *' vx).

  Definition grad (u : expr) := (dx u, dy u, dz u).
  Definition div (v : expr * expr * expr) := let '(vx, vy, vz) := v in dx vx +' dy vy +' dz vz.
  Definition curl (v : expr * expr * expr) :=
    let '(vx, vy, vz) := v in (dy vz -' dz vy, dz vx -' dx vz, dx vy -' dy vx).
  Definition lap (u : expr) := dx (dx u) +' dy (dy u) +' dz (dz u).
  Definition vlap (v : expr * expr * expr) := let '(vx, vy, vz) := v in (lap vx, lap vy, lap vz).
End Sph.

(* ---------------------------------------------------------------- cylindrical *)
Module Cyl.
  Definition rho := EVar 0.  Definition ph := EVar 1.  Definition z := EVar 2.
  Definition sp := ESin ph.  Definition cp := ECos ph.

  Definition dx (e : expr) : expr := cp *' D 0 e -' (sp /' rho) *' D 1 e.
  Definition dy (e : expr) : expr := sp *' D 0 e +' (cp /' rho) *' D 1 e.
  Definition dz (e : expr) : expr := D 2 e.

  Definition cart (a : expr * expr * expr) : expr * expr * expr :=
    let '(arho, aphi, az) := a in (arho *' cp -' aphi *' sp, arho *' sp +' aphi *' cp, az).
  Definition frame (v : expr * expr * expr) : expr * expr * expr :=
    let '(vx, vy, vz) := v in (cp *' vx +' sp *' vy, cp *' vy -' sp *' vx, vz).

  Definition grad (u : expr) := (dx u, dy u, dz u).
  Definition div (v : expr * expr * expr) := let '(vx, vy, vz) := v in dx vx +' dy vy +' dz vz.
  Definition curl (v : expr * expr * expr) :=
    let '(vx, vy, vz) := v in (dy vz -' dz vy, dz vx -' dx vz, dx vy -' dy vx).
  Definition lap (u : expr) := dx (dx u) +' dy (dy u) +' dz (dz u).
  Definition vlap (v : expr * expr * expr) := let '(vx, vy, vz) := v in (lap vx, lap vy, lap vz).
End Cyl.

(* generic fields: symbol f of the three coordinates, arbitrary jets *)
Definition F3 (f : nat) : expr := EFun f [0;0;0]%nat [AVar 0; AVar 1; AVar 2]%nat.
Definition fst3 {A} (t : A * A * A) := fst (fst t).
Definition snd3 {A} (t : A * A * A) := snd (fst t).
Definition thd3 {A} (t : A * A * A) := snd t.
