(* C16: every definition of gen/Gen_C16.v -- regenerated from neurodiffeq/callbacks.py by
   tools/props/t_C16.py on every run -- equals the corresponding definition of the hand model
   (model/Callbacks.v, model/CallbacksEve.v) for ALL inputs.  The theorems of P_C16.v about the
   hand model therefore hold for the code as translated.  If the source changes meaning, the
   regenerated text changes and these proofs stop compiling. *)
From Coq Require Import String ZArith List Bool Lia Reals.
From Flocq Require Import Core.Raux.
From ND.model Require Import Callbacks CallbacksEve.
From ND.gen Require Import Gen_C16.
From ND.proofs Require Import C16_pred C16_actions.
Import ListNotations.
Open Scope Z_scope.

(* ---- stateless predicates: constructor normalisation + condition ---------------------- *)

Theorem gen_constants : forall l g m,
  TrueCallback.fires l g m = cond (tview l g m) PTrue /\
  FalseCallback.fires l g m = cond (tview l g m) PFalse /\
  OnFirstLocal.fires l g m = cond (tview l g m) PFirstLocal /\
  OnFirstGlobal.fires l g m = cond (tview l g m) PFirstGlobal /\
  OnLastLocal.fires l g m = cond (tview l g m) PLastLocal.
Proof. intros l g m. repeat split; try reflexivity; apply Z.eqb_sym. Qed.

Theorem gen_period : forall p o l g m,
  PeriodLocal.fires p o l g m = cond (tview l g m) (period_local p o) /\
  PeriodGlobal.fires p o l g m = cond (tview l g m) (period_global p o).
Proof. intros p o l g m. split; reflexivity. Qed.

Theorem gen_interval : forall lo hi l g m,
  ClosedIntervalLocal.fires lo hi l g m = cond (tview l g m) (PIntLocal lo hi) /\
  ClosedIntervalGlobal.fires lo hi l g m = cond (tview l g m) (PIntGlobal lo hi).
Proof. intros lo hi l g m. destruct lo as [a|], hi as [b|]; split; reflexivity. Qed.

(* ---- combinators, as functions of the list of sub-results ----------------------------- *)

(* The proofs below do not depend on how the source spells the loop: an early-return loop
   (also what all(...) / any(...) are normalised to), a forallb / existsb expression, or a fold
   over one Boolean accumulator; Boolean tests may be written in any equivalent way. *)

Ltac solve_early l v IH :=
  induction l as [|q r IH]; [reflexivity|];
  cbn [map AndCallback.condition OrCallback.condition forallb existsb]; rewrite <- IH;
  destruct (cond v q); reflexivity.

Ltac solve_listfun l v IH :=
  unfold AndCallback.condition, OrCallback.condition;
  induction l as [|q r IH]; [reflexivity|];
  cbn [map forallb existsb]; destruct (cond v q); cbn [andb orb negb implb]; try rewrite <- IH; try rewrite IH; reflexivity.

Theorem gen_and : forall v l, AndCallback.condition (map (cond v) l) = cond v (PAnd l).
Proof.
  intros v l. rewrite and_spec.
  first
    [ solve [solve_early l v IH]
    | solve [solve_listfun l v IH]
    | solve [ unfold AndCallback.condition;
              match goal with |- fold_left ?F _ ?i = _ =>
                assert (H : forall a, fold_left F (map (cond v) l) a = a && forallb (cond v) l)
                  by (induction l as [|q r IH]; intros a; cbn [map fold_left forallb];
                      [destruct a; reflexivity | rewrite IH; destruct a, (cond v q); reflexivity]);
                rewrite H; reflexivity end ] ].
Qed.

Theorem gen_or : forall v l, OrCallback.condition (map (cond v) l) = cond v (POr l).
Proof.
  intros v l. rewrite or_spec.
  first
    [ solve [solve_early l v IH]
    | solve [solve_listfun l v IH]
    | solve [ unfold OrCallback.condition;
              match goal with |- fold_left ?F _ ?i = _ =>
                assert (H : forall a, fold_left F (map (cond v) l) a = a || existsb (cond v) l)
                  by (induction l as [|q r IH]; intros a; cbn [map fold_left existsb];
                      [destruct a; reflexivity | rewrite IH; destruct a, (cond v q); reflexivity]);
                rewrite H; reflexivity end ] ].
Qed.

Theorem gen_not : forall v q, NotCallback.condition (cond v q) = cond v (PNot q).
Proof. intros v q. rewrite not_spec. unfold NotCallback.condition. destruct (cond v q); reflexivity. Qed.

(* XorCallback: a count of the true sub-results (sum(...) generator or counting loop) tested for
   oddness, or a Boolean xor-fold *)
Theorem gen_xor : forall v l, XorCallback.condition (map (cond v) l) = cond v (PXor l).
Proof.
  intros v l. rewrite xor_spec. unfold XorCallback.condition.
  first
    [ solve [ match goal with |- Z.eqb (fold_left ?F _ ?i mod 2) 1 = _ =>
                assert (H : forall a, Z.odd (fold_left F (map (cond v) l) a) = xorb (Z.odd a) (parity (map (cond v) l)))
                  by (induction l as [|q r IH]; intros a; cbn [map fold_left];
                      [unfold parity; cbn [fold_right]; destruct (Z.odd a); reflexivity
                      | rewrite IH; unfold parity; cbn [fold_right]; destruct (cond v q);
                        rewrite ?Z.odd_add; change (Z.odd 1) with true; destruct (Z.odd a), (fold_right xorb false (map (cond v) r)); reflexivity]);
                change (Z.eqb (?x mod 2) 1) with (x mod 2 =? 1); rewrite mod2_odd, H; destruct (parity (map (cond v) l)); reflexivity end ]
    | solve [ match goal with |- fold_left ?F _ ?i = _ =>
                assert (H : forall a, fold_left F (map (cond v) l) a = xorb a (parity (map (cond v) l)))
                  by (induction l as [|q r IH]; intros a; cbn [map fold_left];
                      [unfold parity; cbn [fold_right]; destruct a; reflexivity
                      | rewrite IH; unfold parity; cbn [fold_right];
                        destruct a, (cond v q), (fold_right xorb false (map (cond v) r)); reflexivity]);
                rewrite H; destruct (parity (map (cond v) l)); reflexivity end ] ].
Qed.

(* ConditionCallback.__call__: the action runs iff the condition holds and an action is attached *)
Theorem gen_call : forall c a, ConditionCallback.call c a = c && a.
Proof. intros c a. destruct c, a; reflexivity. Qed.

(* the overloaded operators build a NEW node whose operands are exactly (self, other) -- the translated
   bodies have no effect on their operands -- hence their documented Boolean meaning, for shared operands too *)
Theorem gen_operators : forall p q : pred,
  Operators.and_ PAnd POr PXor PNot p q = PAnd [p; q] /\ Operators.or_ PAnd POr PXor PNot p q = POr [p; q] /\
  Operators.xor_ PAnd POr PXor PNot p q = PXor [p; q] /\ Operators.invert PAnd POr PXor PNot p = PNot p.
Proof. intros p q. repeat split. Qed.

Theorem gen_operator_meaning : forall v (p q : pred),
  cond v (Operators.and_ PAnd POr PXor PNot p q) = cond v p && cond v q /\
  cond v (Operators.or_ PAnd POr PXor PNot p q) = cond v p || cond v q /\
  cond v (Operators.xor_ PAnd POr PXor PNot p q) = xorb (cond v p) (cond v q) /\
  cond v (Operators.invert PAnd POr PXor PNot p) = negb (cond v p).
Proof.
  intros v p q. destruct (gen_operators p q) as (E1 & E2 & E3 & E4). rewrite E1, E2, E3, E4.
  rewrite and_spec, or_spec, xor_spec, not_spec. unfold parity. cbn [forallb existsb map fold_right].
  repeat split; destruct (cond v p), (cond v q); reflexivity.
Qed.

Theorem gen_set_action : forall (T A : Type) (c : T * option A) (a : A),
  fst (Operators.set_action_callback c a) = fst c /\ snd (Operators.set_action_callback c a) = Some a.
Proof. intros T A c a. split; reflexivity. Qed.

(* ---- _RepeatedMetricChange.condition: the index-based while loop is the structural streak -- *)

Lemma skipn_cons_nth : forall (h : list Z) s a r, skipn s h = a :: r -> nth s h 0 = a /\ skipn (S s) h = r.
Proof.
  induction h as [|x t IH]; intros s a r E.
  - destruct s; discriminate E.
  - destruct s as [|s].
    + cbn [skipn] in E. injection E as E1 E2. subst. split; reflexivity.
    + cbn [skipn] in E. destruct (IH s a r E) as [H1 H2]. split; [exact H1|exact H2].
Qed.

Lemma cap_nil : forall {V : Type} (rel : V -> V -> bool) c, streak_cap rel c [] = O.
Proof. intros V rel c. destruct c; reflexivity. Qed.
Lemma cap1_nil : forall {V : Type} (f : V -> bool) c, streak1_cap f c [] = O.
Proof. intros V f c. destruct c; reflexivity. Qed.

Lemma loop_pairwise : forall ls n h fuel s, (List.length h < fuel + s)%nat ->
  RepeatedMetricChange.loop fuel true ls n h 2 (Z.of_nat s) =
  Z.of_nat s + Z.of_nat (streak_cap (fun a b => ls a (Some b)) (Z.to_nat (n - Z.of_nat s)) (skipn s h)).
Proof.
  intros ls n h. induction fuel as [|f IH]; intros s Hf.
  - cbn [RepeatedMetricChange.loop]. rewrite skipn_all2 by lia. rewrite cap_nil. lia.
  - cbn [RepeatedMetricChange.loop].
    destruct (Z.ltb_spec (Z.of_nat s) n) as [Hn|Hn]; cbn [andb].
    2: { replace (Z.to_nat (n - Z.of_nat s)) with O by lia. cbn [streak_cap]. lia. }
    assert (Hc : Z.to_nat (n - Z.of_nat s) = S (Z.to_nat (n - Z.of_nat (S s)))) by lia. rewrite Hc.
    pose proof (skipn_length s h) as HL.
    destruct (Z.leb_spec (Z.of_nat s + 2) (Z.of_nat (List.length h))) as [Hl|Hl]; cbn [andb].
    2: { destruct (skipn s h) as [|a [|b t]]; cbn [List.length] in HL; try lia; cbn [streak_cap]; lia. }
    destruct (skipn s h) as [|a [|b t]] eqn:E; cbn [List.length] in HL; try lia.
    destruct (skipn_cons_nth h s a (b :: t) E) as [Ha E1]. destruct (skipn_cons_nth h (S s) b t E1) as [Hb _].
    unfold hist_at. rewrite Nat2Z.id. replace (Z.to_nat (Z.of_nat s + 1)) with (S s) by lia. rewrite Ha, Hb.
    change (streak_cap (fun a0 b0 => ls a0 (Some b0)) (S (Z.to_nat (n - Z.of_nat (S s)))) (a :: b :: t))
      with (if ls a (Some b) then S (streak_cap (fun a0 b0 => ls a0 (Some b0)) (Z.to_nat (n - Z.of_nat (S s))) (b :: t)) else O).
    destruct (ls a (Some b)).
    + replace (Z.of_nat s + 1) with (Z.of_nat (S s)) by lia. rewrite IH by lia. rewrite E1. lia.
    + lia.
Qed.

Lemma loop_single : forall ls n h fuel s, (List.length h < fuel + s)%nat ->
  RepeatedMetricChange.loop fuel false ls n h 1 (Z.of_nat s) =
  Z.of_nat s + Z.of_nat (streak1_cap (fun a => ls a None) (Z.to_nat (n - Z.of_nat s)) (skipn s h)).
Proof.
  intros ls n h. induction fuel as [|f IH]; intros s Hf.
  - cbn [RepeatedMetricChange.loop]. rewrite skipn_all2 by lia. rewrite cap1_nil. lia.
  - cbn [RepeatedMetricChange.loop].
    destruct (Z.ltb_spec (Z.of_nat s) n) as [Hn|Hn]; cbn [andb].
    2: { replace (Z.to_nat (n - Z.of_nat s)) with O by lia. cbn [streak1_cap]. lia. }
    assert (Hc : Z.to_nat (n - Z.of_nat s) = S (Z.to_nat (n - Z.of_nat (S s)))) by lia. rewrite Hc.
    pose proof (skipn_length s h) as HL.
    destruct (Z.leb_spec (Z.of_nat s + 1) (Z.of_nat (List.length h))) as [Hl|Hl]; cbn [andb].
    2: { destruct (skipn s h) as [|a t]; cbn [List.length] in HL; try lia; cbn [streak1_cap]; lia. }
    destruct (skipn s h) as [|a t] eqn:E; cbn [List.length] in HL; try lia.
    destruct (skipn_cons_nth h s a t E) as [Ha E1].
    unfold hist_at. rewrite Nat2Z.id, Ha. cbn [streak1_cap].
    destruct (ls a None).
    + replace (Z.of_nat s + 1) with (Z.of_nat (S s)) by lia. rewrite IH by lia. rewrite E1. lia.
    + lia.
Qed.

(* the fuel S (len history) chosen by the emitter is adequate: more fuel changes nothing *)
Theorem gen_loop_fuel_adequate : forall pw ls n h extra,
  RepeatedMetricChange.loop (S (List.length h) + extra) pw ls n h (if pw then 2 else 1) 0 =
  RepeatedMetricChange.loop (S (List.length h)) pw ls n h (if pw then 2 else 1) 0.
Proof.
  intros pw ls n h extra. change 0 with (Z.of_nat O). destruct pw.
  - rewrite !loop_pairwise by lia. reflexivity.
  - rewrite !loop_single by lia. reflexivity.
Qed.

Lemma gen_condition_pairwise : forall ls n h,
  fst (RepeatedMetricChange.condition true ls n h) = (n <=? Z.of_nat (streak_cap (fun a b => ls a (Some b)) (Z.to_nat n) h)).
Proof.
  intros ls n h. unfold RepeatedMetricChange.condition. cbn [fst]. change 0 with (Z.of_nat O).
  rewrite loop_pairwise by lia. cbn [skipn]. rewrite Z.sub_0_r. reflexivity.
Qed.

Lemma gen_condition_single : forall ls n h,
  fst (RepeatedMetricChange.condition false ls n h) = (n <=? Z.of_nat (streak1_cap (fun a => ls a None) (Z.to_nat n) h)).
Proof.
  intros ls n h. unfold RepeatedMetricChange.condition. cbn [fst]. change 0 with (Z.of_nat O).
  rewrite loop_single by lia. cbn [skipn]. rewrite Z.sub_0_r. reflexivity.
Qed.

(* each subclass (constructor normalisation, _pairwise flag, _last_satisfied) against the model leaf,
   in any cached state s, for any view *)
Theorem gen_repeated : forall (arg n s : Z) (tr : bool) (mt : string) (v : view),
  RepeatedMetricUp.fires arg tr mt n (hist_or_nil tr mt v) = cond v (PRepeated (RUp arg) tr mt n s) /\
  RepeatedMetricDown.fires arg tr mt n (hist_or_nil tr mt v) = cond v (PRepeated (RDown arg) tr mt n s) /\
  RepeatedMetricConverge.fires arg tr mt n (hist_or_nil tr mt v) = cond v (PRepeated (r_converge arg) tr mt n s) /\
  RepeatedMetricDiverge.fires arg tr mt n (hist_or_nil tr mt v) = cond v (PRepeated (r_diverge arg) tr mt n s) /\
  RepeatedMetricBelow.fires arg tr mt n (hist_or_nil tr mt v) = cond v (PRepeated (RBelow arg) tr mt n s) /\
  RepeatedMetricAbove.fires arg tr mt n (hist_or_nil tr mt v) = cond v (PRepeated (RAbove arg) tr mt n s).
Proof.
  intros arg n s tr mt v. unfold cond. cbn [step fst]. unfold leaf_count.
  repeat split.
  - unfold RepeatedMetricUp.fires, RepeatedMetricUp.pairwise. rewrite gen_condition_pairwise. reflexivity.
  - unfold RepeatedMetricDown.fires, RepeatedMetricDown.pairwise. rewrite gen_condition_pairwise. reflexivity.
  - unfold RepeatedMetricConverge.fires, RepeatedMetricConverge.pairwise. rewrite gen_condition_pairwise. reflexivity.
  - unfold RepeatedMetricDiverge.fires, RepeatedMetricDiverge.pairwise. rewrite gen_condition_pairwise. reflexivity.
  - unfold RepeatedMetricBelow.fires, RepeatedMetricBelow.pairwise. rewrite gen_condition_single. reflexivity.
  - unfold RepeatedMetricAbove.fires, RepeatedMetricAbove.pairwise. rewrite gen_condition_single. reflexivity.
Qed.

(* ---- which series is read: the helper _metric_history and the key built in __init__ ---- *)

Lemma gen_dict_get : forall d k, Gen_C16.dict_get d k = Callbacks.dict_get d k.
Proof. induction d as [|[k0 h] r IH]; intros k; [reflexivity|]. cbn [Gen_C16.dict_get Callbacks.dict_get]. rewrite IH. reflexivity. Qed.

Lemma gen_partition : forall s, Gen_C16.partition_us s = Callbacks.partition_us s.
Proof. induction s as [|c r IH]; [reflexivity|]. cbn [Gen_C16.partition_us Callbacks.partition_us]. rewrite IH. reflexivity. Qed.

Theorem gen_metric_history : forall d key, MetricHistory.metric_history d key = Callbacks.metric_history d key.
Proof.
  intros d key. unfold MetricHistory.metric_history, Callbacks.metric_history, Callbacks.lookup_key, Gen_C16.dict_has, Callbacks.dict_has.
  rewrite !gen_dict_get, gen_partition. destruct (Callbacks.dict_get d key) eqn:E.
  - rewrite E. reflexivity.
  - destruct (Callbacks.partition_us key) as [a b]. reflexivity.
Qed.

(* the callbacks look their key up through the helper, with the key their constructor built *)
Theorem gen_history_of : forall (tr : bool) (mt : string) (n : Z) (v : view) (v0 p : R) (n_0 : Z) (n_max : option Z),
  RepeatedMetricChange.history_of (store_of v) (RepeatedMetricChange.init_key tr mt n) = hist_of tr mt v /\
  EveCallback.history_of (store_of v) (EveCallback.init_key v0 p n_0 n_max tr mt) = hist_of tr mt v.
Proof.
  intros tr mt n v v0 p n_0 n_max. unfold RepeatedMetricChange.history_of, EveCallback.history_of, hist_of.
  rewrite !gen_metric_history. split; destruct tr; reflexivity.
Qed.

Theorem gen_key : forall tr metric n,
  RepeatedMetricChange.init_key tr metric n = callback_key tr metric.
Proof. intros tr metric n. destruct tr; reflexivity. Qed.

(* ---- set-once guards and the optimiser's parameter sequence --------------------------- *)

Theorem gen_set_once : forall reset called,
  SetLossFn.call reset called = set_once reset called /\ SetOptimizer.call reset called = set_once reset called.
Proof. intros reset called. destruct reset, called; split; reflexivity. Qed.

Lemma ordered_set_from_dedup : forall {P : Type} (dec : forall x y : P, {x = y} + {x <> y}) (l seen : list P),
  ordered_set_from dec seen l = dedup dec seen l.
Proof.
  intros P dec. induction l as [|x r IH]; intros seen; [reflexivity|].
  cbn [ordered_set_from dedup]. destruct (in_dec dec x seen); rewrite IH; reflexivity.
Qed.

Theorem gen_optimizer_params : forall {P : Type} (dec : forall x y : P, {x = y} + {x <> y}) (nets : list (list P)),
  SetOptimizer.params dec nets = opt_params dec nets.
Proof.
  intros P dec nets. unfold SetOptimizer.params, ordered_set, opt_params. rewrite map_id. apply ordered_set_from_dedup.
Qed.

(* ---- EveCallback ---------------------------------------------------------------------- *)

Theorem gen_eve : forall (v0 p : R) (n_0 : Z) (n_max : option Z) (tr : bool) (metric : string) (value : R),
  EveCallback.n_batches v0 p n_0 n_max tr metric value = Fin (eve_n n_0 n_max value v0 p).
Proof.
  intros v0 p n_0 n_max tr metric value.
  unfold EveCallback.n_batches, EveCallback.call, EveCallback.init_n_0, EveCallback.init_n_max,
    EveCallback.init_base_value, EveCallback.init_double_at, eve_n, eve_batches, eve_arg, EveCallback.EPS, EVE_EPS.
  set (t := Z.max (Ztrunc _) 0). unfold truthy_or_inf, eve_cap.
  destruct n_max as [m|]; [|reflexivity].
  destruct (m =? 0); [reflexivity|].
  unfold ext_min, ext_ltb, ext_leb, min_cap.
  destruct (Z.leb_spec (n_0 * 2 ^ t) m) as [H|H]; cbn [negb].
  - rewrite Z.min_l by lia. reflexivity.
  - rewrite Z.min_r by lia. reflexivity.
Qed.
