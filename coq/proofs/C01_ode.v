(* C01 — ODE conditions (IVP, two-point BVP) hold exactly for every network.
   Lemmas about the terms pyfront regenerates into gen/Gen_C01.v.  DESIGN.md §7 C01. *)
From Coq Require Import Reals List Lra Lia ZArith Field.
From Coquelicot Require Import Coquelicot.
From ND.lib Require Import Expr ExprSound Tac.
From ND.gen Require Import Gen_C01.
Import ListNotations.
Open Scope R_scope.

Lemma exp_eq_1 x : exp x = 1 -> x = 0.
Proof. intros H. apply exp_inv. now rewrite exp_0. Qed.

Lemma one_minus_exp_nz x : x <> 0 -> 1 - exp x <> 0.
Proof. intros Hx H. apply Hx, exp_eq_1. lra. Qed.

(* ------------------------------------------------------------------ IVP *)
Section IVPv.
  Import IVP_value.
  Lemma ivp_value venv penv fenv :
    venv v_t = penv p_t_0 -> eval venv penv fenv term = penv p_u_0.
  Proof. intros H. reduce_eval. norm_names. rewrite H. norm_exp0. ring. Qed.
End IVPv.

Section IVPvu.
  Import IVP_value_unit.
  Lemma ivp_value_unit venv penv fenv :
    venv v_t = penv p_t_0 -> eval venv penv fenv term = penv p_u_0.
  Proof. intros H. reduce_eval. norm_names. rewrite H. norm_exp0. ring. Qed.
End IVPvu.

Section IVPp.
  Import IVP_prime.
  Lemma ivp_prime_value venv penv fenv :
    venv v_t = penv p_t_0 -> eval venv penv fenv term = penv p_u_0.
  Proof. intros H. reduce_eval. norm_names. rewrite H. norm_exp0. ring. Qed.

  Lemma ivp_prime_deriv venv penv fenv :
    venv v_t = penv p_t_0 -> eval venv penv fenv (D v_t term) = penv p_u_0_prime.
  Proof. intros H. reduce_eval. norm_names. rewrite H. norm_exp0. ring. Qed.

  Lemma ivp_prime_ok venv penv fenv : ok penv fenv venv term.
  Proof. vm_compute. repeat split; auto; repeat constructor; auto; intros []. Qed.

  (* analytic form: for every differentiable network the enforced function has derivative
     u_0' at t_0 *)
  Lemma ivp_prime_is_derive venv penv fenv :
    coherent fenv ->
    is_derive (fun t => eval (upd venv v_t t) penv fenv term) (penv p_t_0) (penv p_u_0_prime).
  Proof.
    intros Hc. evar_last.
    apply (D_sound_at penv fenv Hc venv v_t term (penv p_t_0)). apply ivp_prime_ok.
    apply ivp_prime_deriv. apply upd_eq.
  Qed.
End IVPp.

Section IVPpu.
  Import IVP_prime_unit.
  Lemma ivp_prime_unit_value venv penv fenv :
    venv v_t = penv p_t_0 -> eval venv penv fenv term = penv p_u_0.
  Proof. intros H. reduce_eval. norm_names. rewrite H. norm_exp0. ring. Qed.
  Lemma ivp_prime_unit_deriv venv penv fenv :
    venv v_t = penv p_t_0 -> eval venv penv fenv (D v_t term) = penv p_u_0_prime.
  Proof. intros H. reduce_eval. norm_names. rewrite H. norm_exp0. ring. Qed.
End IVPpu.

(* affine in the raw output, with a coefficient that vanishes only at t_0 *)
Section IVPaff.
  Lemma ivp_value_affine venv penv fenv c :
    let P h := eval (upd venv IVP_value_param.v_o h) penv fenv IVP_value_param.term in
    P c = P 0 + (P 1 - P 0) * c.
  Proof. cbv beta zeta. reduce_eval. norm_names. cbv [upd Nat.eqb]. ring. Qed.

  Lemma ivp_value_coef venv penv fenv :
    let P h := eval (upd venv IVP_value_param.v_o h) penv fenv IVP_value_param.term in
    venv IVP_value_param.v_t <> penv IVP_value_param.p_t_0 -> P 1 - P 0 <> 0.
  Proof.
    cbv beta zeta. reduce_eval. norm_names. cbv [upd Nat.eqb]. intros Ht.
    match goal with |- context [exp ?a] => assert (Hn := one_minus_exp_nz a) end.
    intro H. apply Hn; [lra | lra].
  Qed.

  Lemma ivp_prime_affine venv penv fenv c :
    let P h := eval (upd venv IVP_prime_param.v_o h) penv fenv IVP_prime_param.term in
    P c = P 0 + (P 1 - P 0) * c.
  Proof. cbv beta zeta. reduce_eval. norm_names. cbv [upd Nat.eqb]. ring. Qed.

  Lemma ivp_prime_coef venv penv fenv :
    let P h := eval (upd venv IVP_prime_param.v_o h) penv fenv IVP_prime_param.term in
    venv IVP_prime_param.v_t <> penv IVP_prime_param.p_t_0 -> P 1 - P 0 <> 0.
  Proof.
    cbv beta zeta. reduce_eval. norm_names. cbv [upd Nat.eqb]. intros Ht.
    match goal with |- context [exp ?a] => assert (Hn := one_minus_exp_nz a); set (E := exp a) in * end.
    assert (1 - E <> 0) by (apply Hn; lra). nra.
  Qed.
End IVPaff.

(* ------------------------------------------------------------------ Dirichlet BVP *)
Section DBVPs.
  Import DBVP.
  Lemma dbvp_left venv penv fenv :
    penv p_t_1 - penv p_t_0 <> 0 -> venv v_t = penv p_t_0 -> eval venv penv fenv term = penv p_u_0.
  Proof. intros Hd H. reduce_eval. norm_names. rewrite H. norm_exp0. field. auto. Qed.
  Lemma dbvp_right venv penv fenv :
    penv p_t_1 - penv p_t_0 <> 0 -> venv v_t = penv p_t_1 -> eval venv penv fenv term = penv p_u_1.
  Proof. intros Hd H. reduce_eval. norm_names. rewrite H. norm_exp0. field. auto. Qed.
End DBVPs.

Section DBVPu.
  Import DBVP_unit.
  Lemma dbvp_unit_left venv penv fenv :
    penv p_t_1 - penv p_t_0 <> 0 -> venv v_t = penv p_t_0 -> eval venv penv fenv term = penv p_u_0.
  Proof. intros Hd H. reduce_eval. norm_names. rewrite H. norm_exp0. field. auto. Qed.
  Lemma dbvp_unit_right venv penv fenv :
    penv p_t_1 - penv p_t_0 <> 0 -> venv v_t = penv p_t_1 -> eval venv penv fenv term = penv p_u_1.
  Proof. intros Hd H. reduce_eval. norm_names. rewrite H. norm_exp0. field. auto. Qed.
End DBVPu.

Section DBVPaff.
  Import DBVP_param.
  Lemma dbvp_affine venv penv fenv c :
    let P h := eval (upd venv v_o h) penv fenv term in
    P c = P 0 + (P 1 - P 0) * c.
  Proof. cbv beta zeta. reduce_eval. norm_names. cbv [upd Nat.eqb]. ring. Qed.

  Lemma dbvp_coef venv penv fenv :
    let P h := eval (upd venv v_o h) penv fenv term in
    penv p_t_1 - penv p_t_0 <> 0 ->
    venv v_t <> penv p_t_0 -> venv v_t <> penv p_t_1 -> P 1 - P 0 <> 0.
  Proof.
    cbv beta zeta. reduce_eval. norm_names. cbv [upd Nat.eqb]. intros Hd H0 H1.
    match goal with |- context [exp ?a] => assert (Hn := one_minus_exp_nz a); set (E := exp a) in * end.
    assert (1 - E <> 0).
    { apply Hn. intro Hz. apply Rmult_integral in Hz as [Hz|Hz].
      - apply H1. apply (Rmult_eq_compat_r (penv 2%nat - penv 0%nat)) in Hz.
        field_simplify in Hz; auto. lra.
      - apply H0. apply (Rmult_eq_compat_r (penv 2%nat - penv 0%nat)) in Hz.
        field_simplify in Hz; auto. lra. }
    lra.
  Qed.
End DBVPaff.

(* ------------------------------------------------------------------ double-ended BVP, four modes *)
Ltac bvp_solve H :=
  reduce_eval; norm_names; rewrite ?H; try field; auto.

Section DE_dd.
  Import DEBVP_dd.
  Lemma debvp_dd_left venv penv fenv :
    penv p_x_max - penv p_x_min <> 0 -> venv v_x = penv p_x_min -> eval venv penv fenv term = penv p_a.
  Proof. intros Hd H. bvp_solve H. Qed.
  Lemma debvp_dd_right venv penv fenv :
    penv p_x_max - penv p_x_min <> 0 -> venv v_x = penv p_x_max -> eval venv penv fenv term = penv p_b.
  Proof. intros Hd H. bvp_solve H. Qed.
End DE_dd.

Section DE_dn.
  Import DEBVP_dn.
  Lemma debvp_dn_left venv penv fenv :
    penv p_x_max - penv p_x_min <> 0 -> venv v_x = penv p_x_min -> eval venv penv fenv term = penv p_a.
  Proof. intros Hd H. bvp_solve H. Qed.
  Lemma debvp_dn_right venv penv fenv :
    penv p_x_max - penv p_x_min <> 0 -> venv v_x = penv p_x_max -> venv v_x1 = penv p_x_max ->
    eval venv penv fenv (D v_x term) = penv p_b.
  Proof. intros Hd H H1. reduce_eval. norm_names. rewrite H, H1. field. auto. Qed.
  Lemma debvp_dn_fresh : fresh = [(v_x1, EPar p_x_max)].
  Proof. reflexivity. Qed.
End DE_dn.

Section DE_nd.
  Import DEBVP_nd.
  Lemma debvp_nd_left venv penv fenv :
    penv p_x_max - penv p_x_min <> 0 -> venv v_x = penv p_x_min -> venv v_x0 = penv p_x_min ->
    eval venv penv fenv (D v_x term) = penv p_a.
  Proof. intros Hd H H0. reduce_eval. norm_names. rewrite H, H0. field. auto. Qed.
  Lemma debvp_nd_right venv penv fenv :
    penv p_x_max - penv p_x_min <> 0 -> venv v_x = penv p_x_max -> eval venv penv fenv term = penv p_b.
  Proof. intros Hd H. bvp_solve H. Qed.
  Lemma debvp_nd_fresh : fresh = [(v_x0, EPar p_x_min)].
  Proof. reflexivity. Qed.
End DE_nd.

Section DE_nn.
  Import DEBVP_nn.
  Lemma debvp_nn_left venv penv fenv :
    penv p_x_max - penv p_x_min <> 0 -> venv v_x = penv p_x_min -> venv v_x0 = penv p_x_min ->
    eval venv penv fenv (D v_x term) = penv p_a.
  Proof. intros Hd H H0. reduce_eval. norm_names. rewrite H, H0. field. auto. Qed.
  Lemma debvp_nn_right venv penv fenv :
    penv p_x_max - penv p_x_min <> 0 -> venv v_x = penv p_x_max -> venv v_x1 = penv p_x_max ->
    eval venv penv fenv (D v_x term) = penv p_b.
  Proof. intros Hd H H1. reduce_eval. norm_names. rewrite H, H1. field. auto. Qed.
  Lemma debvp_nn_fresh : fresh = [(v_x0, EPar p_x_min); (v_x1, EPar p_x_max)].
  Proof. reflexivity. Qed.
End DE_nn.

(* the same eight statements in single-network / ith-output-unit mode: the term only mentions
   the symbol N@k (output column k of the shared network) *)
Section DE_unit.
  Lemma debvp_dd_unit_left venv penv fenv : let M := DEBVP_dd_unit.term in
    penv DEBVP_dd_unit.p_x_max - penv DEBVP_dd_unit.p_x_min <> 0 -> venv DEBVP_dd_unit.v_x = penv DEBVP_dd_unit.p_x_min ->
    eval venv penv fenv M = penv DEBVP_dd_unit.p_a.
  Proof. cbv zeta. intros Hd H. bvp_solve H. Qed.
  Lemma debvp_dd_unit_right venv penv fenv : let M := DEBVP_dd_unit.term in
    penv DEBVP_dd_unit.p_x_max - penv DEBVP_dd_unit.p_x_min <> 0 -> venv DEBVP_dd_unit.v_x = penv DEBVP_dd_unit.p_x_max ->
    eval venv penv fenv M = penv DEBVP_dd_unit.p_b.
  Proof. cbv zeta. intros Hd H. bvp_solve H. Qed.
  Lemma debvp_dn_unit_left venv penv fenv :
    penv DEBVP_dn_unit.p_x_max - penv DEBVP_dn_unit.p_x_min <> 0 -> venv DEBVP_dn_unit.v_x = penv DEBVP_dn_unit.p_x_min ->
    eval venv penv fenv DEBVP_dn_unit.term = penv DEBVP_dn_unit.p_a.
  Proof. intros Hd H. bvp_solve H. Qed.
  Lemma debvp_dn_unit_right venv penv fenv :
    penv DEBVP_dn_unit.p_x_max - penv DEBVP_dn_unit.p_x_min <> 0 ->
    venv DEBVP_dn_unit.v_x = penv DEBVP_dn_unit.p_x_max -> venv DEBVP_dn_unit.v_x1 = penv DEBVP_dn_unit.p_x_max ->
    eval venv penv fenv (D DEBVP_dn_unit.v_x DEBVP_dn_unit.term) = penv DEBVP_dn_unit.p_b.
  Proof. intros Hd H H1. reduce_eval. norm_names. rewrite H, H1. field. auto. Qed.
  Lemma debvp_nd_unit_left venv penv fenv :
    penv DEBVP_nd_unit.p_x_max - penv DEBVP_nd_unit.p_x_min <> 0 ->
    venv DEBVP_nd_unit.v_x = penv DEBVP_nd_unit.p_x_min -> venv DEBVP_nd_unit.v_x0 = penv DEBVP_nd_unit.p_x_min ->
    eval venv penv fenv (D DEBVP_nd_unit.v_x DEBVP_nd_unit.term) = penv DEBVP_nd_unit.p_a.
  Proof. intros Hd H H0. reduce_eval. norm_names. rewrite H, H0. field. auto. Qed.
  Lemma debvp_nd_unit_right venv penv fenv :
    penv DEBVP_nd_unit.p_x_max - penv DEBVP_nd_unit.p_x_min <> 0 -> venv DEBVP_nd_unit.v_x = penv DEBVP_nd_unit.p_x_max ->
    eval venv penv fenv DEBVP_nd_unit.term = penv DEBVP_nd_unit.p_b.
  Proof. intros Hd H. bvp_solve H. Qed.
  Lemma debvp_nn_unit_left venv penv fenv :
    penv DEBVP_nn_unit.p_x_max - penv DEBVP_nn_unit.p_x_min <> 0 ->
    venv DEBVP_nn_unit.v_x = penv DEBVP_nn_unit.p_x_min -> venv DEBVP_nn_unit.v_x0 = penv DEBVP_nn_unit.p_x_min ->
    eval venv penv fenv (D DEBVP_nn_unit.v_x DEBVP_nn_unit.term) = penv DEBVP_nn_unit.p_a.
  Proof. intros Hd H H0. reduce_eval. norm_names. rewrite H, H0. field. auto. Qed.
  Lemma debvp_nn_unit_right venv penv fenv :
    penv DEBVP_nn_unit.p_x_max - penv DEBVP_nn_unit.p_x_min <> 0 ->
    venv DEBVP_nn_unit.v_x = penv DEBVP_nn_unit.p_x_max -> venv DEBVP_nn_unit.v_x1 = penv DEBVP_nn_unit.p_x_max ->
    eval venv penv fenv (D DEBVP_nn_unit.v_x DEBVP_nn_unit.term) = penv DEBVP_nn_unit.p_b.
  Proof. intros Hd H H1. reduce_eval. norm_names. rewrite H, H1. field. auto. Qed.
End DE_unit.

(* every symbol of the network occurring in a *_unit term is the column symbol N@k:
   selecting an output unit constrains (and reads) only that column *)
Fixpoint funs_of (e : expr) : list nat :=
  match e with
  | EVar _ | EPar _ | ECst _ | ECstQ _ _ => []
  | EAdd a b | ESub a b | EMul a b | EDiv a b => funs_of a ++ funs_of b
  | ENeg a | EPow a _ | ESin a | ECos a | EExp a | ETanh a | EAbs a | ESqrt a | ELn a => funs_of a
  | EFun f _ _ => [f]
  end.

Lemma unit_terms_only_column_symbol :
  forallb (fun e => forallb (Nat.eqb 0) (funs_of e))
    [IVP_value_unit.term; IVP_prime_unit.term; DBVP_unit.term; DEBVP_dd_unit.term; DEBVP_dn_unit.term;
     DEBVP_nd_unit.term; DEBVP_nn_unit.term] = true.
Proof. vm_compute. reflexivity. Qed.

(* interior non-degeneracy: affine in the raw output at the evaluation point, coefficient
   non-zero away from the constrained points *)
Section DEaff.
  Lemma debvp_dd_affine venv penv fenv c :
    let P h := eval (upd venv DEBVP_dd_param.v_o h) penv fenv DEBVP_dd_param.term in
    P c = P 0 + (P 1 - P 0) * c.
  Proof. cbv beta zeta. reduce_eval. norm_names. cbv [upd Nat.eqb]. ring. Qed.
  Lemma debvp_dd_coef venv penv fenv :
    let P h := eval (upd venv DEBVP_dd_param.v_o h) penv fenv DEBVP_dd_param.term in
    penv DEBVP_dd_param.p_x_max - penv DEBVP_dd_param.p_x_min <> 0 ->
    venv DEBVP_dd_param.v_x <> penv DEBVP_dd_param.p_x_min -> venv DEBVP_dd_param.v_x <> penv DEBVP_dd_param.p_x_max ->
    P 1 - P 0 = (let s := (venv DEBVP_dd_param.v_x - penv DEBVP_dd_param.p_x_min) / (penv DEBVP_dd_param.p_x_max - penv DEBVP_dd_param.p_x_min) in s * (1 - s))
    /\ P 1 - P 0 <> 0.
  Proof.
    cbv beta zeta. reduce_eval. norm_names. cbv [upd Nat.eqb]. intros Hd H0 H1.
    set (L := penv 1%nat - penv 0%nat) in *. set (X := venv 0%nat) in *.
    split. ring.
    replace (_ - _) with ((X - penv 0%nat) / L * (1 - (X - penv 0%nat) / L)) by ring.
    intro Hz. apply Rmult_integral in Hz as [Hz|Hz].
    - apply H0. apply (Rmult_eq_compat_r L) in Hz. field_simplify in Hz; auto. lra.
    - apply H1. apply (Rmult_eq_compat_r L) in Hz. field_simplify in Hz; auto. unfold L in *. lra.
  Qed.

  Lemma debvp_dn_affine venv penv fenv c :
    let P h := eval (upd venv DEBVP_dn_param.v_o h) penv fenv DEBVP_dn_param.term in
    P c = P 0 + (P 1 - P 0) * c.
  Proof. cbv beta zeta. reduce_eval. norm_names. cbv [upd Nat.eqb]. ring. Qed.
  Lemma debvp_dn_coef venv penv fenv :
    let P h := eval (upd venv DEBVP_dn_param.v_o h) penv fenv DEBVP_dn_param.term in
    penv DEBVP_dn_param.p_x_max - penv DEBVP_dn_param.p_x_min <> 0 ->
    venv DEBVP_dn_param.v_x <> penv DEBVP_dn_param.p_x_min -> P 1 - P 0 <> 0.
  Proof.
    cbv beta zeta. reduce_eval. norm_names. cbv [upd Nat.eqb]. intros Hd H0.
    set (L := penv 1%nat - penv 0%nat) in *. set (X := venv 0%nat) in *.
    replace (_ - _) with ((X - penv 0%nat) / L) by ring.
    intro Hz. apply H0. apply (Rmult_eq_compat_r L) in Hz. field_simplify in Hz; auto. lra.
  Qed.

  Lemma debvp_nd_affine venv penv fenv c :
    let P h := eval (upd venv DEBVP_nd_param.v_o h) penv fenv DEBVP_nd_param.term in
    P c = P 0 + (P 1 - P 0) * c.
  Proof. cbv beta zeta. reduce_eval. norm_names. cbv [upd Nat.eqb]. ring. Qed.
  Lemma debvp_nd_coef venv penv fenv :
    let P h := eval (upd venv DEBVP_nd_param.v_o h) penv fenv DEBVP_nd_param.term in
    penv DEBVP_nd_param.p_x_max - penv DEBVP_nd_param.p_x_min <> 0 ->
    venv DEBVP_nd_param.v_x <> penv DEBVP_nd_param.p_x_max -> P 1 - P 0 <> 0.
  Proof.
    cbv beta zeta. reduce_eval. norm_names. cbv [upd Nat.eqb]. intros Hd H1.
    set (L := penv 1%nat - penv 0%nat) in *. set (X := venv 0%nat) in *.
    replace (_ - _) with (1 - (X - penv 0%nat) / L) by ring.
    intro Hz. apply H1. apply (Rmult_eq_compat_r L) in Hz. field_simplify in Hz; auto. unfold L in *. lra.
  Qed.

  Lemma debvp_nn_affine venv penv fenv c :
    let P h := eval (upd venv DEBVP_nn_param.v_o h) penv fenv DEBVP_nn_param.term in
    P c = P 0 + (P 1 - P 0) * c.
  Proof. cbv beta zeta. reduce_eval. norm_names. cbv [upd Nat.eqb]. ring. Qed.
  Lemma debvp_nn_coef venv penv fenv :
    let P h := eval (upd venv DEBVP_nn_param.v_o h) penv fenv DEBVP_nn_param.term in
    penv DEBVP_nn_param.p_x_max - penv DEBVP_nn_param.p_x_min <> 0 -> 0 < P 1 - P 0.
  Proof.
    cbv beta zeta. reduce_eval. norm_names. cbv [upd Nat.eqb]. intros Hd.
    set (s := (venv 0%nat - penv 0%nat) / (penv 1%nat - penv 0%nat)).
    replace (_ - _) with ((s * s + (1 - s) * (1 - s)) / 2) by (unfold s; field; auto).
    nra.
  Qed.
End DEaff.

(* the constructor rejects ill-formed end specifications *)
Lemma debvp_rejects :
  DEBVP_reject_three.raises = true /\ DEBVP_reject_one.raises = true /\ DEBVP_reject_both_min.raises = true
  /\ DEBVP_dd.raises = false /\ DEBVP_dn.raises = false /\ DEBVP_nd.raises = false /\ DEBVP_nn.raises = false.
Proof. repeat split. Qed.

(* non-vacuity: reversed orientation t_0 = 2 > t_1 = -1, large negative u_0, N t = 5 - 7 t *)
Example dbvp_premises_satisfiable :
  exists venv penv (fenv : nat -> list nat -> list R -> R),
    penv DBVP.p_t_1 - penv DBVP.p_t_0 <> 0 /\ venv DBVP.v_t = penv DBVP.p_t_0 /\
    eval venv penv fenv DBVP.term = -3000.
Proof.
  exists (fun _ => 2), (fun p => match p with 0%nat => 2 | 1%nat => -3000 | 2%nat => -1 | _ => 4 end),
         (fun _ _ args => 5 - 7 * hd 0 args).
  split; [cbn; lra|]. split; [reflexivity|].
  rewrite (dbvp_left _ _ _); [reflexivity| cbn; lra | reflexivity].
Qed.
