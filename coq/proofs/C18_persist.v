(* C18 — saving never alters a solver; loading restores an equal, resumable one.
   Proofs about model/Persist.v instantiated with gen/Gen_C18.v (`facts`, regenerated from
   neurodiffeq/solvers_utils.py on every run).

   Three characterisation lemmas (facts_save, facts_touch, facts_load) are re-checked by
   computation against the generated facts; everything else follows from them. *)
From Coq Require Import String.
From Coq Require Import List ZArith QArith Bool Arith Lia.
From ND.model Require Import Persist.
From ND.gen Require Import Gen_C18.
Import ListNotations.
Close Scope Q_scope.
Local Open Scope nat_scope.

(* ------------------------------------------------------------------ what the generated facts say *)
Definition relabel (kv : string * attr) : string * attr := (fst kv, source_of (snd kv)).

(* get_conditions, as the current source writes it, on the dictionary it works on *)
Definition touched (c : cond) : cond :=
  mkCond (c_type c) (map relabel (d_set (c_attrs c) "condition_type" (AStr (c_type c)))).

Lemma facts_touch c : touch_cond facts c = touched c.
Proof. reflexivity. Qed.

Definition touch_state (s : state) : state := set_conds s (map touched (conds s)).

(* save: get_conditions has already rewritten the solver's own condition dictionaries when
   dill.dump runs -- whether or not it then succeeds *)
Lemma facts_save s ok :
  save facts s ok = (touch_state s, if ok then Some (mkfile facts (touch_state s)) else None).
Proof. reflexivity. Qed.

(* load of a file written by save: every field but lowest_loss comes back; for the bundle solver
   the loss function is not passed on and the equations are wrapped a second time *)
Definition after_load (s : state) : state :=
  mkState (kind s) (nets s) (opt s) (train_hist s) (valid_hist s) None (best s) (conds s)
          (match kind s with KBundle => 0 | _ => loss_id s end)
          (match kind s with KBundle => n_params s | _ => 0 end)
          (match kind s with KBundle => [] :: eqs s | _ => eqs s end).

Lemma facts_load s : load facts (mkfile facts s) = Some (after_load s).
Proof. destruct s as [k n o th vh lo be co li np eq]. destruct k; vm_compute; reflexivity. Qed.

Lemma save_load s f : snd (save facts s true) = Some f -> load facts f = Some (after_load (touch_state s)).
Proof. rewrite facts_save. cbn [snd]. intros H. inversion H. apply facts_load. Qed.

(* ------------------------------------------------------------------ dictionaries *)
Lemma assoc_d_set d k v : assoc k (d_set d k v) = Some v.
Proof.
  induction d as [|[k' v'] r IH]; cbn [d_set assoc].
  - now rewrite String.eqb_refl.
  - destruct (String.eqb_spec k' k) as [E|E]; cbn [assoc].
    + now rewrite E, String.eqb_refl.
    + destruct (String.eqb_spec k' k); [contradiction | exact IH].
Qed.

Lemma assoc_relabel d k : assoc k (map relabel d) = option_map source_of (assoc k d).
Proof.
  induction d as [|[k' v'] r IH]; [reflexivity|]. cbn [map relabel fst snd assoc].
  destruct (String.eqb k' k); [reflexivity | exact IH].
Qed.

Lemma d_set_same d k v : assoc k d = Some v -> d_set d k v = d.
Proof.
  induction d as [|[k' v'] r IH]; cbn [assoc d_set]; [discriminate|].
  destruct (String.eqb k' k); intros H; [now inversion H | now rewrite IH].
Qed.

Lemma source_of_idem a : source_of (source_of a) = source_of a.
Proof. destruct a as [| |i [|]| | |]; reflexivity. Qed.

Lemma relabel_idem d : map relabel (map relabel d) = map relabel d.
Proof.
  rewrite map_map. apply map_ext. intros [k a]. unfold relabel. cbn [fst snd]. now rewrite source_of_idem.
Qed.

(* a second save changes nothing more *)
Lemma touched_idem c : touched (touched c) = touched c.
Proof.
  unfold touched. cbn [c_type c_attrs]. f_equal.
  rewrite d_set_same.
  - apply relabel_idem.
  - rewrite assoc_relabel, assoc_d_set. reflexivity.
Qed.

Definition ne_type (kv : string * attr) : bool := negb (String.eqb (fst kv) "condition_type").

Lemma filter_d_set d v : filter ne_type (d_set d "condition_type" v) = filter ne_type d.
Proof.
  induction d as [|[k' v'] r IH]; cbn [d_set filter ne_type fst].
  - reflexivity.
  - destruct (String.eqb_spec k' "condition_type") as [E|E]; cbn [filter ne_type fst].
    + subst k'. reflexivity.
    + destruct (String.eqb_spec k' "condition_type"); [contradiction|]. cbn [negb]. now rewrite IH.
Qed.

(* no attribute is a function whose source text inspect can retrieve *)
Definition plain_cond (c : cond) : Prop := forall kv, In kv (c_attrs c) -> source_of (snd kv) = snd kv.

Lemma in_d_set d k v kv : In kv (d_set d k v) -> In kv d \/ kv = (k, v).
Proof.
  induction d as [|[k' v'] r IH]; cbn [d_set In].
  - intros [H|[]]; right; now symmetry.
  - destruct (String.eqb_spec k' k) as [E|E]; cbn [In].
    + intros [H|H]; [right; subst; now symmetry | left; now right].
    + intros [H|H]; [left; now left | destruct (IH H); [left; now right | now right]].
Qed.

Lemma cond_sem_touched c : plain_cond c -> cond_sem (touched c) = cond_sem c.
Proof.
  intros Hp. unfold cond_sem, touched. cbn [c_type c_attrs]. f_equal.
  change (fun kv : string * attr => negb (String.eqb (fst kv) "condition_type")) with ne_type.
  rewrite <- (filter_d_set (c_attrs c) (AStr (c_type c))). f_equal.
  rewrite <- (map_id (d_set _ _ _)) at 2. apply map_ext_in. intros [k a] Hin. unfold relabel. cbn [fst snd].
  destruct (in_d_set _ _ _ _ Hin) as [H|H].
  - pose proof (Hp _ H) as E. cbn [snd] in E. now rewrite E.
  - inversion H. reflexivity.
Qed.

(* ------------------------------------------------------------------ T1: save and the solver in memory *)
Lemma save_keeps_everything_but_conditions s ok :
  let s' := fst (save facts s ok) in
  kind s' = kind s /\ nets s' = nets s /\ opt s' = opt s /\ train_hist s' = train_hist s /\
  valid_hist s' = valid_hist s /\ lowest s' = lowest s /\ best s' = best s /\ loss_id s' = loss_id s /\
  n_params s' = n_params s /\ eqs s' = eqs s /\
  conds s' = map touched (conds s) /\
  (Forall plain_cond (conds s) -> map cond_sem (conds s') = map cond_sem (conds s)).
Proof.
  rewrite facts_save. cbn [fst touch_state set_conds kind nets opt train_hist valid_hist lowest best conds loss_id n_params eqs].
  repeat split; try reflexivity.
  intros Hall. rewrite map_map. apply map_ext_in. intros c Hc. apply cond_sem_touched.
  rewrite Forall_forall in Hall. now apply Hall.
Qed.

Lemma save_preserves_when_stable s ok :
  (forall c, In c (conds s) -> touched c = c) -> fst (save facts s ok) = s.
Proof.
  intros H. rewrite facts_save. cbn [fst]. unfold touch_state.
  replace (map touched (conds s)) with (conds s).
  - destruct s; reflexivity.
  - rewrite <- (map_id (conds s)) at 1. apply map_ext_in. intros c Hc. symmetry. now apply H.
Qed.

Lemma save_idempotent s ok ok' : fst (save facts (fst (save facts s ok)) ok') = fst (save facts s ok).
Proof.
  apply save_preserves_when_stable. intros c Hc. rewrite facts_save in Hc. cbn [fst touch_state set_conds conds] in Hc.
  apply in_map_iff in Hc as [c0 [E _]]. subst c. apply touched_idem.
Qed.

(* whatever the source does, working on a copy is enough for the full statement *)
Lemma save_preserves_if_copy sf s ok : sf_aliased sf = false -> fst (save sf s ok) = s.
Proof. intros H. unfold save. rewrite H. reflexivity. Qed.

(* ------------------------------------------------------------------ T2/T3: load after save *)
Definition solution (s : state) (use_best : bool) : option (list Z) * list cond :=
  (if use_best then best s else Some (nets s), map cond_sem (conds s)).

Lemma load_save_history s f :
  snd (save facts s true) = Some f ->
  exists l, load facts f = Some l /\ kind l = kind s /\ train_hist l = train_hist s /\ valid_hist l = valid_hist s
            /\ global_epoch l = global_epoch s /\ opt l = opt s.
Proof.
  intros H. rewrite (save_load s f H). eexists. split; [reflexivity|].
  destruct s; repeat split; reflexivity.
Qed.

Lemma load_save_solutions_plain s f :
  Forall plain_cond (conds s) ->
  snd (save facts s true) = Some f ->
  exists l, load facts f = Some l /\ forall b, solution l b = solution s b.
Proof.
  intros Hp H. rewrite (save_load s f H). eexists. split; [reflexivity|].
  intros b. unfold solution, after_load, touch_state, set_conds. cbn [best nets conds]. f_equal.
  rewrite map_map. apply map_ext_in. intros c Hc. apply cond_sem_touched. rewrite Forall_forall in Hp. now apply Hp.
Qed.

(* nets and best nets come back for every solver, also with function-valued conditions *)
Lemma load_save_nets s f :
  snd (save facts s true) = Some f ->
  exists l, load facts f = Some l /\ nets l = nets s /\ best l = best s.
Proof.
  intros H. rewrite (save_load s f H). eexists. split; [reflexivity|]. destruct s; split; reflexivity.
Qed.

(* equations and loss function: kept for Solver1D / Solver2D *)
Lemma load_keeps_config_nonbundle s f :
  kind s <> KBundle ->
  snd (save facts s true) = Some f ->
  exists l, load facts f = Some l /\ loss_id l = loss_id s /\ eqs l = eqs s.
Proof.
  intros Hk H. rewrite (save_load s f H). eexists. split; [reflexivity|].
  destruct s as [k n o th vh lo be co li np eq]. cbn [kind] in Hk.
  destruct k; try contradiction; split; reflexivity.
Qed.

(* BundleSolver1D: fine only when no equation parameter is routed and the loss is the default *)
Lemma load_bundle_plain s f :
  kind s = KBundle -> eqs s = [[]] -> loss_id s = 0 ->
  snd (save facts s true) = Some f ->
  exists l, load facts f = Some l /\ loss_id l = 0 /\ trainable l = true.
Proof.
  intros Hk He Hl H. rewrite (save_load s f H). eexists. split; [reflexivity|].
  destruct s as [k n o th vh lo be co li np eq]. cbn [kind eqs loss_id] in *. subst. split; reflexivity.
Qed.

(* ------------------------------------------------------------------ T4: best tracking after load *)
Definition tracks_from (k : nat) (s : state) : Prop :=
  match lowest s with
  | None => skipn k (valid_hist s) = []
  | Some l => In l (skipn k (valid_hist s)) /\ Forall (fun v => Qle l v) (skipn k (valid_hist s))
  end.
Definition tracks (s : state) : Prop := tracks_from 0 s.

Lemma skipn_snoc {B} k (l : list B) x : k <= length l -> skipn k (l ++ [x]) = skipn k l ++ [x].
Proof.
  intros H. rewrite skipn_app. replace (k - length l) with 0 by lia. reflexivity.
Qed.

Lemma epoch_tracks k s e :
  k <= length (valid_hist s) -> tracks_from k s -> tracks_from k (run_epoch s e).
Proof.
  intros Hk Ht. unfold tracks_from, run_epoch in *. cbn [lowest valid_hist].
  rewrite (skipn_snoc k _ _ Hk).
  destruct (lowest s) as [l|].
  - destruct Ht as [Hin Hall]. unfold Qltb. destruct (Qle_bool l (e_valid e)) eqn:E; cbn [negb].
    + apply Qle_bool_iff in E. split; [apply in_or_app; now left|].
      apply Forall_app. split; [exact Hall | constructor; [exact E | constructor]].
    + assert (Hlt : (e_valid e < l)%Q).
      { apply Qnot_le_lt. intros Hle. apply Qle_bool_iff in Hle. congruence. }
      split; [apply in_or_app; right; now left|].
      apply Forall_app. split.
      * eapply Forall_impl; [|exact Hall]. cbn beta. intros v Hv.
        apply Qle_trans with l; [now apply Qlt_le_weak | exact Hv].
      * constructor; [apply Qle_refl | constructor].
  - rewrite Ht. cbn [app]. split; [now left | constructor; [apply Qle_refl | constructor]].
Qed.

Lemma epoch_hist_length s e : length (valid_hist (run_epoch s e)) = S (length (valid_hist s)).
Proof. unfold run_epoch. cbn [valid_hist]. rewrite app_length. cbn [length]. lia. Qed.

Lemma fit_tracks k es : forall s,
  k <= length (valid_hist s) -> tracks_from k s -> tracks_from k (fit s es).
Proof.
  induction es as [|e es IH]; intros s Hk Ht; [exact Ht|].
  cbn [fit fold_left]. apply IH.
  - rewrite epoch_hist_length. lia.
  - now apply epoch_tracks.
Qed.

(* an un-interrupted solver keeps the invariant: the premise of the resume theorem is satisfiable *)
Lemma fit_tracks_whole s es : tracks s -> tracks (fit s es).
Proof. apply fit_tracks. lia. Qed.

(* after load, tracking refers to the lowest loss SINCE LOADING only *)
Lemma resume_best_since_load s f es :
  snd (save facts s true) = Some f ->
  exists l, load facts f = Some l /\ tracks_from (length (valid_hist s)) (fit l es).
Proof.
  intros H. rewrite (save_load s f H). eexists. split; [reflexivity|].
  apply fit_tracks.
  - destruct s; cbn. lia.
  - unfold tracks_from, after_load, touch_state, set_conds. cbn [lowest valid_hist]. apply skipn_all.
Qed.

(* with no epoch before the save nothing is lost *)
Lemma resume_best_fresh s f es :
  valid_hist s = [] ->
  snd (save facts s true) = Some f ->
  exists l, load facts f = Some l /\ tracks (fit l es).
Proof.
  intros Hv H. destruct (resume_best_since_load s f es H) as [l [Hl Ht]]. exists l. split; [exact Hl|].
  rewrite Hv in Ht. exact Ht.
Qed.

(* ------------------------------------------------------------------ T5: any number of save / load / fit cycles *)
Definition op_train (o : op) : list Q := match o with OFit es => map e_train es | _ => [] end.
Definition op_valid (o : op) : list Q := match o with OFit es => map e_valid es | _ => [] end.
Definition op_nets (cur : list Z) (o : op) : list Z :=
  match o with OFit es => fold_left (fun _ e => e_nets e) es cur | _ => cur end.

Lemma fit_hist es : forall s,
  train_hist (fit s es) = train_hist s ++ map e_train es /\
  valid_hist (fit s es) = valid_hist s ++ map e_valid es /\
  nets (fit s es) = fold_left (fun _ e => e_nets e) es (nets s) /\
  kind (fit s es) = kind s.
Proof.
  induction es as [|e es IH]; intros s.
  - cbn. now rewrite !app_nil_r.
  - cbn [fit fold_left map]. destruct (IH (run_epoch s e)) as [H1 [H2 [H3 H4]]].
    unfold fit in *. rewrite H1, H2, H3, H4. unfold run_epoch. cbn [train_hist valid_hist nets kind].
    rewrite <- !app_assoc. repeat split; reflexivity.
Qed.

Lemma run_op_total s o :
  exists s', run_op facts s o = Some s'
    /\ train_hist s' = train_hist s ++ op_train o
    /\ valid_hist s' = valid_hist s ++ op_valid o
    /\ nets s' = op_nets (nets s) o
    /\ kind s' = kind s.
Proof.
  destruct o as [ok| |es]; cbn [run_op op_train op_valid op_nets].
  - eexists. split; [reflexivity|]. rewrite facts_save. cbn [fst]. destruct s; cbn. now rewrite !app_nil_r.
  - rewrite facts_save. cbn [snd]. rewrite facts_load. eexists. split; [reflexivity|].
    destruct s; cbn. now rewrite !app_nil_r.
  - eexists. split; [reflexivity|]. apply fit_hist.
Qed.

Lemma cycles ops : forall s,
  exists s', run_ops facts s ops = Some s'
    /\ train_hist s' = train_hist s ++ flat_map op_train ops
    /\ valid_hist s' = valid_hist s ++ flat_map op_valid ops
    /\ global_epoch s' = global_epoch s + length (flat_map op_train ops)
    /\ nets s' = fold_left op_nets ops (nets s)
    /\ kind s' = kind s.
Proof.
  induction ops as [|o ops IH]; intros s.
  - exists s. cbn. rewrite !app_nil_r. repeat split; auto.
  - destruct (run_op_total s o) as [s1 [H1 [Ht [Hv [Hn Hk]]]]].
    destruct (IH s1) as [s' [H' [Ht' [Hv' [Hg' [Hn' Hk']]]]]].
    exists s'. cbn [run_ops flat_map fold_left]. rewrite H1. split; [exact H'|].
    rewrite Ht', Hv', Ht, Hv, Hn', Hn, Hk', Hk, <- !app_assoc. repeat split; try reflexivity.
    unfold global_epoch. rewrite Ht', Ht, !app_length. lia.
Qed.

(* ------------------------------------------------------------------ non-vacuity *)
Definition demo_cond : cond := mkCond 3 [("t_0"%string, ANum 0 1); ("u_0"%string, ANum 1 2); ("u_0_prime"%string, ANone)].
Definition demo : state := mkState K1D [11%Z] 5%Z [(3#1)%Q; (2#1)%Q] [(4#1)%Q; (1#1)%Q] (Some (1#1)%Q) (Some [11%Z]) [demo_cond] 0 0 [].

Example demo_premises : Forall plain_cond (conds demo) /\ tracks demo /\ exists f, snd (save facts demo true) = Some f.
Proof.
  split; [|split].
  - repeat constructor; intros kv [H|[H|[H|[]]]]; subst; reflexivity.
  - unfold tracks, tracks_from, demo. cbn [lowest valid_hist skipn]. split; [right; now left|].
    repeat constructor; discriminate.
  - eexists. reflexivity.
Qed.

Example demo_roundtrip :
  run_ops facts demo [OSave false; OSaveLoad; OFit [mkEpoch (1#2)%Q (1#3)%Q [12%Z] 6%Z]; OSaveLoad]
  = Some (mkState K1D [12%Z] 6%Z [(3#1)%Q; (2#1)%Q; (1#2)%Q] [(4#1)%Q; (1#1)%Q; (1#3)%Q] None (Some [12%Z])
            [mkCond 3 [("t_0"%string, ANum 0 1); ("u_0"%string, ANum 1 2); ("u_0_prime"%string, ANone);
                       ("condition_type"%string, AStr 3)]] 0 0 []).
Proof. vm_compute. reflexivity. Qed.
