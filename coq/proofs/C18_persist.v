(* C18 — saving never alters a solver; loading restores an equal, resumable one.
   Proofs about model/Persist.v instantiated with gen/Gen_C18.v (`facts`, regenerated from
   neurodiffeq/solvers_utils.py on every run).

   Three characterisation lemmas (facts_save, facts_touch, facts_load) are re-checked by
   computation against the generated facts; everything else follows from them. *)
From Coq Require Import String.
From Coq Require Import List ZArith QArith Bool Arith Lia.
From ND.model Require Import Persist.
From ND.gen Require Import Gen_C18.
Import ListNotations.
Close Scope Q_scope.
Local Open Scope nat_scope.

(* ------------------------------------------------------------------ what the generated facts say *)
Definition relabel (kv : string * attr) : string * attr := (fst kv, source_of (snd kv)).

(* get_conditions, as the current source writes it, on the dictionary it works on *)
Definition touched (c : cond) : cond :=
  mkCond (c_type c) (map relabel (d_set (c_attrs c) "condition_type" (AStr (c_type c)))).

Lemma facts_touch c : touch_cond facts c = touched c.
Proof. reflexivity. Qed.

(* save: get_conditions works on copies and no call on the save path (save itself, the preview
   helpers run under torch.random.fork_rng, get_generator, get_networks, ...) draws from the
   solver's generators or advances a global RNG: the solver is left alone whether or not dill.dump
   then succeeds; the file holds the solver's objects as they are *)
Lemma facts_save s ok : save facts s ok = (s, if ok then Some (mkfile facts s) else None).
Proof. destruct s as [k n o th vh lo be co li np eq [a b c d u st]]. destruct k, st; reflexivity. Qed.

Lemma facts_no_effects : sf_effects facts = [].
Proof. reflexivity. Qed.

(* load of a file written by save: every modelled field comes back, lowest_loss included; the
   bundle constructor wraps the saved wrapper once more and hands it ALL bundle parameters *)
Definition after_load (s : state) : state :=
  mkState (kind s) (nets s) (opt s) (train_hist s) (valid_hist s) (lowest s) (best s) (conds s) (loss_id s)
          (match kind s with KBundle => n_params s | _ => 0 end)
          (match kind s with KBundle => seq 0 (n_params s) :: eqs s | _ => eqs s end)
          (mkEnv (drawn_train (env s)) (drawn_valid (env s)) 0 0 0 (stochastic (env s))).

Lemma facts_load s : load facts (mkfile facts s) = Some (after_load s).
Proof. destruct s as [k n o th vh lo be co li np eq [a b c d u st]]. destruct k; vm_compute; reflexivity. Qed.

Lemma save_load s f : snd (save facts s true) = Some f -> load facts f = Some (after_load s).
Proof. rewrite facts_save. cbn [snd]. intros H. inversion H. apply facts_load. Qed.

(* ------------------------------------------------------------------ dictionaries *)
Lemma assoc_d_set d k v : assoc k (d_set d k v) = Some v.
Proof.
  induction d as [|[k' v'] r IH]; cbn [d_set assoc].
  - now rewrite String.eqb_refl.
  - destruct (String.eqb_spec k' k) as [E|E]; cbn [assoc].
    + now rewrite E, String.eqb_refl.
    + destruct (String.eqb_spec k' k); [contradiction | exact IH].
Qed.

Lemma assoc_relabel d k : assoc k (map relabel d) = option_map source_of (assoc k d).
Proof.
  induction d as [|[k' v'] r IH]; [reflexivity|]. cbn [map relabel fst snd assoc].
  destruct (String.eqb k' k); [reflexivity | exact IH].
Qed.

Lemma d_set_same d k v : assoc k d = Some v -> d_set d k v = d.
Proof.
  induction d as [|[k' v'] r IH]; cbn [assoc d_set]; [discriminate|].
  destruct (String.eqb k' k); intros H; [now inversion H | now rewrite IH].
Qed.

Lemma source_of_idem a : source_of (source_of a) = source_of a.
Proof. destruct a as [| |i [|]| | |]; reflexivity. Qed.

Lemma relabel_idem d : map relabel (map relabel d) = map relabel d.
Proof.
  rewrite map_map. apply map_ext. intros [k a]. unfold relabel. cbn [fst snd]. now rewrite source_of_idem.
Qed.

(* a second save changes nothing more *)
Lemma touched_idem c : touched (touched c) = touched c.
Proof.
  unfold touched. cbn [c_type c_attrs]. f_equal.
  rewrite d_set_same.
  - apply relabel_idem.
  - rewrite assoc_relabel, assoc_d_set. reflexivity.
Qed.

Definition ne_type (kv : string * attr) : bool := negb (String.eqb (fst kv) "condition_type").

Lemma filter_d_set d v : filter ne_type (d_set d "condition_type" v) = filter ne_type d.
Proof.
  induction d as [|[k' v'] r IH]; cbn [d_set filter ne_type fst].
  - reflexivity.
  - destruct (String.eqb_spec k' "condition_type") as [E|E]; cbn [filter ne_type fst].
    + subst k'. reflexivity.
    + destruct (String.eqb_spec k' "condition_type"); [contradiction|]. cbn [negb]. now rewrite IH.
Qed.

(* no attribute is a function whose source text inspect can retrieve *)
Definition plain_cond (c : cond) : Prop := forall kv, In kv (c_attrs c) -> source_of (snd kv) = snd kv.

Lemma in_d_set d k v kv : In kv (d_set d k v) -> In kv d \/ kv = (k, v).
Proof.
  induction d as [|[k' v'] r IH]; cbn [d_set In].
  - intros [H|[]]; right; now symmetry.
  - destruct (String.eqb_spec k' k) as [E|E]; cbn [In].
    + intros [H|H]; [right; subst; now symmetry | left; now right].
    + intros [H|H]; [left; now left | destruct (IH H); [left; now right | now right]].
Qed.

Lemma cond_sem_touched c : plain_cond c -> cond_sem (touched c) = cond_sem c.
Proof.
  intros Hp. unfold cond_sem, touched. cbn [c_type c_attrs]. f_equal.
  change (fun kv : string * attr => negb (String.eqb (fst kv) "condition_type")) with ne_type.
  rewrite <- (filter_d_set (c_attrs c) (AStr (c_type c))). f_equal.
  rewrite <- (map_id (d_set _ _ _)) at 2. apply map_ext_in. intros [k a] Hin. unfold relabel. cbn [fst snd].
  destruct (in_d_set _ _ _ _ Hin) as [H|H].
  - pose proof (Hp _ H) as E. cbn [snd] in E. now rewrite E.
  - inversion H. reflexivity.
Qed.

(* ------------------------------------------------------------------ T1: save and the solver in memory *)
Lemma save_preserves s ok : fst (save facts s ok) = s.
Proof. rewrite facts_save. reflexivity. Qed.

Lemma save_idempotent s ok ok' : fst (save facts (fst (save facts s ok)) ok') = fst (save facts s ok).
Proof. now rewrite !save_preserves. Qed.

(* whatever else the source does: working on a copy of the condition dictionaries and making no
   effectful call on the save path is enough *)
Lemma save_preserves_if_copy sf s ok : sf_aliased sf = false -> sf_effects sf = [] -> fst (save sf s ok) = s.
Proof.
  intros H He. unfold save, save_env, count_effect, count_unknown. rewrite H, He.
  destruct s as [k n o th vh lo be co li np eq [a b c d u st]]. destruct st; reflexivity.
Qed.

(* the descriptive copy that goes into diff_equation_details is still the rewritten dictionary *)
Lemma described_conditions_idempotent c : touched (touched c) = touched c.
Proof. apply touched_idem. Qed.

(* the twin: a solver that saves (successfully or not) and then trains k epochs goes through exactly
   the states of one that only trains, for ANY deterministic trainer that may depend on the whole
   state -- the positions of the train / valid generators and the global RNG counters included *)
Lemma save_then_fit_is_fit tr s ok k : fit_by tr (fst (save facts s ok)) k = fit_by tr s k.
Proof. now rewrite save_preserves. Qed.

Lemma save_keeps_environment s ok : env (fst (save facts s ok)) = env s.
Proof. now rewrite save_preserves. Qed.

(* ------------------------------------------------------------------ T2/T3: load after save *)
(* the loaded generators continue where the saved ones were *)
Lemma load_save_generators s f :
  snd (save facts s true) = Some f ->
  exists l, load facts f = Some l /\ drawn_train (env l) = drawn_train (env s) /\ drawn_valid (env l) = drawn_valid (env s).
Proof.
  intros H. rewrite (save_load s f H). eexists. split; [reflexivity|]. destruct s; split; reflexivity.
Qed.

Lemma load_save_history s f :
  snd (save facts s true) = Some f ->
  exists l, load facts f = Some l /\ kind l = kind s /\ train_hist l = train_hist s /\ valid_hist l = valid_hist s
            /\ global_epoch l = global_epoch s /\ opt l = opt s.
Proof.
  intros H. rewrite (save_load s f H). eexists. split; [reflexivity|].
  destruct s; repeat split; reflexivity.
Qed.

(* every condition, function-valued or not, comes back as it was *)
Lemma load_save_solutions s f :
  snd (save facts s true) = Some f ->
  exists l, load facts f = Some l /\ nets l = nets s /\ best l = best s /\ conds l = conds s
            /\ forall b, solution l b = solution s b.
Proof.
  intros H. rewrite (save_load s f H). eexists. split; [reflexivity|].
  destruct s; repeat split; reflexivity.
Qed.

(* ---- equations and loss function *)
Lemma pick_seq {B} (pre r : list B) : pick (seq (length pre) (length r)) (pre ++ r) = Some r.
Proof.
  revert pre. induction r as [|x r IH]; intros pre; [reflexivity|].
  cbn [length seq pick]. rewrite nth_error_app2 by lia. rewrite Nat.sub_diag. cbn [nth_error].
  replace (pre ++ x :: r) with ((pre ++ [x]) ++ r) by (rewrite <- app_assoc; reflexivity).
  replace (S (length pre)) with (length (pre ++ [x])) by (rewrite app_length; cbn; lia).
  now rewrite IH.
Qed.

Lemma pick_all {B} (ps : list B) : pick (seq 0 (length ps)) ps = Some ps.
Proof. exact (pick_seq [] ps). Qed.

Lemma forallb_seq_lt n : forallb (fun i => Nat.ltb i n) (seq 0 n) = true.
Proof.
  apply forallb_forall. intros i Hi. apply in_seq in Hi. apply Nat.ltb_lt. lia.
Qed.

Lemma load_keeps_config s f :
  snd (save facts s true) = Some f ->
  exists l, load facts f = Some l /\ loss_id l = loss_id s
    /\ (forall (B : Type) (ps : list B), length ps = n_params s -> select (eqs l) ps = select (eqs s) ps)
    /\ (kind s = KBundle -> n_params l = n_params s /\ trainable l = trainable s)
    /\ (kind s <> KBundle -> eqs l = eqs s).
Proof.
  intros H. rewrite (save_load s f H). eexists. split; [reflexivity|].
  destruct s as [k n o th vh lo be co li np eq]. unfold after_load, trainable. cbn [kind loss_id eqs n_params].
  split; [reflexivity|]. split; [|split].
  - intros B ps Hl. destruct k; try reflexivity. cbn [select]. rewrite <- Hl, pick_all. reflexivity.
  - intros ->. split; [reflexivity|]. cbn [eqs_ok]. now rewrite forallb_seq_lt, seq_length.
  - intros Hk. destruct k; try reflexivity. contradiction.
Qed.

(* ------------------------------------------------------------------ T4: best tracking after load *)
Lemma skipn_snoc {B} k (l : list B) x : k <= length l -> skipn k (l ++ [x]) = skipn k l ++ [x].
Proof.
  intros H. rewrite skipn_app. replace (k - length l) with 0 by lia. reflexivity.
Qed.

Lemma epoch_tracks k s e :
  k <= length (valid_hist s) -> tracks_from k s -> tracks_from k (run_epoch s e).
Proof.
  intros Hk Ht. unfold tracks_from, run_epoch in *. cbn [lowest valid_hist].
  rewrite (skipn_snoc k _ _ Hk).
  destruct (lowest s) as [l|].
  - destruct Ht as [Hin Hall]. unfold Qltb. destruct (Qle_bool l (e_valid e)) eqn:E; cbn [negb].
    + apply Qle_bool_iff in E. split; [apply in_or_app; now left|].
      apply Forall_app. split; [exact Hall | constructor; [exact E | constructor]].
    + assert (Hlt : (e_valid e < l)%Q).
      { apply Qnot_le_lt. intros Hle. apply Qle_bool_iff in Hle. congruence. }
      split; [apply in_or_app; right; now left|].
      apply Forall_app. split.
      * eapply Forall_impl; [|exact Hall]. cbn beta. intros v Hv.
        apply Qle_trans with l; [now apply Qlt_le_weak | exact Hv].
      * constructor; [apply Qle_refl | constructor].
  - rewrite Ht. cbn [app]. split; [now left | constructor; [apply Qle_refl | constructor]].
Qed.

Lemma epoch_hist_length s e : length (valid_hist (run_epoch s e)) = S (length (valid_hist s)).
Proof. unfold run_epoch. cbn [valid_hist]. rewrite app_length. cbn [length]. lia. Qed.

Lemma fit_tracks k es : forall s,
  k <= length (valid_hist s) -> tracks_from k s -> tracks_from k (fit s es).
Proof.
  induction es as [|e es IH]; intros s Hk Ht; [exact Ht|].
  cbn [fit fold_left]. apply IH.
  - rewrite epoch_hist_length. lia.
  - now apply epoch_tracks.
Qed.

(* an un-interrupted solver keeps the invariant: the premise of the resume theorem is satisfiable *)
Lemma fit_tracks_whole s es : tracks s -> tracks (fit s es).
Proof. apply fit_tracks. lia. Qed.

(* after load, best tracking still refers to the lowest loss of the WHOLE history *)
Lemma resume_best s f es :
  tracks s ->
  snd (save facts s true) = Some f ->
  exists l, load facts f = Some l /\ tracks (fit l es).
Proof.
  intros Ht H. rewrite (save_load s f H). eexists. split; [reflexivity|].
  apply fit_tracks_whole. destruct s; exact Ht.
Qed.

(* ------------------------------------------------------------------ T5: any number of save / load / fit cycles *)
Definition op_train (o : op) : list Q := match o with OFit es => map e_train es | _ => [] end.
Definition op_valid (o : op) : list Q := match o with OFit es => map e_valid es | _ => [] end.
Definition op_nets (cur : list Z) (o : op) : list Z :=
  match o with OFit es => fold_left (fun _ e => e_nets e) es cur | _ => cur end.

Lemma fit_hist es : forall s,
  train_hist (fit s es) = train_hist s ++ map e_train es /\
  valid_hist (fit s es) = valid_hist s ++ map e_valid es /\
  nets (fit s es) = fold_left (fun _ e => e_nets e) es (nets s) /\
  kind (fit s es) = kind s.
Proof.
  induction es as [|e es IH]; intros s.
  - cbn. now rewrite !app_nil_r.
  - cbn [fit fold_left map]. destruct (IH (run_epoch s e)) as [H1 [H2 [H3 H4]]].
    unfold fit in *. rewrite H1, H2, H3, H4. unfold run_epoch. cbn [train_hist valid_hist nets kind].
    rewrite <- !app_assoc. repeat split; reflexivity.
Qed.

Lemma fit_conds es : forall s, conds (fit s es) = conds s /\ loss_id (fit s es) = loss_id s.
Proof.
  induction es as [|e es IH]; intros s; [split; reflexivity|].
  cbn [fit fold_left]. destruct (IH (run_epoch s e)) as [H1 H2]. unfold fit in *. rewrite H1, H2. split; reflexivity.
Qed.

Lemma run_op_total s o :
  exists s', run_op facts s o = Some s'
    /\ train_hist s' = train_hist s ++ op_train o
    /\ valid_hist s' = valid_hist s ++ op_valid o
    /\ nets s' = op_nets (nets s) o
    /\ kind s' = kind s /\ conds s' = conds s /\ loss_id s' = loss_id s /\ (tracks s -> tracks s').
Proof.
  destruct o as [ok| |es]; cbn [run_op op_train op_valid op_nets].
  - eexists. split; [reflexivity|]. rewrite save_preserves. rewrite !app_nil_r. repeat split; auto.
  - rewrite facts_save. cbn [snd]. rewrite facts_load. eexists. split; [reflexivity|].
    destruct s; cbn. rewrite !app_nil_r. repeat split; auto.
  - eexists. split; [reflexivity|]. destruct (fit_hist es s) as [H1 [H2 [H3 H4]]]. destruct (fit_conds es s) as [H5 H6].
    repeat split; auto. apply fit_tracks_whole.
Qed.

Lemma cycles ops : forall s,
  exists s', run_ops facts s ops = Some s'
    /\ train_hist s' = train_hist s ++ flat_map op_train ops
    /\ valid_hist s' = valid_hist s ++ flat_map op_valid ops
    /\ global_epoch s' = global_epoch s + length (flat_map op_train ops)
    /\ nets s' = fold_left op_nets ops (nets s)
    /\ kind s' = kind s /\ conds s' = conds s /\ loss_id s' = loss_id s /\ (tracks s -> tracks s').
Proof.
  induction ops as [|o ops IH]; intros s.
  - exists s. cbn. rewrite !app_nil_r. repeat split; auto.
  - destruct (run_op_total s o) as [s1 [H1 [Ht [Hv [Hn [Hk [Hc [Hl Htr]]]]]]]].
    destruct (IH s1) as [s' [H' [Ht' [Hv' [Hg' [Hn' [Hk' [Hc' [Hl' Htr']]]]]]]]].
    exists s'. cbn [run_ops flat_map fold_left]. rewrite H1. split; [exact H'|].
    rewrite Ht', Hv', Ht, Hv, Hn', Hn, Hk', Hk, Hc', Hc, Hl', Hl, <- !app_assoc. repeat split; try reflexivity.
    + unfold global_epoch. rewrite Ht', Ht, !app_length. lia.
    + auto.
Qed.

(* ------------------------------------------------------------------ non-vacuity *)
Definition demo_cond : cond := mkCond 3 [("t_0"%string, ANum 0 1); ("u_0"%string, ANum 1 2); ("u_0_prime"%string, ANone)].
Definition demo : state := mkState K1D [11%Z] 5%Z [(3#1)%Q; (2#1)%Q] [(4#1)%Q; (1#1)%Q] (Some (1#1)%Q) (Some [11%Z]) [demo_cond] 0 0 []
                                   (mkEnv 2 2 0 0 0 false).

Example demo_premises : tracks demo /\ exists f, snd (save facts demo true) = Some f.
Proof.
  split.
  - unfold tracks, tracks_from, demo. cbn [lowest valid_hist skipn]. split; [right; now left|].
    repeat constructor; discriminate.
  - eexists. reflexivity.
Qed.

(* a failed save, a save + load, one more (worse) epoch, save + load again: conditions untouched,
   lowest loss and best nets still those of the second epoch *)
Example demo_roundtrip :
  run_ops facts demo [OSave false; OSaveLoad; OFit [mkEpoch (1#2)%Q (3#1)%Q [12%Z] 6%Z (1, 1)]; OSaveLoad]
  = Some (mkState K1D [12%Z] 6%Z [(3#1)%Q; (2#1)%Q; (1#2)%Q] [(4#1)%Q; (1#1)%Q; (3#1)%Q] (Some (1#1)%Q) (Some [11%Z])
            [demo_cond] 0 0 [] (mkEnv 3 3 0 0 0 false)).
Proof. vm_compute. reflexivity. Qed.

(* a bundle solver routing bundle parameter 1 of 2 into its equation and using a custom loss *)
Example demo_bundle :
  let sb := mkState KBundle [7%Z] 5%Z [] [] None None [] 2 2 [[1]] (mkEnv 0 0 0 0 0 true) in
  trainable sb = true /\
  exists l, run_ops facts sb [OSaveLoad; OSaveLoad] = Some l /\ trainable l = true /\ loss_id l = 2
            /\ select (eqs l) [10; 20] = Some [20] /\ select (eqs sb) [10; 20] = Some [20].
Proof. cbv zeta. split; [reflexivity|]. eexists. split; [vm_compute; reflexivity|]. repeat split. Qed.
