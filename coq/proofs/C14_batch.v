(* C14: proofs about the BatchGenerator model (model/Batch.v). *)
From Coq Require Import List Arith ZArith Bool Lia.
Import ListNotations.
From ND.model Require Import Batch.

Section Row.
  Variable row : Type.
  Variable draw : nat -> list row.

  Notation st := (st row).
  Notation refill := (refill row draw).
  Notation get := (get row draw).
  Notation run := (run row draw).
  Notation draws := (draws row draw).
  Notation init := (init row draw).

  (* invariant: delivered ++ cached = all draws taken so far *)
  Definition Inv (delivered : list row) (s : st) : Prop :=
    delivered ++ cached s = draws (taken s).

  Lemma init_inv : Inv [] init.
  Proof. unfold Inv. reflexivity. Qed.

  Lemma refill_inv fuel size : forall s s' d,
      Inv d s -> refill fuel size s = Some s' -> Inv d s' /\ size <= length (cached s').
  Proof.
    induction fuel as [|f IH]; intros s s' d HI; cbn [Batch.refill].
    - destruct (Nat.ltb_spec (length (cached s)) size) as [Hlt|Hge]; [discriminate|].
      intros [= <-]; auto.
    - destruct (Nat.ltb_spec (length (cached s)) size) as [Hlt|Hge].
      + intros H'. apply (IH _ _ d) in H'; auto.
        unfold Inv in *; cbn [cached taken Batch.draws]. rewrite app_assoc, HI. reflexivity.
      + intros [= <-]; auto.
  Qed.

  Lemma get_inv fuel size s d out s' :
    Inv d s -> get fuel size s = Some (out, s') ->
    Inv (d ++ out) s' /\ length out = size.
  Proof.
    unfold Batch.get. intros HI.
    destruct (refill fuel size s) as [s1|] eqn:E; [|discriminate].
    intros [= <- <-]. destruct (refill_inv _ _ _ _ _ HI E) as [HI1 Hlen].
    split.
    - unfold Inv in *; cbn [cached taken]. rewrite <- app_assoc, firstn_skipn. exact HI1.
    - rewrite firstn_length. lia.
  Qed.

  Lemma run_prefix fuel size k : forall s d bs s',
      Inv d s -> run fuel size k s = Some (bs, s') ->
      Inv (d ++ concat bs) s' /\ Forall (fun b => length b = size) bs.
  Proof.
    induction k as [|k IH]; cbn [Batch.run]; intros s d bs s' HI.
    - intros [= <- <-]. cbn [concat]. rewrite app_nil_r. auto.
    - destruct (get fuel size s) as [[b s1]|] eqn:G; [|discriminate].
      destruct (run fuel size k s1) as [[bs1 s2]|] eqn:R; [|discriminate].
      intros [= <- <-]. destruct (get_inv _ _ _ _ _ _ HI G) as [HI1 Hl].
      destruct (IH _ _ _ _ HI1 R) as [HI2 Hall]. split.
      + cbn [concat]. rewrite app_assoc. exact HI2.
      + constructor; auto.
  Qed.

  (* the batches delivered by any number of calls, concatenated, followed by the cache, are
     exactly the draws taken: nothing lost, duplicated or reordered *)
  Theorem batch_inv fuel size k bs s' :
    run fuel size k init = Some (bs, s') ->
    concat bs ++ cached s' = draws (taken s').
  Proof.
    intros H. destruct (run_prefix fuel size k init [] bs s' init_inv H) as [HI _]. exact HI.
  Qed.

  Theorem batch_size_exact fuel size k bs s' :
    run fuel size k init = Some (bs, s') -> Forall (fun b => length b = size) bs.
  Proof.
    intros H. destruct (run_prefix fuel size k init [] bs s' init_inv H) as [_ Hall]. exact Hall.
  Qed.

  (* the cache never holds a full batch more than needed: a draw is taken only when the cache
     is short, so no draw is taken ahead of need *)
  Lemma refill_taken_mono fuel size : forall s s', refill fuel size s = Some s' -> taken s <= taken s'.
  Proof.
    induction fuel as [|f IH]; intros s s'; cbn [Batch.refill];
      destruct (Nat.ltb (length (cached s)) size); try discriminate.
    - intros [= <-]; lia.
    - intros H. apply IH in H. cbn [taken] in H. lia.
    - intros [= <-]; lia.
  Qed.

  (* ---- termination ---- *)
  (* general form: enough rows arrive within [fuel] further draws *)
  Lemma refill_terminates_gen fuel size : forall s,
      size <= length (cached s) + length (concat (map draw (seq (taken s) fuel))) ->
      exists s', refill fuel size s = Some s'.
  Proof.
    induction fuel as [|f IH]; intros s H; cbn [Batch.refill].
    - cbn in H. destruct (Nat.ltb_spec (length (cached s)) size) as [Hlt|Hge]; [lia|]. eauto.
    - destruct (Nat.ltb_spec (length (cached s)) size) as [Hlt|Hge]; [|eauto].
      apply IH. cbn [cached taken]. cbn [seq map concat] in H.
      rewrite app_length in *. lia.
  Qed.

  Lemma nonempty_concat_length (Hne : forall n, 1 <= length (draw n)) a f :
    f <= length (concat (map draw (seq a f))).
  Proof.
    revert a; induction f as [|f IH]; intros a; cbn [seq map concat]; [cbn; lia|].
    rewrite app_length. specialize (IH (S a)). specialize (Hne a). lia.
  Qed.

  Lemma refill_terminates (Hne : forall n, 1 <= length (draw n)) size s :
    exists s', refill size size s = Some s'.
  Proof.
    apply refill_terminates_gen. pose proof (nonempty_concat_length Hne (taken s) size). lia.
  Qed.

  Lemma get_terminates (Hne : forall n, 1 <= length (draw n)) size s :
    exists b s', get size size s = Some (b, s').
  Proof.
    unfold Batch.get. destruct (refill_terminates Hne size s) as [s1 E]. rewrite E. eauto.
  Qed.

  (* with non-empty draws, [size] refills per call always suffice: fuel is never exhausted *)
  Theorem batch_terminates (Hne : forall n, 1 <= length (draw n)) size k :
    forall s, exists bs s', run size size k s = Some (bs, s').
  Proof.
    induction k as [|k IH]; intros s; cbn [Batch.run]; [eauto|].
    destruct (get_terminates Hne size s) as [b [s1 G]]. rewrite G.
    destruct (IH s1) as [bs [s2 R]]. rewrite R. eauto.
  Qed.

  (* ... and the exclusion is necessary: an always-empty source never fills a batch, whatever the fuel
     (the real loop does not terminate) *)
  Lemma refill_empty_diverges (Hemp : forall n, draw n = []) size fuel :
    forall s, length (cached s) < size -> refill fuel size s = None.
  Proof.
    induction fuel as [|f IH]; intros s Hlt; cbn [Batch.refill];
      destruct (Nat.ltb_spec (length (cached s)) size) as [_|Hge]; try lia; [reflexivity|].
    apply IH. cbn [cached]. rewrite Hemp, app_nil_r. exact Hlt.
  Qed.

  Theorem empty_source_diverges (Hemp : forall n, draw n = []) size fuel :
    1 <= size -> get fuel size init = None.
  Proof.
    intros Hs. unfold Batch.get. rewrite refill_empty_diverges; auto.
    unfold Batch.init; cbn [cached]. rewrite Hemp. cbn. lia.
  Qed.
End Row.

(* ---- the column model (what the code literally does) is the transposition of the row model ---- *)
Section Cols.
  Variables row A : Type.
  Variable d : nat.
  Variable proj : nat -> row -> A.
  Hypothesis d_pos : 1 <= d.
  Variable draw : nat -> list row.

  Notation cols := (cols d proj).
  Notation cs_of := (cs_of d proj).
  Definition cdraw_of : nat -> list (list A) := fun n => cols (draw n).

  Lemma zip_app_cols a b : zip_app A (cols a) (cols b) = cols (a ++ b).
  Proof.
    unfold Batch.cols. generalize (seq 0 d) as js.
    induction js as [|j js IH]; cbn [map zip_app]; [reflexivity|].
    rewrite IH, map_app. reflexivity.
  Qed.

  Lemma hd_cols_length rs : length (hd [] (cols rs)) = length rs.
  Proof.
    unfold Batch.cols. destruct d as [|d']; [lia|].
    cbn [seq map hd]. apply map_length.
  Qed.

  Lemma firstn_cols n rs : map (firstn n) (cols rs) = cols (firstn n rs).
  Proof.
    unfold Batch.cols. rewrite map_map. apply map_ext. intros j. apply firstn_map.
  Qed.

  Lemma skipn_cols n rs : map (skipn n) (cols rs) = cols (skipn n rs).
  Proof.
    unfold Batch.cols. rewrite map_map. apply map_ext. intros j. apply skipn_map.
  Qed.

  Lemma cols_cons rs : exists c0 rest, cols rs = c0 :: rest /\ length c0 = length rs.
  Proof.
    unfold Batch.cols. destruct d as [|d']; [lia|].
    cbn [seq map]. eexists. eexists. split; [reflexivity|apply map_length].
  Qed.

  Lemma crefill_sim fuel size : forall s,
      crefill A cdraw_of fuel size (cs_of s) = option_map cs_of (refill row draw fuel size s).
  Proof.
    induction fuel as [|f IH]; intros s; cbn [crefill Batch.refill];
      destruct (cols_cons (cached s)) as [c0 [rest [Ec Hl]]];
      unfold Batch.cs_of at 1; cbn [ccached]; rewrite Ec, Hl;
      destruct (Nat.ltb (length (cached s)) size); try reflexivity.
    rewrite <- (IH {| cached := cached s ++ draw (taken s); taken := S (taken s) |}).
    f_equal. unfold Batch.cs_of, cdraw_of; cbn [ccached ctaken cached taken].
    rewrite zip_app_cols. reflexivity.
  Qed.

  Lemma cget_sim fuel size s :
    cget A cdraw_of fuel size (cs_of s) =
    option_map (fun p => (cols (fst p), cs_of (snd p))) (get row draw fuel size s).
  Proof.
    unfold cget, Batch.get. rewrite crefill_sim.
    destruct (refill row draw fuel size s) as [s1|]; cbn [option_map]; [|reflexivity].
    unfold Batch.cs_of; cbn [ccached ctaken cached taken fst snd].
    rewrite firstn_cols, skipn_cols. reflexivity.
  Qed.

  Lemma crun_sim fuel size k : forall s,
      crun A cdraw_of fuel size k (cs_of s) =
      option_map (fun p => (map cols (fst p), cs_of (snd p))) (run row draw fuel size k s).
  Proof.
    induction k as [|k IH]; intros s; cbn [crun Batch.run]; [reflexivity|].
    rewrite cget_sim. destruct (get row draw fuel size s) as [[b s1]|]; cbn [option_map fst snd]; [|reflexivity].
    rewrite IH. destruct (run row draw fuel size k s1) as [[bs s2]|]; reflexivity.
  Qed.

  (* slicing every dimension identically: per-dimension batches are the columns of the row batches *)
  Theorem columns_are_rows fuel size k :
    crun A cdraw_of fuel size k (cinit A cdraw_of) =
    option_map (fun p => (map cols (fst p), cs_of (snd p))) (run row draw fuel size k (init row draw)).
  Proof. exact (crun_sim fuel size k (init row draw)). Qed.
End Cols.

(* every well-formed column draw (d vectors of one length) is the transposition of a list of rows *)
Section Transpose.
  Variable A : Type.
  Variable dflt : A.
  Variable d : nat.

  Notation zproj := (Batch.zproj A dflt).

  Lemma nth_map_seq {B : Type} (f : nat -> B) n i (b0 : B) :
    i < n -> nth i (map f (seq 0 n)) b0 = f i.
  Proof.
    intros Hi. rewrite (nth_indep _ b0 (f 0)) by (rewrite map_length, seq_length; exact Hi).
    rewrite (map_nth f (seq 0 n) 0 i). rewrite seq_nth by exact Hi. reflexivity.
  Qed.

  Lemma cols_rows_of c : wf_cols d c -> cols d zproj (rows_of dflt d c) = c.
  Proof.
    intros [Hlen Hall]. unfold Batch.cols, rows_of.
    apply (nth_ext _ _ [] []).
    - rewrite map_length, seq_length. auto.
    - intros j Hj. rewrite map_length, seq_length in Hj.
      rewrite (nth_map_seq _ d j []) by exact Hj.
      rewrite map_map.
      assert (Hcol : length (nth j c []) = length (hd [] c)).
      { rewrite Forall_forall in Hall. apply Hall. apply nth_In. lia. }
      apply (nth_ext _ _ dflt dflt).
      + rewrite map_length, seq_length. auto.
      + intros i Hi. rewrite map_length, seq_length in Hi.
        rewrite (nth_map_seq _ _ i dflt) by exact Hi.
        unfold Batch.zproj. rewrite (nth_map_seq _ d j dflt) by exact Hj. reflexivity.
  Qed.
End Transpose.

(* the code-level statement: for ANY stream of well-formed column draws, the per-dimension
   batches of the column model are the transposition of row batches that satisfy the prefix
   property over the transposed draws *)
Section Final.
  Variable d : nat.
  Hypothesis d_pos : 1 <= d.
  Variable cdraw : nat -> list (list Z).
  Hypothesis cdraw_wf : forall n, wf_cols d (cdraw n).

  Definition rdraw : nat -> list (list Z) := fun n => rows_of 0%Z d (cdraw n).

  Lemma crun_ext (f g : nat -> list (list Z)) (E : forall n, f n = g n) fuel size k :
    forall s, crun Z f fuel size k s = crun Z g fuel size k s.
  Proof.
    assert (R : forall fu s, crefill Z f fu size s = crefill Z g fu size s).
    { induction fu as [|fu IH]; intros s; cbn [crefill]; [reflexivity|].
      destruct (ccached s) as [|c0 rest]; [reflexivity|]. rewrite E, IH. reflexivity. }
    induction k as [|k IH]; intros s; cbn [crun]; [reflexivity|].
    unfold cget. rewrite R. destruct (crefill Z g fuel size s) as [s1|]; [|reflexivity].
    rewrite IH. reflexivity.
  Qed.

  Theorem columns_stream fuel size k cbs cs' :
    crun Z cdraw fuel size k (cinit Z cdraw) = Some (cbs, cs') ->
    exists bs s',
      cbs = map (cols d (zproj Z 0%Z)) bs /\
      ccached cs' = cols d (zproj Z 0%Z) (cached s') /\ ctaken cs' = taken s' /\
      concat bs ++ cached s' = draws _ rdraw (taken s') /\
      Forall (fun b => length b = size) bs.
  Proof.
    intros H.
    assert (E : forall n, cdraw n = cdraw_of _ _ d (zproj Z 0%Z) rdraw n).
    { intros n. unfold cdraw_of, rdraw. symmetry. apply cols_rows_of. apply cdraw_wf. }
    assert (E0 : cinit Z cdraw = cs_of d (zproj Z 0%Z) (init _ rdraw)).
    { unfold cinit, Batch.cs_of, Batch.init; cbn [cached taken]. rewrite E. reflexivity. }
    rewrite (crun_ext _ _ E), E0, crun_sim in H by exact d_pos.
    destruct (run _ rdraw fuel size k (init _ rdraw)) as [[bs s']|] eqn:R; [|discriminate].
    cbn [option_map fst snd] in H. injection H as <- <-.
    exists bs, s'. repeat split.
    - exact (batch_inv _ _ _ _ _ _ _ R).
    - exact (batch_size_exact _ _ _ _ _ _ _ R).
  Qed.
End Final.

(* ---- non-vacuity: the premises are satisfiable and the model computes ---- *)
Example ex_draw : nat -> list (list Z) := fun n => [[Z.of_nat (10 * n); Z.of_nat (10 * n + 1); Z.of_nat (10 * n + 2)];
                                                   [Z.of_nat (10 * n + 5); Z.of_nat (10 * n + 6); Z.of_nat (10 * n + 7)]].
Example ex_wf : forall n, wf_cols 2 (ex_draw n).
Proof. intros n. split; [reflexivity|]. repeat constructor. Qed.
Example ex_run :
  option_map fst (crun Z ex_draw 2 2 3 (cinit Z ex_draw)) =
  Some [ [[0;1];[5;6]]; [[2;10];[7;15]]; [[11;12];[16;17]] ]%Z.
Proof. vm_compute. reflexivity. Qed.
Example ex_nonempty : forall n, 1 <= length (rows_of 0%Z 2 (ex_draw n)).
Proof. intros n. cbn. lia. Qed.
