(* C07 — finite facts about the regenerated method table gen/Gen_C07.v : each is a boolean
   check evaluated by vm_compute over the whole table and lifted with forallb_forall. *)
From Coq Require Import Reals List String Bool Arith.
From ND.lib Require Import Expr.
From ND.model Require Import AtomicGen.
From ND.gen Require Import Gen_C07.
Import ListNotations.

(* every accepted method has a callable getter returning `dim`
   tensors of length `size`, each flagged requires_grad *)
Lemma table_total_b : forallb (fun e => entry_total e) table = true.
Proof. vm_compute. reflexivity. Qed.

Lemma table_total e : In e table ->
  e_getter e = GetLambda /\ List.length (e_tensors e) = dim (e_cls e)
  /\ forall t, In t (e_tensors e) -> t_len_ok t = true /\ t_rg t = true.
Proof.
  intros Hin. pose proof (proj1 (forallb_forall _ _) table_total_b e Hin) as H.
  cbv beta in H. unfold entry_total in H.
  apply andb_prop in H. destruct H as [H Ht]. apply andb_prop in H. destruct H as [Hg Hl].
  repeat split.
  - destruct (e_getter e); [reflexivity | discriminate | discriminate].
  - now apply Nat.eqb_eq.
  - pose proof (proj1 (forallb_forall _ _) Ht t H) as Hk. unfold tensor_ok in Hk. now apply andb_prop in Hk.
  - pose proof (proj1 (forallb_forall _ _) Ht t H) as Hk. unfold tensor_ok in Hk. now apply andb_prop in Hk.
Qed.

(* the table is not empty and covers the five classes *)
Example table_nonempty :
  forallb (fun c => Nat.leb 2 (List.length (filter (fun e => gclass_eqb (e_cls e) c) table))) [G1D; G2D; G3D; GND; GSph] = true
  /\ Nat.leb 30 (List.length table) = true.
Proof. vm_compute. split; reflexivity. Qed.

(* deterministic methods make no RNG call at all and return stored tensors; noisy methods and
   1-D uniform sampling draw inside get_examples() and the draw reaches every returned tensor;
   every method string is one the property classifies *)
Lemma static_vs_fresh_b : forallb (fun e => meets e) table = true.
Proof. vm_compute. reflexivity. Qed.

Lemma static_vs_fresh e : In e table -> meets e = true.
Proof. intros Hin. exact (proj1 (forallb_forall _ _) static_vs_fresh_b e Hin). Qed.

Lemma meets_static e : meets e = true -> requirement_of (e_cls e) (e_method e) (e_noisy e) = MustStatic ->
  e_call_rng e = [] /\ e_ctor_rng e = [] /\ forall t, In t (e_tensors e) -> t_fresh t = false /\ t_rand t = false.
Proof.
  unfold meets. intros H R. rewrite R in H.
  apply andb_prop in H. destruct H as [H Ht]. apply andb_prop in H. destruct H as [Hc Hk].
  repeat split.
  - destruct (e_call_rng e); [reflexivity | discriminate].
  - destruct (e_ctor_rng e); [reflexivity | discriminate].
  - pose proof (proj1 (forallb_forall _ _) Ht t H) as Hx. apply andb_prop in Hx. now apply negb_true_iff.
  - pose proof (proj1 (forallb_forall _ _) Ht t H) as Hx. apply andb_prop in Hx. now apply negb_true_iff.
Qed.

Lemma meets_fresh e : meets e = true -> requirement_of (e_cls e) (e_method e) (e_noisy e) = MustFresh ->
  e_call_rng e <> [] /\ forall t, In t (e_tensors e) -> t_fresh t = true.
Proof.
  unfold meets. intros H R. rewrite R in H. apply andb_prop in H. destruct H as [Hc Ht]. split.
  - destruct (e_call_rng e); [discriminate | discriminate].
  - intros t Hin. exact (proj1 (forallb_forall _ _) Ht t Hin).
Qed.

Example requirement_examples :
  requirement_of G1D "uniform" false = MustFresh /\ requirement_of G2D "equally-spaced" false = MustStatic
  /\ requirement_of G3D "equally-spaced-noisy" false = MustFresh /\ requirement_of GND "chebyshev2" true = MustFresh
  /\ requirement_of G1D "no-such-method" false = UnknownMethod.
Proof. repeat split; reflexivity. Qed.

(* grid classes: meshgrid(indexing='ij') + flatten, arguments in axis order *)
Lemma grid_table_b : forallb (fun e => grid_ok e) table = true.
Proof. vm_compute. reflexivity. Qed.

Lemma grid_table e : In e table -> grid_ok e = true.
Proof. intros Hin. exact (proj1 (forallb_forall _ _) grid_table_b e Hin). Qed.

(* every noise-free, unwrapped tensor formula of a non-spherical entry is listed in det_terms
   with the entry's positivity guard *)
Definition covered (e : entry) (t : tinfo) : bool :=
  t_noise t || match t_wrap t with WNone => false | _ => true end || gclass_eqb (e_cls e) GSph
  || existsb (fun p => expr_eqb (t_term t) (fst p) && Bool.eqb (e_pos_guard e) (snd p)) det_terms.

Lemma det_cover_b : forallb (fun e => forallb (covered e) (e_tensors e)) table = true.
Proof. vm_compute. reflexivity. Qed.

Lemma expr_eqb_eq : forall e1 e2, expr_eqb e1 e2 = true -> e1 = e2.
Proof.
  assert (Hl : forall l1 l2, list_eqb Nat.eqb l1 l2 = true -> l1 = l2).
  { induction l1 as [|a l1 IH]; destruct l2 as [|b l2]; cbn [list_eqb]; intros H; try discriminate; [reflexivity|].
    apply andb_prop in H. destruct H as [H1 H2]. apply Nat.eqb_eq in H1. subst. f_equal. now apply IH. }
  assert (Ha : forall l1 l2, list_eqb arg_eqb l1 l2 = true -> l1 = l2).
  { induction l1 as [|a l1 IH]; destruct l2 as [|b l2]; cbn [list_eqb]; intros H; try discriminate; [reflexivity|].
    apply andb_prop in H. destruct H as [H1 H2]. f_equal; [|now apply IH].
    destruct a, b; cbn [arg_eqb] in H1; try discriminate; apply Nat.eqb_eq in H1; now subst. }
  induction e1; destruct e2; cbn [expr_eqb]; intros H; try discriminate;
    repeat match goal with
    | H : (_ && _)%bool = true |- _ => apply andb_prop in H; destruct H
    | H : Nat.eqb _ _ = true |- _ => apply Nat.eqb_eq in H
    | H : Z.eqb _ _ = true |- _ => apply Z.eqb_eq in H
    | H : Pos.eqb _ _ = true |- _ => apply Pos.eqb_eq in H
    end; subst; f_equal; auto.
Qed.

Lemma det_cover e t : In e table -> In t (e_tensors e) -> t_noise t = false -> t_wrap t = WNone -> e_cls e <> GSph ->
  In (t_term t, e_pos_guard e) det_terms.
Proof.
  intros He Ht Hn Hw Hc.
  pose proof (proj1 (forallb_forall _ _) det_cover_b e He) as H1. cbv beta in H1.
  pose proof (proj1 (forallb_forall _ _) H1 t Ht) as H2. unfold covered in H2.
  rewrite Hn, Hw in H2. cbn [orb] in H2.
  destruct (gclass_eqb (e_cls e) GSph) eqn:E.
  - destruct (e_cls e); try discriminate. now elim Hc.
  - cbn [orb] in H2. apply existsb_exists in H2. destruct H2 as [[tt g] [Hin Heq]].
    apply andb_prop in Heq. destruct Heq as [H3 H4]. cbn [fst snd] in *.
    apply expr_eqb_eq in H3. apply eqb_prop in H4. now rewrite H3, H4.
Qed.
