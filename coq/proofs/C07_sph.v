(* C07 -- GeneratorSpherical: r in [r_min, r_max], phi in [0, 2 pi), theta = acos(clamp(z, -1, 1))
   defined and in [0, pi] for every draw (denom = max(a + b + c, tiny) > 0 since commit f2992d2).  (Before commit 75057c3 the argument
   of acos was z itself, which exceeds 1 when a, b are ~0: finding F8, now fixed.)
   The formulas are the regenerated ones (gen/Gen_C07.v, modules GSph_xxx). *)
From Coq Require Import Reals List String Bool Arith Lia Lra Field.
From ND.lib Require Import Expr Tac.
From ND.model Require Import AtomicGen.
From ND.gen Require Import Gen_C07.
Import ListNotations.
Open Scope R_scope.

Module S2 := GSph_equally_spaced_noisy.
Module S1 := GSph_equally_radius_noisy.

(* structure of the returned triple: (r, acos(clamp(z, -1, 1)), -atan2(y, x) + pi), for both methods *)
Lemma sph_structure :
  map t_wrap (e_tensors S2.entry) = [WNone; WAcosClamp (ECst (-1)) (ECst 1); WPhi S2.aux_2_0 S2.aux_2_1]
  /\ map t_wrap (e_tensors S1.entry) = [WNone; WAcosClamp (ECst (-1)) (ECst 1); WPhi S1.aux_2_0 S1.aux_2_1]
  /\ S1.term_1 = S2.term_1 /\ S1.term_2 = S2.term_2 /\ S1.aux_2_0 = S2.aux_2_0 /\ S1.aux_2_1 = S2.aux_2_1.
Proof. repeat split; reflexivity. Qed.

Lemma clamp_bounds x lo hi : lo <= hi -> lo <= clamp x lo hi <= hi.
Proof. intros H. unfold clamp, Rmax, Rmin. destruct (Rle_dec x lo); destruct (Rle_dec _ hi); lra. Qed.

Lemma clamp_id x lo hi : lo <= x <= hi -> clamp x lo hi = x.
Proof. intros H. unfold clamp, Rmax, Rmin. destruct (Rle_dec x lo); destruct (Rle_dec _ hi); lra. Qed.

Section Sph.
  Variables (venv penv : nat -> R) (fenv : nat -> list nat -> list R -> R).
  Hypothesis Hmin : 0 <= penv p_a.                (* the constructor rejects r_min < 0 ... *)
  Hypothesis Hmax : penv p_a <= penv p_b.         (* ... and r_max < r_min *)
  Hypothesis Hu0 : 0 <= venv v_u0 < 1.

  (* r^2 uniform in [r_min^2, r_max^2] *)
  Lemma sph_r_range_spaced :
    defined venv penv fenv S2.term_0 /\ penv p_a <= eval venv penv fenv S2.term_0 <= penv p_b.
  Proof.
    cbn [defined eval S2.term_0]. cbv [v_u0 p_a p_b] in *.
    set (a := penv 0%nat) in *; set (b := penv 1%nat) in *; set (u := venv 1%nat) in *.
    assert (Hd : 0 <= b ^ 2 - a ^ 2) by nra.
    assert (Hdu : 0 <= (b ^ 2 - a ^ 2) * u) by (apply Rmult_le_pos; lra).
    assert (Hdu1 : (b ^ 2 - a ^ 2) * u <= (b ^ 2 - a ^ 2) * 1) by (apply Rmult_le_compat_l; lra).
    assert (Hlo : a ^ 2 <= (b ^ 2 - a ^ 2) * u + a ^ 2) by lra.
    assert (Hhi : (b ^ 2 - a ^ 2) * u + a ^ 2 <= b ^ 2) by lra.
    assert (H0 : 0 <= a ^ 2) by nra.
    repeat split; auto; try lra.
    - rewrite <- (sqrt_pow2 a Hmin) at 1. apply sqrt_le_1_alt. exact Hlo.
    - rewrite <- (sqrt_pow2 b) at 2 by lra. apply sqrt_le_1_alt. exact Hhi.
  Qed.

  (* r uniform in [r_min, r_max] *)
  Lemma sph_r_range_radius :
    defined venv penv fenv S1.term_0 /\ penv p_a <= eval venv penv fenv S1.term_0 <= penv p_b.
  Proof.
    cbn [defined eval S1.term_0]. cbv [v_u0 p_a p_b] in *.
    repeat split; auto; nra.
  Qed.
End Sph.

(* the guarded denominator is positive: denom = Rmax (a + b + c) tiny with tiny > 0 *)
Lemma denom_def :
  e_defs S2.entry = [(v_denom, S2.def_0_arg, S2.def_0_lo)] /\ e_defs S1.entry = [(v_denom, S1.def_0_arg, S1.def_0_lo)]
  /\ S2.def_0_lo = EPar p_tiny /\ S1.def_0_arg = S2.def_0_arg /\ S1.def_0_lo = S2.def_0_lo.
Proof. repeat split; reflexivity. Qed.

Section Angles.
  Variables (venv penv : nat -> R) (fenv : nat -> list nat -> list R -> R).
  Hypothesis Hu0 : 0 <= venv v_u0 < 1.
  Hypothesis Hu1 : 0 <= venv v_u1 < 1.
  Hypothesis Hu2 : 0 <= venv v_u2 < 1.
  Hypothesis Hs0 : venv v_s0 = 0 \/ venv v_s0 = 1.       (* torch.randint(0, 2) *)
  Hypothesis Htiny : 0 < penv p_tiny.                    (* torch.finfo(dtype).tiny *)
  (* denom = torch.clamp(a + b + c, min=tiny) *)
  Hypothesis Hden : venv v_denom = Rmax (eval venv penv fenv S2.def_0_arg) (eval venv penv fenv S2.def_0_lo).

  Lemma denom_pos : 0 < venv v_denom.
  Proof.
    rewrite Hden. cbn [eval S2.def_0_lo].
    pose proof (Rmax_r (eval venv penv fenv S2.def_0_arg) (penv p_tiny)). lra.
  Qed.

  (* when a + b + c >= tiny (always, unless all three draws are 0) the guard is the identity *)
  Lemma denom_generic : penv p_tiny <= venv v_u0 + venv v_u1 + venv v_u2 ->
    venv v_denom = venv v_u0 + venv v_u1 + venv v_u2.
  Proof. intros H. rewrite Hden. cbn [eval S2.def_0_arg S2.def_0_lo]. now apply Rmax_left. Qed.

  (* theta = acos(clamp(z, -1, 1)): z is defined, the argument of acos lies in [-1, 1] and
     theta in [0, pi], for EVERY draw a, b, c in [0,1) and either sign *)
  Lemma sph_theta :
    defined venv penv fenv S2.term_1
    /\ -1 <= clamp (eval venv penv fenv S2.term_1) (-1) 1 <= 1
    /\ 0 <= acos (clamp (eval venv penv fenv S2.term_1) (-1) 1) <= PI.
  Proof.
    pose proof denom_pos as Hd.
    split; [|split; [|apply acos_bound]].
    - cbn [defined eval S2.term_1]. cbv [v_u0 v_u1 v_u2 v_s0 v_denom] in *.
      assert (Hq : 0 <= venv 3%nat / venv 9%nat) by (apply Rmult_le_pos; [lra | left; apply Rinv_0_lt_compat; lra]).
      repeat split; auto; lra.
    - apply clamp_bounds. lra.
  Qed.

  (* where the clamp is the identity (the generic case), theta = acos z *)
  Lemma sph_theta_unclamped :
    sqrt (venv v_u2 / venv v_denom) + 1 / 1000000 <= 1 ->
    clamp (eval venv penv fenv S2.term_1) (-1) 1 = eval venv penv fenv S2.term_1.
  Proof.
    intros Hle. pose proof denom_pos as Hd. cbn [eval S2.term_1]. cbv [v_u0 v_u1 v_u2 v_s0 v_denom] in *.
    assert (Hq : 0 <= venv 3%nat / venv 9%nat) by (apply Rmult_le_pos; [lra | left; apply Rinv_0_lt_compat; lra]).
    pose proof (sqrt_positivity _ Hq) as Hsq.
    apply clamp_id. destruct Hs0 as [-> | ->]; lra.
  Qed.

  (* phi = -atan2(y, x) + pi with atan2 in (-pi, pi] *)
  Variable atan2 : R -> R -> R.
  Hypothesis atan2_range : forall y x, - PI < atan2 y x <= PI.
  Hypothesis Hatan : venv v_atan = atan2 (eval venv penv fenv S2.aux_2_0) (eval venv penv fenv S2.aux_2_1).
  Hypothesis Hpi : penv p_pi = PI.

  Lemma sph_phi_range : 0 <= eval venv penv fenv S2.term_2 < 2 * PI.
  Proof.
    cbn [eval S2.term_2]. rewrite Hatan, Hpi.
    pose proof (atan2_range (eval venv penv fenv S2.aux_2_0) (eval venv penv fenv S2.aux_2_1)). lra.
  Qed.

  (* the arguments of atan2 are defined and non-zero (|x|, |y| >= 1e-6), for every draw *)
  Lemma sph_atan2_args (Hs1 : venv v_s1 = 0 \/ venv v_s1 = 1) :
    defined venv penv fenv S2.aux_2_0 /\ defined venv penv fenv S2.aux_2_1
    /\ eval venv penv fenv S2.aux_2_0 <> 0 /\ eval venv penv fenv S2.aux_2_1 <> 0.
  Proof.
    pose proof denom_pos as Hd.
    cbn [defined eval S2.aux_2_0 S2.aux_2_1]. cbv [v_u0 v_u1 v_u2 v_s0 v_s1 v_denom] in *.
    assert (Hq1 : 0 <= venv 2%nat / venv 9%nat) by (apply Rmult_le_pos; [lra | left; apply Rinv_0_lt_compat; lra]).
    assert (Hq0 : 0 <= venv 1%nat / venv 9%nat) by (apply Rmult_le_pos; [lra | left; apply Rinv_0_lt_compat; lra]).
    pose proof (sqrt_positivity _ Hq1). pose proof (sqrt_positivity _ Hq0).
    repeat split; auto; try lra.
    - destruct Hs1 as [-> | ->]; nra.
    - destruct Hs0 as [-> | ->]; nra.
  Qed.
End Angles.

(* non-vacuity: the hypotheses hold at a = b = c = 0 (denom = tiny) and at a = b = c = 1/2 *)
Example angles_premises_at_zero :
  let venv := fun v : nat => if Nat.eqb v v_denom then 1 / 4 else 0 in
  let penv := fun p : nat => if Nat.eqb p p_tiny then 1 / 4 else 0 in
  venv v_denom = Rmax (eval venv penv (fun _ _ _ => 0) S2.def_0_arg) (eval venv penv (fun _ _ _ => 0) S2.def_0_lo).
Proof.
  cbn [eval S2.def_0_arg S2.def_0_lo Nat.eqb v_denom v_u0 v_u1 v_u2 p_tiny].
  rewrite Rmax_right; lra.
Qed.

(* non-vacuity of sph_theta_unclamped: a = b = c = 1/2 gives sqrt(1/3) + 1e-6 <= 1 *)
Example theta_premise_satisfiable : sqrt ((1 / 2) / (1 / 2 + 1 / 2 + 1 / 2)) + 1 / 1000000 <= 1.
Proof.
  replace ((1 / 2) / (1 / 2 + 1 / 2 + 1 / 2)) with (1 / 3) by field.
  assert (sqrt (1 / 3) <= sqrt 1) by (apply sqrt_le_1_alt; lra). rewrite sqrt_1 in H.
  assert (sqrt (1 / 3) * sqrt (1 / 3) = 1 / 3) by (apply sqrt_sqrt; lra).
  assert (0 <= sqrt (1 / 3)) by (apply sqrt_positivity; lra). nra.
Qed.

(* the clamp matters: at a = b = 0, c = 1/2, sign +1 the unclamped argument is 1 + 1e-6 *)
Example clamp_active : clamp (1 + 1 / 1000000) (-1) 1 = 1.
Proof. unfold clamp, Rmax, Rmin. destruct (Rle_dec (1 + 1 / 1000000) (-1)); destruct (Rle_dec _ 1); lra. Qed.
