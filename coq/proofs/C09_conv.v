(* C09 — the coordinate conversion helpers are mutual inverses (angles compared through
   (cos, sin), i.e. modulo 2 pi) and follow the documented ranges.  torch.atan2 is a Section
   variable with its defining contract as hypotheses; at the end the contract is discharged for the
   concrete lib/Atan2.atan2 (the Reals library has no atan2 of its own). *)
From Coq Require Import Reals List Lra Lia ZArith Field.
From ND.lib Require Import Expr Tac.
From ND.gen Require Import Gen_C09.
Import ListNotations.
Open Scope R_scope.

Definition env3 (a b c : R) : nat -> R := fun k => match k with 0%nat => a | 1%nat => b | _ => c end.

Lemma sqrt_mul_self a : 0 <= a -> sqrt (a * a) = a.
Proof. apply sqrt_square. Qed.

Section Conv.
  Variable atan2 : R -> R -> R.          (* atan2 y x, argument order of torch.atan2 *)
  Hypothesis atan2_cos : forall y x, x * x + y * y <> 0 -> cos (atan2 y x) = x / sqrt (x * x + y * y).
  Hypothesis atan2_sin : forall y x, x * x + y * y <> 0 -> sin (atan2 y x) = y / sqrt (x * x + y * y).
  Hypothesis atan2_range : forall y x, - PI < atan2 y x <= PI.
  Hypothesis atan2_upper : forall y x, 0 <= y -> 0 <= atan2 y x.

  Variable penv : nat -> R.
  Variable fenv : nat -> list nat -> list R -> R.

  (* cartesian -> spherical, as the code computes it from the generated argument terms *)
  Definition c2s (xyz : nat -> R) : nat -> R :=
    let ev := eval xyz penv fenv in
    env3 (ev cartesian_to_spherical.term_0)
         (atan2 (ev cartesian_to_spherical.term_1) (ev cartesian_to_spherical.term_2))
         (atan2 (ev cartesian_to_spherical.term_3) (ev cartesian_to_spherical.term_4)).
  Definition s2c (sph : nat -> R) : nat -> R :=
    let ev := eval sph penv fenv in
    env3 (ev spherical_to_cartesian.term_0) (ev spherical_to_cartesian.term_1) (ev spherical_to_cartesian.term_2).
  Definition c2cyl (xyz : nat -> R) : nat -> R :=
    let ev := eval xyz penv fenv in
    env3 (ev cartesian_to_cylindrical.term_0)
         (atan2 (ev cartesian_to_cylindrical.term_1) (ev cartesian_to_cylindrical.term_2))
         (ev cartesian_to_cylindrical.term_3).
  Definition cyl2c (cyl : nat -> R) : nat -> R :=
    let ev := eval cyl penv fenv in
    env3 (ev cylindrical_to_cartesian.term_0) (ev cylindrical_to_cartesian.term_1) (ev cylindrical_to_cartesian.term_2).

  (* spherical_to_cartesian (cartesian_to_spherical p) = p, off the z axis *)
  Lemma s2c_c2s x y z : x * x + y * y <> 0 ->
    let q := s2c (c2s (env3 x y z)) in q 0%nat = x /\ q 1%nat = y /\ q 2%nat = z.
  Proof.
    intros Hxy. cbv zeta. unfold s2c, c2s. cbv beta zeta. reduce_eval. cbv [env3].
    assert (Hp : 0 < x * x + y * y) by nra.
    replace (x ^ 2 + y ^ 2) with (x * x + y * y) by ring.
    set (rho2 := x * x + y * y) in *.
    assert (Hrho : 0 < sqrt rho2) by (apply sqrt_lt_R0; exact Hp).
    assert (Hrr : sqrt rho2 * sqrt rho2 = rho2) by (apply sqrt_sqrt; lra).
    replace (rho2 + z ^ 2) with (z * z + sqrt rho2 * sqrt rho2) by (rewrite Hrr; ring).
    set (r2 := z * z + sqrt rho2 * sqrt rho2).
    assert (Hr2 : 0 < r2) by (unfold r2; nra).
    assert (Hr : 0 < sqrt r2) by (apply sqrt_lt_R0; exact Hr2).
    rewrite !atan2_sin, !atan2_cos by (fold r2; fold rho2; lra).
    fold r2. fold rho2.
    repeat split; field; lra.
  Qed.

  (* cartesian_to_spherical (spherical_to_cartesian q) = q for r > 0, 0 < theta < pi;
     angles modulo 2 pi *)
  Lemma c2s_s2c r th ph : 0 < r -> 0 < sin th ->
    let q := c2s (s2c (env3 r th ph)) in
    q 0%nat = r /\ cos (q 1%nat) = cos th /\ sin (q 1%nat) = sin th /\
    cos (q 2%nat) = cos ph /\ sin (q 2%nat) = sin ph.
  Proof.
    intros Hr Hs. cbv zeta. unfold s2c, c2s. cbv beta zeta. reduce_eval. cbv [env3].
    generalize (sc2 th) (sc2 ph).
    set (s := sin th) in *. set (c := cos th). set (sp := sin ph). set (cp := cos ph).
    intros H1 H2.
    assert (Hrho2 : (r * s * cp) ^ 2 + (r * s * sp) ^ 2 = (r * s) * (r * s)) by (ring [H2]).
    assert (Hrs : 0 < r * s) by nra.
    rewrite Hrho2. rewrite (sqrt_mul_self (r * s)) by lra.
    assert (Hr2 : (r * s) * (r * s) + (r * c) ^ 2 = r * r) by (ring [H1]).
    rewrite Hr2. rewrite (sqrt_mul_self r) by lra.
    assert (Hq1 : r * c * (r * c) + r * s * (r * s) = r * r) by (ring [H1]).
    assert (Hq2 : r * s * cp * (r * s * cp) + r * s * sp * (r * s * sp) = (r * s) * (r * s)) by (ring [H2]).
    rewrite !atan2_cos, !atan2_sin by (rewrite ?Hq1, ?Hq2; nra).
    rewrite Hq1, Hq2. rewrite (sqrt_mul_self r), (sqrt_mul_self (r * s)) by lra.
    repeat split; try reflexivity; field; lra.
  Qed.

  (* documented ranges: r >= 0, theta in [0, pi], phi in (-pi, pi] *)
  Lemma c2s_ranges x y z :
    let q := c2s (env3 x y z) in 0 <= q 0%nat /\ 0 <= q 1%nat <= PI /\ - PI < q 2%nat <= PI.
  Proof.
    cbv zeta. unfold c2s. cbv beta zeta. reduce_eval. cbv [env3].
    split; [apply sqrt_pos|]. split.
    - split; [apply atan2_upper, sqrt_pos | apply atan2_range].
    - apply atan2_range.
  Qed.

  (* cylindrical *)
  Lemma cyl2c_c2cyl x y z : x * x + y * y <> 0 ->
    let q := cyl2c (c2cyl (env3 x y z)) in q 0%nat = x /\ q 1%nat = y /\ q 2%nat = z.
  Proof.
    intros Hxy. cbv zeta. unfold cyl2c, c2cyl. cbv beta zeta. reduce_eval. cbv [env3].
    assert (Hp : 0 < x * x + y * y) by nra.
    replace (x ^ 2 + y ^ 2) with (x * x + y * y) by ring.
    assert (Hrho : 0 < sqrt (x * x + y * y)) by (apply sqrt_lt_R0; exact Hp).
    rewrite atan2_sin, atan2_cos by lra.
    repeat split; try reflexivity; field; lra.
  Qed.

  Lemma c2cyl_cyl2c rho ph z : 0 < rho ->
    let q := c2cyl (cyl2c (env3 rho ph z)) in
    q 0%nat = rho /\ cos (q 1%nat) = cos ph /\ sin (q 1%nat) = sin ph /\ q 2%nat = z.
  Proof.
    intros Hr. cbv zeta. unfold cyl2c, c2cyl. cbv beta zeta. reduce_eval. cbv [env3].
    generalize (sc2 ph). set (sp := sin ph). set (cp := cos ph). intros H2.
    assert (Hq : (rho * cp) ^ 2 + (rho * sp) ^ 2 = rho * rho) by (ring [H2]).
    assert (Hq2 : rho * cp * (rho * cp) + rho * sp * (rho * sp) = rho * rho) by (ring [H2]).
    rewrite Hq. rewrite (sqrt_mul_self rho) by lra.
    rewrite atan2_cos, atan2_sin by (rewrite Hq2; nra).
    rewrite Hq2, (sqrt_mul_self rho) by lra.
    repeat split; try reflexivity; field; lra.
  Qed.

  Lemma c2cyl_ranges x y z :
    let q := c2cyl (env3 x y z) in 0 <= q 0%nat /\ - PI < q 1%nat <= PI.
  Proof.
    cbv zeta. unfold c2cyl. cbv beta zeta. reduce_eval. cbv [env3].
    split; [apply sqrt_pos | apply atan2_range].
  Qed.
End Conv.

(* The atan2 contract is satisfiable: lib/Atan2.v defines a two-argument arctangent over the Coq reals and
   proves the four contract clauses, so the conversion theorems hold without any hypothesis about atan2 for
   that function (the remaining assumption is only that torch.atan2 computes it up to rounding, which the
   harness samples on every run). *)
From ND.lib Require Atan2.

Section Concrete.
  Variable penv : nat -> R.
  Variable fenv : nat -> list nat -> list R -> R.
  Local Notation A := Atan2.atan2.

  Theorem s2c_c2s_atan2 x y z : x * x + y * y <> 0 ->
    let q := s2c penv fenv (c2s A penv fenv (env3 x y z)) in q 0%nat = x /\ q 1%nat = y /\ q 2%nat = z.
  Proof. apply s2c_c2s; [exact Atan2.atan2_cos | exact Atan2.atan2_sin]. Qed.

  Theorem c2s_s2c_atan2 r th ph : 0 < r -> 0 < sin th ->
    let q := c2s A penv fenv (s2c penv fenv (env3 r th ph)) in
    q 0%nat = r /\ cos (q 1%nat) = cos th /\ sin (q 1%nat) = sin th /\
    cos (q 2%nat) = cos ph /\ sin (q 2%nat) = sin ph.
  Proof. apply c2s_s2c; [exact Atan2.atan2_cos | exact Atan2.atan2_sin]. Qed.

  Theorem c2s_ranges_atan2 x y z :
    let q := c2s A penv fenv (env3 x y z) in 0 <= q 0%nat /\ 0 <= q 1%nat <= PI /\ - PI < q 2%nat <= PI.
  Proof. apply c2s_ranges; [exact Atan2.atan2_range | exact Atan2.atan2_upper]. Qed.

  Theorem cyl2c_c2cyl_atan2 x y z : x * x + y * y <> 0 ->
    let q := cyl2c penv fenv (c2cyl A penv fenv (env3 x y z)) in q 0%nat = x /\ q 1%nat = y /\ q 2%nat = z.
  Proof. apply cyl2c_c2cyl; [exact Atan2.atan2_cos | exact Atan2.atan2_sin]. Qed.

  Theorem c2cyl_cyl2c_atan2 rho ph z : 0 < rho ->
    let q := c2cyl A penv fenv (cyl2c penv fenv (env3 rho ph z)) in
    q 0%nat = rho /\ cos (q 1%nat) = cos ph /\ sin (q 1%nat) = sin ph /\ q 2%nat = z.
  Proof. apply c2cyl_cyl2c; [exact Atan2.atan2_cos | exact Atan2.atan2_sin]. Qed.

  Theorem c2cyl_ranges_atan2 x y z :
    let q := c2cyl A penv fenv (env3 x y z) in 0 <= q 0%nat /\ - PI < q 1%nat <= PI.
  Proof. apply c2cyl_ranges; exact Atan2.atan2_range. Qed.

  (* with theta in the open interval (0, pi) the spherical round trip recovers the angle itself, not only
     its cosine and sine: both lie in [0, pi] where cos is injective *)
  Theorem c2s_s2c_theta_exact r th ph : 0 < r -> 0 < th < PI ->
    c2s A penv fenv (s2c penv fenv (env3 r th ph)) 1%nat = th.
  Proof.
    intros Hr Hth. assert (Hs : 0 < sin th) by (apply sin_gt_0; lra).
    destruct (c2s_s2c_atan2 r th ph Hr Hs) as (_ & Hc & _).
    destruct (c2s_ranges_atan2 (s2c penv fenv (env3 r th ph) 0%nat) (s2c penv fenv (env3 r th ph) 1%nat) (s2c penv fenv (env3 r th ph) 2%nat)) as (_ & Hrange & _).
    cbv zeta in Hc.
    apply cos_inj; [ | lra | exact Hc].
    cbv zeta in Hrange. unfold c2s in *. cbv beta zeta in *. cbn [env3] in *. exact Hrange.
  Qed.
End Concrete.
