(* C13: the definitions GENERATED from the source of the combinator classes (gen/Gen_C13.v:
   constructor-time size arithmetic and flattening, StaticGenerator caching, the list code of
   FilterGenerator.get_examples and ResampleGenerator.get_examples) equal the corresponding parts
   of the hand model model/GenComb.v, for all arguments. *)
From Coq Require Import List Arith ZArith Bool Lia.
Import ListNotations.
From ND.model Require Import PySem Batch GenComb.
From ND.gen Require Import Gen_C13.

(* a get_examples() value as the model holds it: (container, vectors) *)
Definition out_of_pyv (v : pyv) : out :=
  match v with PT t => (FT, [t]) | PL l => (FL, l) | PU l => (FU, l) end.

Lemma snd_out_of_pyv v : snd (out_of_pyv v) = cols_of v.
Proof. destruct v; reflexivity. Qed.

(* ---- the two copies of the list helpers agree *)
Lemma mask_select_eq {T : Type} (mk : list bool) (xs : list T) : mask_select mk xs = select mk xs.
Proof. reflexivity. Qed.

Lemma all_some'_eq {T : Type} (l : list (option T)) : all_some' l = all_some l.
Proof. reflexivity. Qed.

Lemma index_vec_eq idx x : index_vec idx x = gather idx x.
Proof. reflexivity. Qed.

Lemma existsb_negb {A : Type} (p : A -> bool) l : existsb (fun x => negb (p x)) l = negb (forallb p l).
Proof.
  induction l as [|x l IH]; [reflexivity|]. cbn [existsb forallb]. rewrite IH, negb_andb. reflexivity.
Qed.

Lemma flat_map_map {A B C : Type} (f : B -> list C) (g : A -> B) l : flat_map f (map g l) = flat_map (fun x => f (g x)) l.
Proof. induction l as [|x l IH]; [reflexivity|]. cbn [map flat_map]. rewrite IH. reflexivity. Qed.

Lemma flat_map_singleton {A : Type} (l : list A) : flat_map (fun s => [s]) l = l.
Proof. induction l as [|x l IH]; [reflexivity|]. cbn [flat_map app]. rewrite IH. reflexivity. Qed.

(* ---------------------------------------------------------------- constructors *)
(* ConcatGenerator.__init__: keeps its arguments, size = sum of their sizes = the model's csize *)
Theorem gen_concat_init_eq (gs : list gen) : concat_init gs = Some (gs, csize (Concat gs)).
Proof. reflexivity. Qed.

(* EnsembleGenerator.__init__: IndexError without arguments, ValueError unless every size equals the first
   one -- exactly the model's constructor check [built]; size = the first child's *)
Theorem gen_ensemble_init_eq (gs : list gen) :
  ensemble_init gs =
  match gs with
  | [] => None
  | h :: _ => if forallb (fun x => Nat.eqb (csize x) (csize h)) gs then Some (gs, csize (Ensemble gs)) else None
  end.
Proof.
  unfold ensemble_init. destruct gs as [|h rest]; [reflexivity|]. cbn [index0]. cbv zeta.
  unfold obj_size. rewrite (existsb_negb (fun gen => Nat.eqb (csize gen) (csize h))).
  destruct (forallb (fun x => Nat.eqb (csize x) (csize h)) (h :: rest)); reflexivity.
Qed.

Corollary gen_ensemble_init_built (gs : list gen) :
  forallb built gs = true ->
  (built (Ensemble gs) = true <-> exists r, ensemble_init gs = Some r).
Proof.
  intros Hb. rewrite gen_ensemble_init_eq. destruct gs as [|h rest]; cbn [built].
  - split; [discriminate|intros [r Hr]; discriminate].
  - rewrite Hb. cbn [andb].
    destruct (forallb (fun x => Nat.eqb (csize x) (csize h)) (h :: rest)); split; try discriminate; eauto.
    intros [r Hr]; discriminate.
Qed.

(* MeshGenerator.__init__: applied to already constructed (= normalised) children it yields exactly the
   spliced child list of the model's [norm], and size = the product = csize *)
Definition splice (h : gen) : list gen := match norm h with Mesh hs => hs | h' => [h'] end.

Lemma generated_splice (h : gen) :
  (if obj_is_mesh (norm h) then flat_map (fun s => [s]) (obj_generators (norm h)) else [norm h]) = splice h.
Proof.
  unfold splice. destruct (norm h); try reflexivity. cbn [obj_is_mesh obj_generators]. apply flat_map_singleton.
Qed.

Theorem gen_mesh_init_eq (gs : list gen) :
  norm (Mesh gs) = Mesh (flat_map splice gs) /\
  mesh_init (map norm gs) = Some (flat_map splice gs, csize (Mesh (flat_map splice gs))).
Proof.
  split; [reflexivity|]. unfold mesh_init. cbv zeta. cbn [app].
  rewrite flat_map_map. rewrite (flat_map_ext _ _ generated_splice). reflexivity.
Qed.

(* StaticGenerator: the value drawn at construction is stored with the child's size, and every call
   returns it -- the model's  sample (Static g) k = sample g 0 *)
Theorem gen_static_eq (child : pyv) (gsize : nat) :
  static_init child gsize = Some (gsize, child) /\ static_get_examples child = Some (child, tt).
Proof. split; reflexivity. Qed.

(* ---------------------------------------------------------------- FilterGenerator.get_examples *)
Lemma wrap_tensor_seq' v : as_seq (if is_tensor v then PL [as_tensor v] else v) = cols_of v.
Proof. destruct v; reflexivity. Qed.

Lemma masked_all mk (cs : list (list Z)) :
  all_some' (map (fun x => (e <- mask_index mk x ;; Some e)) cs) =
  if forallb (fun c => Nat.eqb (length c) (length mk)) cs then Some (map (select mk) cs) else None.
Proof.
  induction cs as [|c cs IH]; [reflexivity|].
  cbn [map all_some' forallb]. unfold mask_index at 1.
  destruct (Nat.eqb (length c) (length mk)); cbn [andb]; [|reflexivity].
  rewrite IH, mask_select_eq.
  destruct (forallb (fun c0 => Nat.eqb (length c0) (length mk)) cs); reflexivity.
Qed.

Section FilterResample.
  Variable draw : nat -> nat -> list (list Z).
  Variable mask : nat -> nat -> list bool.
  Variable rperm rint : nat -> nat -> list nat.
  Variable tvec : nat -> list Z -> list Z.
  Variable tmulti : nat -> list (list Z) -> out.
  Notation sample := (sample draw mask rperm rint tvec tmulti).
  Notation size_at := (size_at draw mask rperm rint tvec tmulti).

  (* for ANY value v of the child and ANY user predicate: the generated get_examples returns what the
     model's Filter node returns, and the new self.size is the model's .size for the next call *)
  Theorem gen_filter_eq (g : gen) (m : nat) (s : option nat) (upd : bool) (k : nat) (v : pyv)
          (filter_fn : list (list Z) -> list bool) (size : nat) :
    sample g k = Some (out_of_pyv v) ->
    mask m k = filter_fn (cols_of v) ->
    option_map (fun p => out_of_pyv (fst p)) (filter_get_examples filter_fn v size upd) = sample (Filter g m s upd) k
    /\ (forall r sz', filter_get_examples filter_fn v size upd = Some (r, sz') ->
                      sz' = if upd then size_at (Filter g m s true) (S k) else size).
  Proof.
    intros Hs Hm.
    assert (Hsz : forall r sz', filter_get_examples filter_fn v size true = Some (r, sz') ->
                                sample (Filter g m s true) k = Some (out_of_pyv r) ->
                                sz' = size_at (Filter g m s true) (S k)).
    { intros r sz' Hg Hf. unfold GenComb.size_at. rewrite Hf.
      unfold filter_get_examples in Hg. cbv zeta in Hg. rewrite wrap_tensor_seq', masked_all in Hg.
      destruct (forallb (fun c => Nat.eqb (length c) (length (filter_fn (cols_of v)))) (cols_of v)); [|discriminate].
      destruct (map (select (filter_fn (cols_of v))) (cols_of v)) as [|c [|c2 l]]; cbn in Hg; try discriminate;
        injection Hg as <- <-; reflexivity. }
    assert (Heq : option_map (fun p => out_of_pyv (fst p)) (filter_get_examples filter_fn v size upd) = sample (Filter g m s upd) k).
    { cbn [GenComb.sample]. rewrite Hs. unfold filter_get_examples. cbv zeta.
      rewrite wrap_tensor_seq', masked_all, Hm.
      destruct (out_of_pyv v) as [f cs] eqn:Eo.
      assert (Ecs : cols_of v = cs) by (rewrite <- snd_out_of_pyv, Eo; reflexivity). rewrite Ecs.
      destruct cs as [|c0 cs'].
      - cbn [forallb map]. destruct upd; reflexivity.
      - destruct (forallb (fun c => Nat.eqb (length c) (length (filter_fn (c0 :: cs')))) (c0 :: cs')); [|reflexivity].
        cbn [map]. destruct upd; cbn [index0]; destruct (map (select (filter_fn (c0 :: cs'))) cs') as [|c2 l]; reflexivity. }
    split; [exact Heq|].
    intros r sz' Hg. destruct upd.
    - apply (Hsz r sz' Hg). rewrite <- Heq, Hg. reflexivity.
    - unfold filter_get_examples in Hg. cbv zeta in Hg. rewrite wrap_tensor_seq', masked_all in Hg.
      destruct (forallb (fun c => Nat.eqb (length c) (length (filter_fn (cols_of v)))) (cols_of v)); [|discriminate].
      destruct (map (select (filter_fn (cols_of v))) (cols_of v)) as [|c [|c2 l]]; cbn in Hg; try discriminate;
        injection Hg as _ <-; reflexivity.
  Qed.

  (* ---------------------------------------------------------------- ResampleGenerator.get_examples *)
  Definition rows_n (v : pyv) : nat := match cols_of v with c0 :: _ => length c0 | [] => 0 end.

  Lemma gathered_all idx (cs : list (list Z)) :
    all_some' (map (fun x => (e <- index_vec idx x ;; Some e)) cs) = all_some (map (gather idx) cs).
  Proof.
    rewrite all_some'_eq. f_equal. apply map_ext. intros x. rewrite index_vec_eq. destruct (gather idx x); reflexivity.
  Qed.

  (* for ANY value v of the child and ANY RNG: n_rows is the number of rows of v, and whenever the RNG's
     answers are possible ones (the model's oracle check), the generated get_examples returns what the
     model's Resample node returns *)
  Theorem gen_resample_eq (g : gen) (r : nat) (sz : option nat) (repl : bool) (k : nat) (v : pyv)
          (randint : nat -> nat -> list nat) (randperm : nat -> list nat) :
    sample g k = Some (out_of_pyv v) ->
    rint r k = randint (rows_n v) (rsize g sz) ->
    rperm r k = randperm (rows_n v) ->
    sample (Resample g r sz repl) k =
    if (if repl then Nat.eqb (length (randint (rows_n v) (rsize g sz))) (rsize g sz)
                     && forallb (fun i => Nat.ltb i (rows_n v)) (randint (rows_n v) (rsize g sz))
        else Nat.eqb (length (randperm (rows_n v))) (rows_n v))
    then option_map (fun p => out_of_pyv (fst p)) (resample_get_examples randint randperm v (rsize g sz) repl)
    else None.
  Proof.
    intros Hs Hri Hrp. cbn [GenComb.sample]. rewrite Hs. unfold resample_get_examples. cbv zeta.
    fold (rsize g sz). rewrite Hri, Hrp. unfold rows_n, slice_to_idx.
    (* case analysis on everything the two sides branch on; robust against reordering of branches in the source *)
    destruct repl; destruct v as [t|[|c0 cs']|[|c0 cs']];
      cbn [out_of_pyv cols_of is_tensor is_tuple is_list as_tensor as_seq py_len index0 negb andb orb fst snd];
      try rewrite !gathered_all; try rewrite !index_vec_eq; cbn [map all_some];
      repeat (match goal with
              | |- context [gather ?i ?x] => destruct (gather i x)
              | |- context [all_some ?l] => destruct (all_some l)
              | |- context [if ?c then _ else _] =>
                  lazymatch c with
                  | context [if _ then _ else _] => fail
                  | _ => destruct c
                  end
              end; cbn [option_map fst out_of_pyv]); reflexivity.
  Qed.
End FilterResample.

(* ================================================================ get_examples bodies of the combinators *)
Lemma all_some_map' {A B : Type} (f : A -> option B) (g : A -> B) l :
  (forall x, In x l -> f x = Some (g x)) -> all_some (map f l) = Some (map g l).
Proof.
  induction l as [|x l IH]; intros H; [reflexivity|].
  cbn [map all_some]. rewrite (H x (or_introl eq_refl)), IH; [reflexivity|].
  intros y Hy. apply H. right. exact Hy.
Qed.

Lemma norm_tuple_seq v :
  as_seq (if is_list v then PU (as_seq v) else (if is_tensor v then PU [as_tensor v] else v)) = cols_of v.
Proof. destruct v; reflexivity. Qed.

Lemma mg_cart_eq cs : mg_cart cs = cart cs.
Proof. reflexivity. Qed.

Lemma meshgrid_ij_eq axes : meshgrid_ij axes = transpose (length axes) (cart axes).
Proof. reflexivity. Qed.

(* ---- zip( *values ) + cat per tuple  =  the model's per-dimension append *)
Lemma map_concat_zipwith_cons (a : list (list Z)) : forall R : list (list (list Z)),
    map (@concat Z) (zipwith cons a R) = zip_app Z a (map (@concat Z) R).
Proof.
  induction a as [|x a IH]; intros [|r R]; cbn [zipwith map zip_app]; try reflexivity.
  rewrite IH. reflexivity.
Qed.

Lemma zipn_app_zipn (css : list (list (list Z))) : zipn_app css = map (@concat Z) (zipn css).
Proof.
  induction css as [|cs rest IH]; [reflexivity|].
  destruct rest as [|cs2 rest'].
  - cbn [zipn_app zipn]. rewrite map_map. cbn [concat]. symmetry.
    rewrite <- (map_id cs) at 2. apply map_ext. intros c. apply app_nil_r.
  - change (zipn_app (cs :: cs2 :: rest')) with (zip_app Z cs (zipn_app (cs2 :: rest'))).
    change (zipn (cs :: cs2 :: rest')) with (zipwith cons cs (zipn (cs2 :: rest'))).
    rewrite IH, map_concat_zipwith_cons. reflexivity.
Qed.

Lemma forms_all_tensor vs :
  forallb (fun o : out => form_eqb (fst o) FT) (map out_of_pyv vs) = forallb is_tensor vs.
Proof. induction vs as [|[t|l|l] vs IH]; cbn; rewrite ?IH; reflexivity. Qed.

Lemma forms_no_tensor vs :
  forallb (fun o : out => negb (form_eqb (fst o) FT)) (map out_of_pyv vs) = negb (existsb is_tensor vs).
Proof. induction vs as [|[t|l|l] vs IH]; cbn; rewrite ?IH; reflexivity. Qed.

Lemma tensors_concat vs :
  forallb is_tensor vs = true ->
  concat (map (fun o : out => hd [] (snd o)) (map out_of_pyv vs)) = concat (map as_tensor vs).
Proof.
  induction vs as [|[t|l|l] vs IH]; cbn [forallb is_tensor andb]; intros H; try discriminate; [reflexivity|].
  cbn [map concat out_of_pyv snd hd as_tensor]. rewrite IH by exact H. reflexivity.
Qed.

Lemma no_tensor_cols vs :
  existsb is_tensor vs = false -> map snd (map out_of_pyv vs) = map as_seq vs.
Proof.
  induction vs as [|[t|l|l] vs IH]; cbn [existsb is_tensor orb]; intros H; try discriminate; [reflexivity| |];
    cbn [map out_of_pyv snd as_seq]; rewrite IH by exact H; reflexivity.
Qed.

Lemma concat_out_py (vs : list pyv) :
  concat_out (map out_of_pyv vs) =
  match index0 vs with
  | None => None
  | Some e => if is_tensor e then option_map (fun t => out_of_pyv (PT t)) (cat_all vs)
              else option_map (fun z => out_of_pyv (PL (map (@concat Z) z))) (zip_star vs)
  end.
Proof.
  destruct vs as [|v0 vs']; [reflexivity|]. cbn [index0].
  unfold concat_out, cat_all, zip_star.
  destruct v0 as [t|l|l]; cbn [map out_of_pyv is_tensor].
  - (* first value is a tensor *)
    change ((FT, [t]) :: map out_of_pyv vs') with (map out_of_pyv (PT t :: vs')).
    rewrite forms_all_tensor.
    destruct (forallb is_tensor (PT t :: vs')) eqn:E; [|reflexivity].
    change (Some (FT, [concat (map (fun o : out => hd [] (snd o)) (map out_of_pyv (PT t :: vs')))])
            = Some (FT, [concat (map as_tensor (PT t :: vs'))])).
    rewrite (tensors_concat (PT t :: vs') E). reflexivity.
  - change ((FL, l) :: map out_of_pyv vs') with (map out_of_pyv (PL l :: vs')).
    rewrite forms_no_tensor.
    destruct (existsb is_tensor (PL l :: vs')) eqn:E; cbn [negb]; [reflexivity|].
    change (Some (FL, zipn_app (map snd (map out_of_pyv (PL l :: vs'))))
            = Some (FL, map (@concat Z) (zipn (map as_seq (PL l :: vs'))))).
    rewrite (no_tensor_cols _ E), zipn_app_zipn. reflexivity.
  - change ((FU, l) :: map out_of_pyv vs') with (map out_of_pyv (PU l :: vs')).
    rewrite forms_no_tensor.
    destruct (existsb is_tensor (PU l :: vs')) eqn:E; cbn [negb]; [reflexivity|].
    change (Some (FL, zipn_app (map snd (map out_of_pyv (PU l :: vs'))))
            = Some (FL, map (@concat Z) (zipn (map as_seq (PU l :: vs'))))).
    rewrite (no_tensor_cols _ E), zipn_app_zipn. reflexivity.
Qed.

Lemma zipwith_apply (f : option nat -> list Z -> list Z) ts : forall cs,
    zipwith (fun t x => t x) (map f ts) cs = zip_trans f ts cs.
Proof.
  induction ts as [|t ts IH]; intros [|c cs]; cbn [map zipwith zip_trans]; try reflexivity.
  rewrite IH. reflexivity.
Qed.

Section Bodies.
  Variable draw : nat -> nat -> list (list Z).
  Variable mask : nat -> nat -> list bool.
  Variable rperm rint : nat -> nat -> list nat.
  Variable tvec : nat -> list Z -> list Z.
  Variable tmulti : nat -> list (list Z) -> out.
  Notation sample := (sample draw mask rperm rint tvec tmulti).

  Variable get : gen -> pyv.           (* what each child returns at this call *)
  Variable k : nat.

  Lemma children_samples (gs : list gen) :
    (forall h, In h gs -> sample h k = Some (out_of_pyv (get h))) ->
    all_some (map (fun h => sample h k) gs) = Some (map out_of_pyv (map get gs)).
  Proof. intros H. rewrite map_map. apply all_some_map'. exact H. Qed.

  Lemma children_cols (gs : list gen) :
    concat (map snd (map out_of_pyv (map get gs))) = flat_map (fun g => cols_of (get g)) gs.
  Proof.
    rewrite flat_map_concat_map, !map_map. f_equal. apply map_ext. intros g. apply snd_out_of_pyv.
  Qed.

  (* ConcatGenerator.get_examples *)
  Theorem gen_concat_get_eq (gs : list gen) :
    (forall h, In h gs -> sample h k = Some (out_of_pyv (get h))) ->
    option_map (fun p => out_of_pyv (fst p)) (concat_get_examples get gs) = sample (Concat gs) k.
  Proof.
    intros H. cbn [GenComb.sample]. rewrite (children_samples gs H), concat_out_py.
    unfold concat_get_examples. cbv zeta.
    destruct (index0 (map get gs)) as [e|]; [|reflexivity].
    destruct (is_tensor e).
    - destruct (cat_all (map get gs)); reflexivity.
    - destruct (zip_star (map get gs)); reflexivity.
  Qed.

  (* EnsembleGenerator.get_examples *)
  Theorem gen_ensemble_get_eq (gs : list gen) :
    (forall h, In h gs -> sample h k = Some (out_of_pyv (get h))) ->
    option_map (fun p => out_of_pyv (fst p)) (ensemble_get_examples get gs) = sample (Ensemble gs) k.
  Proof.
    intros H. cbn [GenComb.sample]. rewrite (children_samples gs H), children_cols.
    unfold ensemble_get_examples. cbv zeta.
    rewrite (flat_map_ext _ _ (fun g => norm_tuple_seq (get g))).
    destruct (flat_map (fun g => cols_of (get g)) gs) as [|a [|b l]]; reflexivity.
  Qed.

  (* MeshGenerator.get_examples *)
  Theorem gen_mesh_get_eq (gs : list gen) :
    (forall h, In h gs -> sample h k = Some (out_of_pyv (get h))) ->
    option_map (fun p => out_of_pyv (fst p)) (mesh_get_examples get gs) = sample (Mesh gs) k.
  Proof.
    intros H. cbn [GenComb.sample]. rewrite (children_samples gs H), children_cols.
    unfold mesh_get_examples. cbv zeta.
    rewrite (flat_map_ext _ _ (fun g => norm_tuple_seq (get g))).
    destruct (flat_map (fun g => cols_of (get g)) gs) as [|a [|b l]] eqn:E; try reflexivity;
      cbn [length Nat.eqb option_map fst out_of_pyv];
      unfold flatten_nd; rewrite ?flat_map_singleton, ?map_id, meshgrid_ij_eq; reflexivity.
  Qed.

  (* TransformGenerator.get_examples with transform=<callable>: the user callable is the model's tmulti *)
  Theorem gen_transform_callable_eq (g : gen) (t : nat) (v : pyv)
          (trans_fn : list (list Z) -> pyv) (trans_list : list (list Z -> list Z)) :
    sample g k = Some (out_of_pyv v) ->
    (forall cs, tmulti t cs = out_of_pyv (trans_fn cs)) ->
    option_map (fun p => out_of_pyv (fst p)) (transform_get_examples trans_fn trans_list v true) = sample (TransformF g t) k.
  Proof.
    intros Hs Ht. cbn [GenComb.sample]. rewrite Hs. unfold transform_get_examples. cbv zeta.
    destruct v as [c|l|l]; cbn [is_tensor as_tensor as_seq out_of_pyv option_map fst]; rewrite Ht; reflexivity.
  Qed.

  (* ... with transforms=[t | None ...]: the list of callables is the model's per-dimension maps *)
  Theorem gen_transform_list_eq (g : gen) (ts : list (option nat)) (v : pyv) (trans_fn : list (list Z) -> pyv) :
    sample g k = Some (out_of_pyv v) ->
    option_map (fun p => out_of_pyv (fst p)) (transform_get_examples trans_fn (map (app_t tvec) ts) v false)
    = sample (TransformL g ts) k.
  Proof.
    intros Hs. cbn [GenComb.sample]. rewrite Hs. unfold transform_get_examples. cbv zeta.
    destruct v as [c|l|l]; cbn [is_tensor as_tensor as_seq out_of_pyv option_map fst].
    - destruct ts as [|t ts']; reflexivity.
    - rewrite zipwith_apply. reflexivity.
    - rewrite zipwith_apply. reflexivity.
  Qed.

  (* SamplerGenerator.get_examples: always a list, every vector reshaped to (n, 1), values untouched *)
  Theorem gen_sampler_get_eq (g : gen) (v : pyv) :
    built (norm g) = true -> sample (norm g) k = Some (out_of_pyv v) ->
    sampler_get_examples v = Some (PL (cols_of v), tt) /\
    run draw mask rperm rint tvec tmulti (Sampler g) k = Some (true, (FL, cols_of v)).
  Proof.
    intros Hb Hs. split.
    - unfold sampler_get_examples, reshape_n1. cbv zeta. rewrite wrap_tensor_seq', map_id. reflexivity.
    - unfold run. rewrite Hb, Hs. cbn [option_map]. rewrite snd_out_of_pyv. reflexivity.
  Qed.
End Bodies.

(* ================================================================ operator overloads of BaseGenerator
   a + b, a * b, a ^ b build exactly the Concat / Ensemble / Mesh of their operands; the generated
   functions take no oracle for sampling: the operators call no method of their operands. *)
Theorem gen_operators_eq (a b : gen) :
  base_add a b = Some (Concat [a; b], tt) /\
  base_mul a b = Some (Ensemble [a; b], tt) /\
  base_xor a b = Some (Mesh [a; b], tt).
Proof. repeat split; reflexivity. Qed.

(* ---------------------------------------------------------------- constructors with optional arguments; PredefinedGenerator *)
Theorem gen_filter_init_eq (g : gen) (m : nat) (size : option nat) (upd : bool) :
  filter_init (csize g) size upd = Some (csize (Filter g m size upd), upd).
Proof. destruct size; reflexivity. Qed.

Theorem gen_resample_init_eq (g : gen) (r : nat) (size : option nat) (repl : bool) :
  resample_init (csize g) size repl = Some (csize (Resample g r size repl), repl).
Proof. destruct size; reflexivity. Qed.

Theorem gen_init_defaults :
  filter_init_default_size = @None nat /\ filter_init_default_update_size = true /\
  resample_init_default_size = @None nat /\ resample_init_default_replacement = false.
Proof. repeat split. Qed.

Lemma map_id' {A} (f : A -> A) (l : list A) : (forall x, f x = x) -> map f l = l.
Proof. intros H. induction l as [|a l IH]; cbn [map]; [reflexivity|]. rewrite H, IH. reflexivity. Qed.

Theorem gen_predefined_eq (isT : list Z -> bool) (cs : list (list Z)) :
  predefined_init isT cs =
  (if built (Predefined cs) then Some (csize (Predefined cs), match single_or FL cs with (FT, [t]) => PT t | (_, l) => PL l end) else None)
  /\ forall v, predefined_get_examples v = Some (v, tt).
Proof.
  split; [|reflexivity].
  unfold predefined_init. destruct cs as [|c rest]; [reflexivity|]. cbn [index0 built csize hd]. cbv zeta.
  rewrite (existsb_negb (fun x => Nat.eqb (length c) (length x))).
  assert (E : forallb (fun x => Nat.eqb (length c) (length x)) (c :: rest) = forallb (fun x => Nat.eqb (length x) (length c)) (c :: rest)).
  { generalize (c :: rest). intros l. induction l as [|a l IH]; cbn [forallb]; [reflexivity|]. rewrite IH, (Nat.eqb_sym (length c) (length a)). reflexivity. }
  rewrite E. destruct (forallb (fun x => Nat.eqb (length x) (length c)) (c :: rest)); [|reflexivity].
  cbn [negb].
  rewrite (map_id' (fun x => if isT x then x else tensor_of x)) by (intros x; destruct (isT x); reflexivity).
  rewrite (map_id' (fun x => requires_grad (flatten_nd x))) by reflexivity.
  destruct rest as [|d rest']; reflexivity.
Qed.

(* the stored value is what the model's [sample] returns for a PredefinedGenerator at every call index: the generated
   constructor and get_examples together give "predefined returns the same points forever" *)
Theorem gen_predefined_sample (isT : list Z -> bool) (cs : list (list Z)) (sz : nat) (v : pyv)
        draw mask rperm rint tvec tmulti :
  predefined_init isT cs = Some (sz, v) ->
  built (Predefined cs) = true /\ sz = csize (Predefined cs) /\
  forall k, predefined_get_examples v = Some (v, tt) /\
            sample draw mask rperm rint tvec tmulti (Predefined cs) k = Some (out_of_pyv v).
Proof.
  intros H. destruct (gen_predefined_eq isT cs) as [E G]. rewrite E in H.
  destruct (built (Predefined cs)) eqn:B; [|discriminate].
  injection H as Hs Hv. subst sz v. split; [reflexivity|]. split; [reflexivity|].
  intros k. split; [apply G|].
  destruct cs as [|c [|d rest]]; [discriminate B| reflexivity | reflexivity].
Qed.
