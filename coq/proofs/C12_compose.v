(* C12 — condition composition: ensembles and output-unit selection act column-wise.
   DESIGN.md §7 C12. *)
From Coq Require Import Reals List Lra Lia ZArith Field String Bool.
From ND.lib Require Import Expr ExprLemmas Tac.
From ND.gen Require Import Gen_C12.
Import ListNotations.
Open Scope R_scope.

(* ------------------------------------------------------------------ list-generic model *)
(* a sub-condition's parameterize is an arbitrary function of (its output column, the inputs) *)
Definition subparam := expr -> list expr -> expr.

Fixpoint zip_apply (subs : list subparam) (cols : list expr) (inputs : list expr) : list expr :=
  match subs, cols with
  | p :: ps, c :: cs => p c inputs :: zip_apply ps cs inputs
  | _, _ => []
  end.

Definition ensemble_parameterize (subs : list subparam) (cols inputs : list expr) : option (list expr) :=
  if Nat.eqb (List.length cols) (List.length subs) then Some (zip_apply subs cols inputs) else None.

(* column i of the result is what sub-condition i yields on the network's i-th output alone *)
Theorem ensemble_columnwise subs cols inputs res i p c :
  ensemble_parameterize subs cols inputs = Some res ->
  nth_error subs i = Some p -> nth_error cols i = Some c ->
  nth_error res i = Some (p c inputs).
Proof.
  unfold ensemble_parameterize. destruct (Nat.eqb_spec (List.length cols) (List.length subs)); [|discriminate].
  intros [= <-]. clear e. revert cols i. induction subs as [|q qs IH]; intros cols i Hp Hc.
  - destruct i; discriminate.
  - destruct cols as [|d ds]; [destruct i; discriminate|].
    destruct i as [|i]; cbn in *.
    + now injection Hp as ->; injection Hc as ->.
    + now apply IH.
Qed.

Theorem ensemble_width subs cols inputs res :
  ensemble_parameterize subs cols inputs = Some res -> List.length res = List.length subs.
Proof.
  unfold ensemble_parameterize. destruct (Nat.eqb_spec (List.length cols) (List.length subs)) as [E|]; [|discriminate].
  intros [= <-]. revert cols E. induction subs as [|q qs IH]; intros [|d ds] E; cbn in *; try lia; auto.
Qed.

Theorem ensemble_mismatch_rejected subs cols inputs :
  List.length cols <> List.length subs <-> ensemble_parameterize subs cols inputs = None.
Proof.
  unfold ensemble_parameterize. destruct (Nat.eqb_spec (List.length cols) (List.length subs)); split; auto; try discriminate.
  intros H; contradiction.
Qed.

(* hence every sub-condition guarantee (a predicate on the column function it produces) carries over *)
Corollary ensemble_inherits (G : expr -> Prop) subs cols inputs res i p c :
  ensemble_parameterize subs cols inputs = Some res ->
  nth_error subs i = Some p -> nth_error cols i = Some c ->
  G (p c inputs) -> exists e, nth_error res i = Some e /\ G e.
Proof. intros H Hp Hc HG. exists (p c inputs). split; auto. eapply ensemble_columnwise; eauto. Qed.

(* ------------------------------------------------------------------ tie: the code is the model *)
(* opaque sub-condition i = function symbol P_i applied to (column, inputs) *)
Definition as_arg (e : expr) : arg := match e with EVar v => AVar v | _ => APar 0 end.
Definition Psym (i : nat) : subparam := fun c inputs => EFun i (repeat 0%nat (S (List.length inputs))) (as_arg c :: map as_arg inputs).
Definition leaves (from n : nat) : list expr := map EVar (seq from n).

(* generated numbering: inputs x0..x_{m-1} = leaves 0..m-1, raw output columns o_i = leaves m.. *)
Definition model_ens (k m : nat) : option (list expr) :=
  ensemble_parameterize (map Psym (seq 0 k)) (leaves m k) (leaves 0 m).

Lemma tie_ensemble :
  Some ens_1_1.terms = model_ens 1 1 /\ Some ens_1_2.terms = model_ens 1 2 /\ Some ens_1_3.terms = model_ens 1 3 /\ Some ens_1_4.terms = model_ens 1 4 /\
  Some ens_2_1.terms = model_ens 2 1 /\ Some ens_2_2.terms = model_ens 2 2 /\ Some ens_2_3.terms = model_ens 2 3 /\ Some ens_2_4.terms = model_ens 2 4 /\
  Some ens_3_1.terms = model_ens 3 1 /\ Some ens_3_2.terms = model_ens 3 2 /\ Some ens_3_3.terms = model_ens 3 3 /\ Some ens_3_4.terms = model_ens 3 4 /\
  Some ens_4_1.terms = model_ens 4 1 /\ Some ens_4_2.terms = model_ens 4 2 /\ Some ens_4_3.terms = model_ens 4 3 /\ Some ens_4_4.terms = model_ens 4 4 /\
  ens_mismatch_more_cols.raises = true /\ ens_mismatch_fewer_cols.raises = true.
Proof. repeat split; vm_compute; reflexivity. Qed.

(* concrete classes: column i of the ensemble on a 4-output network is exactly the term the
   sub-condition yields on output i alone (same numbering in both generated modules) *)
Lemma tie_concrete_1d :
  ens_concrete_1d.terms = [sub_alone_0.term; sub_alone_1.term; sub_alone_2.term; sub_alone_3.term].
Proof. vm_compute. reflexivity. Qed.

(* ... and so the sub-conditions' guarantees hold column by column *)
Section Inherit.
  Import ens_concrete_1d.
  Lemma ens_col0_ivp venv penv fenv : venv v_t = penv p_t_0 -> eval venv penv fenv term_0 = penv p_u_0.
  Proof. intros H. reduce_eval. norm_names. rewrite H. norm_exp0. ring. Qed.
  Lemma ens_col1_bvp_left venv penv fenv : penv p_t_1 - penv p_t_0 <> 0 -> venv v_t = penv p_t_0 -> eval venv penv fenv term_1 = penv p_a.
  Proof. intros Hd H. reduce_eval. norm_names. rewrite H. norm_exp0. field. auto. Qed.
  Lemma ens_col1_bvp_right venv penv fenv : penv p_t_1 - penv p_t_0 <> 0 -> venv v_t = penv p_t_1 -> eval venv penv fenv term_1 = penv p_b.
  Proof. intros Hd H. reduce_eval. norm_names. rewrite H. norm_exp0. field. auto. Qed.
  Lemma ens_col2_raw venv penv fenv : eval venv penv fenv term_2 = fenv f_N_2 [0]%nat [venv v_t].
  Proof. reflexivity. Qed.
  Lemma ens_col3_ivp_deriv venv penv fenv : venv v_t = penv p_t_0 ->
    eval venv penv fenv term_3 = penv p_u_0 /\ eval venv penv fenv (D v_t term_3) = penv p_u_0_prime.
  Proof. intros H. split; reduce_eval; norm_names; rewrite H; norm_exp0; ring. Qed.
  (* column i only reads output unit i *)
  Lemma ens_columns_read_own_unit :
    forallb (fun ie : nat * expr => forallb (Nat.eqb (fst ie)) (
      (fix fs (e : expr) : list nat := match e with
        | EVar _ | EPar _ | ECst _ | ECstQ _ _ => []
        | EAdd a b | ESub a b | EMul a b | EDiv a b => fs a ++ fs b
        | ENeg a | EPow a _ | ESin a | ECos a | EExp a | ETanh a | EAbs a | ESqrt a | ELn a => fs a
        | EFun f _ _ => [f] end) (snd ie)))
      (combine (seq 0 4) terms) = true.
  Proof. vm_compute. reflexivity. Qed.
End Inherit.

Lemma ens_3d_cols venv penv fenv :
  venv ens_concrete_3d.v_r = penv ens_concrete_3d.p_r_0 ->
  eval venv penv fenv ens_concrete_3d.term_0 = fenv ens_concrete_3d.f_f [0;0]%nat [venv ens_concrete_3d.v_theta; venv ens_concrete_3d.v_phi] /\
  eval venv penv fenv ens_concrete_3d.term_1 = fenv ens_concrete_3d.f_N_1 [0;0;0]%nat [venv ens_concrete_3d.v_r; venv ens_concrete_3d.v_theta; venv ens_concrete_3d.v_phi].
Proof.
  intros H. split; [|reflexivity]. reduce_eval. norm_names. rewrite H.
  replace (penv 0%nat - penv 0%nat) with 0 by ring. rewrite Rabs_R0, Ropp_0, exp_0. ring.
Qed.

(* ------------------------------------------------------------------ NoCondition *)
Lemma tie_nocondition :
  forallb (fun km : list expr * (nat * nat) => list_eqb expr_eqb (fst km) (leaves (snd (snd km)) (fst (snd km))))
    [(nocond_1_1.terms, (1, 1)); (nocond_1_2.terms, (1, 2)); (nocond_1_3.terms, (1, 3)); (nocond_1_4.terms, (1, 4));
     (nocond_2_1.terms, (2, 1)); (nocond_2_2.terms, (2, 2)); (nocond_2_3.terms, (2, 3)); (nocond_2_4.terms, (2, 4));
     (nocond_3_1.terms, (3, 1)); (nocond_3_2.terms, (3, 2)); (nocond_3_3.terms, (3, 3)); (nocond_3_4.terms, (3, 4));
     (nocond_4_1.terms, (4, 1)); (nocond_4_2.terms, (4, 2)); (nocond_4_3.terms, (4, 3)); (nocond_4_4.terms, (4, 4))]%nat = true.
Proof. vm_compute. reflexivity. Qed.

(* enforce with NoCondition returns the raw network output for input widths 1..4; with an
   output unit selected only that column symbol (N@k) *)
Lemma nocondition_enforce_raw venv penv fenv :
  eval venv penv fenv nocond_enforce_1.term = fenv 0%nat [0]%nat [venv 0%nat] /\
  eval venv penv fenv nocond_enforce_2.term = fenv 0%nat [0;0]%nat [venv 0%nat; venv 1%nat] /\
  eval venv penv fenv nocond_enforce_3.term = fenv 0%nat [0;0;0]%nat [venv 0%nat; venv 1%nat; venv 2%nat] /\
  eval venv penv fenv nocond_enforce_4.term = fenv 0%nat [0;0;0;0]%nat [venv 0%nat; venv 1%nat; venv 2%nat; venv 3%nat] /\
  nocond_unit_1.term = EFun nocond_unit_1.f_N_k [0]%nat [AVar 0%nat] /\
  nocond_unit_4.term = EFun nocond_unit_4.f_N_k [0;0;0;0]%nat [AVar 0; AVar 1; AVar 2; AVar 3]%nat.
Proof. repeat split. Qed.

(* ------------------------------------------------------------------ the constructor's override test *)
(* exactly the classes whose enforce is overridden are refused; force=True accepts all *)
Lemma ensemble_rejects_overriders :
  forallb (fun mr : (string * bool) * bool => Bool.eqb (snd (fst mr)) (snd mr)) index_accept = true /\
  forallb (fun mr : (string * bool) * bool => negb (snd mr)) index_force = true.
Proof. split; vm_compute; reflexivity. Qed.

Lemma override_table :
  map (fun mr : (string * bool) * bool => fst (fst mr)) (filter (fun mr : (string * bool) * bool => snd (fst mr)) index_accept)
  = ["IBVP1D"%string; "DoubleEndedBVP1D"%string].
Proof. vm_compute. reflexivity. Qed.

Example ensemble_defined : exists res, model_ens 3 2 = Some res.
Proof. eexists. reflexivity. Qed.
