(* C07 — Latin-hypercube samples: for every draw vector u in [0,1)^n and every permutation,
   exactly one point per stratum.  Stated about the formula regenerated from
   `_latin_hypercube` (every permuted tensor of the table carries this formula). *)
From Coq Require Import Reals List String Bool Arith Lia Lra Field Permutation.
From ND.lib Require Import Expr Tac.
From ND.model Require Import AtomicGen.
From ND.gen Require Import Gen_C07.
From ND.proofs Require Import C07_table C07_nodes.
Import ListNotations.
Open Scope R_scope.

Definition lhs_term : expr := G1D_latin_hypercube.term_0.

(* all tensors indexed by a randperm (1-D, 2-D, 3-D Latin hypercube) have this formula, and
   every latin-hypercube entry's tensors are permuted *)
Lemma lhs_terms_b :
  forallb (fun e => forallb (fun t => negb (t_perm t) || expr_eqb (t_term t) lhs_term) (e_tensors e)
                    && (negb (String.eqb (e_method e) "latin-hypercube") || forallb t_perm (e_tensors e))) table = true.
Proof. vm_compute. reflexivity. Qed.

Lemma lhs_terms e t : In e table -> In t (e_tensors e) -> t_perm t = true -> t_term t = lhs_term.
Proof.
  intros He Ht Hp. pose proof (proj1 (forallb_forall _ _) lhs_terms_b e He) as H. cbv beta in H.
  apply andb_prop in H. destruct H as [H _].
  pose proof (proj1 (forallb_forall _ _) H t Ht) as H2. cbv beta in H2. rewrite Hp in H2. cbn [negb orb] in H2.
  now apply expr_eqb_eq.
Qed.

Lemma lhs_entries_permuted e t : In e table -> e_method e = "latin-hypercube"%string -> In t (e_tensors e) -> t_perm t = true.
Proof.
  intros He Hm Ht. pose proof (proj1 (forallb_forall _ _) lhs_terms_b e He) as H. cbv beta in H.
  apply andb_prop in H. destruct H as [_ H]. rewrite Hm in H. cbn [String.eqb negb orb] in H.
  change (forallb t_perm (e_tensors e) = true) in H || idtac.
  rewrite String.eqb_refl in H || idtac. cbn [negb orb] in H.
  exact (proj1 (forallb_forall _ _) H t Ht).
Qed.

(* the unpermuted point i lies in stratum i *)
Lemma lhs_point_in_stratum venv penv fenv n idx : node_env venv penv n idx ->
  in_stratum (penv p_a) (penv p_b) n idx (eval venv penv fenv lhs_term).
Proof.
  intros [Hab Hpi Hn Hi Hidx Hu]. unfold in_stratum, lhs_term.
  reduce_eval. cbv [v_i v_u0 p_a p_b p_n p_pi] in *. rewrite Hn, Hi.
  set (a := penv 0%nat) in *; set (b := penv 1%nat) in *; set (u := venv 1%nat) in *.
  replace (INR n + 1 - 1) with (INR n) by ring.
  assert (HN : 1 <= INR n) by (change 1 with (INR 1); apply le_INR; lia).
  set (W := (b - a) / INR n).
  assert (HW0 : 0 < W) by (unfold W; apply Rdiv_lt_0_compat; lra).
  match goal with |- _ <= ?E < _ => replace E with (a + W * (u + INR idx)) by (unfold W; field; lra) end.
  rewrite S_INR. nra.
Qed.

(* strata are disjoint *)
Lemma strata_disjoint a b n j j' x : a < b -> (1 <= n)%nat ->
  in_stratum a b n j x -> in_stratum a b n j' x -> j = j'.
Proof.
  intros Hab Hn [H1 H2] [H3 H4].
  assert (HN : 1 <= INR n) by (change 1 with (INR 1); apply le_INR; lia).
  set (W := (b - a) / INR n) in *.
  assert (HW0 : 0 < W) by (unfold W; apply Rdiv_lt_0_compat; lra).
  rewrite S_INR in H2, H4.
  destruct (Nat.lt_trichotomy j j') as [L|[E|L]]; [exfalso | exact E | exfalso].
  - assert (INR j + 1 <= INR j') by (rewrite <- S_INR; apply le_INR; lia). nra.
  - assert (INR j' + 1 <= INR j) by (rewrite <- S_INR; apply le_INR; lia). nra.
Qed.

Section Strata.
  Variables (penv : nat -> R) (fenv : nat -> list nat -> list R -> R) (n : nat).
  Variable u : nat -> R.            (* torch.rand(n) *)
  Variable perm : list nat.         (* torch.randperm(n) *)
  Hypothesis Hab : penv p_a < penv p_b.
  Hypothesis Hn : penv p_n = INR n.
  Hypothesis Hpi : penv p_pi = PI.
  Hypothesis Hu : forall j, 0 <= u j < 1.
  Hypothesis Hperm : Permutation perm (seq 0 n).

  Definition lhs_venv (j : nat) : nat -> R := fun v => if Nat.eqb v v_i then INR j else if Nat.eqb v v_u0 then u j else 0.
  Definition lhs_pt (j : nat) : R := eval (lhs_venv j) penv fenv lhs_term.
  (* points = (u * w + intervals[:-1])[perm] *)
  Definition lhs_out : list R := map lhs_pt perm.

  Lemma lhs_pt_stratum j : (j < n)%nat -> in_stratum (penv p_a) (penv p_b) n j (lhs_pt j).
  Proof.
    intros Hj. apply lhs_point_in_stratum. constructor; try assumption; try reflexivity. apply Hu.
  Qed.

  Lemma perm_lt k : (k < n)%nat -> (nth k perm 0 < n)%nat.
  Proof.
    intros Hk. assert (Hin : In (nth k perm 0%nat) perm).
    { apply nth_In. rewrite (Permutation_length Hperm), seq_length. exact Hk. }
    apply (Permutation_in _ Hperm) in Hin. apply in_seq in Hin. lia.
  Qed.

  Lemma lhs_length : List.length lhs_out = n.
  Proof. unfold lhs_out. now rewrite map_length, (Permutation_length Hperm), seq_length. Qed.

  (* output k lies in stratum perm[k] *)
  Lemma lhs_out_stratum k : (k < n)%nat ->
    in_stratum (penv p_a) (penv p_b) n (nth k perm 0%nat) (nth k lhs_out 0).
  Proof.
    intros Hk. unfold lhs_out.
    rewrite (nth_indep _ 0 (lhs_pt 0)) by (rewrite map_length, (Permutation_length Hperm), seq_length; exact Hk).
    rewrite map_nth. apply lhs_pt_stratum. now apply perm_lt.
  Qed.

  (* exactly one output point in every stratum *)
  Lemma lhs_one_per_stratum j : (j < n)%nat ->
    exists k, (k < n)%nat /\ in_stratum (penv p_a) (penv p_b) n j (nth k lhs_out 0)
              /\ forall k', (k' < n)%nat -> in_stratum (penv p_a) (penv p_b) n j (nth k' lhs_out 0) -> k' = k.
  Proof.
    intros Hj.
    assert (Hlen : List.length perm = n) by now rewrite (Permutation_length Hperm), seq_length.
    assert (Hin : In j perm) by (apply (Permutation_in _ (Permutation_sym Hperm)), in_seq; lia).
    destruct (In_nth _ _ 0%nat Hin) as [k [Hk Hnth]]. rewrite Hlen in Hk.
    assert (Hnd : NoDup perm) by (apply (Permutation_NoDup (Permutation_sym Hperm)), seq_NoDup).
    exists k. split; [exact Hk|]. split.
    - rewrite <- Hnth at 1. now apply lhs_out_stratum.
    - intros k' Hk' Hs. pose proof (lhs_out_stratum k' Hk') as Hs'.
      assert (E : j = nth k' perm 0%nat) by (apply (strata_disjoint (penv p_a) (penv p_b) n j (nth k' perm 0%nat) (nth k' lhs_out 0) Hab); [lia | exact Hs | exact Hs']).
      apply (proj1 (NoDup_nth perm 0%nat) Hnd); [lia | lia | congruence].
  Qed.

  (* and every point is inside [a, b) *)
  Lemma lhs_out_in_domain k : (k < n)%nat -> penv p_a <= nth k lhs_out 0 < penv p_b.
  Proof.
    intros Hk. destruct (lhs_out_stratum k Hk) as [H1 H2]. pose proof (perm_lt k Hk) as Hp.
    assert (HN : 1 <= INR n) by (change 1 with (INR 1); apply le_INR; lia).
    set (W := (penv p_b - penv p_a) / INR n) in *.
    assert (HW : W * INR n = penv p_b - penv p_a) by (unfold W; field; lra).
    assert (HW0 : 0 < W) by (unfold W; apply Rdiv_lt_0_compat; lra).
    pose proof (pos_INR (nth k perm 0%nat)).
    assert (INR (S (nth k perm 0%nat)) <= INR n) by (apply le_INR; lia). nra.
  Qed.
End Strata.

(* non-vacuity: the identity and the reversal are permutations *)
Example strata_premises_satisfiable : Permutation [2; 0; 1]%nat (seq 0 3) /\ (forall j : nat, 0 <= (fun _ => 1 / 2) j < 1).
Proof.
  split; [|intros; lra]. cbn [seq].
  apply perm_trans with [0; 2; 1]%nat; [apply perm_trans with [2; 0; 1]%nat; [apply Permutation_refl | apply perm_swap] |].
  apply perm_skip. apply perm_swap.
Qed.
