(* C16: condition callbacks -- leaf predicates, combinators (any list length, any nesting
   depth), statelessness, BaseMonitor.to_callback. *)
From Coq Require Import String ZArith List Bool Lia.
From ND.model Require Import Callbacks.
Import ListNotations.
Open Scope Z_scope.

(* ------------------------------------------------------------------------------------- *)
(* Induction principle for the nested AST                                                 *)

Section pred_ind_nested.
  Variable P : pred -> Prop.
  Hypothesis HTrue : P PTrue.
  Hypothesis HFalse : P PFalse.
  Hypothesis HFL : P PFirstLocal.
  Hypothesis HFG : P PFirstGlobal.
  Hypothesis HLL : P PLastLocal.
  Hypothesis HPL : forall p o, P (PPeriodLocal p o).
  Hypothesis HPG : forall p o, P (PPeriodGlobal p o).
  Hypothesis HIL : forall lo hi, P (PIntLocal lo hi).
  Hypothesis HIG : forall lo hi, P (PIntGlobal lo hi).
  Hypothesis HAnd : forall l, Forall P l -> P (PAnd l).
  Hypothesis HOr : forall l, Forall P l -> P (POr l).
  Hypothesis HNot : forall q, P q -> P (PNot q).
  Hypothesis HXor : forall l, Forall P l -> P (PXor l).
  Hypothesis HRep : forall k tr mt n s, P (PRepeated k tr mt n s).

  Fixpoint pred_ind_nested (p : pred) : P p :=
    let go := fix go (l : list pred) : Forall P l :=
                match l with
                | [] => Forall_nil P
                | q :: r => Forall_cons q (pred_ind_nested q) (go r)
                end in
    match p with
    | PTrue => HTrue
    | PFalse => HFalse
    | PFirstLocal => HFL
    | PFirstGlobal => HFG
    | PLastLocal => HLL
    | PPeriodLocal p o => HPL p o
    | PPeriodGlobal p o => HPG p o
    | PIntLocal lo hi => HIL lo hi
    | PIntGlobal lo hi => HIG lo hi
    | PAnd l => HAnd l (go l)
    | POr l => HOr l (go l)
    | PNot q => HNot q (pred_ind_nested q)
    | PXor l => HXor l (go l)
    | PRepeated k tr mt n s => HRep k tr mt n s
    end.
End pred_ind_nested.

(* ------------------------------------------------------------------------------------- *)
(* Unfolding of the local fixes                                                           *)

Lemma step_and : forall v l, step v (PAnd l) = let (b, l') := and_loop v l in (b, PAnd l').
Proof.
  intros v l. cbn [step].
  match goal with |- (let (_, _) := ?f l in _) = _ => assert (E : forall k, f k = and_loop v k) end.
  { induction k as [|q r IH]; [reflexivity|]. cbn [and_loop]. rewrite <- IH. reflexivity. }
  rewrite E. reflexivity.
Qed.

Lemma step_or : forall v l, step v (POr l) = let (b, l') := or_loop v l in (b, POr l').
Proof.
  intros v l. cbn [step].
  match goal with |- (let (_, _) := ?f l in _) = _ => assert (E : forall k, f k = or_loop v k) end.
  { induction k as [|q r IH]; [reflexivity|]. cbn [or_loop]. rewrite <- IH. reflexivity. }
  rewrite E. reflexivity.
Qed.

Lemma step_xor : forall v l, step v (PXor l) = let (c, l') := xor_loop v l in (c mod 2 =? 1, PXor l').
Proof.
  intros v l. cbn [step].
  match goal with |- (let (_, _) := ?f l in _) = _ => assert (E : forall k, f k = xor_loop v k) end.
  { induction k as [|q r IH]; [reflexivity|]. cbn [xor_loop]. rewrite <- IH. reflexivity. }
  rewrite E. reflexivity.
Qed.

Lemma step_not : forall v q, step v (PNot q) = let (c, q') := step v q in (negb c, PNot q').
Proof. reflexivity. Qed.

Lemma stateless_and : forall l, stateless (PAnd l) = forallb stateless l.
Proof. induction l as [|q r IH]; [reflexivity|]. cbn [forallb]. rewrite <- IH. reflexivity. Qed.
Lemma stateless_or : forall l, stateless (POr l) = forallb stateless l.
Proof. induction l as [|q r IH]; [reflexivity|]. cbn [forallb]. rewrite <- IH. reflexivity. Qed.
Lemma stateless_xor : forall l, stateless (PXor l) = forallb stateless l.
Proof. induction l as [|q r IH]; [reflexivity|]. cbn [forallb]. rewrite <- IH. reflexivity. Qed.

Lemma psem_and : forall v l, psem v (PAnd l) = forallb (psem v) l.
Proof. induction l as [|q r IH]; [reflexivity|]. cbn [forallb]. rewrite <- IH. reflexivity. Qed.
Lemma psem_or : forall v l, psem v (POr l) = existsb (psem v) l.
Proof. induction l as [|q r IH]; [reflexivity|]. cbn [existsb]. rewrite <- IH. reflexivity. Qed.
Lemma psem_xor : forall v l, psem v (PXor l) = parity (map (psem v) l).
Proof.
  induction l as [|q r IH]; [reflexivity|]. unfold parity in *. cbn [map fold_right]. rewrite <- IH. reflexivity.
Qed.

(* ------------------------------------------------------------------------------------- *)
(* The combinators are the Boolean connectives: for EVERY list of sub-callbacks.  The Boolean
   value does not depend on the early exit (each sub-callback is evaluated at most once, from
   the state it is in); the early exit only matters for the counters of stateful leaves. *)

Lemma and_loop_value : forall v l, fst (and_loop v l) = forallb (cond v) l.
Proof.
  intros v. induction l as [|q r IH]; [reflexivity|].
  cbn [and_loop forallb]. unfold cond at 1. destruct (step v q) as [c q']. cbn [fst].
  destruct c; cbn [andb].
  - destruct (and_loop v r) as [b r']. cbn [fst] in *. exact IH.
  - reflexivity.
Qed.

Lemma or_loop_value : forall v l, fst (or_loop v l) = existsb (cond v) l.
Proof.
  intros v. induction l as [|q r IH]; [reflexivity|].
  cbn [or_loop existsb]. unfold cond at 1. destruct (step v q) as [c q']. cbn [fst].
  destruct c; cbn [orb].
  - reflexivity.
  - destruct (or_loop v r) as [b r']. cbn [fst] in *. exact IH.
Qed.

Lemma odd_bit : forall (c : bool) n, Z.odd ((if c then 1 else 0) + n) = xorb c (Z.odd n).
Proof. intros c n. rewrite Z.odd_add. destruct c; reflexivity. Qed.

Lemma mod2_odd : forall n, (n mod 2 =? 1) = Z.odd n.
Proof. intros n. rewrite Zmod_odd. destruct (Z.odd n); reflexivity. Qed.

Lemma xor_loop_value : forall v l, Z.odd (fst (xor_loop v l)) = parity (map (cond v) l).
Proof.
  intros v. induction l as [|q r IH]; [reflexivity|].
  cbn [xor_loop map]. unfold parity in *. cbn [fold_right]. unfold cond at 1.
  destruct (step v q) as [c q']. destruct (xor_loop v r) as [n r']. cbn [fst] in *.
  rewrite odd_bit, IH. reflexivity.
Qed.

Theorem and_spec : forall v l, cond v (PAnd l) = forallb (cond v) l.
Proof.
  intros v l. unfold cond at 1. rewrite step_and. rewrite <- and_loop_value.
  destruct (and_loop v l); reflexivity.
Qed.

Theorem or_spec : forall v l, cond v (POr l) = existsb (cond v) l.
Proof.
  intros v l. unfold cond at 1. rewrite step_or. rewrite <- or_loop_value.
  destruct (or_loop v l); reflexivity.
Qed.

Theorem not_spec : forall v q, cond v (PNot q) = negb (cond v q).
Proof. intros v q. unfold cond. rewrite step_not. destruct (step v q); reflexivity. Qed.

Theorem xor_spec : forall v l, cond v (PXor l) = parity (map (cond v) l).
Proof.
  intros v l. unfold cond at 1. rewrite step_xor. rewrite <- xor_loop_value.
  destruct (xor_loop v l) as [n l']. cbn [fst]. apply mod2_odd.
Qed.

(* parity is "an odd number of sub-callbacks hold" *)
Lemma parity_count : forall bs, parity bs = Nat.odd (length (filter (fun b : bool => b) bs)).
Proof.
  induction bs as [|b r IH]; [reflexivity|]. unfold parity in *. cbn [fold_right filter].
  rewrite IH. destruct b; cbn [xorb length].
  - rewrite Nat.odd_succ, <- Nat.negb_odd. reflexivity.
  - destruct (Nat.odd _); reflexivity.
Qed.

(* ------------------------------------------------------------------------------------- *)
(* Stateless callbacks: evaluating them changes nothing and yields the documented Boolean
   meaning, at every nesting depth.                                                       *)

Lemma and_loop_stateless : forall v l,
  Forall (fun q => stateless q = true -> step v q = (psem v q, q)) l ->
  forallb stateless l = true -> and_loop v l = (forallb (psem v) l, l).
Proof.
  intros v l HF. induction HF as [|q r Hq _ IH]; intros Hs; [reflexivity|].
  cbn [forallb] in Hs. apply andb_true_iff in Hs. destruct Hs as [Hsq Hsr].
  cbn [and_loop forallb]. rewrite (Hq Hsq). destruct (psem v q); cbn [andb].
  - rewrite (IH Hsr). reflexivity.
  - reflexivity.
Qed.

Lemma or_loop_stateless : forall v l,
  Forall (fun q => stateless q = true -> step v q = (psem v q, q)) l ->
  forallb stateless l = true -> or_loop v l = (existsb (psem v) l, l).
Proof.
  intros v l HF. induction HF as [|q r Hq _ IH]; intros Hs; [reflexivity|].
  cbn [forallb] in Hs. apply andb_true_iff in Hs. destruct Hs as [Hsq Hsr].
  cbn [or_loop existsb]. rewrite (Hq Hsq). destruct (psem v q); cbn [orb].
  - reflexivity.
  - rewrite (IH Hsr). reflexivity.
Qed.

Lemma xor_loop_stateless : forall v l,
  Forall (fun q => stateless q = true -> step v q = (psem v q, q)) l ->
  forallb stateless l = true ->
  snd (xor_loop v l) = l /\ Z.odd (fst (xor_loop v l)) = parity (map (psem v) l).
Proof.
  intros v l HF. induction HF as [|q r Hq _ IH]; intros Hs; [split; reflexivity|].
  cbn [forallb] in Hs. apply andb_true_iff in Hs. destruct Hs as [Hsq Hsr].
  cbn [xor_loop map]. rewrite (Hq Hsq). destruct (IH Hsr) as [IH1 IH2].
  destruct (xor_loop v r) as [n r']. cbn [fst snd] in *. split.
  - rewrite IH1. reflexivity.
  - unfold parity in *. cbn [fold_right]. rewrite odd_bit, IH2. reflexivity.
Qed.

Theorem stateless_spec : forall p v, stateless p = true -> step v p = (psem v p, p).
Proof.
  intros p v. revert p.
  apply (pred_ind_nested (fun p => stateless p = true -> step v p = (psem v p, p)));
    try (intros; reflexivity).
  - intros l HF Hs. rewrite stateless_and in Hs. rewrite step_and, psem_and.
    rewrite (and_loop_stateless v l HF Hs). reflexivity.
  - intros l HF Hs. rewrite stateless_or in Hs. rewrite step_or, psem_or.
    rewrite (or_loop_stateless v l HF Hs). reflexivity.
  - intros q IH Hs. cbn [stateless] in Hs. rewrite step_not, (IH Hs). reflexivity.
  - intros l HF Hs. rewrite stateless_xor in Hs. rewrite step_xor, psem_xor.
    destruct (xor_loop_stateless v l HF Hs) as [E1 E2].
    destruct (xor_loop v l) as [n l']. cbn [fst snd] in *. rewrite mod2_odd, E1, E2. reflexivity.
  - intros k tr mt n s Hs. discriminate Hs.
Qed.

Corollary stateless_run : forall p vs, stateless p = true ->
  run_pred p vs = (map (fun v => psem v p) vs, p).
Proof.
  intros p vs Hs. induction vs as [|v r IH]; [reflexivity|].
  cbn [run_pred map]. rewrite (stateless_spec p v Hs), IH. reflexivity.
Qed.

(* ------------------------------------------------------------------------------------- *)
(* Leaves                                                                                 *)

Lemma mod_eq_iff : forall p o e, p <> 0 -> (e mod p = o mod p <-> exists n, e = p * n + o).
Proof.
  intros p o e Hp. split.
  - intros E. exists (e / p - o / p).
    pose proof (Z.div_mod e p Hp) as He. pose proof (Z.div_mod o p Hp) as Ho. lia.
  - intros [n E]. subst e. rewrite Z.add_comm, (Z.mul_comm p n). apply Z_mod_plus_full.
Qed.

Lemma shift_offset : forall p o e, p <> 0 ->
  ((exists n, e = p * n + o) <-> (exists n, e = p * n + o mod p)).
Proof.
  intros p o e Hp. pose proof (Z.div_mod o p Hp) as Ho. split; intros [n E].
  - exists (n + o / p). lia.
  - exists (n - o / p). lia.
Qed.

Theorem period_local_spec : forall v p o, p <> 0 ->
  (cond v (period_local p o) = true <-> exists n, v_local v = p * n + o mod p) /\
  (cond v (period_local p o) = true <-> exists n, v_local v = p * n + o).
Proof.
  intros v p o Hp.
  assert (H : cond v (period_local p o) = true <-> exists n, v_local v = p * n + o).
  { unfold cond, period_local. cbn [step fst]. rewrite Z.eqb_eq. apply mod_eq_iff. exact Hp. }
  split; [|exact H]. rewrite H. apply shift_offset. exact Hp.
Qed.

Theorem period_global_spec : forall v p o, p <> 0 ->
  (cond v (period_global p o) = true <-> exists n, v_global v = p * n + o mod p) /\
  (cond v (period_global p o) = true <-> exists n, v_global v = p * n + o).
Proof.
  intros v p o Hp.
  assert (H : cond v (period_global p o) = true <-> exists n, v_global v = p * n + o).
  { unfold cond, period_global. cbn [step fst]. rewrite Z.eqb_eq. apply mod_eq_iff. exact Hp. }
  split; [|exact H]. rewrite H. apply shift_offset. exact Hp.
Qed.

Lemma mk_period_defined : forall p o,
  (p <> 0 -> mk_period_local p o = Some (period_local p o) /\ mk_period_global p o = Some (period_global p o)) /\
  (p = 0 -> mk_period_local p o = None /\ mk_period_global p o = None).
Proof.
  intros p o. unfold mk_period_local, mk_period_global. split; intros H.
  - apply Z.eqb_neq in H. rewrite H. split; reflexivity.
  - subst p. split; reflexivity.
Qed.

Lemma in_closed_spec : forall lo hi e,
  in_closed lo hi e = true <-> (forall a, lo = Some a -> a <= e) /\ (forall b, hi = Some b -> e <= b).
Proof.
  intros lo hi e. unfold in_closed. rewrite andb_true_iff. split.
  - intros [H1 H2]. split.
    + intros a E. subst lo. apply Z.leb_le. exact H1.
    + intros b E. subst hi. apply Z.leb_le. exact H2.
  - intros [H1 H2]. split.
    + destruct lo as [a|]; [apply Z.leb_le, H1; reflexivity|reflexivity].
    + destruct hi as [b|]; [apply Z.leb_le, H2; reflexivity|reflexivity].
Qed.

Theorem interval_spec : forall v lo hi,
  (cond v (PIntLocal lo hi) = true <->
     (forall a, lo = Some a -> a <= v_local v) /\ (forall b, hi = Some b -> v_local v <= b)) /\
  (cond v (PIntGlobal lo hi) = true <->
     (forall a, lo = Some a -> a <= v_global v) /\ (forall b, hi = Some b -> v_global v <= b)).
Proof. intros v lo hi. split; unfold cond; cbn [step fst]; apply in_closed_spec. Qed.

Theorem first_last_spec : forall v,
  (cond v PFirstLocal = true <-> v_local v = 1) /\
  (cond v PFirstGlobal = true <-> v_global v = 1) /\
  (cond v PLastLocal = true <-> v_local v = v_max v) /\
  cond v PTrue = true /\ cond v PFalse = false.
Proof.
  intros v. unfold cond; cbn [step fst].
  repeat split; try apply Z.eqb_eq; intros H; apply Z.eqb_eq; exact H.
Qed.

(* ------------------------------------------------------------------------------------- *)
(* BaseMonitor.to_callback                                                                *)

Lemma monitor_init_spec : forall ce,
  monitor_init ce <> 0 /\ (ce = None -> monitor_init ce = 100) /\
  (forall c, ce = Some c -> c <> 0 -> monitor_init ce = c) /\ (ce = Some 0 -> monitor_init ce = 100).
Proof.
  intros ce. unfold monitor_init. destruct ce as [c|].
  - destruct (Z.eqb_spec c 0) as [E|E].
    + repeat split; try discriminate; intros; try congruence.
    + repeat split; try discriminate; try assumption; intros; congruence.
  - repeat split; try discriminate; intros; congruence.
Qed.

Theorem monitor_callback_spec : forall c v,
  cond v (monitor_pred c) = true <-> v_local v = v_max v \/ (c <> 0 /\ exists n, v_local v = c * n).
Proof.
  intros c v. unfold monitor_pred. destruct (Z.eqb_spec c 0) as [E|E].
  - unfold cond; cbn [step fst]. rewrite Z.eqb_eq. split; [intros H; left; exact H|].
    intros [H|[H _]]; [exact H|contradiction].
  - rewrite or_spec. cbn [existsb]. rewrite orb_false_r, orb_true_iff.
    destruct (first_last_spec v) as (_ & _ & HL & _). rewrite HL.
    destruct (period_local_spec v c 0 E) as [_ HP]. rewrite HP.
    split; intros [H|H]; try (left; exact H); right.
    + destruct H as [n H]. split; [exact E|]. exists n. lia.
    + destruct H as [_ [n H]]. exists n. lia.
Qed.

Corollary monitor_default_spec : forall ce v,
  cond v (monitor_pred (monitor_init ce)) = true <->
  v_local v = v_max v \/ exists n, v_local v = monitor_init ce * n.
Proof.
  intros ce v. rewrite monitor_callback_spec. destruct (monitor_init_spec ce) as [H _].
  split; intros [A|B]; try (left; exact A); right.
  - destruct B as [_ B]. exact B.
  - split; [exact H|exact B].
Qed.

(* non-vacuity *)
Example period_fires : cond (tview 7 0 0) (period_local 3 (-2)) = true /\ cond (tview 8 0 0) (period_local 3 (-2)) = false.
Proof. split; reflexivity. Qed.
Example nested_stateless :
  stateless (PXor [PAnd [period_local 2 1; PNot PLastLocal]; POr []; PIntGlobal None (Some 4)]) = true.
Proof. reflexivity. Qed.
