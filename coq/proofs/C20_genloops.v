(* C20 — the index arithmetic of the mini-batch loops and the history operations that
   tools/props/t_C20.py regenerates from _train_* / _solve_spatial_temporal (gen/Gen_C20.v) are
   the hand model of coq/model/Legacy.v, for all sizes; hence the partition and history theorems
   hold of what the source says. *)
From Coq Require Import String.
From Coq Require Import List Arith Lia Permutation.
From ND.model Require Import Legacy.
From ND.gen Require Import Gen_C20.
From ND.proofs Require Import C20_loops.
Import ListNotations.
Local Open Scope nat_scope.

(* a loop with the test `start < n` and the body "clamp end to n; emit (start, end); advance both
   by bs" is batches_fuel *)
Lemma while_is_batches {A} (cond : nat * nat -> bool) (body : nat * nat -> (nat * nat) * (nat * nat)) (n bs : nat) :
  (forall a b, cond (a, b) = Nat.ltb a n) ->
  (forall a b, body (a, b) = (let b' := if Nat.ltb n b then n else b in ((a, b'), (a + bs, b' + bs)))) ->
  forall fuel (idx : list A) a b,
    option_map' (slices_of idx) (while_fuel cond body fuel (a, b)) = batches_fuel fuel idx n bs a b.
Proof.
  intros Hc Hb. induction fuel as [|fuel IH]; intros idx a b; [reflexivity|].
  cbn [while_fuel batches_fuel]. rewrite Hc, Hb. cbv zeta.
  destruct (Nat.ltb a n); [|reflexivity].
  rewrite <- IH. destruct (while_fuel cond body fuel _); reflexivity.
Qed.

(* the same loop WITHOUT the clamp takes the same slices when n is the length of the sliced
   sequence (Python / torch slicing clamps by itself), so that harmless variant is absorbed *)
Lemma while_unclamped_is_batches {A} (cond : nat * nat -> bool) (body : nat * nat -> (nat * nat) * (nat * nat)) (bs : nat) (idx : list A) :
  (forall a b, cond (a, b) = Nat.ltb a (length idx)) ->
  (forall a b, body (a, b) = ((a, b), (a + bs, b + bs))) ->
  forall fuel a,
    option_map' (slices_of idx) (while_fuel cond body fuel (a, a + bs)) = batches_fuel fuel idx (length idx) bs a (a + bs).
Proof.
  intros Hc Hb. set (n := length idx). induction fuel as [|fuel IH]; intros a; [reflexivity|].
  cbn [while_fuel batches_fuel]. rewrite Hc, Hb. fold n.
  destruct (Nat.ltb_spec a n) as [Ha|Ha]; [|reflexivity].
  destruct (Nat.ltb_spec n (a + bs)) as [Hcl|Hcl].
  - (* the model clamps; the next test fails on both sides *)
    assert (Hs : slice idx a (a + bs) = slice idx a n).
    { unfold slice. rewrite !firstn_all2; auto; rewrite skipn_length; fold n; lia. }
    destruct fuel as [|fuel]; [reflexivity|].
    cbn [while_fuel batches_fuel]. rewrite Hc. fold n.
    destruct (Nat.ltb_spec (a + bs) n); [lia|]. cbn [option_map' slices_of map fst snd]. now rewrite Hs.
  - rewrite <- IH. destruct (while_fuel cond body fuel _); reflexivity.
Qed.

Ltac loop_model idx n bs :=
  first [ apply (while_is_batches _ _ n bs); intros ? ?; reflexivity
        | subst n; apply (while_unclamped_is_batches _ _ bs idx); intros ? ?; reflexivity ].

Lemma train_1dspatial_temporal_loop_model {A} (idx : list A) n bs :
  length idx = n ->
  option_map' (slices_of idx)
    (while_fuel (train_1dspatial_temporal_loop_cond bs n) (train_1dspatial_temporal_loop_body bs n) (S n)
                (train_1dspatial_temporal_loop_init bs n))
  = minibatches idx n bs.
Proof. intros E. symmetry in E. unfold minibatches. loop_model idx n bs. Qed.

Lemma train_2dspatial_loop_model {A} (idx : list A) n bs :
  length idx = n ->
  option_map' (slices_of idx)
    (while_fuel (train_2dspatial_loop_cond bs n) (train_2dspatial_loop_body bs n) (S n) (train_2dspatial_loop_init bs n))
  = minibatches idx n bs.
Proof. intros E. symmetry in E. unfold minibatches. loop_model idx n bs. Qed.

Lemma train_2dspatial_temporal_loop_model {A} (idx : list A) n bs :
  length idx = n ->
  option_map' (slices_of idx)
    (while_fuel (train_2dspatial_temporal_loop_cond bs n) (train_2dspatial_temporal_loop_body bs n) (S n)
                (train_2dspatial_temporal_loop_init bs n))
  = minibatches idx n bs.
Proof. intros E. symmetry in E. unfold minibatches. loop_model idx n bs. Qed.

(* the loop bound is the length of the sliced permutation in all three functions *)
Example loop_bounds_are_the_permutation_length :
  train_1dspatial_temporal_loop_bound = "training_set_size"%string /\
  train_2dspatial_loop_bound = "training_set_size"%string /\
  train_2dspatial_temporal_loop_bound = "training_set_size"%string /\
  train_2dspatial_loop_params = ["batch_size"; "training_set_size"]%string.
Proof. repeat split. Qed.

Definition partitions (n bs : nat) (idx : list nat) (r : option (list (nat * nat))) : Prop :=
  exists bounds, r = Some bounds
    /\ concat (slices_of idx bounds) = idx
    /\ Permutation (concat (slices_of idx bounds)) (seq 0 n)
    /\ Forall (fun b => 1 <= length b <= bs) (slices_of idx bounds).

Lemma partitions_of_model n bs idx r :
  Permutation idx (seq 0 n) -> 1 <= bs -> option_map' (slices_of idx) r = minibatches idx n bs -> partitions n bs idx r.
Proof.
  intros Hp Hbs H. destruct (minibatch_partition n idx bs Hp Hbs) as [bsl [H1 [H2 [H3 H4]]]].
  rewrite H1 in H. destruct r as [bounds|]; [|discriminate]. cbn [option_map'] in H. inversion H as [E].
  exists bounds. rewrite E. auto.
Qed.

Lemma generated_loops_partition n bs idx :
  Permutation idx (seq 0 n) -> 1 <= bs ->
  partitions n bs idx (while_fuel (train_1dspatial_temporal_loop_cond bs n) (train_1dspatial_temporal_loop_body bs n) (S n)
                                  (train_1dspatial_temporal_loop_init bs n)) /\
  partitions n bs idx (while_fuel (train_2dspatial_loop_cond bs n) (train_2dspatial_loop_body bs n) (S n)
                                  (train_2dspatial_loop_init bs n)) /\
  partitions n bs idx (while_fuel (train_2dspatial_temporal_loop_cond bs n) (train_2dspatial_temporal_loop_body bs n) (S n)
                                  (train_2dspatial_temporal_loop_init bs n)).
Proof.
  intros Hp Hbs. assert (Hn : length idx = n) by (rewrite (Permutation_length Hp); apply seq_length).
  repeat split; apply partitions_of_model; auto.
  - now apply train_1dspatial_temporal_loop_model.
  - now apply train_2dspatial_loop_model.
  - now apply train_2dspatial_temporal_loop_model.
Qed.

(* ------------------------------------------------------------------ history operations *)
Section H.
  Variable V : Type.
  Variables (tl vl : nat -> V) (tm vm : nat -> string -> V).

  Lemma gen_epoch_is_model metrics e h :
    gen_epoch_update tl vl tm vm history_epoch_ops metrics e h = epoch_update tl vl tm vm metrics e h.
  Proof.
    unfold epoch_update, history_epoch_ops. cbn [gen_epoch_update].
    destruct (h_append h "train_loss" (tl e)) as [h1|]; [|reflexivity].
    destruct (h_append_all V h1 "train_" _) as [h2|]; [|reflexivity].
    destruct (h_append h2 "valid_loss" (vl e)) as [h3|]; [|reflexivity].
    destruct (h_append_all V h3 "valid_" _); reflexivity.
  Qed.

  Lemma gen_solve_from_is_model metrics k : forall e0 h,
    gen_solve_from tl vl tm vm history_epoch_ops metrics k e0 h = solve_from tl vl tm vm metrics k e0 h.
  Proof.
    induction k as [|k IH]; intros e0 h; [reflexivity|].
    cbn [gen_solve_from solve_from]. rewrite gen_epoch_is_model.
    destruct (epoch_update tl vl tm vm metrics e0 h); [apply IH | reflexivity].
  Qed.

  Lemma gen_init_is_model metrics : gen_h_init history_init_keys history_init_prefixes metrics = @h_init V metrics.
  Proof. reflexivity. Qed.

  Lemma gen_solve_is_model metrics max_epochs :
    gen_solve tl vl tm vm history_init_keys history_init_prefixes history_epoch_ops metrics max_epochs
    = solve tl vl tm vm metrics max_epochs.
  Proof. unfold gen_solve, solve. rewrite gen_init_is_model. apply gen_solve_from_is_model. Qed.
End H.

Lemma generated_history_one_per_epoch (V : Type) (tl vl : nat -> V) (tm vm : nat -> string -> V)
    (metrics : list string) (max_epochs : nat) :
  NoDup metrics -> ~ In "loss"%string metrics ->
  exists h, gen_solve tl vl tm vm history_init_keys history_init_prefixes history_epoch_ops metrics max_epochs = Some h
    /\ map fst h = keys metrics
    /\ (forall key f, tracked V tl vl tm vm metrics key f -> lookup V h key = Some (map f (seq 0 max_epochs)))
    /\ Forall (fun kv => length (snd kv) = max_epochs) h.
Proof. intros H1 H2. rewrite gen_solve_is_model. now apply history_one_per_epoch_all. Qed.

(* the live history dictionary leaves the epoch loop only towards monitor.check; either a copy is
   handed over or no monitor of temporal.py performs an in-place operation on it (a fail-closed
   analysis of every use of the `history` parameter, helpers included), so the monitor cannot
   change what _solve_* returns *)
Lemma monitors_keep_history :
  history_handoff_is_copy = true \/ forallb (fun p => snd p) history_receivers_pure = true.
Proof. destruct history_handoff_is_copy; [left; reflexivity | right; reflexivity]. Qed.

Example generated_loop_runs :
  option_map' (slices_of [3; 0; 4; 1; 2])
    (while_fuel (train_2dspatial_loop_cond 2 5) (train_2dspatial_loop_body 2 5) 6 (train_2dspatial_loop_init 2 5))
  = Some [[3; 0]; [4; 1]; [2]].
Proof. reflexivity. Qed.
