(* C17 — Legendre polynomials, zonal harmonics, real Fourier series and their basis-space
   Laplacians.  Terms regenerated into gen/Gen_C17.v.  DESIGN.md §7 C17. *)
From Coq Require Import Reals List Lra Lia ZArith Field Bool.
From ND.lib Require Import Expr ExprLemmas Tac Poly.
From Coq Require Import QArith Qreals.
From ND.gen Require Import Gen_C17.
Import ListNotations.
Open Scope R_scope.

Definition legendre_terms : list expr :=
  [legendre_0.term; legendre_1.term; legendre_2.term; legendre_3.term; legendre_4.term; legendre_5.term; legendre_6.term;
   legendre_7.term; legendre_8.term; legendre_9.term; legendre_10.term; legendre_11.term; legendre_12.term].

Lemma legendre_index : map (fun p : nat * list expr => snd p) index_legendre = map (fun t => [t]) legendre_terms
  /\ map fst index_legendre = seq 0 13.
Proof. split; reflexivity. Qed.

(* P_d solves Legendre's equation (1 - x^2) P'' - 2 x P' + d (d+1) P = 0 and is normalised P_d(1) = 1:
   together with being a polynomial of degree d this characterises the Legendre polynomial.
   x = leaf 0.  Degrees 0..12 (the bound of the property's quantifier). *)
Definition legendre_ode (d : nat) (P : expr) : expr :=
  (ECst 1 -' EPow (EVar 0) 2) *' D 0 (D 0 P) -' ECst 2 *' EVar 0 *' D 0 P +' ECst (Z.of_nat (d * (d + 1))) *' P.

(* The generated terms are whatever the source computes (since the repair of the unstable monomial sum: Bonnet's
   recurrence, a tree that duplicates its sub-terms), so the identities are decided by the certified polynomial
   normaliser of lib/Poly.v: coefficients computed by vm_compute, soundness proved once. *)
Lemma legendre_ode_holds : forall d, (d <= 12)%nat -> forall venv penv fenv,
  eval venv penv fenv (legendre_ode d (nth d legendre_terms (ECst 0))) = 0.
Proof.
  intros d Hd venv penv fenv. apply (is_zero_poly_sound venv penv fenv 0%nat).
  do 13 (destruct d as [|d]; [vm_compute; reflexivity |]). lia.
Qed.

Lemma legendre_normalised : forall d, (d <= 12)%nat -> forall venv penv fenv, venv 0%nat = 1 ->
  eval venv penv fenv (nth d legendre_terms (ECst 0)) = 1.
Proof.
  intros d Hd venv penv fenv H1. rewrite <- RMicromega.Q2R_1.
  apply (value_at_one_sound venv penv fenv 0%nat); [|exact H1].
  do 13 (destruct d as [|d]; [vm_compute; reflexivity |]). lia.
Qed.

(* ... and it is a polynomial of degree exactly d in x: the last non-zero coefficient has index d *)
Fixpoint pdeg_aux (p : poly) (i : nat) (acc : option nat) : option nat :=
  match p with
  | [] => acc
  | c :: r => pdeg_aux r (S i) (if Qeq_bool c 0 then acc else Some i)
  end.
Definition pdeg (p : poly) : option nat := pdeg_aux p 0 None.

Lemma legendre_degree : forall d, (d <= 12)%nat ->
  exists p, pnorm 0 (nth d legendre_terms (ECst 0)) = Some p /\ pdeg p = Some d.
Proof.
  intros d Hd.
  do 13 (destruct d as [|d]; [eexists; split; [vm_compute; reflexivity | vm_compute; reflexivity] |]). lia.
Qed.

(* ---- zonal harmonics: column l = P_l(cos theta) * sqrt((2l+1)/(4 pi)) (PI = parameter 0) *)
Fixpoint subst_cos (e : expr) : expr :=
  match e with
  | EVar _ => ECos (EVar 0) | EPar _ | ECst _ | ECstQ _ _ | EFun _ _ _ => e
  | EAdd a b => EAdd (subst_cos a) (subst_cos b) | ESub a b => ESub (subst_cos a) (subst_cos b)
  | EMul a b => EMul (subst_cos a) (subst_cos b) | EDiv a b => EDiv (subst_cos a) (subst_cos b)
  | ENeg a => ENeg (subst_cos a) | EPow a n => EPow (subst_cos a) n
  | ESin a => ESin (subst_cos a) | ECos a => ECos (subst_cos a) | EExp a => EExp (subst_cos a)
  | ETanh a => ETanh (subst_cos a) | EAbs a => EAbs (subst_cos a) | ESqrt a => ESqrt (subst_cos a) | ELn a => ELn (subst_cos a)
  end.

Definition zonal_col (l : nat) : expr :=
  EMul (subst_cos (nth l legendre_terms (ECst 0)))
       (ESqrt (EDiv (ECst (Z.of_nat (2 * l + 1))) (EMul (ECst 4) (EPar 0)))).

Lemma zonal_spec :
  zonal_12.terms = map zonal_col (seq 0 13) /\ zonal_4.terms = map zonal_col (seq 0 5) /\
  zonal_1.terms = map zonal_col (seq 0 2) /\ zonal_0.terms = map zonal_col (seq 0 1) /\
  zonal_degrees_7_2.terms = map zonal_col [7; 2]%nat.
Proof. repeat split; vm_compute; reflexivity. Qed.

Fixpoint nofun (e : expr) : bool :=
  match e with
  | EVar _ | EPar _ | ECst _ | ECstQ _ _ => true
  | EAdd a b | ESub a b | EMul a b | EDiv a b => nofun a && nofun b
  | ENeg a | EPow a _ | ESin a | ECos a | EExp a | ETanh a | EAbs a | ESqrt a | ELn a => nofun a
  | EFun _ _ _ => false
  end.

(* substituting cos(theta) for x is evaluation at x = cos theta *)
Lemma eval_subst_cos venv penv fenv e : nofun e = true ->
  eval venv penv fenv (subst_cos e) = eval (fun _ => cos (venv 0%nat)) penv fenv e.
Proof.
  induction e; cbn [nofun subst_cos eval]; intros H;
    try (apply andb_true_iff in H as [H1 H2]; rewrite IHe1, IHe2 by auto); rewrite ?IHe by auto; try reflexivity; discriminate.
Qed.

(* value form: Y_l(theta) = P_l(cos theta) * sqrt((2l+1)/(4 PI)) with P_l the generated Legendre term *)
Lemma zonal_value venv penv fenv l : (l <= 12)%nat -> penv 0%nat = PI ->
  eval venv penv fenv (zonal_col l)
  = eval (fun _ => cos (venv 0%nat)) penv fenv (nth l legendre_terms (ECst 0)) * sqrt (IZR (Z.of_nat (2 * l + 1)) / (4 * PI)).
Proof.
  intros Hl HPI. unfold zonal_col. cbn [eval]. rewrite HPI. f_equal.
  apply eval_subst_cos. do 13 (destruct l as [|l]; [reflexivity|]). lia.
Qed.

(* ---- the zonal basis-space Laplacian equals the spherical Laplacian of the expanded field *)
Ltac zonal_solve venv :=
  reduce_eval; set (R0 := venv 0%nat) in *;
  generalize (sc2 (venv 1%nat)); set (s := sin (venv 1%nat)) in *; set (c := cos (venv 1%nat));
  let H1 := fresh "H1" in intros H1; field [H1]; repeat split; auto;
  try (apply Rgt_not_eq; lra);
  try (apply Rgt_not_eq, sqrt_lt_R0; apply Rdiv_lt_0_compat; lra).

Lemma zonal_laplacian_exact venv penv fenv : venv 0%nat <> 0 -> sin (venv 1%nat) <> 0 -> 0 < penv 0%nat ->
  eval venv penv fenv zonal_lap_0.term = eval venv penv fenv zonal_expansion_0.term /\
  eval venv penv fenv zonal_lap_2.term = eval venv penv fenv zonal_expansion_2.term /\
  eval venv penv fenv zonal_lap_4.term = eval venv penv fenv zonal_expansion_4.term /\
  (* custom degree lists: the eigenvalue must follow the degree, not the column index *)
  eval venv penv fenv zonal_lap_deg_3_1.term = eval venv penv fenv zonal_expansion_deg_3_1.term /\
  eval venv penv fenv zonal_lap_deg_2.term = eval venv penv fenv zonal_expansion_deg_2.term.
Proof. intros Hr Hs Hpi. repeat split; zonal_solve venv. Qed.

(* ---- real Fourier series: column order 1/2, sin(phi), cos(phi), sin(2 phi), cos(2 phi), ... *)
Definition fourier_cols (n : nat) : list expr :=
  EMul (ECst 1) (ECstQ 1 2) ::
  flat_map (fun d => [ESin (EMul (ECst (Z.of_nat d)) (EVar 0)); ECos (EMul (ECst (Z.of_nat d)) (EVar 0))]) (seq 1 n).

Lemma fourier_order :
  fourier_12.terms = fourier_cols 12 /\ fourier_3.terms = fourier_cols 3 /\ fourier_1.terms = fourier_cols 1 /\ fourier_0.terms = fourier_cols 0.
Proof. repeat split; vm_compute; reflexivity. Qed.

(* the Fourier basis-space Laplacian equals the polar Laplacian (cylindrical Laplacian of a z-independent
   field) of the expanded field; leaves r = 0, phi = 1 *)
Lemma fourier_laplacian_exact venv penv fenv : venv 0%nat <> 0 ->
  eval venv penv fenv fourier_lap_0.term = eval venv penv fenv fourier_expansion_0.term /\
  eval venv penv fenv fourier_lap_1.term = eval venv penv fenv fourier_expansion_1.term /\
  eval venv penv fenv fourier_lap_3.term = eval venv penv fenv fourier_expansion_3.term.
Proof. intros Hr. repeat split; reduce_eval; field; repeat split; auto. Qed.
