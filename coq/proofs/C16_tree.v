(* C16: since the repair of _RepeatedMetricChange every callback expression -- stateless or not,
   with repeated-metric leaves anywhere, also behind short-circuiting operands of & and | --
   has, at every evaluation, exactly its documented Boolean meaning (psem): the value depends on
   the solver view only, never on the cached counters, hence never on when the callback was
   created, to which fit() calls it was passed, or which operands were skipped earlier. *)
From Coq Require Import String ZArith List Bool Lia.
From ND.model Require Import Callbacks.
From ND.proofs Require Import C16_pred C16_actions.
Import ListNotations.
Open Scope Z_scope.

Lemma and_loop_value_psem : forall v l,
  Forall (fun q => cond v q = psem v q) l -> fst (and_loop v l) = forallb (psem v) l.
Proof.
  intros v l HF. rewrite and_loop_value. induction HF as [|q r Hq _ IH]; [reflexivity|].
  cbn [forallb]. rewrite Hq, IH. reflexivity.
Qed.

(* tree_spec: the value of condition() is the documented meaning, for EVERY tree and state *)
Theorem tree_spec : forall p v, cond v p = psem v p.
Proof.
  intros p v. revert p.
  apply (pred_ind_nested (fun p => cond v p = psem v p)); try (intros; reflexivity).
  - intros l HF. rewrite and_spec, psem_and. induction HF as [|q r Hq _ IH]; [reflexivity|].
    cbn [forallb]. rewrite Hq, IH. reflexivity.
  - intros l HF. rewrite or_spec, psem_or. induction HF as [|q r Hq _ IH]; [reflexivity|].
    cbn [existsb]. rewrite Hq, IH. reflexivity.
  - intros q IH. rewrite not_spec, IH. reflexivity.
  - intros l HF. rewrite xor_spec, psem_xor. f_equal. induction HF as [|q r Hq _ IH]; [reflexivity|].
    cbn [map]. rewrite Hq, IH. reflexivity.
  - intros k tr mt n s. unfold cond. cbn [step fst psem]. apply leaf_fires.
Qed.

(* evaluating a callback changes cached counters only, which psem never reads *)
Lemma psem_after_step : forall p v w, psem w (snd (step v p)) = psem w p.
Proof.
  intros p. apply (pred_ind_nested (fun p => forall v w, psem w (snd (step v p)) = psem w p));
    try (intros; reflexivity).
  - intros l HF v w. rewrite step_and. destruct (and_loop v l) as [b l'] eqn:E. cbn [snd].
    rewrite !psem_and. revert b l' E. induction HF as [|q t Hq _ IHt]; intros b l' E.
    + cbn [and_loop] in E. injection E as _ E. subst. reflexivity.
    + cbn [and_loop] in E. specialize (Hq v w). destruct (step v q) as [c q']. cbn [snd] in Hq.
      destruct c.
      * destruct (and_loop v t) as [b' t'] eqn:Et. injection E as _ E. subst.
        cbn [forallb]. rewrite Hq, (IHt b' t' eq_refl). reflexivity.
      * injection E as _ E. subst. cbn [forallb]. rewrite Hq. reflexivity.
  - intros l HF v w. rewrite step_or. destruct (or_loop v l) as [b l'] eqn:E. cbn [snd].
    rewrite !psem_or. revert b l' E. induction HF as [|q t Hq _ IHt]; intros b l' E.
    + cbn [or_loop] in E. injection E as _ E. subst. reflexivity.
    + cbn [or_loop] in E. specialize (Hq v w). destruct (step v q) as [c q']. cbn [snd] in Hq.
      destruct c.
      * injection E as _ E. subst. cbn [existsb]. rewrite Hq. reflexivity.
      * destruct (or_loop v t) as [b' t'] eqn:Et. injection E as _ E. subst.
        cbn [existsb]. rewrite Hq, (IHt b' t' eq_refl). reflexivity.
  - intros q Hq v w. rewrite step_not. specialize (Hq v w). destruct (step v q) as [c q'].
    cbn [snd psem] in *. rewrite Hq. reflexivity.
  - intros l HF v w. rewrite step_xor. destruct (xor_loop v l) as [n l'] eqn:E. cbn [snd].
    rewrite !psem_xor. f_equal. revert n l' E. induction HF as [|q t Hq _ IHt]; intros n l' E.
    + cbn [xor_loop] in E. injection E as _ E. subst. reflexivity.
    + cbn [xor_loop] in E. specialize (Hq v w). destruct (step v q) as [c q']. cbn [snd] in Hq.
      destruct (xor_loop v t) as [n' t'] eqn:Et. injection E as _ E. subst.
      cbn [map]. rewrite Hq, (IHt n' t' eq_refl). reflexivity.
Qed.

(* repeated_tree_spec, FULL strength: any callback expression in any state, evaluated on ANY
   sequence of solver views (any subset of the epochs, any fit() calls): at every evaluation it
   fires iff its documented Boolean meaning holds for the view of that evaluation. *)
Theorem repeated_tree_spec : forall vs p, fst (run_pred p vs) = map (fun v => psem v p) vs.
Proof.
  induction vs as [|v r IH]; intros p; [reflexivity|].
  cbn [run_pred map]. pose proof (tree_spec p v) as Hv. pose proof (psem_after_step p v) as Hs.
  unfold cond in Hv. destruct (step v p) as [b p']. cbn [fst snd] in *.
  specialize (IH p'). destruct (run_pred p' r) as [bs p'']. cbn [fst] in *.
  rewrite Hv, IH. f_equal. apply map_ext. intros w. apply Hs.
Qed.

(* what used to be the recorded deviations, now instances of the theorem *)
Example late_attachment_ok :
  cond (mkView 1 4 2 [4; 3; 2; 1] [] []) (repeated (RUp 0) true 2) = true.
Proof. reflexivity. Qed.

Example short_circuit_ok :
  let p := POr [period_local 4 0; repeated (RUp 0) true 2] in
  fst (run_pred p [mkView 1 1 5 [1] [] []; mkView 2 2 5 [2; 1] [] []; mkView 3 3 5 [3; 2; 1] [] [];
                   mkView 4 4 5 [0; 3; 2; 1] [] []; mkView 5 5 5 [1; 0; 3; 2; 1] [] []])
  = [false; false; true; true; false].
Proof. reflexivity. Qed.
