(* C16: a whole callback expression containing repeated-metric leaves agrees with the documented
   Boolean meaning (psem) at every epoch, provided every stateful leaf is evaluated at every
   epoch (no stateful leaf behind a short-circuiting position) from the first epoch on and both
   histories grow by one entry per epoch. *)
From Coq Require Import ZArith List Bool Lia.
From ND.model Require Import Callbacks.
From ND.proofs Require Import C16_pred C16_actions.
Import ListNotations.
Open Scope Z_scope.

(* every counter equals the streak of the history it watches *)
Fixpoint synced (ht hv : list Z) (p : pred) {struct p} : Prop :=
  match p with
  | PAnd l | POr l | PXor l =>
      (fix all (l : list pred) : Prop := match l with [] => True | q :: r => synced ht hv q /\ all r end) l
  | PNot q => synced ht hv q
  | PRepeated k tr n s => s = Z.of_nat (streak (rel_of k) (if tr then ht else hv))
  | _ => True
  end.

(* every stateful leaf is reached at every evaluation: below & and | only the FIRST operand
   may contain state (the others may be skipped); ^ and ~ always evaluate all operands *)
Fixpoint always_eval (p : pred) {struct p} : bool :=
  match p with
  | PAnd l | POr l => match l with [] => true | q :: r => always_eval q && forallb stateless r end
  | PXor l => (fix all (l : list pred) : bool := match l with [] => true | q :: r => always_eval q && all r end) l
  | PNot q => always_eval q
  | _ => true
  end.

Fixpoint fresh (p : pred) {struct p} : bool :=
  match p with
  | PAnd l | POr l | PXor l => (fix all (l : list pred) : bool := match l with [] => true | q :: r => fresh q && all r end) l
  | PNot q => fresh q
  | PRepeated _ _ _ s => s =? 0
  | _ => true
  end.

Lemma synced_list : forall ht hv l,
  (fix all (l : list pred) : Prop := match l with [] => True | q :: r => synced ht hv q /\ all r end) l
  <-> Forall (synced ht hv) l.
Proof.
  intros ht hv. induction l as [|q r IH]; [split; [constructor|trivial]|].
  split.
  - intros [H1 H2]. constructor; [exact H1|apply IH; exact H2].
  - intros H. inversion H; subst. split; [assumption|apply IH; assumption].
Qed.

Lemma synced_and : forall ht hv l, synced ht hv (PAnd l) <-> Forall (synced ht hv) l.
Proof. intros ht hv l. apply (synced_list ht hv l). Qed.
Lemma synced_or : forall ht hv l, synced ht hv (POr l) <-> Forall (synced ht hv) l.
Proof. intros ht hv l. apply (synced_list ht hv l). Qed.
Lemma synced_xor : forall ht hv l, synced ht hv (PXor l) <-> Forall (synced ht hv) l.
Proof. intros ht hv l. apply (synced_list ht hv l). Qed.

Lemma always_eval_xor : forall l, always_eval (PXor l) = forallb always_eval l.
Proof. induction l as [|q r IH]; [reflexivity|]. cbn [forallb]. rewrite <- IH. reflexivity. Qed.

Lemma fresh_list : forall l,
  (fix all (l : list pred) : bool := match l with [] => true | q :: r => fresh q && all r end) l = forallb fresh l.
Proof. induction l as [|q r IH]; [reflexivity|]. cbn [forallb]. rewrite <- IH. reflexivity. Qed.

Lemma stateless_synced : forall ht hv p, stateless p = true -> synced ht hv p.
Proof.
  intros ht hv.
  apply (pred_ind_nested (fun p => stateless p = true -> synced ht hv p)); try (intros; exact I).
  - intros l HF Hs. rewrite stateless_and in Hs. apply synced_and.
    rewrite forallb_forall in Hs. rewrite Forall_forall in *. intros q Hq. apply HF; [exact Hq|apply Hs; exact Hq].
  - intros l HF Hs. rewrite stateless_or in Hs. apply synced_or.
    rewrite forallb_forall in Hs. rewrite Forall_forall in *. intros q Hq. apply HF; [exact Hq|apply Hs; exact Hq].
  - intros q IH Hs. cbn [stateless] in Hs. cbn [synced]. apply IH. exact Hs.
  - intros l HF Hs. rewrite stateless_xor in Hs. apply synced_xor.
    rewrite forallb_forall in Hs. rewrite Forall_forall in *. intros q Hq. apply HF; [exact Hq|apply Hs; exact Hq].
  - intros k tr n s Hs. discriminate Hs.
Qed.

Lemma stateless_list_synced : forall ht hv l, forallb stateless l = true -> Forall (synced ht hv) l.
Proof.
  intros ht hv l Hs. rewrite forallb_forall in Hs. apply Forall_forall. intros q Hq.
  apply stateless_synced. apply Hs. exact Hq.
Qed.

Lemma stateless_facts : forall v l,
  Forall (fun q => stateless q = true -> step v q = (psem v q, q)) l.
Proof. intros v l. apply Forall_forall. intros q _ Hs. apply stateless_spec. exact Hs. Qed.

Lemma fresh_synced : forall p, fresh p = true -> synced [] [] p.
Proof.
  apply (pred_ind_nested (fun p => fresh p = true -> synced [] [] p)); try (intros; exact I).
  - intros l HF Hs. cbn [fresh] in Hs. rewrite fresh_list in Hs. apply synced_and.
    rewrite forallb_forall in Hs. rewrite Forall_forall in *. intros q Hq. apply HF; [exact Hq|apply Hs; exact Hq].
  - intros l HF Hs. cbn [fresh] in Hs. rewrite fresh_list in Hs. apply synced_or.
    rewrite forallb_forall in Hs. rewrite Forall_forall in *. intros q Hq. apply HF; [exact Hq|apply Hs; exact Hq].
  - intros q IH Hs. cbn [fresh] in Hs. cbn [synced]. apply IH. exact Hs.
  - intros l HF Hs. cbn [fresh] in Hs. rewrite fresh_list in Hs. apply synced_xor.
    rewrite forallb_forall in Hs. rewrite Forall_forall in *. intros q Hq. apply HF; [exact Hq|apply Hs; exact Hq].
  - intros k tr n s Hs. cbn [fresh] in Hs. apply Z.eqb_eq in Hs. subst s. cbn [synced]. destruct tr; reflexivity.
Qed.

Section OneEpoch.
  Variables (ht hv : list Z) (x y : Z) (v : view).
  Hypothesis Htrain : v_train v = x :: ht.
  Hypothesis Hvalid : v_valid v = y :: hv.

  Definition good (p : pred) : Prop :=
    always_eval p = true -> synced ht hv p ->
    exists p', step v p = (psem v p, p') /\ synced (x :: ht) (y :: hv) p' /\ always_eval p' = true.

  Lemma xor_loop_good : forall l, Forall good l -> forallb always_eval l = true -> Forall (synced ht hv) l ->
    exists l', snd (xor_loop v l) = l' /\ Z.odd (fst (xor_loop v l)) = parity (map (psem v) l) /\
               Forall (synced (x :: ht) (y :: hv)) l' /\ forallb always_eval l' = true.
  Proof.
    intros l HF. induction HF as [|q r Hq _ IH]; intros Ha Hs.
    - exists []. repeat split. constructor.
    - cbn [forallb] in Ha. apply andb_true_iff in Ha. destruct Ha as [Ha1 Ha2].
      inversion Hs as [|? ? Hs1 Hs2]; subst.
      destruct (Hq Ha1 Hs1) as [q' [E1 [E2 E3]]]. destruct (IH Ha2 Hs2) as [r' [F1 [F2 [F3 F4]]]].
      cbn [xor_loop map]. rewrite E1. destruct (xor_loop v r) as [n r0]. cbn [fst snd] in *. subst r0.
      exists (q' :: r'). repeat split.
      + unfold parity in *. cbn [fold_right]. rewrite odd_bit, F2. reflexivity.
      + constructor; assumption.
      + cbn [forallb]. rewrite E3, F4. reflexivity.
  Qed.

  Lemma one_epoch : forall p, good p.
  Proof.
    apply (pred_ind_nested good); unfold good;
      try (intros; eexists; split; [reflexivity|split; [exact I|reflexivity]]).
    - (* And *)
      intros l HF Ha Hs. apply synced_and in Hs. rewrite step_and, psem_and.
      destruct l as [|q r].
      + exists (PAnd []). split; [reflexivity|]. split; [exact I|reflexivity].
      + cbn [always_eval] in Ha. apply andb_true_iff in Ha. destruct Ha as [Ha1 Ha2].
        inversion HF as [|? ? Hq _]; subst. inversion Hs as [|? ? Hs1 Hs2]; subst.
        destruct (Hq Ha1 Hs1) as [q' [E1 [E2 E3]]].
        cbn [and_loop forallb]. rewrite E1.
        exists (PAnd (q' :: r)). destruct (psem v q); cbn [andb].
        * rewrite (and_loop_stateless v r (stateless_facts v r) Ha2). split; [reflexivity|]. split.
          -- apply synced_and. constructor; [exact E2|apply stateless_list_synced; exact Ha2].
          -- cbn [always_eval]. rewrite E3, Ha2. reflexivity.
        * split; [reflexivity|]. split.
          -- apply synced_and. constructor; [exact E2|apply stateless_list_synced; exact Ha2].
          -- cbn [always_eval]. rewrite E3, Ha2. reflexivity.
    - (* Or *)
      intros l HF Ha Hs. apply synced_or in Hs. rewrite step_or, psem_or.
      destruct l as [|q r].
      + exists (POr []). split; [reflexivity|]. split; [exact I|reflexivity].
      + cbn [always_eval] in Ha. apply andb_true_iff in Ha. destruct Ha as [Ha1 Ha2].
        inversion HF as [|? ? Hq _]; subst. inversion Hs as [|? ? Hs1 Hs2]; subst.
        destruct (Hq Ha1 Hs1) as [q' [E1 [E2 E3]]].
        cbn [or_loop existsb]. rewrite E1.
        exists (POr (q' :: r)). destruct (psem v q); cbn [orb].
        * split; [reflexivity|]. split.
          -- apply synced_or. constructor; [exact E2|apply stateless_list_synced; exact Ha2].
          -- cbn [always_eval]. rewrite E3, Ha2. reflexivity.
        * rewrite (or_loop_stateless v r (stateless_facts v r) Ha2). split; [reflexivity|]. split.
          -- apply synced_or. constructor; [exact E2|apply stateless_list_synced; exact Ha2].
          -- cbn [always_eval]. rewrite E3, Ha2. reflexivity.
    - (* Not *)
      intros q IH Ha Hs. cbn [always_eval] in Ha. cbn [synced] in Hs.
      destruct (IH Ha Hs) as [q' [E1 [E2 E3]]]. rewrite step_not, E1.
      exists (PNot q'). split; [reflexivity|]. split; assumption.
    - (* Xor *)
      intros l HF Ha Hs. apply synced_xor in Hs. rewrite always_eval_xor in Ha.
      destruct (xor_loop_good l HF Ha Hs) as [l' [F1 [F2 [F3 F4]]]].
      rewrite step_xor, psem_xor. destruct (xor_loop v l) as [n l0]. cbn [fst snd] in *. subst l0.
      exists (PXor l'). rewrite mod2_odd, F2. split; [reflexivity|]. split.
      + apply synced_xor. exact F3.
      + rewrite always_eval_xor. exact F4.
    - (* Repeated *)
      intros k tr n s _ Hs. cbn [synced] in Hs. subst s.
      exists (snd (step v (PRepeated k tr n (Z.of_nat (streak (rel_of k) (if tr then ht else hv)))))).
      cbn [step snd psem]. unfold hist_of. destruct tr.
      * rewrite Htrain, (so_far_step_streak (rel_of k) ht x). split; [reflexivity|]. split; reflexivity.
      * rewrite Hvalid, (so_far_step_streak (rel_of k) hv y). split; [reflexivity|]. split; reflexivity.
  Qed.
End OneEpoch.

(* views of consecutive epochs: both histories grow by exactly one entry per view *)
Fixpoint consecutive (ht hv : list Z) (vs : list view) : Prop :=
  match vs with
  | [] => True
  | v :: r => exists x y, v_train v = x :: ht /\ v_valid v = y :: hv /\ consecutive (x :: ht) (y :: hv) r
  end.

Lemma run_synced : forall vs ht hv p,
  always_eval p = true -> synced ht hv p -> consecutive ht hv vs ->
  fst (run_pred p vs) = map (fun v => psem v p) vs.
Proof.
  induction vs as [|v r IH]; intros ht hv p Ha Hs Hc; [reflexivity|].
  cbn [consecutive] in Hc. destruct Hc as [x [y [Ht [Hv Hc]]]].
  destruct (one_epoch ht hv x y v Ht Hv p Ha Hs) as [p' [E1 [E2 E3]]].
  cbn [run_pred map]. rewrite E1.
  specialize (IH (x :: ht) (y :: hv) p' E3 E2 Hc).
  destruct (run_pred p' r) as [bs p'']. cbn [fst] in *. rewrite IH. f_equal.
  (* psem does not read the counters: p and p' differ only there *)
  clear - E1. revert r. intros r. apply map_ext_in. intros w _.
  revert p p' E1. generalize v.
  assert (G : forall p v0 w0, psem w0 (snd (step v0 p)) = psem w0 p).
  { intros p0. apply (pred_ind_nested (fun p => forall v0 w0, psem w0 (snd (step v0 p)) = psem w0 p));
      try (intros; reflexivity).
    - intros l HF v0 w0. rewrite step_and. destruct (and_loop v0 l) as [b l'] eqn:E. cbn [snd].
      rewrite !psem_and. revert b l' E. induction HF as [|q t Hq _ IHt]; intros b l' E.
      + cbn [and_loop] in E. injection E as _ E. subst. reflexivity.
      + cbn [and_loop] in E. specialize (Hq v0 w0). destruct (step v0 q) as [c q']. cbn [snd] in Hq.
        destruct c.
        * destruct (and_loop v0 t) as [b' t'] eqn:Et. injection E as _ E. subst.
          cbn [forallb]. rewrite Hq, (IHt b' t' eq_refl). reflexivity.
        * injection E as _ E. subst. cbn [forallb]. rewrite Hq. reflexivity.
    - intros l HF v0 w0. rewrite step_or. destruct (or_loop v0 l) as [b l'] eqn:E. cbn [snd].
      rewrite !psem_or. revert b l' E. induction HF as [|q t Hq _ IHt]; intros b l' E.
      + cbn [or_loop] in E. injection E as _ E. subst. reflexivity.
      + cbn [or_loop] in E. specialize (Hq v0 w0). destruct (step v0 q) as [c q']. cbn [snd] in Hq.
        destruct c.
        * injection E as _ E. subst. cbn [existsb]. rewrite Hq. reflexivity.
        * destruct (or_loop v0 t) as [b' t'] eqn:Et. injection E as _ E. subst.
          cbn [existsb]. rewrite Hq, (IHt b' t' eq_refl). reflexivity.
    - intros q Hq v0 w0. rewrite step_not. specialize (Hq v0 w0). destruct (step v0 q) as [c q'].
      cbn [snd psem] in *. rewrite Hq. reflexivity.
    - intros l HF v0 w0. rewrite step_xor. destruct (xor_loop v0 l) as [n l'] eqn:E. cbn [snd].
      rewrite !psem_xor. f_equal. revert n l' E. induction HF as [|q t Hq _ IHt]; intros n l' E.
      + cbn [xor_loop] in E. injection E as _ E. subst. reflexivity.
      + cbn [xor_loop] in E. specialize (Hq v0 w0). destruct (step v0 q) as [c q']. cbn [snd] in Hq.
        destruct (xor_loop v0 t) as [n' t'] eqn:Et. injection E as _ E. subst.
        cbn [map]. rewrite Hq, (IHt n' t' eq_refl). reflexivity. }
  intros v0 p p' E. specialize (G p v0 w). rewrite E in G. cbn [snd] in G. exact G.
Qed.

(* The theorem.  A fresh callback expression (all counters 0) in which every stateful leaf is
   always evaluated, attached before the first epoch and evaluated once per epoch: at every
   epoch it fires iff its documented Boolean meaning holds, where a repeated-metric leaf
   means "the latest n consecutive history pairs satisfy the relation". *)
Theorem repeated_tree_spec : forall p vs,
  fresh p = true -> always_eval p = true -> consecutive [] [] vs ->
  fst (run_pred p vs) = map (fun v => psem v p) vs.
Proof.
  intros p vs Hf Ha Hc. apply (run_synced vs [] [] p Ha (fresh_synced p Hf) Hc).
Qed.

Example tree_nonvacuous :
  let p := PAnd [PNot (repeated (RDown 1) true 1); PIntLocal (Some 2) None] in
  fresh p = true /\ always_eval p = true /\
  consecutive [] [] [mkView 1 1 3 [5] [0]; mkView 2 2 3 [5; 5] [0; 0]; mkView 3 3 3 [3; 5; 5] [0; 0; 0]].
Proof.
  cbv zeta. repeat split. cbn [consecutive v_train v_valid].
  exists 5, 0. repeat split. exists 5, 0. repeat split. exists 3, 0. repeat split.
Qed.
