(* C16: EveCallback sets n_batches['train'] = min(n_0 * 2^k, n_max),
   k = max(0, floor(log_p(v / v_0))), for v > 0 away from the doubling boundaries. *)
From Coq Require Import Reals ZArith Lia Lra.
From Flocq Require Import Core.Raux.
From ND.model Require Import Callbacks CallbacksEve.
Open Scope R_scope.

(* int() truncates, the documentation floors: the same after max(., 0) *)
Lemma max0_trunc_floor : forall x : R, Z.max (Ztrunc x) 0 = Z.max (Zfloor x) 0.
Proof.
  intros x. destruct (Rle_or_lt 0 x) as [H|H].
  - rewrite Ztrunc_floor by exact H. reflexivity.
  - rewrite Ztrunc_ceil by lra.
    assert (H1 : (Zceil x <= 0)%Z) by (apply Zceil_glb; simpl; lra).
    assert (H2 : (Zfloor x <= 0)%Z).
    { apply Z.lt_succ_r. apply lt_IZR. pose proof (Zfloor_lb x). rewrite succ_IZR. simpl. lra. }
    lia.
Qed.

(* adding EPS does not change the floor when the fractional part is below 1 - EPS *)
Lemma floor_eps : forall x : R, x - IZR (Zfloor x) < 1 - EVE_EPS -> Zfloor (EVE_EPS + x) = Zfloor x.
Proof.
  intros x H. apply Zfloor_imp. pose proof (Zfloor_lb x) as L. rewrite plus_IZR. simpl.
  unfold EVE_EPS in *. lra.
Qed.

Lemma log_ratio : forall v v0 p : R, 0 < v -> 0 < v0 ->
  (ln v - ln v0) / ln p = ln (v / v0) / ln p.
Proof.
  intros v v0 p Hv Hv0. f_equal. unfold Rdiv. rewrite ln_mult, ln_Rinv; try assumption.
  - reflexivity.
  - apply Rinv_0_lt_compat. exact Hv0.
Qed.

Theorem eve_spec : forall (n_0 : Z) (n_max : option Z) (v v0 p : R),
  0 < v -> 0 < v0 -> 0 < p -> p <> 1 -> n_max <> Some 0%Z ->
  let x := ln (v / v0) / ln p in
  x - IZR (Zfloor x) < 1 - EVE_EPS ->
  eve_n n_0 n_max v v0 p = min_cap (n_0 * 2 ^ Z.max 0 (Zfloor x)) n_max.
Proof.
  intros n_0 n_max v v0 p Hv Hv0 _ _ Hm x Hx.
  unfold eve_n, eve_batches, eve_arg. rewrite (log_ratio v v0 p Hv Hv0). fold x.
  rewrite max0_trunc_floor, (floor_eps x Hx), (Z.max_comm (Zfloor x) 0).
  f_equal. unfold eve_cap. destruct n_max as [m|]; [|reflexivity].
  destruct (Z.eqb_spec m 0) as [E|E]; [subst m; contradiction|reflexivity].
Qed.

(* the documented special case: v / v_0 = p^k exactly gives n_0 * 2^k (k >= 0, no cap) *)
Corollary eve_at_power : forall (n_0 : Z) (v0 p : R) (k : nat),
  0 < v0 -> 0 < p -> p <> 1 ->
  eve_n n_0 None (v0 * p ^ k) v0 p = (n_0 * 2 ^ Z.of_nat k)%Z.
Proof.
  intros n_0 v0 p k Hv0 Hp Hp1.
  assert (Hpk : 0 < p ^ k) by (apply pow_lt; exact Hp).
  assert (Hln : ln p <> 0).
  { intros E. apply Hp1. apply ln_inv; try lra. rewrite ln_1. exact E. }
  assert (Ex : ln (v0 * p ^ k / v0) / ln p = IZR (Z.of_nat k)).
  { replace (v0 * p ^ k / v0) with (p ^ k) by (field; lra).
    rewrite ln_pow by exact Hp. rewrite <- INR_IZR_INZ. field. exact Hln. }
  rewrite eve_spec; try (apply Rmult_lt_0_compat; assumption); try assumption; try discriminate.
  - cbv zeta. rewrite Ex, Zfloor_IZR. cbn [min_cap]. rewrite Z.max_r by lia. reflexivity.
  - cbv zeta. rewrite Ex, Zfloor_IZR. unfold EVE_EPS. lra.
Qed.

Example eve_nonvacuous : eve_batches 3 (Some 20%Z) 2 = 12%Z /\ eve_batches 3 (Some 20%Z) 3 = 20%Z /\ eve_batches 3 None (-4) = 3%Z.
Proof. repeat split. Qed.
