(* C02 — irregular domain: the enforced function equals the prescribed value at every Dirichlet
   control point, for every network, any number of control points.  Model: model/TPS.v; tie to
   the term regenerated from pde.py for 4 and 5 control points. *)
From Coq Require Import Reals List Lra Lia ZArith Field.
From ND.lib Require Import Expr Tac.
From ND.model Require Import TPS.
From ND.gen Require Import Gen_C02.
Import ListNotations.
Open Scope R_scope.

(* if c solves row p of the fitted system with right-hand side v, the spline takes value v at p *)
Theorem interp_at_control_point coefs cps p v :
  dot coefs (system_row cps p) = v -> interp coefs cps p = v.
Proof. intros H. exact H. Qed.

(* the circular targets lie on the circle, so the length factor vanishes at control points *)
Theorem length_factor_at_control_point radius cx cy cps p theta :
  interp cx cps p = radius * cos theta -> interp cy cps p = radius * sin theta ->
  length_factor radius [cx; cy] cps p = 0.
Proof.
  intros Hx Hy. unfold length_factor. cbn [map fold_right]. rewrite Hx, Hy.
  generalize (sin2_cos2 theta). unfold Rsqr. intros H.
  replace (radius ^ 2 - ((radius * cos theta) ^ 2 + ((radius * sin theta) ^ 2 + 0)))
    with (radius * radius * (1 - (sin theta * sin theta + cos theta * cos theta))) by ring.
  rewrite H. ring.
Qed.

(* hence: enforce(net)(p_i) = val_i, whatever the network returns *)
Theorem custom_enforce_at_control_point radius a_coefs cx cy cps p v theta net :
  dot a_coefs (system_row cps p) = v ->
  dot cx (system_row cps p) = radius * cos theta -> dot cy (system_row cps p) = radius * sin theta ->
  custom_enforce radius a_coefs [cx; cy] cps net p = v.
Proof.
  intros Ha Hx Hy. unfold custom_enforce.
  rewrite (interp_at_control_point _ _ _ _ Ha).
  rewrite (length_factor_at_control_point radius cx cy cps p theta); auto. ring.
Qed.

(* ------------------------------------------------------------------ tie to the generated terms *)
Definition plist (penv : nat -> R) (from n : nat) : list R := map penv (seq from n).

Lemma tie_custom_enforce_4 venv penv fenv :
  let cps := [[penv 0; penv 1]; [penv 2; penv 3]; [penv 4; penv 5]; [penv 6; penv 7]]%nat in
  eval venv penv fenv custom_enforce_4.term =
  custom_enforce (penv 29%nat) (plist penv 8 7) [plist penv 15 7; plist penv 22 7] cps
                 (fenv 0%nat [0;0]%nat [venv 0%nat; venv 1%nat]) [venv 0%nat; venv 1%nat].
Proof.
  cbv zeta. reduce_eval.
  cbv [custom_enforce length_factor interp basis kern ri_sq sq_dist stiff2 plist map seq dot app fold_right fold_left combine fst snd].
  ring.
Qed.

Lemma tie_custom_enforce_5 venv penv fenv :
  let cps := [[penv 0; penv 1]; [penv 2; penv 3]; [penv 4; penv 5]; [penv 6; penv 7]; [penv 8; penv 9]]%nat in
  eval venv penv fenv custom_enforce_5.term =
  custom_enforce (penv 34%nat) (plist penv 10 8) [plist penv 18 8; plist penv 26 8] cps
                 (fenv 0%nat [0;0]%nat [venv 0%nat; venv 1%nat]) [venv 0%nat; venv 1%nat].
Proof.
  cbv zeta. reduce_eval.
  cbv [custom_enforce length_factor interp basis kern ri_sq sq_dist stiff2 plist map seq dot app fold_right fold_left combine fst snd].
  ring.
Qed.

Lemma tie_custom_unit : custom_enforce_4_unit.term = custom_enforce_4.term.
Proof. vm_compute. reflexivity. Qed.

(* the two kernel helpers (fitting vs evaluation) are the same function of (point, control point) *)
Lemma tie_kernels venv penv fenv :
  eval venv penv fenv ri_sq_pretrain.term = ri_sq [penv 0%nat; penv 1%nat] [penv 2%nat; penv 3%nat] /\
  eval venv penv fenv ri_sq_trainval.term = ri_sq [venv 0%nat; venv 1%nat] [penv 2%nat; penv 3%nat].
Proof. split; reduce_eval; cbv [ri_sq sq_dist stiff2 fold_left combine fst snd]; ring. Qed.

(* instantiated: the regenerated 4-point condition takes the prescribed value at control point 0 *)
Corollary generated_custom_enforce_at_cp0 venv penv fenv v theta :
  let cps := [[penv 0; penv 1]; [penv 2; penv 3]; [penv 4; penv 5]; [penv 6; penv 7]]%nat in
  venv 0%nat = penv 0%nat -> venv 1%nat = penv 1%nat ->
  dot (plist penv 8 7) (system_row cps [penv 0; penv 1]%nat) = v ->
  dot (plist penv 15 7) (system_row cps [penv 0; penv 1]%nat) = penv 29%nat * cos theta ->
  dot (plist penv 22 7) (system_row cps [penv 0; penv 1]%nat) = penv 29%nat * sin theta ->
  eval venv penv fenv custom_enforce_4.term = v.
Proof.
  cbv zeta. intros Hx Hy Ha Hc Hs. rewrite tie_custom_enforce_4. cbv zeta. rewrite Hx, Hy.
  eapply custom_enforce_at_control_point; eauto.
Qed.
