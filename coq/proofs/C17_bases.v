(* C17 — bases and basis-space Laplacians: column order of the real spherical harmonics, the
   basis-space operators equal the full Laplacians of the expanded field, Legendre / zonal /
   Fourier bases.  DESIGN.md §7 C17. *)
From Coq Require Import Reals List Lra Lia ZArith Field Bool.
From ND.lib Require Import Expr ExprLemmas Tac.
From ND.gen Require Import Gen_C17.
From ND.proofs Require Import C17_harmonics.
Import ListNotations.
Open Scope R_scope.

Definition Ys : list expr := [Y0_0.term; Y1n1.term; Y1_0.term; Y1p1.term; Y2n2.term; Y2n1.term; Y2_0.term; Y2p1.term; Y2p2.term; Y3n3.term; Y3n2.term; Y3n1.term; Y3_0.term; Y3p1.term; Y3p2.term; Y3p3.term; Y4n4.term; Y4n3.term; Y4n2.term; Y4n1.term; Y4_0.term; Y4p1.term; Y4p2.term; Y4p3.term; Y4p4.term].
Definition Ydegrees : list nat := [0; 1; 1; 1; 2; 2; 2; 2; 2; 3; 3; 3; 3; 3; 3; 3; 4; 4; 4; 4; 4; 4; 4; 4; 4]%nat.
Definition singles_basis : list expr := [single_basis_0.term; single_basis_1.term; single_basis_2.term; single_basis_3.term; single_basis_4.term; single_basis_5.term; single_basis_6.term; single_basis_7.term; single_basis_8.term; single_basis_9.term; single_basis_10.term; single_basis_11.term; single_basis_12.term; single_basis_13.term; single_basis_14.term; single_basis_15.term; single_basis_16.term; single_basis_17.term; single_basis_18.term; single_basis_19.term; single_basis_20.term; single_basis_21.term; single_basis_22.term; single_basis_23.term; single_basis_24.term].
Definition singles_sph : list expr := [single_sph_0.term; single_sph_1.term; single_sph_2.term; single_sph_3.term; single_sph_4.term; single_sph_5.term; single_sph_6.term; single_sph_7.term; single_sph_8.term; single_sph_9.term; single_sph_10.term; single_sph_11.term; single_sph_12.term; single_sph_13.term; single_sph_14.term; single_sph_15.term; single_sph_16.term; single_sph_17.term; single_sph_18.term; single_sph_19.term; single_sph_20.term; single_sph_21.term; single_sph_22.term; single_sph_23.term; single_sph_24.term].

(* ------------------------------------------------------------------ column order *)
Lemma harmonics_order :
  harmonics_4.terms = Ys /\ harmonics_3.terms = firstn 16 Ys /\ harmonics_2.terms = firstn 9 Ys /\
  harmonics_1.terms = firstn 4 Ys /\ harmonics_0.terms = firstn 1 Ys /\ harmonics_reject_5.raises = true.
Proof. repeat split. Qed.

(* position j of the list has the degree whose eigenvalue -l(l+1) HarmonicsLaplacian uses at j *)
Lemma harmonics_degrees : map snd (combine Ys Ydegrees) = map fst index_Y /\ List.length Ys = 25%nat.
Proof. split; reflexivity. Qed.

(* ------------------------------------------------------------------ renaming the coefficient symbol *)
Fixpoint rename_to (k : nat) (e : expr) : expr :=
  match e with
  | EVar _ | EPar _ | ECst _ | ECstQ _ _ => e
  | EAdd a b => EAdd (rename_to k a) (rename_to k b) | ESub a b => ESub (rename_to k a) (rename_to k b)
  | EMul a b => EMul (rename_to k a) (rename_to k b) | EDiv a b => EDiv (rename_to k a) (rename_to k b)
  | ENeg a => ENeg (rename_to k a) | EPow a n => EPow (rename_to k a) n
  | ESin a => ESin (rename_to k a) | ECos a => ECos (rename_to k a) | EExp a => EExp (rename_to k a)
  | ETanh a => ETanh (rename_to k a) | EAbs a => EAbs (rename_to k a) | ESqrt a => ESqrt (rename_to k a)
  | ELn a => ELn (rename_to k a)
  | EFun _ al ar => EFun k al ar
  end.

Lemma eval_rename venv penv fenv k e :
  eval venv penv fenv (rename_to k e) = eval venv penv (fun _ => fenv k) e.
Proof. induction e; cbn [rename_to eval]; congruence. Qed.

Definition sum_left (l : list expr) : expr :=
  match l with [] => ECst 0 | a :: r => fold_left EAdd r a end.

Fixpoint renamed (k : nat) (l : list expr) : list expr :=
  match l with [] => [] | e :: r => rename_to k e :: renamed (S k) r end.

(* the basis-space operator is literally the sum of its per-harmonic summands *)
Lemma harm_lap_is_sum :
  harm_lap_4.term = sum_left (renamed 0 (firstn 25 singles_basis)) /\
  harm_lap_3.term = sum_left (renamed 0 (firstn 16 singles_basis)) /\
  harm_lap_2.term = sum_left (renamed 0 (firstn 9 singles_basis)) /\
  harm_lap_1.term = sum_left (renamed 0 (firstn 4 singles_basis)) /\
  harm_lap_0.term = sum_left (renamed 0 (firstn 1 singles_basis)).
Proof. repeat split; vm_compute; reflexivity. Qed.

(* ------------------------------------------------------------------ model of operators.spherical_laplacian *)
(* leaves r = 0, theta = 1, phi = 2, as in the generated modules *)
Definition sph_lap_model (u : expr) : expr :=
  (D 0 (EPow (EVar 0) 2 *' D 0 u) +' D 1 (ESin (EVar 1) *' D 1 u) /' ESin (EVar 1) +' D 2 (D 2 u) /' EPow (ESin (EVar 1)) 2)
  /' EPow (EVar 0) 2.

Lemma tie_sph_lap_model : sph_lap_U.term = sph_lap_model (EFun 0 [0;0;0]%nat [AVar 0; AVar 1; AVar 2]%nat).
Proof. reflexivity. Qed.

Definition Rsym : expr := EFun 0 [0]%nat [AVar 0%nat].

(* lift a term over (theta, phi) = leaves (0, 1) to the numbering (r, theta, phi) = (0, 1, 2) *)
Fixpoint lift (e : expr) : expr :=
  match e with
  | EVar v => EVar (S v) | EPar _ | ECst _ | ECstQ _ _ => e
  | EAdd a b => EAdd (lift a) (lift b) | ESub a b => ESub (lift a) (lift b)
  | EMul a b => EMul (lift a) (lift b) | EDiv a b => EDiv (lift a) (lift b)
  | ENeg a => ENeg (lift a) | EPow a n => EPow (lift a) n
  | ESin a => ESin (lift a) | ECos a => ECos (lift a) | EExp a => EExp (lift a)
  | ETanh a => ETanh (lift a) | EAbs a => EAbs (lift a) | ESqrt a => ESqrt (lift a) | ELn a => ELn (lift a)
  | EFun f al ar => EFun f al (map (fun a => match a with AVar v => AVar (S v) | APar p => APar p end) ar)
  end.

Section Lin.
  Variable venv penv : nat -> R.
  Variable fenv : nat -> list nat -> list R -> R.
  Hypothesis Hr : venv 0%nat <> 0.
  Hypothesis Hs : sin (venv 1%nat) <> 0.
  Notation ev := (eval venv penv fenv).

  (* the spherical Laplacian is linear *)
  Lemma sph_lap_model_add a b : ev (sph_lap_model (a +' b)) = ev (sph_lap_model a) + ev (sph_lap_model b).
  Proof. unfold sph_lap_model. cbn [D eval Nat.eqb]. field. auto. Qed.

  Lemma sph_lap_model_sum a l :
    ev (sph_lap_model (fold_left EAdd l a)) = fold_left (fun acc e => acc + ev (sph_lap_model e)) l (ev (sph_lap_model a)).
  Proof.
    revert a. induction l as [|b l IH]; intros a; cbn [fold_left]; [reflexivity|].
    rewrite IH, sph_lap_model_add. reflexivity.
  Qed.

  Lemma eval_sum_left_fold a l :
    ev (fold_left EAdd l a) = fold_left (fun acc e => acc + ev e) l (ev a).
  Proof. revert a. induction l as [|b l IH]; intros a; cbn [fold_left]; [reflexivity|]. now rewrite IH. Qed.
End Lin.

Definition Rk (k : nat) : expr := EFun k [0]%nat [AVar 0%nat].

(* summand k of the basis-space operator (coefficient symbol R_k) equals the full spherical Laplacian
   of R_k(r) Y_k(theta, phi) *)
Lemma summand_ok : forall k, (k < 25)%nat -> forall venv penv fenv, venv 0%nat <> 0 -> sin (venv 1%nat) <> 0 ->
  eval venv penv fenv (rename_to k (nth k singles_basis (ECst 0)))
  = eval venv penv fenv (sph_lap_model (Rk k *' lift (nth k Ys (ECst 0)))).
Proof.
  intros k Hk venv penv fenv Hr Hs.
  do 25 (destruct k as [|k]; [cbn [nth singles_basis Ys]; reduce_eval; set (R0 := venv 0%nat) in *; trig2 venv 1%nat 2%nat |]).
  lia.
Qed.

Fixpoint expansion_terms (k : nat) (ys : list expr) : list expr :=
  match ys with [] => [] | y :: r => (Rk k *' lift y) :: expansion_terms (S k) r end.

(* sum_k R_k(r) Y_k(theta, phi) over the first n harmonics *)
Definition expansion (n : nat) : expr := sum_left (expansion_terms 0 (firstn n Ys)).

Section Main.
  Variable venv penv : nat -> R.
  Variable fenv : nat -> list nat -> list R -> R.
  Hypothesis Hr : venv 0%nat <> 0.
  Hypothesis Hs : sin (venv 1%nat) <> 0.
  Notation ev := (eval venv penv fenv).

  Lemma folds_agree l1 l2 : Forall2 (fun a b => ev a = ev (sph_lap_model b)) l1 l2 -> forall acc,
    fold_left (fun acc e => acc + ev e) l1 acc = fold_left (fun acc e => acc + ev (sph_lap_model e)) l2 acc.
  Proof.
    induction 1 as [|c d l1 l2 Hcd H IH]; intros acc; cbn [fold_left]; [reflexivity|].
    rewrite Hcd. apply IH.
  Qed.

  Lemma sums_agree l1 l2 :
    Forall2 (fun a b => ev a = ev (sph_lap_model b)) l1 l2 -> l1 <> [] ->
    ev (sum_left l1) = ev (sph_lap_model (sum_left l2)).
  Proof.
    intros H Hne. destruct H as [|a b l1 l2 Hab H]; [congruence|]. cbn [sum_left].
    rewrite (sph_lap_model_sum venv penv fenv Hr Hs), eval_sum_left_fold. rewrite Hab.
    now apply folds_agree.
  Qed.

  Lemma summands_agree n : (n <= 25)%nat ->
    Forall2 (fun a b => ev a = ev (sph_lap_model b)) (renamed 0 (firstn n singles_basis)) (expansion_terms 0 (firstn n Ys)).
  Proof.
    intros Hn.
    assert (G : forall m k, (k + m <= 25)%nat ->
      Forall2 (fun a b => ev a = ev (sph_lap_model b)) (renamed k (firstn m (skipn k singles_basis))) (expansion_terms k (firstn m (skipn k Ys)))).
    { induction m as [|m IH]; intros k Hk; [constructor|].
      assert (Hk' : (k < 25)%nat) by lia.
      assert (E1 : skipn k singles_basis = nth k singles_basis (ECst 0) :: skipn (S k) singles_basis).
      { do 25 (destruct k as [|k]; [reflexivity|]). lia. }
      assert (E2 : skipn k Ys = nth k Ys (ECst 0) :: skipn (S k) Ys).
      { do 25 (destruct k as [|k]; [reflexivity|]). lia. }
      rewrite E1, E2. cbn [firstn renamed expansion_terms]. constructor.
      - apply summand_ok; auto.
      - apply IH. lia. }
    apply (G n 0%nat). lia.
  Qed.

  (* HarmonicsLaplacian(max_degree = d) = spherical_laplacian of the expanded field, d = 0..4 *)
  Theorem harmonics_laplacian_exact :
    ev harm_lap_4.term = ev (sph_lap_model (expansion 25)) /\ ev harm_lap_3.term = ev (sph_lap_model (expansion 16)) /\
    ev harm_lap_2.term = ev (sph_lap_model (expansion 9)) /\ ev harm_lap_1.term = ev (sph_lap_model (expansion 4)) /\
    ev harm_lap_0.term = ev (sph_lap_model (expansion 1)).
  Proof.
    destruct harm_lap_is_sum as (E4 & E3 & E2 & E1 & E0). rewrite E4, E3, E2, E1, E0. unfold expansion.
    repeat split; apply sums_agree; try (apply summands_agree; lia); intro HH; apply (f_equal (@List.length _)) in HH; vm_compute in HH; discriminate HH.
  Qed.
End Main.

(* cross-check of the model against the code on the full expansions that are small enough to generate *)
Lemma expansion_small_generated venv penv fenv : venv 0%nat <> 0 -> sin (venv 1%nat) <> 0 ->
  eval venv penv fenv sph_lap_expansion_0.term = eval venv penv fenv (sph_lap_model (expansion 1)) /\
  eval venv penv fenv sph_lap_expansion_1.term = eval venv penv fenv (sph_lap_model (expansion 4)).
Proof. intros Hr Hs. split; reduce_eval; field; auto. Qed.

(* ------------------------------------------------------------------ all 25 eigenfunction statements, by index *)
Definition Yeigenvalues : list R := [- 0; - 2; - 2; - 2; - 6; - 6; - 6; - 6; - 6; - 12; - 12; - 12; - 12; - 12; - 12; - 12; - 20; - 20; - 20; - 20; - 20; - 20; - 20; - 20; - 20].

Lemma eigenvalues_are_minus_l_l1 :
  Yeigenvalues = map (fun l => - INR (l * (l + 1))) Ydegrees.
Proof.
  unfold Yeigenvalues, Ydegrees. cbn [map].
  repeat (apply f_equal2; [rewrite INR_IZR_INZ; simpl; lra|]). reflexivity.
Qed.

Theorem harmonics_eigen : forall k, (k < 25)%nat -> forall venv penv fenv, sin (venv 0%nat) <> 0 ->
  eval venv penv fenv (ang_lap (nth k Ys (ECst 0))) = nth k Yeigenvalues 0 * eval venv penv fenv (nth k Ys (ECst 0)).
Proof.
  intros k Hk venv penv fenv Hs.
  do 25 (destruct k as [|k]; [cbn [nth Ys Yeigenvalues]; first [ exact (Y0_0_eigen venv penv fenv Hs) | exact (Y1n1_eigen venv penv fenv Hs) | exact (Y1_0_eigen venv penv fenv Hs) | exact (Y1p1_eigen venv penv fenv Hs) | exact (Y2n2_eigen venv penv fenv Hs) | exact (Y2n1_eigen venv penv fenv Hs) | exact (Y2_0_eigen venv penv fenv Hs) | exact (Y2p1_eigen venv penv fenv Hs) | exact (Y2p2_eigen venv penv fenv Hs) | exact (Y3n3_eigen venv penv fenv Hs) | exact (Y3n2_eigen venv penv fenv Hs) | exact (Y3n1_eigen venv penv fenv Hs) | exact (Y3_0_eigen venv penv fenv Hs) | exact (Y3p1_eigen venv penv fenv Hs) | exact (Y3p2_eigen venv penv fenv Hs) | exact (Y3p3_eigen venv penv fenv Hs) | exact (Y4n4_eigen venv penv fenv Hs) | exact (Y4n3_eigen venv penv fenv Hs) | exact (Y4n2_eigen venv penv fenv Hs) | exact (Y4n1_eigen venv penv fenv Hs) | exact (Y4_0_eigen venv penv fenv Hs) | exact (Y4p1_eigen venv penv fenv Hs) | exact (Y4p2_eigen venv penv fenv Hs) | exact (Y4p3_eigen venv penv fenv Hs) | exact (Y4p4_eigen venv penv fenv Hs) ] |]).
  lia.
Qed.
