(* C15_base.v — frame and structure lemmas about the executable solver model (coq/model/Solver.v),
   shared by the C04 / C05 / C06 / C15 proofs.  Everything is proved for ARBITRARY components
   (Section variables): parameters, gradients, batches, values, optimisers, generators. *)
From Coq Require Import List Arith Bool Lia.
From ND.model Require Import Solver.
Import ListNotations.

(* simplify projections of setter chains without touching arithmetic *)
Ltac sproj :=
  cbn [theta grad ost conds lid nb_train nb_valid h_train h_valid m_train m_valid lowest best
       local_epoch max_local stop cur_train cur_valid events snaps tracked
       set_theta set_grad set_ost set_conds set_lid set_nb_train set_nb_valid set_h_train set_h_valid
       set_m_train set_m_valid set_lowest set_best set_local_epoch set_max_local set_stop set_cur_train
       set_cur_valid set_events set_snaps set_tracked
       log bump_cur nb set_nb hist mhist cur fst snd a_eloss a_bloss a_met is_train negb andb orb].
Ltac sproj_in H :=
  cbn [theta grad ost conds lid nb_train nb_valid h_train h_valid m_train m_valid lowest best
       local_epoch max_local stop cur_train cur_valid events snaps tracked
       set_theta set_grad set_ost set_conds set_lid set_nb_train set_nb_valid set_h_train set_h_valid
       set_m_train set_m_valid set_lowest set_best set_local_epoch set_max_local set_stop set_cur_train
       set_cur_valid set_events set_snaps set_tracked
       log bump_cur nb set_nb hist mhist cur fst snd a_eloss a_bloss a_met is_train negb andb orb] in H.


(* ---- small list facts *)
Lemma filter_none {A : Type} (f : A -> bool) (l : list A) :
  Forall (fun x => f x = false) l -> filter f l = [].
Proof. induction 1 as [|x l Hx _ IH]; cbn; [reflexivity|]. rewrite Hx. exact IH. Qed.

Lemma Forall_rev' {A : Type} (Q : A -> Prop) (l : list A) : Forall Q l -> Forall Q (rev l).
Proof.
  induction 1 as [|x l Hx _ IH]; cbn; [constructor|].
  apply Forall_app. split; [exact IH|]. constructor; [exact Hx|constructor].
Qed.

Lemma Forall_flat_map' {A B : Type} (Q : B -> Prop) (f : A -> list B) (l : list A) :
  (forall x, Forall Q (f x)) -> Forall Q (flat_map f l).
Proof. intros H. induction l as [|x l IH]; cbn; [constructor|]. apply Forall_app. split; auto. Qed.

Lemma filter_app' {A : Type} (f : A -> bool) (l1 l2 : list A) : filter f (l1 ++ l2) = filter f l1 ++ filter f l2.
Proof. induction l1 as [|x l1 IH]; cbn; [reflexivity|]. destruct (f x); cbn; rewrite IH; reflexivity. Qed.

Definition count {A : Type} (f : A -> bool) (l : list A) : nat := length (filter f l).
Lemma count_app {A : Type} (f : A -> bool) (l1 l2 : list A) : count f (l1 ++ l2) = count f l1 + count f l2.
Proof. unfold count. rewrite filter_app', app_length. reflexivity. Qed.
Lemma count_none {A : Type} (f : A -> bool) (l : list A) : Forall (fun x => f x = false) l -> count f l = 0.
Proof. intros H. unfold count. rewrite (filter_none f l H). reflexivity. Qed.

(* ---- classification of events *)
Definition is_draw (e : event) : bool := match e with EvDraw _ _ => true | _ => false end.
Definition is_cstep (e : event) : bool := match e with EvCStep => true | _ => false end.
Definition is_step (e : event) : bool := match e with EvStep => true | _ => false end.
Definition is_zero (e : event) : bool := match e with EvZero => true | _ => false end.
Definition is_cb (e : event) : bool := match e with EvCb _ => true | _ => false end.
Definition is_local (e : event) : bool := match e with EvLocal _ => true | _ => false end.
Definition is_begin (ph : phase) (e : event) : bool := match e with EvBegin p => phase_eqb p ph | _ => false end.
(* events a closure evaluation / optimiser call of phase ph may emit between two draws *)
Definition inner_event (ph : phase) (e : event) : bool :=
  match e with
  | EvEval p _ => phase_eqb p ph
  | EvZero | EvCStep => is_train ph
  | _ => false
  end.
(* every event _run_epoch(ph) may emit: all carry phase ph, optimiser events only in training,
   never a callback or fit-loop event *)
Definition epoch_event (ph : phase) (e : event) : bool :=
  match e with
  | EvBegin p | EvDraw p _ | EvEval p _ | EvHist p | EvBest p _ | EvMetric p _ => phase_eqb p ph
  | EvZero | EvStep | EvCStep => is_train ph
  | EvLocal _ | EvCb _ => false
  end.
Lemma phase_eqb_refl ph : phase_eqb ph ph = true.
Proof. destruct ph; reflexivity. Qed.
Lemma inner_is_epoch ph e : inner_event ph e = true -> epoch_event ph e = true.
Proof. destruct e; cbn; auto; discriminate. Qed.

Section Base.
  Variables P G B V O C : Type.
  Variable loss : nat -> C -> P -> B -> V.
  Variable gradl : nat -> C -> P -> B -> G.
  Variable metric : nat -> C -> P -> B -> V.
  Variable nmetrics : nat.
  Variable gzero : G.
  Variable gadd : G -> G -> G.
  Variable vzero : V.
  Variable vadd : V -> V -> V.
  Variable vdivn : V -> nat -> V.
  Variable vltb : V -> V -> bool.
  Variable requires_closure : O -> bool.
  Variable opt_step : O -> P -> G -> O * P.
  Variable closure_opt : O -> P -> (P -> V * G) -> O * list P * P.
  Variable draw : phase -> nat -> B.

  Local Notation state := (Solver.state P G V O C).
  Local Notation acc := (Solver.acc V).
  Local Notation callback := (Solver.callback P G V O C).
  Local Notation action := (Solver.action P O C).
  Local Notation op := (Solver.op P G V O C).
  Local Notation acc0 := (Solver.acc0 nmetrics vzero).
  Local Notation met_add := (Solver.met_add metric vadd).
  Local Notation met_add_from := (Solver.met_add_from metric vadd).
  Local Notation closure_of := (Solver.closure_of loss gradl).
  Local Notation eval_batch := (Solver.eval_batch loss gradl metric gadd vadd closure_opt).
  Local Notation batch_step := (Solver.batch_step loss gradl metric gadd vadd closure_opt draw).
  Local Notation run_batches := (Solver.run_batches loss gradl metric gadd vadd closure_opt draw).
  Local Notation update_best := (Solver.update_best vltb).
  Local Notation do_step := (Solver.do_step opt_step).
  Local Notation zero_grad := (Solver.zero_grad gzero).
  Local Notation run_epoch := (Solver.run_epoch loss gradl metric nmetrics gzero gadd vzero vadd vdivn vltb requires_closure opt_step closure_opt draw).
  Local Notation iteration := (Solver.iteration loss gradl metric nmetrics gzero gadd vzero vadd vdivn vltb requires_closure opt_step closure_opt draw).
  Local Notation fit_loop := (Solver.fit_loop loss gradl metric nmetrics gzero gadd vzero vadd vdivn vltb requires_closure opt_step closure_opt draw).
  Local Notation fit := (Solver.fit loss gradl metric nmetrics gzero gadd vzero vadd vdivn vltb requires_closure opt_step closure_opt draw).
  Local Notation run_op := (Solver.run_op loss gradl metric nmetrics gzero gadd vzero vadd vdivn vltb requires_closure opt_step closure_opt draw).
  Local Notation run_ops := (Solver.run_ops loss gradl metric nmetrics gzero gadd vzero vadd vdivn vltb requires_closure opt_step closure_opt draw).
  Local Notation init := (Solver.init V nmetrics gzero).

  (* ---------------------------------------------------------------------------------------- *)
  (* batches                                                                                   *)

  (* the draws an epoch of phase ph consumes when it starts at cursor c *)
  Definition batches (ph : phase) (c n : nat) : list B := map (draw ph) (seq c n).

  (* bookkeeping fields that no batch touches *)
  Definition same_book (s s' : state) : Prop :=
    conds s' = conds s /\ lid s' = lid s /\ nb_train s' = nb_train s /\ nb_valid s' = nb_valid s /\
    h_train s' = h_train s /\ h_valid s' = h_valid s /\ m_train s' = m_train s /\ m_valid s' = m_valid s /\
    lowest s' = lowest s /\ best s' = best s /\ local_epoch s' = local_epoch s /\ max_local s' = max_local s /\
    stop s' = stop s /\ snaps s' = snaps s /\ tracked s' = tracked s.

  Lemma same_book_refl s : same_book s s.
  Proof. repeat split. Qed.
  Lemma same_book_trans s1 s2 s3 : same_book s1 s2 -> same_book s2 s3 -> same_book s1 s3.
  Proof.
    unfold same_book. intros H1 H2.
    repeat match goal with H : _ /\ _ |- _ => destruct H end.
    repeat split; congruence.
  Qed.

  Lemma batch_step_book clo ph s a : same_book s (fst (batch_step clo ph (s, a))).
  Proof.
    unfold Solver.batch_step, Solver.eval_batch. sproj.
    destruct ph, clo; sproj;
      try (destruct (closure_opt _ _ _) as [[o' pts] p']); sproj; repeat split; destruct ph; reflexivity.
  Qed.

  Lemma run_batches_book n clo ph : forall sa, same_book (fst sa) (fst (run_batches n clo ph sa)).
  Proof.
    induction n as [|n IH]; intros [s a]; cbn [Solver.run_batches].
    - apply same_book_refl.
    - eapply same_book_trans; [apply (batch_step_book clo ph s a)|].
      destruct (batch_step clo ph (s, a)) as [s1 a1] eqn:E. apply (IH (s1, a1)).
  Qed.

  Definition other (ph : phase) : phase := match ph with Train => Valid | Valid => Train end.

  Lemma batch_step_cur clo ph s a :
    cur ph (fst (batch_step clo ph (s, a))) = S (cur ph s) /\
    cur (other ph) (fst (batch_step clo ph (s, a))) = cur (other ph) s.
  Proof.
    unfold Solver.batch_step, Solver.eval_batch. sproj.
    destruct ph, clo; sproj;
      try (destruct (closure_opt _ _ _) as [[o' pts] p']); sproj; split; reflexivity.
  Qed.

  Lemma run_batches_cur n clo ph : forall sa,
    cur ph (fst (run_batches n clo ph sa)) = cur ph (fst sa) + n /\
    cur (other ph) (fst (run_batches n clo ph sa)) = cur (other ph) (fst sa).
  Proof.
    induction n as [|n IH]; intros [s a]; cbn [Solver.run_batches fst].
    - split; [lia|reflexivity].
    - destruct (batch_step_cur clo ph s a) as [H1 H2].
      destruct (batch_step clo ph (s, a)) as [s1 a1] eqn:E. cbn [fst] in *.
      destruct (IH (s1, a1)) as [H3 H4]. cbn [fst] in *. rewrite H3, H4, H1, H2. split; [lia|reflexivity].
  Qed.

  (* ---- batches that do not move the parameters: validation, and training with a plain optimiser *)
  Definition fixed_mode (clo : bool) (ph : phase) : Prop := clo = false \/ ph = Valid.

  Lemma batch_step_fixed clo ph s a : fixed_mode clo ph ->
    let r := batch_step clo ph (s, a) in
    let b := draw ph (cur ph s) in
    theta (fst r) = theta s /\ ost (fst r) = ost s /\
    a_eloss (snd r) = vadd (a_eloss a) (loss (lid s) (conds s) (theta s) b) /\
    a_met (snd r) = met_add (conds s) (theta s) b (a_met a) /\
    grad (fst r) = (if is_train ph then gadd (grad s) (gradl (lid s) (conds s) (theta s) b) else grad s) /\
    a_bloss (snd r) = (if is_train ph then loss (lid s) (conds s) (theta s) b else a_bloss a) /\
    events (fst r) = EvEval ph (cur ph s) :: EvDraw ph (cur ph s) :: events s.
  Proof.
    intros Hm. unfold Solver.batch_step, Solver.eval_batch. sproj.
    destruct ph.
    - destruct Hm as [->|Hm]; [|discriminate]. sproj. repeat split.
    - sproj. repeat split.
  Qed.

  Lemma run_batches_fixed n clo ph : fixed_mode clo ph -> forall s a,
    let r := run_batches n clo ph (s, a) in
    let bs := batches ph (cur ph s) n in
    theta (fst r) = theta s /\ ost (fst r) = ost s /\
    a_eloss (snd r) = fold_left vadd (map (loss (lid s) (conds s) (theta s)) bs) (a_eloss a) /\
    a_met (snd r) = fold_left (fun ms b => met_add (conds s) (theta s) b ms) bs (a_met a) /\
    grad (fst r) = (if is_train ph then fold_left gadd (map (gradl (lid s) (conds s) (theta s)) bs) (grad s)
                    else grad s) /\
    events (fst r) = rev (flat_map (fun k => [EvDraw ph k; EvEval ph k]) (seq (cur ph s) n)) ++ events s.
  Proof.
    intros Hm. induction n as [|n IH]; intros s a; cbn [Solver.run_batches].
    - cbn. destruct (is_train ph); repeat split.
    - pose proof (batch_step_fixed clo ph s a Hm) as H. cbv zeta in H.
      pose proof (batch_step_book clo ph s a) as Hb.
      pose proof (batch_step_cur clo ph s a) as [Hc _].
      destruct (batch_step clo ph (s, a)) as [s1 a1] eqn:E. cbn [fst snd] in *.
      destruct H as (Ht & Ho & He & Hmet & Hg & _ & Hev).
      destruct Hb as (Hcd & Hl & _).
      specialize (IH s1 a1). cbv zeta in IH.
      destruct IH as (It & Io & Ie & Im & Ig & Iev).
      unfold batches in *. cbn [seq map fold_left flat_map].
      rewrite It, Io, Ie, Im, Ig, Iev, Ho, He, Hmet, Hev.
      split; [exact Ht|]. split; [reflexivity|].
      assert (Hgg : (if is_train ph then fold_left gadd (map (gradl (lid s1) (conds s1) (theta s1))
                       (map (draw ph) (seq (cur ph s1) n))) (grad s1) else grad s1) =
                    (if is_train ph then fold_left gadd (map (gradl (lid s) (conds s) (theta s))
                       (map (draw ph) (seq (S (cur ph s)) n)))
                       (gadd (grad s) (gradl (lid s) (conds s) (theta s) (draw ph (cur ph s)))) else grad s)).
      { rewrite Hg, Hc, Ht, Hcd, Hl. destruct (is_train ph); reflexivity. }
      rewrite Hgg. rewrite Hc, Ht, Hcd, Hl. repeat split.
      rewrite rev_app_distr. cbn [rev app]. rewrite <- !app_assoc. reflexivity.
  Qed.

  (* ---- events of the batch loop, any mode *)
  Lemma batch_step_events clo ph s a :
    exists l, events (fst (batch_step clo ph (s, a))) = l ++ EvDraw ph (cur ph s) :: events s /\
              Forall (fun e => inner_event ph e = true) l /\
              count is_cstep l = (if clo && is_train ph then 1 else 0).
  Proof.
    unfold Solver.batch_step, Solver.eval_batch. sproj.
    destruct ph, clo; sproj.
    - destruct (closure_opt _ _ _) as [[o' pts] p']. sproj.
      exists (rev (flat_map (fun _ : P => [EvZero; EvEval Train (cur_train s)]) pts) ++ [EvCStep]).
      split; [rewrite <- app_assoc; reflexivity|]. split.
      + apply Forall_app. split; [|repeat constructor].
        apply Forall_rev'. apply Forall_flat_map'. intros _. repeat constructor.
      + rewrite count_app. rewrite count_none; [reflexivity|].
        apply Forall_rev'. apply Forall_flat_map'. intros _. repeat constructor.
    - exists [EvEval Train (cur_train s)]. repeat split. repeat constructor.
    - exists [EvEval Valid (cur_valid s)]. repeat split. repeat constructor.
    - exists [EvEval Valid (cur_valid s)]. repeat split. repeat constructor.
  Qed.

  Lemma run_batches_events n clo ph : forall s a,
    exists l, events (fst (run_batches n clo ph (s, a))) = l ++ events s /\
              Forall (fun e => epoch_event ph e = true) l /\
              filter is_draw l = rev (map (EvDraw ph) (seq (cur ph s) n)) /\
              count is_cstep l = (if clo && is_train ph then n else 0) /\
              count is_step l = 0 /\ count (is_begin ph) l = 0.
  Proof.
    induction n as [|n IH]; intros s a; cbn [Solver.run_batches].
    - exists []. cbn. repeat split; try constructor. destruct (clo && is_train ph); reflexivity.
    - destruct (batch_step_events clo ph s a) as (l1 & E1 & F1 & C1).
      pose proof (batch_step_cur clo ph s a) as [Hc _].
      destruct (batch_step clo ph (s, a)) as [s1 a1]. cbn [fst] in *.
      destruct (IH s1 a1) as (l2 & E2 & F2 & D2 & C2 & S2 & B2).
      exists (l2 ++ l1 ++ [EvDraw ph (cur ph s)]).
      assert (F1' : Forall (fun e => epoch_event ph e = true) l1).
      { eapply Forall_impl; [|exact F1]. intros e. apply inner_is_epoch. }
      assert (N1 : forall f, (forall e, inner_event ph e = true -> f e = false) -> filter f l1 = []).
      { intros f Hf. apply filter_none. eapply Forall_impl; [|exact F1]. exact Hf. }
      split; [rewrite E2, E1, <- !app_assoc; reflexivity|].
      split; [|split; [|split; [|split]]].
      + apply Forall_app. split; [exact F2|]. apply Forall_app. split; [exact F1'|].
        constructor; [cbn; apply phase_eqb_refl|constructor].
      + rewrite !filter_app', D2, Hc. rewrite (N1 is_draw).
        * cbn [filter is_draw app seq map rev]. reflexivity.
        * intros e; destruct e; cbn; auto; discriminate.
      + rewrite !count_app, C2, C1. cbn. destruct (clo && is_train ph); lia.
      + rewrite !count_app, S2. unfold count at 1. rewrite (N1 is_step); [reflexivity|].
        intros e; destruct e; cbn; auto; discriminate.
      + rewrite !count_app, B2. unfold count at 1. rewrite (N1 (is_begin ph)); [reflexivity|].
        intros e; destruct e; cbn; auto; discriminate.
  Qed.

  (* ---- extensionality of states *)
  Lemma state_ext (s s' : state) :
    theta s = theta s' -> grad s = grad s' -> ost s = ost s' -> conds s = conds s' -> lid s = lid s' ->
    nb_train s = nb_train s' -> nb_valid s = nb_valid s' -> h_train s = h_train s' -> h_valid s = h_valid s' ->
    m_train s = m_train s' -> m_valid s = m_valid s' -> lowest s = lowest s' -> best s = best s' ->
    local_epoch s = local_epoch s' -> max_local s = max_local s' -> stop s = stop s' ->
    cur_train s = cur_train s' -> cur_valid s = cur_valid s' -> events s = events s' -> snaps s = snaps s' ->
    tracked s = tracked s' -> s = s'.
  Proof. destruct s, s'; cbn; intros; subst; reflexivity. Qed.

  Definition set_cur (ph : phase) (k : nat) (s : state) : state :=
    match ph with Train => set_cur_train k s | Valid => set_cur_valid k s end.

  (* the state after the batch loop, when the parameters do not move *)
  Lemma run_batches_fixed_state n clo ph : fixed_mode clo ph -> forall s a,
    fst (run_batches n clo ph (s, a)) =
    set_events (rev (flat_map (fun k => [EvDraw ph k; EvEval ph k]) (seq (cur ph s) n)) ++ events s)
      (set_grad (if is_train ph
                 then fold_left gadd (map (gradl (lid s) (conds s) (theta s)) (batches ph (cur ph s) n)) (grad s)
                 else grad s)
         (set_cur ph (cur ph s + n) s)).
  Proof.
    intros Hm s a.
    pose proof (run_batches_fixed n clo ph Hm s a) as H. cbv zeta in H.
    destruct H as (Ht & Ho & _ & _ & Hg & He).
    pose proof (run_batches_book n clo ph (s, a)) as Hb. cbn [fst] in Hb.
    pose proof (run_batches_cur n clo ph (s, a)) as [Hc Hc']. cbn [fst] in Hc, Hc'.
    unfold same_book in Hb.
    repeat match goal with H : _ /\ _ |- _ => destruct H end.
    apply state_ext; destruct ph; unfold set_cur; sproj; cbn [other cur is_train] in *; congruence.
  Qed.

  (* ---- training batches with a closure optimiser: one optimiser call per batch, the parameters move *)
  Definition cstate := (O * P * G * acc)%type.
  Definition closure_batch (l : nat) (c : C) (st : cstate) (b : B) : cstate :=
    match st with
    | (o, p, g, a) =>
      match closure_opt o p (fun q => (loss l c q b, gradl l c q b)) with
      | (o', pts, p') =>
        let bl := match last_opt pts with Some q => loss l c q b | None => a_bloss a end in
        (o', p', match last_opt pts with Some q => gradl l c q b | None => g end,
         mkAcc (vadd (a_eloss a) bl) bl
               (match last_opt pts with Some q => met_add c q b (a_met a) | None => a_met a end))
      end
    end.

  Lemma run_batches_closure n : forall s a,
    let r := run_batches n true Train (s, a) in
    (ost (fst r), theta (fst r), grad (fst r), snd r) =
    fold_left (closure_batch (lid s) (conds s)) (batches Train (cur_train s) n) (ost s, theta s, grad s, a).
  Proof.
    induction n as [|n IH]; intros s a; cbn [Solver.run_batches].
    - reflexivity.
    - cbv zeta in *. unfold batches. cbn [seq map fold_left].
      unfold Solver.batch_step. unfold Solver.eval_batch. sproj. unfold Solver.closure_of. sproj.
      unfold closure_batch at 2.
      destruct (closure_opt (ost s) (theta s) _) as [[o' pts] p'].
      match goal with |- context [run_batches n true Train (?s1, ?a1)] =>
        set (S1 := s1); set (A1 := a1) end.
      rewrite (IH S1 A1). unfold batches. subst S1 A1. sproj. reflexivity.
  Qed.

  (* ---- the pieces of _run_epoch after the batch loop *)
  Lemma last_opt_snoc {A : Type} (l : list A) (x : A) : last_opt (l ++ [x]) = Some x.
  Proof.
    induction l as [|y l IH]; [reflexivity|]. cbn [app last_opt].
    destruct (l ++ [x]) eqn:E; [destruct l; discriminate|]. exact IH.
  Qed.

  Definition better (v : V) (s : state) : bool :=
    match lowest s with None => true | Some l => vltb v l end.

  Lemma update_best_snoc ph clo s h v : hist ph s = h ++ [v] ->
    update_best ph clo s =
    set_tracked (tracked s ++ [mkTE v (theta s) ph (lid s) (conds s) (cur ph s - nb ph s) (nb ph s) clo])
      (log (EvBest ph (better v s))
           (if better v s then set_best (Some (theta s)) (set_lowest (Some v) s) else s)).
  Proof.
    intros H. unfold Solver.update_best. rewrite H, last_opt_snoc. unfold better.
    destruct (lowest s) as [l|]; [destruct (vltb v l)|]; reflexivity.
  Qed.

  Lemma run_epoch_zero ph s : nb ph s = 0 -> run_epoch ph s = s.
  Proof. intros H. unfold Solver.run_epoch. rewrite H. reflexivity. Qed.

  Lemma push_each_length (hs : list (list V)) : forall vs, length (push_each hs vs) = length hs.
  Proof. induction hs as [|h hs IH]; intros [|v vs]; cbn; auto. Qed.

  Lemma push_each_Forall (hs : list (list V)) k : forall vs, length vs = length hs ->
    Forall (fun h => length h = k) hs -> Forall (fun h => length h = S k) (push_each hs vs).
  Proof.
    induction hs as [|h hs IH]; intros [|v vs] Hl Hf; cbn in *; try discriminate; constructor.
    - inversion Hf; subst. rewrite app_length. cbn. lia.
    - inversion Hf; subst. apply IH; auto.
  Qed.

  Lemma met_add_from_length i c p b ms : length (met_add_from i c p b ms) = length ms.
  Proof. revert i. induction ms as [|v ms IH]; intros i; cbn; auto. Qed.

  Lemma fold_met_length c bs : forall (f : B -> P) ms,
    length (fold_left (fun ms b => met_add c (f b) b ms) bs ms) = length ms.
  Proof.
    induction bs as [|b bs IH]; intros f ms; cbn [fold_left]; [reflexivity|].
    rewrite IH. apply met_add_from_length.
  Qed.

  (* ---- _run_epoch unfolded around the batch loop *)
  Definition pre_state (ph : phase) (s : state) : state :=
    if is_train ph && negb (requires_closure (ost s)) then zero_grad (log (EvBegin ph) s) else log (EvBegin ph) s.
  Definition epoch_batches (ph : phase) (s : state) : state * acc :=
    run_batches (nb ph s) (requires_closure (ost s)) ph (pre_state ph s, acc0).
  Definition means (n : nat) (vs : list V) : list V := map (fun v => vdivn v n) vs.
  Definition epoch_loss (ph : phase) (s : state) : V := vdivn (a_eloss (snd (epoch_batches ph s))) (nb ph s).

  Lemma pre_state_book ph s : same_book s (pre_state ph s).
  Proof. unfold pre_state, Solver.zero_grad. destruct (is_train ph && negb _); sproj; repeat split. Qed.

  Lemma epoch_batches_book ph s : same_book s (fst (epoch_batches ph s)).
  Proof.
    eapply same_book_trans; [apply pre_state_book|].
    apply (run_batches_book (nb ph s) (requires_closure (ost s)) ph (pre_state ph s, acc0)).
  Qed.

  Lemma run_epoch_unfold ph s : nb ph s <> 0 ->
    run_epoch ph s =
    let clo := requires_closure (ost s) in
    let r := epoch_batches ph s in
    let s2 := push_hist ph (epoch_loss ph s) (fst r) in
    let s3 := if negb (is_train ph) || (nb_valid s =? 0) then update_best ph clo s2 else s2 in
    let s4 := if is_train ph && negb clo then do_step s3 else s3 in
    push_metrics ph (means (nb ph s) (a_met (snd r))) s4.
  Proof.
    intros Hn. unfold Solver.run_epoch. destruct (nb ph s =? 0) eqn:E; [apply Nat.eqb_eq in E; contradiction|].
    cbv zeta. fold (pre_state ph s). fold (epoch_batches ph s). fold (epoch_loss ph s).
    assert (Hv : nb_valid (push_hist ph (epoch_loss ph s) (fst (epoch_batches ph s))) = nb_valid s).
    { pose proof (epoch_batches_book ph s) as Hb. unfold same_book in Hb.
      repeat match goal with H : _ /\ _ |- _ => destruct H end.
      unfold Solver.push_hist. destruct ph; sproj; assumption. }
    rewrite Hv. reflexivity.
  Qed.

  (* control fields: untouched by an epoch *)
  Definition ctl (s : state) := (conds s, lid s, nb_train s, nb_valid s, local_epoch s, max_local s, stop s, snaps s).

  Lemma ctl_of_book s s' : same_book s s' -> ctl s' = ctl s.
  Proof.
    unfold same_book, ctl. intros H. repeat match goal with H : _ /\ _ |- _ => destruct H end. congruence.
  Qed.
  Lemma ctl_push_hist ph v s : ctl (push_hist ph v s) = ctl s.
  Proof. unfold Solver.push_hist; destruct ph; reflexivity. Qed.
  Lemma ctl_update_best ph clo s : ctl (update_best ph clo s) = ctl s.
  Proof.
    unfold Solver.update_best. destruct (last_opt (hist ph s)); [|reflexivity].
    destruct (lowest s) as [l|]; [destruct (vltb v l)|]; reflexivity.
  Qed.
  Lemma ctl_do_step s : ctl (do_step s) = ctl s.
  Proof. unfold Solver.do_step. destruct (opt_step _ _ _). reflexivity. Qed.
  Lemma ctl_push_metrics ph vs s : ctl (push_metrics ph vs s) = ctl s.
  Proof. unfold Solver.push_metrics; destruct ph; reflexivity. Qed.

  Lemma ctl_run_epoch ph s : ctl (run_epoch ph s) = ctl s.
  Proof.
    destruct (Nat.eq_dec (nb ph s) 0) as [Hz|Hn]; [rewrite run_epoch_zero; auto|].
    rewrite run_epoch_unfold by exact Hn. cbv zeta.
    rewrite ctl_push_metrics.
    destruct (is_train ph && negb _); [rewrite ctl_do_step|];
      (destruct (negb (is_train ph) || _); [rewrite ctl_update_best|]);
      rewrite ctl_push_hist; apply ctl_of_book, epoch_batches_book.
  Qed.

  (* ---- the two histories *)
  Lemma hists_update_best ph clo (s : state) :
    h_train (update_best ph clo s) = h_train s /\ h_valid (update_best ph clo s) = h_valid s /\
    m_train (update_best ph clo s) = m_train s /\ m_valid (update_best ph clo s) = m_valid s.
  Proof.
    unfold Solver.update_best. destruct (last_opt (hist ph s)); [|repeat split].
    destruct (lowest s) as [l|]; [destruct (vltb v l)|]; repeat split.
  Qed.
  Lemma hists_do_step (s : state) :
    h_train (do_step s) = h_train s /\ h_valid (do_step s) = h_valid s /\
    m_train (do_step s) = m_train s /\ m_valid (do_step s) = m_valid s.
  Proof. unfold Solver.do_step. destruct (opt_step _ _ _). repeat split. Qed.

  Lemma a_met_length n clo ph : forall s a, length (a_met (snd (run_batches n clo ph (s, a)))) = length (a_met a).
  Proof.
    induction n as [|n IH]; intros s a; cbn [Solver.run_batches]; [reflexivity|].
    destruct (batch_step clo ph (s, a)) as [s1 a1] eqn:E. rewrite IH.
    unfold Solver.batch_step, Solver.eval_batch in E. sproj_in E.
    destruct ph; [destruct clo; [destruct (closure_opt _ _ _) as [[o' pts] p']|]|];
      inversion E; subst; sproj; unfold Solver.met_add; try apply met_add_from_length.
    destruct (last_opt pts); [apply met_add_from_length|reflexivity].
  Qed.

  Lemma epoch_met_length ph s : length (a_met (snd (epoch_batches ph s))) = nmetrics.
  Proof. unfold epoch_batches. rewrite a_met_length. cbn. apply repeat_length. Qed.

  (* one epoch appends exactly one entry to its own loss series and to each of its metric series *)
  Lemma run_epoch_hists ph s : nb ph s <> 0 ->
    hist ph (run_epoch ph s) = hist ph s ++ [epoch_loss ph s] /\
    hist (other ph) (run_epoch ph s) = hist (other ph) s /\
    mhist ph (run_epoch ph s) = push_each (mhist ph s) (means (nb ph s) (a_met (snd (epoch_batches ph s)))) /\
    mhist (other ph) (run_epoch ph s) = mhist (other ph) s.
  Proof.
    intros Hn. rewrite run_epoch_unfold by exact Hn. cbv zeta.
    pose proof (epoch_batches_book ph s) as Hb. unfold same_book in Hb.
    repeat match goal with H : _ /\ _ |- _ => destruct H end.
    set (s2 := push_hist ph (epoch_loss ph s) (fst (epoch_batches ph s))).
    assert (K2 : h_train s2 = (if is_train ph then h_train s ++ [epoch_loss ph s] else h_train s) /\
                 h_valid s2 = (if is_train ph then h_valid s else h_valid s ++ [epoch_loss ph s]) /\
                 m_train s2 = m_train s /\ m_valid s2 = m_valid s).
    { subst s2. unfold Solver.push_hist. destruct ph; sproj; repeat split; congruence. }
    set (s3 := if negb (is_train ph) || (nb_valid s =? 0) then update_best ph (requires_closure (ost s)) s2 else s2).
    assert (K3 : h_train s3 = h_train s2 /\ h_valid s3 = h_valid s2 /\ m_train s3 = m_train s2 /\ m_valid s3 = m_valid s2).
    { subst s3. destruct (negb (is_train ph) || _); [apply hists_update_best|repeat split]. }
    set (s4 := if is_train ph && negb (requires_closure (ost s)) then do_step s3 else s3).
    assert (K4 : h_train s4 = h_train s3 /\ h_valid s4 = h_valid s3 /\ m_train s4 = m_train s3 /\ m_valid s4 = m_valid s3).
    { subst s4. destruct (is_train ph && _); [apply hists_do_step|repeat split]. }
    destruct K2 as (A1 & A2 & A3 & A4), K3 as (B1 & B2 & B3 & B4), K4 as (C1 & C2 & C3 & C4).
    unfold Solver.push_metrics. destruct ph; sproj; cbn [other hist mhist is_train] in *;
      repeat split; sproj; congruence.
  Qed.

  (* ---- events of one epoch *)
  Lemma events_update_best ph clo (s : state) :
    exists l, events (update_best ph clo s) = l ++ events s /\
              (l = [] \/ exists b, l = [EvBest ph b]).
  Proof.
    unfold Solver.update_best. destruct (last_opt (hist ph s)); [|exists []; split; auto].
    destruct (lowest s) as [l|]; [destruct (vltb v l)|]; eexists [_]; split; try reflexivity; right; eauto.
  Qed.
  Lemma events_do_step (s : state) : events (do_step s) = EvStep :: events s.
  Proof. unfold Solver.do_step. destruct (opt_step _ _ _). reflexivity. Qed.

  Definition step_count (ph : phase) (s : state) : nat :=
    if is_train ph && negb (requires_closure (ost s)) then 1 else 0.

  Lemma run_epoch_events ph s : nb ph s <> 0 ->
    exists l, events (run_epoch ph s) = l ++ events s /\
              Forall (fun e => epoch_event ph e = true) l /\
              filter is_draw l = rev (map (EvDraw ph) (seq (cur ph s) (nb ph s))) /\
              count (is_begin ph) l = 1 /\
              count is_step l = step_count ph s /\
              count is_cstep l = (if requires_closure (ost s) && is_train ph then nb ph s else 0).
  Proof.
    intros Hn. rewrite run_epoch_unfold by exact Hn. cbv zeta.
    unfold epoch_batches.
    destruct (run_batches_events (nb ph s) (requires_closure (ost s)) ph (pre_state ph s) acc0)
      as (lb & Eb & Fb & Db & Cb & Sb & Bb).
    set (r := run_batches (nb ph s) (requires_closure (ost s)) ph (pre_state ph s, acc0)) in *.
    set (s2 := push_hist ph (epoch_loss ph s) (fst r)).
    assert (E2 : events s2 = EvHist ph :: lb ++ events (pre_state ph s)).
    { subst s2. unfold Solver.push_hist. destruct ph; sproj; rewrite Eb; reflexivity. }
    set (s3 := if negb (is_train ph) || (nb_valid s =? 0) then update_best ph (requires_closure (ost s)) s2 else s2).
    assert (E3 : exists l3, events s3 = l3 ++ events s2 /\ (l3 = [] \/ exists b, l3 = [EvBest ph b])).
    { subst s3. destruct (negb (is_train ph) || _); [apply events_update_best|exists []; auto]. }
    destruct E3 as (l3 & E3 & Hl3).
    set (s4 := if is_train ph && negb (requires_closure (ost s)) then do_step s3 else s3).
    assert (E4 : events s4 = (if is_train ph && negb (requires_closure (ost s)) then [EvStep] else []) ++ events s3).
    { subst s4. destruct (is_train ph && _); [apply events_do_step|reflexivity]. }
    assert (Ep : events (pre_state ph s) =
                 (if is_train ph && negb (requires_closure (ost s)) then [EvZero] else []) ++ EvBegin ph :: events s).
    { unfold pre_state, Solver.zero_grad. destruct (is_train ph && _); reflexivity. }
    assert (Hcur : cur ph (pre_state ph s) = cur ph s).
    { unfold pre_state, Solver.zero_grad. destruct (is_train ph && _); destruct ph; reflexivity. }
    rewrite Hcur in Db.
    set (lm := rev (map (EvMetric ph) (seq 0 (length (means (nb ph s) (a_met (snd r))))))).
    assert (E5 : events (push_metrics ph (means (nb ph s) (a_met (snd r))) s4) = lm ++ events s4).
    { unfold Solver.push_metrics. destruct ph; reflexivity. }
    exists (lm ++ (if is_train ph && negb (requires_closure (ost s)) then [EvStep] else []) ++ l3 ++ [EvHist ph] ++ lb
               ++ (if is_train ph && negb (requires_closure (ost s)) then [EvZero] else []) ++ [EvBegin ph]).
    assert (Flm : Forall (fun e => epoch_event ph e = true) lm).
    { subst lm. apply Forall_rev'. apply Forall_forall. intros e He. apply in_map_iff in He.
      destruct He as (i & <- & _). cbn. apply phase_eqb_refl. }
    assert (Fl3 : Forall (fun e => epoch_event ph e = true) l3).
    { destruct Hl3 as [->|[b ->]]; repeat constructor. cbn. apply phase_eqb_refl. }
    assert (Nlm : forall f, (forall i, f (EvMetric ph i) = false) -> filter f lm = []).
    { intros f Hf. apply filter_none. subst lm. apply Forall_rev'. apply Forall_forall. intros e He.
      apply in_map_iff in He. destruct He as (i & <- & _). apply Hf. }
    assert (Nl3 : forall f, (forall b, f (EvBest ph b) = false) -> filter f l3 = []).
    { intros f Hf. destruct Hl3 as [->|[b ->]]; [reflexivity|]. cbn. rewrite Hf. reflexivity. }
    split; [|split; [|split; [|split; [|split]]]].
    - rewrite E5, E4, E3, E2, Ep. rewrite <- !app_assoc. cbn [app]. reflexivity.
    - repeat (apply Forall_app; split); auto.
      + destruct (is_train ph && _) eqn:Et; repeat constructor.
        apply andb_true_iff in Et. destruct Et as [Et _]. cbn. exact Et.
      + repeat constructor. cbn. apply phase_eqb_refl.
      + destruct (is_train ph && _) eqn:Et; repeat constructor.
        apply andb_true_iff in Et. destruct Et as [Et _]. cbn. exact Et.
      + repeat constructor. cbn. apply phase_eqb_refl.
    - rewrite !filter_app', Db, (Nlm is_draw), (Nl3 is_draw) by reflexivity.
      destruct (is_train ph && _); cbn; rewrite ?app_nil_r; reflexivity.
    - rewrite !count_app, Bb. unfold count. rewrite (Nlm (is_begin ph)), (Nl3 (is_begin ph)) by reflexivity.
      destruct (is_train ph && _); cbn; rewrite phase_eqb_refl; reflexivity.
    - rewrite !count_app, Sb. unfold count, step_count. rewrite (Nlm is_step), (Nl3 is_step) by reflexivity.
      destruct (is_train ph && _); cbn; reflexivity.
    - rewrite !count_app, Cb. unfold count. rewrite (Nlm is_cstep), (Nl3 is_cstep) by reflexivity.
      destruct (is_train ph && negb _); cbn; lia.
  Qed.

  (* ---- callbacks: they act only through the listed actions *)
  (* everything an action cannot touch *)
  Definition rec_part (s : state) :=
    (h_train s, h_valid s, m_train s, m_valid s, lowest s, best s, tracked s,
     cur_train s, cur_valid s, local_epoch s, max_local s, events s, grad s).

  Lemma rec_part_action (a : action) (s : state) : rec_part (apply_action a s) = rec_part s.
  Proof. destruct a as [ph n| | | | | |]; try reflexivity. destruct ph; reflexivity. Qed.

  Lemma rec_part_actions (acts : list action) : forall s : state,
    rec_part (fold_left (fun s' a => apply_action a s') acts s) = rec_part s.
  Proof.
    induction acts as [|a acts IH]; intros s; cbn [fold_left]; [reflexivity|].
    rewrite IH. apply rec_part_action.
  Qed.

  Lemma rec_part_events (s s' : state) : rec_part s' = rec_part s -> events s' = events s.
  Proof. unfold rec_part. congruence. Qed.

  (* rec_part except the events *)
  Definition quiet_part (s : state) :=
    (h_train s, h_valid s, m_train s, m_valid s, lowest s, best s, tracked s,
     cur_train s, cur_valid s, local_epoch s, max_local s, grad s).

  Lemma run_cb_spec i (cb : callback) (s : state) :
    events (run_cb i cb s) = EvCb i :: events s /\ quiet_part (run_cb i cb s) = quiet_part s.
  Proof.
    unfold Solver.run_cb.
    pose proof (rec_part_actions (cb s) (log (EvCb i) s)) as H.
    unfold rec_part in H. unfold quiet_part. sproj_in H. split; congruence.
  Qed.

  Lemma run_cbs_from_spec (cbs : list callback) : forall i (s : state),
    events (run_cbs_from i cbs s) = rev (map EvCb (seq i (length cbs))) ++ events s /\
    quiet_part (run_cbs_from i cbs s) = quiet_part s.
  Proof.
    induction cbs as [|cb cbs IH]; intros i s; cbn [Solver.run_cbs_from length seq map rev].
    - split; reflexivity.
    - destruct (IH (S i) (run_cb i cb s)) as [E Q]. destruct (run_cb_spec i cb s) as [E1 Q1].
      rewrite E, Q, E1, Q1. rewrite <- app_assoc. split; reflexivity.
  Qed.
End Base.
