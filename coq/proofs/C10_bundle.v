(* C10 — bundle conditions hold per sample for parameters routed by the lookup table.
   A list-generic model of _BundleConditionMixin._get_parameter + the two parameterize bodies,
   theorems for EVERY lookup table (any names, any indices, any number of extra columns), and
   the tie: the model equals the term pyfront regenerates from conditions.py for every lookup of
   the property's quantifier (all subsets x all injective index assignments among 4 columns).
   DESIGN.md §7 C10. *)
From Coq Require Import Reals List Lra Lia ZArith Field String Bool.
From ND.lib Require Import Expr ExprLemmas Tac.
From ND.gen Require Import Gen_C10.
Import ListNotations.
Open Scope R_scope.

(* ------------------------------------------------------------------ model *)
Definition lookup_t := list (string * nat).

Fixpoint assoc (name : string) (lk : lookup_t) : option nat :=
  match lk with
  | [] => None
  | (k, i) :: r => if String.eqb k name then Some i else assoc name r
  end.

(* `thetas[lookup[name]]` if the name is in the table, else the constructor attribute
   (None when the attribute itself is None).  An out-of-range index is an IndexError. *)
Inductive pval := PErr | PNone | PVal (e : expr).

Definition get_parameter (lk : lookup_t) (thetas : list expr) (name : string) (attr : option expr) : pval :=
  match assoc name lk with
  | Some i => match nth_error thetas i with Some e => PVal e | None => PErr end
  | None => match attr with Some e => PVal e | None => PNone end
  end.

Definition one_minus_exp (t t0 : expr) := ESub (ECst 1) (EExp (EAdd (ENeg t) t0)).

Definition bundle_ivp (lk : lookup_t) (thetas : list expr) (a_t0 a_u0 : expr) (a_u0p : option expr)
           (o t : expr) : option expr :=
  match get_parameter lk thetas "t_0" (Some a_t0), get_parameter lk thetas "u_0" (Some a_u0),
        get_parameter lk thetas "u_0_prime" a_u0p with
  | PVal t0, PVal u0, PNone => Some (EAdd u0 (EMul (one_minus_exp t t0) o))
  | PVal t0, PVal u0, PVal u0p =>
      Some (EAdd (EAdd u0 (EMul (ESub t t0) u0p)) (EMul (EPow (one_minus_exp t t0) 2) o))
  | _, _, _ => None
  end.

Definition bundle_bvp (lk : lookup_t) (thetas : list expr) (a_t0 a_u0 a_t1 a_u1 : expr) (o t : expr) : option expr :=
  match get_parameter lk thetas "u_0" (Some a_u0), get_parameter lk thetas "u_1" (Some a_u1),
        get_parameter lk thetas "t_0" (Some a_t0), get_parameter lk thetas "t_1" (Some a_t1) with
  | PVal u0, PVal u1, PVal t0, PVal t1 =>
      let tt := EDiv (ESub t t0) (ESub t1 t0) in
      Some (EAdd (EAdd (EMul u0 (ESub (ECst 1) tt)) (EMul u1 tt))
                 (EMul (ESub (ECst 1) (EExp (EMul (ESub (ECst 1) tt) tt))) o))
  | _, _, _, _ => None
  end.

(* ------------------------------------------------------------------ routing *)
Lemma get_parameter_spec lk thetas name attr :
  get_parameter lk thetas name attr =
  match assoc name lk with
  | Some i => match nth_error thetas i with Some e => PVal e | None => PErr end
  | None => match attr with Some e => PVal e | None => PNone end
  end.
Proof. reflexivity. Qed.

Lemma get_parameter_named lk thetas name attr i e :
  assoc name lk = Some i -> nth_error thetas i = Some e -> get_parameter lk thetas name attr = PVal e.
Proof. unfold get_parameter. now intros -> ->. Qed.

Lemma get_parameter_default lk thetas name e :
  assoc name lk = None -> get_parameter lk thetas name (Some e) = PVal e.
Proof. unfold get_parameter. now intros ->. Qed.

(* ------------------------------------------------------------------ the condition holds per row *)
(* a parameter value is either a constant attribute or a column leaf different from t: its
   derivative with respect to t is syntactically zero *)
Definition const_in (tv : nat) (e : expr) : Prop := occurs tv e = false.

Section Rows.
  Variable venv penv : nat -> R.
  Variable fenv : nat -> list nat -> list R -> R.
  Notation ev := (eval venv penv fenv).

  Lemma D_const tv e : const_in tv e -> ev (D tv e) = 0.
  Proof. apply D_independent_zero. Qed.

  (* BundleIVP, value: at t = t_0(row) the enforced function equals u_0(row) *)
  Theorem bundle_ivp_value lk thetas a_t0 a_u0 a_u0p o tv e t0 u0 :
    bundle_ivp lk thetas a_t0 a_u0 a_u0p o (EVar tv) = Some e ->
    get_parameter lk thetas "t_0" (Some a_t0) = PVal t0 ->
    get_parameter lk thetas "u_0" (Some a_u0) = PVal u0 ->
    venv tv = ev t0 -> ev e = ev u0.
  Proof.
    unfold bundle_ivp. intros He Ht0 Hu0 Hat. rewrite Ht0, Hu0 in He.
    destruct (get_parameter lk thetas "u_0_prime" a_u0p) as [| |u0p]; try discriminate;
      injection He as <-; cbn [eval one_minus_exp]; rewrite Hat; norm_exp0; ring.
  Qed.

  (* BundleIVP, derivative mode: d/dt at t = t_0(row) equals u_0'(row) *)
  Theorem bundle_ivp_deriv lk thetas a_t0 a_u0 a_u0p o tv e t0 u0 u0p :
    bundle_ivp lk thetas a_t0 a_u0 a_u0p o (EVar tv) = Some e ->
    get_parameter lk thetas "t_0" (Some a_t0) = PVal t0 ->
    get_parameter lk thetas "u_0" (Some a_u0) = PVal u0 ->
    get_parameter lk thetas "u_0_prime" a_u0p = PVal u0p ->
    const_in tv t0 -> const_in tv u0 -> const_in tv u0p ->
    venv tv = ev t0 -> ev (D tv e) = ev u0p.
  Proof.
    unfold bundle_ivp. intros He Ht0 Hu0 Hup C0 C1 C2 Hat. rewrite Ht0, Hu0, Hup in He.
    injection He as <-. cbn [D one_minus_exp eval]. rewrite Nat.eqb_refl. cbn [eval].
    rewrite !D_const by auto. rewrite Hat. norm_exp0. cbn [pow]. ring.
  Qed.

  (* BundleDirichletBVP: both ends, per-row t_0(row) <> t_1(row) in either orientation *)
  Theorem bundle_bvp_left lk thetas a_t0 a_u0 a_t1 a_u1 o tv e t0 u0 t1 :
    bundle_bvp lk thetas a_t0 a_u0 a_t1 a_u1 o (EVar tv) = Some e ->
    get_parameter lk thetas "t_0" (Some a_t0) = PVal t0 ->
    get_parameter lk thetas "u_0" (Some a_u0) = PVal u0 ->
    get_parameter lk thetas "t_1" (Some a_t1) = PVal t1 ->
    ev t1 - ev t0 <> 0 -> venv tv = ev t0 -> ev e = ev u0.
  Proof.
    unfold bundle_bvp. intros He Ht0 Hu0 Ht1 Hd Hat. rewrite Ht0, Hu0, Ht1 in He.
    destruct (get_parameter lk thetas "u_1" (Some a_u1)) as [| |u1]; try discriminate.
    injection He as <-. cbn [eval]. rewrite Hat. norm_exp0. field. auto.
  Qed.

  Theorem bundle_bvp_right lk thetas a_t0 a_u0 a_t1 a_u1 o tv e t0 u1 t1 :
    bundle_bvp lk thetas a_t0 a_u0 a_t1 a_u1 o (EVar tv) = Some e ->
    get_parameter lk thetas "t_0" (Some a_t0) = PVal t0 ->
    get_parameter lk thetas "u_1" (Some a_u1) = PVal u1 ->
    get_parameter lk thetas "t_1" (Some a_t1) = PVal t1 ->
    ev t1 - ev t0 <> 0 -> venv tv = ev t1 -> ev e = ev u1.
  Proof.
    unfold bundle_bvp. intros He Ht0 Hu1 Ht1 Hd Hat. rewrite Ht0, Hu1, Ht1 in He.
    destruct (get_parameter lk thetas "u_0" (Some a_u0)) as [| |u0]; try discriminate.
    injection He as <-. cbn [eval]. rewrite Hat. norm_exp0. field. auto.
  Qed.
End Rows.

(* columns not named in the table never influence the prescribed boundary value: it is the
   named column or the constant, nothing else *)
Theorem boundary_value_source lk thetas name attr e :
  get_parameter lk thetas name (Some attr) = PVal e ->
  (exists i, assoc name lk = Some i /\ nth_error thetas i = Some e) \/ (assoc name lk = None /\ e = attr).
Proof.
  unfold get_parameter. destruct (assoc name lk) as [i|].
  - destruct (nth_error thetas i) eqn:E; [|discriminate]. intros [= <-]. left; eauto.
  - intros [= <-]. right; auto.
Qed.

(* ------------------------------------------------------------------ tie to the generated terms *)
(* common numbering of all generated modes: t = leaf 0, th_i = leaf 1+i; params 0.. ; N = symbol 0 *)
Definition TH4 : list expr := [EVar 1; EVar 2; EVar 3; EVar 4]%nat.
Definition NET5 : expr := EFun 0 [0;0;0;0;0]%nat [AVar 0; AVar 1; AVar 2; AVar 3; AVar 4]%nat.

Definition opt_eqb (o : option expr) (l : list expr) : bool :=
  match o, l with Some e, [e'] => expr_eqb e e' | _, _ => false end.

Definition ivp_model (m : lookup_t * bool) : option expr :=
  bundle_ivp (fst m) TH4 (EPar 0) (EPar 1) (if snd m then Some (EPar 2) else None) NET5 (EVar 0).
Definition bvp_model (m : lookup_t) : option expr :=
  bundle_bvp m TH4 (EPar 0) (EPar 1) (EPar 2) (EPar 3) NET5 (EVar 0).

Lemma tie_ivp : forallb (fun mt : (lookup_t * bool) * list expr => opt_eqb (ivp_model (fst mt)) (snd mt)) index_ivp = true.
Proof. vm_compute. reflexivity. Qed.

Lemma tie_bvp : forallb (fun mt : lookup_t * list expr => opt_eqb (bvp_model (fst mt)) (snd mt)) index_bvp = true.
Proof. vm_compute. reflexivity. Qed.

Lemma index_sizes : List.length index_ivp = 110%nat /\ List.length index_bvp = 251%nat.
Proof. split; reflexivity. Qed.

(* hence: for every lookup table of the quantifier, the generated term IS the model *)
Theorem generated_ivp_is_model : forall m ts, In (m, ts) index_ivp -> exists e, ivp_model m = Some e /\ ts = [e].
Proof.
  intros m ts Hin. pose proof tie_ivp as H. rewrite forallb_forall in H. specialize (H _ Hin). cbn [fst snd] in H.
  unfold opt_eqb in H. destruct (ivp_model m) as [e|]; [|discriminate].
  destruct ts as [|e' [|? ?]]; try discriminate. apply expr_eqb_eq in H. subst. eauto.
Qed.

Theorem generated_bvp_is_model : forall m ts, In (m, ts) index_bvp -> exists e, bvp_model m = Some e /\ ts = [e].
Proof.
  intros m ts Hin. pose proof tie_bvp as H. rewrite forallb_forall in H. specialize (H _ Hin). cbn [fst snd] in H.
  unfold opt_eqb in H. destruct (bvp_model m) as [e|]; [|discriminate].
  destruct ts as [|e' [|? ?]]; try discriminate. apply expr_eqb_eq in H. subst. eauto.
Qed.

Lemma c10_rejects : ivp_reject_name.raises = true /\ bvp_reject_name.raises = true.
Proof. split; reflexivity. Qed.

(* non-vacuity: a concrete lookup satisfies the premises of bundle_ivp_deriv *)
Example bundle_premises_satisfiable :
  exists e, bundle_ivp [("t_0"%string, 2%nat); ("u_0"%string, 0%nat)] TH4 (EPar 0) (EPar 1) (Some (EPar 2)) NET5 (EVar 0) = Some e
    /\ get_parameter [("t_0"%string, 2%nat); ("u_0"%string, 0%nat)] TH4 "t_0" (Some (EPar 0)) = PVal (EVar 3)
    /\ const_in 0 (EVar 3).
Proof. eexists. repeat split. Qed.
