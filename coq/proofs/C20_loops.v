(* C20 — the legacy training loops (neurodiffeq/temporal.py): the mini-batches of one epoch
   partition the (permuted) training set and the loop terminates for batch_size >= 1; the
   history loop adds exactly one entry per epoch to every series.  Proofs about model/Legacy.v. *)
From Coq Require Import String.
From Coq Require Import List Arith Lia Permutation FinFun.
From ND.model Require Import Legacy.
Import ListNotations.
Local Open Scope nat_scope.

Lemma skipn_add {A} a b (l : list A) : skipn a (skipn b l) = skipn (b + a) l.
Proof.
  revert l. induction b as [|b IH]; intros l; [reflexivity|].
  destruct l as [|x l]; [now rewrite !skipn_nil | cbn [skipn Nat.add]; apply IH].
Qed.

Lemma NoDup_app_intro {A} (l1 l2 : list A) :
  NoDup l1 -> NoDup l2 -> (forall x, In x l1 -> ~ In x l2) -> NoDup (l1 ++ l2).
Proof.
  induction l1 as [|a l1 IH]; intros H1 H2 Hd; [exact H2|].
  inversion H1 as [|? ? Ha H1']; subst. cbn [app]. constructor.
  - rewrite in_app_iff. intros [H|H]; [contradiction|]. apply (Hd a); [left; reflexivity | exact H].
  - apply IH; auto. intros x Hx. apply Hd. right. exact Hx.
Qed.

(* ------------------------------------------------------------------ mini-batch partition *)
Section MB.
  Variable A : Type.

  Lemma batches_spec (idx : list A) (bs : nat) :
    1 <= bs ->
    forall fuel bstart, length idx - bstart < fuel ->
    exists r, batches_fuel fuel idx (length idx) bs bstart (bstart + bs) = Some r
              /\ concat r = skipn bstart idx
              /\ Forall (fun b => 1 <= length b <= bs) r.
  Proof.
    intros Hbs. set (n := length idx).
    induction fuel as [|fuel IH]; intros bstart Hf; [lia|].
    cbn [batches_fuel]. destruct (Nat.ltb_spec bstart n) as [Hlt|Hge].
    - destruct (Nat.ltb_spec n (bstart + bs)) as [Hclamp|Hfull].
      + (* last, short batch: batch_end clamped to n; the next test fails *)
        assert (Hnext : batches_fuel fuel idx n bs (bstart + bs) (n + bs) = Some []).
        { destruct fuel as [|fuel']; [lia|]. cbn [batches_fuel].
          destruct (Nat.ltb_spec (bstart + bs) n); [lia | reflexivity]. }
        rewrite Hnext. eexists. split; [reflexivity|]. split.
        * cbn [concat]. rewrite app_nil_r. unfold slice. apply firstn_all2.
          rewrite skipn_length. fold n. lia.
        * constructor; [|constructor]. unfold slice. rewrite firstn_length, skipn_length. fold n. lia.
      + destruct (IH (bstart + bs)) as [r [Hr [Hc Hall]]]; [lia|].
        rewrite Hr. eexists. split; [reflexivity|]. split.
        * cbn [concat]. rewrite Hc. unfold slice.
          replace (bstart + bs - bstart) with bs by lia.
          replace (skipn (bstart + bs) idx) with (skipn bs (skipn bstart idx))
            by (rewrite skipn_add; reflexivity).
          apply firstn_skipn.
        * constructor; [|exact Hall]. unfold slice. rewrite firstn_length, skipn_length. fold n. lia.
    - eexists. split; [reflexivity|]. split; [|constructor].
      cbn [concat]. symmetry. apply skipn_all2. fold n. lia.
  Qed.

  Lemma minibatch_concat (idx : list A) (bs : nat) :
    1 <= bs ->
    exists bsl, minibatches idx (length idx) bs = Some bsl
                /\ concat bsl = idx
                /\ Forall (fun b => 1 <= length b <= bs) bsl.
  Proof.
    intros Hbs. unfold minibatches.
    destruct (batches_spec idx bs Hbs (S (length idx)) 0) as [r [Hr [Hc Hall]]]; [lia|].
    cbn [Nat.add] in Hr. exists r. repeat split; auto.
  Qed.

  (* why batch_size >= 1 is assumed: with batch_size = 0 the loop never ends, whatever the fuel *)
  Lemma minibatch_zero_diverges (idx : list A) fuel bend :
    1 <= length idx -> batches_fuel fuel idx (length idx) 0 0 bend = None.
  Proof.
    intros Hn. revert bend. induction fuel as [|fuel IH]; intros bend; [reflexivity|].
    cbn [batches_fuel]. destruct (Nat.ltb_spec 0 (length idx)); [|lia].
    cbn [Nat.add]. now rewrite IH.
  Qed.
End MB.

(* each training point exactly once per epoch *)
Lemma minibatch_partition (n : nat) (idx : list nat) (bs : nat) :
  Permutation idx (seq 0 n) -> 1 <= bs ->
  exists bsl, minibatches idx n bs = Some bsl
              /\ concat bsl = idx
              /\ Permutation (concat bsl) (seq 0 n)
              /\ Forall (fun b => 1 <= length b <= bs) bsl.
Proof.
  intros Hp Hbs. assert (Hn : length idx = n) by (rewrite (Permutation_length Hp); apply seq_length).
  destruct (minibatch_concat nat idx bs Hbs) as [bsl [H1 [H2 H3]]]. rewrite Hn in H1.
  exists bsl. repeat split; auto. now rewrite H2.
Qed.

Lemma epoch_calls_spec (n : nat) (idx : list nat) (bs : nat) :
  Permutation idx (seq 0 n) -> 1 <= bs ->
  exists bsl, epoch_calls idx n bs = Some (map CLossBatch bsl ++ [CLossTrainAll; CMetricsTrainAll; CLossValid; CMetricsValid])
              /\ concat bsl = idx.
Proof.
  intros Hp Hbs. destruct (minibatch_partition n idx bs Hp Hbs) as [bsl [H1 [H2 _]]].
  exists bsl. unfold epoch_calls. rewrite H1. auto.
Qed.

Example minibatch_example :
  minibatches [3; 0; 4; 1; 2] 5 2 = Some [[3; 0]; [4; 1]; [2]].
Proof. reflexivity. Qed.

Example minibatch_premises_satisfiable : Permutation [3; 0; 4; 1; 2] (seq 0 5) /\ 1 <= 2.
Proof.
  split; [|lia]. cbn [seq].
  apply Permutation_sym.
  apply (perm_trans (l' := [0; 3; 1; 2; 4])).
  - apply perm_skip. apply Permutation_sym. apply (Permutation_middle [1; 2] [4] 3).
  - apply (perm_trans (l' := [3; 0; 1; 2; 4])); [apply perm_swap|].
    do 2 apply perm_skip. apply Permutation_sym.
    apply (perm_trans (l' := [4; 2; 1])).
    + apply perm_skip. apply perm_swap.
    + apply (perm_trans (l' := [2; 4; 1])); [apply perm_swap|]. apply (perm_trans (l' := [2; 1; 4])).
      * apply perm_skip, perm_swap.
      * apply perm_swap.
Qed.

(* ------------------------------------------------------------------ history: one entry per epoch *)
Section Hist.
  Variable V : Type.
  Variable tl vl : nat -> V.
  Variable tm vm : nat -> string -> V.
  Variable metrics : list string.
  Hypothesis Hnodup : NoDup metrics.
  Hypothesis Hnoloss : ~ In "loss"%string metrics.

  Fixpoint lookup (h : history V) (k : string) : option (list V) :=
    match h with
    | [] => None
    | (k', v) :: r => if String.eqb k' k then Some v else lookup r k
    end.

  Definition keys : list string :=
    "train_loss"%string :: "valid_loss"%string :: flat_map (fun m => [("train_" ++ m)%string; ("valid_" ++ m)%string]) metrics.

  (* ---- strings *)
  Lemma train_inj m m' : ("train_" ++ m)%string = ("train_" ++ m')%string -> m = m'.
  Proof. cbn [append]. intros H. inversion H. reflexivity. Qed.
  Lemma valid_inj m m' : ("valid_" ++ m)%string = ("valid_" ++ m')%string -> m = m'.
  Proof. cbn [append]. intros H. inversion H. reflexivity. Qed.
  Lemma train_valid_neq m m' : ("train_" ++ m)%string <> ("valid_" ++ m')%string.
  Proof. cbn [append]. discriminate. Qed.
  Lemma train_loss_is m : ("train_" ++ m)%string = "train_loss"%string -> m = "loss"%string.
  Proof. cbn [append]. intros H. inversion H. reflexivity. Qed.
  Lemma valid_loss_is m : ("valid_" ++ m)%string = "valid_loss"%string -> m = "loss"%string.
  Proof. cbn [append]. intros H. inversion H. reflexivity. Qed.

  (* ---- h_set / h_append against lookup *)
  Lemma h_set_absent (h : history V) k v : ~ In k (map fst h) -> h_set h k v = h ++ [(k, v)].
  Proof.
    induction h as [|[k' v'] r IH]; intros Hn; [reflexivity|].
    cbn [h_set]. destruct (String.eqb_spec k' k) as [E|E].
    - exfalso. apply Hn. left. exact E.
    - cbn [app]. f_equal. apply IH. intros Hin. apply Hn. right. exact Hin.
  Qed.

  Lemma h_append_spec (h : history V) k x h' :
    h_append h k x = Some h' ->
    map fst h' = map fst h
    /\ (exists old, lookup h k = Some old /\ lookup h' k = Some (old ++ [x]))
    /\ (forall k', k' <> k -> lookup h' k' = lookup h k').
  Proof.
    revert h'. induction h as [|[k0 v0] r IH]; intros h' H; [discriminate|].
    cbn [h_append] in H. destruct (String.eqb_spec k0 k) as [E|E].
    - inversion H; subst h'. cbn [map fst lookup]. rewrite E, String.eqb_refl. split; [reflexivity|]. split.
      + exists v0. auto.
      + intros k' Hk'. destruct (String.eqb_spec k k'); [congruence | reflexivity].
    - destruct (h_append r k x) as [r'|] eqn:Er; [|discriminate]. inversion H; subst h'.
      destruct (IH r' eq_refl) as [H1 [[old [H2 H3]] H4]].
      cbn [map fst lookup]. rewrite H1. split; [reflexivity|].
      destruct (String.eqb_spec k0 k); [contradiction|]. split.
      + exists old. auto.
      + intros k' Hk'. destruct (String.eqb k0 k'); [reflexivity | now apply H4].
  Qed.

  Lemma h_append_total (h : history V) k x : In k (map fst h) -> exists h', h_append h k x = Some h'.
  Proof.
    induction h as [|[k0 v0] r IH]; intros Hin; [contradiction|].
    cbn [h_append]. destruct (String.eqb_spec k0 k) as [E|E]; [eexists; reflexivity|].
    destruct Hin as [Hin|Hin]; [cbn in Hin; contradiction|].
    destruct (IH Hin) as [r' Hr]. rewrite Hr. eexists; reflexivity.
  Qed.

  (* ---- a sequence of appends with pairwise distinct keys *)
  Fixpoint h_append_list (h : history V) (kvs : list (string * V)) : option (history V) :=
    match kvs with
    | [] => Some h
    | (k, x) :: r => match h_append h k x with Some h' => h_append_list h' r | None => None end
    end.

  Lemma h_append_list_app h a b :
    h_append_list h (a ++ b) = match h_append_list h a with Some h' => h_append_list h' b | None => None end.
  Proof.
    revert h. induction a as [|[k x] a IH]; intros h; [reflexivity|].
    cbn [app h_append_list]. destruct (h_append h k x); [apply IH | reflexivity].
  Qed.

  Lemma h_append_all_list h pre (kvs : list (string * V)) :
    h_append_all V h pre kvs = h_append_list h (map (fun kv => ((pre ++ fst kv)%string, snd kv)) kvs).
  Proof.
    revert h. induction kvs as [|[m x] r IH]; intros h; [reflexivity|].
    cbn [h_append_all map h_append_list fst snd]. destruct (h_append h (pre ++ m) x); [apply IH | reflexivity].
  Qed.

  Lemma h_append_list_spec kvs : forall (h : history V),
    NoDup (map fst kvs) -> (forall k, In k (map fst kvs) -> In k (map fst h)) ->
    exists h', h_append_list h kvs = Some h'
      /\ map fst h' = map fst h
      /\ (forall k x, In (k, x) kvs -> exists old, lookup h k = Some old /\ lookup h' k = Some (old ++ [x]))
      /\ (forall k, ~ In k (map fst kvs) -> lookup h' k = lookup h k).
  Proof.
    induction kvs as [|[k x] r IH]; intros h Hnd Hin.
    - exists h. repeat split; auto. intros k x [].
    - cbn [map fst] in Hnd. inversion Hnd as [|? ? Hk Hnd']; subst.
      destruct (h_append_total h k x) as [h1 H1]; [apply Hin; left; reflexivity|].
      destruct (h_append_spec h k x h1 H1) as [Hkeys [[old [Ho Ho']] Hother]].
      destruct (IH h1 Hnd') as [h' [Hr [Hk' [Hin' Hout']]]].
      { intros k' Hk'. rewrite Hkeys. apply Hin. right. exact Hk'. }
      exists h'. cbn [h_append_list]. rewrite H1. split; [exact Hr|]. split; [congruence|]. split.
      + intros k' x' [E|Hi].
        * inversion E; subst k' x'. exists old. split; [exact Ho|]. rewrite Hout'; auto.
        * destruct (Hin' k' x' Hi) as [old' [Ha Hb]]. exists old'. split; [|exact Hb].
          rewrite <- Ha. symmetry. apply Hother. intros ->. apply Hk.
          apply (in_map fst) in Hi. exact Hi.
      + intros k' Hnk. cbn [map fst In] in Hnk. rewrite Hout' by tauto. apply Hother. intros ->. apply Hnk. left; reflexivity.
  Qed.

  (* ---- the appends of one epoch *)
  Definition epoch_kvs (e : nat) : list (string * V) :=
    ("train_loss"%string, tl e) :: map (fun m => (("train_" ++ m)%string, tm e m)) metrics
    ++ ("valid_loss"%string, vl e) :: map (fun m => (("valid_" ++ m)%string, vm e m)) metrics.

  Lemma epoch_update_list e h : epoch_update tl vl tm vm metrics e h = h_append_list h (epoch_kvs e).
  Proof.
    unfold epoch_update, epoch_kvs. cbn [h_append_list].
    destruct (h_append h "train_loss" (tl e)) as [h1|]; [|reflexivity].
    rewrite h_append_list_app, h_append_all_list, map_map. cbn [fst snd].
    destruct (h_append_list h1 _) as [h2|]; [|reflexivity].
    cbn [h_append_list]. destruct (h_append h2 "valid_loss" (vl e)) as [h3|]; [|reflexivity].
    rewrite h_append_all_list, map_map. reflexivity.
  Qed.

  Lemma epoch_keys e :
    map fst (epoch_kvs e) = "train_loss"%string :: map (fun m => ("train_" ++ m)%string) metrics
                            ++ "valid_loss"%string :: map (fun m => ("valid_" ++ m)%string) metrics.
  Proof. unfold epoch_kvs. cbn [map fst]. rewrite map_app. cbn [map fst]. now rewrite !map_map. Qed.

  Lemma epoch_keys_nodup e : NoDup (map fst (epoch_kvs e)).
  Proof.
    rewrite epoch_keys. constructor.
    - rewrite in_app_iff. intros [H|[H|H]].
      + apply in_map_iff in H as [m [E Hm]]. apply train_loss_is in E. subst. contradiction.
      + discriminate.
      + apply in_map_iff in H as [m [E Hm]]. symmetry in E. now apply train_valid_neq in E.
    - apply NoDup_app_intro.
      + apply FinFun.Injective_map_NoDup; [intros a b; apply train_inj | exact Hnodup].
      + constructor.
        * intros H. apply in_map_iff in H as [m [E Hm]]. apply valid_loss_is in E. subst. contradiction.
        * apply FinFun.Injective_map_NoDup; [intros a b; apply valid_inj | exact Hnodup].
      + intros k H1 [H2|H2].
        * subst k. apply in_map_iff in H1 as [m [E Hm]]. now apply train_valid_neq in E.
        * apply in_map_iff in H1 as [m [E Hm]]. apply in_map_iff in H2 as [m' [E' Hm']]. subst k.
          symmetry in E'. now apply train_valid_neq in E'.
  Qed.

  Lemma epoch_keys_in e k : In k (map fst (epoch_kvs e)) <-> In k keys.
  Proof.
    rewrite epoch_keys. unfold keys. cbn [In]. rewrite in_app_iff. cbn [In]. rewrite in_flat_map, !in_map_iff.
    split.
    - intros [H|[[m [E Hm]]|[H|[m [E Hm]]]]]; auto.
      + right; right. exists m. split; auto. left; auto.
      + right; right. exists m. split; auto. right; left; auto.
    - intros [H|[H|[m [Hm [E|[E|[]]]]]]]; auto.
      + right; left. exists m; auto.
      + right; right; right. exists m; auto.
  Qed.

  (* which value stream feeds which series *)
  Inductive tracked : string -> (nat -> V) -> Prop :=
  | T_train_loss : tracked "train_loss" tl
  | T_valid_loss : tracked "valid_loss" vl
  | T_train m : In m metrics -> tracked ("train_" ++ m) (fun e => tm e m)
  | T_valid m : In m metrics -> tracked ("valid_" ++ m) (fun e => vm e m).

  Lemma tracked_in_epoch k f e : tracked k f -> In (k, f e) (epoch_kvs e).
  Proof.
    unfold epoch_kvs. intros [| |m Hm|m Hm].
    - left; reflexivity.
    - right. apply in_or_app. right. left. reflexivity.
    - right. apply in_or_app. left. apply in_map_iff. exists m; auto.
    - right. apply in_or_app. right. right. apply in_map_iff. exists m; auto.
  Qed.

  Lemma key_tracked k : In k keys -> exists f, tracked k f.
  Proof.
    unfold keys. intros [H|[H|H]].
    - subst. eexists; constructor.
    - subst. eexists; constructor.
    - apply in_flat_map in H as [m [Hm [E|[E|[]]]]]; subst; eexists; constructor; exact Hm.
  Qed.

  Lemma solve_from_spec : forall k e0 (h : history V),
    map fst h = keys ->
    (forall key f, tracked key f -> lookup h key = Some (map f (seq 0 e0))) ->
    exists h', solve_from tl vl tm vm metrics k e0 h = Some h'
      /\ map fst h' = keys
      /\ (forall key f, tracked key f -> lookup h' key = Some (map f (seq 0 (e0 + k)))).
  Proof.
    induction k as [|k IH]; intros e0 h Hk Hl.
    - exists h. rewrite Nat.add_0_r. auto.
    - cbn [solve_from]. rewrite epoch_update_list.
      destruct (h_append_list_spec (epoch_kvs e0) h (epoch_keys_nodup e0)) as [h1 [H1 [Hk1 [Hin1 _]]]].
      { intros key Hkey. rewrite Hk. now apply epoch_keys_in in Hkey. }
      rewrite H1.
      destruct (IH (S e0) h1) as [h' [Hs [Hk' Hl']]].
      + congruence.
      + intros key f Ht. destruct (Hin1 key (f e0) (tracked_in_epoch key f e0 Ht)) as [old [Ho Hn]].
        rewrite (Hl key f Ht) in Ho. inversion Ho; subst old.
        rewrite Hn. rewrite seq_S, map_app. reflexivity.
      + exists h'. split; [exact Hs|]. split; [exact Hk'|].
        intros key f Ht. rewrite (Hl' key f Ht). f_equal. f_equal. f_equal. lia.
  Qed.

  (* ---- the initial dictionary *)
  Lemma h_init_fold : forall ms (acc : history V),
    NoDup ms ->
    (forall m, In m ms -> ~ In ("train_" ++ m)%string (map fst acc) /\ ~ In ("valid_" ++ m)%string (map fst acc)) ->
    fold_left (fun h m => h_set (h_set h ("train_" ++ m) []) ("valid_" ++ m) []) ms acc
    = acc ++ flat_map (fun m => [(("train_" ++ m)%string, []); (("valid_" ++ m)%string, [])]) ms.
  Proof.
    induction ms as [|m ms IH]; intros acc Hnd Hfresh; [cbn; now rewrite app_nil_r|].
    inversion Hnd as [|? ? Hm Hnd']; subst.
    destruct (Hfresh m (or_introl eq_refl)) as [Ht Hv].
    cbn [fold_left flat_map]. rewrite (h_set_absent acc _ _ Ht).
    rewrite h_set_absent.
    - rewrite IH; auto.
      + rewrite <- !app_assoc. reflexivity.
      + intros m' Hm'. destruct (Hfresh m' (or_intror Hm')) as [Ht' Hv'].
        rewrite !map_app. cbn [map fst]. rewrite !in_app_iff. cbn [In]. split.
        * intros [[H|[H|[]]]|[H|[]]]; auto.
          -- apply train_inj in H. subst. contradiction.
          -- symmetry in H. now apply train_valid_neq in H.
        * intros [[H|[H|[]]]|[H|[]]]; auto.
          -- now apply train_valid_neq in H.
          -- apply valid_inj in H. subst. contradiction.
    - rewrite map_app. cbn [map fst]. rewrite in_app_iff. cbn [In].
      intros [H|[H|[]]]; auto. now apply train_valid_neq in H.
  Qed.

  Lemma h_init_eq : h_init metrics = map (fun k => (k, @nil V)) keys.
  Proof.
    unfold h_init. rewrite h_init_fold; auto.
    - unfold keys. cbn [map app]. f_equal. f_equal. induction metrics as [|m ms IH]; [reflexivity|].
      cbn [flat_map map app]. f_equal. f_equal. apply IH.
      + now inversion Hnodup.
      + intros H. apply Hnoloss. right. exact H.
    - intros m Hm. cbn [map fst In]. split.
      + intros [H|[H|[]]].
        * symmetry in H. apply train_loss_is in H. subst. contradiction.
        * symmetry in H. now apply train_valid_neq in H.
      + intros [H|[H|[]]].
        * now apply train_valid_neq in H.
        * symmetry in H. apply valid_loss_is in H. subst. contradiction.
  Qed.

  Lemma lookup_const ks k : In k ks -> lookup (map (fun k => (k, @nil V)) ks) k = Some [].
  Proof.
    induction ks as [|k0 ks IH]; intros Hin; [contradiction|].
    cbn [map lookup]. destruct (String.eqb_spec k0 k) as [E|E]; [reflexivity|].
    destruct Hin; [contradiction | auto].
  Qed.

  Lemma tracked_key k f : tracked k f -> In k keys.
  Proof.
    unfold keys. intros [| |m Hm|m Hm]; cbn [In]; auto; right; right; apply in_flat_map; exists m; cbn [In]; auto.
  Qed.

  Lemma keys_nodup : NoDup keys.
  Proof.
    unfold keys. constructor; [|constructor].
    - cbn [In]. intros [H|H]; [discriminate|]. apply in_flat_map in H as [m [Hm [E|[E|[]]]]].
      + apply train_loss_is in E. subst. contradiction.
      + symmetry in E. now apply train_valid_neq in E.
    - intros H. apply in_flat_map in H as [m [Hm [E|[E|[]]]]].
      + now apply train_valid_neq in E.
      + apply valid_loss_is in E. subst. contradiction.
    - clear Hnoloss. induction metrics as [|m ms IH]; [constructor|].
      inversion Hnodup as [|? ? Hm Hnd]; subst. cbn [flat_map app]. constructor; [|constructor].
      + cbn [In]. intros [H|H]; [symmetry in H; now apply train_valid_neq in H|].
        apply in_flat_map in H as [m' [Hm' [E|[E|[]]]]].
        * apply train_inj in E. subst. contradiction.
        * symmetry in E. now apply train_valid_neq in E.
      + intros H. apply in_flat_map in H as [m' [Hm' [E|[E|[]]]]].
        * now apply train_valid_neq in E.
        * apply valid_inj in E. subst. contradiction.
      + apply IH, Hnd.
  Qed.

  Lemma lookup_in (h : history V) k s : NoDup (map fst h) -> In (k, s) h -> lookup h k = Some s.
  Proof.
    induction h as [|[k0 v0] r IH]; intros Hnd Hin; [contradiction|].
    cbn [map fst] in Hnd. inversion Hnd as [|? ? Hk0 Hnd']; subst.
    cbn [lookup]. destruct Hin as [E|Hin].
    - inversion E; subst. now rewrite String.eqb_refl.
    - destruct (String.eqb_spec k0 k) as [E|E]; [|auto].
      subst. exfalso. apply Hk0. apply (in_map fst) in Hin. exact Hin.
  Qed.

  Theorem history_one_per_epoch (max_epochs : nat) :
    exists h, solve tl vl tm vm metrics max_epochs = Some h
      /\ map fst h = keys
      /\ (forall key f, tracked key f -> lookup h key = Some (map f (seq 0 max_epochs)))
      /\ Forall (fun kv => length (snd kv) = max_epochs) h.
  Proof.
    unfold solve.
    destruct (solve_from_spec max_epochs 0 (h_init metrics)) as [h [Hs [Hk Hl]]].
    - rewrite h_init_eq, map_map. cbn [fst]. apply map_id.
    - intros key f Ht. rewrite h_init_eq. cbn [seq map]. apply lookup_const. eapply tracked_key; eauto.
    - exists h. split; [exact Hs|]. split; [exact Hk|]. split; [exact Hl|].
      apply Forall_forall. intros [k s] Hin. cbn [snd].
      assert (Hkk : In k keys) by (rewrite <- Hk; apply (in_map fst) in Hin; exact Hin).
      destruct (key_tracked k Hkk) as [f Hf].
      pose proof (Hl k f Hf) as Hlk. cbn [Nat.add] in Hlk.
      rewrite (lookup_in h k s) in Hlk; [|rewrite Hk; apply keys_nodup | exact Hin].
      inversion Hlk. now rewrite map_length, seq_length.
  Qed.
End Hist.

Lemma history_one_per_epoch_all (V : Type) (tl vl : nat -> V) (tm vm : nat -> string -> V)
    (metrics : list string) (max_epochs : nat) :
  NoDup metrics -> ~ In "loss"%string metrics ->
  exists h, solve tl vl tm vm metrics max_epochs = Some h
    /\ map fst h = keys metrics
    /\ (forall key f, tracked V tl vl tm vm metrics key f -> lookup V h key = Some (map f (seq 0 max_epochs)))
    /\ Forall (fun kv => length (snd kv) = max_epochs) h.
Proof. intros H1 H2. exact (history_one_per_epoch V tl vl tm vm metrics H1 H2 max_epochs). Qed.

Example history_example :
  solve (fun e => e) (fun e => 100 + e) (fun e _ => 200 + e) (fun e _ => 300 + e) ["mse"%string] 2
  = Some [("train_loss"%string, [0; 1]); ("valid_loss"%string, [100; 101]);
          ("train_mse"%string, [200; 201]); ("valid_mse"%string, [300; 301])].
Proof. reflexivity. Qed.

(* the excluded configuration really is different: a metric called "loss" shares the key
   "train_loss" and that series gets two entries per epoch *)
Example history_metric_named_loss :
  solve (fun e => e) (fun e => 100 + e) (fun e _ => 200 + e) (fun e _ => 300 + e) ["loss"%string] 1
  = Some [("train_loss"%string, [0; 200]); ("valid_loss"%string, [100; 300])].
Proof. reflexivity. Qed.
