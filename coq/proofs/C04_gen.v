(* C04_gen.v — the definitions GENERATED from neurodiffeq/solvers.py (coq/gen/Gen_C04.v, regenerated on every run by
   tools/props/t_C04.py) are equal, for ALL inputs, to the corresponding definitions of the hand-written model
   coq/model/Solver.v.  So the theorems of P_C04 / P_C05 / P_C06 about the model hold for the code as translated;
   a change of the source that changes a generated definition breaks the equality proved here. *)
From Coq Require Import List Arith Bool Lia.
From ND.model Require Import Solver.
From ND.gen Require Import Gen_C04.
From ND.proofs Require Import C15_base C05_best C06_solution.
Import ListNotations.

Lemma mapM_map {A B C : Type} (f : B -> option C) (g : A -> B) : forall l,
  mapM f (map g l) = mapM (fun x => f (g x)) l.
Proof. induction l as [|x l IH]; cbn [map mapM]; [reflexivity|]. rewrite IH. reflexivity. Qed.

Lemma mapM_option_map {A B C D : Type} (f : A -> option B) (f' : D -> option C) (g : B -> C) (h : A -> D) :
  (forall x, option_map g (f x) = f' (h x)) -> forall l, option_map (map g) (mapM f l) = mapM f' (map h l).
Proof.
  intros H. induction l as [|x l IH]; cbn [mapM map option_map]; [reflexivity|].
  rewrite <- (H x), <- IH. destruct (f x); cbn [option_map]; [|reflexivity].
  destruct (mapM f l); reflexivity.
Qed.

(* ---- 1. BundleSolver1D: what the user's equations receive *)
Theorem gen_eq_args_is_model {T : Type} (nf : nat) (idx : list nat) (fs coords : list T) :
  gen_eq_args nf idx (fs ++ coords) = eq_args Bundle nf idx fs coords.
Proof.
  unfold gen_eq_args, gen_diff_eqs_wrapper, gen_offset_index, gen_n_coords, eq_args.
  rewrite mapM_map. reflexivity.
Qed.

(* ---- 2. SolverSpherical._auto_enforce: n_params and the VAR_POSITIONAL test as functions of the signature *)
Definition sig_nparams (s : csig) : nat := match s with SigFixed a => S a | SigVariadic => 2 end.
Definition sig_variadic (s : csig) : bool := match s with SigFixed _ => false | SigVariadic => true end.

Theorem gen_route_coords_is_model {T Cd : Type} (sig : Cd -> csig) (c : Cd) (coords : list T) :
  route_coords sig Spherical c coords = gen_route_coords (sig_nparams (sig c)) (sig_variadic (sig c)) coords.
Proof.
  unfold route_coords, gen_route_coords, sig_nparams, sig_variadic. destruct (sig c) as [a|]; cbn [negb]; [|reflexivity].
  cbn [Nat.sub]. rewrite Nat.sub_0_r. reflexivity.
Qed.

(* ---- 3a. bookkeeping arithmetic that does not mention the state *)
Theorem gen_epoch_skipped_is_model (n : nat) : gen_epoch_skipped n = (n =? 0).
Proof. destruct n; reflexivity. Qed.

Theorem gen_plain_train_is_model (ph : phase) (clo : bool) :
  is_train ph && negb clo = gen_plain_train (negb (is_train ph)) clo /\
  is_train ph && negb clo = gen_zero_first (negb (is_train ph)) clo.
Proof. destruct ph, clo; split; reflexivity. Qed.

(* ---- 4. BaseSolution.__call__ shape logic *)
Section GenCall.
  Variable S : Type.
  Local Notation tensor := (Solver.tensor S).

  Theorem gen_original_shape_is_model (c0 : tensor) (rest : list tensor) :
    gen_original_shape (map tshape (c0 :: rest)) = Some (tshape c0).
  Proof. reflexivity. Qed.

  Theorem gen_col_shapes_is_model (coords : list tensor) :
    Forall (fun c => numel (tshape c) = length (tdata c)) coords ->
    gen_col_shapes (map tshape coords) = map (fun c => [length (tdata c); 1]) coords.
  Proof.
    unfold gen_col_shapes, gen_reshape_m1_1. induction 1 as [|c l Hc _ IH]; cbn [map]; [reflexivity|].
    rewrite Hc, IH. reflexivity.
  Qed.

  Lemma numel_col n : numel [n; 1] = n.
  Proof. cbn. lia. Qed.

  (* the shapes of the returned tensors: the model's per-output `shape_col` against the generated reshape logic,
     outputs of _compute_u being (n, 1) columns *)
  Theorem gen_out_shapes_is_model (nr : bool) (c0 : tensor) (us : list (list S)) :
    option_map (map (@tshape S)) (mapM (shape_col S nr c0) us) =
    gen_out_shapes nr (tshape c0) (map (fun u => [length u; 1]) us).
  Proof.
    unfold gen_out_shapes. destruct nr; cbn [negb].
    - rewrite (mapM_option_map (shape_col S true c0) (fun sh => Some sh) (@tshape S) (fun u => [length u; 1]))
        by (intros u; reflexivity).
      clear. induction (map (fun u : list S => [length u; 1]) us) as [|x l IH]; cbn [mapM]; [reflexivity|].
      rewrite IH. reflexivity.
    - apply mapM_option_map. intros u. unfold shape_col, reshape, gen_reshape_to. rewrite numel_col.
      destruct (numel (tshape c0) =? length u); reflexivity.
  Qed.

  Theorem gen_pack_is_model {N : Type} (nets : list N) (ts : list tensor) :
    pack (length nets) ts =
    match gen_pack nets ts with
    | Some (inl l) => Some (Many l)
    | Some (inr t) => Some (One t)
    | None => None
    end.
  Proof. unfold pack, gen_pack. destruct (1 <? length nets); [reflexivity|]. destruct ts; reflexivity. Qed.

  (* the (condition, network) pairing: zip(self.conditions, self.nets), _compute_u(net, con, *coords) *)
  Theorem gen_us_is_model {N Cd : Type} (enforce_col : Cd -> N -> list (list S) -> option (list S))
          (cds : list Cd) (nets : list N) (cols : list (list S)) :
    mapM (fun u => u) (gen_us (fun n c x => enforce_col c n x) cds nets cols) =
    mapM (fun cn => enforce_col (fst cn) (snd cn) cols) (combine cds nets).
  Proof. unfold gen_us. rewrite mapM_map. reflexivity. Qed.

  (* what a Solution holds: the given lists themselves; a single module replicated once per condition *)
  Theorem gen_solution_nets_is_model {N Cd : Type} (net : N) (nets : list N) (cds : list Cd) :
    gen_solution_nets (Some net) nets cds = nets_of_module net cds /\
    gen_solution_nets None nets cds = nets /\ gen_solution_conditions cds = cds.
  Proof. repeat split. Qed.
End GenCall.

Section C04gen.
  Variables P G B V O C : Type.
  Variable loss : nat -> C -> P -> B -> V.
  Variable gradl : nat -> C -> P -> B -> G.
  Variable metric : nat -> C -> P -> B -> V.
  Variable nmetrics : nat.
  Variable gzero : G.
  Variable gadd : G -> G -> G.
  Variable vzero : V.
  Variable vadd : V -> V -> V.
  Variable vdivn : V -> nat -> V.
  Variable vltb : V -> V -> bool.
  Variable requires_closure : O -> bool.
  Variable opt_step : O -> P -> G -> O * P.
  Variable closure_opt : O -> P -> (P -> V * G) -> O * list P * P.
  Variable draw : phase -> nat -> B.

  Local Notation state := (Solver.state P G V O C).
  Local Notation acc := (Solver.acc V).
  Local Notation callback := (Solver.callback P G V O C).
  Local Notation action := (Solver.action P O C).
  Local Notation op := (Solver.op P G V O C).
  Local Notation acc0 := (Solver.acc0 nmetrics vzero).
  Local Notation met_add := (Solver.met_add metric vadd).
  Local Notation met_add_from := (Solver.met_add_from metric vadd).
  Local Notation closure_of := (Solver.closure_of loss gradl).
  Local Notation eval_batch := (Solver.eval_batch loss gradl metric gadd vadd closure_opt).
  Local Notation batch_step := (Solver.batch_step loss gradl metric gadd vadd closure_opt draw).
  Local Notation run_batches := (Solver.run_batches loss gradl metric gadd vadd closure_opt draw).
  Local Notation update_best := (Solver.update_best vltb).
  Local Notation do_step := (Solver.do_step opt_step).
  Local Notation zero_grad := (Solver.zero_grad gzero).
  Local Notation run_epoch := (Solver.run_epoch loss gradl metric nmetrics gzero gadd vzero vadd vdivn vltb requires_closure opt_step closure_opt draw).
  Local Notation iteration := (Solver.iteration loss gradl metric nmetrics gzero gadd vzero vadd vdivn vltb requires_closure opt_step closure_opt draw).
  Local Notation fit_loop := (Solver.fit_loop loss gradl metric nmetrics gzero gadd vzero vadd vdivn vltb requires_closure opt_step closure_opt draw).
  Local Notation fit := (Solver.fit loss gradl metric nmetrics gzero gadd vzero vadd vdivn vltb requires_closure opt_step closure_opt draw).
  Local Notation run_op := (Solver.run_op loss gradl metric nmetrics gzero gadd vzero vadd vdivn vltb requires_closure opt_step closure_opt draw).
  Local Notation run_ops := (Solver.run_ops loss gradl metric nmetrics gzero gadd vzero vadd vdivn vltb requires_closure opt_step closure_opt draw).
  Local Notation init := (Solver.init V nmetrics gzero).

  (* lemmas of the earlier files, applied to the components above *)
  Local Notation batches := (C15_base.batches B draw).
  Local Notation same_book := (C15_base.same_book P G V O C).
  Local Notation same_book_refl := (C15_base.same_book_refl P G V O C).
  Local Notation same_book_trans := (C15_base.same_book_trans P G V O C).
  Local Notation batch_step_book := (C15_base.batch_step_book P G B V O C loss gradl metric gadd vadd closure_opt draw).
  Local Notation run_batches_book := (C15_base.run_batches_book P G B V O C loss gradl metric gadd vadd closure_opt draw).
  Local Notation batch_step_cur := (C15_base.batch_step_cur P G B V O C loss gradl metric gadd vadd closure_opt draw).
  Local Notation run_batches_cur := (C15_base.run_batches_cur P G B V O C loss gradl metric gadd vadd closure_opt draw).
  Local Notation batch_step_fixed := (C15_base.batch_step_fixed P G B V O C loss gradl metric gadd vadd closure_opt draw).
  Local Notation run_batches_fixed := (C15_base.run_batches_fixed P G B V O C loss gradl metric gadd vadd closure_opt draw).
  Local Notation batch_step_events := (C15_base.batch_step_events P G B V O C loss gradl metric gadd vadd closure_opt draw).
  Local Notation run_batches_events := (C15_base.run_batches_events P G B V O C loss gradl metric gadd vadd closure_opt draw).
  Local Notation state_ext := (C15_base.state_ext P G V O C).
  Local Notation set_cur := (C15_base.set_cur P G V O C).
  Local Notation run_batches_fixed_state := (C15_base.run_batches_fixed_state P G B V O C loss gradl metric gadd vadd closure_opt draw).
  Local Notation cstate := (C15_base.cstate P G V O).
  Local Notation closure_batch := (C15_base.closure_batch P G B V O C loss gradl metric vadd closure_opt).
  Local Notation run_batches_closure := (C15_base.run_batches_closure P G B V O C loss gradl metric gadd vadd closure_opt draw).
  Local Notation better := (C15_base.better P G V O C vltb).
  Local Notation update_best_snoc := (C15_base.update_best_snoc P G V O C vltb).
  Local Notation run_epoch_zero := (C15_base.run_epoch_zero P G B V O C loss gradl metric nmetrics gzero gadd vzero vadd vdivn vltb requires_closure opt_step closure_opt draw).
  Local Notation push_each_length := (C15_base.push_each_length V).
  Local Notation push_each_Forall := (C15_base.push_each_Forall V).
  Local Notation met_add_from_length := (C15_base.met_add_from_length P B V C metric vadd).
  Local Notation fold_met_length := (C15_base.fold_met_length P B V C metric vadd).
  Local Notation pre_state := (C15_base.pre_state P G V O C gzero requires_closure).
  Local Notation epoch_batches := (C15_base.epoch_batches P G B V O C loss gradl metric nmetrics gzero gadd vzero vadd requires_closure closure_opt draw).
  Local Notation means := (C15_base.means V vdivn).
  Local Notation epoch_loss := (C15_base.epoch_loss P G B V O C loss gradl metric nmetrics gzero gadd vzero vadd vdivn requires_closure closure_opt draw).
  Local Notation pre_state_book := (C15_base.pre_state_book P G V O C gzero requires_closure).
  Local Notation epoch_batches_book := (C15_base.epoch_batches_book P G B V O C loss gradl metric nmetrics gzero gadd vzero vadd requires_closure closure_opt draw).
  Local Notation run_epoch_unfold := (C15_base.run_epoch_unfold P G B V O C loss gradl metric nmetrics gzero gadd vzero vadd vdivn vltb requires_closure opt_step closure_opt draw).
  Local Notation ctl := (C15_base.ctl P G V O C).
  Local Notation ctl_of_book := (C15_base.ctl_of_book P G V O C).
  Local Notation ctl_push_hist := (C15_base.ctl_push_hist P G V O C).
  Local Notation ctl_update_best := (C15_base.ctl_update_best P G V O C vltb).
  Local Notation ctl_do_step := (C15_base.ctl_do_step P G V O C opt_step).
  Local Notation ctl_push_metrics := (C15_base.ctl_push_metrics P G V O C).
  Local Notation ctl_run_epoch := (C15_base.ctl_run_epoch P G B V O C loss gradl metric nmetrics gzero gadd vzero vadd vdivn vltb requires_closure opt_step closure_opt draw).
  Local Notation hists_update_best := (C15_base.hists_update_best P G V O C vltb).
  Local Notation hists_do_step := (C15_base.hists_do_step P G V O C opt_step).
  Local Notation a_met_length := (C15_base.a_met_length P G B V O C loss gradl metric gadd vadd closure_opt draw).
  Local Notation epoch_met_length := (C15_base.epoch_met_length P G B V O C loss gradl metric nmetrics gzero gadd vzero vadd requires_closure closure_opt draw).
  Local Notation run_epoch_hists := (C15_base.run_epoch_hists P G B V O C loss gradl metric nmetrics gzero gadd vzero vadd vdivn vltb requires_closure opt_step closure_opt draw).
  Local Notation events_update_best := (C15_base.events_update_best P G V O C vltb).
  Local Notation events_do_step := (C15_base.events_do_step P G V O C opt_step).
  Local Notation step_count := (C15_base.step_count P G V O C requires_closure).
  Local Notation run_epoch_events := (C15_base.run_epoch_events P G B V O C loss gradl metric nmetrics gzero gadd vzero vadd vdivn vltb requires_closure opt_step closure_opt draw).
  Local Notation rec_part := (C15_base.rec_part P G V O C).
  Local Notation rec_part_action := (C15_base.rec_part_action P G V O C).
  Local Notation rec_part_actions := (C15_base.rec_part_actions P G V O C).
  Local Notation rec_part_events := (C15_base.rec_part_events P G V O C).
  Local Notation quiet_part := (C15_base.quiet_part P G V O C).
  Local Notation run_cb_spec := (C15_base.run_cb_spec P G V O C).
  Local Notation run_cbs_from_spec := (C15_base.run_cbs_from_spec P G V O C).
  Local Notation tracks := (C05_best.tracks P G V O C).
  Local Notation bt := (C05_best.bt P G V O C).
  Local Notation new_entry := (C05_best.new_entry P G B V O C loss gradl metric nmetrics gzero gadd vzero vadd vdivn requires_closure closure_opt draw).
  Local Notation bt_do_step := (C05_best.bt_do_step P G V O C opt_step).
  Local Notation bt_push_metrics := (C05_best.bt_push_metrics P G V O C).
  Local Notation bt_run_epoch := (C05_best.bt_run_epoch P G B V O C loss gradl metric nmetrics gzero gadd vzero vadd vdivn vltb requires_closure opt_step closure_opt draw).
  Local Notation step_best := (C05_best.step_best P V C vltb).
  Local Notation scan := (C05_best.scan P V C vltb).
  Local Notation Best_inv := (C05_best.Best_inv P G V O C vltb).
  Local Notation scan_snoc := (C05_best.scan_snoc P V C vltb).
  Local Notation best_inv_epoch := (C05_best.best_inv_epoch P G B V O C loss gradl metric nmetrics gzero gadd vzero vadd vdivn vltb requires_closure opt_step closure_opt draw).
  Local Notation best_inv_same := (C05_best.best_inv_same P G V O C vltb).
  Local Notation bt_action := (C05_best.bt_action P G V O C).
  Local Notation bt_cbs := (C05_best.bt_cbs P G V O C).
  Local Notation best_inv_iteration := (C05_best.best_inv_iteration P G B V O C loss gradl metric nmetrics gzero gadd vzero vadd vdivn vltb requires_closure opt_step closure_opt draw).
  Local Notation best_inv_fit_loop := (C05_best.best_inv_fit_loop P G B V O C loss gradl metric nmetrics gzero gadd vzero vadd vdivn vltb requires_closure opt_step closure_opt draw).
  Local Notation best_inv_ops := (C05_best.best_inv_ops P G B V O C loss gradl metric nmetrics gzero gadd vzero vadd vdivn vltb requires_closure opt_step closure_opt draw).
  Local Notation scan_none := (C05_best.scan_none P V C vltb).
  Local Notation scan_spec := (C05_best.scan_spec P V C vltb).
  Local Notation best_inv_init := (C05_best.best_inv_init P G V O C nmetrics gzero vltb).
  Local Notation best_inv := (C05_best.best_inv P G B V O C loss gradl metric nmetrics gzero gadd vzero vadd vdivn vltb requires_closure opt_step closure_opt draw).
  Local Notation act_ok := (C05_best.act_ok P G V O C).
  Local Notation op_ok := (C05_best.op_ok P G V O C).
  Local Notation keeps_valid_on := (C05_best.keeps_valid_on P O C).
  Local Notation keeps_valid_off := (C05_best.keeps_valid_off P O C).
  Local Notation Tr_valid := (C05_best.Tr_valid P G V O C).
  Local Notation Tr_train := (C05_best.Tr_train P G V O C).
  Local Notation nbv_run_epoch := (C05_best.nbv_run_epoch P G B V O C loss gradl metric nmetrics gzero gadd vzero vadd vdivn vltb requires_closure opt_step closure_opt draw).
  Local Notation tr_valid_epoch := (C05_best.tr_valid_epoch P G B V O C loss gradl metric nmetrics gzero gadd vzero vadd vdivn vltb requires_closure opt_step closure_opt draw).
  Local Notation tr_train_epoch := (C05_best.tr_train_epoch P G B V O C loss gradl metric nmetrics gzero gadd vzero vadd vdivn vltb requires_closure opt_step closure_opt draw).
  Local Notation inv_acts := (C05_best.inv_acts P G V O C).
  Local Notation inv_cbs_from := (C05_best.inv_cbs_from P G V O C).
  Local Notation tr_valid_act := (C05_best.tr_valid_act P G V O C).
  Local Notation tr_train_act := (C05_best.tr_train_act P G V O C).
  Local Notation tracked_is_valid_history := (C05_best.tracked_is_valid_history P G B V O C loss gradl metric nmetrics gzero gadd vzero vadd vdivn vltb requires_closure opt_step closure_opt draw).
  Local Notation tracked_is_train_history := (C05_best.tracked_is_train_history P G B V O C loss gradl metric nmetrics gzero gadd vzero vadd vdivn vltb requires_closure opt_step closure_opt draw).
  Local Notation strictly_lower := (C05_best.strictly_lower V vltb).
  Local Notation improves := (C05_best.improves P G V O C vltb).
  Local Notation improves_refl := (C05_best.improves_refl P G V O C vltb).
  Local Notation improves_trans := (C05_best.improves_trans P G V O C vltb).
  Local Notation improves_same := (C05_best.improves_same P G V O C vltb).
  Local Notation best_frozen_epoch := (C05_best.best_frozen_epoch P G B V O C loss gradl metric nmetrics gzero gadd vzero vadd vdivn vltb requires_closure opt_step closure_opt draw).
  Local Notation improves_iteration := (C05_best.improves_iteration P G B V O C loss gradl metric nmetrics gzero gadd vzero vadd vdivn vltb requires_closure opt_step closure_opt draw).
  Local Notation improves_fit_loop := (C05_best.improves_fit_loop P G B V O C loss gradl metric nmetrics gzero gadd vzero vadd vdivn vltb requires_closure opt_step closure_opt draw).
  Local Notation best_frozen := (C05_best.best_frozen P G B V O C loss gradl metric nmetrics gzero gadd vzero vadd vdivn vltb requires_closure opt_step closure_opt draw).
  Local Notation mean_loss := (C05_best.mean_loss P B V C loss vzero vadd vdivn draw).
  Local Notation reproduces := (C05_best.reproduces P B V C loss vzero vadd vdivn draw).
  Local Notation new_entry_reproduces := (C05_best.new_entry_reproduces P G B V O C loss gradl metric nmetrics gzero gadd vzero vadd vdivn requires_closure closure_opt draw).
  Local Notation Rep_inv := (C05_best.Rep_inv P G B V O C loss vzero vadd vdivn draw).
  Local Notation rep_epoch := (C05_best.rep_epoch P G B V O C loss gradl metric nmetrics gzero gadd vzero vadd vdivn vltb requires_closure opt_step closure_opt draw).
  Local Notation rep_same := (C05_best.rep_same P G B V O C loss vzero vadd vdivn draw).
  Local Notation rep_fit_loop := (C05_best.rep_fit_loop P G B V O C loss gradl metric nmetrics gzero gadd vzero vadd vdivn vltb requires_closure opt_step closure_opt draw).
  Local Notation rep_ops := (C05_best.rep_ops P G B V O C loss gradl metric nmetrics gzero gadd vzero vadd vdivn vltb requires_closure opt_step closure_opt draw).
  Local Notation best_reproduces := (C05_best.best_reproduces P G B V O C loss gradl metric nmetrics gzero gadd vzero vadd vdivn vltb requires_closure opt_step closure_opt draw).
  Local Notation closure_final := (C05_best.closure_final P G B V O C loss gradl closure_opt).
  Local Notation closure_pts := (C05_best.closure_pts P G B V O C loss gradl closure_opt).
  Local Notation closure_fold_spec := (C05_best.closure_fold_spec P G B V O C loss gradl metric vadd closure_opt).
  Local Notation best_closure_novalid_partial := (C05_best.best_closure_novalid_partial P G B V O C loss gradl metric nmetrics gzero gadd vzero vadd vdivn vltb requires_closure opt_step closure_opt draw).

  (* ---- 3b. _run_epoch / _update_best against the state machine *)
  Theorem gen_guard_is_model ph (s : state) : gen_epoch_skipped (nb ph s) = true -> run_epoch ph s = s.
  Proof. rewrite gen_epoch_skipped_is_model. intros H. apply Nat.eqb_eq in H. apply run_epoch_zero. exact H. Qed.

  Theorem gen_entries_are_model ph (s : state) : gen_epoch_skipped (nb ph s) = false ->
    hist ph (run_epoch ph s) =
      hist ph s ++ [gen_loss_entry vdivn (a_eloss (snd (epoch_batches ph s))) (nb ph s)] /\
    mhist ph (run_epoch ph s) =
      push_each (mhist ph s) (map (fun v => gen_metric_entry vdivn v (nb ph s)) (a_met (snd (epoch_batches ph s)))).
  Proof.
    rewrite gen_epoch_skipped_is_model. intros H. apply Nat.eqb_neq in H.
    destruct (run_epoch_hists ph s H) as (H1 & _ & H3 & _). split; [exact H1|exact H3].
  Qed.

  Theorem gen_tracks_is_model ph (s : state) : tracks ph s = gen_tracks (negb (is_train ph)) (nb_valid s).
  Proof. reflexivity. Qed.

  Theorem gen_better_is_model (leb : V -> V -> bool) (v : V) (s : state) :
    better v s = gen_better vltb leb (lowest s) v.
  Proof. unfold C15_base.better, gen_better. destruct (lowest s); reflexivity. Qed.

  (* _update_best(key) reads the LAST entry of the history of its own key and, with the generated comparison,
     produces exactly the model's new (lowest_loss, best_nets); best_nets is a copy of the live parameters *)
  Theorem gen_update_best_is_model (leb : V -> V -> bool) ph clo (s : state) h v :
    hist ph s = h ++ [v] ->
    gen_current_loss (hist ph s) = Some v /\
    (lowest (update_best ph clo s), best (update_best ph clo s)) =
    gen_update_best vltb leb (lowest s) (best s) v (theta s).
  Proof.
    intros H. split; [unfold gen_current_loss; rewrite H; apply last_opt_snoc|].
    rewrite (update_best_snoc ph clo s h v H). unfold gen_update_best. rewrite <- (gen_better_is_model leb v s).
    destruct (better v s); reflexivity.
  Qed.

End C04gen.
