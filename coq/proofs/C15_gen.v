(* C15_gen.v — the fit loop GENERATED from neurodiffeq/solvers.py (coq/gen/Gen_C15.v, regenerated on every run by
   tools/props/t_C15.py) equals the model's `fit` (coq/model/Solver.v) for ALL states, callback lists and
   max_epochs, once its abstract operations are instantiated with the model's: the attribute assignments, the read
   of the stop flag, _run_epoch('train'), _run_epoch('valid') and the call of one callback.  The C15 theorems about
   `fit` therefore hold for the loop as translated; moving the `break`, the local-epoch assignment or the callbacks
   in the source changes the generated term and breaks the equality proved here. *)
From Coq Require Import List Arith Bool Lia.
From ND.model Require Import Solver.
From ND.gen Require Import Gen_C15.
From ND.proofs Require Import C15_base C15_bookkeeping.
Import ListNotations.

Section C15gen.
  Variables P G B V O C : Type.
  Variable loss : nat -> C -> P -> B -> V.
  Variable gradl : nat -> C -> P -> B -> G.
  Variable metric : nat -> C -> P -> B -> V.
  Variable nmetrics : nat.
  Variable gzero : G.
  Variable gadd : G -> G -> G.
  Variable vzero : V.
  Variable vadd : V -> V -> V.
  Variable vdivn : V -> nat -> V.
  Variable vltb : V -> V -> bool.
  Variable requires_closure : O -> bool.
  Variable opt_step : O -> P -> G -> O * P.
  Variable closure_opt : O -> P -> (P -> V * G) -> O * list P * P.
  Variable draw : phase -> nat -> B.

  Local Notation state := (Solver.state P G V O C).
  Local Notation acc := (Solver.acc V).
  Local Notation callback := (Solver.callback P G V O C).
  Local Notation action := (Solver.action P O C).
  Local Notation op := (Solver.op P G V O C).
  Local Notation acc0 := (Solver.acc0 nmetrics vzero).
  Local Notation met_add := (Solver.met_add metric vadd).
  Local Notation met_add_from := (Solver.met_add_from metric vadd).
  Local Notation closure_of := (Solver.closure_of loss gradl).
  Local Notation eval_batch := (Solver.eval_batch loss gradl metric gadd vadd closure_opt).
  Local Notation batch_step := (Solver.batch_step loss gradl metric gadd vadd closure_opt draw).
  Local Notation run_batches := (Solver.run_batches loss gradl metric gadd vadd closure_opt draw).
  Local Notation update_best := (Solver.update_best vltb).
  Local Notation do_step := (Solver.do_step opt_step).
  Local Notation zero_grad := (Solver.zero_grad gzero).
  Local Notation run_epoch := (Solver.run_epoch loss gradl metric nmetrics gzero gadd vzero vadd vdivn vltb requires_closure opt_step closure_opt draw).
  Local Notation iteration := (Solver.iteration loss gradl metric nmetrics gzero gadd vzero vadd vdivn vltb requires_closure opt_step closure_opt draw).
  Local Notation fit_loop := (Solver.fit_loop loss gradl metric nmetrics gzero gadd vzero vadd vdivn vltb requires_closure opt_step closure_opt draw).
  Local Notation fit := (Solver.fit loss gradl metric nmetrics gzero gadd vzero vadd vdivn vltb requires_closure opt_step closure_opt draw).
  Local Notation run_op := (Solver.run_op loss gradl metric nmetrics gzero gadd vzero vadd vdivn vltb requires_closure opt_step closure_opt draw).
  Local Notation run_ops := (Solver.run_ops loss gradl metric nmetrics gzero gadd vzero vadd vdivn vltb requires_closure opt_step closure_opt draw).
  Local Notation init := (Solver.init V nmetrics gzero).

  (* lemmas of the earlier files, applied to the components above *)
  Local Notation batches := (C15_base.batches B draw).
  Local Notation same_book := (C15_base.same_book P G V O C).
  Local Notation same_book_refl := (C15_base.same_book_refl P G V O C).
  Local Notation same_book_trans := (C15_base.same_book_trans P G V O C).
  Local Notation batch_step_book := (C15_base.batch_step_book P G B V O C loss gradl metric gadd vadd closure_opt draw).
  Local Notation run_batches_book := (C15_base.run_batches_book P G B V O C loss gradl metric gadd vadd closure_opt draw).
  Local Notation batch_step_cur := (C15_base.batch_step_cur P G B V O C loss gradl metric gadd vadd closure_opt draw).
  Local Notation run_batches_cur := (C15_base.run_batches_cur P G B V O C loss gradl metric gadd vadd closure_opt draw).
  Local Notation batch_step_fixed := (C15_base.batch_step_fixed P G B V O C loss gradl metric gadd vadd closure_opt draw).
  Local Notation run_batches_fixed := (C15_base.run_batches_fixed P G B V O C loss gradl metric gadd vadd closure_opt draw).
  Local Notation batch_step_events := (C15_base.batch_step_events P G B V O C loss gradl metric gadd vadd closure_opt draw).
  Local Notation run_batches_events := (C15_base.run_batches_events P G B V O C loss gradl metric gadd vadd closure_opt draw).
  Local Notation state_ext := (C15_base.state_ext P G V O C).
  Local Notation set_cur := (C15_base.set_cur P G V O C).
  Local Notation run_batches_fixed_state := (C15_base.run_batches_fixed_state P G B V O C loss gradl metric gadd vadd closure_opt draw).
  Local Notation cstate := (C15_base.cstate P G V O).
  Local Notation closure_batch := (C15_base.closure_batch P G B V O C loss gradl metric vadd closure_opt).
  Local Notation run_batches_closure := (C15_base.run_batches_closure P G B V O C loss gradl metric gadd vadd closure_opt draw).
  Local Notation better := (C15_base.better P G V O C vltb).
  Local Notation update_best_snoc := (C15_base.update_best_snoc P G V O C vltb).
  Local Notation run_epoch_zero := (C15_base.run_epoch_zero P G B V O C loss gradl metric nmetrics gzero gadd vzero vadd vdivn vltb requires_closure opt_step closure_opt draw).
  Local Notation push_each_length := (C15_base.push_each_length V).
  Local Notation push_each_Forall := (C15_base.push_each_Forall V).
  Local Notation met_add_from_length := (C15_base.met_add_from_length P B V C metric vadd).
  Local Notation fold_met_length := (C15_base.fold_met_length P B V C metric vadd).
  Local Notation pre_state := (C15_base.pre_state P G V O C gzero requires_closure).
  Local Notation epoch_batches := (C15_base.epoch_batches P G B V O C loss gradl metric nmetrics gzero gadd vzero vadd requires_closure closure_opt draw).
  Local Notation means := (C15_base.means V vdivn).
  Local Notation epoch_loss := (C15_base.epoch_loss P G B V O C loss gradl metric nmetrics gzero gadd vzero vadd vdivn requires_closure closure_opt draw).
  Local Notation pre_state_book := (C15_base.pre_state_book P G V O C gzero requires_closure).
  Local Notation epoch_batches_book := (C15_base.epoch_batches_book P G B V O C loss gradl metric nmetrics gzero gadd vzero vadd requires_closure closure_opt draw).
  Local Notation run_epoch_unfold := (C15_base.run_epoch_unfold P G B V O C loss gradl metric nmetrics gzero gadd vzero vadd vdivn vltb requires_closure opt_step closure_opt draw).
  Local Notation ctl := (C15_base.ctl P G V O C).
  Local Notation ctl_of_book := (C15_base.ctl_of_book P G V O C).
  Local Notation ctl_push_hist := (C15_base.ctl_push_hist P G V O C).
  Local Notation ctl_update_best := (C15_base.ctl_update_best P G V O C vltb).
  Local Notation ctl_do_step := (C15_base.ctl_do_step P G V O C opt_step).
  Local Notation ctl_push_metrics := (C15_base.ctl_push_metrics P G V O C).
  Local Notation ctl_run_epoch := (C15_base.ctl_run_epoch P G B V O C loss gradl metric nmetrics gzero gadd vzero vadd vdivn vltb requires_closure opt_step closure_opt draw).
  Local Notation hists_update_best := (C15_base.hists_update_best P G V O C vltb).
  Local Notation hists_do_step := (C15_base.hists_do_step P G V O C opt_step).
  Local Notation a_met_length := (C15_base.a_met_length P G B V O C loss gradl metric gadd vadd closure_opt draw).
  Local Notation epoch_met_length := (C15_base.epoch_met_length P G B V O C loss gradl metric nmetrics gzero gadd vzero vadd requires_closure closure_opt draw).
  Local Notation run_epoch_hists := (C15_base.run_epoch_hists P G B V O C loss gradl metric nmetrics gzero gadd vzero vadd vdivn vltb requires_closure opt_step closure_opt draw).
  Local Notation events_update_best := (C15_base.events_update_best P G V O C vltb).
  Local Notation events_do_step := (C15_base.events_do_step P G V O C opt_step).
  Local Notation step_count := (C15_base.step_count P G V O C requires_closure).
  Local Notation run_epoch_events := (C15_base.run_epoch_events P G B V O C loss gradl metric nmetrics gzero gadd vzero vadd vdivn vltb requires_closure opt_step closure_opt draw).
  Local Notation rec_part := (C15_base.rec_part P G V O C).
  Local Notation rec_part_action := (C15_base.rec_part_action P G V O C).
  Local Notation rec_part_actions := (C15_base.rec_part_actions P G V O C).
  Local Notation rec_part_events := (C15_base.rec_part_events P G V O C).
  Local Notation quiet_part := (C15_base.quiet_part P G V O C).
  Local Notation run_cb_spec := (C15_base.run_cb_spec P G V O C).
  Local Notation run_cbs_from_spec := (C15_base.run_cbs_from_spec P G V O C).
  Local Notation runs := (C15_bookkeeping.runs P G V O C).
  Local Notation Inv_ph := (C15_bookkeeping.Inv_ph P G V O C nmetrics).
  Local Notation Inv_len := (C15_bookkeeping.Inv_len P G V O C nmetrics).
  Local Notation inv_init := (C15_bookkeeping.inv_init P G V O C nmetrics gzero).
  Local Notation inv_ph_transfer := (C15_bookkeeping.inv_ph_transfer P G V O C nmetrics).
  Local Notation inv_epoch := (C15_bookkeeping.inv_epoch P G B V O C loss gradl metric nmetrics gzero gadd vzero vadd vdivn vltb requires_closure opt_step closure_opt draw).
  Local Notation inv_same_counts := (C15_bookkeeping.inv_same_counts P G V O C nmetrics).
  Local Notation runs_app_quiet := (C15_bookkeeping.runs_app_quiet P G V O C).
  Local Notation inv_cbs := (C15_bookkeeping.inv_cbs P G V O C nmetrics).
  Local Notation inv_iteration := (C15_bookkeeping.inv_iteration P G B V O C loss gradl metric nmetrics gzero gadd vzero vadd vdivn vltb requires_closure opt_step closure_opt draw).
  Local Notation inv_fit_loop := (C15_bookkeeping.inv_fit_loop P G B V O C loss gradl metric nmetrics gzero gadd vzero vadd vdivn vltb requires_closure opt_step closure_opt draw).
  Local Notation inv_fit := (C15_bookkeeping.inv_fit P G B V O C loss gradl metric nmetrics gzero gadd vzero vadd vdivn vltb requires_closure opt_step closure_opt draw).
  Local Notation inv_action := (C15_bookkeeping.inv_action P G V O C nmetrics).
  Local Notation inv_ops := (C15_bookkeeping.inv_ops P G B V O C loss gradl metric nmetrics gzero gadd vzero vadd vdivn vltb requires_closure opt_step closure_opt draw).
  Local Notation global_epoch_inv := (C15_bookkeeping.global_epoch_inv P G B V O C loss gradl metric nmetrics gzero gadd vzero vadd vdivn vltb requires_closure opt_step closure_opt draw).
  Local Notation series_lengths := (C15_bookkeeping.series_lengths P G B V O C loss gradl metric nmetrics gzero gadd vzero vadd vdivn vltb requires_closure opt_step closure_opt draw).
  Local Notation runs_epoch := (C15_bookkeeping.runs_epoch P G B V O C loss gradl metric nmetrics gzero gadd vzero vadd vdivn vltb requires_closure opt_step closure_opt draw).
  Local Notation metric_sum := (C15_bookkeeping.metric_sum P B V C metric vzero vadd).
  Local Notation met_add_from_nth := (C15_bookkeeping.met_add_from_nth P B V C metric vadd).
  Local Notation fold_met_nth := (C15_bookkeeping.fold_met_nth P B V C metric vadd).
  Local Notation push_each_nth := (C15_bookkeeping.push_each_nth V).
  Local Notation epoch_met_fixed := (C15_bookkeeping.epoch_met_fixed P G B V O C loss gradl metric nmetrics gzero gadd vzero vadd requires_closure closure_opt draw).
  Local Notation metric_mean_plain := (C15_bookkeeping.metric_mean_plain P G B V O C loss gradl metric nmetrics gzero gadd vzero vadd vdivn vltb requires_closure opt_step closure_opt draw).
  Local Notation closure_points := (C15_bookkeeping.closure_points P G B V O C loss gradl closure_opt).
  Local Notation metric_lasts := (C15_bookkeeping.metric_lasts P B V C metric).
  Local Notation closure_fold_met := (C15_bookkeeping.closure_fold_met P G B V O C loss gradl metric vadd closure_opt).
  Local Notation epoch_met_closure := (C15_bookkeeping.epoch_met_closure P G B V O C loss gradl metric nmetrics gzero gadd vzero vadd requires_closure closure_opt draw).
  Local Notation metric_mean_closure_general := (C15_bookkeeping.metric_mean_closure_general P G B V O C loss gradl metric nmetrics gzero gadd vzero vadd vdivn vltb requires_closure opt_step closure_opt draw).
  Local Notation metric_mean_closure := (C15_bookkeeping.metric_mean_closure P G B V O C loss gradl metric nmetrics gzero gadd vzero vadd vdivn vltb requires_closure opt_step closure_opt draw).
  Local Notation iteration_local := (C15_bookkeeping.iteration_local P G B V O C loss gradl metric nmetrics gzero gadd vzero vadd vdivn vltb requires_closure opt_step closure_opt draw).
  Local Notation fit_states := (C15_bookkeeping.fit_states P G B V O C loss gradl metric nmetrics gzero gadd vzero vadd vdivn vltb requires_closure opt_step closure_opt draw).
  Local Notation fit_loop_last := (C15_bookkeeping.fit_loop_last P G B V O C loss gradl metric nmetrics gzero gadd vzero vadd vdivn vltb requires_closure opt_step closure_opt draw).
  Local Notation fit_states_spec := (C15_bookkeeping.fit_states_spec P G B V O C loss gradl metric nmetrics gzero gadd vzero vadd vdivn vltb requires_closure opt_step closure_opt draw).
  Local Notation local_epoch_run := (C15_bookkeeping.local_epoch_run P G B V O C loss gradl metric nmetrics gzero gadd vzero vadd vdivn vltb requires_closure opt_step closure_opt draw).
  Local Notation stop_request_ends_fit := (C15_bookkeeping.stop_request_ends_fit P G B V O C loss gradl metric nmetrics gzero gadd vzero vadd vdivn vltb requires_closure opt_step closure_opt draw).
  Local Notation last_map_seq := (C15_bookkeeping.last_map_seq P G V O C).
  Local Notation local_epoch_after := (C15_bookkeeping.local_epoch_after P G B V O C loss gradl metric nmetrics gzero gadd vzero vadd vdivn vltb requires_closure opt_step closure_opt draw).
  Local Notation fit_zero := (C15_bookkeeping.fit_zero P G B V O C loss gradl metric nmetrics gzero gadd vzero vadd vdivn vltb requires_closure opt_step closure_opt draw).
  Local Notation run_epoch_events_any := (C15_bookkeeping.run_epoch_events_any P G B V O C loss gradl metric nmetrics gzero gadd vzero vadd vdivn vltb requires_closure opt_step closure_opt draw).
  Local Notation callbacks_once_in_order := (C15_bookkeeping.callbacks_once_in_order P G B V O C loss gradl metric nmetrics gzero gadd vzero vadd vdivn vltb requires_closure opt_step closure_opt draw).

  (* `self.local_epoch = n`: the model's event log records the registrations made inside the loop (n >= 1) *)
  Definition assign_local_epoch (n : nat) (s : state) : state :=
    match n with
    | 0 => set_local_epoch 0 s
    | S _ => log (EvLocal n) (set_local_epoch n s)
    end.

  Local Notation g_callbacks := (gen_run_callbacks state callback (fun i cb s => run_cb i cb s)).
  Local Notation g_body :=
    (gen_fit_body state callback assign_local_epoch (@stop P G V O C) (run_epoch Train) (run_epoch Valid)
                  (fun i cb s => run_cb i cb s)).
  Local Notation g_loop :=
    (gen_fit_loop state callback assign_local_epoch (@stop P G V O C) (run_epoch Train) (run_epoch Valid)
                  (fun i cb s => run_cb i cb s)).
  Local Notation g_fit :=
    (gen_fit state callback (@set_stop P G V O C) (@set_max_local P G V O C) assign_local_epoch (@stop P G V O C)
             (run_epoch Train) (run_epoch Valid) (fun i cb s => run_cb i cb s)).

  Lemma gen_callbacks_is_model (cbs : list callback) : forall i (s : state),
    g_callbacks i cbs s = run_cbs_from i cbs s.
  Proof. induction cbs as [|cb cbs IH]; intros i s; cbn; [reflexivity|apply IH]. Qed.

  (* the proofs below do not depend on whether the source leaves the loop with `if self._stop_training: break` or
     skips the rest of every later iteration with `if not self._stop_training: ...` *)
  Lemma gen_body_running i (cbs : list callback) (s : state) : stop s = false ->
    g_body i cbs s = (iteration i cbs s, true).
  Proof.
    intros H. unfold gen_fit_body. rewrite H. cbn [negb].
    rewrite gen_callbacks_is_model. unfold Solver.iteration, Solver.run_cbs, assign_local_epoch.
    rewrite Nat.add_1_r. reflexivity.
  Qed.

  Lemma gen_loop_stopped (cbs : list callback) (s : state) : stop s = true -> forall r i, g_loop r i cbs s = s.
  Proof.
    intros H r. induction r as [|r IH]; intros i; cbn [gen_fit_loop]; [reflexivity|].
    unfold gen_fit_body. rewrite H. cbn [negb]. first [reflexivity | apply IH].
  Qed.

  Lemma gen_loop_is_model r : forall i (cbs : list callback) (s : state), g_loop r i cbs s = fit_loop r i cbs s.
  Proof.
    induction r as [|r IH]; intros i cbs s; [reflexivity|].
    destruct (stop s) eqn:E.
    - rewrite (gen_loop_stopped cbs s E). cbn [Solver.fit_loop]. rewrite E. reflexivity.
    - cbn [gen_fit_loop Solver.fit_loop]. rewrite (gen_body_running i cbs s E), E. apply IH.
  Qed.

  (* C15 gen_fit_is_model: the generated fit IS the model's fit *)
  Theorem gen_fit_is_model m (cbs : list callback) (s : state) : g_fit m cbs s = fit m cbs s.
  Proof. unfold gen_fit, gen_fit_entry, Solver.fit. rewrite gen_loop_is_model. reflexivity. Qed.

  Theorem gen_global_epoch_is_model (s : state) : global_epoch s = gen_global_epoch (h_train s).
  Proof. reflexivity. Qed.

  (* transfer to the generated loop: once the stop flag is set when an iteration starts, nothing more happens in this
     call (a request made by a callback lets the current epoch finish and ends the call before the next one) ... *)
  Theorem gen_stop_ends_fit (cbs : list callback) (s : state) :
    stop s = true -> forall r i, g_loop r i cbs s = s.
  Proof. exact (gen_loop_stopped cbs s). Qed.

  (* ... and one generated iteration that starts with the flag clear emits: EvLocal (i+1); training-phase events;
     validation-phase events; then every callback exactly once in the given order *)
  Theorem gen_callbacks_once_in_order i (cbs : list callback) (s : state) : stop s = false ->
    exists lt lv,
      trace (fst (g_body i cbs s)) =
        trace s ++ [EvLocal (S i)] ++ lt ++ lv ++ map EvCb (seq 0 (length cbs)) /\
      Forall (fun e => epoch_event Train e = true) lt /\
      Forall (fun e => epoch_event Valid e = true) lv.
  Proof.
    intros H. rewrite (gen_body_running i cbs s H). cbn [fst].
    destruct (callbacks_once_in_order i cbs s) as (lt & lv & E & Ft & Fv & _). exists lt, lv. auto.
  Qed.

  (* _update_history as generated: the model's push_hist appends exactly what the loss branch appends; a custom-metric
     series grows by exactly the value handed over (whatever it is: no value is filtered) *)
  Theorem gen_update_history_is_model ph (v : V) (s : state) (known : bool) :
    gen_update_history true known (hist ph s) v = Some (hist ph (push_hist ph v s)) /\
    forall (h : list V), gen_update_history false true h v = Some (h ++ [v]).
  Proof. split; [destruct ph; reflexivity|reflexivity]. Qed.

End C15gen.
