(* C06_solution.v — solutions evaluate condition(net) faithfully, keep shape, and are snapshots (property C06).
   Part 1 (Section C06_call): BaseSolution.__call__ and BaseSolver.get_residuals as modelled by
   `call_solution` / `get_residuals` of coq/model/Solver.v, for arbitrary scalars, networks, conditions,
   coordinate tensors of any shape.
   Part 2 (Section C06): what get_solution(copy, best) holds and how it behaves under ANY later sequence of
   fit() calls / user actions (arbitrary components and callbacks). *)
From Coq Require Import List Arith Bool Lia.
From ND.model Require Import Solver.
From ND.proofs Require Import C15_base.
Import ListNotations.

Lemma mapM_spec {A B : Type} (f : A -> option B) : forall (l : list A) (ys : list B),
  mapM f l = Some ys ->
  length ys = length l /\ forall i da db, i < length l -> f (nth i l da) = Some (nth i ys db).
Proof.
  induction l as [|x l IH]; intros ys H; cbn [mapM] in H.
  - injection H as <-. split; [reflexivity|]. intros i da db Hi. cbn in Hi. lia.
  - destruct (f x) as [y|] eqn:Ex; [|discriminate]. destruct (mapM f l) as [ys'|] eqn:El; [|discriminate].
    injection H as <-. destruct (IH ys' eq_refl) as [Hl Hn]. split; [cbn; lia|].
    intros i da db Hi. destruct i as [|i]; cbn [nth]; [exact Ex|]. apply Hn. cbn in Hi. lia.
Qed.

Lemma mapM_total {A B : Type} (f : A -> option B) : forall (l : list A),
  (forall x, In x l -> exists y, f x = Some y) -> exists ys, mapM f l = Some ys.
Proof.
  induction l as [|x l IH]; intros H; cbn [mapM]; [eauto|].
  destruct (H x (or_introl eq_refl)) as [y Hy]. rewrite Hy.
  destruct IH as [ys Hys]; [intros z Hz; apply H; right; exact Hz|]. rewrite Hys. eauto.
Qed.

Lemma nth_combine {A B : Type} : forall (l : list A) (l' : list B) n x y,
  n < length l -> n < length l' -> nth n (combine l l') (x, y) = (nth n l x, nth n l' y).
Proof.
  induction l as [|a l IH]; intros [|b l'] n x y H1 H2; cbn in *; try lia.
  destruct n as [|n]; [reflexivity|]. apply IH; lia.
Qed.

Lemma mapM_Forall {A B : Type} (f : A -> option B) (Q : B -> Prop) : forall (l : list A) (ys : list B),
  mapM f l = Some ys -> (forall x y, In x l -> f x = Some y -> Q y) -> Forall Q ys.
Proof.
  induction l as [|x l IH]; intros ys H HQ; cbn [mapM] in H.
  - injection H as <-. constructor.
  - destruct (f x) as [y|] eqn:Ex; [|discriminate]. destruct (mapM f l) as [ys'|] eqn:El; [|discriminate].
    injection H as <-. constructor; [apply (HQ x y); [left; reflexivity|exact Ex]|].
    apply IH; [reflexivity|]. intros z w Hz. apply HQ. right. exact Hz.
Qed.

Section C06_call.
  Variable S : Type.
  Variables N Cd : Type.
  Variable enforce_col : Cd -> N -> list (list S) -> option (list S).
  Variable diff_eqs : list (list S) -> list (list S) -> option (list (list S)).
  Local Notation tensor := (Solver.tensor S).
  Local Notation call_solution := (Solver.call_solution enforce_col).
  Local Notation get_residuals := (Solver.get_residuals enforce_col diff_eqs).

  (* the tensors computed by a call, before the single-vs-list packing *)
  Definition out_shape (no_reshape : bool) (c0 : tensor) (u : list S) : list nat :=
    if no_reshape then [length u; 1] else tshape c0.
  Definition shape_col (no_reshape : bool) (c0 : tensor) (u : list S) : option tensor :=
    if no_reshape then Some (mkTensor [length u; 1] u) else reshape (tshape c0) u.
  Definition solution_tensors (cls : sclass) (nets : list N) (cds : list Cd) (coords : list tensor)
             (no_reshape : bool) : option (list tensor) :=
    match coords with
    | [] => None
    | c0 :: _ =>
      if negb (sol_arity_ok cls (length coords)) then None else
      match mapM (fun cn => enforce_col (fst cn) (snd cn) (map tdata coords)) (combine cds nets) with
      | None => None
      | Some us => mapM (shape_col no_reshape c0) us
      end
    end.

  Lemma call_solution_packs cls nets cds coords nr :
    call_solution cls nets cds coords nr =
    match solution_tensors cls nets cds coords nr with
    | Some ts => pack (length nets) ts
    | None => None
    end.
  Proof.
    unfold Solver.call_solution, solution_tensors. destruct coords as [|c0 rest]; [reflexivity|].
    destruct (negb (sol_arity_ok cls (length (c0 :: rest)))); [reflexivity|].
    destruct (mapM _ (combine cds nets)) as [us|]; [|reflexivity]. reflexivity.
  Qed.

  Lemma shape_col_spec nr c0 u t : shape_col nr c0 u = Some t ->
    tdata t = u /\ tshape t = out_shape nr c0 u /\ numel (tshape t) = length (tdata t).
  Proof.
    unfold shape_col, out_shape, Solver.reshape. destruct nr.
    - intros [= <-]. cbn. repeat split. lia.
    - destruct (numel (tshape c0) =? length u) eqn:E; [|discriminate]. intros [= <-]. cbn.
      apply Nat.eqb_eq in E. auto.
  Qed.

  (* C06 solution_value + solution_shape: every returned tensor i holds condition i enforced on network i
     (pairing by index) at ALL the given coordinates reshaped to columns, in the shape of the FIRST coordinate
     ((n, 1) with no_reshape), for coordinates of any shape *)
  Theorem solution_value_shape cls nets cds c0 rest nr ts (dc : Cd) (dn : N) (dt : tensor) :
    solution_tensors cls nets cds (c0 :: rest) nr = Some ts ->
    sol_arity_ok cls (length (c0 :: rest)) = true /\
    length ts = Nat.min (length cds) (length nets) /\
    forall i, i < length ts ->
      enforce_col (nth i cds dc) (nth i nets dn) (map tdata (c0 :: rest)) = Some (tdata (nth i ts dt)) /\
      tshape (nth i ts dt) = out_shape nr c0 (tdata (nth i ts dt)) /\
      numel (tshape (nth i ts dt)) = length (tdata (nth i ts dt)).
  Proof.
    unfold solution_tensors. destruct (sol_arity_ok cls (length (c0 :: rest))) eqn:Ea; cbn [negb]; [|discriminate].
    destruct (mapM _ (combine cds nets)) as [us|] eqn:Eu; [|discriminate]. intros Ets.
    destruct (mapM_spec _ _ _ Eu) as [Lu Hu]. destruct (mapM_spec _ _ _ Ets) as [Lt Ht].
    rewrite combine_length in Lu. split; [reflexivity|]. split; [lia|].
    intros i Hi.
    assert (Hiu : i < length us) by lia.
    specialize (Ht i (tdata dt) dt Hiu). destruct (shape_col_spec _ _ _ _ Ht) as (D & Sh & Nu).
    assert (Hic : i < length (combine cds nets)) by (rewrite combine_length; lia).
    specialize (Hu i (dc, dn) (tdata dt) Hic).
    rewrite combine_length in Hic.
    rewrite (nth_combine cds nets i dc dn) in Hu by lia. cbn [fst snd] in Hu.
    rewrite D. rewrite Hu. rewrite D in Nu. auto.
  Qed.

  (* C06 single_vs_list: a single tensor when there is one network, a list otherwise *)
  Theorem single_vs_list cls nets cds coords nr out :
    call_solution cls nets cds coords nr = Some out ->
    exists ts, solution_tensors cls nets cds coords nr = Some ts /\
               ((1 < length nets /\ out = Many ts) \/
                (length nets <= 1 /\ exists t rest', ts = t :: rest' /\ out = One t)).
  Proof.
    rewrite call_solution_packs. destruct (solution_tensors cls nets cds coords nr) as [ts|]; [|discriminate].
    intros H. exists ts. split; [reflexivity|]. unfold Solver.pack in H.
    destruct (1 <? length nets) eqn:E.
    - apply Nat.ltb_lt in E. injection H as <-. left. auto.
    - apply Nat.ltb_ge in E. destruct ts as [|t rest']; [discriminate|]. injection H as <-. right. eauto.
  Qed.

  (* a single nn.Module is replicated once per condition *)
  Theorem single_module_replicated (net : N) (cds : list Cd) i (d : N) :
    i < length cds -> nth i (nets_of_module net cds) d = net /\ length (nets_of_module net cds) = length cds.
  Proof.
    intros H. unfold Solver.nets_of_module. rewrite repeat_length. split; [|reflexivity].
    rewrite (nth_indep _ d net) by (rewrite repeat_length; exact H). apply nth_repeat.
  Qed.

  (* C06 solution_shape (totality): for coordinates of ANY common shape s (numel s = n points), if every condition
     evaluates to a column of n values, the call succeeds and every result has shape s ((n,1) with no_reshape) *)
  Theorem solution_shape_total cls nets cds c0 rest nr :
    sol_arity_ok cls (length (c0 :: rest)) = true ->
    numel (tshape c0) = length (tdata c0) ->
    (forall c n, In (c, n) (combine cds nets) ->
       exists u, enforce_col c n (map tdata (c0 :: rest)) = Some u /\ length u = length (tdata c0)) ->
    exists ts, solution_tensors cls nets cds (c0 :: rest) nr = Some ts /\
               Forall (fun t => tshape t = if nr then [length (tdata c0); 1] else tshape c0) ts.
  Proof.
    intros Ha Hn He. unfold solution_tensors. rewrite Ha. cbn [negb].
    destruct (mapM_total (fun cn => enforce_col (fst cn) (snd cn) (map tdata (c0 :: rest))) (combine cds nets)) as [us Hus].
    { intros [c n] Hin. destruct (He c n Hin) as (u & Hu & _). eauto. }
    rewrite Hus.
    assert (Hlen : Forall (fun u => length u = length (tdata c0)) us).
    { apply (mapM_Forall _ _ _ _ Hus). intros [c n] y Hin Hy. destruct (He c n Hin) as (u & Hu & Lu).
      cbn [fst snd] in Hy. congruence. }
    destruct (mapM_total (shape_col nr c0) us) as [ts Hts].
    { intros u Hin. rewrite Forall_forall in Hlen. specialize (Hlen u Hin). unfold shape_col, Solver.reshape.
      destruct nr; [eauto|]. rewrite Hn, Hlen, Nat.eqb_refl. eauto. }
    exists ts. split; [exact Hts|].
    apply (mapM_Forall _ _ _ _ Hts). intros u t Hin Ht. destruct (shape_col_spec _ _ _ _ Ht) as (D & Sh & _).
    rewrite Sh. unfold out_shape. rewrite Forall_forall in Hlen. rewrite (Hlen u Hin). reflexivity.
  Qed.

  (* C06 residuals_spec: get_residuals evaluates the solution on the coordinates reshaped to (n, 1) columns and
     returns exactly the user's equations applied to (those function columns, those coordinate columns), each
     residual in the shape of the first coordinate ((n, 1) with no_reshape); a single tensor iff one equation *)
  Theorem residuals_spec cls nets cds c0 rest nr out :
    get_residuals cls nets cds (c0 :: rest) nr = Some out ->
    let cols := map (fun c => mkTensor [length (tdata c); 1] (tdata c)) (c0 :: rest) in
    exists sol fs rs ts,
      call_solution cls nets cds cols nr = Some sol /\
      fs = match sol with One t => [tdata t] | Many l => map tdata l end /\
      diff_eqs fs (map tdata (c0 :: rest)) = Some rs /\
      mapM (shape_col nr c0) rs = Some ts /\
      pack (length ts) ts = Some out /\
      length ts = length rs /\
      forall i (dr : list S) (dt : tensor), i < length rs ->
        tdata (nth i ts dt) = nth i rs dr /\ tshape (nth i ts dt) = out_shape nr c0 (nth i rs dr).
  Proof.
    unfold Solver.get_residuals. cbv zeta.
    destruct (call_solution cls nets cds _ nr) as [sol|] eqn:Es; [|discriminate].
    destruct (diff_eqs _ (map tdata (c0 :: rest))) as [rs|] eqn:Er; [|discriminate].
    change (mapM (fun r => if nr then Some (mkTensor [length r; 1] r) else reshape (tshape c0) r) rs)
      with (mapM (shape_col nr c0) rs).
    destruct (mapM (shape_col nr c0) rs) as [ts|] eqn:Et; [|discriminate].
    intros Hp. exists sol, (match sol with One t => [tdata t] | Many l => map tdata l end), rs, ts.
    repeat split; try reflexivity; try assumption.
    - destruct (mapM_spec _ _ _ Et) as [L _]. exact L.
    - destruct (mapM_spec _ _ _ Et) as [L Hn]. specialize (Hn i dr dt H).
      destruct (shape_col_spec _ _ _ _ Hn) as (D & _). exact D.
    - destruct (mapM_spec _ _ _ Et) as [L Hn]. specialize (Hn i dr dt H).
      destruct (shape_col_spec _ _ _ _ Hn) as (D & Sh & _). exact Sh.
  Qed.
End C06_call.

Section C06.
  Variables P G B V O C : Type.
  Variable loss : nat -> C -> P -> B -> V.
  Variable gradl : nat -> C -> P -> B -> G.
  Variable metric : nat -> C -> P -> B -> V.
  Variable nmetrics : nat.
  Variable gzero : G.
  Variable gadd : G -> G -> G.
  Variable vzero : V.
  Variable vadd : V -> V -> V.
  Variable vdivn : V -> nat -> V.
  Variable vltb : V -> V -> bool.
  Variable requires_closure : O -> bool.
  Variable opt_step : O -> P -> G -> O * P.
  Variable closure_opt : O -> P -> (P -> V * G) -> O * list P * P.
  Variable draw : phase -> nat -> B.

  Local Notation state := (Solver.state P G V O C).
  Local Notation acc := (Solver.acc V).
  Local Notation callback := (Solver.callback P G V O C).
  Local Notation action := (Solver.action P O C).
  Local Notation op := (Solver.op P G V O C).
  Local Notation acc0 := (Solver.acc0 nmetrics vzero).
  Local Notation met_add := (Solver.met_add metric vadd).
  Local Notation met_add_from := (Solver.met_add_from metric vadd).
  Local Notation closure_of := (Solver.closure_of loss gradl).
  Local Notation eval_batch := (Solver.eval_batch loss gradl metric gadd vadd closure_opt).
  Local Notation batch_step := (Solver.batch_step loss gradl metric gadd vadd closure_opt draw).
  Local Notation run_batches := (Solver.run_batches loss gradl metric gadd vadd closure_opt draw).
  Local Notation update_best := (Solver.update_best vltb).
  Local Notation do_step := (Solver.do_step opt_step).
  Local Notation zero_grad := (Solver.zero_grad gzero).
  Local Notation run_epoch := (Solver.run_epoch loss gradl metric nmetrics gzero gadd vzero vadd vdivn vltb requires_closure opt_step closure_opt draw).
  Local Notation iteration := (Solver.iteration loss gradl metric nmetrics gzero gadd vzero vadd vdivn vltb requires_closure opt_step closure_opt draw).
  Local Notation fit_loop := (Solver.fit_loop loss gradl metric nmetrics gzero gadd vzero vadd vdivn vltb requires_closure opt_step closure_opt draw).
  Local Notation fit := (Solver.fit loss gradl metric nmetrics gzero gadd vzero vadd vdivn vltb requires_closure opt_step closure_opt draw).
  Local Notation run_op := (Solver.run_op loss gradl metric nmetrics gzero gadd vzero vadd vdivn vltb requires_closure opt_step closure_opt draw).
  Local Notation run_ops := (Solver.run_ops loss gradl metric nmetrics gzero gadd vzero vadd vdivn vltb requires_closure opt_step closure_opt draw).
  Local Notation init := (Solver.init V nmetrics gzero).

  (* lemmas of the earlier files, applied to the components above *)
  Local Notation batches := (C15_base.batches B draw).
  Local Notation same_book := (C15_base.same_book P G V O C).
  Local Notation same_book_refl := (C15_base.same_book_refl P G V O C).
  Local Notation same_book_trans := (C15_base.same_book_trans P G V O C).
  Local Notation batch_step_book := (C15_base.batch_step_book P G B V O C loss gradl metric gadd vadd closure_opt draw).
  Local Notation run_batches_book := (C15_base.run_batches_book P G B V O C loss gradl metric gadd vadd closure_opt draw).
  Local Notation batch_step_cur := (C15_base.batch_step_cur P G B V O C loss gradl metric gadd vadd closure_opt draw).
  Local Notation run_batches_cur := (C15_base.run_batches_cur P G B V O C loss gradl metric gadd vadd closure_opt draw).
  Local Notation batch_step_fixed := (C15_base.batch_step_fixed P G B V O C loss gradl metric gadd vadd closure_opt draw).
  Local Notation run_batches_fixed := (C15_base.run_batches_fixed P G B V O C loss gradl metric gadd vadd closure_opt draw).
  Local Notation batch_step_events := (C15_base.batch_step_events P G B V O C loss gradl metric gadd vadd closure_opt draw).
  Local Notation run_batches_events := (C15_base.run_batches_events P G B V O C loss gradl metric gadd vadd closure_opt draw).
  Local Notation state_ext := (C15_base.state_ext P G V O C).
  Local Notation set_cur := (C15_base.set_cur P G V O C).
  Local Notation run_batches_fixed_state := (C15_base.run_batches_fixed_state P G B V O C loss gradl metric gadd vadd closure_opt draw).
  Local Notation cstate := (C15_base.cstate P G V O).
  Local Notation closure_batch := (C15_base.closure_batch P G B V O C loss gradl metric vadd closure_opt).
  Local Notation run_batches_closure := (C15_base.run_batches_closure P G B V O C loss gradl metric gadd vadd closure_opt draw).
  Local Notation better := (C15_base.better P G V O C vltb).
  Local Notation update_best_snoc := (C15_base.update_best_snoc P G V O C vltb).
  Local Notation run_epoch_zero := (C15_base.run_epoch_zero P G B V O C loss gradl metric nmetrics gzero gadd vzero vadd vdivn vltb requires_closure opt_step closure_opt draw).
  Local Notation push_each_length := (C15_base.push_each_length V).
  Local Notation push_each_Forall := (C15_base.push_each_Forall V).
  Local Notation met_add_from_length := (C15_base.met_add_from_length P B V C metric vadd).
  Local Notation fold_met_length := (C15_base.fold_met_length P B V C metric vadd).
  Local Notation pre_state := (C15_base.pre_state P G V O C gzero requires_closure).
  Local Notation epoch_batches := (C15_base.epoch_batches P G B V O C loss gradl metric nmetrics gzero gadd vzero vadd requires_closure closure_opt draw).
  Local Notation means := (C15_base.means V vdivn).
  Local Notation epoch_loss := (C15_base.epoch_loss P G B V O C loss gradl metric nmetrics gzero gadd vzero vadd vdivn requires_closure closure_opt draw).
  Local Notation pre_state_book := (C15_base.pre_state_book P G V O C gzero requires_closure).
  Local Notation epoch_batches_book := (C15_base.epoch_batches_book P G B V O C loss gradl metric nmetrics gzero gadd vzero vadd requires_closure closure_opt draw).
  Local Notation run_epoch_unfold := (C15_base.run_epoch_unfold P G B V O C loss gradl metric nmetrics gzero gadd vzero vadd vdivn vltb requires_closure opt_step closure_opt draw).
  Local Notation ctl := (C15_base.ctl P G V O C).
  Local Notation ctl_of_book := (C15_base.ctl_of_book P G V O C).
  Local Notation ctl_push_hist := (C15_base.ctl_push_hist P G V O C).
  Local Notation ctl_update_best := (C15_base.ctl_update_best P G V O C vltb).
  Local Notation ctl_do_step := (C15_base.ctl_do_step P G V O C opt_step).
  Local Notation ctl_push_metrics := (C15_base.ctl_push_metrics P G V O C).
  Local Notation ctl_run_epoch := (C15_base.ctl_run_epoch P G B V O C loss gradl metric nmetrics gzero gadd vzero vadd vdivn vltb requires_closure opt_step closure_opt draw).
  Local Notation hists_update_best := (C15_base.hists_update_best P G V O C vltb).
  Local Notation hists_do_step := (C15_base.hists_do_step P G V O C opt_step).
  Local Notation a_met_length := (C15_base.a_met_length P G B V O C loss gradl metric gadd vadd closure_opt draw).
  Local Notation epoch_met_length := (C15_base.epoch_met_length P G B V O C loss gradl metric nmetrics gzero gadd vzero vadd requires_closure closure_opt draw).
  Local Notation run_epoch_hists := (C15_base.run_epoch_hists P G B V O C loss gradl metric nmetrics gzero gadd vzero vadd vdivn vltb requires_closure opt_step closure_opt draw).
  Local Notation events_update_best := (C15_base.events_update_best P G V O C vltb).
  Local Notation events_do_step := (C15_base.events_do_step P G V O C opt_step).
  Local Notation step_count := (C15_base.step_count P G V O C requires_closure).
  Local Notation run_epoch_events := (C15_base.run_epoch_events P G B V O C loss gradl metric nmetrics gzero gadd vzero vadd vdivn vltb requires_closure opt_step closure_opt draw).
  Local Notation rec_part := (C15_base.rec_part P G V O C).
  Local Notation rec_part_action := (C15_base.rec_part_action P G V O C).
  Local Notation rec_part_actions := (C15_base.rec_part_actions P G V O C).
  Local Notation rec_part_events := (C15_base.rec_part_events P G V O C).
  Local Notation quiet_part := (C15_base.quiet_part P G V O C).
  Local Notation run_cb_spec := (C15_base.run_cb_spec P G V O C).
  Local Notation run_cbs_from_spec := (C15_base.run_cbs_from_spec P G V O C).

  Local Notation solution := (Solver.solution P C).

  (* C06 get_solution_holds: what the returned object holds, for the four copy/best combinations
     (None = BaseSolution raises because best_nets is None) *)
  Theorem get_solution_holds (copy best_ : bool) (s : state) :
    get_solution copy best_ s =
    match best_, copy with
    | true, true => option_map (fun p => SolCopy p (conds s)) (best s)
    | true, false => option_map (fun p => SolBestAlias p) (best s)
    | false, true => Some (SolCopy (theta s) (conds s))
    | false, false => Some SolLive
    end.
  Proof. unfold Solver.get_solution. destruct best_, copy; try reflexivity; destruct (best s); reflexivity. Qed.

  (* C06 snapshot_isolated: a copy=True solution evaluates with the networks (best or latest) and the conditions
     as they were when it was created, whatever is done to the solver afterwards: any sequence of fit() calls with
     any callbacks, optimiser / loss swaps, in-place mutation of the live parameters or of the conditions *)
  Theorem snapshot_isolated (best_ : bool) (s : state) (sol : solution) (ops : list op) :
    get_solution true best_ s = Some sol ->
    sol_nets sol (run_ops ops s) = sol_nets sol s /\
    sol_conds sol (run_ops ops s) = sol_conds sol s /\
    sol_conds sol s = conds s /\
    (if best_ then Some (sol_nets sol s) = best s else sol_nets sol s = theta s).
  Proof.
    rewrite get_solution_holds. destruct best_.
    - destruct (best s) as [p|]; [|discriminate]. intros [= <-]. cbn. auto.
    - intros [= <-]. cbn. auto.
  Qed.

  (* C06 live_shared: copy=False, best=False evaluates with the solver's CURRENT parameters and conditions at the
     time of the call, after any later op sequence *)
  Theorem live_shared (s : state) (ops : list op) :
    exists sol, get_solution false false s = Some sol /\
                sol_nets sol (run_ops ops s) = theta (run_ops ops s) /\
                sol_conds sol (run_ops ops s) = conds (run_ops ops s).
  Proof. exists SolLive. repeat split. Qed.

  (* C06 best_alias_frozen: copy=False, best=True keeps the best-networks object it was given: later training
     rebinds solver.best_nets (never mutates the old object), so the solution keeps evaluating with the parameters
     that were best at creation time, while the conditions are the solver's live ones *)
  Theorem best_alias_frozen (s : state) (sol : solution) (ops : list op) :
    get_solution false true s = Some sol ->
    Some (sol_nets sol (run_ops ops s)) = best s /\
    sol_conds sol (run_ops ops s) = conds (run_ops ops s).
  Proof.
    rewrite get_solution_holds. destruct (best s) as [p|]; [|discriminate]. intros [= <-]. cbn. auto.
  Qed.

  (* best=True before any tracked epoch: no solution (the real code raises RuntimeError) *)
  Theorem best_solution_needs_best (copy : bool) (s : state) :
    best s = None -> get_solution copy true s = None.
  Proof. intros H. rewrite get_solution_holds, H. destruct copy; reflexivity. Qed.

End C06.

(* ------------------------------------------------------------------------------------------ *)
(* Non-vacuity on the toy instance: a (2,2)-shaped call succeeds with shape (2,2); a copied solution *)
(* keeps its value while training continues, a live one follows the solver.                     *)
From Coq Require Import ZArith QArith.
Module C06_examples.
  Import Toy.
  Local Close Scope Q_scope.
  Definition cfg := mkCfg S2D 2 [1%Z; 2%Z] [0; 1] 1 (@nil nat) false.
  Definition b0 : list (list Q) := [[Qmake 1 1; Qmake 2 1]; [Qmake 0 1; Qmake 1 1]].
  Definition trs : list (list (list Q)) := repeat b0 8.
  Definition cds := [mkCond 5%Z 1%Z SigVariadic; mkCond 7%Z 1%Z (SigFixed 2)].
  Definition s0 : t_state := t_init cfg 0 [Qmake 1 2; Qmake (-1) 1] (TSgd (Qmake 1 4)) cds 0 1 1.
  Definition xs : list (tensor Q) :=
    [mkTensor [2; 2] [Qmake 1 1; Qmake 2 1; Qmake 3 1; Qmake 0 1]; mkTensor [2; 2] [Qmake 0 1; Qmake 1 1; Qmake 1 1; Qmake 2 1]].

  Example shape_example :
    exists t1 t2, t_call cfg SolLive s0 xs false = Some (Many [t1; t2]) /\ tshape t1 = [2; 2] /\ tshape t2 = [2; 2].
  Proof. eexists. eexists. split; [vm_compute; reflexivity|]. split; reflexivity. Qed.

  Example snapshot_vs_live :
    let s1 := t_fit cfg 0 trs trs 2 [] s0 in
    let s2 := t_fit cfg 0 trs trs 3 [] s1 in
    exists copy live,
      get_solution true false s1 = Some copy /\ get_solution false false s1 = Some live /\
      t_call cfg copy s2 xs false = t_call cfg copy s1 xs false /\
      t_call cfg live s2 xs false <> t_call cfg live s1 xs false /\
      t_call cfg live s2 xs false = t_call cfg SolLive s2 xs false.
  Proof.
    cbv zeta. eexists. eexists. split; [reflexivity|]. split; [reflexivity|].
    split; [vm_compute; reflexivity|]. split; [vm_compute; discriminate|reflexivity].
  Qed.
End C06_examples.
