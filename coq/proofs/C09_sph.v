(* C09 — spherical operators of operators.py equal the physical components of the Cartesian
   objects, for every field (arbitrary jets) and every point with r <> 0, sin theta <> 0. *)
From Coq Require Import Reals List Lra Lia ZArith Field.
From ND.lib Require Import Expr Tac.
From ND.gen Require Import Gen_C09.
From ND.proofs Require Import C09_spec.
Import ListNotations.
Open Scope R_scope.

Ltac sph_solve venv Hr Hs :=
  reduce_eval;
  set (R0 := venv 0%nat) in *; set (T := venv 1%nat) in *; set (P := venv 2%nat) in *;
  generalize (sc2 T) (sc2 P);
  set (s := sin T) in *; set (c := cos T); set (sp := sin P); set (cp := cos P);
  let H1 := fresh "H1" in let H2 := fresh "H2" in
  intros H1 H2; field [H1 H2]; auto.

Section Sph.
  Variable venv penv : nat -> R.
  Variable fenv : nat -> list nat -> list R -> R.
  Hypothesis Hr : venv 0%nat <> 0.
  Hypothesis Hs : sin (venv 1%nat) <> 0.
  Notation ev := (eval venv penv fenv).
  Let U := F3 0.
  Let A := (F3 0, F3 1, F3 2).

  (* the spec's Cartesian partials applied to the code's own coordinate map give the identity *)
  Lemma sph_jacobian_inverse :
    ev (Sph.dx spherical_to_cartesian.term_0) = 1 /\ ev (Sph.dy spherical_to_cartesian.term_0) = 0 /\
    ev (Sph.dz spherical_to_cartesian.term_0) = 0 /\
    ev (Sph.dx spherical_to_cartesian.term_1) = 0 /\ ev (Sph.dy spherical_to_cartesian.term_1) = 1 /\
    ev (Sph.dz spherical_to_cartesian.term_1) = 0 /\
    ev (Sph.dx spherical_to_cartesian.term_2) = 0 /\ ev (Sph.dy spherical_to_cartesian.term_2) = 0 /\
    ev (Sph.dz spherical_to_cartesian.term_2) = 1.
  Proof. repeat split; sph_solve venv Hr Hs. Qed.

  Lemma sph_grad_ok :
    ev spherical_grad.term_0 = ev (fst3 (Sph.frame (Sph.grad U))) /\
    ev spherical_grad.term_1 = ev (snd3 (Sph.frame (Sph.grad U))) /\
    ev spherical_grad.term_2 = ev (thd3 (Sph.frame (Sph.grad U))).
  Proof. repeat split; sph_solve venv Hr Hs. Qed.

  Lemma sph_div_ok : ev spherical_div.term = ev (Sph.div (Sph.cart A)).
  Proof. sph_solve venv Hr Hs. Qed.

  Lemma sph_curl_ok :
    ev spherical_curl.term_0 = ev (fst3 (Sph.frame (Sph.curl (Sph.cart A)))) /\
    ev spherical_curl.term_1 = ev (snd3 (Sph.frame (Sph.curl (Sph.cart A)))) /\
    ev spherical_curl.term_2 = ev (thd3 (Sph.frame (Sph.curl (Sph.cart A)))).
  Proof. repeat split; sph_solve venv Hr Hs. Qed.

  Lemma sph_lap_ok : ev spherical_laplacian.term = ev (Sph.lap U).
  Proof. sph_solve venv Hr Hs. Qed.

  Lemma sph_vlap_r_ok : ev spherical_vector_laplacian.term_0 = ev (fst3 (Sph.frame (Sph.vlap (Sph.cart A)))).
  Proof. sph_solve venv Hr Hs. Qed.
  Lemma sph_vlap_th_ok : ev spherical_vector_laplacian.term_1 = ev (snd3 (Sph.frame (Sph.vlap (Sph.cart A)))).
  Proof. sph_solve venv Hr Hs. Qed.
  Lemma sph_vlap_ph_ok : ev spherical_vector_laplacian.term_2 = ev (thd3 (Sph.frame (Sph.vlap (Sph.cart A)))).
  Proof. sph_solve venv Hr Hs. Qed.
End Sph.
