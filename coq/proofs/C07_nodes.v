(* C07 — every noise-free node formula of the regenerated table lies in [a, b] and is defined
   (no NaN).  The formulas (det_terms of gen/Gen_C07.v) are what the source computes today;
   the solvers below are kind-specific but selected by `first`, so the order / number of the
   generated terms may change. *)
From Coq Require Import Reals List String Bool Arith Lia Lra Field.
From ND.lib Require Import Expr Tac.
From ND.model Require Import AtomicGen.
From ND.gen Require Import Gen_C07.
Import ListNotations.
Open Scope R_scope.

(* does the formula divide by / use (n - 1)?  Then it needs at least two nodes. *)
Fixpoint has_nm1 (e : expr) : bool :=
  match e with
  | ESub (EPar p) (ECst 1) => Nat.eqb p p_n
  | EAdd a b | ESub a b | EMul a b | EDiv a b => has_nm1 a || has_nm1 b
  | ENeg a | EPow a _ | ESin a | ECos a | EExp a | ETanh a | EAbs a | ESqrt a | ELn a => has_nm1 a
  | _ => false
  end.

Definition size_ok (t : expr) (n : nat) : Prop := if has_nm1 t then (2 <= n)%nat else (1 <= n)%nat.

(* the environment of one node: bounds a < b, n nodes, index idx < n, a uniform draw in [0,1) *)
Record node_env (venv penv : nat -> R) (n idx : nat) : Prop := {
  ne_ab : penv p_a < penv p_b;
  ne_pi : penv p_pi = PI;
  ne_n : penv p_n = INR n;
  ne_i : venv v_i = INR idx;
  ne_idx : (idx < n)%nat;
  ne_u : 0 <= venv v_u0 < 1
}.

Lemma ln10_pos : 0 < ln 10.
Proof. rewrite <- ln_1. apply ln_increasing; lra. Qed.

Lemma frac_bounds n idx : (idx < n)%nat -> (2 <= n)%nat -> 0 <= INR idx / (INR n - 1) <= 1.
Proof.
  intros Hi Hn. assert (H2 : 2 <= INR n) by (change 2 with (INR 2); apply le_INR; lia).
  assert (Hq : INR idx <= INR n - 1).
  { replace (INR n - 1) with (INR (n - 1)) by (rewrite minus_INR by lia; reflexivity). apply le_INR. lia. }
  pose proof (pos_INR idx). split.
  - apply Rmult_le_pos; [assumption|]. left. apply Rinv_0_lt_compat. lra.
  - apply (Rmult_le_reg_r (INR n - 1)); [lra|]. unfold Rdiv. rewrite Rmult_assoc, Rinv_l by lra. lra.
Qed.

Lemma lin_between a b q : a < b -> 0 <= q <= 1 -> a <= a + (b - a) * q <= b.
Proof. intros. nra. Qed.

Lemma cheb_between a b c : a < b -> -1 <= c <= 1 -> a <= (a + b + (b - a) * c) / 2 <= b.
Proof. intros. nra. Qed.

Lemma exp_mono x y : x <= y -> exp x <= exp y.
Proof. intros [H|H]; [left; now apply exp_increasing | right; now rewrite H]. Qed.

Lemma exp_between y a b : 0 < a -> 0 < b -> ln a <= y <= ln b -> a <= exp y <= b.
Proof.
  intros Ha Hb [H1 H2]. split.
  - rewrite <- (exp_ln a Ha). now apply exp_mono.
  - rewrite <- (exp_ln b Hb). now apply exp_mono.
Qed.

Lemma ln_between L x a b : 0 < L -> exp (a * L) <= x <= exp (b * L) -> a <= ln x / L <= b.
Proof.
  intros HL [H1 H2]. assert (Hx : 0 < x) by (pose proof (exp_pos (a * L)); lra).
  assert (Ha : a * L <= ln x).
  { rewrite <- (ln_exp (a * L)). destruct H1 as [H1|H1]; [left; apply ln_increasing; [apply exp_pos | assumption] | rewrite H1; lra]. }
  assert (Hb : ln x <= b * L).
  { rewrite <- (ln_exp (b * L)). destruct H2 as [H2|H2]; [left; apply ln_increasing; assumption | rewrite H2; lra]. }
  split.
  - apply (Rmult_le_reg_r L); [assumption|]. unfold Rdiv. rewrite Rmult_assoc, Rinv_l by lra. lra.
  - apply (Rmult_le_reg_r L); [assumption|]. unfold Rdiv. rewrite Rmult_assoc, Rinv_l by lra. lra.
Qed.

(* common preparation: expose the concrete formula with a, b, N, I, u as plain reals *)
Ltac expose Hin Hsz :=
  cbv [det_terms] in Hin; cbn [In] in Hin;
  repeat (destruct Hin as [Hin|Hin];
          [inversion Hin; subst; clear Hin; unfold size_ok in Hsz; cbn [has_nm1 orb Nat.eqb p_n] in Hsz |]);
  try contradiction.

Ltac solve_plain := nra.

Ltac solve_cos a b Hab :=
  match goal with |- context [cos ?x] =>
    first [ apply (cheb_between a b (cos x) Hab); apply COS_bound
          | pose proof (COS_bound x); set (c := cos x) in *; nra ]
  end.

Ltac with_q n idx Hidx Hsz :=
  pose proof (frac_bounds n idx Hidx Hsz) as Hq;
  repeat match goal with
  | |- context [?X * INR idx / (INR n - 1)] =>
      replace (X * INR idx / (INR n - 1)) with (X * (INR idx / (INR n - 1))) by (unfold Rdiv; ring)
  end;
  set (q := INR idx / (INR n - 1)) in *.

Section InDomain.
  Variables (venv penv : nat -> R) (fenv : nat -> list nat -> list R -> R) (n idx : nat).
  Hypothesis Henv : node_env venv penv n idx.

  Lemma nodes_in_domain_det t g : In (t, g) det_terms -> (g = true -> 0 < penv p_a) -> size_ok t n ->
    penv p_a <= eval venv penv fenv t <= penv p_b.
  Proof.
    destruct Henv as [Hab Hpi Hn Hi Hidx Hu].
    intros Hin Hpos Hsz. expose Hin Hsz.
    all: cbn [eval]; cbv [v_i v_u0 p_a p_b p_n p_pi] in *; try rewrite Hpi; try rewrite Hn; try rewrite Hi.
    all: set (a := penv 0%nat) in *; set (b := penv 1%nat) in *; set (u := venv 1%nat) in *.
    all: first
      [ solve [nra]
      | solve [solve_cos a b Hab]
      | solve [with_q n idx Hidx Hsz; nra]
      | (* log spacing *)
        solve [ assert (Ha : 0 < a) by (apply Hpos; reflexivity); assert (Hb : 0 < b) by lra;
                with_q n idx Hidx Hsz; pose proof ln10_pos as HL;
                assert (Hl : ln a < ln b) by (apply ln_increasing; assumption);
                apply (exp_between _ a b Ha Hb);
                match goal with |- _ <= ?E <= _ => replace E with (ln a + (ln b - ln a) * q) by (field; lra) end; nra ]
      | (* exp spacing *)
        solve [ with_q n idx Hidx Hsz; apply ln_between; [apply ln10_pos|];
                assert (He : exp (a * ln 10) < exp (b * ln 10)) by (apply exp_increasing; pose proof ln10_pos; nra);
                nra ]
      | (* latin hypercube: u * (lin 1 - lin 0) + lin i over n + 1 knots *)
        solve [ replace (INR n + 1 - 1) with (INR n) by ring;
                assert (HN : 1 <= INR n) by (change 1 with (INR 1); apply le_INR; lia);
                assert (HI : INR idx + 1 <= INR n) by (rewrite <- S_INR; apply le_INR; lia);
                pose proof (pos_INR idx) as HI0;
                set (W := (b - a) / INR n);
                assert (HW : W * INR n = b - a) by (unfold W; field; lra);
                assert (HW0 : 0 < W) by (unfold W; apply Rdiv_lt_0_compat; lra);
                match goal with |- _ <= ?E <= _ => replace E with (a + W * (u + INR idx)) by (unfold W; field; lra) end;
                nra ] ].
  Qed.

  (* definedness: no division by zero, no log of a non-positive number *)
  Lemma nodes_defined_det t g : In (t, g) det_terms -> (g = true -> 0 < penv p_a) -> size_ok t n ->
    defined venv penv fenv t.
  Proof.
    destruct Henv as [Hab Hpi Hn Hi Hidx Hu].
    intros Hin Hpos Hsz. expose Hin Hsz.
    all: cbn [defined eval]; cbv [v_i v_u0 p_a p_b p_n p_pi] in *; try rewrite Hpi; try rewrite Hn; try rewrite Hi.
    all: set (a := penv 0%nat) in *; set (b := penv 1%nat) in *; set (u := venv 1%nat) in *.
    all: pose proof ln10_pos as HL.
    all: assert (HN1 : 1 <= INR n) by (change 1 with (INR 1); apply le_INR; destruct (has_nm1 (ECst 0)); lia).
    all: try (assert (HN2 : 2 <= INR n) by (change 2 with (INR 2); apply le_INR; lia)).
    all: try (assert (Ha : 0 < a) by (apply Hpos; reflexivity)).
    all: repeat split; auto; try lra.
    (* what remains: the argument of ln in exp spacing is positive *)
    all: try (with_q n idx Hidx Hsz;
              assert (He : exp (a * ln 10) < exp (b * ln 10)) by (apply exp_increasing; nra);
              pose proof (exp_pos (a * ln 10)); nra).
  Qed.
End InDomain.

(* ------------------------------------------------------------------ the other orientation
   The constructors also accept an interval given in DESCENDING order (min argument a greater than
   max argument b); the same formulas then lie in [b, a]. *)
Record node_env_desc (venv penv : nat -> R) (n idx : nat) : Prop := {
  nd_ab : penv p_b < penv p_a;
  nd_pi : penv p_pi = PI;
  nd_n : penv p_n = INR n;
  nd_i : venv v_i = INR idx;
  nd_idx : (idx < n)%nat;
  nd_u : 0 <= venv v_u0 < 1
}.

Section InDomainDesc.
  Variables (venv penv : nat -> R) (fenv : nat -> list nat -> list R -> R) (n idx : nat).
  Hypothesis Henv : node_env_desc venv penv n idx.

  Lemma nodes_in_domain_det_desc t g : In (t, g) det_terms -> (g = true -> 0 < penv p_b) -> size_ok t n ->
    penv p_b <= eval venv penv fenv t <= penv p_a.
  Proof.
    destruct Henv as [Hab Hpi Hn Hi Hidx Hu].
    intros Hin Hpos Hsz. expose Hin Hsz.
    all: cbn [eval]; cbv [v_i v_u0 p_a p_b p_n p_pi] in *; try rewrite Hpi; try rewrite Hn; try rewrite Hi.
    all: set (a := penv 0%nat) in *; set (b := penv 1%nat) in *; set (u := venv 1%nat) in *.
    all: first
      [ solve [nra]
      | solve [match goal with |- context [cos ?x] => pose proof (COS_bound x); set (c := cos x) in *; nra end]
      | solve [with_q n idx Hidx Hsz; nra]
      | (* log spacing *)
        solve [ assert (Hb : 0 < b) by (apply Hpos; reflexivity); assert (Ha : 0 < a) by lra;
                with_q n idx Hidx Hsz; pose proof ln10_pos as HL;
                assert (Hl : ln b < ln a) by (apply ln_increasing; assumption);
                apply (exp_between _ b a Hb Ha);
                match goal with |- _ <= ?E <= _ => replace E with (ln a + (ln b - ln a) * q) by (field; lra) end; nra ]
      | (* exp spacing *)
        solve [ with_q n idx Hidx Hsz; apply ln_between; [apply ln10_pos|];
                assert (He : exp (b * ln 10) < exp (a * ln 10)) by (apply exp_increasing; pose proof ln10_pos; nra);
                nra ]
      | (* latin hypercube *)
        solve [ replace (INR n + 1 - 1) with (INR n) by ring;
                assert (HN : 1 <= INR n) by (change 1 with (INR 1); apply le_INR; lia);
                assert (HI : INR idx + 1 <= INR n) by (rewrite <- S_INR; apply le_INR; lia);
                pose proof (pos_INR idx) as HI0;
                set (W := (a - b) / INR n);
                assert (HW : W * INR n = a - b) by (unfold W; field; lra);
                assert (HW0 : 0 < W) by (unfold W; apply Rdiv_lt_0_compat; lra);
                match goal with |- _ <= ?E <= _ => replace E with (a - W * (u + INR idx)) by (unfold W; field; lra) end;
                nra ] ].
  Qed.
  Lemma nodes_defined_det_desc t g : In (t, g) det_terms -> (g = true -> 0 < penv p_b) -> size_ok t n ->
    defined venv penv fenv t.
  Proof.
    destruct Henv as [Hab Hpi Hn Hi Hidx Hu].
    intros Hin Hpos Hsz. expose Hin Hsz.
    all: cbn [defined eval]; cbv [v_i v_u0 p_a p_b p_n p_pi] in *; try rewrite Hpi; try rewrite Hn; try rewrite Hi.
    all: set (a := penv 0%nat) in *; set (b := penv 1%nat) in *; set (u := venv 1%nat) in *.
    all: pose proof ln10_pos as HL.
    all: assert (HN1 : 1 <= INR n) by (change 1 with (INR 1); apply le_INR; destruct (has_nm1 (ECst 0)); lia).
    all: try (assert (HN2 : 2 <= INR n) by (change 2 with (INR 2); apply le_INR; lia)).
    all: try (assert (Hb : 0 < b) by (apply Hpos; reflexivity)).
    all: repeat split; auto; try lra.
    all: try (with_q n idx Hidx Hsz;
              assert (He : exp (b * ln 10) < exp (a * ln 10)) by (apply exp_increasing; nra);
              pose proof (exp_pos (b * ln 10)); nra).
  Qed.
End InDomainDesc.

(* non-vacuity: the environment is satisfiable and the size conditions are the expected ones *)
Example node_env_satisfiable :
  node_env (fun v => if Nat.eqb v v_i then INR 1 else 0) (fun p => if Nat.eqb p p_b then 1 else if Nat.eqb p p_n then INR 3 else if Nat.eqb p p_pi then PI else 0) 3 1.
Proof. constructor; cbn; try reflexivity; try lra; try lia. Qed.

Example size_ok_examples :
  forallb (fun p => has_nm1 (fst p)) det_terms = false /\ existsb (fun p => has_nm1 (fst p)) det_terms = true.
Proof. vm_compute. split; reflexivity. Qed.

Example node_env_desc_satisfiable :
  node_env_desc (fun v => if Nat.eqb v v_i then INR 1 else 0) (fun p => if Nat.eqb p p_a then 1 else if Nat.eqb p p_n then INR 3 else if Nat.eqb p p_pi then PI else 0) 3 1.
Proof. constructor; cbn; try reflexivity; try lra; try lia. Qed.
