(* F_C18_load — HISTORICAL: machine-checked counterexamples to the full-strength C18 statements
   about load() for the tree BEFORE fix commits 02ac05f (lowest_loss) and 446840b
   (BundleSolver1D.load; known findings F4a-c, status fixed).  Uses the written-out facts of the
   old tree from F_C18_save.v; nothing depends on the generated Gen_C18.v.  Never gates a check. *)
From Coq Require Import String.
From Coq Require Import List ZArith QArith Bool.
From ND.model Require Import Persist.
From ND.findings Require Import F_C18_save.
Import ListNotations.
Close Scope Q_scope.
Local Open Scope nat_scope.

Example old_lowest_loss_neither_saved_nor_restored :
  saved old_facts "lowest_loss" "self.lowest_loss" = false /\ restored old_facts "lowest_loss" "file:lowest_loss" = false.
Proof. split; reflexivity. Qed.

(* one epoch with validation loss 1 and best nets [7]; after load one epoch with validation loss 5
   overwrote the best nets although 1 was still in the history *)
Definition s1 : state := mkState K1D [7%Z] 5%Z [(1#1)%Q] [(1#1)%Q] (Some (1#1)%Q) (Some [7%Z]) [] 0 0 [] (mkEnv 0 0 0 0 0 false).
Definition worse : epoch_data := mkEpoch (5#1)%Q (5#1)%Q [8%Z] 6%Z (1, 1).

Theorem old_resume_best_refuted :
  exists s f l es, tracks s /\ snd (save old_facts s true) = Some f /\ load old_facts f = Some l
                   /\ ~ tracks (fit l es) /\ best (fit l es) = Some [8%Z] /\ best s = Some [7%Z].
Proof.
  exists s1. eexists. eexists. exists [worse]. split; [|split; [reflexivity|split; [vm_compute; reflexivity|]]].
  - unfold tracks, tracks_from, s1. cbn [lowest valid_hist skipn]. split; [now left|]. repeat constructor. discriminate.
  - split; [|split; reflexivity].
    unfold tracks, tracks_from. vm_compute. intros [_ H]. inversion H as [|? ? H1 _]. apply H1. reflexivity.
Qed.

(* a bundle solver routing its bundle parameter into the equation, with a custom loss: trainable
   before; after the old load the inner wrapper indexed a parameter the outer one no longer passed
   down (IndexError on the next fit) and the loss was the default again *)
Definition sb : state := mkState KBundle [7%Z] 5%Z [] [] None None [] 2 1 [[0]] (mkEnv 0 0 0 0 0 false).

Theorem old_load_bundle_refuted :
  exists s f l, kind s = KBundle /\ trainable s = true /\ snd (save old_facts s true) = Some f /\ load old_facts f = Some l
                /\ trainable l = false /\ loss_id l <> loss_id s /\ select (eqs l) [10] = None /\ select (eqs s) [10] = Some [10].
Proof.
  exists sb. eexists. eexists. split; [reflexivity|]. split; [reflexivity|]. split; [reflexivity|].
  split; [vm_compute; reflexivity|]. split; [reflexivity|]. split; [vm_compute; discriminate|]. split; reflexivity.
Qed.
