(* F_C18_load — machine-checked counterexamples to the full-strength C18 statements about load()
   (known findings C18 load/...): lowest_loss is not restored, and BundleSolver1D.load drops
   eq_param_index / loss_fn and wraps the equations a second time.
   Never gates a check: if the source is repaired this file stops compiling. *)
From Coq Require Import String.
From Coq Require Import List ZArith QArith Bool.
From ND.model Require Import Persist.
From ND.gen Require Import Gen_C18.
From ND.proofs Require Import C18_persist.
Import ListNotations.
Close Scope Q_scope.
Local Open Scope nat_scope.

Example lowest_loss_is_neither_saved_nor_restored :
  saved facts "lowest_loss" "self.lowest_loss" = false /\ restored facts "lowest_loss" "file:lowest_loss" = false.
Proof. split; reflexivity. Qed.

(* one epoch with validation loss 1 and best nets [7]; after load one epoch with validation loss 5
   overwrites the best nets although 1 is still in the history *)
Definition s1 : state := mkState K1D [7%Z] 5%Z [(1#1)%Q] [(1#1)%Q] (Some (1#1)%Q) (Some [7%Z]) [] 0 0 [].
Definition worse : epoch_data := mkEpoch (5#1)%Q (5#1)%Q [8%Z] 6%Z.

Theorem C18_resume_best_refuted :
  exists s f l es, tracks s /\ snd (save facts s true) = Some f /\ load facts f = Some l
                   /\ ~ tracks (fit l es) /\ best (fit l es) = Some [8%Z] /\ best s = Some [7%Z].
Proof.
  exists s1. eexists. eexists. exists [worse]. split; [|split; [reflexivity|split; [vm_compute; reflexivity|]]].
  - unfold tracks, tracks_from, s1. cbn [lowest valid_hist skipn]. split; [now left|]. repeat constructor. discriminate.
  - split; [|split; reflexivity].
    unfold tracks, tracks_from. vm_compute. intros [_ H]. inversion H as [|? ? H1 _]. apply H1. reflexivity.
Qed.

Example bundle_load_passes_neither_eq_param_index_nor_loss_fn :
  match ctor_args facts KBundle with
  | Some args => has_arg args "eq_param_index" = false /\ has_arg args "loss_fn" = false
  | None => False
  end.
Proof. vm_compute. split; reflexivity. Qed.

(* a bundle solver with one bundle parameter routed into the equation (eq_param_index = (0,)) and a
   custom loss: trainable before; after load the inner wrapper indexes a parameter the outer
   one no longer passes down (IndexError on the next fit), and the loss is the default again *)
Definition sb : state := mkState KBundle [7%Z] 5%Z [] [] None None [] 2 1 [[0]].

Theorem C18_load_bundle_refuted :
  exists s f l, kind s = KBundle /\ trainable s = true /\ snd (save facts s true) = Some f /\ load facts f = Some l
                /\ trainable l = false /\ loss_id l <> loss_id s.
Proof.
  exists sb. eexists. eexists. split; [reflexivity|]. split; [reflexivity|]. split; [reflexivity|].
  split; [vm_compute; reflexivity|]. split; [reflexivity | vm_compute; discriminate].
Qed.
