(* F_C05_closure — finding F7 (property C05): with a closure-requiring optimiser and n_batches_valid = 0 the
   best-model snapshot is taken AFTER the optimiser moved the parameters (solvers.py 398-400 steps inside the
   batch loop, 414-415 snapshots afterwards), while lowest_loss was computed before the move.  Re-evaluating
   the loss with best_nets on that epoch's batch does not reproduce lowest_loss.
   Witness on the toy instance of coq/model/Solver.v (one epoch, one batch, one closure evaluation per step).
   Never gates a check. *)
From Coq Require Import List Arith Bool ZArith QArith.
From ND.model Require Import Solver.
Import ListNotations. Import Toy.
Local Close Scope Q_scope.

Definition cfg := mkCfg S1D 1 [1%Z] [0] 1 (@nil nat) false.
Definition trs : list (list (list Q)) := [[[Qmake 1 1; Qmake 2 1]]].
Definition cds := [mkCond 5%Z 1%Z SigVariadic].
Definition s0 : t_state := t_init cfg 0 [Qmake 1 2] (TScript (Qmake 1 4) [1]) cds 0 1 0.
Definition s1 : t_state := t_fit cfg 0 trs [] 1 [] s0.

Theorem best_reproduces_closure_refuted :
  exists v w, lowest s1 = Some v /\ best s1 = Some w /\
              (* the loss of that epoch's only batch, re-evaluated with the stored best parameters *)
              Qeq_bool (t_loss cfg 0 cds w (nth 0 trs [])) v = false /\
              (* ... whereas the parameters BEFORE the optimiser call do reproduce it *)
              Qeq_bool (t_loss cfg 0 cds (theta s0) (nth 0 trs [])) v = true.
Proof.
  eexists. eexists. split; [vm_compute; reflexivity|]. split; [vm_compute; reflexivity|].
  split; vm_compute; reflexivity.
Qed.
