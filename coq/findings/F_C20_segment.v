(* F_C20_segment — machine-checked counterexample to the full-strength C20 statement for
   `generator_2dspatial_segment` with random=True, on the step function regenerated from
   neurodiffeq/temporal.py (known finding C20 / generator_2dspatial_segment / random=True).

   The loop body rebinds `center = center + noise`, so `center` is loop-carried (the generated
   `generator_2dspatial_segment_carried = ["center"]`): the points perform a random walk.
   Witness: size 1, segment (0,0)-(1,0), every torch.rand element 3/4, third draw:
   the centre is 1/2 + 3 * (3/4 - 1/2) = 5/4, off the segment.

   This file never gates a check: if the source is repaired it simply stops compiling. *)
From Coq Require Import String.
From Coq Require Import Reals List Lra Lia ZArith.
From ND.model Require Import Legacy.
From ND.gen Require Import Gen_C20.
From ND.proofs Require Import C20_samplers.
Import ListNotations.
Open Scope R_scope.

Example segment_center_is_loop_carried : generator_2dspatial_segment_carried = ["center"%string].
Proof. reflexivity. Qed.

Example samplers_without_state :
  generator_1dspatial_carried = [] /\ generator_temporal_carried = [].
Proof. split; reflexivity. Qed.

Lemma segment_third_draw :
  let out := draw (generator_2dspatial_segment_step ROps (fun _ _ => 3 / 4) 1 (0, 0) (1, 0) true) 2 0
                  (generator_2dspatial_segment_init ROps 1 (0, 0) (1, 0) true) in
  fst out 0%nat = 5 / 4.
Proof.
  unfold draw. cbn [run]. unfold generator_2dspatial_segment_step, generator_2dspatial_segment_init.
  cbv zeta. cbn [fst snd]. unfold vmap2, vmapr, vmapl, linspace. cbn [Nat.eqb]. r_ops. cbn [INR]. field.
Qed.

Theorem C20_segment_all_draws_refuted :
  exists (rnd : nat -> nat -> R) (size : nat) (x1 y1 x2 y2 : R) (k cur i : nat),
    unit_draws rnd /\ (1 <= size)%nat /\ (i < size)%nat /\
    let out := draw (generator_2dspatial_segment_step ROps rnd size (x1, y1) (x2, y2) true) k cur
                    (generator_2dspatial_segment_init ROps size (x1, y1) (x2, y2) true) in
    ~ segment_stratum x1 y1 x2 y2 size i (fst out i) (snd out i).
Proof.
  exists (fun _ _ => 3 / 4), 1%nat, 0, 0, 1, 0, 2%nat, 0%nat, 0%nat.
  split; [intros c j; lra|]. split; [lia|]. split; [lia|].
  cbv zeta. rewrite segment_third_draw. intros [s [[Hs0 Hs1] [Hx _]]]. cbn [INR] in *. lra.
Qed.
