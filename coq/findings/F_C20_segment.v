(* F_C20_segment — HISTORICAL: machine-checked counterexample to the full-strength C20 statement
   for `generator_2dspatial_segment(random=True)` as it was BEFORE fix commit 1c60fb1 (known
   finding F2, status fixed).  The old loop body rebound `center = center + noise`, so `center`
   was loop-carried and the points performed a random walk.

   The step function below is what tools/props/t_C20.py generated from the OLD source, written
   out by hand; nothing here depends on the generated Gen_C20.v, only on model/Legacy.v.
   Witness: size 1, segment (0,0)-(1,0), every torch.rand element 3/4, third draw: the centre is
   1/2 + 3 * (3/4 - 1/2) = 5/4, off the segment.  Never gates a check. *)
From Coq Require Import Reals List Lra Lia ZArith.
From ND.model Require Import Legacy.
Import ListNotations.
Open Scope R_scope.

Definition ROps : FOps := mkFOps R Rplus Rminus Rmult Rdiv Ropp IZR.

Definition old_segment_state (O : FOps) : Type := Vec O.        (* loop-carried: center *)
Definition old_segment_init (O : FOps) (size : nat) (start : F O * F O) (end_ : F O * F O) (random : bool) : old_segment_state O :=
  let step := fdiv O (fofZ O 1) (fofnat O size) in
  linspace O (fadd O (fofZ O 0) (fmul O (fofQ O 1 2) step)) (fsub O (fofZ O 1) (fmul O (fofQ O 1 2) step)) size.
Definition old_segment_step (O : FOps) (rnd : nat -> Vec O) (size : nat) (start : F O * F O) (end_ : F O * F O) (random : bool)
    (cur : nat) (st : old_segment_state O) : ((Vec O * Vec O) * nat * old_segment_state O) :=
  let '(x1, y1) := start in
  let '(x2, y2) := end_ in
  let step := fdiv O (fofZ O 1) (fofnat O size) in
  let noise_lo := fmul O (fopp O step) (fofQ O 1 2) in
  let center := st in
  if random then
    let noise := vmapr (fadd O) (vmapl (fmul O) step (rnd cur)) noise_lo in
    let center := vmap2 (fadd O) center noise in                  (* center = center + noise *)
    ((vmapl (fadd O) x1 (vmapl (fmul O) (fsub O x2 x1) center), vmapl (fadd O) y1 (vmapl (fmul O) (fsub O y2 y1) center)), S cur, center)
  else
    ((vmapl (fadd O) x1 (vmapl (fmul O) (fsub O x2 x1) center), vmapl (fadd O) y1 (vmapl (fmul O) (fsub O y2 y1) center)), cur, center).

Definition unit_draws (rnd : nat -> nat -> R) : Prop := forall c j, 0 <= rnd c j < 1.
Definition segment_stratum (x1 y1 x2 y2 : R) (n i : nat) (x y : R) : Prop :=
  exists s, INR i / INR n <= s <= (INR i + 1) / INR n /\ x = x1 + (x2 - x1) * s /\ y = y1 + (y2 - y1) * s.

Lemma old_segment_third_draw :
  let out := draw (old_segment_step ROps (fun _ _ => 3 / 4) 1 (0, 0) (1, 0) true) 2 0
                  (old_segment_init ROps 1 (0, 0) (1, 0) true) in
  fst out 0%nat = 5 / 4.
Proof.
  unfold draw. cbn [run]. unfold old_segment_step, old_segment_init.
  cbv zeta. cbn [fst snd]. unfold vmap2, vmapr, vmapl, linspace, fofQ, fofnat. cbn [Nat.eqb].
  cbn [F fadd fsub fmul fdiv fopp fofZ ROps Z.of_nat Pos.of_succ_nat]. field.
Qed.

Theorem old_segment_all_draws_refuted :
  exists (rnd : nat -> nat -> R) (size : nat) (x1 y1 x2 y2 : R) (k cur i : nat),
    unit_draws rnd /\ (1 <= size)%nat /\ (i < size)%nat /\
    let out := draw (old_segment_step ROps rnd size (x1, y1) (x2, y2) true) k cur
                    (old_segment_init ROps size (x1, y1) (x2, y2) true) in
    ~ segment_stratum x1 y1 x2 y2 size i (fst out i) (snd out i).
Proof.
  exists (fun _ _ => 3 / 4), 1%nat, 0, 0, 1, 0, 2%nat, 0%nat, 0%nat.
  split; [intros c j; lra|]. split; [lia|]. split; [lia|].
  cbv zeta. rewrite old_segment_third_draw. intros [s [[Hs0 Hs1] [Hx _]]]. cbn [INR] in *. lra.
Qed.
