(* Finding F1 (C07): Generator2D(method='chebyshev2-noisy') is accepted by the constructor but
   self.getter is bound to the RESULT of self.generate(...) (a tuple), not to a callable:
   get_examples() raises TypeError.  Never gates a check. *)
From Coq Require Import List String.
From ND.lib Require Import Expr.
From ND.model Require Import AtomicGen.
From ND.gen Require Import Gen_C07.

Lemma table_total_refuted :
  exists e, In e table /\ e_cls e = G2D /\ e_method e = "chebyshev2-noisy"%string /\ e_getter e = GetCallResult.
Proof. exists G2D_chebyshev2_noisy.entry. repeat split; try reflexivity. vm_compute. tauto. Qed.
