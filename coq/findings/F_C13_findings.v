(* C13 findings (never gates a check).

   Part 1: REGRESSION statements about the OLD behaviour of the two defects repaired by the
   fix commits 184d471 and e57b511.  They are stated over the list helpers only ([gather],
   [select], [single_or]) and over the old rule written out here, so they do not depend on
   the current model of the repaired code.

   Part 2: refutation witness of the still OPEN finding resample-stale-size-indirect on the
   faithful model (stops compiling when the code, and with it the model, is repaired). *)
From Coq Require Import List Arith ZArith Bool Lia.
Import ListNotations.
From ND.model Require Import Batch GenComb.

(* ---- Part 1a: ResampleGenerator used to ask randperm for the STALE size (3) of a filter that
   returned 2 rows: a genuine permutation of range(3) then indexes out of the draw (IndexError),
   whereas every index vector below the FRESH size (2) selects rows of the draw. *)
Definition kept : list Z := select [true; false; true] [10; 11; 12]%Z.

Theorem C13_old_resample_stale_regression :
  kept = [10; 12]%Z /\
  NoDup [2; 0; 1] /\ length [2; 0; 1] = 3 /\ gather [2; 0; 1] kept = None /\
  (forall idx, Forall (fun i => i < length kept) idx -> gather idx kept = Some (map (fun i => nth i kept 0%Z) idx)).
Proof.
  repeat split; try reflexivity.
  - repeat constructor; cbn; intuition discriminate.
  - intros idx H. unfold gather.
    assert (E : forallb (fun i => Nat.ltb i (length kept)) idx = true).
    { apply forallb_forall. intros i Hi. apply Nat.ltb_lt. rewrite Forall_forall in H. apply H. exact Hi. }
    rewrite E. reflexivity.
Qed.

(* ---- Part 1b: the old default of TransformGenerator, (lambda x: x)( *xs), accepted exactly one
   vector; the repaired default returns what it is given for any number of dimensions. *)
Definition old_transform_default (cs : list (list Z)) : option out :=
  match cs with [c] => Some (FT, [c]) | _ => None end.

Theorem C13_old_transform_default_regression :
  old_transform_default [[1; 2; 3]; [4; 5; 6]]%Z = None /\
  (forall cs, snd (single_or FU cs) = cs).
Proof.
  split; [reflexivity|]. intros [|a [|b l]]; reflexivity.
Qed.

(* ---- Part 2 (OPEN): ResampleGenerator over a combinator ABOVE a filter.  StaticGenerator keeps the
   construction-time .size (3) of the filter below it although 2 rows were cached; randperm(3)
   answers with a genuine permutation of range(3); the real call raises IndexError. *)
Theorem C13_resample_indirect_refuted :
  exists (draw : nat -> nat -> list (list Z)) (mask : nat -> nat -> list bool) (rperm : nat -> nat -> list nat) (g : gen),
    g = Static (Filter (Leaf 0 3 FT) 0 None true) /\
    length (rperm 0 0) = size_at draw mask rperm (fun _ _ => []) h_tvec h_tmulti g 1 /\
    NoDup (rperm 0 0) /\
    sample draw mask rperm (fun _ _ => []) h_tvec h_tmulti g 0 = Some (FT, [[10; 12]]%Z) /\
    sample draw mask rperm (fun _ _ => []) h_tvec h_tmulti (Resample g 0 None false) 0 = None.
Proof.
  exists (fun _ _ => [[10; 11; 12]]%Z), (fun _ _ => [true; false; true]), (fun _ _ => [2; 0; 1]),
         (Static (Filter (Leaf 0 3 FT) 0 None true)).
  repeat split; try reflexivity.
  repeat constructor; cbn; intuition discriminate.
Qed.
