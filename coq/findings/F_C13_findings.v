(* C13 findings (never gates a check).

   REGRESSION statements about the OLD behaviour of the three defects repaired by the fix
   commits 184d471, e57b511 and the follow-up ResampleGenerator fix.  They are stated over the list helpers only ([gather],
   [select], [single_or]) and over the old rule written out here, so they do not depend on
   the current model of the repaired code.

   No finding of C13 is open any more; nothing here refers to [sample] / the current model. *)
From Coq Require Import List Arith ZArith Bool Lia.
Import ListNotations.
From ND.model Require Import Batch GenComb.

(* ---- Part 1a: ResampleGenerator used to ask randperm for the STALE size (3) of a filter that
   returned 2 rows: a genuine permutation of range(3) then indexes out of the draw (IndexError),
   whereas every index vector below the FRESH size (2) selects rows of the draw. *)
Definition kept : list Z := select [true; false; true] [10; 11; 12]%Z.

Theorem C13_old_resample_stale_regression :
  kept = [10; 12]%Z /\
  NoDup [2; 0; 1] /\ length [2; 0; 1] = 3 /\ gather [2; 0; 1] kept = None /\
  (forall idx, Forall (fun i => i < length kept) idx -> gather idx kept = Some (map (fun i => nth i kept 0%Z) idx)).
Proof.
  repeat split; try reflexivity.
  - repeat constructor; cbn; intuition discriminate.
  - intros idx H. unfold gather.
    assert (E : forallb (fun i => Nat.ltb i (length kept)) idx = true).
    { apply forallb_forall. intros i Hi. apply Nat.ltb_lt. rewrite Forall_forall in H. apply H. exact Hi. }
    rewrite E. reflexivity.
Qed.

Lemma gather_none_at idx xs i : In i idx -> length xs <= i -> gather idx xs = None.
Proof.
  intros Hin Hle. unfold gather.
  destruct (forallb (fun i0 => Nat.ltb i0 (length xs)) idx) eqn:E; [|reflexivity].
  rewrite forallb_forall in E. specialize (E i Hin). apply Nat.ltb_lt in E. lia.
Qed.

(* ---- Part 1b: the old default of TransformGenerator, (lambda x: x)( *xs), accepted exactly one
   vector; the repaired default returns what it is given for any number of dimensions. *)
Definition old_transform_default (cs : list (list Z)) : option out :=
  match cs with [c] => Some (FT, [c]) | _ => None end.

Theorem C13_old_transform_default_regression :
  old_transform_default [[1; 2; 3]; [4; 5; 6]]%Z = None /\
  (forall cs, snd (single_or FU cs) = cs).
Proof.
  split; [reflexivity|]. intros [|a [|b l]]; reflexivity.
Qed.

(* ---- Part 1c: the residual repaired by the follow-up fix.  A combinator ABOVE a filter (here a
   StaticGenerator) keeps the .size computed at construction (3) although the filter below
   cached 2 rows; the old ResampleGenerator asked randperm for that .size.  The repaired one asks
   for the number of rows of the draw itself, for which every possible answer is in range
   (last conjunct of C13_old_resample_stale_regression). *)
Definition old_construction_size : nat := length [10; 11; 12]%Z.       (* what Static(Filter(leaf of 3)).size said *)

Theorem C13_old_resample_indirect_regression :
  old_construction_size = 3 /\ length kept = 2 /\
  (forall perm, length perm = old_construction_size -> NoDup perm -> Forall (fun i => i < old_construction_size) perm ->
                gather perm kept = None) /\
  (forall perm, length perm = length kept -> Forall (fun i => i < length kept) perm -> gather perm kept <> None).
Proof.
  repeat split.
  - (* any permutation of range(3) contains the index 2, which is outside a 2-row draw *)
    intros perm Hl Hnd Hlt.
    destruct (in_dec Nat.eq_dec 2 perm) as [H2|H2]; [apply (gather_none_at perm kept 2 H2); cbn; lia|].
    exfalso.
    assert (Hincl : incl perm [0; 1]).
    { intros i Hi. rewrite Forall_forall in Hlt. specialize (Hlt i Hi). unfold old_construction_size in Hlt. cbn in Hlt.
      destruct i as [|[|[|i]]]; [left; reflexivity|right; left; reflexivity|contradiction|lia]. }
    pose proof (NoDup_incl_length Hnd Hincl) as Hlen. rewrite Hl in Hlen. cbn in Hlen. lia.
  - intros perm _ Hlt. unfold gather.
    assert (E : forallb (fun i => Nat.ltb i (length kept)) perm = true).
    { apply forallb_forall. intros i Hi. apply Nat.ltb_lt. rewrite Forall_forall in Hlt. apply Hlt. exact Hi. }
    rewrite E. discriminate.
Qed.
