(* C13 recorded findings, refuted on the faithful model (never gates a check).
   If the code is repaired the model changes and these stop compiling. *)
From Coq Require Import List Arith ZArith Bool.
Import ListNotations.
From ND.model Require Import Batch GenComb.

(* F-C13-1: ResampleGenerator(FilterGenerator(leaf)) -- randperm is asked for the filter's STALE
   .size (3, the construction-time value) and answers with a genuine permutation of range(3), but
   the filter returned 2 rows: the index vector is out of range, the real call raises IndexError.
   Full-strength resample statement (any child, rperm a permutation of the child's current
   .size => rows of this draw) is therefore false. *)
Theorem C13_resample_over_filter_refuted :
  exists (draw : nat -> nat -> list (list Z)) (mask : nat -> nat -> list bool) (rperm : nat -> nat -> list nat) (g : gen),
    g = Filter (Leaf 0 3 FT) 0 None true /\
    length (rperm 0 0) = size_at draw mask rperm (fun _ _ => []) h_tvec h_tmulti g 0 /\
    NoDup (rperm 0 0) /\
    sample draw mask rperm (fun _ _ => []) h_tvec h_tmulti g 0 = Some (FT, [[10; 12]]%Z) /\
    sample draw mask rperm (fun _ _ => []) h_tvec h_tmulti (Resample g 0 None false) 0 = None.
Proof.
  exists (fun _ _ => [[10; 11; 12]]%Z), (fun _ _ => [true; false; true]), (fun _ _ => [2; 0; 1]),
         (Filter (Leaf 0 3 FT) 0 None true).
  repeat split; try reflexivity.
  repeat constructor; cbn; intuition discriminate.
Qed.

(* F-C13-2: TransformGenerator(g) with no maps (documented default: identity) on a generator
   with two dimensions: (lambda x: x)( *xs) raises TypeError. *)
Theorem C13_transform_default_refuted :
  exists (draw : nat -> nat -> list (list Z)),
    sample draw (fun _ _ => []) (fun _ _ => []) (fun _ _ => []) h_tvec h_tmulti (Leaf 0 3 FL) 0 = Some (FL, [[1; 2; 3]; [4; 5; 6]]%Z) /\
    sample draw (fun _ _ => []) (fun _ _ => []) (fun _ _ => []) h_tvec h_tmulti (TransformN (Leaf 0 3 FL)) 0 = None.
Proof.
  exists (fun _ _ => [[1; 2; 3]; [4; 5; 6]]%Z). split; reflexivity.
Qed.
