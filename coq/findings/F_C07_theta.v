(* Finding F8 (C07): the argument of acos in GeneratorSpherical.get_examples exceeds 1 for
   admissible draws (a = b = 0, c = 1/2, sign +1): theta is NaN in the implementation.
   Never gates a check; stops compiling when the code is repaired. *)
From Coq Require Import Reals List Lra.
From ND.lib Require Import Expr.
From ND.model Require Import AtomicGen.
From ND.gen Require Import Gen_C07.
Open Scope R_scope.

Lemma sph_theta_refuted :
  exists venv : nat -> R,
    (0 <= venv v_u0 < 1) /\ (0 <= venv v_u1 < 1) /\ (0 <= venv v_u2 < 1) /\ venv v_s0 = 1
    /\ 0 < venv v_u0 + venv v_u1 + venv v_u2
    /\ forall penv fenv, 1 < eval venv penv fenv GSph_equally_spaced_noisy.term_1.
Proof.
  exists (fun v => if Nat.eqb v v_u2 then 1 / 2 else if Nat.eqb v v_s0 then 1 else 0).
  cbn [Nat.eqb v_u0 v_u1 v_u2 v_s0]. repeat split; try lra.
  intros penv fenv. cbn [eval GSph_equally_spaced_noisy.term_1 Nat.eqb v_u0 v_u1 v_u2 v_s0].
  replace (1 / 2 / (0 + 0 + 1 / 2)) with 1 by field. rewrite sqrt_1. lra.
Qed.
