(* Historical finding F8 (C07), fixed by commit 75057c3 (theta = acos(clamp(z, -1, 1))).
   The OLD formula theta = acos(sqrt(c/(a+b+c)) + 1e-6) has its argument above 1 at the admissible
   draws a = b = 0, c = 1/2.  Stated on a literal copy of the old formula: independent of the
   generated / current code, kept as a record; never gates a check. *)
From Coq Require Import Reals Lra.
Open Scope R_scope.

Definition old_acos_arg (a b c : R) : R := sqrt (c / (a + b + c)) + 1 / 1000000.

Lemma old_sph_theta_refuted : exists a b c, 0 <= a < 1 /\ 0 <= b < 1 /\ 0 <= c < 1 /\ 0 < a + b + c /\ 1 < old_acos_arg a b c.
Proof.
  exists 0, 0, (1 / 2). unfold old_acos_arg. repeat split; try lra.
  replace (1 / 2 / (0 + 0 + 1 / 2)) with 1 by field. rewrite sqrt_1. lra.
Qed.
