(* Recorded findings of property C16 (never gate a check).
   The witnesses for SetOptimizer duplicates and for the call-counting repeated-metric callbacks
   (late attachment, short circuit, Below/Above first entry) were removed when /repo was repaired
   (fix commits 988d08c, 9737159): the full-strength theorems are now in props/P_C16.v.

   Still open: the history key of a custom metric.  _RepeatedMetricChange.__init__ and
   EveCallback.__init__ build f'{phase}_{metric}'; BaseSolver stores custom metrics under
   f'{phase}__{name}' (double underscore) and only the loss under f'{phase}_loss'. *)
From Coq Require Import String.
Open Scope string_scope.

Definition callback_key (phase metric : string) : string := phase ++ "_" ++ metric.
Definition solver_key (phase name : string) : string :=
  if string_dec name "loss" then phase ++ "_" ++ name else phase ++ "__" ++ name.

Theorem metric_key_refuted :
  exists name : string, name <> "loss" /\ callback_key "train" name <> solver_key "train" name.
Proof. exists "m". split; [discriminate|]. vm_compute. discriminate. Qed.

Theorem metric_key_loss_ok : forall phase, callback_key phase "loss" = solver_key phase "loss".
Proof. intros phase. reflexivity. Qed.
