(* Recorded findings of property C16 (never gate a check).
   All five recorded findings are repaired in /repo (fix commits 988d08c, 9737159, 98a9d3c); the
   full-strength theorems are in props/P_C16.v and no refutation witness remains.

   Kept for the record: the keys involved in the last one.  The callbacks still build
   '<phase>_<metric>' (the public .key attribute, pinned by tests/test_callbacks.py); the solver
   stores custom metrics under '<phase>__<name>'; since 98a9d3c the lookup _metric_history falls
   back from the first to the second (C16_metric_custom_spec, C16_gen_metric_history). *)
From Coq Require Import String.
Open Scope string_scope.

Definition callback_key (phase metric : string) : string := phase ++ "_" ++ metric.
Definition solver_key (phase name : string) : string :=
  if string_dec name "loss" then phase ++ "_" ++ name else phase ++ "__" ++ name.

Theorem metric_keys_differ :
  exists name : string, name <> "loss" /\ callback_key "train" name <> solver_key "train" name.
Proof. exists "m". split; [discriminate|]. vm_compute. discriminate. Qed.
