(* Recorded findings of property C16 (never gate a check): witnesses on the faithful model that
   the full-strength statements fail on the unchanged tree. *)
From Coq Require Import ZArith List Bool Lia.
From ND.model Require Import Callbacks.
Import ListNotations.
Open Scope Z_scope.

(* F5: SetOptimizer(<class>) hands a shared parameter to the optimiser twice *)
Theorem optimizer_params_nodup_refuted :
  exists nets : list (list Z), Forall (@NoDup Z) nets /\ ~ NoDup (opt_params nets).
Proof.
  exists [[1; 2]; [1; 2]]. split.
  - repeat (apply Forall_cons || apply Forall_nil); repeat (apply NoDup_cons; [cbn [In]; lia|]); apply NoDup_nil.
  - unfold opt_params. cbn [concat app]. intros H. inversion H as [|? ? Hin _]; subst. apply Hin. cbn [In]. lia.
Qed.

(* F10a: a repeated-metric callback attached when the history is not empty (a later fit()):
   the history 1,2,3 then 4 has two increases in a row, the counter says one *)
Theorem repeated_late_attachment_refuted :
  exists (k : rkind) (n : Z) (h0 xs : list Z),
    (n <=? run_counter (rel_of k) 0 h0 xs) <> (n <=? Z.of_nat (streak (rel_of k) (rev xs ++ h0))).
Proof. exists (RUp 0), 2, [3; 2; 1], [4]. vm_compute. discriminate. Qed.

(* F10b: behind a short-circuiting `|` the counter is neither increased nor reset at the epochs
   where the first operand holds: PeriodLocal(4) | RepeatedMetricUp(repetition=2) on the
   train losses 1,2,3,0,1 fires at epoch 5 although 5 is not a multiple of 4 and the last two
   pairs are (1,0) up and (0,3) down *)
Theorem repeated_short_circuit_refuted :
  exists (p : pred) (vs : list view),
    fst (run_pred p vs) <> map (fun v => psem v p) vs.
Proof.
  exists (POr [period_local 4 0; repeated (RUp 0) true 2]),
         [mkView 1 1 5 [1] []; mkView 2 2 5 [2; 1] []; mkView 3 3 5 [3; 2; 1] [];
          mkView 4 4 5 [0; 3; 2; 1] []; mkView 5 5 5 [1; 0; 3; 2; 1] []].
  vm_compute. discriminate.
Qed.

(* F10c: RepeatedMetricBelow/Above never count the oldest history entry: one value below the
   threshold, repetition 1: documented "below for the latest 1 epoch" holds, the callback says no *)
Theorem below_first_entry_refuted :
  exists (thr n : Z) (h : list Z),
    (n <=? Z.of_nat (streak (rel_of (RBelow thr)) h)) <> (n <=? Z.of_nat (streak1 (fun x => x <? thr) h)).
Proof. exists 1, 1, [0]. vm_compute. discriminate. Qed.
