(* F_C18_save — HISTORICAL: machine-checked counterexamples to the full-strength C18 statements
   about save() for the tree BEFORE fix commit 90081b1 (get_conditions worked on
   `condition.__dict__` itself; known findings F3a-d, status fixed).
   The facts of the old tree are written out below (`old_facts`); nothing here depends on the
   generated Gen_C18.v, only on the hand-written model/Persist.v.  Never gates a check. *)
From Coq Require Import String.
From Coq Require Import List ZArith QArith Bool.
From ND.model Require Import Persist.
Import ListNotations.
Close Scope Q_scope.
Local Open Scope nat_scope.
Local Open Scope string_scope.

Definition old_save_dict : list (string * string) :=
  [("metrics", "self.metrics_fn"); ("loss_fn", "self.loss_fn"); ("conditions", "self.conditions");
   ("global_epoch", "self.global_epoch"); ("nets", "self.nets"); ("best_nets", "self.best_nets");
   ("optimizer", "self.optimizer"); ("optimizer_state", "self.optimizer.state_dict()");
   ("optimizer_class", "optimizer_class"); ("diff_eqs", "self.diff_eqs");
   ("diff_equation_details", "diff_equation_details"); ("generator", "self.generator");
   ("train_loss_history", "self.metrics_history['train_loss']");
   ("valid_loss_history", "self.metrics_history['valid_loss']"); ("type", "self.__class__");
   ("type_name", "self.__class__.__name__"); ("parent_type_name", "self.__class__.__bases__[0].__name__");
   ("solver", "self")].

Definition common_args : list (string * string) :=
  [("conditions", "file:conditions"); ("metrics", "file:metrics"); ("nets", "file:nets");
   ("optimizer", "relinked(file:optimizer_class,file:optimizer_state)|file:optimizer");
   ("train_generator", "file:generator.train.generator"); ("valid_generator", "file:generator.valid.generator")].

Definition old_ctor : list (string * list (string * string)) :=
  [("Solver1D", ("ode_system", "file:diff_eqs") :: ("loss_fn", "file:loss_fn") :: common_args);
   ("Solver2D", ("pde_system", "file:diff_eqs") :: ("loss_fn", "file:loss_fn") :: common_args);
   ("BundleSolver1D", ("ode_system", "file:diff_eqs") :: common_args)].   (* neither eq_param_index nor loss_fn *)

Definition old_restores : list (string * string) :=
  [("best_nets", "file:best_nets"); ("metrics_history['train_loss']", "file:train_loss_history");
   ("metrics_history['valid_loss']", "file:valid_loss_history")].          (* no lowest_loss *)

(* aliased = true: cond_dict = condition.__dict__ *)
(* the old save path also drew a batch from the Solver2D train generator and advanced the global
   `random` module for BundleSolver1D (fixed by 8858019, 50b4f76) *)
Definition old_effects : list (string * string) :=
  [("Solver2D", "draw:train"); ("BundleSolver1D", "pyrandom");
   (* the preview helpers evaluated solver.get_solution()(...) outside any fork_rng (fixed by 56911ea) *)
   ("Solver1D", "forward"); ("Solver2D", "forward"); ("BundleSolver1D", "forward")].
Definition old_facts : srcfacts := mkFacts true true true true old_save_dict old_ctor old_restores old_effects.

Local Close Scope string_scope.

(* a Solver2D whose only condition holds one number and one lambda with retrievable source *)
Definition c0 : cond := mkCond 7 [("x_min"%string, ANum 0 1); ("x_min_val"%string, AFun 1 true)].
Definition s0 : state := mkState K2D [11%Z] 5%Z [] [] None None [c0] 0 0 [] (mkEnv 0 0 0 0 0 false).

(* save() altered the solver even when serialisation FAILED *)
Theorem old_save_preserves_refuted : exists s ok, ok = false /\ fst (save old_facts s ok) <> s.
Proof. exists s0, false. split; [reflexivity|]. vm_compute. discriminate. Qed.

(* ... also a condition that only holds numbers (condition_type was added) *)
Theorem old_save_preserves_numbers_refuted :
  exists s, fst (save old_facts s false) <> s /\ conds s = [mkCond 3 [("t_0"%string, ANum 0 1)]].
Proof.
  exists (mkState K1D [11%Z] 5%Z [] [] None None [mkCond 3 [("t_0"%string, ANum 0 1)]] 0 0 [] (mkEnv 0 0 0 0 0 false)).
  split; [vm_compute; discriminate | reflexivity].
Qed.

(* the function attribute had become its source text, in memory and in the loaded solver *)
Theorem old_load_save_solutions_refuted :
  exists s f l, snd (save old_facts s true) = Some f /\ load old_facts f = Some l /\ solution l false <> solution s false
                /\ map cond_sem (conds (fst (save old_facts s true))) <> map cond_sem (conds s).
Proof.
  exists s0. eexists. eexists. split; [reflexivity|]. split; [vm_compute; reflexivity|].
  split; vm_compute; discriminate.
Qed.

(* the old save() consumed a batch of the Solver2D train generator (G1) and advanced the global
   `random` state for BundleSolver1D (G2) -- also when serialisation failed; a trainer whose batch
   depends on the generator position then diverges from the never-saved twin *)
Theorem old_save_consumes_generator_refuted :
  exists s, kind s = K2D /\ drawn_train (env (fst (save old_facts s false))) = S (drawn_train (env s)).
Proof. exists s0. split; reflexivity. Qed.

Theorem old_save_advances_python_random_refuted :
  exists s, kind s = KBundle /\ py_random (env (fst (save old_facts s false))) = S (py_random (env s)).
Proof. exists (mkState KBundle [7%Z] 5%Z [] [] None None [] 0 1 [[]] (mkEnv 0 0 0 0 0 false)). split; reflexivity. Qed.

Theorem old_twin_diverges_refuted :
  exists (tr : state -> epoch_data) s, kind s = K2D /\
    nets (fit_by tr (fst (save old_facts s false)) 1) <> nets (fit_by tr s 1).
Proof.
  exists (fun s => mkEpoch (1#1)%Q (1#1)%Q [Z.of_nat (drawn_train (env s))] 0%Z (1, 1)), s0.
  split; [reflexivity|]. vm_compute. discriminate.
Qed.

(* with networks whose forward pass draws random numbers (Dropout in training mode) the old save()
   advanced torch's global RNG, for every solver kind (G3) *)
Theorem old_save_advances_torch_rng_refuted :
  forall k, exists s, kind s = k /\ stochastic (env s) = true /\
    torch_rng (env (fst (save old_facts s false))) = S (torch_rng (env s)).
Proof.
  intros k. exists (mkState k [7%Z] 5%Z [] [] None None [] 0 0 [] (mkEnv 0 0 0 0 0 true)).
  destruct k; repeat split.
Qed.
