(* F_C18_save — machine-checked counterexamples to the full-strength C18 statements about save()
   on the model instantiated with the facts regenerated from neurodiffeq/solvers_utils.py
   (known findings C18 save/... : get_conditions works on `condition.__dict__` itself).
   Never gates a check: if the source is repaired this file stops compiling. *)
From Coq Require Import String.
From Coq Require Import List ZArith QArith Bool.
From ND.model Require Import Persist.
From ND.gen Require Import Gen_C18.
From ND.proofs Require Import C18_persist.
Import ListNotations.
Close Scope Q_scope.
Local Open Scope nat_scope.

Example get_conditions_works_on_the_alias : sf_aliased facts = true /\ sf_touch_before_dump facts = true.
Proof. split; reflexivity. Qed.

(* a Solver2D whose only condition holds one number and one lambda with retrievable source *)
Definition c0 : cond := mkCond 7 [("x_min"%string, ANum 0 1); ("x_min_val"%string, AFun 1 true)].
Definition s0 : state := mkState K2D [11%Z] 5%Z [] [] None None [c0] 0 0 [].

(* save() alters the solver even when serialisation FAILS *)
Theorem C18_save_preserves_refuted : exists s ok, ok = false /\ fst (save facts s ok) <> s.
Proof. exists s0, false. split; [reflexivity|]. vm_compute. discriminate. Qed.

(* ... and a condition that only holds numbers is altered too (condition_type is added) *)
Theorem C18_save_preserves_numbers_refuted :
  exists s, Forall plain_cond (conds s) /\ fst (save facts s false) <> s.
Proof.
  exists (mkState K1D [11%Z] 5%Z [] [] None None [mkCond 3 [("t_0"%string, ANum 0 1)]] 0 0 []). split.
  - repeat constructor. intros kv [H|[]]. subst. reflexivity.
  - vm_compute. discriminate.
Qed.

(* the function attribute has become its source text: what enforce() reads has changed, in the
   solver in memory and in the solver that load returns *)
Theorem C18_load_save_solutions_refuted :
  exists s f l, snd (save facts s true) = Some f /\ load facts f = Some l /\ solution l false <> solution s false
                /\ map cond_sem (conds (fst (save facts s true))) <> map cond_sem (conds s).
Proof.
  exists s0. eexists. eexists. split; [reflexivity|]. split; [vm_compute; reflexivity|].
  split; vm_compute; discriminate.
Qed.
