(* P_C19 — property theorems for C19 (provided networks are pointwise maps with the requested
   architecture).  Only statements, each closed by `exact <lemma of proofs/C19_networks.v>`.

   * `fcnn_layers`, `fcnn_init`, `resnet_init`, `monomial_init`, the forward functions: hand model
     model/Networks.v, compared with the real modules (and with pyfront's interpretation of the
     constructors' source) inside Coq on every run.
   * `Gen_C19.<Target>.term(s)`: regenerated from /repo/neurodiffeq/networks.py on every run.
   Modelled, not verified: nn.Linear / nn.Sequential / element-wise tensor ops act row by row
   (the hypotheses of the row-wise theorems). *)
From Coq Require Import Reals List ZArith.
From ND.lib Require Import Expr.
From ND.model Require Import Networks.
From ND.gen Require Import Gen_C19.
From ND.proofs Require Import C19_networks.
Import ListNotations.
Open Scope R_scope.

(* ---- architecture: for every n_in, n_out and every hidden_units list the Sequential is
   [Linear(u_i,u_{i+1}); Act] for each hidden width (chained from n_in) followed by one
   Linear(u_last, n_out): no activation after the last layer *)
Theorem C19_fcnn_layers_spec : forall (n_in n_out : nat) (hidden : list nat),
  fcnn_layers n_in n_out hidden =
  flat_map (fun p => [Linear (fst p) (snd p) true; Act]) (combine (n_in :: hidden) hidden)
  ++ [Linear (last hidden n_in) n_out true].
Proof. exact fcnn_layers_spec. Qed.

Theorem C19_fcnn_layers_length : forall (n_in n_out : nat) (hidden : list nat),
  length (fcnn_layers n_in n_out hidden) = (2 * length hidden + 1)%nat.
Proof. exact fcnn_layers_length. Qed.

Theorem C19_fcnn_last_linear : forall (n_in n_out : nat) (hidden : list nat),
  last (fcnn_layers n_in n_out hidden) Act = Linear (last hidden n_in) n_out true.
Proof. exact fcnn_last_linear. Qed.

(* ---- deprecated size arguments: (n_hidden_units = h, n_hidden_layers = L) is hidden_units =
   (h,)*(L+1); only L given: h = 32; only h given: L = 1; none: (32, 32) *)
Theorem C19_fcnn_legacy_equiv : forall (n_in n_out h L : nat),
  fcnn_init n_in n_out (Some h) (Some L) None = fcnn_layers n_in n_out (repeat h (L + 1))
  /\ fcnn_init n_in n_out None (Some L) None = fcnn_layers n_in n_out (repeat 32%nat (L + 1))
  /\ fcnn_init n_in n_out (Some h) None None = fcnn_layers n_in n_out [h; h]
  /\ fcnn_init n_in n_out None None None = fcnn_layers n_in n_out [32; 32]%nat.
Proof. exact fcnn_legacy_equiv. Qed.

Theorem C19_fcnn_legacy_same_as_replacement : forall (n_in n_out h L : nat),
  fcnn_init n_in n_out (Some h) (Some L) None = fcnn_init n_in n_out None None (Some (repeat h (L + 1))).
Proof. exact fcnn_legacy_both. Qed.

Theorem C19_fcnn_legacy_ignored : forall (n_in n_out : nat) (nhu nhl : option nat) (hid : list nat),
  fcnn_init n_in n_out nhu nhl (Some hid) = fcnn_layers n_in n_out hid.
Proof. exact fcnn_legacy_ignored. Qed.

(* ---- an independent module per entry: no module object (in particular no activation instance) appears
   twice in the Sequential, for every layer list; the identity pattern pyfront reads from the
   constructor source (one object per nn.Linear(...) / actv() call) is the model's 0, 1, 2, ... *)
Theorem C19_module_ids_nodup : forall ls : list layer, NoDup (module_ids ls) /\ length (module_ids ls) = length ls.
Proof. exact (fun ls => conj (module_ids_nodup ls) (module_ids_length ls)). Qed.

Theorem C19_module_ids_generated :
  FCNN_ids_h3.terms = map (fun k => ECst (Z.of_nat k)) (module_ids (fcnn_layers 2 3 [4; 5; 6]%nat))
  /\ FCNN_ids_h0.terms = map (fun k => ECst (Z.of_nat k)) (module_ids (fcnn_layers 2 3 []))
  /\ Resnet_ids_h2.terms = map (fun k => ECst (Z.of_nat k)) (module_ids (fst (resnet_init 2 3 None None (Some [4; 5]%nat)))).
Proof. exact module_ids_generated. Qed.

(* ---- residual variant: the same FCNN plus a bias-free Linear(n_in, n_out) skip *)
Theorem C19_resnet_spec : forall (n_in n_out : nat) (hid : list nat),
  resnet_init n_in n_out None None (Some hid) = (chain n_in hid n_out, Linear n_in n_out false).
Proof. exact resnet_spec. Qed.

(* ---- row-wise: with Linear / activation modules acting row by row, the whole network maps a
   batch row by row, for every batch size and every layer list *)
Theorem C19_net_rowwise_fcnn : forall (LinB ActB : nat -> batch -> batch) (lin act : nat -> row -> row),
  (forall k X, LinB k X = map (lin k) X) -> (forall k X, ActB k X = map (act k) X) ->
  forall (ls : list layer) (X : batch),
  fcnn_forwardB LinB ActB ls X = map (fcnn_forward_row lin act ls) X.
Proof. exact fcnn_rowwise. Qed.

Theorem C19_net_rowwise_resnet : forall (LinB ActB : nat -> batch -> batch) (lin act : nat -> row -> row)
    (SkipB : batch -> batch) (skip : row -> row),
  (forall k X, LinB k X = map (lin k) X) -> (forall k X, ActB k X = map (act k) X) ->
  (forall X, SkipB X = map skip X) ->
  forall (ls : list layer) (X : batch),
  resnet_forwardB LinB ActB SkipB ls X = map (fun x => row_add (skip x) (fcnn_forward_row lin act ls x)) X.
Proof. exact resnet_rowwise. Qed.

Theorem C19_net_rowwise_monomial : forall (degrees : list nat) (X : batch), degrees <> [] ->
  monomial_forwardB degrees X = map (monomial_row degrees) X.
Proof. exact monomial_rowwise. Qed.

(* row i of the output depends on row i of the input only *)
Theorem C19_fcnn_row_independent : forall (LinB ActB : nat -> batch -> batch) (lin act : nat -> row -> row),
  (forall k X, LinB k X = map (lin k) X) -> (forall k X, ActB k X = map (act k) X) ->
  forall (ls : list layer) (X Y : batch) (i : nat) (d : row),
  (i < length X)%nat -> (i < length Y)%nat -> nth i X d = nth i Y d ->
  nth i (fcnn_forwardB LinB ActB ls X) (fcnn_forward_row lin act ls d)
  = nth i (fcnn_forwardB LinB ActB ls Y) (fcnn_forward_row lin act ls d).
Proof. exact fcnn_row_independent. Qed.

Theorem C19_fcnn_single_row : forall (LinB ActB : nat -> batch -> batch) (lin act : nat -> row -> row),
  (forall k X, LinB k X = map (lin k) X) -> (forall k X, ActB k X = map (act k) X) ->
  forall (ls : list layer) (X : batch) (i : nat) (d : row), (i < length X)%nat ->
  fcnn_forwardB LinB ActB ls [nth i X d] = [nth i (fcnn_forwardB LinB ActB ls X) (fcnn_forward_row lin act ls d)].
Proof. exact fcnn_single_row. Qed.

(* (n, n_in) -> (n, n_out) *)
Theorem C19_fcnn_rows : forall (LinB ActB : nat -> batch -> batch) (lin act : nat -> row -> row),
  (forall k X, LinB k X = map (lin k) X) -> (forall k X, ActB k X = map (act k) X) ->
  forall (ls : list layer) (X : batch), length (fcnn_forwardB LinB ActB ls X) = length X.
Proof. exact fcnn_rows. Qed.

Theorem C19_fcnn_out_width : forall (lin act : nat -> row -> row) (n_in n_out : nat) (hidden : list nat) (x : row),
  (forall k y, length (lin k y) = match nth k (fcnn_layers n_in n_out hidden) Act with
                                  | Linear _ o _ => o | Act => length (lin k y) end) ->
  length (fcnn_forward_row lin act (fcnn_layers n_in n_out hidden) x) = n_out.
Proof. exact fcnn_out_width. Qed.

(* ---- monomial expansion: entry k*n_in + j of a row is x_j ^ d_k; an int argument means 1..n *)
Theorem C19_monomial_spec : forall (degrees : list nat) (x : row) (k j : nat),
  (k < length degrees)%nat -> (j < length x)%nat ->
  nth (k * length x + j) (monomial_row degrees x) 0 = (nth j x 0) ^ (nth k degrees 0%nat).
Proof. exact monomial_row_nth. Qed.

Theorem C19_monomial_width : forall (degrees : list nat) (x : row),
  length (monomial_row degrees x) = (length degrees * length x)%nat.
Proof. exact monomial_row_length. Qed.

Theorem C19_monomial_init_int : forall n : nat, (1 <= n)%nat -> monomial_init (DegInt n) = Some (seq 1 n).
Proof. exact monomial_init_int. Qed.

Theorem C19_monomial_generated : forall venv penv fenv,
  map (eval venv penv fenv) Mono_int3_w2.terms = monomial_row (seq 1 3) [venv 0%nat; venv 1%nat]
  /\ map (eval venv penv fenv) Mono_list_w3.terms = monomial_row [2; 0; 5]%nat [venv 0%nat; venv 1%nat; venv 2%nat]
  /\ map (eval venv penv fenv) Mono_int1_w1.terms = monomial_row (seq 1 1) [venv 0%nat]
  /\ map (eval venv penv fenv) Mono_dup_w2.terms = monomial_row [4; 1; 4]%nat [venv 0%nat; venv 1%nat]
  /\ Mono_reject_empty.raises = true.
Proof.
  exact (fun venv penv fenv => conj (monomial_gen_int3 venv penv fenv) (conj (monomial_gen_list venv penv fenv)
         (conj (monomial_gen_int1 venv penv fenv) (conj (monomial_gen_dup venv penv fenv) monomial_gen_reject)))).
Qed.

(* ---- activations: the generated forward terms are the documented formulas, for all real
   inputs and parameters, trainable or not *)
Theorem C19_sin_formula : forall venv penv fenv,
  eval venv penv fenv SinActv.term = sin (venv SinActv.v_x).
Proof. exact sin_formula. Qed.

Theorem C19_swish_formula : forall venv penv fenv,
  let x := venv Swish_fixed.v_x in let beta := penv Swish_fixed.p_beta in
  eval venv penv fenv Swish_fixed.term = x / (1 + exp (- (beta * x))).
Proof. exact swish_formula_fixed. Qed.

Theorem C19_swish_formula_trainable : forall venv penv fenv,
  let x := venv Swish_trainable.v_x in let beta := penv Swish_trainable.p_beta in
  eval venv penv fenv Swish_trainable.term = x / (1 + exp (- (beta * x))).
Proof. exact swish_formula_trainable. Qed.

Theorem C19_swish_defined : forall venv penv fenv,
  defined venv penv fenv Swish_fixed.term /\ defined venv penv fenv Swish_trainable.term.
Proof. exact swish_defined. Qed.

Theorem C19_aptx_formula : forall venv penv fenv,
  let x := venv APTx_fixed.v_x in
  let alpha := penv APTx_fixed.p_alpha in let beta := penv APTx_fixed.p_beta in let gamma := penv APTx_fixed.p_gamma in
  eval venv penv fenv APTx_fixed.term = (alpha + tanh (beta * x)) * gamma * x.
Proof. exact aptx_formula_fixed. Qed.

Theorem C19_aptx_formula_trainable : forall venv penv fenv,
  let x := venv APTx_trainable.v_x in
  let alpha := penv APTx_trainable.p_alpha in let beta := penv APTx_trainable.p_beta in let gamma := penv APTx_trainable.p_gamma in
  eval venv penv fenv APTx_trainable.term = (alpha + tanh (beta * x)) * gamma * x.
Proof. exact aptx_formula_trainable. Qed.

(* ---- parameters are registered through nn.Parameter exactly when trainable=True *)
Theorem C19_trainable_flags :
  Swish_flags_trainable.terms = [ECst 1] /\ Swish_flags_fixed.terms = [ECst 0]
  /\ APTx_flags_trainable.terms = [ECst 1; ECst 1; ECst 1] /\ APTx_flags_fixed.terms = [ECst 0; ECst 0; ECst 0].
Proof. exact trainable_flags. Qed.
