(* P_C11 — property theorems for C11 (spherical shell, infinite-domain and coefficient-space
   conditions).  Statements only; `Gen_C11.*` regenerated from conditions.py on every run.
   basis*: one column j of the coefficient vector (R_0, R_1, R_inf stand for the j-th entries,
   N for output column j; the vector formulas are element-wise). *)
From Coq Require Import Reals List.
From Coquelicot Require Import Coquelicot.
From ND.lib Require Import Expr ExprSound.
From ND.gen Require Import Gen_C11.
From ND.proofs Require Import C11_sph.
Import ListNotations.
Open Scope R_scope.

Theorem C11_shell_inner : forall venv penv fenv,
  penv shell2.p_r_1 - penv shell2.p_r_0 <> 0 -> venv shell2.v_r = penv shell2.p_r_0 ->
  eval venv penv fenv shell2.term = fenv shell2.f_f [0;0]%nat [venv shell2.v_theta; venv shell2.v_phi].
Proof. exact shell2_inner. Qed.

Theorem C11_shell_outer : forall venv penv fenv,
  penv shell2.p_r_1 - penv shell2.p_r_0 <> 0 -> venv shell2.v_r = penv shell2.p_r_1 ->
  eval venv penv fenv shell2.term = fenv shell2.f_g [0;0]%nat [venv shell2.v_theta; venv shell2.v_phi].
Proof. exact shell2_outer. Qed.

Theorem C11_shell_one_sided : forall venv penv fenv,
  venv shell1.v_r = penv shell1.p_r_0 ->
  eval venv penv fenv shell1.term = fenv shell1.f_f [0;0]%nat [venv shell1.v_theta; venv shell1.v_phi].
Proof. exact shell1_inner. Qed.

Theorem C11_inf_inner : forall venv penv fenv,
  venv inf.v_r = penv inf.p_r_0 ->
  eval venv penv fenv inf.term = fenv inf.f_f [0;0]%nat [venv inf.v_theta; venv inf.v_phi].
Proof. exact inf_inner. Qed.

Theorem C11_inf_limit : forall venv penv fenv M,
  0 < penv inf.p_order ->
  (forall r, Rabs (fenv inf.f_N [0;0;0]%nat [r; venv inf.v_theta; venv inf.v_phi]) <= M) ->
  is_lim (fun r => eval (upd venv inf.v_r r) penv fenv inf.term) p_infty
         (fenv inf.f_g [0;0]%nat [venv inf.v_theta; venv inf.v_phi]).
Proof. exact inf_limit_gen. Qed.

Theorem C11_basis_inner : forall venv penv fenv,
  penv basis2.p_r_1 - penv basis2.p_r_0 <> 0 -> venv basis2.v_r = penv basis2.p_r_0 ->
  eval venv penv fenv basis2.term = penv basis2.p_R_0.
Proof. exact basis2_inner. Qed.

Theorem C11_basis_outer : forall venv penv fenv,
  penv basis2.p_r_1 - penv basis2.p_r_0 <> 0 -> venv basis2.v_r = penv basis2.p_r_1 ->
  eval venv penv fenv basis2.term = penv basis2.p_R_1.
Proof. exact basis2_outer. Qed.

Theorem C11_basis_one_sided : forall venv penv fenv,
  venv basis1.v_r = penv basis1.p_r_0 -> eval venv penv fenv basis1.term = penv basis1.p_R_0.
Proof. exact basis1_inner. Qed.

Theorem C11_inf_basis_inner : forall venv penv fenv,
  venv inf_basis.v_r = penv inf_basis.p_r_0 -> eval venv penv fenv inf_basis.term = penv inf_basis.p_R_0.
Proof. exact inf_basis_inner. Qed.

Theorem C11_inf_basis_limit : forall venv penv fenv M,
  0 < penv inf_basis.p_order ->
  (forall r, Rabs (fenv inf_basis.f_N [0]%nat [r]) <= M) ->
  is_lim (fun r => eval (upd venv inf_basis.v_r r) penv fenv inf_basis.term) p_infty (penv inf_basis.p_R_inf).
Proof. exact inf_basis_limit. Qed.

Theorem C11_rejects : shell_reject.raises = true /\ basis_reject.raises = true /\
  shell2.raises = false /\ shell1.raises = false /\ basis2.raises = false /\ basis1.raises = false.
Proof. exact c11_rejects. Qed.
