(* P_C02 — property theorems for C02 (PDE box, space-time and irregular conditions hold on the
   whole boundary).  Statements only.  Boundary data are derived from an arbitrary field G
   (symbol f_G with arbitrary jets), so corner / initial compatibility is a consequence.
   `Gen_C02.*` regenerated from conditions.py / pde.py on every run.  The irregular-domain part
   is about the R-level model model/TPS.v, tied to the regenerated term for 4 and 5 control
   points; np.linalg.solve enters only as "c solves the system rows" hypotheses. *)
From Coq Require Import Reals List.
From ND.lib Require Import Expr.
From ND.model Require Import TPS.
From ND.gen Require Import Gen_C02.
From ND.proofs Require Import C02_pde C02_tps.
Import ListNotations.
Open Scope R_scope.

(* ---- rectangle: every point of every edge *)
Theorem C02_bvp2d_edge_x0 : forall venv penv fenv,
  penv BVP2D.p_x1 - penv BVP2D.p_x0 <> 0 -> penv BVP2D.p_y1 - penv BVP2D.p_y0 <> 0 ->
  venv BVP2D.v_x = penv BVP2D.p_x0 ->
  eval venv penv fenv BVP2D.term = fenv BVP2D.f_G [0;0]%nat [penv BVP2D.p_x0; venv BVP2D.v_y].
Proof. exact bvp2d_edge_x0. Qed.
Theorem C02_bvp2d_edge_x1 : forall venv penv fenv,
  penv BVP2D.p_x1 - penv BVP2D.p_x0 <> 0 -> penv BVP2D.p_y1 - penv BVP2D.p_y0 <> 0 ->
  venv BVP2D.v_x = penv BVP2D.p_x1 ->
  eval venv penv fenv BVP2D.term = fenv BVP2D.f_G [0;0]%nat [penv BVP2D.p_x1; venv BVP2D.v_y].
Proof. exact bvp2d_edge_x1. Qed.
Theorem C02_bvp2d_edge_y0 : forall venv penv fenv,
  penv BVP2D.p_x1 - penv BVP2D.p_x0 <> 0 -> penv BVP2D.p_y1 - penv BVP2D.p_y0 <> 0 ->
  venv BVP2D.v_y = penv BVP2D.p_y0 ->
  eval venv penv fenv BVP2D.term = fenv BVP2D.f_G [0;0]%nat [venv BVP2D.v_x; penv BVP2D.p_y0].
Proof. exact bvp2d_edge_y0. Qed.
Theorem C02_bvp2d_edge_y1 : forall venv penv fenv,
  penv BVP2D.p_x1 - penv BVP2D.p_x0 <> 0 -> penv BVP2D.p_y1 - penv BVP2D.p_y0 <> 0 ->
  venv BVP2D.v_y = penv BVP2D.p_y1 ->
  eval venv penv fenv BVP2D.term = fenv BVP2D.f_G [0;0]%nat [venv BVP2D.v_x; penv BVP2D.p_y1].
Proof. exact bvp2d_edge_y1. Qed.

(* ---- IBVP1D, four modes: initial profile for all x; value or x-derivative at both ends for all t *)
Theorem C02_ibvp_dd : forall venv penv fenv,
  penv IBVP_dd.p_x_max - penv IBVP_dd.p_x_min <> 0 -> venv IBVP_dd.v_t0 = penv IBVP_dd.p_t_min ->
  (venv IBVP_dd.v_t = penv IBVP_dd.p_t_min -> eval venv penv fenv IBVP_dd.term = fenv IBVP_dd.f_G [0;0]%nat [venv IBVP_dd.v_x; penv IBVP_dd.p_t_min]) /\
  (venv IBVP_dd.v_x = penv IBVP_dd.p_x_min -> eval venv penv fenv IBVP_dd.term = fenv IBVP_dd.f_G [0;0]%nat [penv IBVP_dd.p_x_min; venv IBVP_dd.v_t]) /\
  (venv IBVP_dd.v_x = penv IBVP_dd.p_x_max -> eval venv penv fenv IBVP_dd.term = fenv IBVP_dd.f_G [0;0]%nat [penv IBVP_dd.p_x_max; venv IBVP_dd.v_t]).
Proof. intros v p f HL H0. repeat split; [apply ibvp_dd_init | apply ibvp_dd_left | apply ibvp_dd_right]; auto. Qed.

Theorem C02_ibvp_dn : forall venv penv fenv,
  penv IBVP_dn.p_x_max - penv IBVP_dn.p_x_min <> 0 -> venv IBVP_dn.v_t0 = penv IBVP_dn.p_t_min -> venv IBVP_dn.v_x1 = penv IBVP_dn.p_x_max ->
  (venv IBVP_dn.v_t = penv IBVP_dn.p_t_min -> eval venv penv fenv IBVP_dn.term = fenv IBVP_dn.f_G [0;0]%nat [venv IBVP_dn.v_x; penv IBVP_dn.p_t_min]) /\
  (venv IBVP_dn.v_x = penv IBVP_dn.p_x_min -> eval venv penv fenv IBVP_dn.term = fenv IBVP_dn.f_G [0;0]%nat [penv IBVP_dn.p_x_min; venv IBVP_dn.v_t]) /\
  (venv IBVP_dn.v_x = penv IBVP_dn.p_x_max -> eval venv penv fenv (D IBVP_dn.v_x IBVP_dn.term) = fenv IBVP_dn.f_G [1;0]%nat [penv IBVP_dn.p_x_max; venv IBVP_dn.v_t]).
Proof. intros v p f HL H0 H1. repeat split; [apply ibvp_dn_init | apply ibvp_dn_left | apply ibvp_dn_right]; auto. Qed.

Theorem C02_ibvp_nd : forall venv penv fenv,
  penv IBVP_nd.p_x_max - penv IBVP_nd.p_x_min <> 0 -> venv IBVP_nd.v_t0 = penv IBVP_nd.p_t_min -> venv IBVP_nd.v_x0 = penv IBVP_nd.p_x_min ->
  (venv IBVP_nd.v_t = penv IBVP_nd.p_t_min -> eval venv penv fenv IBVP_nd.term = fenv IBVP_nd.f_G [0;0]%nat [venv IBVP_nd.v_x; penv IBVP_nd.p_t_min]) /\
  (venv IBVP_nd.v_x = penv IBVP_nd.p_x_min -> eval venv penv fenv (D IBVP_nd.v_x IBVP_nd.term) = fenv IBVP_nd.f_G [1;0]%nat [penv IBVP_nd.p_x_min; venv IBVP_nd.v_t]) /\
  (venv IBVP_nd.v_x = penv IBVP_nd.p_x_max -> eval venv penv fenv IBVP_nd.term = fenv IBVP_nd.f_G [0;0]%nat [penv IBVP_nd.p_x_max; venv IBVP_nd.v_t]).
Proof. intros v p f HL H0 H1. repeat split; [apply ibvp_nd_init | apply ibvp_nd_left | apply ibvp_nd_right]; auto. Qed.

Theorem C02_ibvp_nn : forall venv penv fenv,
  penv IBVP_nn.p_x_max - penv IBVP_nn.p_x_min <> 0 -> venv IBVP_nn.v_t0 = penv IBVP_nn.p_t_min ->
  venv IBVP_nn.v_x0 = penv IBVP_nn.p_x_min -> venv IBVP_nn.v_x1 = penv IBVP_nn.p_x_max ->
  (venv IBVP_nn.v_t = penv IBVP_nn.p_t_min -> eval venv penv fenv IBVP_nn.term = fenv IBVP_nn.f_G [0;0]%nat [venv IBVP_nn.v_x; penv IBVP_nn.p_t_min]) /\
  (venv IBVP_nn.v_x = penv IBVP_nn.p_x_min -> eval venv penv fenv (D IBVP_nn.v_x IBVP_nn.term) = fenv IBVP_nn.f_G [1;0]%nat [penv IBVP_nn.p_x_min; venv IBVP_nn.v_t]) /\
  (venv IBVP_nn.v_x = penv IBVP_nn.p_x_max -> eval venv penv fenv (D IBVP_nn.v_x IBVP_nn.term) = fenv IBVP_nn.f_G [1;0]%nat [penv IBVP_nn.p_x_max; venv IBVP_nn.v_t]).
Proof. intros v p f HL H0 H1 H2. repeat split; [apply ibvp_nn_init | apply ibvp_nn_left | apply ibvp_nn_right]; auto. Qed.

Theorem C02_fresh_leaves :
  IBVP_dd.fresh = [(IBVP_dd.v_t0, EPar IBVP_dd.p_t_min)] /\
  IBVP_dn.fresh = [(IBVP_dn.v_x1, EPar IBVP_dn.p_x_max); (IBVP_dn.v_t0, EPar IBVP_dn.p_t_min)] /\
  IBVP_nd.fresh = [(IBVP_nd.v_x0, EPar IBVP_nd.p_x_min); (IBVP_nd.v_t0, EPar IBVP_nd.p_t_min)] /\
  IBVP_nn.fresh = [(IBVP_nn.v_x0, EPar IBVP_nn.p_x_min); (IBVP_nn.v_x1, EPar IBVP_nn.p_x_max); (IBVP_nn.v_t0, EPar IBVP_nn.p_t_min)].
Proof. repeat split. Qed.

(* output-unit mode yields the same terms up to the network symbol (N@k in place of N) *)
Theorem C02_unit_terms_same_shape :
  IBVP_dd_unit.term = IBVP_dd.term /\ IBVP_dn_unit.term = IBVP_dn.term /\
  IBVP_nd_unit.term = IBVP_nd.term /\ IBVP_nn_unit.term = IBVP_nn.term /\ BVP2D_unit.term = BVP2D.term.
Proof. exact unit_terms_same_shape. Qed.

Theorem C02_ibvp_rejects : IBVP_reject_three.raises = true /\ IBVP_reject_both_max.raises = true /\
  IBVP_dd.raises = false /\ IBVP_dn.raises = false /\ IBVP_nd.raises = false /\ IBVP_nn.raises = false.
Proof. exact ibvp_rejects. Qed.

(* ---- irregular domain (Dirichlet control points, any number, any dimension) *)
Theorem C02_interp_at_control_point : forall coefs cps p v,
  dot coefs (system_row cps p) = v -> interp coefs cps p = v.
Proof. exact interp_at_control_point. Qed.

Theorem C02_length_factor_at_control_point : forall radius cx cy cps p theta,
  interp cx cps p = radius * cos theta -> interp cy cps p = radius * sin theta ->
  length_factor radius [cx; cy] cps p = 0.
Proof. exact length_factor_at_control_point. Qed.

Theorem C02_custom_enforce_at_control_point : forall radius a_coefs cx cy cps p v theta net,
  dot a_coefs (system_row cps p) = v ->
  dot cx (system_row cps p) = radius * cos theta -> dot cy (system_row cps p) = radius * sin theta ->
  custom_enforce radius a_coefs [cx; cy] cps net p = v.
Proof. exact custom_enforce_at_control_point. Qed.

Theorem C02_tie_custom_enforce_4 : forall venv penv fenv,
  let cps := [[penv 0; penv 1]; [penv 2; penv 3]; [penv 4; penv 5]; [penv 6; penv 7]]%nat in
  eval venv penv fenv custom_enforce_4.term =
  custom_enforce (penv 29%nat) (plist penv 8 7) [plist penv 15 7; plist penv 22 7] cps
                 (fenv 0%nat [0;0]%nat [venv 0%nat; venv 1%nat]) [venv 0%nat; venv 1%nat].
Proof. exact tie_custom_enforce_4. Qed.

Theorem C02_tie_custom_enforce_5 : forall venv penv fenv,
  let cps := [[penv 0; penv 1]; [penv 2; penv 3]; [penv 4; penv 5]; [penv 6; penv 7]; [penv 8; penv 9]]%nat in
  eval venv penv fenv custom_enforce_5.term =
  custom_enforce (penv 34%nat) (plist penv 10 8) [plist penv 18 8; plist penv 26 8] cps
                 (fenv 0%nat [0;0]%nat [venv 0%nat; venv 1%nat]) [venv 0%nat; venv 1%nat].
Proof. exact tie_custom_enforce_5. Qed.

Theorem C02_tie_kernels : forall venv penv fenv,
  eval venv penv fenv ri_sq_pretrain.term = ri_sq [penv 0%nat; penv 1%nat] [penv 2%nat; penv 3%nat] /\
  eval venv penv fenv ri_sq_trainval.term = ri_sq [venv 0%nat; venv 1%nat] [penv 2%nat; penv 3%nat].
Proof. exact tie_kernels. Qed.
