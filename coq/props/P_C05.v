(* P_C05 — property theorems for C05 (best-model tracking: lowest loss is the running min; best nets
   produced it).  Only statements, each closed by `exact <lemma of proofs/C05_best.v>`.
   Model: coq/model/Solver.v.  Quantified over all components (Section variables), all callbacks
   (including ones that swap the loss function or the optimiser, change n_batches, mutate the live
   parameters), all op sequences.  The loss-value order `vltb` is ANY decidable strict weak order
   (hypotheses vlt_trans / vlt_cotrans; NaN excluded as in the property text).

   Vocabulary (proofs/C05_best.v):
     tracked s          ghost list, one entry per _update_best call: value, snapshotted parameters, phase,
                        loss id, conditions, first draw index, number of batches, closure-optimiser flag
     mean_loss l c p ph start n   mean over the n draws of generator ph from `start` of loss l c p
     improves s s'      (lowest, best) unchanged, or lowest s' strictly below lowest s

   Tie to the source: the C05_gen_* theorems state that the definitions GENERATED from BaseSolver._update_best and
   its call site in _run_epoch (coq/gen/Gen_C04.v, regenerated on every run by tools/props/t_C04.py) equal the
   model's: which key's history is read, the comparison `(lowest_loss is None) or current_loss < lowest_loss`
   (strict), what is stored, when it is called.

   Recorded finding F7 (kept visible): FULL-STRENGTH best_reproduces for EVERY tracked entry fails when the
   entry was recorded by a TRAINING epoch driven by a closure optimiser (n_batches_valid = 0): the snapshot
   is taken after the optimiser moved the parameters.  C05_best_reproduces carries the restricting
   hypothesis `t_phase e = Valid \/ t_closure e = false`; C05_best_closure_novalid_partial states what holds
   instead; findings/F_C05_closure.v refutes the full-strength statement. *)
From Coq Require Import List Arith Bool Lia.
From ND.model Require Import Solver.
From ND.gen Require Import Gen_C04.
From ND.proofs Require Import C15_base C05_best C04_gen.
Import ListNotations.

Section P_C05.
  Variables P G B V O C : Type.
  Variable loss : nat -> C -> P -> B -> V.
  Variable gradl : nat -> C -> P -> B -> G.
  Variable metric : nat -> C -> P -> B -> V.
  Variable nmetrics : nat.
  Variable gzero : G.
  Variable gadd : G -> G -> G.
  Variable vzero : V.
  Variable vadd : V -> V -> V.
  Variable vdivn : V -> nat -> V.
  Variable vltb : V -> V -> bool.
  Variable requires_closure : O -> bool.
  Variable opt_step : O -> P -> G -> O * P.
  Variable closure_opt : O -> P -> (P -> V * G) -> O * list P * P.
  Variable draw : phase -> nat -> B.

  Local Notation state := (Solver.state P G V O C).
  Local Notation acc := (Solver.acc V).
  Local Notation callback := (Solver.callback P G V O C).
  Local Notation action := (Solver.action P O C).
  Local Notation op := (Solver.op P G V O C).
  Local Notation acc0 := (Solver.acc0 nmetrics vzero).
  Local Notation met_add := (Solver.met_add metric vadd).
  Local Notation met_add_from := (Solver.met_add_from metric vadd).
  Local Notation closure_of := (Solver.closure_of loss gradl).
  Local Notation eval_batch := (Solver.eval_batch loss gradl metric gadd vadd closure_opt).
  Local Notation batch_step := (Solver.batch_step loss gradl metric gadd vadd closure_opt draw).
  Local Notation run_batches := (Solver.run_batches loss gradl metric gadd vadd closure_opt draw).
  Local Notation update_best := (Solver.update_best vltb).
  Local Notation do_step := (Solver.do_step opt_step).
  Local Notation zero_grad := (Solver.zero_grad gzero).
  Local Notation run_epoch := (Solver.run_epoch loss gradl metric nmetrics gzero gadd vzero vadd vdivn vltb requires_closure opt_step closure_opt draw).
  Local Notation iteration := (Solver.iteration loss gradl metric nmetrics gzero gadd vzero vadd vdivn vltb requires_closure opt_step closure_opt draw).
  Local Notation fit_loop := (Solver.fit_loop loss gradl metric nmetrics gzero gadd vzero vadd vdivn vltb requires_closure opt_step closure_opt draw).
  Local Notation fit := (Solver.fit loss gradl metric nmetrics gzero gadd vzero vadd vdivn vltb requires_closure opt_step closure_opt draw).
  Local Notation run_op := (Solver.run_op loss gradl metric nmetrics gzero gadd vzero vadd vdivn vltb requires_closure opt_step closure_opt draw).
  Local Notation run_ops := (Solver.run_ops loss gradl metric nmetrics gzero gadd vzero vadd vdivn vltb requires_closure opt_step closure_opt draw).
  Local Notation init := (Solver.init V nmetrics gzero).

  (* lemmas of the earlier files, applied to the components above *)
  Local Notation batches := (C15_base.batches B draw).
  Local Notation same_book := (C15_base.same_book P G V O C).
  Local Notation same_book_refl := (C15_base.same_book_refl P G V O C).
  Local Notation same_book_trans := (C15_base.same_book_trans P G V O C).
  Local Notation batch_step_book := (C15_base.batch_step_book P G B V O C loss gradl metric gadd vadd closure_opt draw).
  Local Notation run_batches_book := (C15_base.run_batches_book P G B V O C loss gradl metric gadd vadd closure_opt draw).
  Local Notation batch_step_cur := (C15_base.batch_step_cur P G B V O C loss gradl metric gadd vadd closure_opt draw).
  Local Notation run_batches_cur := (C15_base.run_batches_cur P G B V O C loss gradl metric gadd vadd closure_opt draw).
  Local Notation batch_step_fixed := (C15_base.batch_step_fixed P G B V O C loss gradl metric gadd vadd closure_opt draw).
  Local Notation run_batches_fixed := (C15_base.run_batches_fixed P G B V O C loss gradl metric gadd vadd closure_opt draw).
  Local Notation batch_step_events := (C15_base.batch_step_events P G B V O C loss gradl metric gadd vadd closure_opt draw).
  Local Notation run_batches_events := (C15_base.run_batches_events P G B V O C loss gradl metric gadd vadd closure_opt draw).
  Local Notation state_ext := (C15_base.state_ext P G V O C).
  Local Notation set_cur := (C15_base.set_cur P G V O C).
  Local Notation run_batches_fixed_state := (C15_base.run_batches_fixed_state P G B V O C loss gradl metric gadd vadd closure_opt draw).
  Local Notation cstate := (C15_base.cstate P G V O).
  Local Notation closure_batch := (C15_base.closure_batch P G B V O C loss gradl metric vadd closure_opt).
  Local Notation run_batches_closure := (C15_base.run_batches_closure P G B V O C loss gradl metric gadd vadd closure_opt draw).
  Local Notation better := (C15_base.better P G V O C vltb).
  Local Notation update_best_snoc := (C15_base.update_best_snoc P G V O C vltb).
  Local Notation run_epoch_zero := (C15_base.run_epoch_zero P G B V O C loss gradl metric nmetrics gzero gadd vzero vadd vdivn vltb requires_closure opt_step closure_opt draw).
  Local Notation push_each_length := (C15_base.push_each_length V).
  Local Notation push_each_Forall := (C15_base.push_each_Forall V).
  Local Notation met_add_from_length := (C15_base.met_add_from_length P B V C metric vadd).
  Local Notation fold_met_length := (C15_base.fold_met_length P B V C metric vadd).
  Local Notation pre_state := (C15_base.pre_state P G V O C gzero requires_closure).
  Local Notation epoch_batches := (C15_base.epoch_batches P G B V O C loss gradl metric nmetrics gzero gadd vzero vadd requires_closure closure_opt draw).
  Local Notation means := (C15_base.means V vdivn).
  Local Notation epoch_loss := (C15_base.epoch_loss P G B V O C loss gradl metric nmetrics gzero gadd vzero vadd vdivn requires_closure closure_opt draw).
  Local Notation pre_state_book := (C15_base.pre_state_book P G V O C gzero requires_closure).
  Local Notation epoch_batches_book := (C15_base.epoch_batches_book P G B V O C loss gradl metric nmetrics gzero gadd vzero vadd requires_closure closure_opt draw).
  Local Notation run_epoch_unfold := (C15_base.run_epoch_unfold P G B V O C loss gradl metric nmetrics gzero gadd vzero vadd vdivn vltb requires_closure opt_step closure_opt draw).
  Local Notation ctl := (C15_base.ctl P G V O C).
  Local Notation ctl_of_book := (C15_base.ctl_of_book P G V O C).
  Local Notation ctl_push_hist := (C15_base.ctl_push_hist P G V O C).
  Local Notation ctl_update_best := (C15_base.ctl_update_best P G V O C vltb).
  Local Notation ctl_do_step := (C15_base.ctl_do_step P G V O C opt_step).
  Local Notation ctl_push_metrics := (C15_base.ctl_push_metrics P G V O C).
  Local Notation ctl_run_epoch := (C15_base.ctl_run_epoch P G B V O C loss gradl metric nmetrics gzero gadd vzero vadd vdivn vltb requires_closure opt_step closure_opt draw).
  Local Notation hists_update_best := (C15_base.hists_update_best P G V O C vltb).
  Local Notation hists_do_step := (C15_base.hists_do_step P G V O C opt_step).
  Local Notation a_met_length := (C15_base.a_met_length P G B V O C loss gradl metric gadd vadd closure_opt draw).
  Local Notation epoch_met_length := (C15_base.epoch_met_length P G B V O C loss gradl metric nmetrics gzero gadd vzero vadd requires_closure closure_opt draw).
  Local Notation run_epoch_hists := (C15_base.run_epoch_hists P G B V O C loss gradl metric nmetrics gzero gadd vzero vadd vdivn vltb requires_closure opt_step closure_opt draw).
  Local Notation events_update_best := (C15_base.events_update_best P G V O C vltb).
  Local Notation events_do_step := (C15_base.events_do_step P G V O C opt_step).
  Local Notation step_count := (C15_base.step_count P G V O C requires_closure).
  Local Notation run_epoch_events := (C15_base.run_epoch_events P G B V O C loss gradl metric nmetrics gzero gadd vzero vadd vdivn vltb requires_closure opt_step closure_opt draw).
  Local Notation rec_part := (C15_base.rec_part P G V O C).
  Local Notation rec_part_action := (C15_base.rec_part_action P G V O C).
  Local Notation rec_part_actions := (C15_base.rec_part_actions P G V O C).
  Local Notation rec_part_events := (C15_base.rec_part_events P G V O C).
  Local Notation quiet_part := (C15_base.quiet_part P G V O C).
  Local Notation run_cb_spec := (C15_base.run_cb_spec P G V O C).
  Local Notation run_cbs_from_spec := (C15_base.run_cbs_from_spec P G V O C).
  Local Notation tracks := (C05_best.tracks P G V O C).
  Local Notation bt := (C05_best.bt P G V O C).
  Local Notation new_entry := (C05_best.new_entry P G B V O C loss gradl metric nmetrics gzero gadd vzero vadd vdivn requires_closure closure_opt draw).
  Local Notation bt_do_step := (C05_best.bt_do_step P G V O C opt_step).
  Local Notation bt_push_metrics := (C05_best.bt_push_metrics P G V O C).
  Local Notation bt_run_epoch := (C05_best.bt_run_epoch P G B V O C loss gradl metric nmetrics gzero gadd vzero vadd vdivn vltb requires_closure opt_step closure_opt draw).
  Local Notation step_best := (C05_best.step_best P V C vltb).
  Local Notation scan := (C05_best.scan P V C vltb).
  Local Notation Best_inv := (C05_best.Best_inv P G V O C vltb).
  Local Notation scan_snoc := (C05_best.scan_snoc P V C vltb).
  Local Notation best_inv_epoch := (C05_best.best_inv_epoch P G B V O C loss gradl metric nmetrics gzero gadd vzero vadd vdivn vltb requires_closure opt_step closure_opt draw).
  Local Notation best_inv_same := (C05_best.best_inv_same P G V O C vltb).
  Local Notation bt_action := (C05_best.bt_action P G V O C).
  Local Notation bt_cbs := (C05_best.bt_cbs P G V O C).
  Local Notation best_inv_iteration := (C05_best.best_inv_iteration P G B V O C loss gradl metric nmetrics gzero gadd vzero vadd vdivn vltb requires_closure opt_step closure_opt draw).
  Local Notation best_inv_fit_loop := (C05_best.best_inv_fit_loop P G B V O C loss gradl metric nmetrics gzero gadd vzero vadd vdivn vltb requires_closure opt_step closure_opt draw).
  Local Notation best_inv_ops := (C05_best.best_inv_ops P G B V O C loss gradl metric nmetrics gzero gadd vzero vadd vdivn vltb requires_closure opt_step closure_opt draw).
  Local Notation scan_none := (C05_best.scan_none P V C vltb).
  Local Notation scan_spec := (C05_best.scan_spec P V C vltb).
  Local Notation best_inv_init := (C05_best.best_inv_init P G V O C nmetrics gzero vltb).
  Local Notation best_inv := (C05_best.best_inv P G B V O C loss gradl metric nmetrics gzero gadd vzero vadd vdivn vltb requires_closure opt_step closure_opt draw).
  Local Notation act_ok := (C05_best.act_ok P G V O C).
  Local Notation op_ok := (C05_best.op_ok P G V O C).
  Local Notation keeps_valid_on := (C05_best.keeps_valid_on P O C).
  Local Notation keeps_valid_off := (C05_best.keeps_valid_off P O C).
  Local Notation Tr_valid := (C05_best.Tr_valid P G V O C).
  Local Notation Tr_train := (C05_best.Tr_train P G V O C).
  Local Notation nbv_run_epoch := (C05_best.nbv_run_epoch P G B V O C loss gradl metric nmetrics gzero gadd vzero vadd vdivn vltb requires_closure opt_step closure_opt draw).
  Local Notation tr_valid_epoch := (C05_best.tr_valid_epoch P G B V O C loss gradl metric nmetrics gzero gadd vzero vadd vdivn vltb requires_closure opt_step closure_opt draw).
  Local Notation tr_train_epoch := (C05_best.tr_train_epoch P G B V O C loss gradl metric nmetrics gzero gadd vzero vadd vdivn vltb requires_closure opt_step closure_opt draw).
  Local Notation inv_acts := (C05_best.inv_acts P G V O C).
  Local Notation inv_cbs_from := (C05_best.inv_cbs_from P G V O C).
  Local Notation tr_valid_act := (C05_best.tr_valid_act P G V O C).
  Local Notation tr_train_act := (C05_best.tr_train_act P G V O C).
  Local Notation tracked_is_valid_history := (C05_best.tracked_is_valid_history P G B V O C loss gradl metric nmetrics gzero gadd vzero vadd vdivn vltb requires_closure opt_step closure_opt draw).
  Local Notation tracked_is_train_history := (C05_best.tracked_is_train_history P G B V O C loss gradl metric nmetrics gzero gadd vzero vadd vdivn vltb requires_closure opt_step closure_opt draw).
  Local Notation strictly_lower := (C05_best.strictly_lower V vltb).
  Local Notation improves := (C05_best.improves P G V O C vltb).
  Local Notation improves_refl := (C05_best.improves_refl P G V O C vltb).
  Local Notation improves_trans := (C05_best.improves_trans P G V O C vltb).
  Local Notation improves_same := (C05_best.improves_same P G V O C vltb).
  Local Notation best_frozen_epoch := (C05_best.best_frozen_epoch P G B V O C loss gradl metric nmetrics gzero gadd vzero vadd vdivn vltb requires_closure opt_step closure_opt draw).
  Local Notation improves_iteration := (C05_best.improves_iteration P G B V O C loss gradl metric nmetrics gzero gadd vzero vadd vdivn vltb requires_closure opt_step closure_opt draw).
  Local Notation improves_fit_loop := (C05_best.improves_fit_loop P G B V O C loss gradl metric nmetrics gzero gadd vzero vadd vdivn vltb requires_closure opt_step closure_opt draw).
  Local Notation best_frozen := (C05_best.best_frozen P G B V O C loss gradl metric nmetrics gzero gadd vzero vadd vdivn vltb requires_closure opt_step closure_opt draw).
  Local Notation mean_loss := (C05_best.mean_loss P B V C loss vzero vadd vdivn draw).
  Local Notation reproduces := (C05_best.reproduces P B V C loss vzero vadd vdivn draw).
  Local Notation new_entry_reproduces := (C05_best.new_entry_reproduces P G B V O C loss gradl metric nmetrics gzero gadd vzero vadd vdivn requires_closure closure_opt draw).
  Local Notation Rep_inv := (C05_best.Rep_inv P G B V O C loss vzero vadd vdivn draw).
  Local Notation rep_epoch := (C05_best.rep_epoch P G B V O C loss gradl metric nmetrics gzero gadd vzero vadd vdivn vltb requires_closure opt_step closure_opt draw).
  Local Notation rep_same := (C05_best.rep_same P G B V O C loss vzero vadd vdivn draw).
  Local Notation rep_fit_loop := (C05_best.rep_fit_loop P G B V O C loss gradl metric nmetrics gzero gadd vzero vadd vdivn vltb requires_closure opt_step closure_opt draw).
  Local Notation rep_ops := (C05_best.rep_ops P G B V O C loss gradl metric nmetrics gzero gadd vzero vadd vdivn vltb requires_closure opt_step closure_opt draw).
  Local Notation best_reproduces := (C05_best.best_reproduces P G B V O C loss gradl metric nmetrics gzero gadd vzero vadd vdivn vltb requires_closure opt_step closure_opt draw).
  Local Notation closure_final := (C05_best.closure_final P G B V O C loss gradl closure_opt).
  Local Notation closure_pts := (C05_best.closure_pts P G B V O C loss gradl closure_opt).
  Local Notation closure_fold_spec := (C05_best.closure_fold_spec P G B V O C loss gradl metric vadd closure_opt).
  Local Notation best_closure_novalid_partial := (C05_best.best_closure_novalid_partial P G B V O C loss gradl metric nmetrics gzero gadd vzero vadd vdivn vltb requires_closure opt_step closure_opt draw).
  Local Notation gen_guard_is_model := (C04_gen.gen_guard_is_model P G B V O C loss gradl metric nmetrics gzero gadd vzero vadd vdivn vltb requires_closure opt_step closure_opt draw).
  Local Notation gen_entries_are_model := (C04_gen.gen_entries_are_model P G B V O C loss gradl metric nmetrics gzero gadd vzero vadd vdivn vltb requires_closure opt_step closure_opt draw).
  Local Notation gen_tracks_is_model := (C04_gen.gen_tracks_is_model P G V O C).
  Local Notation gen_better_is_model := (C04_gen.gen_better_is_model P G V O C vltb).
  Local Notation gen_update_best_is_model := (C04_gen.gen_update_best_is_model P G V O C vltb).

  Hypothesis vlt_trans : forall a b c, vltb a b = true -> vltb b c = true -> vltb a c = true.
  Hypothesis vlt_cotrans : forall a b c, vltb a b = true -> vltb a c = true \/ vltb c b = true.

  Theorem C05_best_inv : forall (ops : list op) p o c l nbt nbv,
    let s := run_ops ops (init p o c l nbt nbv) in
    (tracked s = [] /\ lowest s = None /\ best s = None) \/
    exists l1 e l2, tracked s = l1 ++ e :: l2 /\
                    lowest s = Some (t_val e) /\ best s = Some (t_theta e) /\
                    Forall (fun e' => vltb (t_val e) (t_val e') = true) l1 /\
                    Forall (fun e' => vltb (t_val e') (t_val e) = false) l2.
  Proof. exact (best_inv vlt_trans vlt_cotrans). Qed.

  Theorem C05_tracked_is_valid_history : forall (ops : list op) p o c l nbt nbv,
    nbv <> 0 -> Forall (op_ok keeps_valid_on) ops ->
    let s := run_ops ops (init p o c l nbt nbv) in
    map (@t_val P V C) (tracked s) = h_valid s.
  Proof. exact tracked_is_valid_history. Qed.

  Theorem C05_tracked_is_train_history : forall (ops : list op) p o c l nbt,
    Forall (op_ok keeps_valid_off) ops ->
    let s := run_ops ops (init p o c l nbt 0) in
    map (@t_val P V C) (tracked s) = h_train s.
  Proof. exact tracked_is_train_history. Qed.

  Theorem C05_best_frozen_epoch : forall ph (s : state),
    improves s (run_epoch ph s) /\
    (nb ph s = 0 \/ tracks ph s = false \/ better (epoch_loss ph s) s = false ->
     lowest (run_epoch ph s) = lowest s /\ best (run_epoch ph s) = best s).
  Proof. exact best_frozen_epoch. Qed.

  Theorem C05_best_frozen : forall (ops : list op) (s : state), improves s (run_ops ops s).
  Proof. exact (best_frozen vlt_trans). Qed.

  Theorem C05_best_reproduces : forall (ops : list op) p o c l nbt nbv,
    let s := run_ops ops (init p o c l nbt nbv) in
    forall l1 e l2, tracked s = l1 ++ e :: l2 -> lowest s = Some (t_val e) -> best s = Some (t_theta e) ->
    t_phase e = Valid \/ t_closure e = false ->
    mean_loss (t_lid e) (t_conds e) (t_theta e) (t_phase e) (t_start e) (t_n e) = t_val e.
  Proof. exact best_reproduces. Qed.

  Theorem C05_best_closure_novalid_partial : forall (s : state) (d : P),
    nb_train s <> 0 -> requires_closure (ost s) = true -> nb_valid s = 0 ->
    let bs := batches Train (cur_train s) (nb_train s) in
    Forall (fun bp => snd bp <> []) (closure_pts (lid s) (conds s) (ost s) (theta s) bs) ->
    exists e, tracked (run_epoch Train s) = tracked s ++ [e] /\
              t_theta e = closure_final (lid s) (conds s) (ost s) (theta s) bs /\
              t_val e = vdivn (fold_left vadd
                                 (map (fun bp => loss (lid s) (conds s) (last (snd bp) d) (fst bp))
                                      (closure_pts (lid s) (conds s) (ost s) (theta s) bs)) vzero) (nb_train s).
  Proof. exact best_closure_novalid_partial. Qed.

  Theorem C05_gen_tracks : forall ph (s : state), tracks ph s = gen_tracks (negb (is_train ph)) (nb_valid s).
  Proof. exact gen_tracks_is_model. Qed.

  Theorem C05_gen_better : forall (leb : V -> V -> bool) (v : V) (s : state),
    better v s = gen_better vltb leb (lowest s) v.
  Proof. exact gen_better_is_model. Qed.

  Theorem C05_gen_update_best : forall (leb : V -> V -> bool) ph clo (s : state) h v,
    hist ph s = h ++ [v] ->
    gen_current_loss (hist ph s) = Some v /\
    (lowest (update_best ph clo s), best (update_best ph clo s)) =
    gen_update_best vltb leb (lowest s) (best s) v (theta s).
  Proof. exact gen_update_best_is_model. Qed.

End P_C05.
