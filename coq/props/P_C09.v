(* P_C09 — property theorems for C09 (spherical and cylindrical operators agree with the
   Cartesian definitions; conversion helpers are mutual inverses).  Statements only.
   `Gen_C09.*` is regenerated from /repo/neurodiffeq/operators.py on every run; the specification
   side (`Sph.*`, `Cyl.*`: Cartesian partials through the inverse Jacobian, frames) is
   proofs/C09_spec.v.  Fields: F3 f = symbol f of the three curvilinear coordinates, arbitrary
   jets.  Points: every venv with r <> 0, sin theta <> 0 (resp. rho <> 0). *)
From Coq Require Import Reals List.
From ND.lib Require Import Expr.
From ND.lib Require Atan2.
From ND.gen Require Import Gen_C09.
From ND.proofs Require Import C09_spec C09_sph C09_cyl C09_conv.
Import ListNotations.
Open Scope R_scope.

Definition A3 := (F3 0, F3 1, F3 2).

(* ---- the specification's Cartesian partials are anchored in the code's own coordinate map *)
Theorem C09_sph_jacobian_inverse : forall venv penv fenv, venv 0%nat <> 0 -> sin (venv 1%nat) <> 0 ->
  let ev := eval venv penv fenv in
  ev (Sph.dx spherical_to_cartesian.term_0) = 1 /\ ev (Sph.dy spherical_to_cartesian.term_0) = 0 /\
  ev (Sph.dz spherical_to_cartesian.term_0) = 0 /\
  ev (Sph.dx spherical_to_cartesian.term_1) = 0 /\ ev (Sph.dy spherical_to_cartesian.term_1) = 1 /\
  ev (Sph.dz spherical_to_cartesian.term_1) = 0 /\
  ev (Sph.dx spherical_to_cartesian.term_2) = 0 /\ ev (Sph.dy spherical_to_cartesian.term_2) = 0 /\
  ev (Sph.dz spherical_to_cartesian.term_2) = 1.
Proof. exact sph_jacobian_inverse. Qed.

Theorem C09_cyl_jacobian_inverse : forall venv penv fenv, venv 0%nat <> 0 ->
  let ev := eval venv penv fenv in
  ev (Cyl.dx cylindrical_to_cartesian.term_0) = 1 /\ ev (Cyl.dy cylindrical_to_cartesian.term_0) = 0 /\
  ev (Cyl.dz cylindrical_to_cartesian.term_0) = 0 /\
  ev (Cyl.dx cylindrical_to_cartesian.term_1) = 0 /\ ev (Cyl.dy cylindrical_to_cartesian.term_1) = 1 /\
  ev (Cyl.dz cylindrical_to_cartesian.term_1) = 0 /\
  ev (Cyl.dx cylindrical_to_cartesian.term_2) = 0 /\ ev (Cyl.dy cylindrical_to_cartesian.term_2) = 0 /\
  ev (Cyl.dz cylindrical_to_cartesian.term_2) = 1.
Proof. exact cyl_jacobian_inverse. Qed.

(* ---- spherical operators *)
Theorem C09_sph_grad : forall venv penv fenv, venv 0%nat <> 0 -> sin (venv 1%nat) <> 0 ->
  let ev := eval venv penv fenv in
  ev spherical_grad.term_0 = ev (fst3 (Sph.frame (Sph.grad (F3 0)))) /\
  ev spherical_grad.term_1 = ev (snd3 (Sph.frame (Sph.grad (F3 0)))) /\
  ev spherical_grad.term_2 = ev (thd3 (Sph.frame (Sph.grad (F3 0)))).
Proof. exact sph_grad_ok. Qed.

Theorem C09_sph_div : forall venv penv fenv, venv 0%nat <> 0 -> sin (venv 1%nat) <> 0 ->
  eval venv penv fenv spherical_div.term = eval venv penv fenv (Sph.div (Sph.cart A3)).
Proof. exact sph_div_ok. Qed.

Theorem C09_sph_curl : forall venv penv fenv, venv 0%nat <> 0 -> sin (venv 1%nat) <> 0 ->
  let ev := eval venv penv fenv in
  ev spherical_curl.term_0 = ev (fst3 (Sph.frame (Sph.curl (Sph.cart A3)))) /\
  ev spherical_curl.term_1 = ev (snd3 (Sph.frame (Sph.curl (Sph.cart A3)))) /\
  ev spherical_curl.term_2 = ev (thd3 (Sph.frame (Sph.curl (Sph.cart A3)))).
Proof. exact sph_curl_ok. Qed.

Theorem C09_sph_laplacian : forall venv penv fenv, venv 0%nat <> 0 -> sin (venv 1%nat) <> 0 ->
  eval venv penv fenv spherical_laplacian.term = eval venv penv fenv (Sph.lap (F3 0)).
Proof. exact sph_lap_ok. Qed.

Theorem C09_sph_vector_laplacian_r : forall venv penv fenv, venv 0%nat <> 0 -> sin (venv 1%nat) <> 0 ->
  eval venv penv fenv spherical_vector_laplacian.term_0 = eval venv penv fenv (fst3 (Sph.frame (Sph.vlap (Sph.cart A3)))).
Proof. exact sph_vlap_r_ok. Qed.
Theorem C09_sph_vector_laplacian_theta : forall venv penv fenv, venv 0%nat <> 0 -> sin (venv 1%nat) <> 0 ->
  eval venv penv fenv spherical_vector_laplacian.term_1 = eval venv penv fenv (snd3 (Sph.frame (Sph.vlap (Sph.cart A3)))).
Proof. exact sph_vlap_th_ok. Qed.
Theorem C09_sph_vector_laplacian_phi : forall venv penv fenv, venv 0%nat <> 0 -> sin (venv 1%nat) <> 0 ->
  eval venv penv fenv spherical_vector_laplacian.term_2 = eval venv penv fenv (thd3 (Sph.frame (Sph.vlap (Sph.cart A3)))).
Proof. exact sph_vlap_ph_ok. Qed.

(* ---- cylindrical operators *)
Theorem C09_cyl_grad : forall venv penv fenv, venv 0%nat <> 0 ->
  let ev := eval venv penv fenv in
  ev cylindrical_grad.term_0 = ev (fst3 (Cyl.frame (Cyl.grad (F3 0)))) /\
  ev cylindrical_grad.term_1 = ev (snd3 (Cyl.frame (Cyl.grad (F3 0)))) /\
  ev cylindrical_grad.term_2 = ev (thd3 (Cyl.frame (Cyl.grad (F3 0)))).
Proof. exact cyl_grad_ok. Qed.

Theorem C09_cyl_div : forall venv penv fenv, venv 0%nat <> 0 ->
  eval venv penv fenv cylindrical_div.term = eval venv penv fenv (Cyl.div (Cyl.cart A3)).
Proof. exact cyl_div_ok. Qed.

Theorem C09_cyl_curl : forall venv penv fenv, venv 0%nat <> 0 ->
  let ev := eval venv penv fenv in
  ev cylindrical_curl.term_0 = ev (fst3 (Cyl.frame (Cyl.curl (Cyl.cart A3)))) /\
  ev cylindrical_curl.term_1 = ev (snd3 (Cyl.frame (Cyl.curl (Cyl.cart A3)))) /\
  ev cylindrical_curl.term_2 = ev (thd3 (Cyl.frame (Cyl.curl (Cyl.cart A3)))).
Proof. exact cyl_curl_ok. Qed.

Theorem C09_cyl_laplacian : forall venv penv fenv, venv 0%nat <> 0 ->
  eval venv penv fenv cylindrical_laplacian.term = eval venv penv fenv (Cyl.lap (F3 0)).
Proof. exact cyl_lap_ok. Qed.

Theorem C09_cyl_vector_laplacian : forall venv penv fenv, venv 0%nat <> 0 ->
  let ev := eval venv penv fenv in
  ev cylindrical_vector_laplacian.term_0 = ev (fst3 (Cyl.frame (Cyl.vlap (Cyl.cart A3)))) /\
  ev cylindrical_vector_laplacian.term_1 = ev (snd3 (Cyl.frame (Cyl.vlap (Cyl.cart A3)))) /\
  ev cylindrical_vector_laplacian.term_2 = ev (thd3 (Cyl.frame (Cyl.vlap (Cyl.cart A3)))).
Proof. exact cyl_vlap_ok. Qed.

(* ---- conversions: mutual inverses (angles through (cos, sin), i.e. modulo 2 pi) and ranges.
   atan2 is any function with the defining contract of torch.atan2. *)
Definition atan2_contract (atan2 : R -> R -> R) : Prop :=
  (forall y x, x * x + y * y <> 0 -> cos (atan2 y x) = x / sqrt (x * x + y * y)) /\
  (forall y x, x * x + y * y <> 0 -> sin (atan2 y x) = y / sqrt (x * x + y * y)) /\
  (forall y x, - PI < atan2 y x <= PI) /\ (forall y x, 0 <= y -> 0 <= atan2 y x).

Theorem C09_s2c_c2s : forall atan2, atan2_contract atan2 -> forall penv fenv x y z,
  x * x + y * y <> 0 ->
  let q := s2c penv fenv (c2s atan2 penv fenv (env3 x y z)) in q 0%nat = x /\ q 1%nat = y /\ q 2%nat = z.
Proof. intros a (H1 & H2 & H3 & H4). exact (s2c_c2s a H1 H2). Qed.

Theorem C09_c2s_s2c : forall atan2, atan2_contract atan2 -> forall penv fenv r th ph,
  0 < r -> 0 < sin th ->
  let q := c2s atan2 penv fenv (s2c penv fenv (env3 r th ph)) in
  q 0%nat = r /\ cos (q 1%nat) = cos th /\ sin (q 1%nat) = sin th /\ cos (q 2%nat) = cos ph /\ sin (q 2%nat) = sin ph.
Proof. intros a (H1 & H2 & H3 & H4). exact (c2s_s2c a H1 H2). Qed.

Theorem C09_c2s_ranges : forall atan2, atan2_contract atan2 -> forall penv fenv x y z,
  let q := c2s atan2 penv fenv (env3 x y z) in 0 <= q 0%nat /\ 0 <= q 1%nat <= PI /\ - PI < q 2%nat <= PI.
Proof. intros a (H1 & H2 & H3 & H4). exact (c2s_ranges a H3 H4). Qed.

Theorem C09_cyl2c_c2cyl : forall atan2, atan2_contract atan2 -> forall penv fenv x y z,
  x * x + y * y <> 0 ->
  let q := cyl2c penv fenv (c2cyl atan2 penv fenv (env3 x y z)) in q 0%nat = x /\ q 1%nat = y /\ q 2%nat = z.
Proof. intros a (H1 & H2 & H3 & H4). exact (cyl2c_c2cyl a H1 H2). Qed.

Theorem C09_c2cyl_cyl2c : forall atan2, atan2_contract atan2 -> forall penv fenv rho ph z,
  0 < rho ->
  let q := c2cyl atan2 penv fenv (cyl2c penv fenv (env3 rho ph z)) in
  q 0%nat = rho /\ cos (q 1%nat) = cos ph /\ sin (q 1%nat) = sin ph /\ q 2%nat = z.
Proof. intros a (H1 & H2 & H3 & H4). exact (c2cyl_cyl2c a H1 H2). Qed.

Theorem C09_c2cyl_ranges : forall atan2, atan2_contract atan2 -> forall penv fenv x y z,
  let q := c2cyl atan2 penv fenv (env3 x y z) in 0 <= q 0%nat /\ - PI < q 1%nat <= PI.
Proof. intros a (H1 & H2 & H3 & H4). exact (c2cyl_ranges a H3). Qed.

(* ---- the contract is satisfiable, and for the concrete two-argument arctangent of lib/Atan2.v the
   conversion theorems need no hypothesis about atan2 at all; with theta strictly inside (0, pi) the
   spherical round trip returns the polar angle itself. *)
Theorem C09_atan2_contract_satisfiable : atan2_contract Atan2.atan2.
Proof. exact (conj Atan2.atan2_cos (conj Atan2.atan2_sin (conj Atan2.atan2_range Atan2.atan2_upper))). Qed.

Theorem C09_c2s_s2c_concrete : forall penv fenv r th ph, 0 < r -> 0 < sin th ->
  let q := c2s Atan2.atan2 penv fenv (s2c penv fenv (env3 r th ph)) in
  q 0%nat = r /\ cos (q 1%nat) = cos th /\ sin (q 1%nat) = sin th /\
  cos (q 2%nat) = cos ph /\ sin (q 2%nat) = sin ph.
Proof. exact c2s_s2c_atan2. Qed.

Theorem C09_s2c_c2s_concrete : forall penv fenv x y z, x * x + y * y <> 0 ->
  let q := s2c penv fenv (c2s Atan2.atan2 penv fenv (env3 x y z)) in q 0%nat = x /\ q 1%nat = y /\ q 2%nat = z.
Proof. exact s2c_c2s_atan2. Qed.

Theorem C09_c2s_theta_exact : forall penv fenv r th ph, 0 < r -> 0 < th < PI ->
  c2s Atan2.atan2 penv fenv (s2c penv fenv (env3 r th ph)) 1%nat = th.
Proof. exact c2s_s2c_theta_exact. Qed.
