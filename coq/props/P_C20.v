(* P_C20 — property theorems for C20 (legacy space-time API, neurodiffeq/temporal.py).
   Only statements, each closed by `exact <lemma of proofs/C20_*.v>`.
   `Gen_C20.Approx*.term` (pyfront) and `Gen_C20.generator_*_{init,step}` (sampler translator of
   tools/props/t_C20.py) are regenerated from the current source on every run. *)
From Coq Require Import String.
From Coq Require Import Reals List Arith Permutation.
From Coquelicot Require Import Coquelicot.
From ND.lib Require Import Expr ExprSound.
From ND.model Require Import Legacy.
From ND.gen Require Import Gen_C20.
From ND.proofs Require Import C20_approx C20_samplers C20_loops C20_genloops.
Import ListNotations.
Open Scope R_scope.

(* ================= exact initial state, for every network (every jet family fenv) ============ *)

Theorem C20_approx1d_init : forall venv penv fenv,
  venv Approx1D.v_tt = 0 ->
  eval venv penv fenv Approx1D.term = fenv Approx1D.f_u0 [0%nat] [venv Approx1D.v_xx].
Proof. exact approx1d_init. Qed.

Theorem C20_approx2d_init : forall venv penv fenv,
  venv Approx2D_first.v_tt = 0 ->
  eval venv penv fenv Approx2D_first.term
  = fenv Approx2D_first.f_u0 [0%nat; 0%nat] [venv Approx2D_first.v_xx; venv Approx2D_first.v_yy].
Proof. exact approx2d_init. Qed.

Theorem C20_approx2d_second_init_value : forall venv penv fenv,
  venv Approx2D_second.v_tt = 0 ->
  eval venv penv fenv Approx2D_second.term
  = fenv Approx2D_second.f_u0 [0%nat; 0%nat] [venv Approx2D_second.v_xx; venv Approx2D_second.v_yy].
Proof. exact approx2d_second_init_value. Qed.

Theorem C20_approx2d_second_init_deriv : forall venv penv fenv,
  venv Approx2D_second.v_tt = 0 ->
  eval venv penv fenv (D Approx2D_second.v_tt Approx2D_second.term)
  = fenv Approx2D_second.f_u0dot [0%nat; 0%nat] [venv Approx2D_second.v_xx; venv Approx2D_second.v_yy].
Proof. exact approx2d_second_init_deriv. Qed.

(* analytic form: for every differentiable network, d/dt u(x,y,t) at t = 0 is u0dot(x,y) *)
Theorem C20_approx2d_second_is_derive : forall venv penv fenv, coherent fenv ->
  is_derive (fun t => eval (upd venv Approx2D_second.v_tt t) penv fenv Approx2D_second.term) 0
            (fenv Approx2D_second.f_u0dot [0%nat; 0%nat] [venv Approx2D_second.v_xx; venv Approx2D_second.v_yy]).
Proof. exact approx2d_second_is_derive. Qed.

(* the network really is what is transformed (the formulas of the docstrings) *)
Theorem C20_approx1d_form : forall venv penv fenv,
  eval venv penv fenv Approx1D.term =
    exp (- venv Approx1D.v_tt) * fenv Approx1D.f_u0 [0%nat] [venv Approx1D.v_xx]
    + (1 - exp (- venv Approx1D.v_tt)) * fenv Approx1D.f_N [0%nat; 0%nat] [venv Approx1D.v_xx; venv Approx1D.v_tt].
Proof. exact approx1d_form. Qed.

Theorem C20_approx2d_steady_is_net : forall venv penv fenv,
  eval venv penv fenv Approx2D_steady.term
  = fenv Approx2D_steady.f_N [0%nat; 0%nat] [venv Approx2D_steady.v_xx; venv Approx2D_steady.v_yy].
Proof. exact approx2d_steady_is_net. Qed.

(* ================= samplers: EVERY draw, one point per equal-width stratum =================== *)
(* k = draw index (0 = first `next`), cur = number of torch.rand calls made before the generator
   was created, rnd = any oracle with values in [0,1), i = point index.                          *)

Theorem C20_sampler1d_all_draws : forall (rnd : nat -> nat -> R) (size : nat) (x_min x_max : R) (random : bool),
  unit_draws rnd -> (1 <= size)%nat -> x_min <= x_max ->
  forall k cur i, (i < size)%nat ->
  stratum x_min x_max size i
    (draw (generator_1dspatial_step ROps rnd size x_min x_max random) k cur
          (generator_1dspatial_init ROps size x_min x_max random) i).
Proof. exact s1d_all_draws. Qed.

Theorem C20_temporal_all_draws : forall (rnd : nat -> nat -> R) (size : nat) (t_min t_max : R) (random : bool),
  unit_draws rnd -> (1 <= size)%nat -> t_min <= t_max ->
  forall k cur i, (i < size)%nat ->
  stratum t_min t_max size i
    (draw (generator_temporal_step ROps rnd size t_min t_max random) k cur
          (generator_temporal_init ROps size t_min t_max random) i).
Proof. exact temporal_all_draws. Qed.

(* point r of the rectangle sampler lies in cell (r / ny, r mod ny) of the nx x ny grid of cells *)
Theorem C20_rectangle_all_draws : forall (rnd : nat -> nat -> R) (nx ny : nat) (x_min x_max y_min y_max : R) (random : bool),
  unit_draws rnd -> (1 <= nx)%nat -> (1 <= ny)%nat -> x_min <= x_max -> y_min <= y_max ->
  forall k cur r, (r < nx * ny)%nat ->
  rect_cell nx ny x_min x_max y_min y_max r
    (draw (generator_2dspatial_rectangle_step ROps rnd (nx, ny) x_min x_max y_min y_max random) k cur
          (generator_2dspatial_rectangle_init ROps (nx, ny) x_min x_max y_min y_max random)).
Proof. exact rect_all_draws. Qed.

(* ... and r |-> (r / ny, r mod ny) enumerates every cell exactly once *)
Theorem C20_rectangle_cells_bijective : forall (nx ny : nat), (1 <= ny)%nat ->
  (forall r, (r < nx * ny)%nat -> (r / ny < nx)%nat /\ (r mod ny < ny)%nat) /\
  (forall r r', (r / ny = r' / ny)%nat -> (r mod ny = r' mod ny)%nat -> r = r').
Proof. exact rect_cells_bijective. Qed.

Theorem C20_stratum_in_interval : forall lo hi n i x,
  (1 <= n)%nat -> (i < n)%nat -> lo <= hi -> stratum lo hi n i x -> lo <= x <= hi.
Proof. exact stratum_in_interval. Qed.

(* Segment sampler, FULL strength since fix commit 1c60fb1 (the stratum centres are no longer
   rebound; the old random walk is kept for the record in findings/F_C20_segment.v): for every draw
   index, every oracle in [0,1), random on or off, point i has a segment parameter in
   [i/size, (i+1)/size] -- in particular it lies on the segment *)
Theorem C20_segment_all_draws : forall (rnd : nat -> nat -> R) (size : nat) (x1 y1 x2 y2 : R) (random : bool),
  unit_draws rnd -> (1 <= size)%nat ->
  forall k cur i, (i < size)%nat ->
  let out := draw (generator_2dspatial_segment_step ROps rnd size (x1, y1) (x2, y2) random) k cur
                  (generator_2dspatial_segment_init ROps size (x1, y1) (x2, y2) random) in
  segment_stratum x1 y1 x2 y2 size i (fst out i) (snd out i).
Proof. exact segment_all_draws. Qed.

Theorem C20_segment_stratum_on_segment : forall x1 y1 x2 y2 n i x y,
  (1 <= n)%nat -> (i < n)%nat -> segment_stratum x1 y1 x2 y2 n i x y ->
  exists s, 0 <= s <= 1 /\ x = x1 + (x2 - x1) * s /\ y = y1 + (y2 - y1) * s.
Proof. exact segment_stratum_on_segment. Qed.

(* ================= training loops ============================================================ *)
Local Open Scope nat_scope.

(* for batch_size >= 1 and any permutation idx of the training set the loop terminates and the
   batches, concatenated, are idx: every training point exactly once per epoch, also when
   batch_size does not divide the training-set size; no batch is empty or longer than batch_size *)
Theorem C20_minibatch_partition : forall (n : nat) (idx : list nat) (bs : nat),
  Permutation idx (seq 0 n) -> 1 <= bs ->
  exists bsl, minibatches idx n bs = Some bsl
              /\ concat bsl = idx
              /\ Permutation (concat bsl) (seq 0 n)
              /\ List.Forall (fun b => 1 <= length b <= bs) bsl.
Proof. exact minibatch_partition. Qed.

(* the calls a (spying) approximator sees in one epoch: the batches, then epoch loss / metrics on
   the whole training set, then validation loss / metrics *)
Theorem C20_epoch_calls : forall (n : nat) (idx : list nat) (bs : nat),
  Permutation idx (seq 0 n) -> 1 <= bs ->
  exists bsl, epoch_calls idx n bs
              = Some (map CLossBatch bsl ++ [CLossTrainAll; CMetricsTrainAll; CLossValid; CMetricsValid])
              /\ concat bsl = idx.
Proof. exact epoch_calls_spec. Qed.

(* after max_epochs epochs every series of the history has exactly one entry per epoch, and the
   e-th entry of a series is the value epoch e produced for it (metric names distinct and none of
   them is literally "loss", which would share the key "train_loss") *)
Theorem C20_history_one_per_epoch : forall (V : Type) (tl vl : nat -> V) (tm vm : nat -> string -> V)
    (metrics : list string) (max_epochs : nat),
  NoDup metrics -> ~ In "loss"%string metrics ->
  exists h, solve tl vl tm vm metrics max_epochs = Some h
    /\ map fst h = keys metrics
    /\ (forall key f, tracked V tl vl tm vm metrics key f -> lookup V h key = Some (map f (seq 0 max_epochs)))
    /\ List.Forall (fun kv => length (snd kv) = max_epochs) h.
Proof. exact history_one_per_epoch_all. Qed.

(* ================= the same, about what the SOURCE says =======================================
   `train_*_loop_{init,cond,body}` are the index arithmetic of the `while` loops of
   _train_1dspatial_temporal / _train_2dspatial / _train_2dspatial_temporal, and
   `history_init_keys / history_init_prefixes / history_epoch_ops` the history operations of
   _solve_spatial_temporal, regenerated from temporal.py on every run (tools/props/t_C20.py,
   LoopTranslator; the translator also checks that the sliced sequence is
   `torch.randperm(N) if shuffle else torch.arange(N)` with N the loop bound and that
   calculate_loss receives the training tensors indexed by exactly that slice). *)

(* each generated loop, run with fuel n + 1, takes exactly the slices of the hand model, for every
   sequence of length n and every batch size (0 included: both sides diverge) *)
Theorem C20_train_loops_are_model : forall (A : Type) (idx : list A) (n bs : nat),
  length idx = n ->
  option_map' (slices_of idx)
    (while_fuel (train_1dspatial_temporal_loop_cond bs n) (train_1dspatial_temporal_loop_body bs n) (S n)
                (train_1dspatial_temporal_loop_init bs n)) = minibatches idx n bs /\
  option_map' (slices_of idx)
    (while_fuel (train_2dspatial_loop_cond bs n) (train_2dspatial_loop_body bs n) (S n) (train_2dspatial_loop_init bs n))
    = minibatches idx n bs /\
  option_map' (slices_of idx)
    (while_fuel (train_2dspatial_temporal_loop_cond bs n) (train_2dspatial_temporal_loop_body bs n) (S n)
                (train_2dspatial_temporal_loop_init bs n)) = minibatches idx n bs.
Proof.
  exact (fun A idx n bs E => conj (train_1dspatial_temporal_loop_model idx n bs E)
                                  (conj (train_2dspatial_loop_model idx n bs E) (train_2dspatial_temporal_loop_model idx n bs E))).
Qed.

(* hence every generated loop terminates and partitions any permutation, batch_size >= 1 *)
Theorem C20_generated_minibatch_partition : forall (n bs : nat) (idx : list nat),
  Permutation idx (seq 0 n) -> 1 <= bs ->
  partitions n bs idx (while_fuel (train_1dspatial_temporal_loop_cond bs n) (train_1dspatial_temporal_loop_body bs n) (S n)
                                  (train_1dspatial_temporal_loop_init bs n)) /\
  partitions n bs idx (while_fuel (train_2dspatial_loop_cond bs n) (train_2dspatial_loop_body bs n) (S n)
                                  (train_2dspatial_loop_init bs n)) /\
  partitions n bs idx (while_fuel (train_2dspatial_temporal_loop_cond bs n) (train_2dspatial_temporal_loop_body bs n) (S n)
                                  (train_2dspatial_temporal_loop_init bs n)).
Proof. exact generated_loops_partition. Qed.

(* the generated history operations are the hand model, hence one entry per epoch per series *)
Theorem C20_history_ops_are_model : forall (V : Type) (tl vl : nat -> V) (tm vm : nat -> string -> V)
    (metrics : list string) (max_epochs : nat),
  gen_solve tl vl tm vm history_init_keys history_init_prefixes history_epoch_ops metrics max_epochs
  = solve tl vl tm vm metrics max_epochs.
Proof. exact gen_solve_is_model. Qed.

Theorem C20_generated_history_one_per_epoch : forall (V : Type) (tl vl : nat -> V) (tm vm : nat -> string -> V)
    (metrics : list string) (max_epochs : nat),
  NoDup metrics -> ~ In "loss"%string metrics ->
  exists h, gen_solve tl vl tm vm history_init_keys history_init_prefixes history_epoch_ops metrics max_epochs = Some h
    /\ map fst h = keys metrics
    /\ (forall key f, tracked V tl vl tm vm metrics key f -> lookup V h key = Some (map f (seq 0 max_epochs)))
    /\ List.Forall (fun kv => length (snd kv) = max_epochs) h.
Proof. exact generated_history_one_per_epoch. Qed.

(* the monitor hand-off: `history` is passed to monitor.check as a copy, or no monitor class of
   temporal.py (MonitorMinimal, Monitor1DSpatialTemporal, Monitor2DSpatialTemporal, Monitor2DSpatial)
   operates in place on it -- facts regenerated from the source; user-written monitors are outside *)
Theorem C20_monitors_keep_history :
  history_handoff_is_copy = true \/ forallb (fun p => snd p) history_receivers_pure = true.
Proof. exact monitors_keep_history. Qed.
